(* C08, error funnel: lemmas about Model/C08_Funnel.v. *)
From Coq Require Import ZArith List Bool Lia.
From TV Require Import Model.C08_Funnel.
Import ListNotations.
Open Scope Z_scope.

(* `subclass e X` with a variable e must stay folded; closed instances are computed by conc *)
Arguments subclass : simpl never.

Ltac conc :=
  repeat match goal with
         | |- context [subclass ?a ?b] =>
             tryif is_var a then fail else
               (let v := eval vm_compute in (subclass a b) in change (subclass a b) with v)
         | H : context [subclass ?a ?b] |- _ =>
             tryif is_var a then fail else
               (let v := eval vm_compute in (subclass a b) in change (subclass a b) with v in H)
         end.

Ltac unf :=
  cbv [funnel layer_prefix perform through pep479 layer_handler wrapper_handler read_handler
       write_handler close_handler close_peer_alert checker_step getmsg_peer_alert
       record_handler getmsg_handler sendError record_alert getmsg_alert mapped_alert
       wrapper_alert wrapper_own_alert mapped_alert_ly decrypt_error
       under_record under_getmsg is_pretry layer_eqb wf_event escapes_handlers keeps_resumable
       unexpected_message record_overflow illegal_parameter decryption_failed bad_record_mac
       bad_certificate decode_error close_notify level_fatal level_warning] in *.

Ltac red1 :=
  repeat progress
    (cbn [closed sock_closed has_session resumable wire close_socket ignore_abrupt
          fault buffering queued shutdown emit flush unbuffer send_alert_now
          rclass rdescr andb orb negb fst snd] in *; conc).

(* destruct one boolean / option scrutinee of an `if` or `match` *)
Ltac split1 :=
  match goal with
  | H : context [if ?b then _ else _] |- _ =>
      lazymatch b with context [if _ then _ else _] => fail | _ => destruct b eqn:? end
  | |- context [if ?b then _ else _] =>
      lazymatch b with context [if _ then _ else _] => fail | _ => destruct b eqn:? end
  | H : context [match ?x with Some _ => _ | None => _ end] |- _ =>
      lazymatch x with context [if _ then _ else _] => fail | _ => destruct x eqn:? end
  | |- context [match ?x with Some _ => _ | None => _ end] =>
      lazymatch x with context [if _ then _ else _] => fail | _ => destruct x eqn:? end
  end.

(* the same, ignoring conditionals between traces (list-valued): enough, and much cheaper,
   when the goal only concerns the flags of the final state *)
Ltac split1nl :=
  match goal with
  | H : context [if ?b then ?x else _] |- _ =>
      lazymatch b with context [if _ then _ else _] => fail | _ => idtac end;
      lazymatch type of x with list _ => fail | _ => destruct b eqn:? end
  | |- context [if ?b then ?x else _] =>
      lazymatch b with context [if _ then _ else _] => fail | _ => idtac end;
      lazymatch type of x with list _ => fail | _ => destruct b eqn:? end
  | H : context [match ?x with Some _ => _ | None => _ end] |- _ =>
      lazymatch x with context [if _ then _ else _] => fail | _ => destruct x eqn:? end
  | |- context [match ?x with Some _ => _ | None => _ end] =>
      lazymatch x with context [if _ then _ else _] => fail | _ => destruct x eqn:? end
  end.

Ltac wnorm :=
  repeat rewrite <- app_assoc; repeat rewrite app_nil_r; cbn [app];
  repeat rewrite <- app_assoc; try reflexivity.

Ltac wfin :=
  cbv [alert_pre alert_tail level_warning close_notify level_fatal] in *; red1;
  repeat (split1; red1); wnorm.

Ltac fin :=
  repeat match goal with
         | H : (_, _) = (_, _) |- _ => inversion H; clear H; subst
         | H : Raised _ = Raised _ |- _ => inversion H; clear H; subst
         | H : Some _ = Some _ |- _ => inversion H; clear H; subst
         end;
  try discriminate; try congruence.

(* ---- the class table --------------------------------------------------------------- *)
Lemma exc_code_roundtrip : forall e, exc_of_code (exc_code e) = Some e.
Proof. destruct e; reflexivity. Qed.

Lemma all_exc_complete : forall e, In e all_exc.
Proof.
  intros e. pose proof (exc_code_roundtrip e) as H. unfold exc_of_code in H.
  apply find_some in H. exact (proj1 H).
Qed.

Lemma exc_code_injective : forall a b, exc_code a = exc_code b -> a = b.
Proof.
  intros a b H. pose proof (exc_code_roundtrip a) as Ha. rewrite H in Ha.
  rewrite exc_code_roundtrip in Ha. congruence.
Qed.

Lemma exc_eqb_eq : forall a b, exc_eqb a b = true <-> a = b.
Proof.
  intros a b. unfold exc_eqb. rewrite Z.eqb_eq. split; [apply exc_code_injective|congruence].
Qed.

(* the fuel of `ancestors` suffices: every class reaches the root, and is its own subclass *)
Lemma subclass_root : forall e, subclass e E_BaseException = true.
Proof. destruct e; vm_compute; reflexivity. Qed.

Lemma subclass_refl : forall e, subclass e e = true.
Proof. destruct e; vm_compute; reflexivity. Qed.

Lemma subclass_trans_all :
  forallb (fun a => forallb (fun b => forallb (fun c =>
    implb (subclass a b && subclass b c) (subclass a c)) all_exc) all_exc) all_exc = true.
Proof. vm_compute. reflexivity. Qed.

Lemma subclass_trans : forall a b c,
  subclass a b = true -> subclass b c = true -> subclass a c = true.
Proof.
  intros a b c H1 H2. pose proof subclass_trans_all as H.
  rewrite forallb_forall in H. specialize (H a (all_exc_complete a)).
  rewrite forallb_forall in H. specialize (H b (all_exc_complete b)).
  rewrite forallb_forall in H. specialize (H c (all_exc_complete c)).
  rewrite H1, H2 in H. cbn in H. destruct (subclass a c); [reflexivity|discriminate].
Qed.

(* consequences used below, for a variable class *)
Lemma exception_not_genexit : forall e,
  subclass e E_Exception = true -> subclass e E_GeneratorExit = false.
Proof. destruct e; vm_compute; congruence. Qed.

Lemma remote_is_alert : forall e,
  subclass e E_TLSRemoteAlert = true -> subclass e E_TLSAlert = true.
Proof. destruct e; vm_compute; congruence. Qed.

Lemma genexit_not_exception : forall e,
  subclass e E_GeneratorExit = true -> subclass e E_Exception = false.
Proof. destruct e; vm_compute; congruence. Qed.

(* what the three documented-ness notions say about the classes the library raises on
   malformed input *)
Lemma protocol_exceptions_undocumented :
  forall e, subclass e E_TLSProtocolException = true -> documented e = false.
Proof. destruct e; vm_compute; congruence. Qed.

Lemma documented_strict_documented : forall e, documented_strict e = true -> documented e = true.
Proof. destruct e; vm_compute; congruence. Qed.

(* ---- 1. post-condition of every call that ends by raising --------------------------- *)
(* wf_event spells out the three ways in which the code does NOT establish the post-condition
   (each is shown to be a real hole of the model further down):
     - the event is in readAsync before its `try` (depth pretry);
     - the class escapes the handlers: GeneratorExit everywhere, non-Exception BaseExceptions
       in writeAsync (`except Exception`);
     - a TLSAlert instance raised by a callee in a handshake without a preceding _shutdown
       (the wrapper re-raises TLSAlert without closing; all five `raise TLS*Alert` sites of
       tlslite shut down first, they are the actions ASendError / APeerAlert /
       AShutRaiseRemote / AShutRaiseSock).
   (Since 0bc7834 a failing send of the wrapper's own alert is no longer a hole:
   wrapper_alert_unsendable_closes.)
   keeps_resumable: writeAsync with ignoreAbruptClose, and an orderly close_notify. *)
Theorem funnel_postcondition_all :
  forall ly dp a sf st r st',
    wf_event ly dp a = true ->
    funnel ly dp a sf st = (Raised r, st') ->
    closed st' = true
    /\ (close_socket st = true -> sock_closed st' = true)
    /\ (has_session st = true -> keeps_resumable ly a st = false -> resumable st' = false)
    /\ has_session st' = has_session st.
Proof.
  intros ly dp a sf [cl sc hs rs w cs ia fl bf q] r st' Hwf H.
  destruct ly, dp, a; unf; red1; try discriminate;
    fin; repeat (split1nl; red1; fin);
    repeat split; intros; red1; fin; try reflexivity;
    subst; cbn [andb orb negb] in *; try rewrite orb_true_r; try reflexivity; fin;
    repeat match goal with b : bool |- _ => destruct b end;
    cbn [andb orb negb] in *; fin; try reflexivity.
Qed.

(* ---- 2. protocol violations under _getMsg / the record layer: fatal alert, then closure -- *)
Theorem funnel_alert_before_close :
  forall ly dp e d0 st o st' d,
    mapped_alert dp e = Some d ->
    layer_eqb ly LClose && closed st = false ->
    queued st = [] ->
    funnel ly dp (ARaise e d0) false st = (o, st') ->
    wire st' = wire st ++ alert_pre ly
                       ++ WAlert level_fatal d :: WShutdown false :: alert_tail ly st
    /\ queued st' = [] /\ buffering st' = false
    /\ (fault st = None -> o = Raised (mkr E_TLSLocalAlert (Some d))).
Proof.
  intros ly dp e d0 [cl sc hs rs w cs ia fl bf q] o st' d Hm Hc Hq H. cbn in Hq. subst q.
  destruct ly, dp; unf; red1; try discriminate;
    fin; repeat (split1; red1; fin);
    (split; [|split; [|split; [reflexivity | intros; red1; fin; try reflexivity]]]);
    wfin.
Qed.

(* the same when the alert cannot be sent: socket.error, nothing on the wire, still closed *)
Theorem funnel_alert_send_failure :
  forall ly dp e d0 st o st' d,
    mapped_alert dp e = Some d ->
    layer_eqb ly LClose = false ->
    queued st = [] ->
    funnel ly dp (ARaise e d0) true st = (o, st') ->
    o = Raised (mkr E_SockError None)
    /\ (exists tail, wire st' = wire st ++ tail /\ forallb is_shutdown_ev tail = true)
    /\ queued st' = []
    /\ closed st' = true.
Proof.
  intros ly dp e d0 [cl sc hs rs w cs ia fl bf q] o st' d Hm Hc Hq H. cbn in Hq. subst q.
  destruct ly, dp; unf; red1; try discriminate;
    fin; repeat (split1; red1; fin);
    (split; [reflexivity|]; split; [|split; [wfin|reflexivity]]);
    red1; repeat (split1; red1); eexists;
    (split; [repeat rewrite <- app_assoc; cbn [app]; reflexivity|reflexivity]).
Qed.

(* ---- 3. only documented classes come out, for the classes the callees are specified to raise:
   record layer / parser classes under _getMsg in every layer, and (since 6da5459) the three
   protocol-error classes raised anywhere under the handshake wrapper *)
Theorem documented_exceptions_only_all :
  forall ly dp e d0 sf st r st',
    specified_ly ly dp e = true -> fault st = None ->
    funnel ly dp (ARaise e d0) sf st = (Raised r, st') ->
    documented (rclass r) = true.
Proof.
  intros ly dp e d0 sf [cl sc hs rs w cs ia fl bf q] r st' Hs Hf H. cbn in Hf. subst fl.
  unfold specified_ly in Hs. apply orb_true_iff in Hs. destruct Hs as [Hs|Hs].
  - destruct dp; try discriminate; destruct e; try discriminate;
      destruct ly; unf; red1;
      fin; repeat (split1; red1; fin); vm_compute; reflexivity.
  - destruct ly; try discriminate; destruct dp; try discriminate;
      destruct e; try discriminate; unf; red1;
      fin; repeat (split1; red1; fin); vm_compute; reflexivity.
Qed.

(* ---- 4. the limits of the funnel ------------------------------------------------------ *)
(* an undocumented builtin arising anywhere is re-raised unchanged: closed, not resumable,
   and NO alert (the only events added are the close_notify of closeAsync and the shutdown) *)
Theorem funnel_passes_undocumented :
  forall ly dp e sf st,
    is_crash e = true ->
    layer_eqb ly LClose && closed st = false ->
    documented e = false
    /\ funnel ly dp (ARaise e None) sf st =
       (Raised (mkr e None),
        let st1 := layer_prefix ly dp (ARaise e None) st in
        if is_pretry dp then st1
        else shutdown (layer_eqb ly LWrite && ignore_abrupt st) st1).
Proof.
  intros ly dp e sf [cl sc hs rs w cs ia fl bf q] Hc Hcl.
  destruct e; try discriminate; (split; [vm_compute; reflexivity|]);
    destruct ly, dp; unf; red1; try discriminate;
    fin; repeat (split1; red1; fin); try reflexivity.
Qed.

(* the wrapper's own conversion (tlsconnection.py 5195-5208) concerns exactly three classes *)
Lemma wrapper_alert_exact :
  forall e, wrapper_alert e = match e with
                              | E_TLSIllegalParameterException => Some illegal_parameter
                              | E_TLSDecodeError => Some decode_error
                              | E_TLSDecryptionFailed => Some decrypt_error
                              | _ => None
                              end.
Proof. destruct e; reflexivity. Qed.

Lemma wrapper_alert_class_facts :
  forall e d, wrapper_alert e = Some d ->
    subclass e E_GeneratorExit = false /\ subclass e E_TLSAlert = false
    /\ subclass e E_StopIteration = false /\ subclass e E_TLSAuthenticationError = false
    /\ subclass e E_TLSProtocolException = true /\ documented e = false.
Proof. destruct e; vm_compute; intros; try discriminate; repeat split. Qed.

(* TLSIllegalParameterException / TLSDecodeError / TLSDecryptionFailed that reach the handshake
   wrapper unconverted (raised directly in the handshake body, in the Checker, in the record
   read of _sendMsgThroughSocket, or -- TLSDecodeError, TLSDecryptionFailed -- in a parser):
   fatal alert, then closure, TLSLocalAlert to the caller; fault-testing mode does not apply *)
Theorem handshake_direct_protocol_error_alerts :
  forall dp e d0 st o st' d,
    is_pretry dp = false -> mapped_alert dp e = None -> wrapper_alert e = Some d ->
    funnel LHandshake dp (ARaise e d0) false st = (o, st') ->
    o = Raised (mkr E_TLSLocalAlert (Some d))
    /\ st' = shutdown false (send_alert_now d st)
    /\ wire st' = wire st ++ queued st ++ [WAlert level_fatal d; WShutdown false]
    /\ queued st' = [] /\ buffering st' = false
    /\ closed st' = true
    /\ (close_socket st = true -> sock_closed st' = true)
    /\ (has_session st = true -> resumable st' = false)
    /\ documented E_TLSLocalAlert = true.
Proof.
  intros dp e d0 [cl sc hs rs w cs ia fl bf q] o st' d Hp Hm Hw H.
  destruct e; try discriminate; destruct dp; try discriminate;
    unf; red1; fin; repeat (split1; red1; fin);
    repeat split; intros; red1; fin; try reflexivity;
    try (wfin; fail);
    subst; try rewrite orb_true_r; try reflexivity;
    repeat (split1; red1); reflexivity.
Qed.

Corollary direct_illegal_parameter_now_alert :
  forall st,
    funnel LHandshake DDirect (ARaise E_TLSIllegalParameterException None) false st
      = (Raised (mkr E_TLSLocalAlert (Some illegal_parameter)),
         shutdown false (send_alert_now illegal_parameter st))
    /\ protocol_violation E_TLSIllegalParameterException = true
    /\ documented E_TLSIllegalParameterException = false
    /\ documented E_TLSLocalAlert = true.
Proof. intros [cl sc hs rs w cs ia fl bf q]. repeat split. Qed.

Corollary direct_decryption_failed_now_alert :
  forall st,
    funnel LHandshake DDirect (ARaise E_TLSDecryptionFailed None) false st
      = (Raised (mkr E_TLSLocalAlert (Some decrypt_error)),
         shutdown false (send_alert_now decrypt_error st)).
Proof. intros [cl sc hs rs w cs ia fl bf q]. reflexivity. Qed.

Corollary parser_tls_decode_error_now_alert :
  forall st,
    funnel LHandshake DParser (ARaise E_TLSDecodeError None) false st
      = (Raised (mkr E_TLSLocalAlert (Some decode_error)),
         shutdown false (send_alert_now decode_error st)).
Proof. intros [cl sc hs rs w cs ia fl bf q]. reflexivity. Qed.

(* ... and when that alert cannot be sent (0bc7834): socket.error for the caller, and the
   connection is closed all the same: state = shutdown false st, nothing but the shutdown on
   the wire *)
Theorem wrapper_alert_unsendable_closes :
  forall dp e d0 st o st' d,
    is_pretry dp = false -> mapped_alert dp e = None -> wrapper_alert e = Some d ->
    funnel LHandshake dp (ARaise e d0) true st = (o, st') ->
    o = Raised (mkr E_SockError None)
    /\ st' = shutdown false st
    /\ (queued st = [] -> wire st' = wire st ++ [WShutdown false])
    /\ closed st' = true
    /\ (close_socket st = true -> sock_closed st' = true)
    /\ (has_session st = true -> resumable st' = false)
    /\ documented E_SockError = true.
Proof.
  intros dp e d0 [cl sc hs rs w cs ia fl bf q] o st' d Hp Hm Hw H.
  destruct e; try discriminate; destruct dp; try discriminate;
    unf; red1; fin; repeat (split1; red1; fin);
    repeat split; intros; red1; fin; try reflexivity;
    try (wfin; fail);
    subst; try rewrite orb_true_r; try reflexivity;
    repeat (split1; red1); wnorm.
Qed.

(* the residue: every other class that is not a TLSAlert, raised in the handshake body outside
   _getMsg, still reaches the caller unchanged: socket closed, but NO alert was sent *)
Theorem direct_raise_still_without_alert :
  forall e d sf st,
    subclass e E_TLSAlert = false ->
    subclass e E_GeneratorExit = false ->
    subclass e E_StopIteration = false ->
    wrapper_alert e = None ->
    funnel LHandshake DDirect (ARaise e d) sf st = (Raised (mkr e d), shutdown false st).
Proof.
  intros e d sf st H1 H2 H3 H4. unfold funnel, layer_prefix, perform, through, layer_handler,
    wrapper_handler, pep479, under_record, under_getmsg, is_pretry, layer_eqb.
  cbn [andb rclass]. rewrite H2, H1, H4. cbn [rclass]. rewrite H3. reflexivity.
Qed.

(* among the TLSProtocolException family the residue is exactly residue_protocol_classes *)
Lemma residue_protocol_exceptions :
  forall e, subclass e E_TLSProtocolException = true ->
    existsb (exc_eqb e) residue_protocol_classes
    = match wrapper_alert e with None => true | Some _ => false end.
Proof. destruct e; vm_compute; congruence. Qed.

Theorem residue_direct_no_alert :
  forall e d sf st,
    existsb (exc_eqb e) residue_protocol_classes = true ->
    funnel LHandshake DDirect (ARaise e d) sf st = (Raised (mkr e d), shutdown false st)
    /\ subclass e E_TLSProtocolException = true
    /\ documented e = false.
Proof.
  intros e d sf st H.
  destruct e; try discriminate;
    (split; [apply direct_raise_still_without_alert; vm_compute; reflexivity
            | split; vm_compute; reflexivity]).
Qed.

(* readAsync / writeAsync / closeAsync have no such conversion: the same three classes raised
   directly in their bodies escape unchanged, closed but without any alert *)
Theorem other_layers_direct_protocol_error_no_alert :
  forall ly e d0 sf st d,
    layer_eqb ly LHandshake = false ->
    layer_eqb ly LClose && closed st = false ->
    wrapper_alert e = Some d ->
    funnel ly DDirect (ARaise e d0) sf st
    = (Raised (mkr e d0), shutdown (layer_eqb ly LWrite && ignore_abrupt st) st)
    /\ documented e = false.
Proof.
  intros ly e d0 sf [cl sc hs rs w cs ia fl bf q] d Hl Hc Hw.
  destruct e; try discriminate; (split; [|vm_compute; reflexivity]);
    destruct ly; try discriminate; unf; red1; fin; repeat (split1; red1; fin); reflexivity.
Qed.

(* the same class one level deeper IS converted *)
Corollary parser_illegal_parameter_alert :
  forall st, funnel LHandshake DParser (ARaise E_TLSIllegalParameterException None) false st
             = (match fault st with
                | None => Raised (mkr E_TLSLocalAlert (Some illegal_parameter))
                | Some l => if existsb (Z.eqb illegal_parameter) l then Done
                            else Raised (mkr E_TLSFaultError None)
                end,
                shutdown false (send_alert_now illegal_parameter st)).
Proof. intros [cl sc hs rs w cs ia fl bf q]. unf. red1. destruct fl; [|reflexivity].
       cbn [rdescr]. destruct (existsb (Z.eqb 47) l); reflexivity. Qed.

(* ---- 5. holes: each hypothesis of funnel_postcondition_all is necessary ------------------ *)
(* a generator that is abandoned / closed: nothing is shut down *)
Lemma generator_exit_leaves_open :
  forall ly dp sf st,
    layer_eqb ly LClose && closed st = false ->
    funnel ly dp (ARaise E_GeneratorExit None) sf st
    = (Raised (mkr E_GeneratorExit None), layer_prefix ly dp (ARaise E_GeneratorExit None) st).
Proof.
  intros ly dp sf [cl sc hs rs w cs ia fl bf q] Hc.
  destruct ly, dp; unf; red1; try discriminate; fin; repeat (split1; red1; fin); reflexivity.
Qed.

(* _handshakeWrapperAsync re-raises a TLSAlert without _shutdown *)
Lemma wrapper_reraises_alert_without_shutdown :
  forall dp d sf st,
    fault st = None ->
    funnel LHandshake dp (ARaise E_TLSRemoteAlert d) sf st = (Raised (mkr E_TLSRemoteAlert d), st).
Proof.
  intros dp d sf [cl sc hs rs w cs ia fl bf q] Hf. cbn in Hf. subst fl.
  destruct dp; unf; red1; reflexivity.
Qed.

(* in particular a Checker raising a TLSAlert leaves an established connection open *)
Lemma checker_alert_leaves_connection_open :
  exists st st',
    funnel LHandshake DChecker (ARaise E_TLSLocalAlert (Some 80)) false st
      = (Raised (mkr E_TLSLocalAlert (Some 80)), st')
    /\ closed st' = false /\ sock_closed st' = false /\ resumable st' = true.
Proof.
  exists (mkcst false false true true [] true false None false []). eexists.
  split; [vm_compute; reflexivity|]. repeat split.
Qed.

(* writeAsync with ignoreAbruptClose keeps the session resumable whatever went wrong *)
Lemma write_ignore_abrupt_keeps_resumable :
  forall e d sf st r st',
    ignore_abrupt st = true ->
    funnel LWrite DDirect (ARaise e d) sf st = (Raised r, st') ->
    resumable st' = resumable st.
Proof.
  intros e d sf [cl sc hs rs w cs ia fl bf q] r st' Hi H. cbn in Hi. subst ia.
  unf; red1; fin; repeat (split1; red1; fin); reflexivity.
Qed.

(* `except Exception` in writeAsync: other BaseExceptions pass without shutdown *)
Lemma write_keyboard_interrupt_leaves_open :
  forall sf st,
    funnel LWrite DDirect (ARaise E_KeyboardInterrupt None) sf st
    = (Raised (mkr E_KeyboardInterrupt None), st).
Proof. intros sf [cl sc hs rs w cs ia fl bf q]. unf. red1. reflexivity. Qed.

(* readAsync lines 329-369 are outside its try *)
Lemma read_pretry_no_shutdown :
  forall e d sf st,
    subclass e E_StopIteration = false ->
    funnel LRead DPreTry (ARaise e d) sf st = (Raised (mkr e d), st).
Proof. intros e d sf st H. unf. red1. rewrite H. reflexivity. Qed.

(* an orderly close_notify from the peer ends a handshake with TLSRemoteAlert but the session
   stays resumable *)
Lemma close_notify_keeps_resumable :
  forall l sf st,
    fault st = None ->
    exists st', funnel LHandshake DParser (APeerAlert l close_notify) sf st
                = (Raised (mkr E_TLSRemoteAlert (Some close_notify)), st')
                /\ closed st' = true /\ resumable st' = resumable st.
Proof.
  intros l sf [cl sc hs rs w cs ia fl bf q] Hf. cbn in Hf. subst fl.
  destruct sf; eexists; unf; red1; rewrite orb_true_r; cbn [Z.eqb]; red1;
    (split; [reflexivity|]; split; reflexivity).
Qed.

(* fault testing mode: a listed alert is swallowed, the handshake call returns normally on a
   shut-down connection *)
Lemma fault_swallows_listed_alert :
  forall dp e d0 st l d,
    mapped_alert dp e = Some d -> fault st = Some l -> existsb (Z.eqb d) l = true ->
    fst (funnel LHandshake dp (ARaise e d0) false st) = Done.
Proof.
  intros dp e d0 [cl sc hs rs w cs ia fl bf q] l d Hm Hf Hl. cbn in Hf. subst fl.
  destruct dp; unf; red1; try discriminate;
    fin; repeat (split1; red1; fin); cbn [fst rdescr] in *; try congruence;
    rewrite Hl in *; try discriminate; reflexivity.
Qed.

(* PEP 479 *)
Lemma stop_iteration_becomes_runtime_error :
  forall ly dp sf st,
    layer_eqb ly LClose && closed st = false ->
    fst (funnel ly dp (ARaise E_StopIteration None) sf st) = Raised (mkr E_RuntimeError None).
Proof.
  intros ly dp sf [cl sc hs rs w cs ia fl bf q] Hc.
  destruct ly, dp; unf; red1; try discriminate; fin; repeat (split1; red1; fin); reflexivity.
Qed.

(* classes of protocol violations that are converted at the record depth only *)
Lemma record_only_classes_not_converted_by_getmsg :
  forall st, fault st = None ->
    funnel LHandshake DParser (ARaise E_TLSBadRecordMAC None) false st
    = (Raised (mkr E_TLSBadRecordMAC None), shutdown false st)
    /\ funnel LHandshake DParser (ARaise E_TLSRecordOverflow None) false st
       = (Raised (mkr E_TLSRecordOverflow None), shutdown false st).
Proof. intros [cl sc hs rs w cs ia fl bf q] Hf. split; unf; red1; reflexivity. Qed.

(* ---- 6. the hypotheses are satisfiable: concrete runs -------------------------------------- *)
Example ex_read_bad_mac :
  wf_event LRead DRecord (ARaise E_TLSBadRecordMAC None) = true
  /\ mapped_alert DRecord E_TLSBadRecordMAC = Some bad_record_mac
  /\ funnel LRead DRecord (ARaise E_TLSBadRecordMAC None) false (init_state LRead)
     = (Raised (mkr E_TLSLocalAlert (Some 20)),
        mkcst true true true false [WAlert 2 20; WShutdown false; WShutdown false]
              true false None false []).
Proof. repeat split. Qed.

Example ex_handshake_decode_error :
  specified DParser E_DecodeError = true
  /\ funnel LHandshake DParser (ARaise E_DecodeError None) false (init_state LHandshake)
     = (Raised (mkr E_TLSLocalAlert (Some 50)),
        mkcst true true false false [WAlert 2 50; WShutdown false] true false None false []).
Proof. repeat split. Qed.

Example ex_crash_attribute_error :
  is_crash E_AttributeError = true
  /\ funnel LHandshake DParser (ARaise E_AttributeError None) false (init_state LHandshake)
     = (Raised (mkr E_AttributeError None),
        mkcst true true false false [WShutdown false] true false None false []).
Proof. repeat split. Qed.

Example ex_predict :
  predict 1 0 63 = (46, Some 20, true, false)      (* read, record, TLSBadRecordMAC *)
  /\ predict 0 2 58 = (46, Some 47, true, false)   (* handshake, direct, TLSIllegalParameterException *)
  /\ predict 0 2 66 = (66, None, true, false)      (* handshake, direct, TLSHandshakeFailure *)
  /\ predict 1 2 58 = (58, None, true, false)      (* read, direct, TLSIllegalParameterException *)
  /\ predict 0 1 12 = (12, None, true, false).     (* handshake, parser, AttributeError *)
Proof. repeat split. Qed.

Example ex_handshake_direct_decryption_failed :
  specified_ly LHandshake DDirect E_TLSDecryptionFailed = true
  /\ is_pretry DDirect = false /\ mapped_alert DDirect E_TLSDecryptionFailed = None
  /\ wrapper_alert E_TLSDecryptionFailed = Some decrypt_error
  /\ funnel LHandshake DDirect (ARaise E_TLSDecryptionFailed None) false (init_state LHandshake)
     = (Raised (mkr E_TLSLocalAlert (Some 51)),
        mkcst true true false false [WAlert 2 51; WShutdown false] true false None false []).
Proof. repeat split. Qed.

(* since 8b57b65 writeAsync tests `closed` before its try: TLSClosedConnectionError comes out
   without _shutdown, so a write after an orderly close no longer clears session.resumable *)
Lemma write_closed_pretry :
  forall sf st,
    funnel LWrite DPreTry (ARaise E_TLSClosedConnectionError None) sf st
    = (Raised (mkr E_TLSClosedConnectionError None), st)
    /\ documented E_TLSClosedConnectionError = true.
Proof. intros sf [cl sc hs rs w cs ia fl bf q]. split; reflexivity. Qed.

(* since 0ab9df1 a handshake record that cannot be sent, with a pending record that is not an
   alert, ends the handshake with the socket error after _shutdown(False) *)
Lemma failed_handshake_send_no_alert_pending :
  forall sf st,
    funnel LHandshake DRecOnly AShutRaiseSock sf st
    = (Raised (mkr E_SockError None), shutdown false (shutdown false st)).
Proof. intros sf [cl sc hs rs w cs ia fl bf q]. reflexivity. Qed.

(* ---- 7. _sendError writes its alert, whatever the write-buffering mode (seed S1) ------------- *)
(* BufferedSocket queues what is sent while buffer_writes is set (the TLS <= 1.2 client has it
   set while it reads Certificate / ServerKeyExchange / ServerHelloDone).  _sendError flushes,
   switches the buffering off and then sends: the fatal alert is in `wire` (handed to the real
   socket), after everything that was queued; nothing stays queued; buffering is off -- for
   every initial buffering flag, queue and closeSocket setting. *)
Theorem send_error_alert_is_written_not_queued :
  forall d st,
    sendError d false st
    = (Raised (mkr E_TLSLocalAlert (Some d)), shutdown false (send_alert_now d st))
    /\ wire (send_alert_now d st) = wire st ++ queued st ++ [WAlert level_fatal d]
    /\ queued (send_alert_now d st) = []
    /\ buffering (send_alert_now d st) = false
    /\ wire (shutdown false (send_alert_now d st))
       = wire st ++ queued st ++ [WAlert level_fatal d; WShutdown false]
    /\ queued (shutdown false (send_alert_now d st)) = []
    /\ buffering (shutdown false (send_alert_now d st)) = false.
Proof.
  intros d [cl sc hs rs w cs ia fl bf q].
  repeat split; cbv [sendError]; red1; try reflexivity; destruct cs; wnorm.
Qed.

(* the same seen through a whole call: an in-body _sendError(d) at any depth of any layer *)
Theorem funnel_send_error_alert_written :
  forall ly dp d st o st',
    is_pretry dp = false ->
    layer_eqb ly LClose && closed st = false ->
    queued st = [] ->
    funnel ly dp (ASendError d) false st = (o, st') ->
    wire st' = wire st ++ alert_pre ly
                       ++ WAlert level_fatal d :: WShutdown false :: alert_tail ly st
    /\ queued st' = [] /\ buffering st' = false
    /\ (fault st = None -> o = Raised (mkr E_TLSLocalAlert (Some d))).
Proof.
  intros ly dp d [cl sc hs rs w cs ia fl bf q] o st' Hp Hc Hq H. cbn in Hq. subst q.
  destruct ly, dp; unf; red1; try discriminate;
    fin; repeat (split1; red1; fin);
    (split; [|split; [|split; [reflexivity | intros; red1; fin; try reflexivity]]]);
    wfin.
Qed.

(* ---- 8. alerts received from the peer, every level value (seed S2) ---------------------------- *)
(* _getMsg, alert record while no alert is expected (handshake, read; write has no reads):
   everything that is not a warning and not close_notify is treated as fatal -- level 2, but
   also 0, 3, 255, any integer: _shutdown(False), TLSRemoteAlert, no reply *)
Theorem received_non_warning_alert_closes :
  forall ly dp level descr sf st o st',
    level <> level_warning -> descr <> close_notify ->
    layer_eqb ly LClose = false -> fault st = None ->
    funnel ly dp (APeerAlert level descr) sf st = (o, st') ->
    o = Raised (mkr E_TLSRemoteAlert (Some descr))
    /\ closed st' = true
    /\ (close_socket st = true -> sock_closed st' = true)
    /\ (has_session st = true -> resumable st' = false)
    /\ (queued st = [] ->
        queued st' = []
        /\ exists tail, wire st' = wire st ++ WShutdown false :: tail
                        /\ forallb is_shutdown_ev tail = true).
Proof.
  intros ly dp level descr sf [cl sc hs rs w cs ia fl bf q] o st' Hl Hd Hly Hf H.
  cbn in Hf. subst fl.
  apply Z.eqb_neq in Hl. apply Z.eqb_neq in Hd.
  destruct ly; try discriminate; destruct dp; unf; rewrite Hl, Hd in H; red1;
    fin; repeat (split1; red1; fin);
    repeat split; intros; red1; fin; try reflexivity;
    subst; try rewrite orb_true_r; try reflexivity;
    repeat (split1; red1); try reflexivity;
    eexists; (split; [repeat rewrite <- app_assoc; cbn [app]; reflexivity|reflexivity]).
Qed.

(* a warning that is not close_notify: close_notify is sent back (socket errors ignored),
   _shutdown(False), TLSRemoteAlert *)
Theorem received_warning_alert_closes :
  forall ly dp descr sf st o st',
    descr <> close_notify ->
    layer_eqb ly LClose = false -> fault st = None ->
    funnel ly dp (APeerAlert level_warning descr) sf st = (o, st') ->
    o = Raised (mkr E_TLSRemoteAlert (Some descr))
    /\ closed st' = true
    /\ (close_socket st = true -> sock_closed st' = true)
    /\ (has_session st = true -> resumable st' = false).
Proof.
  intros ly dp descr sf [cl sc hs rs w cs ia fl bf q] o st' Hd Hly Hf H.
  cbn in Hf. subst fl. apply Z.eqb_neq in Hd.
  destruct ly; try discriminate; destruct dp; unf; rewrite Hd in H; cbn [Z.eqb Pos.eqb] in H;
    red1; fin; repeat (split1; red1; fin);
    repeat split; intros; red1; fin; try reflexivity;
    subst; try rewrite orb_true_r; reflexivity.
Qed.

(* ... where the close_notify reply is really transmitted when the socket works and either the
   endpoint is not in write-buffering mode or closeSocket makes _shutdown flush *)
Theorem received_warning_reply_written :
  forall ly dp descr st o st',
    descr <> close_notify ->
    layer_eqb ly LClose = false -> queued st = [] ->
    buffering st = false \/ close_socket st = true ->
    funnel ly dp (APeerAlert level_warning descr) false st = (o, st') ->
    queued st' = []
    /\ exists tail, wire st' = wire st ++ WAlert level_warning close_notify :: WShutdown false :: tail
                    /\ forallb is_shutdown_ev tail = true.
Proof.
  intros ly dp descr [cl sc hs rs w cs ia fl bf q] o st' Hd Hly Hq Hb H.
  cbn in Hq. subst q. apply Z.eqb_neq in Hd. cbn in Hb.
  destruct Hb as [Hb|Hb]; subst;
    (destruct ly; try discriminate; destruct dp; unf; rewrite Hd in H;
     cbn [Z.eqb Pos.eqb] in H; red1; fin; repeat (split1; red1; fin);
     (split; [wfin|]);
     red1; repeat (split1; red1); eexists;
     (split; [repeat rewrite <- app_assoc; cbn [app]; reflexivity|reflexivity])).
Qed.

(* hole (present in the code): in write-buffering mode without closeSocket the reply is only
   queued and nothing ever flushes it *)
Lemma received_warning_reply_stays_queued :
  forall dp descr st o st',
    descr <> close_notify -> fault st = None ->
    buffering st = true -> close_socket st = false ->
    funnel LHandshake dp (APeerAlert level_warning descr) false st = (o, st') ->
    queued st' = queued st ++ [WAlert level_warning close_notify]
    /\ exists tail, wire st' = wire st ++ tail /\ forallb is_shutdown_ev tail = true.
Proof.
  intros dp descr [cl sc hs rs w cs ia fl bf q] o st' Hd Hf Hb Hc H.
  cbn in Hf, Hb, Hc. subst fl bf cs. apply Z.eqb_neq in Hd.
  destruct dp; unf; rewrite Hd in H; cbn [Z.eqb Pos.eqb] in H;
    red1; fin; repeat (split1; red1; fin);
    (split; [reflexivity|]);
    eexists; (split; [repeat rewrite <- app_assoc; cbn [app]; reflexivity|reflexivity]).
Qed.

(* close_notify, whatever its level: reply, _shutdown(True) (session stays resumable); a
   handshake ends with TLSRemoteAlert(close_notify) [close_notify_keeps_resumable], a read
   returns normally *)
Theorem received_close_notify_in_read :
  forall dp level sf st,
    is_pretry dp = false ->
    exists st', funnel LRead dp (APeerAlert level close_notify) sf st = (Done, st')
                /\ closed st' = true /\ resumable st' = resumable st
                /\ (close_socket st = true -> sock_closed st' = true).
Proof.
  intros dp level sf [cl sc hs rs w cs ia fl bf q] Hp.
  destruct sf, dp; try discriminate; eexists; unf; rewrite orb_true_r; cbn [Z.eqb]; red1;
    (split; [reflexivity|]); repeat split; intros; red1; subst;
    try rewrite orb_true_r; reflexivity.
Qed.

(* closeAsync with closeSocket = False waits for the peer's alert and ignores its level: only
   close_notify ends the call normally, any other description is raised after _shutdown(False) *)
Theorem received_alert_in_close :
  forall dp level descr sf st o st',
    is_pretry dp = false ->
    closed st = false ->
    funnel LClose dp (APeerAlert level descr) sf st = (o, st') ->
    closed st' = true
    /\ (close_socket st = true -> sock_closed st' = true)
    /\ (if descr =? close_notify
        then o = Done /\ resumable st' = resumable st
        else o = Raised (mkr E_TLSRemoteAlert (Some descr))
             /\ (has_session st = true -> resumable st' = false)).
Proof.
  intros dp level descr sf [cl sc hs rs w cs ia fl bf q] o st' Hp Hc H. cbn in Hc. subst cl.
  destruct dp; try discriminate; unf; red1; fin; repeat (split1; red1; fin);
    repeat split; intros; red1; fin; try reflexivity;
    subst; try rewrite orb_true_r; reflexivity.
Qed.

Example ex_received_level_255 :
  funnel LHandshake DParser (APeerAlert 255 40) false (init_state LHandshake)
  = (Raised (mkr E_TLSRemoteAlert (Some 40)),
     mkcst true true false false [WShutdown false] true false None false [])
  /\ funnel LRead DParser (APeerAlert 0 80) false (init_state LRead)
     = (Raised (mkr E_TLSRemoteAlert (Some 80)),
        mkcst true true true false [WShutdown false; WShutdown false] true false None false []).
Proof. split; reflexivity. Qed.

(* a TLS 1.2 client in write-buffering mode, closeSocket = False, malformed Certificate: the
   decode_error alert is on the wire, not in the queue *)
Example ex_buffering_decode_error_written :
  funnel LHandshake DParser (ARaise E_DecodeError None) false
         (mkcst true false false false [] false false None true [])
  = (Raised (mkr E_TLSLocalAlert (Some 50)),
     mkcst true false false false [WAlert 2 50; WShutdown false] false false None false []).
Proof. reflexivity. Qed.
