(* C13 -- lemmas about the decision functions of Model/C13_Resume.v (all inputs, no history) *)
From Coq Require Import ZArith List Bool Lia.
From TV Require Import Base.Prelude Model.C13_Resume.
Import ListNotations.
Open Scope Z_scope.

(* the ClientHello is consistent with session s (what _serverGetClientHello demands) *)
Definition hello_consistent {blob} (s : sess) (h : hello blob) : Prop :=
  zmem (s_suite s) (h_suites h) = true /\
  (h_srp h <> 0 -> s_srp s = h_srp h) /\
  (h_sni h <> 0 -> s_sni s = h_sni h) /\
  (s_etm s = true -> h_etm h = true) /\
  s_ems s = h_ems h.

Fixpoint times_sorted (st : list centry) : Prop :=
  match st with
  | [] => True
  | e :: r => (forall e', In e' r -> ce_time e <= ce_time e') /\ times_sorted r
  end.

Lemma nz_true x : nz x = true <-> x <> 0.
Proof. unfold nz. rewrite negb_true_iff, Z.eqb_neq. tauto. Qed.
Lemma nz_false x : nz x = false <-> x = 0.
Proof. unfold nz. rewrite negb_false_iff, Z.eqb_eq. tauto. Qed.

(* purge keeps a suffix; in a time-sorted store everything it keeps is young enough *)
Lemma purge_incl maxage now st e : In e (purge maxage now st) -> In e st.
Proof.
  induction st as [|e0 r IH]; cbn [purge]; [tauto|].
  destruct (maxage <? now - ce_time e0); intros H; [right; apply IH; exact H|exact H].
Qed.

Lemma purge_young maxage now st e :
  times_sorted st -> In e (purge maxage now st) -> now - ce_time e <= maxage.
Proof.
  induction st as [|e0 r IH]; cbn [purge times_sorted]; [intros _ []|].
  intros [Hle Hs]. destruct (maxage <? now - ce_time e0) eqn:L.
  - apply IH. exact Hs.
  - apply Z.ltb_ge in L. intros [<-|Hin]; [exact L|]. specialize (Hle e Hin). lia.
Qed.

Lemma purge_sorted maxage now st : times_sorted st -> times_sorted (purge maxage now st).
Proof.
  induction st as [|e0 r IH]; cbn [purge times_sorted]; [tauto|].
  intros [Hle Hs]. destruct (maxage <? now - ce_time e0); [apply IH; exact Hs|].
  cbn [times_sorted]. split; assumption.
Qed.

Lemma cache_find_some sid st e : cache_find sid st = Some e -> In e st /\ s_sid (ce_sess e) = sid.
Proof.
  induction st as [|e0 r IH]; cbn [cache_find]; [discriminate|].
  destruct (s_sid (ce_sess e0) =? sid) eqn:E.
  - intros H. injection H as <-. apply Z.eqb_eq in E. split; [left; reflexivity|exact E].
  - intros H. destruct (IH H) as [A B]. split; [right; exact A|exact B].
Qed.

Lemma cache_get_some cfg now sid st st' s :
  cache_get cfg now sid st = (st', Some s) ->
  st' = purge (sv_maxage cfg) now st /\
  exists e, In e st' /\ ce_sess e = s /\ ce_res e = true /\ s_sid s = sid /\ sid <> 0.
Proof.
  unfold cache_get. intros H. injection H as <- H. split; [reflexivity|].
  destruct (cache_find sid (purge (sv_maxage cfg) now st)) as [e|] eqn:F; [|discriminate].
  destruct (ce_res e && nz (s_sid (ce_sess e))) eqn:V; [|discriminate].
  injection H as <-. apply cache_find_some in F. destruct F as [A B].
  apply andb_true_iff in V. destruct V as [V1 V2]. apply nz_true in V2.
  exists e. repeat split; try assumption. congruence.
Qed.

Lemma cache_get_store cfg now sid st : fst (cache_get cfg now sid st) = purge (sv_maxage cfg) now st.
Proof. reflexivity. Qed.

(* an entry whose resumable flag is cleared is never returned *)
Lemma cache_get_invalidated cfg now sid st :
  (forall e, In e st -> s_sid (ce_sess e) = sid -> ce_res e = false) ->
  snd (cache_get cfg now sid st) = None.
Proof.
  intros H. unfold cache_get. cbn [snd].
  destruct (cache_find sid (purge (sv_maxage cfg) now st)) as [e|] eqn:F; [|reflexivity].
  apply cache_find_some in F. destruct F as [A B].
  rewrite (H e (purge_incl _ _ _ _ A) B). reflexivity.
Qed.

Section Decide.
Variable blob : Type.
Variable open : Z -> blob -> option payload.

Lemma try_decrypt_some keys b k p :
  try_decrypt blob open keys b = Some (k, p) -> In k keys /\ open k b = Some p.
Proof.
  induction keys as [|k0 ks IH]; cbn [try_decrypt]; [discriminate|].
  destruct (open k0 b) eqn:E.
  - intros H. injection H as <- <-. split; [left; reflexivity|exact E].
  - intros H. destruct (IH H) as [A B]. split; [right; exact A|exact B].
Qed.

Lemma try_decrypt_none keys b :
  (forall k, In k keys -> open k b = None) -> try_decrypt blob open keys b = None.
Proof.
  induction keys as [|k0 ks IH]; cbn [try_decrypt]; intros H; [reflexivity|].
  rewrite (H k0 (or_introl eq_refl)). apply IH. intros k Hk. apply H. right. exact Hk.
Qed.

Lemma ticket_to_session_some cfg now sid b k s :
  ticket_to_session blob open cfg now sid b = Some (k, s) ->
  exists p, In k (sv_keys cfg) /\ open k b = Some p /\ now <= p_created p + sv_life cfg /\
            s = sess_of_payload p sid.
Proof.
  unfold ticket_to_session. destruct (try_decrypt blob open (sv_keys cfg) b) as [[k0 p]|] eqn:E; [|discriminate].
  destruct (p_created p + sv_life cfg <? now) eqn:L; [discriminate|].
  intros H. injection H as <- <-. apply try_decrypt_some in E. destruct E as [A B].
  exists p. repeat split; try assumption. apply Z.ltb_ge in L. exact L.
Qed.

Lemma consistency_resume s o (h : hello blob) s' o' :
  consistency blob s o h = SResume s' o' -> s' = s /\ o' = o /\ hello_consistent s h.
Proof.
  unfold consistency, hello_consistent.
  destruct (zmem (s_suite s) (h_suites h)) eqn:E1; cbn [negb]; [|discriminate].
  destruct (nz (h_srp h) && negb (nz (s_srp s)) && match o with ByTicket _ | ByBoth _ => true | _ => false end);
    [discriminate|].
  destruct (nz (h_srp h) && (negb (nz (s_srp s)) || negb (h_srp h =? s_srp s))) eqn:E2; [discriminate|].
  destruct (nz (h_sni h) && (negb (nz (s_sni s)) || negb (h_sni h =? s_sni s))) eqn:E3; [discriminate|].
  destruct (s_etm s && negb (h_etm h)) eqn:E4; [discriminate|].
  destruct (s_ems s && negb (h_ems h)) eqn:E5; [discriminate|].
  destruct (negb (s_ems s) && h_ems h) eqn:E6; [discriminate|].
  intros H. injection H as <- <-. split; [reflexivity|]. split; [reflexivity|].
  split; [reflexivity|]. split; [|split; [|split]].
  - intros Hn. apply nz_true in Hn. rewrite Hn in E2. cbn [andb] in E2.
    apply orb_false_iff in E2. destruct E2 as [_ B]. apply negb_false_iff, Z.eqb_eq in B. symmetry. exact B.
  - intros Hn. apply nz_true in Hn. rewrite Hn in E3. cbn [andb] in E3.
    apply orb_false_iff in E3. destruct E3 as [_ B]. apply negb_false_iff, Z.eqb_eq in B. symmetry. exact B.
  - intros He. rewrite He in E4. cbn [andb] in E4. apply negb_false_iff in E4. exact E4.
  - destruct (s_ems s), (h_ems h); cbn in E5, E6; try reflexivity; discriminate.
Qed.

Lemma consistency_complete s o (h : hello blob) :
  hello_consistent s h -> consistency blob s o h = SResume s o.
Proof.
  intros [C1 [C2 [C3 [C4 C5]]]]. unfold consistency. rewrite C1. cbn [negb].
  assert (nz (h_srp h) = true -> nz (s_srp s) = true /\ (h_srp h =? s_srp s) = true) as S.
  { intros N. apply nz_true in N. specialize (C2 N). split; [apply nz_true; congruence|apply Z.eqb_eq; congruence]. }
  assert (nz (h_sni h) = true -> nz (s_sni s) = true /\ (h_sni h =? s_sni s) = true) as N.
  { intros N. apply nz_true in N. specialize (C3 N). split; [apply nz_true; congruence|apply Z.eqb_eq; congruence]. }
  destruct (nz (h_srp h)); [destruct (S eq_refl) as [-> ->]|]; cbn [negb andb orb];
    (destruct (nz (h_sni h)); [destruct (N eq_refl) as [-> ->]|]); cbn [negb andb orb];
    rewrite C5; destruct (s_etm s) eqn:E; try rewrite (C4 eq_refl); destruct (h_ems h), (h_etm h); cbn; try reflexivity;
    specialize (C4 eq_refl); discriminate.
Qed.

(* ---- the TLS <= 1.2 acceptance decision: everything it implies ------------------ *)
Definition accepted_by_cache (cfg : scfg) (st : list centry) (h : hello blob) (now : Z) (s : sess) : Prop :=
  sv_usecache cfg = true /\ h_ticket h = None /\ h_sid h <> 0 /\ s_sid s = h_sid h /\
  exists e, In e st /\ ce_sess e = s /\ ce_res e = true /\ now - ce_time e <= sv_maxage cfg.

Definition accepted_by_ticket (cfg : scfg) (h : hello blob) (now : Z) (k : Z) (s : sess) : Prop :=
  exists b p, h_ticket h = Some b /\ In k (sv_keys cfg) /\ open k b = Some p /\
              now <= p_created p + sv_life cfg /\ s = sess_of_payload p (h_sid h).

(* ticket under a current key within lifetime AND the same session (master secret, suite) valid in
   the cache under the hello's session_id: the cached object s is used *)
Definition accepted_by_both (cfg : scfg) (st : list centry) (h : hello blob) (now : Z) (k : Z) (s : sess) : Prop :=
  (exists b p, h_ticket h = Some b /\ In k (sv_keys cfg) /\ open k b = Some p /\
               now <= p_created p + sv_life cfg /\ p_ms p = s_ms s /\ p_suite p = s_suite s) /\
  sv_usecache cfg = true /\ h_sid h <> 0 /\ s_sid s = h_sid h /\
  exists e, In e st /\ ce_sess e = s /\ ce_res e = true /\ now - ce_time e <= sv_maxage cfg.

Lemma server_try_resume_sound cfg st acc (h : hello blob) now st' s o :
  times_sorted st ->
  server_try_resume blob open cfg st acc h now = (st', SResume s o) ->
  zmem (s_suite s) acc = true /\ hello_consistent s h /\
  match o with
  | ByCache => accepted_by_cache cfg st h now s
  | ByTicket k => accepted_by_ticket cfg h now k s
  | ByBoth k => accepted_by_both cfg st h now k s
  | ByPsk _ => False
  end.
Proof.
  intros Hsorted. unfold server_try_resume.
  destruct ((nz (h_sid h) && sv_usecache cfg) || match h_ticket h with Some _ => true | None => false end) eqn:G;
    [|intros H; discriminate].
  destruct (h_ticket h) as [b|] eqn:HT.
  - (* a ticket was sent: only the ticket path *)
    destruct (ticket_to_session blob open cfg now (h_sid h) b) as [[k s0]|] eqn:T.
    + apply ticket_to_session_some in T. destruct T as [p [K [O [Lf Eq]]]].
      destruct (sv_usecache cfg && nz (h_sid h)) eqn:U.
      * destruct (cache_get cfg now (h_sid h) st) as [st1 r] eqn:CG.
        destruct r as [c|].
        -- destruct ((s_ms c =? s_ms s0) && (s_suite c =? s_suite s0)) eqn:Same.
           ++ destruct (zmem (s_suite c) acc) eqn:A; cbn [negb]; [|intros H; discriminate].
              intros H. injection H as _ H. apply consistency_resume in H. destruct H as [-> [-> Hc]].
              split; [exact A|]. split; [exact Hc|].
              apply cache_get_some in CG. destruct CG as [-> [e [I [Es [R [Sid Nz]]]]]].
              apply andb_true_iff in U. destruct U as [U1 U2].
              apply andb_true_iff in Same. destruct Same as [S1 S2]. apply Z.eqb_eq in S1, S2.
              subst s0. cbn [s_ms s_suite sess_of_payload] in S1, S2.
              split; [exists b, p; repeat split; try assumption; congruence|].
              repeat split; try assumption.
              exists e. repeat split; try assumption; [eapply purge_incl; exact I|eapply purge_young; eassumption].
           ++ destruct (zmem (s_suite s0) acc) eqn:A; cbn [negb]; [|intros H; discriminate].
              intros H. injection H as _ H. apply consistency_resume in H. destruct H as [-> [-> Hc]].
              split; [exact A|]. split; [exact Hc|]. exists b, p. repeat split; assumption.
        -- destruct (zmem (s_suite s0) acc) eqn:A; cbn [negb]; [|intros H; discriminate].
           intros H. injection H as _ H. apply consistency_resume in H. destruct H as [-> [-> Hc]].
           split; [exact A|]. split; [exact Hc|]. exists b, p. repeat split; assumption.
      * destruct (zmem (s_suite s0) acc) eqn:A; cbn [negb]; [|intros H; discriminate].
        intros H. injection H as _ H. apply consistency_resume in H. destruct H as [-> [-> Hc]].
        split; [exact A|]. split; [exact Hc|]. exists b, p. repeat split; assumption.
    + cbn [negb andb]. intros H. discriminate.
  - (* no ticket: the cache *)
    cbn [negb andb].
    destruct (sv_usecache cfg && nz (h_sid h)) eqn:U.
    + destruct (cache_get cfg now (h_sid h) st) as [st1 r] eqn:CG.
      destruct r as [s0|]; [|intros H; discriminate].
      destruct (zmem (s_suite s0) acc) eqn:A; cbn [negb]; [|intros H; discriminate].
      intros H. injection H as _ H. apply consistency_resume in H. destruct H as [-> [-> Hc]].
      split; [exact A|]. split; [exact Hc|].
      apply cache_get_some in CG. destruct CG as [-> [e [I [Es [R [Sid Nz]]]]]].
      apply andb_true_iff in U. destruct U as [U1 U2].
      unfold accepted_by_cache. repeat split; try assumption.
      exists e. repeat split; try assumption.
      * eapply purge_incl. exact I.
      * eapply purge_young; eassumption.
    + intros H. discriminate.
Qed.

(* a ticket that no current key opens is declined, and nothing else is tried *)
Lemma server_try_resume_unopenable cfg st acc (h : hello blob) now b :
  h_ticket h = Some b ->
  (forall k, In k (sv_keys cfg) -> open k b = None) ->
  server_try_resume blob open cfg st acc h now = (st, SFull).
Proof.
  intros HT Hno. unfold server_try_resume. rewrite HT.
  rewrite orb_true_r. unfold ticket_to_session. rewrite (try_decrypt_none _ _ Hno).
  cbn [negb andb]. reflexivity.
Qed.

(* an unknown session ID is declined *)
Lemma server_try_resume_unknown_id cfg st acc (h : hello blob) now :
  h_ticket h = None ->
  cache_find (h_sid h) (purge (sv_maxage cfg) now st) = None ->
  snd (server_try_resume blob open cfg st acc h now) = SFull.
Proof.
  intros HT Hno. unfold server_try_resume. rewrite HT. cbn [negb andb].
  destruct ((nz (h_sid h) && sv_usecache cfg) || false); [|reflexivity].
  destruct (sv_usecache cfg && nz (h_sid h)); [|reflexivity].
  unfold cache_get. rewrite Hno. reflexivity.
Qed.

(* ---- TLS 1.3 PSK selection ------------------------------------------------------ *)
Lemma server_psk_sound cfg cp (h : hello blob) now k p :
  server_psk blob open cfg cp h now = S13Psk k p ->
  exists b bk, h_psk h = Some (b, bk) /\ In k (sv_keys cfg) /\ open k b = Some p /\
               p_ver p = 4 /\ now <= p_created p + sv_life cfg /\ p_hash p = o_fhash cp /\ bk = p_ms p.
Proof.
  unfold server_psk. destruct (h_psk h) as [[b bk]|]; [|discriminate].
  destruct (nonempty (sv_keys cfg)); cbn [negb]; [|discriminate].
  destruct (try_decrypt blob open (sv_keys cfg) b) as [[k0 p0]|] eqn:T; [|discriminate].
  destruct (p_ver p0 =? 4) eqn:V; cbn [negb]; [|discriminate].
  destruct (p_created p0 + sv_life cfg <? now) eqn:L; [discriminate|].
  destruct (p_hash p0 =? o_fhash cp) eqn:Hh; cbn [negb]; [|discriminate].
  destruct (bk =? p_ms p0) eqn:B; cbn [negb]; [|discriminate].
  intros H. injection H as <- <-. apply try_decrypt_some in T. destruct T as [A O].
  exists b, bk. apply Z.eqb_eq in V, Hh, B. apply Z.ltb_ge in L. repeat split; assumption.
Qed.

Lemma server_psk_unopenable cfg cp (h : hello blob) now b bk :
  h_psk h = Some (b, bk) ->
  (forall k, In k (sv_keys cfg) -> open k b = None) ->
  server_psk blob open cfg cp h now = S13Full.
Proof.
  intros HP Hno. unfold server_psk. rewrite HP.
  destruct (nonempty (sv_keys cfg)); cbn [negb]; [|reflexivity].
  rewrite (try_decrypt_none _ _ Hno). reflexivity.
Qed.

End Decide.
