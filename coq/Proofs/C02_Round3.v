(* Round 3: the early-data window, unprotected records after a TLS 1.3 handshake, the KeyUpdate ratchet. *)
From Coq Require Import ZArith List Bool Lia.
From TV Require Import Base.Prelude Spec.CbcCheck Model.C01_RecordPipe Spec.C01_Contracts
  Model.C02_RecordAccept Proofs.C01_Lists Proofs.C01_RoundTrip Proofs.C02_Accept Proofs.C02_Reject.
Import ListNotations.
Open Scope Z_scope.
Local Opaque be_bytes.

Section EarlyP.
Context {CS : Type}.
Variables (c : Cfg) (P : Prim CS) (maxe : Z).

(* any record that is processed closes the window -- for every version and protection path *)
Lemma early_window_closes_l (r r' : ESt CS) w x :
  unprotect_e c P maxe r w = ROk (r', Some x) -> es_ok r' = false /\ es_used r' = 0.
Proof.
  destruct w as [[hty hver] body]. unfold unprotect_e.
  destruct (negb (c_has_enc c) && negb (c_has_mac c) && es_ok r && (hty =? 23)).
  - destruct ((zlen body >? c_recv_limit c + 2048) || (c_tls13 c && (zlen body >? c_recv_limit c + 256))); [discriminate|].
    destruct (es_ok r && (es_used r + zlen body <? maxe)); discriminate.
  - destruct (unprotect c P (es_st r) (hty, hver, body)) as [[s1 y]|e].
    + intros H. injection H as <- _. auto.
    + destruct e; try discriminate. destruct (es_ok r && (es_used r + zlen body <? maxe)); discriminate.
Qed.

(* with the window closed recvRecord is exactly `unprotect`: nothing is ever skipped *)
Lemma closed_window_is_strict_l (r : ESt CS) w : es_ok r = false ->
  unprotect_e c P maxe r w =
  match unprotect c P (es_st r) w with
  | ROk (s1, x) => ROk ({| es_st := s1; es_ok := false; es_used := 0 |}, Some x)
  | RErr e => RErr e
  end.
Proof.
  intros H. destruct w as [[hty hver] body]. unfold unprotect_e. rewrite H.
  rewrite andb_false_r. cbn [andb].
  destruct (unprotect c P (es_st r) (hty, hver, body)) as [[s1 y]|e]; [reflexivity|]. destruct e; reflexivity.
Qed.

(* a skip happens only inside an open window, leaves the read state untouched and is charged to the budget *)
Lemma early_skip_bounded_l (r r' : ESt CS) w :
  unprotect_e c P maxe r w = ROk (r', None) ->
  es_ok r = true /\ es_st r' = es_st r /\ es_ok r' = true /\
  es_used r' = es_used r + zlen (snd w) /\ es_used r' < maxe.
Proof.
  destruct w as [[hty hver] body]. unfold unprotect_e. cbn [snd].
  assert (Hskip : forall r', (if es_ok r && (es_used r + zlen body <? maxe)
      then ROk ({| es_st := es_st r; es_ok := true; es_used := es_used r + zlen body |}, None)
      else RErr EBadMac) = ROk (r', @None (Z * list Z)) ->
      es_ok r = true /\ es_st r' = es_st r /\ es_ok r' = true /\ es_used r' = es_used r + zlen body /\ es_used r' < maxe).
  { intros r0 H. destruct (es_ok r) eqn:E1; [|discriminate]. destruct (es_used r + zlen body <? maxe) eqn:E2; [|discriminate].
    injection H as <-. cbn. repeat split; auto. lia. }
  destruct (negb (c_has_enc c) && negb (c_has_mac c) && es_ok r && (hty =? 23)).
  - destruct ((zlen body >? c_recv_limit c + 2048) || (c_tls13 c && (zlen body >? c_recv_limit c + 256))); [discriminate|].
    apply Hskip.
  - destruct (unprotect c P (es_st r) (hty, hver, body)) as [[s1 y]|e]; [discriminate|].
    destruct e; try discriminate. apply Hskip.
Qed.

(* over a whole stream: once the window is closed, the first record that does not verify ends the stream *)
Fixpoint recv_stream_strict (s : St CS) (ws : list Wire) : list (Z * list Z) * option rerr * St CS :=
  match ws with
  | [] => ([], None, s)
  | w :: rest => match unprotect c P s w with
                 | RErr e => ([], Some e, s)
                 | ROk (s1, x) => let '(xs, e, s2) := recv_stream_strict s1 rest in (x :: xs, e, s2)
                 end
  end.

Lemma closed_stream_is_strict_l ws : forall (r : ESt CS), es_ok r = false ->
  fst (recv_stream_e c P maxe r ws) = fst (recv_stream_strict (es_st r) ws).
Proof.
  induction ws as [|w ws IH]; intros r H; [reflexivity|].
  cbn [recv_stream_e recv_stream_strict]. rewrite (closed_window_is_strict_l r w H).
  destruct (unprotect c P (es_st r) w) as [[s1 x]|e]; [|reflexivity].
  specialize (IH {| es_st := s1; es_ok := false; es_used := 0 |} eq_refl). cbn [es_st] in IH.
  destruct (recv_stream_e c P maxe {| es_st := s1; es_ok := false; es_used := 0 |} ws) as [[xs e] r2].
  destruct (recv_stream_strict s1 ws) as [[ys e'] s2]. cbn [fst] in *. injection IH as -> ->. reflexivity.
Qed.
End EarlyP.

(* ---- TLS 1.3: records with an outer type other than application_data ------------------------------------- *)
Section Plain13.
Context {CS : Type}.
Variable R : CS -> CS -> Prop.

Lemma tls13_non_appdata_rejected (c : Cfg) (P : Prim CS) (r : St CS) hty hver body :
  mode_ok P R MTls13 c -> c_plain_alert c = false -> hty <> 20 -> hty <> 23 ->
  0 <= st_seq r < 18446744073709551616 ->
  exists e, unprotect c P r (hty, hver, body) = RErr e /\ (e = EOverflow \/ e = EBadMac \/ e = EUnexpected).
Proof.
  intros [_ [Hv [H13 [Henc [Haead [_ [_ [Hnl [Hn8 _]]]]]]]]] Hpa H20 H23 Hseq.
  assert (Ht13 : is_tls13_plus c = true) by (unfold is_tls13_plus; rewrite Hv, H13; reflexivity).
  assert (Hexp : explicit_nonce c = false) by (unfold explicit_nonce; rewrite Ht13; apply andb_false_r).
  assert (Hux : uses_xor_nonce c = true) by (unfold uses_xor_nonce; rewrite Ht13; apply orb_true_r).
  unfold unprotect. cbv zeta.
  destruct (zlen body >? c_recv_limit c + 2048); [eauto|].
  destruct (c_tls13 c && (zlen body >? c_recv_limit c + 256)); [eauto|].
  rewrite Ht13, Henc, Haead, Hpa.
  destruct (hty =? 20) eqn:E20; [apply Z.eqb_eq in E20; contradiction|]. cbn [andb].
  unfold decrypt_and_unseal. rewrite next_seq_ok by lia. cbn [rbind]. rewrite Hexp.
  unfold get_nonce. rewrite Hux, zlen_be_bytes. change (Z.of_nat 8) with 8.
  destruct (zlen (c_fixed_nonce c) <? 8) eqn:E8; [lia|]. cbn [rbind].
  destruct (c_tag c >? zlen body); [cbn [rbind]; eauto|]. rewrite Ht13.
  destruct (hty =? 23) eqn:E23; [apply Z.eqb_eq in E23; contradiction|]. cbn [negb rbind]. eauto.
Qed.

(* after the handshake (both tolerance flags cleared) every record whose outer type is not application_data
   ends in a fatal alert: nothing unprotected is ignored or handed up *)
Lemma no_unprotected_after_handshake_l (cr cw : Cfg) (Pr Pw : Prim CS) (e : Endpoint CS) hty hver body :
  mode_ok Pr R MTls13 cr -> c_plain_alert cr = false -> hty <> 23 ->
  0 <= st_seq (e_rd e) < 18446744073709551616 ->
  exists d, snd (recv_step13 false cr cw Pr Pw e (hty, hver, body)) = OLocalAlert d /\
            e_closed (fst (recv_step13 false cr cw Pr Pw e (hty, hver, body))) = true /\
            e_rbuf (fst (recv_step13 false cr cw Pr Pw e (hty, hver, body))) = e_rbuf e.
Proof.
  intros Hmode Hpa H23 Hseq. unfold recv_step13.
  destruct (Z.eq_dec hty 20) as [->|H20].
  - (* change_cipher_spec: passed through by recvRecord, refused by _getMsg *)
    unfold recv_step.
    destruct (unprotect cr Pr (e_rd e) (20, hver, body)) as [[r1 [ty data]]|err] eqn:Eu.
    + assert (Hty : ty = 20).
      { pose proof Hmode as [_ [Hv [H13 _]]].
        assert (Ht13 : is_tls13_plus cr = true) by (unfold is_tls13_plus; rewrite Hv, H13; reflexivity).
        unfold unprotect in Eu.
        destruct (zlen body >? c_recv_limit cr + 2048); [discriminate|].
        destruct (c_tls13 cr && (zlen body >? c_recv_limit cr + 256)); [discriminate|].
        rewrite Ht13 in Eu. change (20 =? 20) with true in Eu. cbn [andb rbind] in Eu.
        change (20 =? 23) with false in Eu. rewrite andb_false_r in Eu. cbn [rbind] in Eu.
        destruct (zlen body >? c_recv_limit cr); [discriminate|]. injection Eu as _ <- _. reflexivity. }
      subst ty. change (20 =? 23) with false. cbn [negb andb].
      destruct (zlen data =? 0); [unfold send_error; cbn; eauto|].
      cbn [existsb]. change (20 =? 20) with true. cbn [orb negb]. unfold send_error. cbn. eauto.
    + destruct (alert_of err) as [d|] eqn:Ea.
      * unfold send_error. cbn. eauto.
      * (* EValue / EAssert cannot come out of the CCS pass-through *)
        exfalso. pose proof Hmode as [_ [Hv [H13 _]]].
        assert (Ht13 : is_tls13_plus cr = true) by (unfold is_tls13_plus; rewrite Hv, H13; reflexivity).
        unfold unprotect in Eu.
        destruct (zlen body >? c_recv_limit cr + 2048); [injection Eu as <-; discriminate|].
        destruct (c_tls13 cr && (zlen body >? c_recv_limit cr + 256)); [injection Eu as <-; discriminate|].
        rewrite Ht13 in Eu. change (20 =? 20) with true in Eu. cbn [andb rbind] in Eu.
        change (20 =? 23) with false in Eu. rewrite andb_false_r in Eu. cbn [rbind] in Eu.
        destruct (zlen body >? c_recv_limit cr); [injection Eu as <-; discriminate|discriminate].
  - destruct (tls13_non_appdata_rejected cr Pr (e_rd e) hty hver body Hmode Hpa H20 H23 Hseq) as [err [Eu Hcls]].
    unfold recv_step. rewrite Eu.
    assert (Ha : exists d, alert_of err = Some d) by (destruct Hcls as [->|[->| ->]]; cbn; eauto).
    destruct Ha as [d Ha]. rewrite Ha. unfold send_error. cbn. eauto.
Qed.
End Plain13.

(* ---- the KeyUpdate ratchet ------------------------------------------------------------------------------- *)
Definition ku_end_ok (e : KUEnd) : Prop := ku_own e = ku_wr e /\ ku_peer e = ku_rd e.
Definition ku_inv (s : KUSys) : Prop :=
  ku_end_ok (ku_a s) /\ ku_end_ok (ku_b s) /\
  ku_wr (ku_a s) = (ku_rd (ku_b s) + length (ku_ab s))%nat /\
  ku_wr (ku_b s) = (ku_rd (ku_a s) + length (ku_ba s))%nat.

Lemma ku_step_inv s o : ku_inv s -> ku_inv (ku_step s o).
Proof.
  intros [[A1 A2] [[B1 B2] [H1 H2]]]. unfold ku_inv, ku_end_ok in *.
  destruct o as [[|] req|[|]]; cbn [ku_step].
  - cbn. rewrite app_length. cbn. repeat split; lia.
  - cbn. rewrite app_length. cbn. repeat split; lia.
  - destruct (ku_ab s) as [|req rest] eqn:E; [cbn; rewrite E; repeat split; cbn in *; lia|].
    cbn [length] in H1. destruct req; cbn; rewrite ?app_length; cbn; repeat split; lia.
  - destruct (ku_ba s) as [|req rest] eqn:E; [cbn; rewrite E; repeat split; cbn in *; lia|].
    cbn [length] in H2. destruct req; cbn; rewrite ?app_length; cbn; repeat split; lia.
Qed.

Lemma ku_run_inv ops : forall s, ku_inv s -> ku_inv (fold_left ku_step ops s).
Proof. induction ops as [|o os IH]; intros s H; [exact H|]. cbn [fold_left]. apply IH, ku_step_inv, H. Qed.

Lemma ku_init_inv : ku_inv ku_init.
Proof. unfold ku_inv, ku_end_ok. cbn. repeat split; reflexivity. Qed.

(* ---- round 4: a rejection closes the connection whether or not the alert can be written ------------------- *)
Lemma reject_closes_even_if_alert_unsendable_l {CS} (sendable : bool) (cr cw : Cfg) (Pr Pw : Prim CS)
      (e : Endpoint CS) (w : Wire) err :
  unprotect cr Pr (e_rd e) w = RErr err ->
  let e' := fst (recv_step_f sendable cr cw Pr Pw e w) in
  e_closed e' = true /\ e_resumable e' = false /\ e_rbuf e' = e_rbuf e /\
  (sendable = false -> e_sent e' = e_sent e).
Proof.
  intros Hu. unfold recv_step_f, recv_step. rewrite Hu.
  destruct (alert_of err) as [d|]; unfold send_error, shutdown_only; destruct sendable; cbn;
    repeat split; auto; intros; try discriminate; reflexivity.
Qed.
