(* C10: an RSASSA-PSS-only key never accepts a PKCS#1 v1.5 signature, whatever the spelling of the
   scheme name and whichever public entry point is used. *)
From Coq Require Import ZArith List Bool String Ascii.
From TV Require Import Base.Prelude Gen.C10_Tables Model.C10_RsaMath Model.C10_RsaSig.
Import ListNotations.
Open Scope Z_scope.

Section D.
  Variable hash : list Z -> list Z.
  Variable hLen : Z.

  (* verify(): with an rsa-pss key only the exact name "pss" can be accepted; "pkcs1" gives False,
     every other spelling raises UnknownRSAType *)
  Lemma verify_named_pss_key n e sig data padname hashAlg sLen :
    (padname = "pkcs1"%string -> rsa_verify_named hash hLen true n e sig data padname hashAlg sLen = Ok false) /\
    (padname <> "pkcs1"%string -> padname <> "pss"%string ->
     rsa_verify_named hash hLen true n e sig data padname hashAlg sLen = Err UnknownRSAType) /\
    (rsa_verify_named hash hLen true n e sig data padname hashAlg sLen = Ok true -> padname = "pss"%string).
  Proof.
    unfold rsa_verify_named, pad_of_name.
    destruct (String.eqb padname "pkcs1") eqn:E1.
    - apply String.eqb_eq in E1. subst. repeat split; try reflexivity; try congruence. discriminate.
    - destruct (String.eqb padname "pss") eqn:E2.
      + apply String.eqb_eq in E2. subst. repeat split; try reflexivity; intros; congruence.
      + apply String.eqb_neq in E1. apply String.eqb_neq in E2.
        repeat split; try reflexivity; try congruence. discriminate.
  Qed.

  (* hashAndVerify(): the name is lower-cased BEFORE verify()'s key-type guard *)
  Lemma hashAndVerify_pss_key n e sig msg scheme hAlg sLen :
    (lower scheme = "pkcs1"%string -> rsa_hashAndVerify hash hLen true n e sig msg scheme hAlg sLen = Ok false) /\
    (rsa_hashAndVerify hash hLen true n e sig msg scheme hAlg sLen = Ok true -> lower scheme = "pss"%string).
  Proof.
    unfold rsa_hashAndVerify. split.
    - intros H. rewrite H. apply verify_named_pss_key. reflexivity.
    - intros H. apply verify_named_pss_key in H. exact H.
  Qed.

  Lemma signed_object_pss_key n e sig tbs alg : signed_object_verify hash hLen true n e sig tbs alg = Ok false.
  Proof. unfold signed_object_verify. apply hashAndVerify_pss_key. vm_compute. reflexivity. Qed.

  Lemma pss_only_key_rejects_pkcs1_all :
    forall n e sig data msg hashAlg hAlg sLen,
      (* verify(): exact name *)
      rsa_verify_named hash hLen true n e sig data "pkcs1" hashAlg sLen = Ok false /\
      (forall padname, rsa_verify_named hash hLen true n e sig data padname hashAlg sLen = Ok true -> padname = "pss"%string) /\
      (* hashAndVerify(): every spelling, including the default 'PKCS1' *)
      (forall scheme, lower scheme = "pkcs1"%string ->
                      rsa_hashAndVerify hash hLen true n e sig msg scheme hAlg sLen = Ok false) /\
      (forall scheme, rsa_hashAndVerify hash hLen true n e sig msg scheme hAlg sLen = Ok true -> lower scheme = "pss"%string) /\
      (* SignedObject.verify_signature (default scheme) *)
      signed_object_verify hash hLen true n e sig msg hAlg = Ok false.
  Proof.
    intros. split; [|split; [|split; [|split]]].
    - apply verify_named_pss_key. reflexivity.
    - intros padname. apply verify_named_pss_key.
    - intros scheme. apply hashAndVerify_pss_key.
    - intros scheme. apply hashAndVerify_pss_key.
    - apply signed_object_pss_key.
  Qed.
End D.

(* the spellings in use all normalise as expected *)
Lemma spellings :
  map lower ["pkcs1"; "PKCS1"; "Pkcs1"; "pKcS1"; "pss"; "PSS"; "Pss"]%string
  = ["pkcs1"; "pkcs1"; "pkcs1"; "pkcs1"; "pss"; "pss"; "pss"]%string.
Proof. vm_compute. reflexivity. Qed.
