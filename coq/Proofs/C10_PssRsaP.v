(* C10: RSASSA-PSS with the blinded CRT private operation; the modBits = 1 (mod 8) deviation. *)
From Coq Require Import ZArith List Bool Lia.
From TV Require Import Base.Prelude Model.C10_RsaMath Model.C10_RsaSig Toy.ToyMac
     Proofs.C10_BytesP Proofs.C10_MathP Proofs.C10_Pkcs1P Proofs.C10_PssP.
Import ListNotations.
Open Scope Z_scope.

Lemma pss_sign_verifies_crt :
  forall k, crt_shape_ok k = true ->
    (forall x, 0 <= x < rk_n k -> (x ^ rk_e k) ^ rk_d k mod rk_n k = x) ->
    (forall x, 0 <= x < rk_p k -> x ^ rk_dP k mod rk_p k = x ^ rk_d k mod rk_p k) ->
    (forall x, 0 <= x < rk_q k -> x ^ rk_dQ k mod rk_q k = x ^ rk_d k mod rk_q k) ->
    forall b, blind_inv k b ->
    forall (hash : list Z -> list Z) hLen,
      0 < hLen -> (forall m, zlen (hash m) = hLen) -> (forall m, all_bytes (hash m) = true) ->
      numBits (rk_n k) mod 8 <> 1 -> numBytes (rk_n k) <= 2 ^ 32 ->
      forall mHash salt, all_bytes salt = true ->
        (forall S, RSASSA_PSS_sign hash hLen (rk_n k) (crt_priv k b) mHash salt = Ok S ->
                   RSASSA_PSS_verify hash hLen (rk_n k) (rk_e k) mHash S (zlen salt) = Ok true) /\
        (hLen + zlen salt + 2 <= numBytes (rk_n k) ->
         exists S, RSASSA_PSS_sign hash hLen (rk_n k) (crt_priv k b) mHash salt = Ok S).
Proof.
  intros k Hs Hed HdP HdQ b Hb hash hLen H0 Hl Hby Hmod Hsz mHash salt Hsalt.
  pose proof (n_pos k Hs) as Hn. assert (Hn0 : 0 < rk_n k) by lia.
  pose proof (crt_priv_ok k Hs Hed HdP HdQ b Hb) as Hpriv.
  split.
  - intros S. apply (pss_sign_then_verify hash hLen H0 Hl Hby (rk_n k) (rk_e k) (crt_priv k b) Hn0 Hsz Hpriv); assumption.
  - intros Hfit. apply (pss_sign_succeeds hash hLen H0 Hl Hby (rk_n k) (crt_priv k b) Hn0 Hsz); assumption.
Qed.

(* the statement "RSASSA_PSS_sign succeeds for every key whenever hash and salt fit" is false:
   a 65-bit modulus (9 bytes; emLen = 8), 4-byte toy hash, empty salt: 4 + 0 + 2 <= 8, yet signing
   fails for every message hash and every private operation *)
Definition n65 : Z := 23910316408052783509.

Lemma pss_sign_total_witness :
  numBits n65 = 65 /\ 4 + 0 + 2 <= numBytes n65 - 1 /\
  forall (priv : Z -> Z) mHash, exists x, RSASSA_PSS_sign (toy_mac [1] 4) 4 n65 priv mHash [] = Err x.
Proof.
  split; [vm_compute; reflexivity|]. split; [vm_compute; discriminate|].
  intros priv mHash.
  assert (H4 : 0 < 4) by lia. assert (H4' : 0 <= 4) by lia.
  apply (pss_sign_fails_modbits_1_mod_8 (toy_mac [1] 4) 4 H4
           (fun m => toy_mac_length [1] 4 m H4') (fun m => toy_mac_bytes [1] 4 m) n65 priv).
  - vm_compute. reflexivity.
  - vm_compute. discriminate.
  - vm_compute. reflexivity.
  - vm_compute. discriminate.
  - reflexivity.
Qed.
