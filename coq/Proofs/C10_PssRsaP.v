(* C10: RSASSA-PSS with the blinded CRT private operation, for every modulus size. *)
From Coq Require Import ZArith List Bool Lia.
From TV Require Import Base.Prelude Model.C10_RsaMath Model.C10_RsaSig Toy.ToyMac
     Proofs.C10_BytesP Proofs.C10_MathP Proofs.C10_Pkcs1P Proofs.C10_PssP.
Import ListNotations.
Open Scope Z_scope.

Lemma pss_sign_verifies_crt :
  forall k, crt_shape_ok k = true ->
    (forall x, 0 <= x < rk_n k -> (x ^ rk_e k) ^ rk_d k mod rk_n k = x) ->
    (forall x, 0 <= x < rk_p k -> x ^ rk_dP k mod rk_p k = x ^ rk_d k mod rk_p k) ->
    (forall x, 0 <= x < rk_q k -> x ^ rk_dQ k mod rk_q k = x ^ rk_d k mod rk_q k) ->
    forall b, blind_inv k b ->
    forall (hash : list Z -> list Z) hLen,
      0 < hLen -> (forall m, zlen (hash m) = hLen) -> (forall m, all_bytes (hash m) = true) ->
      numBytes (rk_n k) <= 2 ^ 32 ->
      forall mHash salt, all_bytes salt = true ->
        (forall S, RSASSA_PSS_sign hash hLen (rk_n k) (crt_priv k b) mHash salt = Ok S ->
                   RSASSA_PSS_verify hash hLen (rk_n k) (rk_e k) mHash S (zlen salt) = Ok true) /\
        (hLen + zlen salt + 2 <= divceil (numBits (rk_n k) - 1) 8 ->
         exists S, RSASSA_PSS_sign hash hLen (rk_n k) (crt_priv k b) mHash salt = Ok S).
Proof.
  intros k Hs Hed HdP HdQ b Hb hash hLen H0 Hl Hby Hsz mHash salt Hsalt.
  pose proof (n_pos k Hs) as Hn.
  pose proof (crt_priv_ok k Hs Hed HdP HdQ b Hb) as Hpriv.
  split.
  - intros S. eapply pss_sign_then_verify; eassumption.
  - intros Hfit. eapply pss_sign_succeeds; eassumption.
Qed.

(* Before /repo cc7bf57 signing FAILED for every modulus of 8k+1 bits (theorems
   pss_sign_fails_when_modbits_1_mod_8 / pss_sign_fails_modbits_1_mod_8_refuted, witness n65 below:
   65 bits, 9 bytes, emLen = 8).  Now it succeeds there too. *)
Definition n65 : Z := 23910316408052783509.

Lemma pss_sign_works_for_n65 :
  numBits n65 = 65 /\ numBits n65 mod 8 = 1 /\
  forall (priv : Z -> Z) mHash, exists S, RSASSA_PSS_sign (toy_mac [1] 4) 4 n65 priv mHash [] = Ok S.
Proof.
  split; [vm_compute; reflexivity|]. split; [vm_compute; reflexivity|].
  intros priv mHash.
  assert (H4 : 0 < 4) by lia. assert (H4' : 0 <= 4) by lia.
  eapply (pss_sign_succeeds (toy_mac [1] 4) 4 H4 (fun m => toy_mac_length [1] 4 m H4') (fun m => toy_mac_bytes [1] 4 m)).
  - vm_compute. reflexivity.
  - vm_compute. discriminate.
  - reflexivity.
  - vm_compute. discriminate.
Qed.
