(* AES-GCM (generated Gen/C09_GCM.v): open accepts exactly the outputs of seal -- structural, for any
   block-cipher oracle; no property of GHASH or AES is used. *)
From Coq Require Import ZArith List Bool Lia String.
From TV Require Import Base.Prelude Base.C09_Lib Base.C09_Oracle Gen.C09_AesModes Gen.C09_GCM
  Spec.C09_Poly1305 Proofs.C09_Lists Proofs.C09_KDF.
Import ListNotations.
Open Scope list_scope.
Open Scope Z_scope.

(* ---- generic facts about while_fuel ----------------------------------------------------- *)
Lemma while_fuel_inv {S0} (P : S0 -> Prop) (c : S0 -> bool) (b : S0 -> res S0) :
  (forall s t, P s -> c s = true -> b s = Ok t -> P t) ->
  forall fuel s s', P s -> while_fuel fuel c b s = Ok s' -> P s' /\ c s' = false.
Proof.
  intros Hstep. induction fuel as [|fuel IH]; intros s s' Hs H; cbn [while_fuel] in H; [discriminate|].
  destruct (c s) eqn:E.
  - destruct (b s) as [t|e] eqn:Eb; cbn [bind] in H; [|discriminate].
    apply (IH t s'); [apply (Hstep s t); assumption|exact H].
  - injection H as <-. split; assumption.
Qed.

(* ---- CTR: the key stream depends on the data only through its length --------------------- *)
Section CTR.
  Variable O : BlockOracle.
  Hypothesis Obytes : forall k b, all_bytes (bo_enc O k b) = true.

  Definition ctr_state := (list Z * list Z * list Z * Z * list Z * list Z)%type.

  Definition ctr_loop (st : AESCTR) (n : Z) : res ctr_state :=
    while_fuel (Z.to_nat (n + 1))
      (fun '(mask, self_rijndael, self_IV, self__counter_bytes, self__counter, self__keystream) => zlen mask <? n)
      (fun '(mask, self_rijndael, self_IV, self__counter_bytes, self__counter, self__keystream) =>
         let mask := mask ++ bo_enc O self_rijndael self__counter in
         self__ <- ctr_counter_update O (mkAESCTR self_rijndael self_IV self__counter_bytes self__counter self__keystream) ;;
         let self_rijndael := ctr_rijndael self__ in
         let self_IV := ctr_IV self__ in
         let self__counter_bytes := ctr__counter_bytes self__ in
         let self__counter := ctr__counter self__ in
         let self__keystream := ctr__keystream self__ in
         Ok (mask, self_rijndael, self_IV, self__counter_bytes, self__counter, self__keystream))
      (ctr__keystream st, ctr_rijndael st, ctr_IV st, ctr__counter_bytes st, ctr__counter st, ctr__keystream st).

  (* the key stream (what is left from the previous call, then fresh blocks) depends on the data only through its length;
     the unused part is kept in the object *)
  Lemma ctr_encrypt_shape st m :
    ctr_encrypt O st m =
    (r <- ctr_loop st (zlen m) ;;
     let '(mask, a, b, c, d, _) := r in
     t <- mk_bytes (map (fun '(i, j) => Z.lxor i j) (combine m mask)) ;;
     Ok (mkAESCTR a b c d (py_slice mask (Some (zlen m)) None), t)).
  Proof.
    unfold ctr_encrypt, ctr_loop.
    destruct (while_fuel _ _ _ _) as [[[[[[mask a] b] c] d] k]|e]; reflexivity.
  Qed.

  Lemma ctr_decrypt_is_encrypt st m : ctr_decrypt O st m = ctr_encrypt O st m.
  Proof.
    unfold ctr_decrypt. destruct st as [a b c d k]. cbn [ctr_rijndael ctr_IV ctr__counter_bytes ctr__counter ctr__keystream].
    destruct (ctr_encrypt O (mkAESCTR a b c d k) m) as [[st' out]|e].
    - destruct st'. reflexivity.
    - reflexivity.
  Qed.

  Lemma ctr_loop_mask st n r : all_bytes (ctr__keystream st) = true -> ctr_loop st n = Ok r ->
    let '(mask, _, _, _, _, _) := r in n <= zlen mask /\ all_bytes mask = true.
  Proof.
    intros Bk H. unfold ctr_loop in H.
    eapply (while_fuel_inv (fun s : ctr_state => let '(mask, _, _, _, _, _) := s in all_bytes mask = true)) in H.
    - destruct H as [P C]. destruct r as [[[[[mask a] b] c] d] k]. split; [|exact P]. apply Z.ltb_ge in C. exact C.
    - intros [[[[[mask a] b] c] d] k] t Hm _ Hb. cbv beta iota zeta in Hb.
      destruct (ctr_counter_update O (mkAESCTR a b c d k)) as [s2|e]; cbn [bind] in Hb; [|discriminate].
      injection Hb as <-. rewrite all_bytes_app, Hm, Obytes. reflexivity.
    - exact Bk.
  Qed.

  Lemma xor_map_length (a b : list Z) : zlen a <= zlen b ->
    zlen (map (fun '(i, j) => Z.lxor i j) (combine a b)) = zlen a.
  Proof. intros H. unfold zlen in *. rewrite map_length, combine_length. lia. Qed.

  Lemma xor_map_involutive : forall (a b : list Z), zlen a <= zlen b ->
    map (fun '(i, j) => Z.lxor i j) (combine (map (fun '(i, j) => Z.lxor i j) (combine a b)) b) = a.
  Proof.
    induction a as [|x a IH]; intros [|y b] H; try reflexivity.
    - rewrite zlen_cons in H. change (zlen (@nil Z)) with 0 in H. pose proof (zlen_nonneg a). lia.
    - cbn [combine map]. rewrite IH by (rewrite !zlen_cons in H; lia).
      rewrite Z.lxor_assoc, Z.lxor_nilpotent, Z.lxor_0_r. reflexivity.
  Qed.

  (* encrypting twice from the same counter state gives the data back *)
  Lemma ctr_involution st m st1 c : all_bytes (ctr__keystream st) = true -> all_bytes m = true ->
    ctr_encrypt O st m = Ok (st1, c) ->
    ctr_encrypt O st c = Ok (st1, m) /\ zlen c = zlen m /\ all_bytes c = true.
  Proof.
    intros Bk Bm H. rewrite ctr_encrypt_shape in H.
    destruct (ctr_loop st (zlen m)) as [r|e] eqn:EL; cbn [bind] in H; [|discriminate].
    pose proof (ctr_loop_mask st (zlen m) r Bk EL) as HM.
    destruct r as [[[[[mask a] b] cc] d] k]. destruct HM as [Hlen Bmask].
    unfold mk_bytes in H.
    destruct (all_bytes (map (fun '(i, j) => Z.lxor i j) (combine m mask))) eqn:Bc; cbn [bind] in H; [|discriminate].
    injection H as <- <-.
    assert (Lc : zlen (map (fun '(i, j) => Z.lxor i j) (combine m mask)) = zlen m) by (apply xor_map_length; exact Hlen).
    split; [|split; [exact Lc|exact Bc]].
    rewrite ctr_encrypt_shape, Lc, EL. cbn [bind].
    rewrite xor_map_involutive by exact Hlen. unfold mk_bytes. rewrite Bm. reflexivity.
  Qed.

  (* assigning the counter property (what AES-GCM and AES-CCM do for every record) drops the unused key stream *)
  Lemma ctr_set_counter_drops st c :
    ctr_set_counter O st c = mkAESCTR (ctr_rijndael st) (ctr_IV st) (ctr__counter_bytes st) c [].
  Proof. reflexivity. Qed.
End CTR.

(* ---- GCM ------------------------------------------------------------------------------------ *)
Lemma foldM_ext {A B} (f g : A -> B -> res A) l a : (forall a x, f a x = g a x) -> foldM f l a = foldM g l a.
Proof.
  intros H. revert a. induction l as [|x l IH]; intros a; cbn [foldM]; [reflexivity|].
  rewrite H. destruct (g a x); cbn [bind]; [apply IH|reflexivity].
Qed.

Lemma le_bytes_len n v : List.length (le_bytes n v) = n.
Proof. revert v. induction n as [|n IH]; intros v; cbn [le_bytes List.length]; [reflexivity|]. rewrite IH. reflexivity. Qed.

Section GCM.
  Variable O : BlockOracle.
  Hypothesis Obytes : forall k b, all_bytes (bo_enc O k b) = true.

  (* the authentication tag does not depend on the state of the embedded CTR object *)
  Lemma gcm_mul_indep k c1 c2 t y : gcm_mul O (mkAESGCM k c1 t) y = gcm_mul O (mkAESGCM k c2 t) y.
  Proof. reflexivity. Qed.

  Lemma gcm_update_indep k c1 c2 t y d : gcm_update O (mkAESGCM k c1 t) y d = gcm_update O (mkAESGCM k c2 t) y d.
  Proof.
    unfold gcm_update. cbn [gcm_key gcm__ctr gcm__productTable].
    rewrite (foldM_ext _ (fun y0 i =>
       let y1 := Z.lxor y0 (bytesToNumber (py_slice d (Some (16 * i)) (Some (16 * i + 16)))) in
       t2_ <- gcm_mul O (mkAESGCM k c2 t) y1 ;; let y2 := t2_ in Ok y2))
      by (intros; cbv zeta; rewrite (gcm_mul_indep k c1 c2); reflexivity).
    destruct (foldM _ _ y) as [y'|e]; cbn [bind]; [|reflexivity].
    destruct (negb (zlen d mod 16 =? 0)); [|reflexivity].
    destruct (py_zeros 16); cbn [bind]; [|reflexivity]. cbv zeta.
    rewrite (gcm_mul_indep k c1 c2). reflexivity.
  Qed.

  Lemma gcm_auth_indep k c1 c2 t ct a m : gcm_auth O (mkAESGCM k c1 t) ct a m = gcm_auth O (mkAESGCM k c2 t) ct a m.
  Proof.
    unfold gcm_auth. cbn [gcm_key gcm__ctr gcm__productTable]. cbv zeta.
    rewrite (gcm_update_indep k c1 c2). destruct (gcm_update O (mkAESGCM k c2 t) 0 a) as [y1|e]; cbn [bind]; [|reflexivity].
    rewrite (gcm_update_indep k c1 c2). destruct (gcm_update O (mkAESGCM k c2 t) y1 ct) as [y2|e]; cbn [bind]; [|reflexivity].
    rewrite (gcm_mul_indep k c1 c2). reflexivity.
  Qed.

  Lemma gcm_auth_len g ct a m t : gcm_auth O g ct a m = Ok t -> List.length t = 16%nat.
  Proof.
    unfold gcm_auth. cbv zeta.
    destruct (gcm_update O _ 0 a) as [y1|e]; cbn [bind]; [|discriminate].
    destruct (gcm_update O _ y1 ct) as [y2|e]; cbn [bind]; [|discriminate].
    destruct (gcm_mul O _ _) as [y3|e]; cbn [bind]; [|discriminate].
    intros H. injection H as <-. unfold numberToByteArray, be_bytes. rewrite rev_length, le_bytes_len. reflexivity.
  Qed.

  Lemma list_eqb_refl (l : list Z) : list_eqb l l = true.
  Proof. apply list_eqb_spec. reflexivity. Qed.

  (* open returns p exactly for the ciphertexts seal produces for p (same object state, same nonce and AAD) *)
  Lemma gcm_open_iff_seal_code g nonce c a p : all_bytes c = true -> all_bytes p = true ->
    (exists g1, gcm_open O g nonce c a = Ok (g1, Some p)) <-> (exists g2, gcm_seal O g nonce p a = Ok (g2, c)).
  Proof.
    intros Bc Bp. destruct g as [k ctr tbl].
    unfold gcm_open, gcm_seal. cbn [gcm_key gcm__ctr gcm__productTable]. cbv zeta.
    destruct (negb (zlen nonce =? 12)); [split; intros [x H]; discriminate|].
    destruct (py_zeros 16) as [z16|e]; cbn [bind]; [|split; intros [x H]; [destruct (zlen c <? 16)|]; discriminate].
    set (cb0 := py_slice_assign z16 None (Some 12) nonce).
    destruct (py_store_b cb0 (-1) 1) as [cb1|e]; cbn [bind]; [|split; intros [x H]; [destruct (zlen c <? 16)|]; discriminate].
    set (mask := bo_enc O k cb1).
    destruct (py_store_b cb1 (-1) 2) as [cb2|e] eqn:E2; cbn [bind].
    2:{ split; intros [x H]; [|discriminate]. destruct (zlen c <? 16); [discriminate|].
        destruct (gcm_auth O _ _ a mask); cbn [bind] in H; [|discriminate].
        destruct (negb (list_eqb _ _)); discriminate. }
    set (ctr2 := ctr_set_counter O ctr cb2).
    assert (Bk2 : all_bytes (ctr__keystream ctr2) = true) by reflexivity.
    split.
    - (* open -> seal *)
      intros [g1 H]. destruct (zlen c <? 16) eqn:E16; [discriminate|]. apply Z.ltb_ge in E16.
      pose proof (py_slice_last c 16 ltac:(lia)) as S1. pose proof (py_slice_butlast c 16 ltac:(lia)) as S2.
      cbn [Z.opp] in S1, S2. change (Z.to_nat 16) with 16%nat in S1, S2. rewrite S1, S2 in H. clear S1 S2.
      set (ct := firstn (List.length c - 16) c) in *. set (tg := skipn (List.length c - 16) c) in *.
      destruct (gcm_auth O (mkAESGCM k ctr tbl) ct a mask) as [t2|e] eqn:EA; cbn [bind] in H; [|discriminate].
      destruct (list_eqb tg t2) eqn:ET; cbn [negb] in H; [|discriminate].
      apply list_eqb_spec in ET.
      rewrite (ctr_decrypt_is_encrypt O) in H.
      destruct (ctr_encrypt O ctr2 ct) as [[ctr3 p']|e] eqn:EC; cbn [bind fst snd] in H; [|discriminate].
      injection H as <- ->.
      assert (Bct : all_bytes ct = true) by (apply all_bytes_firstn; exact Bc).
      destruct (ctr_involution O Obytes ctr2 ct ctr3 p Bk2 Bct EC) as [EI _].
      rewrite EI. cbn [bind fst snd].
      rewrite (gcm_auth_indep k ctr3 ctr tbl), EA. cbn [bind].
      eexists. f_equal. f_equal. rewrite <- ET. unfold ct, tg. apply firstn_skipn.
    - (* seal -> open *)
      intros [g2 H].
      destruct (ctr_encrypt O ctr2 p) as [[ctr3 ct]|e] eqn:EC; cbn [bind fst snd] in H; [|discriminate].
      destruct (gcm_auth O (mkAESGCM k ctr3 tbl) ct a mask) as [t2|e] eqn:EA; cbn [bind] in H; [|discriminate].
      injection H as <- <-.
      pose proof (gcm_auth_len _ _ _ _ _ EA) as Lt.
      destruct (ctr_involution O Obytes ctr2 p ctr3 ct Bk2 Bp EC) as [EI [Lc Bct]].
      assert (Lz : zlen (ct ++ t2) = zlen ct + 16) by (rewrite zlen_app; unfold zlen; lia).
      destruct (zlen (ct ++ t2) <? 16) eqn:E16; [pose proof (zlen_nonneg ct); lia|].
      pose proof (py_slice_last (ct ++ t2) 16 ltac:(pose proof (zlen_nonneg ct); lia)) as S1.
      pose proof (py_slice_butlast (ct ++ t2) 16 ltac:(pose proof (zlen_nonneg ct); lia)) as S2.
      cbn [Z.opp] in S1, S2. change (Z.to_nat 16) with 16%nat in S1, S2. rewrite S1, S2. clear S1 S2.
      rewrite app_length, Lt. replace (List.length ct + 16 - 16)%nat with (List.length ct) by lia.
      rewrite firstn_app, Nat.sub_diag, firstn_all, firstn_O, app_nil_r.
      rewrite skipn_app, Nat.sub_diag, skipn_all, skipn_O. cbn [app].
      rewrite (gcm_auth_indep k ctr ctr3 tbl), EA. cbn [bind]. rewrite list_eqb_refl. cbn [negb].
      rewrite (ctr_decrypt_is_encrypt O), EI. cbn [bind fst snd]. eexists. reflexivity.
  Qed.
End GCM.
