(* C11 -- the executable validity test of the specification is the PKCS#1 v1.5 type-2 format *)
From Coq Require Import ZArith List Bool Lia.
From TV Require Import Base.Prelude Base.C11_Lib Spec.C11_Pkcs1Dec Proofs.C11_LibFacts.
Import ListNotations.
Open Scope Z_scope.

Lemma first_zero_split l : forall p s, first_zero p l = Some s ->
  exists ps t, l = ps ++ 0 :: t /\ Forall (fun b => b <> 0) ps /\ s = p + zlen ps.
Proof.
  induction l as [|x l IH]; intros p s H; cbn [first_zero] in H; [discriminate|].
  destruct (x =? 0) eqn:E.
  - injection H as <-. apply Z.eqb_eq in E. subst x. exists [], l. repeat split; [constructor|].
    unfold zlen. cbn [length]. lia.
  - destruct (IH _ _ H) as [ps [t [-> [F ->]]]]. exists (x :: ps), t. split; [reflexivity|].
    split; [constructor; [lia|exact F]|]. rewrite zlen_cons. lia.
Qed.

Lemma first_zero_of_split ps t : forall p, Forall (fun b => b <> 0) ps ->
  first_zero p (ps ++ 0 :: t) = Some (p + zlen ps).
Proof.
  induction ps as [|x ps IH]; intros p F; cbn [app first_zero].
  - change (0 =? 0) with true. cbv iota. f_equal. unfold zlen. cbn [length]. lia.
  - inversion F as [|? ? Hx F']; subst. destruct (x =? 0) eqn:E; [lia|].
    rewrite IH by exact F'. rewrite zlen_cons. f_equal. lia.
Qed.

Lemma skipn_past {A} (ps : list A) x t : skipn (length ps + 1) (ps ++ x :: t) = t.
Proof. induction ps as [|y ps IH]; [reflexivity|]. cbn [length app Nat.add skipn]. exact IH. Qed.

Lemma unpad_iff_format em m : pkcs1_unpad em = Some m <-> pkcs1_format em m.
Proof.
  unfold pkcs1_format. split.
  - intros H. unfold pkcs1_unpad in H. destruct em as [|b0 [|b1 rest]]; try discriminate.
    destruct (b0 =? 0) eqn:B0; [|discriminate]. destruct (b1 =? 2) eqn:B1; [|discriminate].
    cbn [andb] in H. destruct (first_zero 2 rest) as [s|] eqn:FZ; [|discriminate].
    destruct (10 <=? s) eqn:S10; [|discriminate]. injection H as <-.
    destruct (first_zero_split _ _ _ FZ) as [ps [t [-> [F ->]]]].
    exists ps. apply Z.eqb_eq in B0, B1. subst. split; [|split; [lia|exact F]].
    f_equal. f_equal. f_equal. f_equal.
    replace (Z.to_nat (2 + zlen ps + 1)) with (S (S (length ps + 1)))%nat by (unfold zlen; lia).
    cbn [skipn]. symmetry. apply skipn_past.
  - intros [ps [-> [L F]]]. unfold pkcs1_unpad.
    change (0 =? 0) with true. change (2 =? 2) with true. cbn [andb].
    rewrite first_zero_of_split by exact F.
    destruct (10 <=? 2 + zlen ps) eqn:S10; [|lia].
    replace (Z.to_nat (2 + zlen ps + 1)) with (S (S (length ps + 1)))%nat by (unfold zlen; lia).
    cbn [skipn]. rewrite skipn_past. reflexivity.
Qed.
