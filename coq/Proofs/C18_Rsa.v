(* RSA blinding under concurrency: the squaring update preserves
   blinder * unblinder^e = 1 (mod n), and every call returns m^d mod n in every interleaving. *)
From Coq Require Import ZArith List Bool Lia String Zpow_facts.
From TV Require Import Base.Prelude Base.C18_Lib Model.C18_Conc Model.C18_LockSteps Model.C18_Rsa
     Proofs.C18_Conc Gen.Locks.
Import ListNotations.
Open Scope Z_scope.

Lemma Forall2_upd_nth {A B} (R : A -> B -> Prop) : forall l1 l2 i a b',
  Forall2 R l1 l2 -> nth_error l1 i = Some a -> R a b' -> Forall2 R l1 (upd_nth i l2 b').
Proof.
  intros l1 l2 i a b' H. revert i. induction H as [|x y l1 l2 Hxy H IH]; intros i Hi Hr.
  - destruct i; discriminate.
  - destruct i as [|i]; cbn [nth_error upd_nth] in *.
    + inversion Hi; subst. constructor; assumption.
    + constructor; [exact Hxy|]. apply IH; assumption.
Qed.

Lemma Forall2_nth_l {A B} (R : A -> B -> Prop) : forall l1 l2 i b,
  Forall2 R l1 l2 -> nth_error l2 i = Some b -> exists a, nth_error l1 i = Some a /\ R a b.
Proof.
  intros l1 l2 i b H. revert i. induction H as [|x y l1 l2 Hxy H IH]; intros i Hi.
  - destruct i; discriminate.
  - destruct i as [|i]; cbn [nth_error] in *.
    + inversion Hi; subst. eauto.
    + apply IH. exact Hi.
Qed.

Section RsaProofs.
  Variables n e d : Z.
  Variable invmod : Z -> Z.
  Variable helper : Z -> Z.
  (* key validity (H-rsa-key): the user's key is a working RSA key *)
  Hypothesis Hn : 1 < n.
  Hypothesis He : 0 <= e.
  Hypothesis Hd : 0 <= d.
  Hypothesis Hhelper : forall x, 0 <= x < n -> helper x = (x ^ d) mod n.
  Hypothesis Hed : forall x, (x ^ (e * d)) mod n = x mod n.

  (* the random unblinder drawn on the first pass is invertible mod n and invMod finds the inverse *)
  Definition unit_ok (r : Z) : Prop := (invmod r * r) mod n = 1.

  Notation binv := (binv n e).
  Notation pair_ok := (pair_ok n e).
  Notation rsa_prog := (rsa_prog n e invmod helper).

  Lemma one_mod : 1 mod n = 1.
  Proof. apply Z.mod_small. lia. Qed.

  Lemma binv_square b u : binv b u -> binv ((b * b) mod n) ((u * u) mod n).
  Proof.
    unfold binv. intros H.
    rewrite Z.mul_mod_idemp_l by lia.
    rewrite <- Z.mul_mod_idemp_r by lia. rewrite <- Zpower_mod by lia.
    rewrite Z.mul_mod_idemp_r by lia.
    rewrite Z.pow_mul_l.
    replace (b * b * (u ^ e * u ^ e)) with ((b * u ^ e) * (b * u ^ e)) by ring.
    rewrite Z.mul_mod by lia. rewrite H. change (1 * 1) with 1. apply one_mod.
  Qed.

  Lemma binv_first r : unit_ok r -> binv (powmod n (invmod r) e) r.
  Proof.
    unfold binv, unit_ok, powmod. intros H.
    rewrite Z.mul_mod_idemp_l by lia. rewrite <- Z.pow_mul_l.
    rewrite Zpower_mod by lia. rewrite H. rewrite Z.pow_1_l by exact He. apply one_mod.
  Qed.

  Lemma binv_nonzero b u : binv b u -> b <> 0.
  Proof.
    unfold binv. intros H E. subst b. rewrite Z.mul_0_l, Z.mod_0_l in H by lia. discriminate.
  Qed.

  (* blind, exponentiate, unblind *)
  Lemma unblind_correct b u m : binv b u ->
    (helper ((m * b) mod n) * u) mod n = (m ^ d) mod n.
  Proof.
    unfold binv. intros H.
    rewrite Hhelper by (apply Z.mod_pos_bound; lia).
    rewrite <- Zpower_mod by lia.
    rewrite Z.mul_mod_idemp_l by lia.
    rewrite Z.pow_mul_l. rewrite <- Z.mul_assoc.
    assert ((b ^ d * u) mod n = 1) as K.
    { rewrite <- Z.mul_mod_idemp_r by lia. rewrite <- (Hed u).
      rewrite Z.mul_mod_idemp_r by lia.
      rewrite Z.pow_mul_r by assumption. rewrite <- Z.pow_mul_l.
      rewrite Zpower_mod by lia. rewrite H. rewrite Z.pow_1_l by exact Hd. apply one_mod. }
    rewrite Z.mul_mod by lia. rewrite K. rewrite Z.mul_1_r. apply Z.mod_mod. lia.
  Qed.

  (* one whole call, executed alone from a good pair *)
  Lemma rsa_op_effect (st : store Z) m rnd :
    pair_ok st -> unit_ok rnd ->
    exists st' lo',
      run_chunk false st (rlo_init m rnd) rsa_prog = (st', lo', []) /\
      pair_ok st' /\ l_c lo' = (m ^ d) mod n.
  Proof.
    intros Hp Hu. unfold C18_Rsa.rsa_prog.
    cbn [run_chunk]. cbv [v_blinder v_unblinder upd].
    change (1 =? 0) with false. change (0 =? 0) with true. change (1 =? 1) with true.
    change (0 =? 1) with false. cbv iota.
    cbn [set_first set_u set_b set_m set_c rlo_init l_m l_rnd l_first l_b l_u l_c].
    destruct Hp as [Hz|Hb]; unfold v_blinder, v_unblinder in *.
    - (* first pass: the pair is created *)
      rewrite Hz. change (0 =? 0) with true. cbv iota.
      eexists. eexists. split; [reflexivity|]. split.
      + right. unfold v_blinder, v_unblinder. cbn beta.
        change (1 =? 0) with false. change (0 =? 0) with true. change (1 =? 1) with true. cbv iota.
        apply binv_square. apply binv_first. exact Hu.
      + cbn [l_c]. apply unblind_correct. apply binv_first. exact Hu.
    - pose proof (binv_nonzero _ _ Hb) as Hnz.
      destruct (st 0 =? 0) eqn:E; [apply Z.eqb_eq in E; contradiction|].
      eexists. eexists. split; [reflexivity|]. split.
      + right. unfold v_blinder, v_unblinder. cbn beta.
        change (1 =? 0) with false. change (0 =? 0) with true. change (1 =? 1) with true. cbv iota.
        apply binv_square. exact Hb.
      + cbn [l_c]. apply unblind_correct. exact Hb.
  Qed.

  (* ---- invariant of every sequential order of whole calls -------------------- *)
  Definition call_state (mr : Z * Z) (t : thread rlo Z) : Prop :=
    t = rsa_thread n e invmod helper mr \/ (t_prog t = [] /\ l_c (t_lo t) = (fst mr ^ d) mod n).

  Definition seq_inv (calls : list (Z * Z)) (sc : sconf rlo Z) : Prop :=
    pair_ok (fst sc) /\ Forall2 call_state calls (snd sc).

  Lemma run_op_inv calls sc i :
    (forall mr, In mr calls -> unit_ok (snd mr)) -> seq_inv calls sc -> seq_inv calls (run_op sc i).
  Proof.
    intros Hu [Hp Hf]. destruct sc as [st ths]. cbn [fst snd] in *.
    unfold run_op. cbn [fst snd]. destruct (nth_error ths i) as [t|] eqn:Ht; [|split; assumption].
    destruct (Forall2_nth_l _ _ _ _ _ Hf Ht) as [mr [Hmr Hc]].
    destruct Hc as [->|[Hnil Hres]].
    - destruct mr as [m rnd]. cbn [rsa_thread t_lo t_prog fst snd].
      destruct (rsa_op_effect st m rnd Hp (Hu _ (nth_error_In _ _ Hmr))) as [st' [lo' [E [Hp' Hr]]]].
      rewrite E. split; [exact Hp'|]. cbn [snd]. unfold set_thread.
      eapply Forall2_upd_nth; [exact Hf|exact Hmr|]. right. cbn [t_prog t_lo fst]. split; [reflexivity|exact Hr].
    - rewrite Hnil. cbn [run_chunk]. split; [exact Hp|]. cbn [snd]. unfold set_thread.
      eapply Forall2_upd_nth; [exact Hf|exact Hmr|]. right. cbn [t_prog t_lo]. split; [reflexivity|exact Hres].
  Qed.

  Lemma serial_inv calls order : forall sc,
    (forall mr, In mr calls -> unit_ok (snd mr)) -> seq_inv calls sc -> seq_inv calls (serial order sc).
  Proof.
    induction order as [|i order IH]; intros sc Hu Hi; [exact Hi|].
    unfold serial. cbn [fold_left]. apply IH; [exact Hu|]. apply run_op_inv; assumption.
  Qed.

  Lemma rsa_prog_well_locked : well_locked rsa_prog = true.
  Proof. reflexivity. Qed.

  Lemma concurrent_private_ops_correct_all : forall calls b0 u0 sched cf,
    (b0 = 0 \/ binv b0 u0) ->
    (forall mr, In mr calls -> unit_ok (snd mr)) ->
    run_sched (rsa_config n e invmod helper b0 u0 calls) sched = Some cf -> terminal cf ->
    Forall2 (fun mr t => l_c (t_lo t) = (fst mr ^ d) mod n) calls (g_threads cf) /\
    pair_ok (g_store cf).
  Proof.
    intros calls b0 u0 sched cf H0 Hu Hrun Hterm.
    destruct (serializable_all rlo Z (rsa_config n e invmod helper b0 u0 calls) cf sched) as [order Hser];
      [reflexivity| |exact Hrun|exact Hterm|].
    { intros t Ht. cbn [rsa_config g_threads] in Ht. apply in_map_iff in Ht.
      destruct Ht as [mr [<- _]]. apply rsa_prog_well_locked. }
    assert (seq_inv calls (g_store (rsa_config n e invmod helper b0 u0 calls),
                           g_threads (rsa_config n e invmod helper b0 u0 calls))) as Hi.
    { split.
      - cbn [fst rsa_config g_store]. unfold C18_Rsa.pair_ok, v_blinder, v_unblinder.
        change (0 =? 0) with true. change (1 =? 0) with false. cbv iota. exact H0.
      - cbn [snd rsa_config g_threads]. clear. induction calls as [|mr l IH]; constructor; [left; reflexivity|exact IH]. }
    pose proof (serial_inv calls order _ Hu Hi) as [Hp Hf]. rewrite Hser in Hp, Hf. cbn [fst snd] in Hp, Hf.
    split; [|exact Hp].
    clear - Hf Hterm. unfold terminal in Hterm.
    induction Hf as [|mr t l1 l2 Hc Hf IH]; constructor.
    - destruct Hc as [->|[_ Hr]]; [|exact Hr].
      specialize (Hterm _ (or_introl eq_refl)). discriminate.
    - apply IH. intros t' Ht'. apply Hterm. right. exact Ht'.
  Qed.
End RsaProofs.

(* ---- tie to the extracted step list ------------------------------------------ *)
(* lock events and accesses to the attributes some method writes (blinder, unblinder), in
   order: the hand-written program and the list extracted from /repo agree *)
Lemma rsa_trace_tie_holds : forall n e invmod helper,
  xsteps_eqb (rsa_trace (rsa_prog n e invmod helper))
             (racy_trace (written "Python_RSAKey" all_methods) Python_RSAKey_rawPrivateKeyOp) = true.
Proof. intros. vm_compute. reflexivity. Qed.

(* ---- the hypotheses are satisfiable: a small real key -------------------------- *)
Lemma toy_key_helper : forall x, 0 <= x < toy_n -> toy_helper x = (x ^ toy_d) mod toy_n.
Proof.
  intros x Hx.
  assert (forallb (fun x => toy_helper x =? (x ^ toy_d) mod toy_n) (zrange 0 toy_n) = true) as H
      by (vm_compute; reflexivity).
  rewrite forallb_forall in H. apply Z.eqb_eq. apply H. apply in_zrange. exact Hx.
Qed.

Lemma toy_key_ed : forall x, (x ^ (toy_e * toy_d)) mod toy_n = x mod toy_n.
Proof.
  intros x.
  assert (forallb (fun x => (x ^ (toy_e * toy_d)) mod toy_n =? x) (zrange 0 toy_n) = true) as H
      by (vm_compute; reflexivity).
  rewrite forallb_forall in H.
  rewrite Zpower_mod by (unfold toy_n; lia).
  assert (0 <= x mod toy_n < toy_n) as Hr by (apply Z.mod_pos_bound; unfold toy_n; lia).
  specialize (H (x mod toy_n) (proj2 (in_zrange 0 toy_n _) Hr)). apply Z.eqb_eq in H. exact H.
Qed.

Lemma toy_units : forallb (fun r => (toy_invmod r * r) mod toy_n =? 1) [2; 3; 100; 252] = true.
Proof. vm_compute. reflexivity. Qed.

Lemma blinding_invariant_all : forall n e b u, 1 < n ->
  binv n e b u -> binv n e ((b * b) mod n) ((u * u) mod n).
Proof. intros n e b u Hn. exact (binv_square n e Hn b u). Qed.
