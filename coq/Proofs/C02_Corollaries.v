(* C02: image characterisation through the dispatcher, the named rejection corollaries,
   effects of a rejection, and instances showing the hypotheses are satisfiable. *)
From Coq Require Import ZArith List Bool Lia.
From TV Require Import Base.Prelude Spec.CbcCheck Toy.ToyMac Model.C01_RecordPipe Toy.C01_ToyCipher
  Spec.C01_Contracts Model.C02_RecordAccept Spec.C02_Ideal Proofs.C01_Lists Proofs.C01_Cbc
  Proofs.C01_RoundTrip Proofs.C01_Delivery Proofs.C01_ToyOk Proofs.C02_Cbc Proofs.C02_Accept
  Proofs.C02_Integrity Proofs.C02_Reject.
Import ListNotations.
Open Scope Z_scope.
Local Opaque be_bytes.

Section Image.
Context {CS : Type}.
Variable P : Prim CS.
Variable R : CS -> CS -> Prop.
Variable c : Cfg.

Lemma mte_body_with_stream (s : St CS) ty data ch : c_block c = false ->
  mte_body_with c P s ty data ch = mac_then_encrypt c P s ty data.
Proof. intros H. unfold mte_body_with, mac_then_encrypt. rewrite H. reflexivity. Qed.

Definition choice_legal (md : mode) (ch : Choice) : Prop :=
  match md with
  | MStream => True
  | MCbc => pad_legal c ch
  | MEtm => c_has_enc c = true -> pad_legal_etm c ch
  | MAead12 => explicit_nonce c = true -> zlen (ch_nonce ch) = 8
  | MTls13 => 0 <= ch_zeros ch
  end.

Definition onto_ok (md : mode) : Prop :=
  match md with
  | MStream => c_has_enc c = true -> cipher_onto P R 1
  | MCbc => cipher_onto P R (c_bs c)
  | MEtm => c_has_enc c = true -> cipher_onto P R (c_bs c)
  | _ => aead_tight P
  end.

(* TLS <= 1.2: whatever recvRecord accepts is, byte for byte, what a sender in step with the
   receiver (same key, cipher state, sequence number) produces for the (type, payload) it yields,
   for some legal choice of padding / IV block / explicit nonce and the header version it carries *)
Theorem accept_in_image_legacy md (s r r' : St CS) hty hver body ty p :
  md <> MTls13 -> mode_ok P R md c -> onto_ok md -> dec_bytes P -> bytes_list body -> zlen body < 65536 ->
  sync R s r ->
  unprotect c P r (hty, hver, body) = ROk (r', (ty, p)) ->
  exists ch s', choice_legal md ch /\
                protect_with c P s (ty, p) ch hver = ROk (s', (hty, hver, body)) /\
                sync R s' r' /\ st_seq r' = st_seq r + 1 /\ zlen p <= c_recv_limit c.
Proof.
  intros Hmd Hmode Honto Hdb Hbb Hb16 Hsync Hacc. destruct md; [| | | |contradiction].
  - destruct (unprotect_inv_stream R c P _ _ _ _ _ _ _ Hmode Hacc) as [-> [A L]].
    destruct (stream_accept P R c s r r' hty body p Hmode Honto Hsync A) as [s' [B [C [D _]]]].
    exists {| ch_pad := []; ch_ivb := []; ch_nonce := []; ch_zeros := 0 |}, s'.
    split; [exact I|]. split; [|auto].
    destruct Hmode as [_ [Hleg [Hetm [Hblk _]]]]. pose proof (legacy_not13 c P Hleg) as Hn13.
    destruct Hleg as [Hv [_ [Ha _]]].
    unfold protect_with. rewrite Hn13. cbn [andb]. rewrite (ver_macable_not13 _ Hv), Ha, Hetm. cbn [andb].
    rewrite andb_false_r. rewrite mte_body_with_stream by exact Hblk. rewrite B. reflexivity.
  - destruct (unprotect_inv_cbc R c P _ _ _ _ _ _ _ Hmode Hacc) as [-> [A L]].
    destruct (cbc_accept P R c s r r' hty body p Hmode Honto Hdb Hbb Hb16 Hsync A) as [ch [s' [B [C [D E]]]]].
    exists ch, s'. split; [exact B|]. split; [|auto].
    destruct Hmode as [_ [Hleg [Hetm _]]]. pose proof (legacy_not13 c P Hleg) as Hn13.
    destruct Hleg as [Hv [_ [Ha _]]].
    unfold protect_with. rewrite Hn13. cbn [andb]. rewrite (ver_macable_not13 _ Hv), Ha, Hetm. cbn [andb].
    rewrite andb_false_r. rewrite C. reflexivity.
  - destruct (unprotect_inv_etm R c P _ _ _ _ _ _ _ Hmode Hacc) as [-> [A L]].
    destruct (etm_accept P R c s r r' hty body p Hmode Honto Hdb Hbb Hb16 Hsync A) as [ch [s' [B [C [D E]]]]].
    exists ch, s'. split; [exact B|]. split; [|auto].
    destruct Hmode as [_ [Hleg [Hetm _]]]. pose proof (legacy_not13 c P Hleg) as Hn13.
    destruct Hleg as [Hv [_ [Ha _]]].
    unfold protect_with. rewrite Hn13. cbn [andb]. rewrite (ver_macable_not13 _ Hv), Ha, Hetm. cbn [andb].
    rewrite andb_false_r. rewrite C. reflexivity.
  - destruct (unprotect_inv_aead12 R c P _ _ _ _ _ _ _ Hmode Hacc) as [-> [A L]].
    destruct (aead12_accept P R c s r r' hty hver body p Hmode Honto Hsync A) as [ch [s' [B [C [D E]]]]].
    exists ch, s'. split; [exact B|]. split; [|auto].
    destruct Hmode as [_ [Hv [H13 [Henc [Haead _]]]]].
    assert (Hn13 : is_tls13_plus c = false) by (unfold is_tls13_plus; rewrite Hv; reflexivity).
    unfold protect_with. rewrite Hn13. cbn [andb]. rewrite Hv. change (ver_lt (3, 3) (3, 3)) with false.
    cbn [andb]. rewrite Henc, Haead. cbn [andb]. rewrite C. reflexivity.
Qed.

(* TLS 1.3 protect adds the inner type and presents application_data / 3.3 *)
Lemma protect_tls13_header (s s' : St CS) ty data w : mode_ok P R MTls13 c -> ty <> 20 ->
  protect c P s (ty, data) = ROk (s', w) -> fst (fst w) = 23.
Proof.
  intros [_ [Hv [H13 [Henc _]]]] H20 H.
  assert (Ht13 : is_tls13_plus c = true) by (unfold is_tls13_plus; rewrite Hv, H13; reflexivity).
  unfold protect in H. rewrite Ht13, Henc in H.
  destruct (ty =? 20) eqn:E; [apply Z.eqb_eq in E; contradiction|]. cbn [andb negb] in H.
  apply rbind_ok_inv in H. destruct H as [[ty1 d1] [H1 H]].
  apply rbind_ok_inv in H1. destruct H1 as [d [_ H1]]. injection H1 as <- <-.
  apply rbind_ok_inv in H. destruct H as [[s1 body] [_ H]].
  destruct (negb (is_byte 23) || (65536 <=? zlen body)); [discriminate|]. injection H as _ <-. reflexivity.
Qed.

(* ---- a record protected for another position in the stream is rejected --------------------------------- *)
Definition ideal_one_key (md : mode) : Prop :=
  (md = MEtm -> mac_injective_ideal P) /\ (md <> MEtm -> aead_tight P /\ seal_injective_ideal P).

Theorem wrong_position_rejected (md : mode) (s s' rj r : St CS) ty data w :
  integrity_mode md -> mode_ok P R md c -> ideal_one_key md ->
  sync R s rj -> rec_ok c ty data -> (md = MTls13 -> ty <> 20) -> st_seq s < SEQ_MAX ->
  protect c P s (ty, data) = ROk (s', w) ->
  st_seq r <> st_seq s ->
  forall r' x, unprotect c P r w <> ROk (r', x).
Proof.
  intros Him Hmode [Hi1 Hi2] Hsync Hrec H20 Hs Hp Hne r' [ty2 p2] Hacc.
  destruct (protect_unprotect_all P R c md s rj ty data Hmode Hsync Hrec H20 Hs) as [s2 [w2 [rj' [Hp2 [Hu _]]]]].
  rewrite Hp in Hp2. injection Hp2 as <- <-.
  destruct w as [[hty hver] body].
  assert (H23 : md = MTls13 -> hty = 23).
  { intros ->. apply (protect_tls13_header s s' ty data (hty, hver, body) Hmode (H20 eq_refl) Hp). }
  destruct (two_accepts_same_position_ideal R c P md rj rj' r r' hty hver body ty data ty2 p2 Him Hmode H23 Hi1 Hi2 Hu Hacc)
    as [Hseq _].
  destruct Hsync as [_ [Hss _]]. lia.
Qed.

(* replay: the record was protected at an earlier position than the receiver expects *)
Lemma replay_rejected_l (md : mode) (s s' rj r : St CS) ty data w :
  integrity_mode md -> mode_ok P R md c -> ideal_one_key md ->
  sync R s rj -> rec_ok c ty data -> (md = MTls13 -> ty <> 20) -> st_seq s < SEQ_MAX ->
  protect c P s (ty, data) = ROk (s', w) ->
  st_seq s < st_seq r ->
  forall r' x, unprotect c P r w <> ROk (r', x).
Proof. intros. eapply wrong_position_rejected; eauto. lia. Qed.

(* reorder / drop-then-continue: the record was protected at a later position (the records in
   between were delayed or dropped) *)
Lemma later_record_rejected_l (md : mode) (s s' rj r : St CS) ty data w (dropped : Z) :
  integrity_mode md -> mode_ok P R md c -> ideal_one_key md ->
  sync R s rj -> rec_ok c ty data -> (md = MTls13 -> ty <> 20) -> st_seq s < SEQ_MAX ->
  protect c P s (ty, data) = ROk (s', w) ->
  1 <= dropped -> st_seq s = st_seq r + dropped ->
  forall r' x, unprotect c P r w <> ROk (r', x).
Proof. intros. eapply wrong_position_rejected; eauto. lia. Qed.

(* stream / NULL iff: no sender choice at all *)
Lemma stream_accept_iff (s r : St CS) ty body data :
  mode_ok P R MStream c -> (c_has_enc c = true -> cipher_onto P R 1) -> sync R s r ->
  is_byte ty = true -> zlen data <= 16384 -> st_seq s < 18446744073709551616 ->
  ((exists r', decrypt_stream_then_mac c P r ty body = ROk (r', data)) <->
   (exists s', mac_then_encrypt c P s ty data = ROk (s', body))).
Proof.
  intros Hmode Honto Hsync Hb Hl Hs. split.
  - intros [r' H]. destruct (stream_accept P R c s r r' ty body data Hmode Honto Hsync H) as [s' [A _]]. eauto.
  - intros [s' H]. destruct (stream_rt P R c s r ty data Hmode Hsync Hb Hl Hs) as [s2 [b2 [r' [A [_ [B _]]]]]].
    rewrite H in A. injection A as <- <-. eauto.
Qed.
End Image.

(* ---- two keys (other direction / other epoch), possibly different per-direction parameters ------------- *)
Section TwoKeys.
Context {CS : Type}.
Variable R : CS -> CS -> Prop.

Theorem foreign_key_rejected (md : mode) (c1 c2 : Cfg) (P1 P2 : Prim CS) (s s' rj r : St CS) ty data w :
  integrity_mode md -> mode_ok P1 R md c1 -> mode_ok P2 R md c2 -> explicit_nonce c1 = explicit_nonce c2 ->
  (md = MEtm -> mac_disjoint_ideal P1 P2 /\ ds P1 = ds P2) ->
  (md <> MEtm -> aead_tight P1 /\ aead_tight P2 /\ seal_disjoint_ideal P1 P2) ->
  sync R s rj -> rec_ok c1 ty data -> (md = MTls13 -> ty <> 20) -> st_seq s < SEQ_MAX ->
  protect c1 P1 s (ty, data) = ROk (s', w) ->            (* protected under the other key *)
  forall r' x, unprotect c2 P2 r w <> ROk (r', x).       (* any state of this receiver *)
Proof.
  intros Him Hm1 Hm2 Hex Hmac Haead Hsync Hrec H20 Hs Hp r' [ty2 p2] Hacc.
  destruct (protect_unprotect_all P1 R c1 md s rj ty data Hm1 Hsync Hrec H20 Hs) as [s2 [w2 [rj' [Hp2 [Hu _]]]]].
  rewrite Hp in Hp2. injection Hp2 as <- <-.
  destruct w as [[hty hver] body].
  destruct Him as [->|[->| ->]].
  - destruct (unprotect_inv_etm R c1 P1 _ _ _ _ _ _ _ Hm1 Hu) as [_ [A1 _]].
    destruct (unprotect_inv_etm R c2 P2 _ _ _ _ _ _ _ Hm2 Hacc) as [_ [A2 _]].
    destruct Hm1 as [_ [[_ [_ [_ [Hmc1 _]]]] _]]. destruct Hm2 as [_ [[_ [_ [_ [Hmc2 _]]]] _]].
    destruct (Hmac eq_refl) as [Hd He].
    destruct (etm_accept_tag c1 P1 _ _ _ _ _ Hmc1 A1) as [_ [_ [_ T1]]].
    destruct (etm_accept_tag c2 P2 _ _ _ _ _ Hmc2 A2) as [_ [_ [_ T2]]].
    rewrite He in T1. rewrite T1 in T2. exact (Hd _ _ T2).
  - destruct (unprotect_inv_aead12 R c1 P1 _ _ _ _ _ _ _ Hm1 Hu) as [_ [A1 _]].
    destruct (unprotect_inv_aead12 R c2 P2 _ _ _ _ _ _ _ Hm2 Hacc) as [_ [A2 _]].
    destruct (Haead ltac:(discriminate)) as [T1 [T2 Hd]].
    destruct (aead_accept_sealed c1 P1 _ _ _ _ _ _ T1 A1) as [_ [n1 [a1 [S1 _]]]].
    destruct (aead_accept_sealed c2 P2 _ _ _ _ _ _ T2 A2) as [_ [n2 [a2 [S2 _]]]].
    rewrite Hex in S1. rewrite S1 in S2. exact (Hd _ _ _ _ _ _ S2).
  - assert (H23 : hty = 23) by (apply (protect_tls13_header P1 R c1 s s' ty data (hty, hver, body) Hm1 (H20 eq_refl) Hp)).
    subst hty.
    destruct (unprotect_inv_tls13 R c1 P1 _ _ _ _ _ _ Hm1 Hu) as [i1 [A1 _]].
    destruct (unprotect_inv_tls13 R c2 P2 _ _ _ _ _ _ Hm2 Hacc) as [i2 [A2 _]].
    destruct (Haead ltac:(discriminate)) as [T1 [T2 Hd]].
    destruct (aead_accept_sealed c1 P1 _ _ _ _ _ _ T1 A1) as [_ [n1 [a1 [S1 _]]]].
    destruct (aead_accept_sealed c2 P2 _ _ _ _ _ _ T2 A2) as [_ [n2 [a2 [S2 _]]]].
    rewrite Hex in S1. rewrite S1 in S2. exact (Hd _ _ _ _ _ _ S2).
Qed.
End TwoKeys.
