(* C02: the authenticated input binds sequence number, content type and payload; under the
   ideal (collision-free) reading of the MAC / AEAD a record protected for another sequence
   number, or under another key, is rejected. *)
From Coq Require Import ZArith List Bool Lia.
From TV Require Import Base.Prelude Spec.CbcCheck Model.C01_RecordPipe Spec.C01_Contracts
  Model.C02_RecordAccept Spec.C02_Ideal Proofs.C01_Lists Proofs.C01_Cbc Proofs.C01_RoundTrip
  Proofs.C01_Delivery Proofs.C02_Cbc Proofs.C02_Accept.
Import ListNotations.
Open Scope Z_scope.
Local Opaque be_bytes.

Lemma two_bytes_inj a b : 0 <= a < 65536 -> 0 <= b < 65536 -> a / 256 = b / 256 -> a mod 256 = b mod 256 -> a = b.
Proof. intros Ha Hb H1 H2. rewrite (Z.div_mod a 256), (Z.div_mod b 256) by lia. lia. Qed.

(* the MAC input determines sequence number, type and data *)
Lemma mac_input_inj (c : Cfg) n1 ty1 d1 n2 ty2 d2 :
  0 <= n1 < 18446744073709551616 -> 0 <= n2 < 18446744073709551616 ->
  zlen d1 < 65536 -> zlen d2 < 65536 ->
  mac_input c n1 ty1 d1 = mac_input c n2 ty2 d2 -> n1 = n2 /\ ty1 = ty2 /\ d1 = d2.
Proof.
  intros Hn1 Hn2 Hl1 Hl2 H. unfold mac_input, mac_header in H. rewrite <- !app_assoc in H.
  apply app_inv_len in H; [|rewrite !be_bytes_length; reflexivity]. destruct H as [Hs H].
  apply be_bytes_inj in Hs; [|exact Hn1|exact Hn2].
  cbn [app] in H. injection H as Hty H.
  apply app_inv_head in H. cbn [app] in H. injection H as Ha Hb Hd.
  repeat split; auto.
Qed.

Section Integrity.
Context {CS : Type}.
Variable R : CS -> CS -> Prop.
Variable c : Cfg.

(* ---- the tag found in an accepted encrypt-then-MAC record ------------------------------------------ *)
Lemma etm_accept_tag (P : Prim CS) (r r' : St CS) ty body data :
  c_has_mac c = true -> mac_then_decrypt c P r ty body = ROk (r', data) ->
  let m := zlen body - ds P in
  0 <= st_seq r < 18446744073709551616 /\ ds P <= zlen body /\ zlen (ztake m body) < 65536 /\
  zdrop m body = mac_fn (pr_mac P) (mac_acc (pr_mac P) ++ mac_input c (st_seq r) ty (ztake m body)).
Proof.
  intros Hm Hacc. unfold mac_then_decrypt in Hacc. rewrite Hm in Hacc.
  destruct (zlen body <? ds P) eqn:E0; [discriminate|].
  apply rbind_ok_inv in Hacc. destruct Hacc as [[s1 ct] [Hmac _]].
  apply rbind_ok_inv in Hmac. destruct Hmac as [[seqb s2] [Hns Hmac]].
  apply next_seq_inv in Hns. destruct Hns as [Hrange [-> ->]].
  apply rbind_ok_inv in Hmac. destruct Hmac as [t [Hcm Hmac]].
  apply (calc_mac_inv c) in Hcm. destruct Hcm as [_ [_ [Hl Ht]]].
  destruct (list_eqb t (zdrop (zlen body - ds P) body)) eqn:Eq; [|discriminate].
  apply list_eqb_spec in Eq. cbv zeta. split; [exact Hrange|]. split; [lia|]. split; [exact Hl|].
  rewrite <- Eq. exact Ht.
Qed.

(* one key: a body accepted at two (sequence number, type) positions -> they are the same *)
Lemma etm_binds_ideal (P : Prim CS) (r1 r1' r2 r2' : St CS) ty1 ty2 body p1 p2 :
  c_has_mac c = true -> mac_injective_ideal P ->
  mac_then_decrypt c P r1 ty1 body = ROk (r1', p1) ->
  mac_then_decrypt c P r2 ty2 body = ROk (r2', p2) ->
  st_seq r1 = st_seq r2 /\ ty1 = ty2.
Proof.
  intros Hm Hinj H1 H2.
  destruct (etm_accept_tag P r1 r1' ty1 body p1 Hm H1) as [Hr1 [_ [Hl1 Ht1]]].
  destruct (etm_accept_tag P r2 r2' ty2 body p2 Hm H2) as [Hr2 [_ [_ Ht2]]].
  rewrite Ht1 in Ht2. apply Hinj in Ht2. apply app_inv_head in Ht2.
  apply mac_input_inj in Ht2; try assumption. destruct Ht2 as [A [B _]]. auto.
Qed.

(* two keys: nothing is accepted under both *)
Lemma etm_cross_key_ideal (P1 P2 : Prim CS) (r1 r1' r2 r2' : St CS) ty1 ty2 body p1 p2 :
  c_has_mac c = true -> mac_disjoint_ideal P1 P2 -> ds P1 = ds P2 ->
  mac_then_decrypt c P1 r1 ty1 body = ROk (r1', p1) ->
  mac_then_decrypt c P2 r2 ty2 body = ROk (r2', p2) -> False.
Proof.
  intros Hm Hdis Hds H1 H2.
  destruct (etm_accept_tag P1 r1 r1' ty1 body p1 Hm H1) as [_ [_ [_ Ht1]]].
  destruct (etm_accept_tag P2 r2 r2' ty2 body p2 Hm H2) as [_ [_ [_ Ht2]]].
  rewrite Hds in Ht1. rewrite Ht1 in Ht2. exact (Hdis _ _ Ht2).
Qed.

(* ---- AEAD (TLS 1.2 and 1.3): what opened is the sealing of ... ------------------------------------- *)
Lemma aead_accept_sealed (P : Prim CS) (r r' : St CS) hty hver body data :
  aead_tight P -> decrypt_and_unseal c P r (hty, hver, body) = ROk (r', data) ->
  0 <= st_seq r < 18446744073709551616 /\
  exists nonce aad, zdrop (if explicit_nonce c then 8 else 0) body = pr_seal P nonce data aad /\
    (if is_tls13_plus c then get_nonce c (be_bytes 8 (st_seq r)) = ROk nonce /\ hty = 23
     else exists n, aad = aad12 c (be_bytes 8 (st_seq r)) hty n).
Proof.
  intros Htight Hacc. unfold decrypt_and_unseal in Hacc.
  apply rbind_ok_inv in Hacc. destruct Hacc as [[seqb s2] [Hns Hacc]].
  apply next_seq_inv in Hns. destruct Hns as [Hrange [-> ->]].
  apply rbind_ok_inv in Hacc. destruct Hacc as [[nonce buf] [Hnb Hacc]].
  destruct (c_tag c >? zlen buf); [discriminate|].
  apply rbind_ok_inv in Hacc. destruct Hacc as [aad [Haad Hacc]].
  destruct (pr_open P nonce buf aad) as [p|] eqn:Eo; [|discriminate]. injection Hacc as <- <-.
  apply Htight in Eo. split; [exact Hrange|]. exists nonce, aad.
  assert (Hbuf : zdrop (if explicit_nonce c then 8 else 0) body = buf).
  { destruct (explicit_nonce c).
    - destruct (8 >? zlen body); [discriminate|]. injection Hnb as _ <-. reflexivity.
    - apply rbind_ok_inv in Hnb. destruct Hnb as [n0 [_ Hnb]]. injection Hnb as _ <-. reflexivity. }
  rewrite Hbuf. split; [exact Eo|].
  destruct (is_tls13_plus c) eqn:E13.
  - destruct (hty =? 23) eqn:E23; [|discriminate]. apply Z.eqb_eq in E23. split; [|exact E23].
    assert (Hex : explicit_nonce c = false) by (unfold explicit_nonce; rewrite E13; apply andb_false_r).
    rewrite Hex in Hnb. apply rbind_ok_inv in Hnb. destruct Hnb as [n0 [Hgn Hnb]]. injection Hnb as <- _. exact Hgn.
  - destruct (is_byte hty && is_byte ((zlen buf - c_tag c) / 256)); [|discriminate].
    cbn [negb] in Haad. injection Haad as <-. eauto.
Qed.

Lemma aad12_inj seq1 ty1 n1 seq2 ty2 n2 : zlen seq1 = 8 -> zlen seq2 = 8 ->
  aad12 c seq1 ty1 n1 = aad12 c seq2 ty2 n2 -> seq1 = seq2 /\ ty1 = ty2.
Proof.
  intros H1 H2 H. unfold aad12 in H. apply app_inv_len in H; [|unfold zlen in *; lia].
  destruct H as [A B]. injection B as B _. auto.
Qed.

Lemma xor_lists_inj (a b k : list Z) : length a = length k -> length b = length k ->
  map (fun p => Z.lxor (fst p) (snd p)) (combine a k) = map (fun p => Z.lxor (fst p) (snd p)) (combine b k) -> a = b.
Proof.
  revert a b. induction k as [|x k IH]; intros [|y a] [|z b] Ha Hb H; cbn in *; try discriminate; [reflexivity|].
  injection H as H1 H2. f_equal.
  - apply (f_equal (fun v => Z.lxor v x)) in H1. rewrite !Z.lxor_assoc, Z.lxor_nilpotent, !Z.lxor_0_r in H1. exact H1.
  - apply IH; auto.
Qed.

Lemma xor_nonce_inj fixed s1 s2 : zlen s1 = 8 -> zlen s2 = 8 -> 8 <= zlen fixed ->
  xor_nonce fixed s1 = xor_nonce fixed s2 -> s1 = s2.
Proof.
  intros H1 H2 Hf H. unfold xor_nonce in H. rewrite H1, H2 in H.
  apply xor_lists_inj in H.
  - apply app_inv_head in H. exact H.
  - rewrite app_length. unfold zeros. rewrite repeat_length. unfold zlen in *. lia.
  - rewrite app_length. unfold zeros. rewrite repeat_length. unfold zlen in *. lia.
Qed.

Lemma aead_binds_ideal (P : Prim CS) (r1 r1' r2 r2' : St CS) hty1 hver1 hty2 hver2 body p1 p2 :
  aead_tight P -> seal_injective_ideal P ->
  (is_tls13_plus c = true -> uses_xor_nonce c = true /\ 8 <= zlen (c_fixed_nonce c)) ->
  decrypt_and_unseal c P r1 (hty1, hver1, body) = ROk (r1', p1) ->
  decrypt_and_unseal c P r2 (hty2, hver2, body) = ROk (r2', p2) ->
  st_seq r1 = st_seq r2 /\ hty1 = hty2 /\ p1 = p2.
Proof.
  intros Htight Hinj H13 H1 H2.
  destruct (aead_accept_sealed P r1 r1' hty1 hver1 body p1 Htight H1) as [Hr1 [n1 [a1 [Hs1 Hx1]]]].
  destruct (aead_accept_sealed P r2 r2' hty2 hver2 body p2 Htight H2) as [Hr2 [n2 [a2 [Hs2 Hx2]]]].
  rewrite Hs1 in Hs2. apply Hinj in Hs2. destruct Hs2 as [Hn [Hp Ha]].
  destruct (is_tls13_plus c) eqn:E13.
  - destruct (H13 eq_refl) as [Hux Hf8]. destruct Hx1 as [Hg1 ->]. destruct Hx2 as [Hg2 ->].
    split; [|split; [reflexivity|exact Hp]].
    unfold get_nonce in Hg1, Hg2. rewrite Hux in Hg1, Hg2. rewrite zlen_be_bytes in Hg1, Hg2.
    change (Z.of_nat 8) with 8 in *.
    destruct (zlen (c_fixed_nonce c) <? 8) eqn:E8; [lia|].
    injection Hg1 as <-. injection Hg2 as <-.
    apply xor_nonce_inj in Hn; try (rewrite zlen_be_bytes; reflexivity); [|exact Hf8].
    apply be_bytes_inj in Hn; assumption.
  - destruct Hx1 as [m1 ->]. destruct Hx2 as [m2 ->].
    apply aad12_inj in Ha; try (rewrite zlen_be_bytes; reflexivity). destruct Ha as [A B].
    apply be_bytes_inj in A; try assumption. auto.
Qed.

Lemma aead_cross_key_ideal (P1 P2 : Prim CS) (r1 r1' r2 r2' : St CS) hty1 hver1 hty2 hver2 body p1 p2 :
  aead_tight P1 -> aead_tight P2 -> seal_disjoint_ideal P1 P2 ->
  decrypt_and_unseal c P1 r1 (hty1, hver1, body) = ROk (r1', p1) ->
  decrypt_and_unseal c P2 r2 (hty2, hver2, body) = ROk (r2', p2) -> False.
Proof.
  intros Ht1 Ht2 Hdis H1 H2.
  destruct (aead_accept_sealed P1 r1 r1' hty1 hver1 body p1 Ht1 H1) as [_ [n1 [a1 [Hs1 _]]]].
  destruct (aead_accept_sealed P2 r2 r2' hty2 hver2 body p2 Ht2 H2) as [_ [n2 [a2 [Hs2 _]]]].
  rewrite Hs1 in Hs2. exact (Hdis _ _ _ _ _ _ Hs2).
Qed.

(* ---- MAC-then-encrypt with the same decryption: the MAC binds sequence number and type ------------- *)
Lemma stream_accept_tag (P : Prim CS) (r r' : St CS) ty body data :
  c_has_mac c = true -> decrypt_stream_then_mac c P r ty body = ROk (r', data) ->
  let d1 := if c_has_enc c then snd (pr_dec P (st_cs r) body) else body in
  let m := zlen d1 - ds P in
  0 <= st_seq r < 18446744073709551616 /\ data = ztake m d1 /\ zlen data < 65536 /\
  zdrop m d1 = mac_fn (pr_mac P) (mac_acc (pr_mac P) ++ mac_input c (st_seq r) ty data).
Proof.
  intros Hm Hacc. unfold decrypt_stream_then_mac in Hacc. rewrite Hm in Hacc. cbv zeta.
  apply rbind_ok_inv in Hacc. destruct Hacc as [[s1 d1] [Hd Hacc]].
  assert (Hd1 : d1 = (if c_has_enc c then snd (pr_dec P (st_cs r) body) else body) /\ st_seq s1 = st_seq r).
  { destruct (c_has_enc c).
    - destruct (negb (ver_macable (c_ver c))); [discriminate|]. injection Hd as <- <-. auto.
    - injection Hd as <- <-. auto. }
  destruct Hd1 as [<- Hsq].
  destruct (ds P >? zlen d1); [discriminate|].
  apply rbind_ok_inv in Hacc. destruct Hacc as [[seqb s2] [Hns Hacc]].
  apply next_seq_inv in Hns. destruct Hns as [Hrange [-> ->]].
  apply rbind_ok_inv in Hacc. destruct Hacc as [t [Hcm Hacc]].
  apply (calc_mac_inv c) in Hcm. destruct Hcm as [_ [_ [Hl Ht]]].
  destruct (list_eqb t (zdrop (zlen d1 - ds P) d1)) eqn:Eq; [|discriminate].
  apply list_eqb_spec in Eq. injection Hacc as _ <-. rewrite Hsq in *.
  split; [exact Hrange|]. split; [reflexivity|]. split; [exact Hl|]. rewrite <- Eq. exact Ht.
Qed.

Lemma stream_binds_ideal (P : Prim CS) (r1 r1' r2 r2' : St CS) ty1 ty2 body p1 p2 :
  c_has_mac c = true -> mac_injective_ideal P -> st_cs r1 = st_cs r2 ->
  decrypt_stream_then_mac c P r1 ty1 body = ROk (r1', p1) ->
  decrypt_stream_then_mac c P r2 ty2 body = ROk (r2', p2) ->
  st_seq r1 = st_seq r2 /\ ty1 = ty2 /\ p1 = p2.
Proof.
  intros Hm Hinj Hcs H1 H2.
  destruct (stream_accept_tag P r1 r1' ty1 body p1 Hm H1) as [Hr1 [Hp1 [Hl1 Ht1]]].
  destruct (stream_accept_tag P r2 r2' ty2 body p2 Hm H2) as [Hr2 [Hp2 [Hl2 Ht2]]].
  rewrite Hcs in *.
  assert (Hpp : p1 = p2) by (rewrite Hp1, Hp2; reflexivity). subst p2.
  rewrite Ht1 in Ht2. apply Hinj in Ht2. apply app_inv_head in Ht2.
  apply mac_input_inj in Ht2; assumption.
Qed.
End Integrity.
