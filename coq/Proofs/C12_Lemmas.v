(* Generic fold / byte / slice lemmas used by the C12 proof. *)
From Coq Require Import ZArith List Bool Lia.
From TV Require Import Base.Prelude Gen.ConstantTime Spec.CbcCheck Proofs.CtOps.
Import ListNotations.
Open Scope Z_scope.

Lemma fold_lor_zero (g : Z -> Z) l r0 :
  fold_left (fun r i => Z.lor r (g i)) l r0 = 0 <-> r0 = 0 /\ forall i, In i l -> g i = 0.
Proof.
  revert r0. induction l as [|x xs IH]; intros r0; cbn [fold_left].
  - split; [intros ->; split; [reflexivity|intros i []]|intros [H _]; exact H].
  - rewrite IH, Z.lor_eq_0_iff. split.
    + intros [[H1 H2] H3]. split; [exact H1|]. intros i [<-|Hi]; [exact H2|apply H3; exact Hi].
    + intros [H1 H2]. split; [split; [exact H1|apply H2; left; reflexivity]|intros i Hi; apply H2; right; exact Hi].
Qed.

Lemma fold_lor_shift (h : Z -> Z) l r :
  fold_left (fun r j => Z.lor r (h j)) l r = Z.lor r (fold_left (fun r j => Z.lor r (h j)) l 0).
Proof.
  revert r. induction l as [|x xs IH]; intros r; cbn [fold_left].
  - rewrite Z.lor_0_r. reflexivity.
  - rewrite IH. rewrite (IH (Z.lor 0 (h x))). rewrite Z.lor_0_l, Z.lor_assoc. reflexivity.
Qed.

Lemma fold_left_ext_in {A B} (f g : A -> B -> A) l :
  (forall a x, In x l -> f a x = g a x) -> forall a, fold_left f l a = fold_left g l a.
Proof.
  induction l as [|x xs IH]; intros H a; cbn [fold_left]; [reflexivity|].
  rewrite (H a x (or_introl eq_refl)). apply IH. intros a' y Hy. apply H. right. exact Hy.
Qed.

Definition byte (x : Z) : Prop := 0 <= x < 256.

Lemma is_byte_iff x : is_byte x = true <-> byte x.
Proof. unfold is_byte, byte. rewrite andb_true_iff, Z.leb_le, Z.ltb_lt. reflexivity. Qed.

Lemma byte_xor_mask_table :
  forallb (fun a => forallb (fun b => Bool.eqb (Z.land (Z.lxor a b) 255 =? 0) (a =? b)) (zrange 0 256)) (zrange 0 256) = true.
Proof. vm_compute. reflexivity. Qed.

Lemma byte_xor_mask a b : byte a -> byte b -> (Z.land (Z.lxor a b) 255 = 0 <-> a = b).
Proof.
  intros Ha Hb. pose proof byte_xor_mask_table as T.
  rewrite forallb_forall in T. specialize (T a (proj2 (in_zrange 0 256 a) Ha)).
  rewrite forallb_forall in T. specialize (T b (proj2 (in_zrange 0 256 b) Hb)).
  apply eqb_prop in T. rewrite <- Z.eqb_eq, T, Z.eqb_eq. reflexivity.
Qed.

Lemma all_bytes_nth data i : all_bytes data = true -> 0 <= i < zlen data -> byte (nthZ data i).
Proof.
  intros H Hi. unfold all_bytes in H. rewrite forallb_forall in H.
  apply is_byte_iff. apply H. unfold nthZ. apply nth_In. unfold zlen in Hi. lia.
Qed.
Lemma clamp_in_range n b : 0 <= b <= n -> clamp_bound n b = b.
Proof.
  intros H. unfold clamp_bound.
  destruct (b <? 0) eqn:E1; [lia|]. destruct (b <? 0) eqn:E2; [lia|].
  destruct (n <? b) eqn:E3; [lia|]. reflexivity.
Qed.

Lemma py_slice_prefix {A} (l : list A) a : 0 <= a <= zlen l ->
  py_slice l None (Some a) = firstn (Z.to_nat a) l.
Proof.
  intros H. unfold py_slice. rewrite clamp_in_range by exact H.
  destruct (a <=? 0) eqn:E.
  - assert (a = 0) by lia. subst a. reflexivity.
  - rewrite Z.sub_0_r. cbn [Z.to_nat skipn]. reflexivity.
Qed.

Lemma py_slice_mid {A} (l : list A) a b : 0 <= a <= b -> b <= zlen l ->
  py_slice l (Some a) (Some b) = firstn (Z.to_nat (b - a)) (skipn (Z.to_nat a) l).
Proof.
  intros H1 H2. unfold py_slice. rewrite !clamp_in_range by lia.
  destruct (b <=? a) eqn:E; [|reflexivity].
  assert (b = a) by lia. subst b. rewrite Z.sub_diag. reflexivity.
Qed.

Lemma firstn_split {A} (l : list A) a b : (a <= b)%nat ->
  firstn a l ++ firstn (b - a) (skipn a l) = firstn b l.
Proof.
  revert a b. induction l as [|x xs IH]; intros a b H.
  - rewrite skipn_nil, !firstn_nil. reflexivity.
  - destruct a as [|a].
    + cbn [firstn skipn app]. rewrite Nat.sub_0_r. reflexivity.
    + destruct b as [|b]; [lia|]. cbn [firstn skipn app Nat.sub]. f_equal. apply IH. lia.
Qed.

Lemma slices_join (l : list Z) a b : 0 <= a <= b -> b <= zlen l ->
  py_slice l None (Some a) ++ py_slice l (Some a) (Some b) = firstn (Z.to_nat b) l.
Proof.
  intros H1 H2. rewrite py_slice_prefix, py_slice_mid by lia.
  replace (Z.to_nat (b - a)) with (Z.to_nat b - Z.to_nat a)%nat by lia.
  apply firstn_split. lia.
Qed.

Lemma nth_firstn_skipn (l : list Z) (m k j : nat) : (j < k)%nat ->
  nth j (firstn k (skipn m l)) 0 = nth (m + j) l 0.
Proof.
  intros H. revert l. induction m as [|m IH]; intros l.
  - cbn [skipn Nat.add]. revert j k H. induction l as [|x xs IHl]; intros j k H.
    + rewrite firstn_nil. destruct j; reflexivity.
    + destruct k as [|k]; [lia|]. destruct j as [|j]; [reflexivity|]. cbn [firstn nth]. apply IHl. lia.
  - destruct l as [|x xs].
    + cbn [skipn]. rewrite firstn_nil. destruct j; destruct m; reflexivity.
    + cbn [skipn Nat.add nth]. apply IH.
Qed.

(* equality of a window of data with a list of the right length, pointwise *)
Lemma window_eq_pointwise (data D : list Z) m ds :
  0 <= m -> 0 <= ds -> m + ds <= zlen data -> zlen D = ds ->
  ((forall j, 0 <= j < ds -> nthZ data (m + j) = nthZ D j)
   <-> firstn (Z.to_nat ds) (skipn (Z.to_nat m) data) = D).
Proof.
  intros Hm Hds Hfit HD. unfold zlen in *.
  assert (Hlen : length (firstn (Z.to_nat ds) (skipn (Z.to_nat m) data)) = Z.to_nat ds).
  { rewrite firstn_length, skipn_length. lia. }
  split.
  - intros H. apply nth_ext with (d := 0) (d' := 0); [lia|].
    intros j Hj. rewrite Hlen in Hj. rewrite nth_firstn_skipn by exact Hj.
    specialize (H (Z.of_nat j) ltac:(lia)). unfold nthZ in H.
    replace (Z.to_nat (m + Z.of_nat j)) with (Z.to_nat m + j)%nat in H by lia.
    rewrite Nat2Z.id in H. exact H.
  - intros H j Hj. unfold nthZ. rewrite <- H.
    rewrite nth_firstn_skipn by lia. f_equal. lia.
Qed.

Lemma lsb_if (c : bool) : ct_lsb_prop_u8 (if c then 1 else 0) = if c then 255 else 0.
Proof. destruct c; reflexivity. Qed.

Lemma shiftr8_div m : Z.shiftr m 8 = m / 256.
Proof. rewrite Z.shiftr_div_pow2 by lia. reflexivity. Qed.

Lemma land255_mod m : Z.land m 255 = m mod 256.
Proof. change 255 with (Z.ones 8). rewrite Z.land_ones by lia. reflexivity. Qed.

Lemma mk_byte_ok x : byte x -> mk_byte x = Ok [x].
Proof. intros H. unfold mk_byte. apply is_byte_iff in H. rewrite H. reflexivity. Qed.
