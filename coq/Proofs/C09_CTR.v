(* AES-CTR: one call of the generated Python_AES_CTR.encrypt from a 16-byte counter block = SP 800-38A CTR. *)
From Coq Require Import ZArith List Bool Lia String.
From TV Require Import Base.Prelude Base.C09_Lib Base.C09_Oracle Gen.C09_AesModes
  Spec.C09_Poly1305 Spec.C09_Modes Proofs.C09_Lists Proofs.C09_Poly1305 Proofs.C09_KDF Proofs.C09_GCM.
Import ListNotations.
Open Scope list_scope.
Open Scope Z_scope.

Section CTRspec.
  Variable O : BlockOracle.
  Variable key : list Z.
  Let E := bo_enc O key.
  Hypothesis Elen : forall b, List.length (E b) = 16%nat.
  Hypothesis Ebytes : forall k b, all_bytes (bo_enc O k b) = true.

  Lemma ctr_blocks_snoc t i : ctr_blocks E t (S i) = ctr_blocks E t i ++ E (Nat.iter i ctr_inc t).
  Proof.
    revert t. induction i as [|i IH]; intros t.
    - cbn [ctr_blocks Nat.iter]. rewrite app_nil_r. reflexivity.
    - change (ctr_blocks E t (S (S i))) with (E t ++ ctr_blocks E (ctr_inc t) (S i)).
      rewrite IH. change (ctr_blocks E t (S i)) with (E t ++ ctr_blocks E (ctr_inc t) i).
      rewrite <- app_assoc. do 3 f_equal. apply iter_shift.
  Qed.

  Lemma ctr_blocks_len t i : zlen (ctr_blocks E t i) = 16 * Z.of_nat i.
  Proof.
    revert t. induction i as [|i IH]; intros t; [reflexivity|].
    cbn [ctr_blocks]. rewrite zlen_app, IH. unfold zlen. rewrite Elen. lia.
  Qed.

  Lemma ctr_inc_len t : List.length (ctr_inc t) = List.length t.
  Proof. unfold ctr_inc, be_bytes. rewrite rev_length, le_bytes_length. reflexivity. Qed.

  Lemma iter_inc_len i t : List.length (Nat.iter i ctr_inc t) = List.length t.
  Proof. induction i as [|i IH]; [reflexivity|]. simpl. rewrite ctr_inc_len. exact IH. Qed.

  (* one counter update, for an object whose IV fills the whole block (as set up by AES-GCM / AES-CCM) *)
  Lemma ctr_counter_update_ok iv c : List.length c = 16%nat ->
    ctr_counter_update O (mkAESCTR key iv 0 c) = Ok (mkAESCTR key iv 0 (ctr_inc c)).
  Proof.
    intros Lc. unfold ctr_counter_update. cbn [ctr_rijndael ctr_IV ctr__counter_bytes ctr__counter]. cbv zeta.
    change (0 >? 0) with false. cbn [andb]. f_equal. f_equal.
    unfold numberToByteArray, bytesToNumber, ctr_inc, be_bytes. rewrite Lc. change (Z.to_nat 16) with 16%nat.
    f_equal. replace (zlen c) with (Z.of_nat 16) by (unfold zlen; lia). rewrite le_bytes_mod. reflexivity.
  Qed.

  Variable iv t0 : list Z.
  Hypothesis Lt0 : List.length t0 = 16%nat.
  Variable n : Z.
  Hypothesis Hn : 0 <= n.

  Let St (i : nat) : ctr_state := (ctr_blocks E t0 i, key, iv, 0, Nat.iter i ctr_inc t0).
  Let cond := (fun '(mask, self_rijndael, self_IV, self__counter_bytes, self__counter) => zlen mask <? n) : ctr_state -> bool.
  Let body := (fun '(mask, self_rijndael, self_IV, self__counter_bytes, self__counter) =>
         let mask := mask ++ bo_enc O self_rijndael self__counter in
         self__ <- ctr_counter_update O (mkAESCTR self_rijndael self_IV self__counter_bytes self__counter) ;;
         let self_rijndael := ctr_rijndael self__ in
         let self_IV := ctr_IV self__ in
         let self__counter_bytes := ctr__counter_bytes self__ in
         let self__counter := ctr__counter self__ in
         @Ok ctr_state (mask, self_rijndael, self_IV, self__counter_bytes, self__counter)).

  Lemma ctr_body_step i : body (St i) = Ok (St (S i)).
  Proof.
    unfold St at 1. unfold body. cbv zeta.
    rewrite ctr_counter_update_ok by (rewrite iter_inc_len; exact Lt0). rewrite bind_ok.
    cbn [ctr_rijndael ctr_IV ctr__counter_bytes ctr__counter].
    unfold St. rewrite ctr_blocks_snoc. reflexivity.
  Qed.

  Lemma ctr_cond_St i : cond (St i) = (16 * Z.of_nat i <? n).
  Proof. unfold St, cond. rewrite ctr_blocks_len. reflexivity. Qed.

  Lemma while_fuel_S' {S0} fuel (c : S0 -> bool) (b : S0 -> res S0) s :
    while_fuel (S fuel) c b s = if c s then s' <- b s ;; while_fuel fuel c b s' else Ok s.
  Proof. reflexivity. Qed.

  Lemma ctr_loop_run : forall k i fuel, 16 * (Z.of_nat (i + k) - 1) < n -> n <= 16 * Z.of_nat (i + k) -> (k < fuel)%nat ->
    while_fuel fuel cond body (St i) = Ok (St (i + k)).
  Proof.
    induction k as [|k IH]; intros i fuel H1 H2 Hf.
    - rewrite Nat.add_0_r in *. destruct fuel as [|fuel]; [lia|]. rewrite while_fuel_S', ctr_cond_St.
      destruct (16 * Z.of_nat i <? n) eqn:Ec; [lia|]. reflexivity.
    - destruct fuel as [|fuel]; [lia|]. rewrite while_fuel_S', ctr_cond_St.
      destruct (16 * Z.of_nat i <? n) eqn:Ec; [|lia].
      rewrite ctr_body_step, bind_ok. replace (i + S k)%nat with (S i + k)%nat by lia. apply IH; [| |lia].
      + replace (S i + k)%nat with (i + S k)%nat by lia. exact H1.
      + replace (S i + k)%nat with (i + S k)%nat by lia. exact H2.
  Qed.

  Lemma ctr_loop_ok :
    ctr_loop O (mkAESCTR key iv 0 t0) n =
    Ok (St (Z.to_nat ((n + 15) / 16))).
  Proof.
    unfold ctr_loop. cbn [ctr_rijndael ctr_IV ctr__counter_bytes ctr__counter].
    fold cond. fold body. change (@nil Z, key, iv, 0, t0) with (St 0).
    set (q := Z.to_nat ((n + 15) / 16)).
    assert (Hq : 16 * (Z.of_nat q - 1) < n /\ n <= 16 * Z.of_nat q).
    { unfold q. rewrite Z2Nat.id by (apply Z.div_pos; lia).
      pose proof (Z.div_mod (n + 15) 16 ltac:(lia)). pose proof (Z.mod_pos_bound (n + 15) 16 ltac:(lia)). lia. }
    apply (ctr_loop_run q 0 (Z.to_nat (n + 1))); cbn [plus]; lia.
  Qed.
End CTRspec.

(* one call from a freshly set 16-byte counter block = SP 800-38A CTR *)
Lemma ctr_encrypt_ok O key iv t0 m :
  (forall b, List.length (bo_enc O key b) = 16%nat) -> (forall k b, all_bytes (bo_enc O k b) = true) ->
  List.length t0 = 16%nat -> all_bytes m = true ->
  ctr_encrypt O (mkAESCTR key iv 0 t0) m =
  Ok (mkAESCTR key iv 0 (Nat.iter (Z.to_nat ((zlen m + 15) / 16)) ctr_inc t0), ctr_crypt_spec (bo_enc O key) 16 t0 m).
Proof.
  intros HL HB Lt Bm. rewrite ctr_encrypt_shape.
  rewrite (ctr_loop_ok O key HL iv t0 Lt (zlen m) (zlen_nonneg m)). rewrite bind_ok.
  set (q := Z.to_nat ((zlen m + 15) / 16)).
  assert (Bk : all_bytes (ctr_blocks (bo_enc O key) t0 q) = true).
  { generalize t0. induction q as [|q' IH]; intros t; [reflexivity|]. cbn [ctr_blocks]. rewrite all_bytes_app, HB, IH. reflexivity. }
  unfold mk_bytes.
  assert (Bx : all_bytes (map (fun '(i, j) => Z.lxor i j) (combine m (ctr_blocks (bo_enc O key) t0 q))) = true).
  { unfold all_bytes in *. rewrite forallb_forall in *. intros z Hz. apply in_map_iff in Hz. destruct Hz as [[x y] [<- Hin]].
    apply lxor_is_byte; [apply Bm; eapply in_combine_l; eauto|apply Bk; eapply in_combine_r; eauto]. }
  rewrite Bx, bind_ok. f_equal. f_equal. unfold ctr_crypt_spec, xorb.
  change (Z.of_nat 16) with 16. replace (zlen m + 16 - 1) with (zlen m + 15) by lia. fold q.
  apply map_ext. intros [a b]. reflexivity.
Qed.
