(* AES-CTR: the generated Python_AES_CTR.encrypt (Gen/C09_AesModes.v), for objects whose counter fills the whole
   16-byte block (ctr_init with a 16-byte IV; the objects inside AES-GCM / AES-CCM):
   - one call = SP 800-38A 6.5 CTR (ctr_encrypt_ok);
   - the object is a STREAM: the unused key stream is kept, so enc (a ++ b) = enc a ++ enc' b for ANY split
     (ctr_stream_split_code).  Before /repo commit de57de0 the second statement was false (ctr_stream_split_refuted). *)
From Coq Require Import ZArith List Bool Lia String.
From TV Require Import Base.Prelude Base.C09_Lib Base.C09_Oracle Gen.C09_AesModes
  Spec.C09_Poly1305 Spec.C09_Modes Proofs.C09_Lists Proofs.C09_Poly1305 Proofs.C09_KDF Proofs.C09_GCM.
Import ListNotations.
Open Scope list_scope.
Open Scope Z_scope.

Lemma iter_add {A} (f : A -> A) n m x : Nat.iter (n + m) f x = Nat.iter m f (Nat.iter n f x).
Proof.
  revert x. induction n as [|n IH]; intros x; [reflexivity|].
  change (Nat.iter (S n + m) f x) with (f (Nat.iter (n + m) f x)). rewrite IH.
  change (Nat.iter (S n) f x) with (f (Nat.iter n f x)). symmetry. apply iter_shift.
Qed.

Lemma combine_firstn_len {A B} (a : list A) (m : list B) : combine a (firstn (List.length a) m) = combine a m.
Proof.
  revert m. induction a as [|x a IH]; intros m; [reflexivity|].
  destruct m as [|y m]; [reflexivity|]. cbn [List.length firstn combine]. rewrite IH. reflexivity.
Qed.

Section CTRspec.
  Variable O : BlockOracle.
  Variable key : list Z.
  Let E := bo_enc O key.
  Hypothesis Elen : forall b, List.length (E b) = 16%nat.
  Hypothesis Ebytes : forall k b, all_bytes (bo_enc O k b) = true.

  Lemma ctr_blocks_snoc t i : ctr_blocks E t (S i) = ctr_blocks E t i ++ E (Nat.iter i ctr_inc t).
  Proof.
    revert t. induction i as [|i IH]; intros t.
    - cbn [ctr_blocks Nat.iter]. rewrite app_nil_r. reflexivity.
    - change (ctr_blocks E t (S (S i))) with (E t ++ ctr_blocks E (ctr_inc t) (S i)).
      rewrite IH. change (ctr_blocks E t (S i)) with (E t ++ ctr_blocks E (ctr_inc t) i).
      rewrite <- app_assoc. do 3 f_equal. apply iter_shift.
  Qed.

  Lemma ctr_blocks_add t i j : ctr_blocks E t (i + j) = ctr_blocks E t i ++ ctr_blocks E (Nat.iter i ctr_inc t) j.
  Proof.
    induction j as [|j IH].
    - rewrite Nat.add_0_r. cbn [ctr_blocks]. rewrite app_nil_r. reflexivity.
    - replace (i + S j)%nat with (S (i + j)) by lia. rewrite !ctr_blocks_snoc, IH, <- app_assoc.
      do 3 f_equal. apply iter_add.
  Qed.

  Lemma ctr_blocks_len t i : zlen (ctr_blocks E t i) = 16 * Z.of_nat i.
  Proof.
    revert t. induction i as [|i IH]; intros t; [reflexivity|].
    cbn [ctr_blocks]. rewrite zlen_app, IH. unfold zlen. rewrite Elen. lia.
  Qed.

  Lemma ctr_blocks_bytes t i : all_bytes (ctr_blocks E t i) = true.
  Proof. revert t. induction i as [|i IH]; intros t; [reflexivity|]. cbn [ctr_blocks]. rewrite all_bytes_app, IH. unfold E. rewrite Ebytes. reflexivity. Qed.

  Lemma ctr_inc_len t : List.length (ctr_inc t) = List.length t.
  Proof. unfold ctr_inc, be_bytes. rewrite rev_length, le_bytes_length. reflexivity. Qed.

  Lemma iter_inc_len i t : List.length (Nat.iter i ctr_inc t) = List.length t.
  Proof. induction i as [|i IH]; [reflexivity|]. simpl. rewrite ctr_inc_len. exact IH. Qed.

  Lemma ctr_counter_update_ok iv c ks : List.length c = 16%nat ->
    ctr_counter_update O (mkAESCTR key iv 0 c ks) = Ok (mkAESCTR key iv 0 (ctr_inc c) ks).
  Proof.
    intros Lc. unfold ctr_counter_update. cbn [ctr_rijndael ctr_IV ctr__counter_bytes ctr__counter ctr__keystream]. cbv zeta.
    change (0 >? 0) with false. cbn [andb]. f_equal. f_equal.
    unfold numberToByteArray, bytesToNumber, ctr_inc, be_bytes. rewrite Lc. change (Z.to_nat 16) with 16%nat.
    f_equal. replace (zlen c) with (Z.of_nat 16) by (unfold zlen; lia). rewrite le_bytes_mod. reflexivity.
  Qed.

  Section Loop.
    Variable iv t0 ks : list Z.
    Hypothesis Lt0 : List.length t0 = 16%nat.
    Variable n : Z.

    Let St (i : nat) : ctr_state := (ks ++ ctr_blocks E t0 i, key, iv, 0, Nat.iter i ctr_inc t0, ks).
    Let cond := (fun '(mask, self_rijndael, self_IV, self__counter_bytes, self__counter, self__keystream) => zlen mask <? n) : ctr_state -> bool.
    Let body := (fun '(mask, self_rijndael, self_IV, self__counter_bytes, self__counter, self__keystream) =>
         let mask := mask ++ bo_enc O self_rijndael self__counter in
         self__ <- ctr_counter_update O (mkAESCTR self_rijndael self_IV self__counter_bytes self__counter self__keystream) ;;
         let self_rijndael := ctr_rijndael self__ in
         let self_IV := ctr_IV self__ in
         let self__counter_bytes := ctr__counter_bytes self__ in
         let self__counter := ctr__counter self__ in
         let self__keystream := ctr__keystream self__ in
         @Ok ctr_state (mask, self_rijndael, self_IV, self__counter_bytes, self__counter, self__keystream)).

    Lemma ctr_body_step i : body (St i) = Ok (St (S i)).
    Proof.
      unfold St at 1. unfold body. cbv zeta.
      rewrite ctr_counter_update_ok by (rewrite iter_inc_len; exact Lt0). rewrite bind_ok.
      cbn [ctr_rijndael ctr_IV ctr__counter_bytes ctr__counter ctr__keystream].
      unfold St. rewrite ctr_blocks_snoc, app_assoc. reflexivity.
    Qed.

    Lemma ctr_cond_St i : cond (St i) = (zlen ks + 16 * Z.of_nat i <? n).
    Proof. unfold St, cond. rewrite zlen_app, ctr_blocks_len. reflexivity. Qed.

    Lemma while_fuel_S' {S0} fuel (c : S0 -> bool) (b : S0 -> res S0) s :
      while_fuel (S fuel) c b s = if c s then s' <- b s ;; while_fuel fuel c b s' else Ok s.
    Proof. reflexivity. Qed.

    Lemma ctr_loop_run : forall k i fuel,
      (k = 0%nat \/ zlen ks + 16 * (Z.of_nat (i + k) - 1) < n) -> n <= zlen ks + 16 * Z.of_nat (i + k) -> (k < fuel)%nat ->
      while_fuel fuel cond body (St i) = Ok (St (i + k)).
    Proof.
      induction k as [|k IH]; intros i fuel H1 H2 Hf.
      - rewrite Nat.add_0_r in *. destruct fuel as [|fuel]; [lia|]. rewrite while_fuel_S', ctr_cond_St.
        destruct (zlen ks + 16 * Z.of_nat i <? n) eqn:Ec; [lia|]. reflexivity.
      - destruct fuel as [|fuel]; [lia|]. rewrite while_fuel_S', ctr_cond_St.
        destruct H1 as [H1|H1]; [discriminate|].
        destruct (zlen ks + 16 * Z.of_nat i <? n) eqn:Ec; [|lia].
        rewrite ctr_body_step, bind_ok. replace (i + S k)%nat with (S i + k)%nat by lia. apply IH; [| |lia].
        + right. replace (S i + k)%nat with (i + S k)%nat by lia. exact H1.
        + replace (S i + k)%nat with (i + S k)%nat by lia. exact H2.
    Qed.

    (* q = the number of fresh blocks: the least q with |ks| + 16 q >= n *)
    Lemma ctr_loop_ok (q : nat) : 0 <= n -> (q = 0%nat \/ zlen ks + 16 * (Z.of_nat q - 1) < n) -> n <= zlen ks + 16 * Z.of_nat q ->
      ctr_loop O (mkAESCTR key iv 0 t0 ks) n = Ok (St q).
    Proof.
      intros Hn H1 H2. unfold ctr_loop. cbn [ctr_rijndael ctr_IV ctr__counter_bytes ctr__counter ctr__keystream].
      fold cond. fold body.
      assert (E0 : (ks, key, iv, 0, t0, ks) = St 0) by (unfold St; cbn [ctr_blocks Nat.iter]; rewrite app_nil_r; reflexivity).
      rewrite E0. pose proof (zlen_nonneg ks) as Hk.
      apply (ctr_loop_run q 0 (Z.to_nat (n + 1))); cbn [plus]; try assumption. destruct H1 as [->|H1]; lia.
    Qed.
  End Loop.

  Definition ctr_fresh (ks : list Z) (n : Z) : nat :=
    if n <=? zlen ks then 0%nat else Z.to_nat ((n - zlen ks + 15) / 16).

  Lemma ctr_fresh_ok ks n : 0 <= n ->
    (ctr_fresh ks n = 0%nat \/ zlen ks + 16 * (Z.of_nat (ctr_fresh ks n) - 1) < n) /\ n <= zlen ks + 16 * Z.of_nat (ctr_fresh ks n).
  Proof.
    intros Hn. unfold ctr_fresh. pose proof (zlen_nonneg ks) as Hk.
    destruct (n <=? zlen ks) eqn:Ec; [split; [left; reflexivity|lia]|].
    pose proof (Z.div_mod (n - zlen ks + 15) 16 ltac:(lia)). pose proof (Z.mod_pos_bound (n - zlen ks + 15) 16 ltac:(lia)).
    rewrite Z2Nat.id by (apply Z.div_pos; lia). split; [right|]; lia.
  Qed.

  (* what one call computes: XOR with  left-over ++ fresh blocks,  and what it leaves in the object *)
  Lemma ctr_encrypt_run iv t0 ks m (q : nat) : List.length t0 = 16%nat -> all_bytes ks = true -> all_bytes m = true ->
    (q = 0%nat \/ zlen ks + 16 * (Z.of_nat q - 1) < zlen m) -> zlen m <= zlen ks + 16 * Z.of_nat q ->
    ctr_encrypt O (mkAESCTR key iv 0 t0 ks) m =
    Ok (mkAESCTR key iv 0 (Nat.iter q ctr_inc t0) (skipn (List.length m) (ks ++ ctr_blocks E t0 q)),
        xorb m (ks ++ ctr_blocks E t0 q)).
  Proof.
    intros Lt Bk Bm H1 H2. rewrite ctr_encrypt_shape.
    rewrite (ctr_loop_ok iv t0 ks Lt (zlen m) q (zlen_nonneg m) H1 H2). rewrite bind_ok.
    set (M := ks ++ ctr_blocks E t0 q).
    assert (BM : all_bytes M = true) by (unfold M; rewrite all_bytes_app, Bk, ctr_blocks_bytes; reflexivity).
    assert (Bx : all_bytes (map (fun '(i, j) => Z.lxor i j) (combine m M)) = true).
    { unfold all_bytes in *. rewrite forallb_forall in *. intros z Hz. apply in_map_iff in Hz. destruct Hz as [[x y] [<- Hin]].
      apply lxor_is_byte; [apply Bm; eapply in_combine_l; eauto|apply BM; eapply in_combine_r; eauto]. }
    unfold mk_bytes. rewrite Bx, bind_ok. rewrite py_slice_from by apply zlen_nonneg.
    unfold zlen at 1. rewrite Nat2Z.id. f_equal. f_equal. unfold xorb. apply map_ext. intros [a b]. reflexivity.
  Qed.

  (* one call on an object with no left-over key stream = SP 800-38A CTR *)
  Lemma ctr_encrypt_ok iv t0 m : List.length t0 = 16%nat -> all_bytes m = true ->
    ctr_encrypt O (mkAESCTR key iv 0 t0 []) m =
    Ok (mkAESCTR key iv 0 (Nat.iter (Z.to_nat ((zlen m + 15) / 16)) ctr_inc t0)
                 (skipn (List.length m) (ctr_blocks E t0 (Z.to_nat ((zlen m + 15) / 16)))),
        ctr_crypt_spec E 16 t0 m).
  Proof.
    intros Lt Bm. pose proof (zlen_nonneg m) as Hm.
    pose proof (Z.div_mod (zlen m + 15) 16 ltac:(lia)). pose proof (Z.mod_pos_bound (zlen m + 15) 16 ltac:(lia)).
    rewrite (ctr_encrypt_run iv t0 [] m (Z.to_nat ((zlen m + 15) / 16)) Lt eq_refl Bm).
    - cbn [app]. unfold ctr_crypt_spec. change (Z.of_nat 16) with 16. replace (zlen m + 16 - 1) with (zlen m + 15) by lia. reflexivity.
    - change (zlen (@nil Z)) with 0. rewrite Z2Nat.id by (apply Z.div_pos; lia). right. lia.
    - change (zlen (@nil Z)) with 0. rewrite Z2Nat.id by (apply Z.div_pos; lia). lia.
  Qed.

  (* the object is a stream: two calls = one call on the concatenation, for ANY split offset *)
  Lemma ctr_stream_split_code iv t0 ks a b : List.length t0 = 16%nat -> all_bytes ks = true ->
    all_bytes a = true -> all_bytes b = true ->
    ('(st1, c1) <- ctr_encrypt O (mkAESCTR key iv 0 t0 ks) a ;; '(st2, c2) <- ctr_encrypt O st1 b ;; Ok (st2, c1 ++ c2))
    = ctr_encrypt O (mkAESCTR key iv 0 t0 ks) (a ++ b).
  Proof.
    intros Lt Bk Ba Bb.
    pose proof (zlen_nonneg a) as Ha. pose proof (zlen_nonneg b) as Hb. pose proof (zlen_nonneg ks) as Hk.
    set (q1 := ctr_fresh ks (zlen a)). destruct (ctr_fresh_ok ks (zlen a) Ha) as [A1 A2]. fold q1 in A1, A2.
    rewrite (ctr_encrypt_run iv t0 ks a q1 Lt Bk Ba A1 A2). rewrite bind_ok.
    set (M1 := ks ++ ctr_blocks E t0 q1).
    assert (LM1 : zlen M1 = zlen ks + 16 * Z.of_nat q1) by (unfold M1; rewrite zlen_app, ctr_blocks_len; reflexivity).
    assert (BM1 : all_bytes M1 = true) by (unfold M1; rewrite all_bytes_app, Bk, ctr_blocks_bytes; reflexivity).
    set (ks1 := skipn (List.length a) M1).
    assert (Lk1 : zlen ks1 = zlen ks + 16 * Z.of_nat q1 - zlen a) by (unfold ks1, zlen in *; rewrite skipn_length; lia).
    assert (Bk1 : all_bytes ks1 = true) by (apply all_bytes_skipn; exact BM1).
    set (t1 := Nat.iter q1 ctr_inc t0). assert (Lt1 : List.length t1 = 16%nat) by (unfold t1; rewrite iter_inc_len; exact Lt).
    set (q2 := ctr_fresh ks1 (zlen b)). destruct (ctr_fresh_ok ks1 (zlen b) Hb) as [B1 B2]. fold q2 in B1, B2.
    rewrite (ctr_encrypt_run iv t1 ks1 b q2 Lt1 Bk1 Bb B1 B2). rewrite bind_ok.
    assert (Bab : all_bytes (a ++ b) = true) by (rewrite all_bytes_app, Ba, Bb; reflexivity).
    rewrite (ctr_encrypt_run iv t0 ks (a ++ b) (q1 + q2) Lt Bk Bab).
    2:{ rewrite zlen_app. destruct B1 as [B1|B1]; [destruct A1 as [A1|A1]; [left; lia|right; rewrite B1; lia]|right; lia]. }
    2:{ rewrite zlen_app. lia. }
    rewrite ctr_blocks_add. fold t1. rewrite app_assoc. fold M1.
    assert (EM : M1 ++ ctr_blocks E t1 q2 = firstn (List.length a) M1 ++ (ks1 ++ ctr_blocks E t1 q2)).
    { unfold ks1. rewrite app_assoc, firstn_skipn. reflexivity. }
    f_equal. f_equal.
    - (* the object afterwards *)
      assert (Et : Nat.iter (q1 + q2) ctr_inc t0 = Nat.iter q2 ctr_inc t1) by (unfold t1; apply iter_add).
      rewrite Et. f_equal.
      rewrite EM, app_length. rewrite <- skipn_add. f_equal.
      rewrite skipn_app. rewrite (skipn_all2 (firstn (List.length a) M1)) by (rewrite firstn_length; lia).
      rewrite firstn_length. replace (List.length a - Nat.min (List.length a) (List.length M1))%nat with 0%nat by (unfold zlen in *; lia).
      reflexivity.
    - (* the output *)
      rewrite EM. unfold xorb. rewrite combine_app by (rewrite firstn_length; unfold zlen in *; lia).
      rewrite map_app, combine_firstn_len. reflexivity.
  Qed.
End CTRspec.
