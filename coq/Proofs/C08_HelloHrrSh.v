(* C08: crash analysis of the client's handling of a HelloRetryRequest (nested region of
   _clientGetServerHello; model Gen/HrrShChecks.v, proof script Gen/HrrShChecksProof.v).
   Crash-free for EVERY HelloRetryRequest under the hypothesis hrr_own_ok about the client's own
   ClientHello (it has supported_groups and key_share with lists) and the enclosing test (the HRR
   has an extension list). *)
From Coq Require Import ZArith List Bool String.
From TV Require Import Base.Prelude Base.C08_Lib Gen.HrrShChecks Gen.HrrShChecksProof Model.C08_Known.
Import ListNotations.
Open Scope Z_scope.

Lemma hrr_sh_crash_free_l :
  forall (ch : ClientHello_r) (hrr : ServerHello_r) (gen : Z -> ver -> KeyShareEntry_r),
    hrr_own_ok ch hrr -> ncrash (HrrShChecks ch hrr gen).
Proof.
  intros ch hrr gen H. apply crash_in_nil_ncrash. exact (HrrShChecks_crash_sites ch hrr gen H).
Qed.

(* the hypothesis is satisfiable, and the region takes its different exits *)
Definition hs_groups : ext := X_SupportedGroupsExtension {| SupportedGroupsExtension_groups := Some [29; 23] |}.
Definition hs_share (g : Z) : KeyShareEntry_r := {| KeyShareEntry_group := g; KeyShareEntry_key_exchange := [1; 2] |}.
Definition hs_ks : ext := X_ClientKeyShareExtension {| ClientKeyShareExtension_client_shares := Some [hs_share 29] |}.
Definition hs_ch : ClientHello_r :=
  {| ClientHello_session_id := [7]; ClientHello_cipher_suites := [4865];
     ClientHello_extensions := Some [X_TLSExtension {| TLSExtension_extType := 43; TLSExtension_extData := [2; 3; 4] |};
                                     hs_groups; hs_ks] |}.
Definition hs_hrr (sid : list Z) (exts : list ext) : ServerHello_r :=
  {| ServerHello_server_version := (3, 3); ServerHello_random := [1]; ServerHello_session_id := sid;
     ServerHello_cipher_suite := 4865; ServerHello_compression_method := 0; ServerHello_extensions := Some exts |}.
Definition hs_sv : ext := X_SrvSupportedVersionsExtension {| SrvSupportedVersionsExtension_version := (3, 4) |}.
Definition hs_sel (g : Z) : ext := X_HRRKeyShareExtension {| HRRKeyShareExtension_selected_group := g |}.
Definition hs_gen (g : Z) (_ : ver) : KeyShareEntry_r := hs_share g.

Lemma hrr_own_ok_example : hrr_own_ok hs_ch (hs_hrr [7] [hs_sv; hs_sel 23]).
Proof.
  unfold hrr_own_ok, hs_ch, hs_hrr. cbn [ClientHello_extensions ServerHello_extensions].
  eexists; eexists; eexists; eexists; eexists; eexists.
  split; [reflexivity|]. split; [vm_compute; reflexivity|]. split; [reflexivity|].
  split; [vm_compute; reflexivity|]. split; reflexivity.
Qed.

Lemma hrr_sh_examples :
  HrrShChecks hs_ch (hs_hrr [7] [hs_sv; hs_sel 23]) hs_gen = OK tt /\
  (* a group the client did not offer *)
  HrrShChecks hs_ch (hs_hrr [7] [hs_sv; hs_sel 24]) hs_gen = Alert 47 /\
  (* a group for which the client already sent a share *)
  HrrShChecks hs_ch (hs_hrr [7] [hs_sv; hs_sel 29]) hs_gen = Alert 47 /\
  (* an extension that was not in the ClientHello *)
  HrrShChecks hs_ch (hs_hrr [7] [hs_sv; hs_sel 23; X_TLSExtension {| TLSExtension_extType := 16; TLSExtension_extData := [] |}]) hs_gen
    = Alert 110 /\
  (* neither cookie nor key_share: no change requested *)
  HrrShChecks hs_ch (hs_hrr [7] [hs_sv]) hs_gen = Alert 47 /\
  (* session_id not echoed *)
  HrrShChecks hs_ch (hs_hrr [8] [hs_sv; hs_sel 23]) hs_gen = Alert 47.
Proof. repeat split; vm_compute; reflexivity. Qed.
