(* What a sequential run of calls (the right-hand side of cache_linearizable) returns: if the
   clock advances are non-negative, exactly the outcomes of the abstract specification for the
   history of those calls. *)
From Coq Require Import ZArith Bool Lia List.
From TV Require Import Base.Prelude Base.C18_Lib Model.C18_Cache Spec.C18_CacheSpec
     Proofs.C18_Cache Proofs.C18_Lin.
Import ListNotations.
Open Scope Z_scope.

(* the calls executed one after the other, each reading the clock once *)
Fixpoint mfold (wc : world * Z) (cs : list ccall) : (world * Z) * list outcome :=
  match cs with
  | [] => (wc, [])
  | c :: r => let '(wc', o) := cache_mstep wc c in
              let '(wf, os) := mfold wc' r in (wf, o :: os)
  end.

(* the history they form *)
Fixpoint hist_of (clk : Z) (cs : list ccall) : history :=
  match cs with
  | [] => []
  | (o, d) :: r => (clk + d, o) :: hist_of (clk + d) r
  end.

Lemma mfold_exec : forall cs w clk,
  snd (mfold (w, clk) cs) = snd (exec w (hist_of clk cs)) /\
  fst (fst (mfold (w, clk) cs)) = fst (exec w (hist_of clk cs)).
Proof.
  induction cs as [|[o d] cs IH]; intros w clk; [split; reflexivity|].
  cbn [mfold hist_of]. rewrite exec_cons. unfold cache_mstep. cbn [fst snd].
  destruct (apply w (clk + d) o) as [w1 r]. cbn [fst snd].
  destruct (IH w1 (clk + d)) as [H1 H2].
  destruct (mfold (w1, clk + d) cs) as [wf os]. cbn [fst snd] in *. split; [f_equal; exact H1|exact H2].
Qed.

Lemma hist_of_monotone : forall cs clk, Forall (fun c : ccall => 0 <= snd c) cs -> monotone_from clk (hist_of clk cs).
Proof.
  induction cs as [|[o d] cs IH]; intros clk H; [exact I|].
  inversion H as [|x l Hx Hl]; subst. cbn [hist_of monotone_from snd] in *. split; [lia|apply IH; exact Hl].
Qed.

Lemma monotone_from_monotone t h : monotone_from t h -> monotone h.
Proof. destruct h as [|[t' o] h]; [auto|]. cbn [monotone_from monotone]. tauto. Qed.

Lemma serial_calls_refine_spec_all : forall n maxAge t0 cs,
  1 <= n -> Forall (fun c : ccall => 0 <= snd c) cs ->
  snd (mfold (init_world n maxAge, t0) cs) = spec_outcomes n maxAge (hist_of t0 cs) /\
  monotone (hist_of t0 cs).
Proof.
  intros n maxAge t0 cs Hn Hd.
  assert (monotone (hist_of t0 cs)) as Hm by (eapply monotone_from_monotone, hist_of_monotone; exact Hd).
  split; [|exact Hm].
  rewrite (proj1 (mfold_exec cs (init_world n maxAge) t0)).
  exact (cache_refines_spec_all n maxAge (hist_of t0 cs) Hn Hm).
Qed.
