(* C10: finite-field Diffie-Hellman and the X25519/X448 all-zero check. *)
From Coq Require Import ZArith List Bool Lia.
From TV Require Import Base.Prelude Model.C10_RsaMath Model.C10_RsaSig Model.C10_Dh
     Proofs.C10_BytesP Proofs.C10_MathP.
Import ListNotations.
Open Scope Z_scope.

Lemma ffdh_pow_agree g a b p : 0 < p -> 0 <= a -> 0 <= b ->
  powmod (powmod g a p) b p = powmod (powmod g b p) a p.
Proof.
  intros Hp Ha Hb. rewrite !powmod_spec by assumption. rewrite !pow_mod_l by assumption.
  rewrite <- !Z.pow_mul_r by assumption. rewrite Z.mul_comm. reflexivity.
Qed.

Definition share_of (v : dhval) : share :=
  match v with ValInt y => ShareInt y | ValBytes b => ShareBytes b end.

Lemma ffdh_public_value tls13 g p x v : 0 < p ->
  ffdh_calc_public tls13 g p x = Ok v ->
  ffdh_normalise p (share_of v) = Ok (powmod g x p) /\ powmod g x p <> 1 /\ powmod g x p <> p - 1.
Proof.
  intros Hp. unfold ffdh_calc_public.
  destruct ((powmod g x p =? 1) || (powmod g x p =? p - 1)) eqn:E; [discriminate|].
  apply orb_false_iff in E. destruct E as [E1 E2]. apply Z.eqb_neq in E1, E2.
  destruct tls13; intros H; injection H as <-; cbn [share_of ffdh_normalise]; (split; [|split; assumption]).
  - pose proof (numBytes_pos p Hp). rewrite n2b_zlen by lia. rewrite Z.eqb_refl. cbn [negb].
    f_equal. apply b2n_n2b; [lia|].
    pose proof (numBytes_upper p Hp).
    destruct x as [|x|x]; cbn [powmod].
    + pose proof (Z.mod_pos_bound 1 p Hp). lia.
    + rewrite powmod_pos_spec by lia. pose proof (Z.mod_pos_bound (g ^ Z.pos x) p Hp). lia.
    + pose proof (Z.pow_pos_nonneg 256 (numBytes p)). lia.
  - reflexivity.
Qed.

Lemma ffdh_shared_ok_iff tls13 p x s r :
  ffdh_calc_shared tls13 p x s = Ok r <->
  exists y, ffdh_normalise p s = Ok y /\ 2 <= y < p - 1 /\ powmod y x p <> 1 /\ powmod y x p <> p - 1 /\
            r = (if tls13 then numberToByteArray (powmod y x p) (numBytes p)
                 else numberToByteArray_min (powmod y x p)).
Proof.
  unfold ffdh_calc_shared. destruct (ffdh_normalise p s) as [y|ex]; cbn [bind].
  - destruct ((2 <=? y) && (y <? p - 1)) eqn:E1; cbn [negb].
    + apply andb_true_iff in E1. destruct E1 as [A B]. apply Z.leb_le in A. apply Z.ltb_lt in B.
      destruct ((powmod y x p =? 1) || (powmod y x p =? p - 1)) eqn:E2.
      * split; [discriminate|]. intros [y' [H [_ [N1 [N2 _]]]]]. injection H as <-.
        apply orb_true_iff in E2. destruct E2 as [E2|E2]; apply Z.eqb_eq in E2; contradiction.
      * apply orb_false_iff in E2. destruct E2 as [N1 N2]. apply Z.eqb_neq in N1, N2.
        split.
        -- intros H. exists y. repeat split; try assumption. destruct tls13; injection H; auto.
        -- intros [y' [H [_ [_ [_ ->]]]]]. injection H as <-. destruct tls13; reflexivity.
    + split; [discriminate|]. intros [y' [H [[A B] _]]]. injection H as <-.
      apply andb_false_iff in E1. destruct E1 as [E1|E1]; [apply Z.leb_gt in E1|apply Z.ltb_ge in E1]; lia.
  - split; [discriminate|]. intros [y' [H _]]. discriminate.
Qed.

(* out-of-range public values: 0, 1, p-1, p, p+1, everything >= p, negatives *)
Lemma ffdh_rejects_int tls13 p x y : (y <= 1 \/ y >= p - 1) ->
  ffdh_calc_shared tls13 p x (ShareInt y) = Err TLSIllegalParameter.
Proof.
  intros H. unfold ffdh_calc_shared. cbn [ffdh_normalise bind].
  destruct ((2 <=? y) && (y <? p - 1)) eqn:E; [|reflexivity].
  apply andb_true_iff in E. destruct E as [A B]. apply Z.leb_le in A. apply Z.ltb_lt in B. lia.
Qed.

Lemma ffdh_rejects_bytes_range tls13 p x b : zlen b = numBytes p ->
  (bytesToNumber b <= 1 \/ bytesToNumber b >= p - 1) ->
  ffdh_calc_shared tls13 p x (ShareBytes b) = Err TLSIllegalParameter.
Proof.
  intros L H. unfold ffdh_calc_shared. cbn [ffdh_normalise]. rewrite L, Z.eqb_refl. cbn [negb bind].
  destruct ((2 <=? bytesToNumber b) && (bytesToNumber b <? p - 1)) eqn:E; [|reflexivity].
  apply andb_true_iff in E. destruct E as [A B]. apply Z.leb_le in A. apply Z.ltb_lt in B. lia.
Qed.

(* TLS 1.3: a share whose length differs from that of the prime *)
Lemma ffdh_rejects_len tls13 p x b : zlen b <> numBytes p ->
  ffdh_calc_shared tls13 p x (ShareBytes b) = Err TLSIllegalParameter.
Proof.
  intros H. unfold ffdh_calc_shared. cbn [ffdh_normalise].
  destruct (numBytes p =? zlen b) eqn:E; [apply Z.eqb_eq in E; lia|]. reflexivity.
Qed.

(* a shared secret in the order-1/2 subgroup *)
Lemma ffdh_rejects_result tls13 p x s y : ffdh_normalise p s = Ok y ->
  (powmod y x p = 1 \/ powmod y x p = p - 1) ->
  ffdh_calc_shared tls13 p x s = Err TLSIllegalParameter.
Proof.
  intros Hn H. unfold ffdh_calc_shared. rewrite Hn. cbn [bind].
  destruct (negb ((2 <=? y) && (y <? p - 1))); [reflexivity|].
  destruct H as [-> | ->]; [rewrite Z.eqb_refl|rewrite Z.eqb_refl, orb_true_r]; reflexivity.
Qed.

(* both sides compute the same secret *)
Theorem ffdh_agree tls13 g p xa xb va vb ka kb :
  0 < p -> 0 <= xa -> 0 <= xb ->
  ffdh_calc_public tls13 g p xa = Ok va -> ffdh_calc_public tls13 g p xb = Ok vb ->
  ffdh_calc_shared tls13 p xa (share_of vb) = Ok ka ->
  ffdh_calc_shared tls13 p xb (share_of va) = Ok kb ->
  ka = kb.
Proof.
  intros Hp Ha Hb Pa Pb Sa Sb.
  destruct (ffdh_public_value _ _ _ _ _ Hp Pa) as [Na _].
  destruct (ffdh_public_value _ _ _ _ _ Hp Pb) as [Nb _].
  apply ffdh_shared_ok_iff in Sa. apply ffdh_shared_ok_iff in Sb.
  destruct Sa as [ya [Ea [_ [_ [_ ->]]]]]. destruct Sb as [yb [Eb [_ [_ [_ ->]]]]].
  rewrite Nb in Ea. rewrite Na in Eb. injection Ea as <-. injection Eb as <-.
  rewrite (ffdh_pow_agree g xb xa p) by assumption. reflexivity.
Qed.

(* the honest exchange succeeds unless a value falls in {0, 1, p-1} *)
Lemma ffdh_complete tls13 p x s y : ffdh_normalise p s = Ok y -> 2 <= y < p - 1 ->
  powmod y x p <> 1 -> powmod y x p <> p - 1 -> exists r, ffdh_calc_shared tls13 p x s = Ok r.
Proof.
  intros Hn Hy N1 N2. eexists. apply ffdh_shared_ok_iff. exists y. repeat split; try eassumption; lia.
Qed.

(* ---- X25519 / X448 all-zero check ------------------------------------------- *)
Lemma lor_fold_nonneg v : forall a, 0 <= a -> Forall (fun b => 0 <= b) v -> 0 <= fold_left Z.lor v a.
Proof.
  induction v as [|x v IH]; intros a Ha Hv; cbn [fold_left]; [exact Ha|].
  inversion Hv; subst. apply IH; [|assumption]. apply Z.lor_nonneg. lia.
Qed.

Lemma lor_fold_zero v : forall a, 0 <= a -> Forall (fun b => 0 <= b) v ->
  (fold_left Z.lor v a = 0 <-> a = 0 /\ Forall (fun b => b = 0) v).
Proof.
  induction v as [|x v IH]; intros a Ha Hv; cbn [fold_left].
  - split; [intros ->; auto|tauto].
  - inversion Hv as [|? ? Hx Hv']; subst.
    rewrite IH by (try assumption; apply Z.lor_nonneg; lia).
    rewrite Z.lor_eq_0_iff. split.
    + intros [[-> ->] H]. auto.
    + intros [-> H]. inversion H; subst. auto.
Qed.

Lemma non_zero_check_spec v : Forall (fun b => 0 <= b) v ->
  (non_zero_check v = Err TLSIllegalParameter <-> Forall (fun b => b = 0) v) /\
  (non_zero_check v = Ok tt <-> ~ Forall (fun b => b = 0) v).
Proof.
  intros Hv. unfold non_zero_check. pose proof (lor_fold_zero v 0 ltac:(lia) Hv) as Z0.
  destruct (fold_left Z.lor v 0 =? 0) eqn:E.
  - apply Z.eqb_eq in E. apply Z0 in E. destruct E as [_ E].
    split; split; intros H; try discriminate; try assumption; try reflexivity. contradiction.
  - apply Z.eqb_neq in E.
    assert (N : ~ Forall (fun b => b = 0) v) by (intros H; apply E; apply Z0; auto).
    split; split; intros H; try discriminate; try assumption; try reflexivity. contradiction.
Qed.

Lemma x_calc_shared_ok is448 priv peer S : x_calc_shared is448 priv peer = Ok S ->
  zlen peer = (if is448 then 56 else 32) /\
  S = (if is448 then x448 priv peer else x25519 priv peer) /\ non_zero_check S = Ok tt.
Proof.
  unfold x_calc_shared. destruct (zlen peer =? (if is448 then 56 else 32)) eqn:E; cbn [negb]; [|discriminate].
  apply Z.eqb_eq in E.
  set (R := if is448 then x448 priv peer else x25519 priv peer).
  destruct (non_zero_check R) as [u|ex] eqn:N; cbn [bind]; [|discriminate].
  destruct u. intros H. injection H as <-. auto.
Qed.

Lemma x_calc_shared_len (is448 : bool) priv peer : zlen peer <> (if is448 then 56 else 32) ->
  x_calc_shared is448 priv peer = Err TLSIllegalParameter.
Proof.
  intros H. unfold x_calc_shared. destruct (zlen peer =? (if is448 then 56 else 32)) eqn:E; [apply Z.eqb_eq in E; contradiction|].
  reflexivity.
Qed.

Lemma x_calc_shared_zero (is448 : bool) priv peer :
  Forall (fun b => b = 0) (if is448 then x448 priv peer else x25519 priv peer) ->
  exists ex, x_calc_shared is448 priv peer = Err ex.
Proof.
  intros H. unfold x_calc_shared. destruct (negb (zlen peer =? (if is448 then 56 else 32))); [eexists; reflexivity|].
  assert (Hnn : Forall (fun b => 0 <= b) (if is448 then x448 priv peer else x25519 priv peer)).
  { eapply Forall_impl; [|exact H]. cbv beta. intros a ->. lia. }
  destruct (non_zero_check_spec _ Hnn) as [[_ A] _]. rewrite (A H). cbn [bind]. eexists. reflexivity.
Qed.

Lemma ffdh_rejects_all :
  forall tls13 p x,
    (forall s r, ffdh_calc_shared tls13 p x s = Ok r <->
       exists y, ffdh_normalise p s = Ok y /\ 2 <= y < p - 1 /\ powmod y x p <> 1 /\ powmod y x p <> p - 1 /\
                 r = (if tls13 then numberToByteArray (powmod y x p) (numBytes p)
                      else numberToByteArray_min (powmod y x p))) /\
    (forall y, (y <= 1 \/ y >= p - 1) -> ffdh_calc_shared tls13 p x (ShareInt y) = Err TLSIllegalParameter) /\
    (forall b, zlen b <> numBytes p -> ffdh_calc_shared tls13 p x (ShareBytes b) = Err TLSIllegalParameter) /\
    (forall b, zlen b = numBytes p -> (bytesToNumber b <= 1 \/ bytesToNumber b >= p - 1) ->
               ffdh_calc_shared tls13 p x (ShareBytes b) = Err TLSIllegalParameter) /\
    (forall s y, ffdh_normalise p s = Ok y -> (powmod y x p = 1 \/ powmod y x p = p - 1) ->
                 ffdh_calc_shared tls13 p x s = Err TLSIllegalParameter).
Proof.
  intros. split; [|split; [|split; [|split]]].
  - intros s r. exact (ffdh_shared_ok_iff tls13 p x s r).
  - exact (ffdh_rejects_int tls13 p x).
  - exact (ffdh_rejects_len tls13 p x).
  - exact (ffdh_rejects_bytes_range tls13 p x).
  - exact (ffdh_rejects_result tls13 p x).
Qed.
