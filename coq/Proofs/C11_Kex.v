(* C11 -- RSAKeyExchange.processClientKeyExchange (regenerated) never raises, always yields
   48 bytes, and the server's continuation does not depend on HOW a premaster is malformed *)
From Coq Require Import ZArith List Bool Lia.
From TV Require Import Base.Prelude Base.C11_Lib Gen.C11_RsaKex Model.C11_ServerTail Proofs.C11_LibFacts.
Import ListNotations.
Open Scope Z_scope.

(* The script is written against the meaning, not the shape, of the generated text: it does the case analysis
   (decrypt result None / empty / other; length; the two version comparisons) and lets computation close each case,
   so behaviour-preserving rewrites of processClientKeyExchange (early returns, merged conditions, renamed locals)
   do not break it. *)
Lemma kex_eq_spec_all (dec : list Z -> option (list Z)) (rnd : Z -> list Z) cv sv epms :
  processClientKeyExchange dec rnd cv sv epms = Ok (Some (kex_spec cv sv (dec epms) (rnd 48))).
Proof.
  unfold processClientKeyExchange, kex_spec, wellformed_premaster.
  destruct (dec epms) as [[|x pm]|]; cbn [opt_falsy opt_get bind negb andb orb]; try reflexivity.
  destruct (zlen (x :: pm) =? 48) eqn:E; cbn [opt_falsy opt_get negb andb orb bind]; try reflexivity.
  assert (H48 : zlen (x :: pm) = 48) by lia.
  repeat (rewrite py_index_ok by lia; cbn [opt_get bind]).
  fold (version_of (x :: pm)).
  destruct (pairZ_eqb (version_of (x :: pm)) cv); destruct (pairZ_eqb (version_of (x :: pm)) sv);
    cbn [negb andb orb bind]; reflexivity.
Qed.

Lemma kex_spec_48 cv sv r random48 : zlen random48 = 48 -> zlen (kex_spec cv sv r random48) = 48.
Proof.
  intros H. unfold kex_spec. destruct r as [pm|]; [|exact H].
  unfold wellformed_premaster. destruct (zlen pm =? 48) eqn:E; cbn [andb]; [|exact H].
  destruct (pairZ_eqb (version_of pm) cv || pairZ_eqb (version_of pm) sv); [lia|exact H].
Qed.

Lemma premaster_always_48_all dec rnd cv sv epms : zlen (rnd 48) = 48 ->
  exists pm, processClientKeyExchange dec rnd cv sv epms = Ok (Some pm) /\ zlen pm = 48 /\
             (wellformed_premaster cv sv (dec epms) = false -> pm = rnd 48) /\
             (wellformed_premaster cv sv (dec epms) = true -> dec epms = Some pm).
Proof.
  intros H. eexists. split; [apply kex_eq_spec_all|]. split; [apply kex_spec_48; exact H|].
  unfold kex_spec. destruct (dec epms) as [pm|]; split; intros W; try reflexivity; try discriminate;
    rewrite W; reflexivity.
Qed.

Lemma kex_malformed_random dec rnd cv sv epms :
  wellformed_premaster cv sv (dec epms) = false ->
  processClientKeyExchange dec rnd cv sv epms = Ok (Some (rnd 48)).
Proof.
  intros W. rewrite kex_eq_spec_all. unfold kex_spec. destruct (dec epms); [rewrite W|]; reflexivity.
Qed.

Section NI.
Variable rnd : Z -> list Z.
Variable master_of : list Z -> list Z -> list Z.
Variable unprotect : list Z -> list Z -> option (list Z).
Variable verify_data : list Z -> list Z -> list Z -> list Z.
Variable finished_body : list Z -> list Z.

(* (1) same wire bytes, two different secrets (keys / decryption results): if the encrypted
   premaster is malformed under both, the server's whole continuation is identical *)
Lemma ni_in_secret dec1 dec2 cv sv tb cke epms later :
  wellformed_premaster cv sv (dec1 epms) = false ->
  wellformed_premaster cv sv (dec2 epms) = false ->
  server_after_cke dec1 rnd master_of unprotect verify_data finished_body cv sv tb cke epms later =
  server_after_cke dec2 rnd master_of unprotect verify_data finished_body cv sv tb cke epms later.
Proof.
  intros W1 W2. unfold server_after_cke. rewrite !kex_malformed_random by assumption. reflexivity.
Qed.

(* (2) any malformed encrypted premaster: the continuation is that of the random premaster,
   a function of public data only (no dependence on the decrypted bytes or the defect) *)
Lemma ni_public dec cv sv tb cke epms later :
  wellformed_premaster cv sv (dec epms) = false ->
  server_after_cke dec rnd master_of unprotect verify_data finished_body cv sv tb cke epms later =
  tail master_of unprotect verify_data finished_body (rnd 48) (tb ++ cke) later.
Proof.
  intros W. unfold server_after_cke. rewrite kex_malformed_random by assumption. reflexivity.
Qed.

(* (3) two different malformed ClientKeyExchange messages followed by the same client
   records: if the client's Finished record does not authenticate under the keys derived
   from the server's random premaster (the attacker does not know it), the server emits
   the same single fatal alert at the same point in both runs *)
Lemma ni_two_messages dec cv sv tb cke1 epms1 cke2 epms2 fin rest :
  wellformed_premaster cv sv (dec epms1) = false ->
  wellformed_premaster cv sv (dec epms2) = false ->
  unprotect (master_of (rnd 48) (tb ++ cke1)) fin = None ->
  unprotect (master_of (rnd 48) (tb ++ cke2)) fin = None ->
  let run cke epms := server_after_cke dec rnd master_of unprotect verify_data finished_body
                        cv sv tb cke epms (RecCCS :: RecProtected fin :: rest) in
  run cke1 epms1 = run cke2 epms2 /\ run cke1 epms1 = [SendAlert 2 bad_record_mac].
Proof.
  intros W1 W2 U1 U2. cbv beta zeta. rewrite !ni_public by assumption.
  unfold tail. rewrite U1, U2. split; reflexivity.
Qed.

(* no crash whatever decrypt returns *)
Lemma server_no_crash dec cv sv tb cke epms later e :
  ~ In (Crash e) (server_after_cke dec rnd master_of unprotect verify_data finished_body cv sv tb cke epms later).
Proof.
  unfold server_after_cke. rewrite kex_eq_spec_all. unfold tail.
  destruct later as [|[| |] [|[| |] ?]]; cbn [In]; try (intros [H|H]; [discriminate|exact H]).
  - destruct (unprotect _ _).
    + destruct (list_eqb _ _); cbn [In]; intros H; repeat (destruct H as [H|H]; [discriminate|]); exact H.
    + cbn [In]; intros [H|H]; [discriminate|exact H].
Qed.
End NI.

Lemma server_choice_noninterference_all :
  forall rnd master_of unprotect verify_data finished_body,
  (forall dec1 dec2 cv sv tb cke epms later,
     wellformed_premaster cv sv (dec1 epms) = false ->
     wellformed_premaster cv sv (dec2 epms) = false ->
     server_after_cke dec1 rnd master_of unprotect verify_data finished_body cv sv tb cke epms later =
     server_after_cke dec2 rnd master_of unprotect verify_data finished_body cv sv tb cke epms later) /\
  (forall dec cv sv tb cke1 epms1 cke2 epms2 fin rest,
     wellformed_premaster cv sv (dec epms1) = false ->
     wellformed_premaster cv sv (dec epms2) = false ->
     unprotect (master_of (rnd 48) (tb ++ cke1)) fin = None ->
     unprotect (master_of (rnd 48) (tb ++ cke2)) fin = None ->
     let run cke epms := server_after_cke dec rnd master_of unprotect verify_data finished_body
                           cv sv tb cke epms (RecCCS :: RecProtected fin :: rest) in
     run cke1 epms1 = run cke2 epms2 /\ run cke1 epms1 = [SendAlert 2 bad_record_mac]) /\
  (forall dec cv sv tb cke epms later e,
     ~ In (Crash e) (server_after_cke dec rnd master_of unprotect verify_data finished_body cv sv tb cke epms later)).
Proof.
  intros rnd master_of unprotect verify_data finished_body. split; [|split].
  - exact (ni_in_secret rnd master_of unprotect verify_data finished_body).
  - exact (ni_two_messages rnd master_of unprotect verify_data finished_body).
  - exact (server_no_crash rnd master_of unprotect verify_data finished_body).
Qed.
