(* C04 -- concrete instances: the hypotheses are satisfiable, the flows complete, the
   refuted statement's witness. *)
From Coq Require Import ZArith List Bool Lia.
From TV Require Import Base.Prelude Model.C04_Tamper Model.C04_Toy Proofs.C04_Tamper Proofs.C04_Toy.
Import ListNotations.
Open Scope Z_scope.

Lemma unforgeable_of_check fin o : delivered_fins_emitted o = true -> unforgeable fin o.
Proof.
  unfold delivered_fins_emitted, unforgeable. intros H v k l d Hin _ _.
  rewrite forallb_forall in H. specialize (H _ Hin). cbn in H.
  apply existsb_exists in H. destruct H as [w [Hw E]]. apply zl_eqb_sound in E. subst w. exact Hw.
Qed.

Lemma both_of_done2 o : done2 o = (true, true) -> both_complete o.
Proof.
  unfold done2, both_complete. destruct (o_c o) as [c|]; destruct (o_s o) as [s|]; try discriminate.
  intros _. exists c, s. split; reflexivity.
Qed.

Lemma ex12_ok : both_complete (ex_run12 idf idf idf idf) /\ unforgeable toy_fin (ex_run12 idf idf idf idf) /\
  option_map (fun e => sh_tail (e_sh e)) (o_s (ex_run12 idf idf idf idf)) = Some 2.
Proof. split; [apply both_of_done2; vm_compute; reflexivity|split; [apply unforgeable_of_check; vm_compute; reflexivity|vm_compute; reflexivity]]. Qed.

Lemma ex12r_ok : both_complete (ex_run12r idf idf idf) /\ unforgeable toy_fin (ex_run12r idf idf idf) /\
  option_map (fun e => sh_tail (e_sh e)) (o_s (ex_run12r idf idf idf)) = Some 2.
Proof. split; [apply both_of_done2; vm_compute; reflexivity|split; [apply unforgeable_of_check; vm_compute; reflexivity|vm_compute; reflexivity]]. Qed.

Lemma ex13_ok : forall hrr, both_complete (ex_run13 hrr idf idf idf idf idf) /\ unforgeable toy_fin (ex_run13 hrr idf idf idf idf idf).
Proof. intros [|]; (split; [apply both_of_done2; vm_compute; reflexivity|apply unforgeable_of_check; vm_compute; reflexivity]). Qed.

(* a TLS-1.3 client whose hello is stripped of TLS 1.3 on the way to a TLS-1.3 server: the server answers
   TLS 1.2 with the sentinel, the client stops with illegal_parameter *)
Definition ex_run12_dg (a1 a2 a3 a4 : list msg -> list msg) : outcome :=
  run12 toy_hash toy_fin ex_prf ex_suite_ok 769 772 769 772 ex_ch13 (fun _ => true)
        (fun v c => Some (ex_sh12 v, [MOther 11 1; MOther 12 2; MOther 14 3]))
        (fun _ _ => true) (fun _ => [MOther 16 4]) (fun _ _ => true) (fun _ _ => true)
        (fun _ => []) (fun _ => 9) (fun _ => 9) a1 a2 a3 a4.

Lemma ex_downgrade_stopped : o_stage (ex_run12_dg strip13 idf idf idf) = (1, ALERT_ILLEGAL_PARAMETER).
Proof. vm_compute. reflexivity. Qed.

Lemma ex_fallback_hello :
  ch_suites (client_first_hello 771 1 2 [49199; 156] true (Some 300) []) = [255; 49199; 156; 22016] /\
  ch_sid (client_first_hello 771 1 2 [49199; 156] true (Some 300) []) = 300 /\
  sel_version 769 772 (client_first_hello 771 1 2 [49199; 156] true (Some 300) []) = SelOk 771.
Proof. vm_compute. repeat split; reflexivity. Qed.
