(* C10: RSASSA-PKCS1-v1_5 as implemented by rsakey.py: verification accepts exactly the
   canonical encoding(s); a signature made with a correct private operation verifies. *)
From Coq Require Import ZArith List Bool Lia String.
From TV Require Import Base.Prelude Gen.C10_Tables Model.C10_RsaMath Model.C10_RsaSig
     Proofs.C10_BytesP Proofs.C10_MathP.
Import ListNotations.
Open Scope Z_scope.

Lemma padding_is_canonical n data : addPKCS1Padding_sig n data = canonical_em (numBytes n) data.
Proof.
  unfold addPKCS1Padding_sig, canonical_em.
  replace (numBytes n - (zlen data + 3)) with (numBytes n - zlen data - 3) by lia. reflexivity.
Qed.

Lemma canonical_em_zlen k T : zlen (canonical_em k T) = Z.max (zlen T + 3) k.
Proof.
  unfold canonical_em. rewrite !zlen_app, zlen_repeat. change (zlen [0; 1]) with 2. change (zlen [0]) with 1. lia.
Qed.

Lemma canonical_em_bytes k T : all_bytes T = true -> all_bytes (canonical_em k T) = true.
Proof.
  intros H. unfold canonical_em. rewrite !all_bytes_app, H, all_bytes_repeat by reflexivity. reflexivity.
Qed.

Lemma raw_public_zlen n e sig c : 0 < n -> raw_public_key_op_bytes n e sig = Ok c -> zlen c = numBytes n /\ zlen sig = numBytes n /\ bytesToNumber sig < n.
Proof.
  intros Hn. unfold raw_public_key_op_bytes.
  destruct (zlen sig =? numBytes n) eqn:E1; cbn [negb]; [|discriminate].
  destruct (bytesToNumber sig >=? n) eqn:E2; [discriminate|].
  intros H. injection H as <-. apply Z.eqb_eq in E1.
  rewrite n2b_zlen by (pose proof (numBytes_pos n Hn); lia).
  repeat split; try assumption. rewrite Z.geb_leb in E2. apply Z.leb_gt in E2. exact E2.
Qed.

(* _raw_pkcs1_verify: accepts exactly when the padding string has room for 8 bytes and the
   public operation yields the canonical encoding *)
Lemma raw_pkcs1_verify_iff n e sig data :
  raw_pkcs1_verify n e sig data = true <->
  zlen data + 11 <= numBytes n /\
  raw_public_key_op_bytes n e sig = Ok (canonical_em (numBytes n) data).
Proof.
  unfold raw_pkcs1_verify. rewrite padding_is_canonical.
  destruct (raw_public_key_op_bytes n e sig) as [c|x].
  - destruct (numBytes n <? zlen data + 11) eqn:E.
    + apply Z.ltb_lt in E. split; [discriminate|intros [H _]; lia].
    + apply Z.ltb_ge in E. rewrite list_eqb_spec.
      split; [intros ->; auto|intros [_ H]; injection H; auto].
  - split; [discriminate|intros [_ H]; discriminate].
Qed.

(* the encoding of T for a k-byte modulus, when RFC 8017 9.2 allows one (|PS| >= 8) *)
Definition enc (k : Z) (T : list Z) : list (list Z) :=
  if k <? zlen T + 11 then [] else [canonical_em k T].

Lemma in_enc k T c : In c (enc k T) <-> zlen T + 11 <= k /\ c = canonical_em k T.
Proof.
  unfold enc. destruct (k <? zlen T + 11) eqn:E.
  - apply Z.ltb_lt in E. cbn [In]. split; [tauto|intros [H _]; lia].
  - apply Z.ltb_ge in E. cbn [In]. split; [intros [<-|[]]; auto|intros [_ ->]; auto].
Qed.

Lemma raw_verify_enc n e sig T :
  raw_pkcs1_verify n e sig T = true <->
  exists c, raw_public_key_op_bytes n e sig = Ok c /\ In c (enc (numBytes n) T).
Proof.
  rewrite raw_pkcs1_verify_iff. split.
  - intros [H1 H2]. eexists. split; [exact H2|]. apply in_enc. auto.
  - intros [c [Hc Hin]]. apply in_enc in Hin. destruct Hin as [H1 ->]. auto.
Qed.

(* the encodings verify() compares against, per hash name (None: TLS <= 1.1 raw MD5||SHA1) *)
Definition accepted_encodings (k : Z) (hashAlg : option string) (data : list Z) : list (list Z) :=
  match hashAlg with
  | None => enc k data
  | Some h =>
      match lookup_prefix pkcs1_prefixes h with
      | None => []
      | Some p =>
          if String.eqb h "sha1"
          then enc k (sha1_prefix_no_null ++ data) ++ enc k (p ++ data)
          else enc k (p ++ data)
      end
  end.

Lemma sha1_in_table : lookup_prefix pkcs1_prefixes "sha1" <> None.
Proof. vm_compute. discriminate. Qed.

Section V.
  Variable hash : list Z -> list Z.
  Variable hLen : Z.

  Theorem pkcs1_verify_iff n e sig data hashAlg sLen :
    rsa_verify hash hLen false n e sig data PadPkcs1 hashAlg sLen = Ok true <->
    exists c, raw_public_key_op_bytes n e sig = Ok c /\ In c (accepted_encodings (numBytes n) hashAlg data).
  Proof.
    unfold rsa_verify, accepted_encodings.
    destruct hashAlg as [h|].
    - destruct (String.eqb h "sha1") eqn:Eh.
      + apply String.eqb_eq in Eh. subst h. unfold addPKCS1SHA1Prefix.
        destruct (lookup_prefix pkcs1_prefixes "sha1") as [p|] eqn:Ep; [|exfalso; apply sha1_in_table; exact Ep].
        cbn [bind]. split.
        * intros H. injection H as H. apply orb_true_iff in H.
          destruct H as [H|H]; apply raw_verify_enc in H; destruct H as [c [Hc Hin]];
            exists c; (split; [exact Hc|]); apply in_or_app; auto.
        * intros [c [Hc Hin]]. f_equal. apply orb_true_iff. apply in_app_or in Hin.
          destruct Hin as [Hin|Hin]; [left|right]; apply raw_verify_enc; eauto.
      + unfold addPKCS1Prefix. destruct (lookup_prefix pkcs1_prefixes h) as [p|].
        * cbn [bind]. split.
          -- intros H. injection H as H. apply raw_verify_enc in H. exact H.
          -- intros H. f_equal. apply raw_verify_enc. exact H.
        * cbn [bind]. split; [discriminate|]. intros [c [_ []]].
    - split.
      + intros H. injection H as H. apply raw_verify_enc in H. exact H.
      + intros H. f_equal. apply raw_verify_enc. exact H.
  Qed.

  (* a PKCS#1 signature is never accepted for an rsa-pss key *)
  Lemma pkcs1_rejected_for_pss_key n e sig data hashAlg sLen :
    rsa_verify hash hLen true n e sig data PadPkcs1 hashAlg sLen = Ok false.
  Proof. reflexivity. Qed.

  (* verify never raises for a known hash and never accepts with an unknown one *)
  Lemma pkcs1_verify_total n e sig data hashAlg sLen :
    (exists b, rsa_verify hash hLen false n e sig data PadPkcs1 hashAlg sLen = Ok b) \/
    (exists h, hashAlg = Some h /\ lookup_prefix pkcs1_prefixes h = None /\
               rsa_verify hash hLen false n e sig data PadPkcs1 hashAlg sLen = Err AssertionError).
  Proof.
    unfold rsa_verify. destruct hashAlg as [h|]; [|left; eexists; reflexivity].
    destruct (String.eqb h "sha1") eqn:Eh.
    - apply String.eqb_eq in Eh. subst h. unfold addPKCS1SHA1Prefix.
      destruct (lookup_prefix pkcs1_prefixes "sha1") eqn:Ep; [|exfalso; apply sha1_in_table; exact Ep].
      left. eexists. reflexivity.
    - unfold addPKCS1Prefix. destruct (lookup_prefix pkcs1_prefixes h) eqn:Ep.
      + left. eexists. reflexivity.
      + right. exists h. auto.
  Qed.
End V.

(* ---- strictness: the accepted block is completely determined ---------------- *)
Lemma repeat_ff_split j j' X X' :
  repeat 255 j ++ [0] ++ X = repeat 255 j' ++ [0] ++ X' -> j = j' /\ X = X'.
Proof.
  revert j'. induction j as [|j IH]; intros [|j'] H; cbn [repeat app] in H.
  - injection H as H. auto.
  - discriminate.
  - discriminate.
  - injection H as H. destruct (IH j' H) as [-> ->]. auto.
Qed.

(* If the public operation yields ANY block of the shape 00 01 FF^j 00 X and it is accepted
   as canonical_em k T, then X = T and j = k - |T| - 3: no short padding, nothing after T. *)
Lemma em_parse_unique k T j X :
  [0; 1] ++ repeat 255 j ++ [0] ++ X = canonical_em k T ->
  X = T /\ j = Z.to_nat (k - zlen T - 3).
Proof.
  unfold canonical_em. intros H. cbn [app] in H. injection H as H.
  destruct (repeat_ff_split _ _ _ _ H) as [-> ->]. auto.
Qed.

Lemma canonical_em_inj k T T' : zlen T = zlen T' -> canonical_em k T = canonical_em k T' -> T = T'.
Proof.
  unfold canonical_em. intros Hl H. rewrite Hl in H. cbn [app] in H. injection H as H.
  apply app_inv_head in H. injection H; auto.
Qed.

(* ---- signing ------------------------------------------------------------------ *)
(* the block sign() encodes: DigestInfo prefix || data, or the bare data for hashAlg = None *)
Definition signed_block (hashAlg : option string) (data : list Z) : option (list Z) :=
  match hashAlg with
  | None => Some data
  | Some h => match lookup_prefix pkcs1_prefixes h with Some p => Some (p ++ data) | None => None end
  end.

Section Sign.
  Variables n e : Z.
  Variable priv : Z -> Z.
  Hypothesis Hn : 0 < n.
  (* what a correct private operation provides (established for the blinded CRT code in
     C10_MathP.raw_private_op_correct / rsa_priv_then_pub) *)
  Hypothesis Hpriv : forall x, 0 <= x < n -> 0 <= priv x < n /\ powmod (priv x) e n = x.

  Lemma canonical_em_lt_n T : all_bytes T = true -> zlen T + 3 <= numBytes n ->
    bytesToNumber (canonical_em (numBytes n) T) < n.
  Proof.
    intros HT Hlen. set (k := numBytes n) in *.
    unfold canonical_em. cbn [app]. rewrite b2n_cons. rewrite Z.mul_0_l, Z.add_0_l.
    set (rest := repeat 255 (Z.to_nat (k - zlen T - 3)) ++ 0 :: T).
    assert (Hrest : all_bytes rest = true).
    { unfold rest. rewrite all_bytes_app, all_bytes_repeat by reflexivity. cbn [all_bytes forallb andb]. exact HT. }
    assert (Lrest : zlen rest = k - 2).
    { unfold rest. rewrite zlen_app, zlen_repeat, zlen_cons. lia. }
    rewrite b2n_cons. pose proof (b2n_range rest Hrest) as R. rewrite Lrest in *.
    pose proof (numBytes_lower n Hn) as L. fold k in L. pose proof (zlen_nonneg T) as HT0.
    replace (k - 1) with (1 + (k - 2)) in L by lia. rewrite Z.pow_add_r in L by lia.
    change (256 ^ 1) with 256 in L. nia.
  Qed.

  Lemma raw_sign_verifies T :
    all_bytes T = true -> zlen T + 11 <= numBytes n ->
    exists sig, raw_pkcs1_sign n priv T = Ok sig /\ raw_pkcs1_verify n e sig T = true /\ zlen sig = numBytes n.
  Proof.
    intros HT Hlen11. assert (Hlen : zlen T + 3 <= numBytes n) by lia. pose proof (numBytes_pos n Hn) as Hk.
    unfold raw_pkcs1_sign.
    destruct (numBytes n <? zlen T + 11) eqn:EG; [apply Z.ltb_lt in EG; lia|].
    unfold raw_private_key_op_bytes. rewrite padding_is_canonical.
    rewrite canonical_em_zlen. replace (Z.max (zlen T + 3) (numBytes n)) with (numBytes n) by lia.
    rewrite Z.eqb_refl. cbn [negb].
    pose proof (canonical_em_lt_n T HT Hlen) as Hlt.
    pose proof (canonical_em_bytes (numBytes n) T HT) as Hb.
    pose proof (b2n_range _ Hb) as [H0 _].
    destruct (bytesToNumber (canonical_em (numBytes n) T) >=? n) eqn:E;
      [rewrite Z.geb_leb in E; apply Z.leb_le in E; lia|].
    eexists. split; [reflexivity|].
    destruct (Hpriv (bytesToNumber (canonical_em (numBytes n) T)) (conj H0 Hlt)) as [[P0 P1] P2].
    split; [|apply n2b_zlen; lia].
    apply raw_pkcs1_verify_iff. split; [exact Hlen11|]. unfold raw_public_key_op_bytes.
    rewrite n2b_zlen by lia. rewrite Z.eqb_refl. cbn [negb].
    pose proof (numBytes_upper n Hn) as Hu.
    rewrite b2n_n2b by lia.
    destruct (priv (bytesToNumber (canonical_em (numBytes n) T)) >=? n) eqn:E2;
      [rewrite Z.geb_leb in E2; apply Z.leb_le in E2; lia|].
    unfold raw_public_op. rewrite P2. f_equal. apply n2b_b2n; [exact Hb|].
    rewrite canonical_em_zlen. lia.
  Qed.

  (* RFC 8017 9.2 step 3: fewer than 8 bytes of padding would be needed: signing raises *)
  Lemma raw_sign_too_long T : numBytes n < zlen T + 11 -> raw_pkcs1_sign n priv T = Err ValueError.
  Proof.
    intros H. unfold raw_pkcs1_sign.
    destruct (numBytes n <? zlen T + 11) eqn:E; [reflexivity|apply Z.ltb_ge in E; lia].
  Qed.

  Variable hash : list Z -> list Z.
  Variable hLen : Z.

  Theorem pkcs1_sign_verifies_gen data hashAlg salt sLen T :
    all_bytes data = true -> signed_block hashAlg data = Some T -> zlen T + 11 <= numBytes n ->
    exists sig, rsa_sign hash hLen n priv data PadPkcs1 hashAlg salt = Ok sig /\
                rsa_verify hash hLen false n e sig data PadPkcs1 hashAlg sLen = Ok true.
  Proof.
    intros Hd HT HL. unfold rsa_sign. unfold signed_block in HT.
    destruct hashAlg as [h|].
    - unfold addPKCS1Prefix.
      destruct (lookup_prefix pkcs1_prefixes h) as [p|] eqn:Ep; [|discriminate].
      injection HT as <-. cbn [bind].
      assert (Hp : all_bytes p = true).
      { clear - Ep. revert Ep. unfold pkcs1_prefixes. cbn [lookup_prefix].
        repeat (destruct (String.eqb _ h); [intros E; injection E as <-; reflexivity|]). discriminate. }
      assert (HTb : all_bytes (p ++ data) = true) by (rewrite all_bytes_app, Hp, Hd; reflexivity).
      destruct (raw_sign_verifies (p ++ data) HTb HL) as [sig [Hs [Hv _]]].
      exists sig. split; [exact Hs|].
      apply (pkcs1_verify_iff hash hLen). apply raw_verify_enc in Hv. destruct Hv as [c [Hc Hin]].
      exists c. split; [exact Hc|]. unfold accepted_encodings. rewrite Ep.
      destruct (String.eqb h "sha1"); [apply in_or_app; right|]; exact Hin.
    - injection HT as <-. cbn [bind].
      destruct (raw_sign_verifies data Hd HL) as [sig [Hs [Hv _]]].
      exists sig. split; [exact Hs|].
      apply (pkcs1_verify_iff hash hLen). apply raw_verify_enc in Hv. exact Hv.
  Qed.

  (* and sign() never emits a block with a shorter padding string *)
  Lemma rsa_sign_ok_implies_room data hashAlg salt sig :
    rsa_sign hash hLen n priv data PadPkcs1 hashAlg salt = Ok sig ->
    exists T, signed_block hashAlg data = Some T /\ zlen T + 11 <= numBytes n.
  Proof.
    unfold rsa_sign, signed_block. destruct hashAlg as [h|].
    - unfold addPKCS1Prefix. destruct (lookup_prefix pkcs1_prefixes h) as [p|]; cbn [bind]; [|discriminate].
      intros H. exists (p ++ data). split; [reflexivity|].
      destruct (Z_lt_le_dec (numBytes n) (zlen (p ++ data) + 11)) as [L|L]; [|exact L].
      rewrite (raw_sign_too_long _ L) in H. discriminate.
    - cbn [bind]. intros H. exists data. split; [reflexivity|].
      destruct (Z_lt_le_dec (numBytes n) (zlen data + 11)) as [L|L]; [|exact L].
      rewrite (raw_sign_too_long _ L) in H. discriminate.
  Qed.
End Sign.

(* ---- the accepted block has exactly the canonical shape ---------------------- *)
Lemma pkcs1_accepted_block_shape hash hLen n e sig data h p sLen j X :
  String.eqb h "sha1" = false -> lookup_prefix pkcs1_prefixes h = Some p ->
  rsa_verify hash hLen false n e sig data PadPkcs1 (Some h) sLen = Ok true ->
  raw_public_key_op_bytes n e sig = Ok ([0; 1] ++ repeat 255 j ++ [0] ++ X) ->
  X = p ++ data /\ j = Z.to_nat (numBytes n - zlen X - 3).
Proof.
  intros Hh Hp Hv Hpub. apply pkcs1_verify_iff in Hv. destruct Hv as [c [Hc Hin]].
  rewrite Hpub in Hc. injection Hc as <-. unfold accepted_encodings in Hin. rewrite Hp, Hh in Hin.
  apply in_enc in Hin. destruct Hin as [_ Hin]. apply em_parse_unique in Hin. destruct Hin as [-> ->]. auto.
Qed.

(* any other block is rejected (wrong prefix, wrong hash, short or long padding, trailing bytes,
   wrong block type ...) *)
Lemma pkcs1_rejects_other_block hash hLen n e sig data hashAlg sLen c :
  raw_public_key_op_bytes n e sig = Ok c ->
  ~ In c (accepted_encodings (numBytes n) hashAlg data) ->
  rsa_verify hash hLen false n e sig data PadPkcs1 hashAlg sLen <> Ok true.
Proof.
  intros Hc Hn Hv. apply pkcs1_verify_iff in Hv. destruct Hv as [c' [Hc' Hin]].
  rewrite Hc in Hc'. injection Hc' as <-. contradiction.
Qed.

(* a signature of the wrong length (e.g. an extra leading zero byte) or not below the modulus *)
Lemma pkcs1_rejects_bad_length hash hLen n e sig data hashAlg sLen :
  (zlen sig <> numBytes n \/ n <= bytesToNumber sig) ->
  rsa_verify hash hLen false n e sig data PadPkcs1 hashAlg sLen <> Ok true.
Proof.
  intros H Hv. apply pkcs1_verify_iff in Hv. destruct Hv as [c [Hc _]].
  unfold raw_public_key_op_bytes in Hc.
  destruct (zlen sig =? numBytes n) eqn:E1; cbn [negb] in Hc; [|discriminate].
  destruct (bytesToNumber sig >=? n) eqn:E2; [discriminate|].
  apply Z.eqb_eq in E1. rewrite Z.geb_leb in E2. apply Z.leb_gt in E2. lia.
Qed.

(* under H-rsa-key a message has at most one signature per accepted encoding *)
Lemma pkcs1_signature_unique k (Hshape : crt_shape_ok k = true)
      (Hed : forall x, 0 <= x < rk_n k -> (x ^ rk_e k) ^ rk_d k mod rk_n k = x) s1 s2 c :
  all_bytes s1 = true -> all_bytes s2 = true ->
  raw_public_key_op_bytes (rk_n k) (rk_e k) s1 = Ok c ->
  raw_public_key_op_bytes (rk_n k) (rk_e k) s2 = Ok c -> s1 = s2.
Proof.
  intros B1 B2 H1 H2. pose proof (n_pos k Hshape) as Hn. assert (Hn0 : 0 < rk_n k) by lia.
  destruct (raw_public_zlen _ _ _ _ Hn0 H1) as [_ [L1 R1]].
  destruct (raw_public_zlen _ _ _ _ Hn0 H2) as [_ [L2 R2]].
  unfold raw_public_key_op_bytes in H1, H2. rewrite L1, L2, Z.eqb_refl in *. cbn [negb] in *.
  destruct (bytesToNumber s1 >=? rk_n k); [discriminate|]. destruct (bytesToNumber s2 >=? rk_n k); [discriminate|].
  injection H1 as H1. injection H2 as H2. rewrite <- H2 in H1. unfold raw_public_op in H1.
  pose proof (numBytes_upper (rk_n k) Hn0) as U. pose proof (numBytes_pos (rk_n k) Hn0) as P.
  destruct (shape_facts k Hshape) as (_ & _ & _ & _ & _ & _ & _ & He0).
  assert (E : powmod (bytesToNumber s1) (rk_e k) (rk_n k) = powmod (bytesToNumber s2) (rk_e k) (rk_n k)).
  { pose proof (powmod_range (bytesToNumber s1) (rk_e k) (rk_n k) Hn0 He0).
    pose proof (powmod_range (bytesToNumber s2) (rk_e k) (rk_n k) Hn0 He0).
    rewrite <- (b2n_n2b (powmod (bytesToNumber s1) (rk_e k) (rk_n k)) (numBytes (rk_n k))) by lia.
    rewrite H1. apply b2n_n2b; lia. }
  apply b2n_inj; try assumption; [lia|].
  apply (rsa_pub_injective k Hshape Hed); try assumption.
  - pose proof (b2n_range s1 B1). lia.
  - pose proof (b2n_range s2 B2). lia.
Qed.

(* ---- signing with the blinded CRT private operation -------------------------- *)
Section CrtSign.
  Variable k : rsa_priv.
  Hypothesis Hshape : crt_shape_ok k = true.
  Hypothesis Hed : forall x, 0 <= x < rk_n k -> (x ^ rk_e k) ^ rk_d k mod rk_n k = x.
  Hypothesis HdP : forall x, 0 <= x < rk_p k -> x ^ rk_dP k mod rk_p k = x ^ rk_d k mod rk_p k.
  Hypothesis HdQ : forall x, 0 <= x < rk_q k -> x ^ rk_dQ k mod rk_q k = x ^ rk_d k mod rk_q k.
  Variable b : blind.
  Hypothesis Hb : blind_inv k b.

  Definition crt_priv (m : Z) : Z := fst (raw_private_op k b m).

  Lemma crt_priv_ok : forall x, 0 <= x < rk_n k ->
    0 <= crt_priv x < rk_n k /\ powmod (crt_priv x) (rk_e k) (rk_n k) = x.
  Proof.
    intros x Hx. unfold crt_priv.
    destruct (raw_private_op_correct k Hshape Hed HdP HdQ b x Hb Hx) as [E _]. rewrite E.
    pose proof (n_pos k Hshape). split; [apply Z.mod_pos_bound; lia|].
    apply (rsa_priv_then_pub k Hshape Hed). exact Hx.
  Qed.

  Theorem pkcs1_sign_verifies_crt hash hLen data hashAlg salt sLen T :
    all_bytes data = true -> signed_block hashAlg data = Some T -> zlen T + 11 <= numBytes (rk_n k) ->
    exists sig, rsa_sign hash hLen (rk_n k) crt_priv data PadPkcs1 hashAlg salt = Ok sig /\
                rsa_verify hash hLen false (rk_n k) (rk_e k) sig data PadPkcs1 hashAlg sLen = Ok true.
  Proof.
    pose proof (n_pos k Hshape).
    apply pkcs1_sign_verifies_gen; [lia|exact crt_priv_ok].
  Qed.
End CrtSign.

(* ---- the padding string always has at least 8 bytes (RFC 8017 9.2) ----------------
   Before /repo 693c302 this was FALSE (theorem pkcs1_min_padding_refuted: with the 304-bit key
   below and an MD5 DigestInfo, sign() emitted and verify() accepted a block with ONE byte of
   padding).  Now every accepted block is an RFC 8017 encoding and sign() refuses otherwise. *)
Lemma accepted_is_rfc8017 k hashAlg data c :
  In c (accepted_encodings k hashAlg data) -> exists T, rfc8017_em k T = Some c.
Proof.
  assert (E : forall T, In c (enc k T) -> exists T, rfc8017_em k T = Some c).
  { intros T H. apply in_enc in H. destruct H as [H ->]. exists T. unfold rfc8017_em.
    destruct (k <? zlen T + 11) eqn:E; [apply Z.ltb_lt in E; lia|reflexivity]. }
  unfold accepted_encodings. destruct hashAlg as [h|]; [|apply E].
  destruct (lookup_prefix pkcs1_prefixes h) as [p|]; [|intros []].
  destruct (String.eqb h "sha1"); [|apply E].
  intros H. apply in_app_or in H. destruct H as [H|H]; eapply E; exact H.
Qed.

Lemma pkcs1_min_padding_holds :
  forall (hash : list Z -> list Z) hLen n e (priv : Z -> Z) sig data hashAlg sLen salt,
    (rsa_verify hash hLen false n e sig data PadPkcs1 hashAlg sLen = Ok true ->
     exists c T, raw_public_key_op_bytes n e sig = Ok c /\ rfc8017_em (numBytes n) T = Some c) /\
    (rsa_sign hash hLen n priv data PadPkcs1 hashAlg salt = Ok sig ->
     exists T, signed_block hashAlg data = Some T /\ zlen T + 11 <= numBytes n) /\
    (forall T, numBytes n < zlen T + 11 -> raw_pkcs1_sign n priv T = Err ValueError).
Proof.
  intros. split; [|split].
  - intros H. apply pkcs1_verify_iff in H. destruct H as [c [Hc Hin]].
    destruct (accepted_is_rfc8017 _ _ _ _ Hin) as [T HT]. eauto.
  - apply rsa_sign_ok_implies_room.
  - intros T. apply raw_sign_too_long.
Qed.

Definition small_key : rsa_priv :=
  {| rk_n := 25638404324901246760496983147100340690291781477598438344356687246102644127504076286653413581;
     rk_e := 65537;
     rk_d := 305335529175662955224802712152094479588213305999856375343447813764145868321429343267903791;
     rk_p := 5659302335800191498658776363438708154314788647;
     rk_q := 4530311830614741268698412578695073616325030123;
     rk_dP := 465441500068099427464955744067238917737411093;
     rk_dQ := 3939007874085170235351658513080876144453502471;
     rk_qInv := 4409193426150039511113837341851114542028539939 |}.
Definition small_digest : list Z := [1; 2; 3; 4; 5; 6; 7; 8; 9; 10; 11; 12; 13; 14; 15; 16].
Definition plain_priv (k : rsa_priv) (m : Z) : Z := powmod m (rk_d k) (rk_n k).

(* the former witness: 304-bit modulus (38 bytes), MD5 DigestInfo (34 bytes): now refused *)
Lemma small_key_now_refused :
  rsa_sign (fun x => x) 0 (rk_n small_key) (plain_priv small_key) small_digest PadPkcs1 (Some "md5"%string) [] = Err ValueError.
Proof. vm_compute. reflexivity. Qed.

Lemma pkcs1_rejects_all :
  forall (hash : list Z -> list Z) hLen n e sig data hashAlg sLen,
    (forall c, raw_public_key_op_bytes n e sig = Ok c ->
               ~ In c (accepted_encodings (numBytes n) hashAlg data) ->
               rsa_verify hash hLen false n e sig data PadPkcs1 hashAlg sLen <> Ok true) /\
    ((zlen sig <> numBytes n \/ n <= bytesToNumber sig) ->
     rsa_verify hash hLen false n e sig data PadPkcs1 hashAlg sLen <> Ok true) /\
    rsa_verify hash hLen true n e sig data PadPkcs1 hashAlg sLen = Ok false.
Proof.
  intros. split; [|split].
  - intros c. exact (pkcs1_rejects_other_block hash hLen n e sig data hashAlg sLen c).
  - exact (pkcs1_rejects_bad_length hash hLen n e sig data hashAlg sLen).
  - exact (pkcs1_rejected_for_pss_key hash hLen n e sig data hashAlg sLen).
Qed.
