(* C20 lemmas: every check of Model/C20_Classify.v is decided on the finite domain
   all_suites x all_versions by vm_compute and lifted to a quantified statement. *)
From Coq Require Import ZArith List Bool String Lia.
From TV Require Import Gen.Suites Spec.Iana Model.C20_Classify.
Import ListNotations.
Open Scope string_scope.
Open Scope Z_scope.

Lemma in_pairs s v : In s all_suites -> In v all_versions -> In (s, v) pairs.
Proof. intros Hs Hv. unfold pairs. apply in_prod; assumption. Qed.

Lemma forall_negotiable_spec f :
  forall_negotiable f = true ->
  forall s v, In s all_suites -> In v all_versions -> negotiable s v = true -> f s v = true.
Proof.
  unfold forall_negotiable. intros H s v Hs Hv Hn.
  rewrite forallb_forall in H. specialize (H (s, v) (in_pairs s v Hs Hv)).
  cbn [fst snd] in H. rewrite Hn in H. exact H.
Qed.

(* ---- the decided facts -------------------------------------------------------------- *)
Lemma wf_true : tables_wf = true /\ semantics_cover = true.
Proof. split; vm_compute; reflexivity. Qed.

Lemma classification_all : forall_negotiable chk_classification = true.
Proof. vm_compute. reflexivity. Qed.

Lemma dispatch_all : forall_negotiable (fun s _ => chk_dispatch s) = true.
Proof. vm_compute. reflexivity. Qed.

Lemma cipher_accessor_all : forall_negotiable (fun s _ => chk_cipher_accessor s) = true.
Proof. vm_compute. reflexivity. Qed.

Lemma version_all : forall_negotiable chk_version = true.
Proof. vm_compute. reflexivity. Qed.

Lemma ffv_all : forallb (fun p => chk_ffv (fst p) (snd p)) pairs = true.
Proof. vm_compute. reflexivity. Qed.

Lemma cipher_words_all : forall_negotiable chk_cipher_words = true.
Proof. vm_compute. reflexivity. Qed.

Lemma kx_words_all : forall_negotiable chk_kx_words = true.
Proof. vm_compute. reflexivity. Qed.

(* Before /repo commit "fix: AEAD suites 0x00A3/0x00A5 must not be listed as HMAC-SHA384 suites"
   the four statements below were false exactly at suite 163 = 0x00A3
   TLS_DHE_DSS_WITH_AES_256_GCM_SHA384, v = 3 (it was in sha384Suites and in aeadSuites); the
   development then carried mac_classification_refuted (witness 163, 3) and a _partial form
   excluding 163.  On the repaired tree they hold without exception. *)
Lemma mac_accessor_all : forall_negotiable (fun s _ => chk_mac_accessor s) = true.
Proof. vm_compute. reflexivity. Qed.
Lemma lists_all : forall_negotiable (fun s _ => chk_lists s) = true.
Proof. vm_compute. reflexivity. Qed.
Lemma mac_words_all : forall_negotiable chk_mac_words = true.
Proof. vm_compute. reflexivity. Qed.
Lemma partition_all : forall_negotiable (fun s _ => chk_partition s) = true.
Proof. vm_compute. reflexivity. Qed.

(* ---- lifted forms ---------------------------------------------------------------------- *)
Definition dom (s v : Z) : Prop := In s all_suites /\ In v all_versions /\ negotiable s v = true.

Lemma classification_lifted : forall s v, dom s v ->
  exists m r, meaning_of s = Some m /\ row_of s = Some r /\
    cipher_settings_ok m r = true /\ mac_settings_ok m r = true /\ prf_ok m r v = true /\
    labels_ok m r v = true /\ exporter_ok m r v = true /\ deprecated_ok m r v = true /\
    keyupdate_ok m r v = true /\ psk_ok m r v = true /\ cert_ok m r = true /\ chk_dispatch s = true.
Proof.
  intros s v [Hs [Hv Hn]].
  pose proof (forall_negotiable_spec _ classification_all s v Hs Hv Hn) as H.
  pose proof (forall_negotiable_spec _ dispatch_all s v Hs Hv Hn) as HD. cbn beta in HD.
  unfold chk_classification in H.
  destruct (meaning_of s) as [m|]; [|discriminate].
  destruct (row_of s) as [r|]; [|discriminate].
  repeat (let X := fresh "X" in apply andb_true_iff in H; destruct H as [H X]).
  exists m, r. repeat split; assumption.
Qed.

Lemma version_lifted : forall s v, dom s v ->
  exists m, meaning_of s = Some m /\ m_minv m <= v <= m_maxv m.
Proof.
  intros s v [Hs [Hv Hn]].
  pose proof (forall_negotiable_spec _ version_all s v Hs Hv Hn) as H.
  unfold chk_version in H. destruct (meaning_of s) as [m|]; [|discriminate].
  exists m. split; [reflexivity|].
  unfold defined_in in H. apply andb_true_iff in H. destruct H as [H1 H2].
  apply Z.leb_le in H1. apply Z.leb_le in H2. lia.
Qed.

Lemma ffv_lifted : forall s v, In s all_suites -> In v all_versions -> chk_ffv s v = true.
Proof.
  intros s v Hs Hv. pose proof ffv_all as H. rewrite forallb_forall in H.
  exact (H (s, v) (in_pairs s v Hs Hv)).
Qed.

Lemma version_classes_all : forall_negotiable chk_version_classes = true.
Proof. vm_compute. reflexivity. Qed.

(* ---- statements exported by Props/C20.v ---------------------------------------------------- *)
Lemma L_never_in_undefined_version : forall s v,
  In s all_suites -> In v all_versions -> negotiable s v = true ->
  (exists m, meaning_of s = Some m /\ m_minv m <= v <= m_maxv m) /\ chk_version_classes s v = true.
Proof.
  intros s v Hs Hv Hn. split.
  - apply version_lifted. repeat split; assumption.
  - exact (forall_negotiable_spec _ version_classes_all s v Hs Hv Hn).
Qed.

Lemma L_settings_words : forall s v,
  In s all_suites -> In v all_versions -> negotiable s v = true ->
  chk_cipher_words s v = true /\ chk_mac_words s v = true /\ chk_kx_words s v = true.
Proof.
  intros s v Hs Hv Hn. repeat split.
  - exact (forall_negotiable_spec _ cipher_words_all s v Hs Hv Hn).
  - exact (forall_negotiable_spec _ mac_words_all s v Hs Hv Hn).
  - exact (forall_negotiable_spec _ kx_words_all s v Hs Hv Hn).
Qed.

Lemma L_accessors : forall s v,
  In s all_suites -> In v all_versions -> negotiable s v = true ->
  chk_cipher_accessor s = true /\ chk_mac_accessor s = true.
Proof.
  intros s v Hs Hv Hn. split.
  - exact (forall_negotiable_spec _ cipher_accessor_all s v Hs Hv Hn).
  - exact (forall_negotiable_spec _ mac_accessor_all s v Hs Hv Hn).
Qed.

Lemma L_lists : forall s v,
  In s all_suites -> In v all_versions -> negotiable s v = true -> chk_lists s = true.
Proof. intros s v Hs Hv Hn. exact (forall_negotiable_spec _ lists_all s v Hs Hv Hn). Qed.

Lemma L_partition : forall s v,
  In s all_suites -> In v all_versions -> negotiable s v = true -> chk_partition s = true.
Proof. intros s v Hs Hv Hn. exact (forall_negotiable_spec _ partition_all s v Hs Hv Hn). Qed.

Lemma L_classification : forall s v,
  In s all_suites -> In v all_versions -> negotiable s v = true ->
  exists m r, meaning_of s = Some m /\ row_of s = Some r /\
    cipher_settings_ok m r = true /\ mac_settings_ok m r = true /\ prf_ok m r v = true /\
    labels_ok m r v = true /\ exporter_ok m r v = true /\ deprecated_ok m r v = true /\
    keyupdate_ok m r v = true /\ psk_ok m r v = true /\ cert_ok m r = true /\ chk_dispatch s = true.
Proof. intros s v A B C. apply classification_lifted. repeat split; assumption. Qed.

Lemma L_example : In 49199 all_suites /\ In 3 all_versions /\ negotiable 49199 3 = true.
Proof. split; [|split]; vm_compute; auto 200. Qed.

(* beyond the property: a known id whose static classification deviates from its name
   (Model/C20_Classify.v chk_static: record-layer settings, accessors, membership in every list the
   record layer / key derivation / version filter consult) can never be negotiated *)
Lemma static_defects_all :
  forallb (fun s => forallb (fun v => negb (negotiable s v)) all_versions) static_defects = true.
Proof. vm_compute. reflexivity. Qed.

Lemma L_static_defects : forall s v,
  In s all_suites -> In v all_versions -> chk_static s = false -> negotiable s v = false.
Proof.
  intros s v Hs Hv Hc. pose proof static_defects_all as H. rewrite forallb_forall in H.
  assert (Hin : In s static_defects).
  { unfold static_defects. apply filter_In. split; [exact Hs|]. rewrite Hc. reflexivity. }
  specialize (H s Hin). rewrite forallb_forall in H. specialize (H v Hv).
  apply negb_true_iff in H. exact H.
Qed.

Lemma suite_sources_ok : chk_suite_sources = true.
Proof. vm_compute. reflexivity. Qed.
