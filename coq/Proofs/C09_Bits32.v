(* Bit-level lemmas for 32-bit words: the mask-and-shift rotation used by
   tlslite/utils/chacha.py equals the rotation defined bit by bit in Spec/C09_ChaCha.v. *)
From Coq Require Import ZArith List Bool Lia.
From TV Require Import Base.Prelude Base.C09_Lib Spec.C09_ChaCha.
Import ListNotations.
Open Scope Z_scope.

Definition u32 (x : Z) : Prop := 0 <= x < 4294967296.

Lemma nth_map_zrange {A} (f : Z -> A) a b i d :
  0 <= i < b - a -> nth (Z.to_nat i) (map f (zrange a b)) d = f (a + i).
Proof.
  intros H. unfold zrange. rewrite map_map.
  rewrite nth_indep with (d' := f (a + Z.of_nat 0)) by (rewrite map_length, seq_length; lia).
  rewrite (map_nth (fun k => f (a + Z.of_nat k)) (seq 0 (Z.to_nat (b - a))) 0%nat).
  rewrite seq_nth by lia. f_equal. lia.
Qed.

Lemma testbit_bits_to_Z l : forall i, 0 <= i -> Z.testbit (bits_to_Z l) i = nth (Z.to_nat i) l false.
Proof.
  induction l as [|b l IH]; intros i Hi; cbn [bits_to_Z].
  - rewrite Z.bits_0. destruct (Z.to_nat i); reflexivity.
  - rewrite Z.add_comm.
    destruct (Z.eq_dec i 0) as [->|Hne].
    + rewrite Z.testbit_0_r. reflexivity.
    + replace i with (Z.succ (i - 1)) by lia.
      rewrite Z.testbit_succ_r by lia. rewrite IH by lia.
      replace (Z.to_nat (Z.succ (i - 1))) with (S (Z.to_nat (i - 1))) by lia. reflexivity.
Qed.

Lemma bits_to_Z_range l : 0 <= bits_to_Z l < 2 ^ Z.of_nat (length l).
Proof.
  induction l as [|b l IH]; cbn [bits_to_Z length].
  - cbn. lia.
  - rewrite Nat2Z.inj_succ, Z.pow_succ_r by lia. destruct b; cbn [Z.b2z]; lia.
Qed.

Lemma rotl32_u32 x n : u32 (rotl32 x n).
Proof.
  unfold rotl32, u32. pose proof (bits_to_Z_range (map (fun i => Z.testbit x ((i - n) mod 32)) (zrange 0 32))) as H.
  rewrite map_length, zrange_length in H. exact H.
Qed.

Lemma u32_high_bits x i : u32 x -> 32 <= i -> Z.testbit x i = false.
Proof.
  intros [H0 H1] Hi. rewrite <- (Z.mod_small x (2 ^ 32)) by (change (2 ^ 32) with 4294967296; lia).
  apply Z.mod_pow2_bits_high. lia.
Qed.

Lemma rotl32_testbit x n i : 0 <= i ->
  Z.testbit (rotl32 x n) i = if i <? 32 then Z.testbit x ((i - n) mod 32) else false.
Proof.
  intros Hi. unfold rotl32. rewrite testbit_bits_to_Z by lia.
  destruct (i <? 32) eqn:E.
  - rewrite nth_map_zrange by lia. reflexivity.
  - apply nth_overflow. rewrite map_length, zrange_length. lia.
Qed.

(* ((x << n) & 0xffffffff) | (x >> (32 - n)) is the n-bit left rotation *)
Lemma rot_mask_shift x n : u32 x -> 0 < n < 32 ->
  Z.lor (Z.land (Z.shiftl x n) 4294967295) (Z.shiftr x (32 - n)) = rotl32 x n.
Proof.
  intros Hx Hn. apply Z.bits_inj'. intros i Hi.
  rewrite rotl32_testbit by lia.
  rewrite Z.lor_spec, Z.land_spec, Z.shiftl_spec, Z.shiftr_spec by lia.
  change 4294967295 with (Z.ones 32).
  destruct (i <? 32) eqn:E.
  - rewrite Z.ones_spec_low by lia. rewrite andb_true_r.
    destruct (Z_lt_le_dec i n) as [L|L].
    + rewrite (Z.testbit_neg_r x (i - n)) by lia. cbn [orb].
      f_equal. apply Z.mod_unique with (q := -1); lia.
    + rewrite (u32_high_bits x (i + (32 - n))) by (assumption || lia). rewrite orb_false_r.
      f_equal. symmetry. apply Z.mod_small. lia.
  - rewrite Z.ones_spec_high by lia. rewrite andb_false_r. cbn [orb].
    apply u32_high_bits; [assumption|lia].
Qed.

Lemma rot_mask_shift' x n m : u32 x -> 0 < n < 32 -> m = 32 - n ->
  Z.lor (Z.land (Z.shiftl x n) 4294967295) (Z.shiftr x m) = rotl32 x n.
Proof. intros Hx Hn ->. apply rot_mask_shift; assumption. Qed.

Lemma land_mask32 x : Z.land x 4294967295 = x mod 4294967296.
Proof. change 4294967295 with (Z.ones 32). rewrite Z.land_ones by lia. reflexivity. Qed.

Lemma add32_u32 a b : u32 (add32 a b).
Proof. unfold add32, u32, W32. apply Z.mod_pos_bound. reflexivity. Qed.

Lemma lxor_u32 a b : u32 a -> u32 b -> u32 (Z.lxor a b).
Proof.
  intros Ha Hb. unfold u32 in *.
  split.
  - apply Z.lxor_nonneg. lia.
  - destruct (Z.eq_dec (Z.lxor a b) 0) as [->|Hne]; [lia|].
    assert (Hp : 0 < Z.lxor a b) by (pose proof (proj2 (Z.lxor_nonneg a b)); lia).
    change 4294967296 with (2 ^ 32). apply Z.log2_lt_pow2; [exact Hp|].
    eapply Z.le_lt_trans; [apply Z.log2_lxor; lia|].
    apply Z.max_lub_lt.
    + destruct (Z.eq_dec a 0) as [->|]; [cbn; lia|]. apply Z.log2_lt_pow2; [lia|]. change (2 ^ 32) with 4294967296. lia.
    + destruct (Z.eq_dec b 0) as [->|]; [cbn; lia|]. apply Z.log2_lt_pow2; [lia|]. change (2 ^ 32) with 4294967296. lia.
Qed.

Lemma add32_land a b : Z.land (a + b) 4294967295 = add32 a b.
Proof. rewrite land_mask32. reflexivity. Qed.

Ltac u32tac := repeat (first [assumption | apply lxor_u32 | apply add32_u32 | apply rotl32_u32]).
