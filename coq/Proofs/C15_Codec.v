(* C15 -- lemmas about the codec primitives (Model/C15_Codec.v). *)
From Coq Require Import ZArith List Bool Lia.
From TV Require Import Base.Prelude Model.C15_Codec.
Import ListNotations.
Open Scope Z_scope.

(* ---- bytes ------------------------------------------------------------------ *)
Definition bytes (l : list Z) : Prop := Forall (fun x => 0 <= x < 256) l.

Lemma all_bytes_iff l : all_bytes l = true <-> bytes l.
Proof.
  unfold all_bytes, bytes. rewrite forallb_forall, Forall_forall.
  split; intros H x Hx; specialize (H x Hx); unfold is_byte in *; lia.
Qed.

Lemma bytes_app a b : bytes (a ++ b) <-> bytes a /\ bytes b.
Proof. unfold bytes. apply Forall_app. Qed.

Lemma bytes_firstn n l : bytes l -> bytes (firstn n l).
Proof. intros H. rewrite <- (firstn_skipn n l) in H. apply bytes_app in H. tauto. Qed.

Lemma bytes_skipn n l : bytes l -> bytes (skipn n l).
Proof. intros H. rewrite <- (firstn_skipn n l) in H. apply bytes_app in H. tauto. Qed.

Lemma zlen_app {A} (a b : list A) : zlen (a ++ b) = zlen a + zlen b.
Proof. unfold zlen. rewrite app_length. lia. Qed.

Lemma zlen_nonneg {A} (a : list A) : 0 <= zlen a.
Proof. unfold zlen. lia. Qed.

(* ---- big-endian -------------------------------------------------------------- *)
Lemma be_bytes_length n x : length (be_bytes n x) = n.
Proof.
  revert x. induction n as [|n IH]; intros x; cbn [be_bytes]; [reflexivity|].
  rewrite app_length, IH. cbn [length]. lia.
Qed.

Lemma be_bytes_bytes n x : bytes (be_bytes n x).
Proof.
  revert x. induction n as [|n IH]; intros x; cbn [be_bytes]; [constructor|].
  apply bytes_app. split; [apply IH|]. constructor; [|constructor].
  apply Z.mod_pos_bound. lia.
Qed.

Lemma be_val_snoc l b : be_val (l ++ [b]) = be_val l * 256 + b.
Proof. unfold be_val. rewrite fold_left_app. reflexivity. Qed.

Lemma be_val_nil : be_val [] = 0.
Proof. reflexivity. Qed.

Lemma pow256_S n : 256 ^ Z.of_nat (S n) = 256 * 256 ^ Z.of_nat n.
Proof. rewrite Nat2Z.inj_succ, Z.pow_succ_r by lia. reflexivity. Qed.

Lemma pow256_pos n : 0 <= n -> 0 < 256 ^ n.
Proof. intros H. apply Z.pow_pos_nonneg; lia. Qed.

Lemma be_val_be_bytes n x : 0 <= x < 256 ^ Z.of_nat n -> be_val (be_bytes n x) = x.
Proof.
  revert x. induction n as [|n IH]; intros x H.
  - cbn in H. cbn [be_bytes]. rewrite be_val_nil. lia.
  - cbn [be_bytes]. rewrite be_val_snoc. rewrite pow256_S in H.
    rewrite IH.
    + pose proof (Z.div_mod x 256). lia.
    + split; [apply Z.div_pos; lia|]. apply Z.div_lt_upper_bound; lia.
Qed.

Lemma be_val_bound l : bytes l -> 0 <= be_val l < 256 ^ Z.of_nat (length l).
Proof.
  induction l as [|b l IH] using rev_ind; intros H.
  - rewrite be_val_nil. cbn. lia.
  - apply bytes_app in H. destruct H as [Hl Hb]. inversion Hb as [|? ? Hb1 _]; subst.
    rewrite be_val_snoc, app_length. cbn [length].
    replace (length l + 1)%nat with (S (length l)) by lia. rewrite pow256_S.
    specialize (IH Hl). lia.
Qed.

Lemma be_bytes_be_val l : bytes l -> be_bytes (length l) (be_val l) = l.
Proof.
  induction l as [|b l IH] using rev_ind; intros H.
  - reflexivity.
  - apply bytes_app in H. destruct H as [Hl Hb]. inversion Hb as [|? ? Hb1 _]; subst.
    rewrite be_val_snoc, app_length. cbn [length].
    replace (length l + 1)%nat with (S (length l)) by lia. cbn [be_bytes].
    replace ((be_val l * 256 + b) / 256) with (be_val l)
      by (apply (Z.div_unique_pos _ 256 _ b); lia).
    replace ((be_val l * 256 + b) mod 256) with b
      by (apply (Z.mod_unique_pos _ 256 (be_val l) b); lia).
    rewrite IH by exact Hl. reflexivity.
Qed.

(* ---- Writer ------------------------------------------------------------------ *)
Lemma fits_iff x n : fits x n = true <-> 0 <= n /\ 0 <= x < 256 ^ n.
Proof. unfold fits. rewrite !andb_true_iff. lia. Qed.

(* a value is written in full or not at all: never wrapped or truncated *)
Lemma w_add_ok w x n w' :
  w_add w x n = Ok w' <-> (0 <= n /\ 0 <= x < 256 ^ n) /\ w' = w ++ be_bytes (Z.to_nat n) x.
Proof.
  unfold w_add. destruct (fits x n) eqn:E.
  - apply fits_iff in E. split.
    + intros H. injection H as <-. auto.
    + intros [_ ->]. reflexivity.
  - split; [discriminate|]. intros [H _]. apply fits_iff in H. congruence.
Qed.

Lemma w_add_overflow w x n : ~ (0 <= n /\ 0 <= x < 256 ^ n) -> w_add w x n = Err ValueError.
Proof.
  intros H. unfold w_add. destruct (fits x n) eqn:E; [|reflexivity].
  apply fits_iff in E. contradiction.
Qed.

Lemma w_add_var_bytes_ok w d ll w' :
  w_add_var_bytes w d ll = Ok w' <->
  (0 <= ll /\ zlen d < 256 ^ ll) /\ w' = w ++ be_bytes (Z.to_nat ll) (zlen d) ++ d.
Proof.
  unfold w_add_var_bytes. destruct (w_add w (zlen d) ll) as [w1|e] eqn:E; cbn [bind].
  - apply w_add_ok in E. destruct E as [[H1 H2] ->]. split.
    + intros H. injection H as <-. rewrite <- app_assoc. split; [lia|reflexivity].
    + intros [_ ->]. rewrite <- app_assoc. reflexivity.
  - split; [discriminate|]. intros [[H1 H2] _].
    pose proof (zlen_nonneg d).
    assert (w_add w (zlen d) ll = Ok (w ++ be_bytes (Z.to_nat ll) (zlen d))) as K
      by (apply w_add_ok; split; [lia|reflexivity]).
    congruence.
Qed.

Lemma w_add_var_bytes_overflow w d ll : 256 ^ ll <= zlen d -> w_add_var_bytes w d ll = Err ValueError.
Proof.
  intros H. unfold w_add_var_bytes. rewrite w_add_overflow; [reflexivity|]. lia.
Qed.

(* ---- Parser ------------------------------------------------------------------ *)
Lemma firstn_skipn_app {A} (a b : list A) : firstn (length a) (a ++ b) = a /\ skipn (length a) (a ++ b) = b.
Proof.
  split.
  - rewrite firstn_app, Nat.sub_diag, firstn_all. cbn. apply app_nil_r.
  - rewrite skipn_app, Nat.sub_diag, skipn_all. reflexivity.
Qed.

Lemma clamp_bound_id n b : 0 <= b <= n -> clamp_bound n b = b.
Proof.
  intros H. unfold clamp_bound.
  destruct (b <? 0) eqn:E1; [lia|]. destruct (b <? 0) eqn:E2; [lia|].
  destruct (n <? b) eqn:E3; [lia|]. reflexivity.
Qed.

Lemma py_slice_mid {A} (a b c : list A) :
  py_slice (a ++ b ++ c) (Some (zlen a)) (Some (zlen a + zlen b)) = b.
Proof.
  pose proof (zlen_nonneg a). pose proof (zlen_nonneg b). pose proof (zlen_nonneg c).
  unfold py_slice. rewrite !clamp_bound_id by (rewrite !zlen_app; lia).
  destruct (zlen a + zlen b <=? zlen a) eqn:E5.
  - assert (zlen b = 0) as Hb by lia. unfold zlen in Hb. destruct b; [reflexivity|cbn in Hb; lia].
  - unfold zlen. rewrite Nat2Z.id.
    replace (Z.to_nat (Z.of_nat (length a) + Z.of_nat (length b) - Z.of_nat (length a))) with (length b) by lia.
    destruct (firstn_skipn_app a (b ++ c)) as [_ ->].
    destruct (firstn_skipn_app b c) as [-> _]. reflexivity.
Qed.

(* the parser positioned after [a], with [b] next *)
Definition at_pos (a rest : list Z) (ic lc : Z) : Parser := mkParser (a ++ rest) (zlen a) ic lc.

Lemma getFixBytes_app a b c ic lc :
  p_getFixBytes (at_pos a (b ++ c) ic lc) (zlen b)
  = Ok (b, mkParser (a ++ b ++ c) (zlen a + zlen b) ic lc).
Proof.
  unfold p_getFixBytes, at_pos, p_set_index. cbn [pbytes pindex pindexCheck plengthCheck].
  rewrite !zlen_app. pose proof (zlen_nonneg c).
  destruct (zlen a + zlen b >? zlen a + (zlen b + zlen c)) eqn:E; [lia|].
  rewrite py_slice_mid. reflexivity.
Qed.

Lemma getFixBytes_short a r ic lc n :
  zlen r < n -> p_getFixBytes (at_pos a r ic lc) n = Err DecodeError.
Proof.
  intros H. unfold p_getFixBytes, at_pos. cbn [pbytes pindex]. rewrite zlen_app.
  destruct (zlen a + n >? zlen a + zlen r) eqn:E; [reflexivity|lia].
Qed.

(* Parser.get reads back exactly what Writer.add wrote, and advances by n *)
Lemma get_add_pos a x n w c ic lc :
  w_add a x n = Ok w ->
  p_get (at_pos a (skipn (length a) w ++ c) ic lc) n
  = Ok (x, mkParser (w ++ c) (zlen a + n) ic lc).
Proof.
  intros H. apply w_add_ok in H. destruct H as [[Hn Hx] ->].
  destruct (firstn_skipn_app a (be_bytes (Z.to_nat n) x)) as [_ ->].
  unfold p_get.
  assert (zlen (be_bytes (Z.to_nat n) x) = n) as L by (unfold zlen; rewrite be_bytes_length; lia).
  pose proof (getFixBytes_app a (be_bytes (Z.to_nat n) x) c ic lc) as G.
  rewrite L in G. rewrite G. cbn [bind].
  rewrite be_val_be_bytes by (rewrite Z2Nat.id; lia).
  rewrite <- app_assoc. reflexivity.
Qed.

Lemma get_add a x n w c :
  w_add a x n = Ok w ->
  exists p', p_get (mkParser (w ++ c) (zlen a) 0 0) n = Ok (x, p') /\ pindex p' = zlen w /\ pbytes p' = w ++ c.
Proof.
  intros H. pose proof (get_add_pos a x n w c 0 0 H) as G.
  pose proof H as H'. apply w_add_ok in H'. destruct H' as [[Hn Hx] Hw].
  assert (a ++ skipn (length a) w = w) as EQ.
  { rewrite Hw. destruct (firstn_skipn_app a (be_bytes (Z.to_nat n) x)) as [_ ->]. reflexivity. }
  unfold at_pos in G. rewrite app_assoc, EQ in G.
  eexists. split; [exact G|]. cbn [pindex pbytes]. split; [|reflexivity].
  rewrite Hw, zlen_app. unfold zlen at 3. rewrite be_bytes_length. lia.
Qed.

(* Parser.getVarBytes reads back exactly what Writer.add_var_bytes wrote *)
Lemma getVarBytes_addVarBytes a d ll w c :
  w_add_var_bytes a d ll = Ok w ->
  exists p', p_getVarBytes (mkParser (w ++ c) (zlen a) 0 0) ll = Ok (d, p')
             /\ pindex p' = zlen w /\ pbytes p' = w ++ c.
Proof.
  intros H. apply w_add_var_bytes_ok in H. destruct H as [[Hl Hd] ->].
  pose proof (zlen_nonneg d) as Hd0.
  assert (w_add a (zlen d) ll = Ok (a ++ be_bytes (Z.to_nat ll) (zlen d))) as Wa
    by (apply w_add_ok; split; [lia|reflexivity]).
  pose proof (get_add_pos a (zlen d) ll _ (d ++ c) 0 0 Wa) as G.
  destruct (firstn_skipn_app a (be_bytes (Z.to_nat ll) (zlen d))) as [_ S]. rewrite S in G.
  unfold at_pos in G.
  unfold p_getVarBytes.
  replace ((a ++ be_bytes (Z.to_nat ll) (zlen d) ++ d) ++ c)
    with (a ++ be_bytes (Z.to_nat ll) (zlen d) ++ d ++ c) by (rewrite <- !app_assoc; reflexivity).
  rewrite G. cbn [bind].
  set (w1 := a ++ be_bytes (Z.to_nat ll) (zlen d)).
  assert (zlen a + ll = zlen w1) as L.
  { unfold w1. rewrite zlen_app. unfold zlen at 3. rewrite be_bytes_length. lia. }
  rewrite L. pose proof (getFixBytes_app w1 d c 0 0) as F. unfold at_pos in F. rewrite F.
  eexists. split; [reflexivity|]. cbn [pindex pbytes]. split.
  - unfold w1. rewrite !zlen_app. lia.
  - unfold w1. rewrite <- !app_assoc. reflexivity.
Qed.

(* the DSL's [take] is Parser.getFixBytes on the remaining input *)
Lemma p_getFixBytes_take a r ic lc n :
  0 <= n ->
  p_getFixBytes (at_pos a r ic lc) n =
  (if n <=? zlen r
   then Ok (firstn (Z.to_nat n) r, mkParser (a ++ r) (zlen a + n) ic lc)
   else Err DecodeError).
Proof.
  intros Hn. destruct (n <=? zlen r) eqn:E.
  - rewrite <- (firstn_skipn (Z.to_nat n) r) at 1.
    assert (zlen (firstn (Z.to_nat n) r) = n) as L
      by (unfold zlen in *; rewrite firstn_length; lia).
    pose proof (getFixBytes_app a (firstn (Z.to_nat n) r) (skipn (Z.to_nat n) r) ic lc) as G.
    rewrite L in G. rewrite G. rewrite firstn_skipn. reflexivity.
  - apply getFixBytes_short. lia.
Qed.

Lemma p_get_take a r ic lc n :
  0 <= n ->
  p_get (at_pos a r ic lc) n =
  (if n <=? zlen r
   then Ok (be_val (firstn (Z.to_nat n) r), mkParser (a ++ r) (zlen a + n) ic lc)
   else Err DecodeError).
Proof.
  intros Hn. unfold p_get. rewrite p_getFixBytes_take by exact Hn.
  destruct (n <=? zlen r); reflexivity.
Qed.

(* ---- length checks -------------------------------------------------------------- *)
(* startLengthCheck ... stopLengthCheck succeeds only if the code in between (which never
   writes the check fields) consumed exactly the declared number of bytes *)
Lemma length_check_sound p ll p1 p2 :
  p_startLengthCheck p ll = Ok p1 ->
  pindexCheck p2 = pindexCheck p1 -> plengthCheck p2 = plengthCheck p1 ->
  (p_stopLengthCheck p2 = Ok tt <-> pindex p2 = pindex p1 + plengthCheck p1) /\
  (exists q, p_get p ll = Ok (plengthCheck p1, q) /\ pindex p1 = pindex q /\ pindexCheck p1 = pindex q).
Proof.
  unfold p_startLengthCheck. intros H HI HL.
  destruct (p_get p ll) as [[n q]|e] eqn:E; cbn [bind] in H; [|discriminate].
  injection H as <-. cbn [pindex pindexCheck plengthCheck] in *. split.
  - unfold p_stopLengthCheck. rewrite HI, HL.
    destruct (pindex p2 - pindex q =? n) eqn:Q; cbn [negb].
    + split; [lia|reflexivity].
    + split; [discriminate|lia].
  - exists q. auto.
Qed.

Lemma stopLengthCheck_err p : p_stopLengthCheck p <> Ok tt -> p_stopLengthCheck p = Err DecodeError.
Proof. unfold p_stopLengthCheck. destruct (negb _); [reflexivity|congruence]. Qed.

Lemma atLengthCheck_spec p :
  let used := pindex p - pindexCheck p in
  (used < plengthCheck p -> p_atLengthCheck p = Ok false) /\
  (used = plengthCheck p -> p_atLengthCheck p = Ok true) /\
  (used > plengthCheck p -> p_atLengthCheck p = Err DecodeError).
Proof.
  cbv zeta. unfold p_atLengthCheck.
  destruct (pindex p - pindexCheck p <? plengthCheck p) eqn:E1;
  destruct (pindex p - pindexCheck p =? plengthCheck p) eqn:E2; repeat split; intros; try reflexivity; lia.
Qed.
