(* C10: lemmas about the byte/integer conversions of the model (cryptomath). *)
From Coq Require Import ZArith List Bool Lia.
From TV Require Import Base.Prelude Model.C10_RsaMath Model.C10_RsaSig.
Import ListNotations.
Open Scope Z_scope.

Lemma zlen_app {A} (a b : list A) : zlen (a ++ b) = zlen a + zlen b.
Proof. unfold zlen. rewrite app_length. lia. Qed.
Lemma zlen_cons {A} (x : A) l : zlen (x :: l) = 1 + zlen l.
Proof. unfold zlen. cbn [length]. lia. Qed.
Lemma zlen_nonneg {A} (l : list A) : 0 <= zlen l.
Proof. unfold zlen. lia. Qed.
Lemma zlen_repeat {A} (x : A) k : zlen (repeat x (Z.to_nat k)) = Z.max 0 k.
Proof. unfold zlen. rewrite repeat_length. lia. Qed.

Lemma all_bytes_app a b : all_bytes (a ++ b) = all_bytes a && all_bytes b.
Proof. unfold all_bytes. apply forallb_app. Qed.
Lemma all_bytes_repeat x k : is_byte x = true -> all_bytes (repeat x k) = true.
Proof. intros H. induction k; cbn [repeat all_bytes forallb]; [reflexivity|]. rewrite H. exact IHk. Qed.
Lemma is_byte_iff x : is_byte x = true <-> 0 <= x < 256.
Proof. unfold is_byte. rewrite andb_true_iff, Z.leb_le, Z.ltb_lt. tauto. Qed.
Lemma all_bytes_forall l : all_bytes l = true <-> forall x, In x l -> 0 <= x < 256.
Proof.
  unfold all_bytes. rewrite forallb_forall. split; intros H x Hx; [apply is_byte_iff|apply is_byte_iff]; auto.
Qed.

(* ---- bytesToNumber ----------------------------------------------------------- *)
Lemma b2n_acc l : forall a, fold_left (fun a b => a * 256 + b) l a = a * 256 ^ zlen l + bytesToNumber l.
Proof.
  unfold bytesToNumber. induction l as [|x l IH]; intros a; cbn [fold_left].
  - unfold zlen. cbn. lia.
  - rewrite IH. rewrite (IH (0 * 256 + x)). rewrite zlen_cons.
    rewrite Z.pow_add_r by (pose proof (zlen_nonneg l); lia). lia.
Qed.

Lemma b2n_cons x l : bytesToNumber (x :: l) = x * 256 ^ zlen l + bytesToNumber l.
Proof. unfold bytesToNumber at 1. cbn [fold_left]. rewrite b2n_acc. lia. Qed.

Lemma b2n_snoc l b : bytesToNumber (l ++ [b]) = bytesToNumber l * 256 + b.
Proof. unfold bytesToNumber. rewrite fold_left_app. reflexivity. Qed.

Lemma b2n_range l : all_bytes l = true -> 0 <= bytesToNumber l < 256 ^ zlen l.
Proof.
  induction l as [|x l IH]; intros H.
  - unfold bytesToNumber, zlen. cbn. lia.
  - cbn [all_bytes forallb] in H. apply andb_true_iff in H. destruct H as [Hx Hl].
    apply is_byte_iff in Hx. specialize (IH Hl).
    rewrite b2n_cons, zlen_cons. rewrite Z.pow_add_r by (pose proof (zlen_nonneg l); lia).
    change (256 ^ 1) with 256. nia.
Qed.

(* ---- int_to_bytes ------------------------------------------------------------- *)
Lemma i2b_length k : forall x, length (int_to_bytes k x) = k.
Proof. induction k; intros x; cbn [int_to_bytes]; [reflexivity|]. rewrite app_length, IHk. cbn. lia. Qed.

Lemma i2b_zlen k x : zlen (int_to_bytes k x) = Z.of_nat k.
Proof. unfold zlen. rewrite i2b_length. reflexivity. Qed.

Lemma i2b_bytes k : forall x, all_bytes (int_to_bytes k x) = true.
Proof.
  induction k; intros x; cbn [int_to_bytes]; [reflexivity|].
  rewrite all_bytes_app, IHk. cbn [all_bytes forallb andb].
  rewrite andb_true_r. apply is_byte_iff. apply Z.mod_pos_bound. lia.
Qed.

Lemma b2n_i2b k : forall x, bytesToNumber (int_to_bytes k x) = x mod 256 ^ Z.of_nat k.
Proof.
  induction k; intros x.
  - cbn [int_to_bytes]. unfold bytesToNumber. cbn. rewrite Z.mod_1_r. reflexivity.
  - cbn [int_to_bytes]. rewrite b2n_snoc, IHk.
    replace (Z.of_nat (S k)) with (1 + Z.of_nat k) by lia.
    rewrite Z.pow_add_r by lia. change (256 ^ 1) with 256.
    rewrite Z.rem_mul_r by (try lia; apply Z.pow_nonzero; lia). lia.
Qed.

Lemma i2b_b2n l : all_bytes l = true -> int_to_bytes (length l) (bytesToNumber l) = l.
Proof.
  induction l as [|b l IH] using rev_ind; intros H.
  - reflexivity.
  - rewrite all_bytes_app in H. apply andb_true_iff in H. destruct H as [Hl Hb].
    cbn [all_bytes forallb] in Hb. rewrite andb_true_r in Hb. apply is_byte_iff in Hb.
    rewrite app_length. cbn [length]. replace (length l + 1)%nat with (S (length l)) by lia.
    cbn [int_to_bytes]. rewrite b2n_snoc.
    assert (E1 : (bytesToNumber l * 256 + b) / 256 = bytesToNumber l).
    { rewrite Z.div_add_l by lia. rewrite Z.div_small by lia. lia. }
    assert (E2 : (bytesToNumber l * 256 + b) mod 256 = b).
    { rewrite Z.add_comm, Z_mod_plus_full. apply Z.mod_small. lia. }
    rewrite E1, E2.
    rewrite IH by exact Hl. reflexivity.
Qed.

Lemma n2b_b2n l k : all_bytes l = true -> zlen l = k -> numberToByteArray (bytesToNumber l) k = l.
Proof.
  intros H E. unfold numberToByteArray. subst k. unfold zlen. rewrite Nat2Z.id. apply i2b_b2n. exact H.
Qed.

Lemma b2n_n2b x k : 0 <= k -> 0 <= x < 256 ^ k -> bytesToNumber (numberToByteArray x k) = x.
Proof.
  intros Hk Hx. unfold numberToByteArray. rewrite b2n_i2b. rewrite Z2Nat.id by lia. apply Z.mod_small. exact Hx.
Qed.

Lemma n2b_zlen x k : 0 <= k -> zlen (numberToByteArray x k) = k.
Proof. intros Hk. unfold numberToByteArray. rewrite i2b_zlen. lia. Qed.

Lemma n2b_bytes x k : all_bytes (numberToByteArray x k) = true.
Proof. apply i2b_bytes. Qed.

(* two byte strings of the same length with the same value are equal *)
Lemma b2n_inj a b : all_bytes a = true -> all_bytes b = true -> zlen a = zlen b ->
  bytesToNumber a = bytesToNumber b -> a = b.
Proof.
  intros Ha Hb Hl E. rewrite <- (n2b_b2n a (zlen a) Ha eq_refl), <- (n2b_b2n b (zlen b) Hb eq_refl).
  rewrite E, Hl. reflexivity.
Qed.

(* ---- numBits / numBytes --------------------------------------------------------- *)
Lemma numBits_spec n : 0 < n -> 2 ^ (numBits n - 1) <= n < 2 ^ numBits n.
Proof.
  intros Hn. unfold numBits. destruct (n <=? 0) eqn:E; [apply Z.leb_le in E; lia|].
  replace (Z.log2 n + 1 - 1) with (Z.log2 n) by lia.
  pose proof (Z.log2_spec n Hn) as [A B]. replace (Z.succ (Z.log2 n)) with (Z.log2 n + 1) in B by lia. lia.
Qed.

Lemma numBits_pos n : 0 < n -> 1 <= numBits n.
Proof. intros Hn. unfold numBits. destruct (n <=? 0) eqn:E; [apply Z.leb_le in E; lia|]. pose proof (Z.log2_nonneg n). lia. Qed.

Lemma numBytes_pos n : 0 < n -> 1 <= numBytes n.
Proof.
  intros Hn. pose proof (numBits_pos n Hn). unfold numBytes.
  apply Z.div_le_lower_bound; lia.
Qed.

Lemma pow256 k : 0 <= k -> 256 ^ k = 2 ^ (8 * k).
Proof. intros Hk. rewrite Z.pow_mul_r by lia. reflexivity. Qed.

Lemma numBytes_upper n : 0 < n -> n < 256 ^ numBytes n.
Proof.
  intros Hn. pose proof (numBits_spec n Hn) as [_ B]. pose proof (numBytes_pos n Hn).
  rewrite pow256 by lia. eapply Z.lt_le_trans; [exact B|].
  apply Z.pow_le_mono_r; [lia|]. unfold numBytes.
  pose proof (Z.div_mod (numBits n + 7) 8 ltac:(lia)). pose proof (Z.mod_pos_bound (numBits n + 7) 8 ltac:(lia)). lia.
Qed.

Lemma numBytes_lower n : 0 < n -> 256 ^ (numBytes n - 1) <= n.
Proof.
  intros Hn. pose proof (numBits_spec n Hn) as [A _]. pose proof (numBytes_pos n Hn). pose proof (numBits_pos n Hn).
  rewrite pow256 by lia. eapply Z.le_trans; [|exact A].
  apply Z.pow_le_mono_r; [lia|]. unfold numBytes.
  pose proof (Z.div_mod (numBits n + 7) 8 ltac:(lia)). pose proof (Z.mod_pos_bound (numBits n + 7) 8 ltac:(lia)). lia.
Qed.

Lemma list_eqb_refl a : list_eqb a a = true.
Proof. apply list_eqb_spec. reflexivity. Qed.
Lemma list_eqb_false a b : a <> b -> list_eqb a b = false.
Proof. intros H. destruct (list_eqb a b) eqn:E; [|reflexivity]. apply list_eqb_spec in E. contradiction. Qed.
