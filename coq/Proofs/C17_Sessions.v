(* C17 -- lemmas about Model/C17_Sessions.v (session objects shared by reference) *)
From Coq Require Import ZArith List Bool Lia.
From TV Require Import Model.C17_Lifecycle Model.C17_Sessions Proofs.C17_Lifecycle.
Import ListNotations.
Open Scope Z_scope.

Lemma upd_length {A} (l : list A) : forall n x, length (upd l n x) = length l.
Proof. induction l as [|h t IH]; intros [|n] x; cbn; auto. Qed.

Lemma nth_upd_same {A} (l : list A) : forall n x d, (n < length l)%nat -> nth n (upd l n x) d = x.
Proof. induction l as [|h t IH]; intros [|n] x d L; cbn in *; try lia; auto; try (apply IH; lia). Qed.

Lemma nth_upd_other {A} (l : list A) : forall n m x d, n <> m -> nth m (upd l n x) d = nth m l d.
Proof.
  induction l as [|h t IH]; intros [|n] [|m] x d NE; cbn; auto; try congruence;
    try (apply IH; congruence).
Qed.

Lemma nth_error_upd_same {A} (l : list A) : forall n x, (n < length l)%nat -> nth_error (upd l n x) n = Some x.
Proof. induction l as [|h t IH]; intros [|n] x L; cbn in *; try lia; auto; try (apply IH; lia). Qed.

Lemma nth_error_upd_other {A} (l : list A) : forall n m x, n <> m -> nth_error (upd l n x) m = nth_error l m.
Proof.
  induction l as [|h t IH]; intros [|n] [|m] x NE; cbn; auto; try congruence;
    try (apply IH; congruence).
Qed.

Lemma is_setsess_not ev : is_setsess ev = false -> not_setsess ev.
Proof. intros H b E. subst. discriminate H. Qed.

(* one step of the machine on the loaded view never turns a non-resumable session resumable *)
Lemma step_view_false s ev s' o a : is_setsess ev = false -> step (set_sess (Some a) s) ev = (s', o) ->
  exists b, sess s' = Some b /\ (a = false -> b = false).
Proof.
  intros NS H. apply step_sess_le in H; [|apply is_setsess_not; exact NS]. cbn in H.
  destruct H as [->|(E & ->)]; [exists a; auto|exists false; auto].
Qed.

Lemma wstep_store w e w' o : wstep w e = (w', o) ->
  (length (store w) <= length (store w'))%nat /\
  forall l, (l < length (store w))%nat -> flag w l = false -> flag w' l = false.
Proof.
  destruct e as [i ev|i|i l0|l0]; cbn [wstep].
  - destruct (nth_error (conns w) i) as [c|]; [|intros H; inversion H; subst; auto].
    destruct (is_setsess ev) eqn:NS; [intros H; inversion H; subst; auto|].
    destruct (step (set_sess (view w c) (cst c)) ev) as [s' o'] eqn:E. intros H. inversion H; subst; clear H.
    cbn [store]. destruct (sref c) as [lc|] eqn:R; [|auto].
    unfold view in E. rewrite R in E. cbn in E.
    destruct (step_view_false _ _ _ _ _ NS E) as (b & SB & BF). rewrite SB.
    rewrite upd_length. split; [lia|]. intros l L F. unfold flag in *. cbn [store].
    destruct (Nat.eq_dec lc l) as [->|NE].
    + rewrite nth_upd_same by exact L. apply BF. exact F.
    + rewrite nth_upd_other by exact NE. exact F.
  - destruct (nth_error (conns w) i) as [c|]; intros H; inversion H; subst; clear H; [|auto].
    cbn [store]. rewrite app_length. cbn. split; [lia|]. intros l L F. unfold flag in *. cbn [store].
    rewrite app_nth1 by exact L. exact F.
  - destruct (nth_error (conns w) i) as [c|]; [|intros H; inversion H; subst; auto].
    destruct (l0 <? length (store w))%nat; intros H; inversion H; subst; auto.
  - intros H; inversion H; subst; auto.
Qed.

Lemma wrun_store : forall evs w w' os, wrun w evs = (w', os) ->
  (length (store w) <= length (store w'))%nat /\
  forall l, (l < length (store w))%nat -> flag w l = false -> flag w' l = false.
Proof.
  induction evs as [|e evs IH]; intros w w' os H; cbn in H.
  - inversion H; subst. auto.
  - destruct (wstep w e) as [w1 o] eqn:E. destruct (wrun w1 evs) as [w2 os2] eqn:E2. inversion H; subst; clear H.
    destruct (wstep_store _ _ _ _ E) as (L1 & F1). destruct (IH _ _ _ E2) as (L2 & F2).
    split; [lia|]. intros l L F. apply F2; [lia|]. apply F1; auto.
Qed.

(* once the flag of a session object is off, every later lookup of it fails, whatever happens *)
Lemma wrun_lookups_false : forall evs w w' os l, (l < length (store w))%nat -> flag w l = false ->
  wrun w evs = (w', os) ->
  forall k, nth_error evs k = Some (WLookup l) -> nth_error os k = Some (WFound false).
Proof.
  induction evs as [|e evs IH]; intros w w' os l L F H k K; [destruct k; discriminate|].
  cbn in H. destruct (wstep w e) as [w1 o] eqn:E. destruct (wrun w1 evs) as [w2 os2] eqn:E2.
  inversion H; subst; clear H. destruct k as [|k]; cbn in *.
  - inversion K; subst. cbn in E. inversion E; subst. rewrite F. reflexivity.
  - destruct (wstep_store _ _ _ _ E) as (L1 & F1). eapply IH; try exact E2; try exact K; [lia|]. apply F1; auto.
Qed.

(* a step on connection i that leaves its session flag off leaves it off in the store, hence
   for every connection sharing the object *)
Lemma failure_clears w i c l ev s' o :
  nth_error (conns w) i = Some c -> sref c = Some l -> (l < length (store w))%nat -> is_setsess ev = false ->
  step (set_sess (view w c) (cst c)) ev = (s', o) -> sess s' = Some false ->
  exists w', wstep w (WConn i ev) = (w', WO o) /\ flag w' l = false /\ length (store w') = length (store w) /\
    (forall j c', nth_error (conns w') j = Some c' -> sref c' = Some l -> view w' c' = Some false).
Proof.
  intros C R L NS E SF. cbn [wstep]. rewrite C, NS, E, R, SF.
  eexists. split; [reflexivity|]. cbn [store conns].
  assert (flag {| conns := upd (conns w) i (mkwc s' (Some l)); store := upd (store w) l false |} l = false) as FL.
  { unfold flag. cbn [store]. apply nth_upd_same. exact L. }
  split; [exact FL|]. split; [apply upd_length|].
  intros j c' J R'. unfold view. rewrite R'. cbn [option_map]. f_equal. exact FL.
Qed.

(* a fatal or warning alert (other than close_notify) read on ANY connection that uses session
   object l: TLSRemoteAlert, and the object is dead for every connection, for the cache and for
   every later resumption attempt *)
Lemma alert_on_shared_session w i c l lv d rest mx mn :
  nth_error (conns w) i = Some c -> sref c = Some l -> (l < length (store w))%nat ->
  closed (cst c) = false -> wq (cst c) = [] -> bufw (cst c) = false -> inq (cst c) = IAlert lv d :: rest -> d <> 0 ->
  (zlen (rbuf (cst c)) <? mn) || is_nil (rbuf (cst c)) = true ->
  exists w', wstep w (WConn i (URead mx mn)) = (w', WO (OExc (XRemote d))) /\ flag w' l = false /\
    (forall j c', nth_error (conns w') j = Some c' -> sref c' = Some l -> view w' c' = Some false) /\
    (forall evs w2 os, wrun w' evs = (w2, os) ->
       flag w2 l = false /\ forall k, nth_error evs k = Some (WLookup l) -> nth_error os k = Some (WFound false)).
Proof.
  intros C R L CL Q B I D Hc.
  destruct (read_alert (set_sess (view w c) (cst c)) lv d rest mx mn) as (s' & E & C' & SE); auto.
  assert (sess s' = Some false) as SF.
  { rewrite SE. cbn. unfold view. rewrite R. reflexivity. }
  destruct (failure_clears w i c l (URead mx mn) s' (OExc (XRemote d)) C R L eq_refl E SF) as (w' & W & F & LEN & V).
  exists w'. split; [exact W|]. split; [exact F|]. split; [exact V|].
  intros evs w2 os RUN. assert (l < length (store w'))%nat as L' by lia. split.
  - apply (proj2 (wrun_store _ _ _ _ RUN)); auto.
  - eapply wrun_lookups_false; eauto.
Qed.

(* the same for a transport failure while reading on a connection of the session *)
Lemma sock_error_on_shared_session w i c l e mx mn :
  nth_error (conns w) i = Some c -> sref c = Some l -> (l < length (store w))%nat ->
  closed (cst c) = false -> wq (cst c) = [] -> bufw (cst c) = false -> inq (cst c) = [] ->
  sock_open (cst c) = true -> rxe (cst c) = RxErr e ->
  (zlen (rbuf (cst c)) <? mn) || is_nil (rbuf (cst c)) = true ->
  exists w', wstep w (WConn i (URead mx mn)) = (w', WO (OExc (XSock e))) /\ flag w' l = false /\
    (forall j c', nth_error (conns w') j = Some c' -> sref c' = Some l -> view w' c' = Some false) /\
    (forall evs w2 os, wrun w' evs = (w2, os) ->
       flag w2 l = false /\ forall k, nth_error evs k = Some (WLookup l) -> nth_error os k = Some (WFound false)).
Proof.
  intros C R L CL Q B I SO RX Hc.
  destruct (read_sock_error (set_sess (view w c) (cst c)) e mx mn) as (s' & E & C' & SE); auto.
  assert (sess s' = Some false) as SF.
  { rewrite SE. cbn. unfold view. rewrite R. reflexivity. }
  destruct (failure_clears w i c l (URead mx mn) s' (OExc (XSock e)) C R L eq_refl E SF) as (w' & W & F & LEN & V).
  exists w'. split; [exact W|]. split; [exact F|]. split; [exact V|].
  intros evs w2 os RUN. assert (l < length (store w'))%nat as L' by lia. split.
  - apply (proj2 (wrun_store _ _ _ _ RUN)); auto.
  - eapply wrun_lookups_false; eauto.
Qed.

(* example world: the session created on connection 0 (closed in an orderly way since), resumed on
   connection 1, where a fatal alert is waiting *)
Definition w_example : world :=
  mkw [mkwc (mkst true false 0 None false true false false 16384 false false [] [] [] RxOpen None []) (Some 0%nat);
       mkwc (mkst false false 1 None false true false false 16384 true false [] [] [IAlert 2 80] RxOpen None []) (Some 0%nat)]
      [true].

Lemma w_example_run :
  let '(w', os) := wrun w_example [WLookup 0; WConn 1 (URead None 1); WLookup 0; WConn 0 (URead None 1); WLookup 0] in
  os = [WFound true; WO (OExc (XRemote 80)); WFound false; WO (ORet []); WFound false] /\
  conn_view w' 0 = Some false /\ conn_view w' 1 = Some false.
Proof. vm_compute. repeat split. Qed.
