(* C06: the facts computed on the concrete gate table (vm_compute on finite products /
   finite state sets) and the lemmas that lift them to all traces. *)
From Coq Require Import ZArith List Bool String.
From TV Require Import Model.C06_GateTypes Model.C06_HsOrder Spec.C06_HsGrammar Model.C06_Check
                       Gen.C06_Gates Proofs.C06_Sound.
Import ListNotations.

(* ------------------------------------------------------------------ the ties to the source *)
Lemma gates_eq : extracted_gates = modelled_gates.
Proof. vm_compute. reflexivity. Qed.
Lemma order_checks_eq : extracted_order_checks = modelled_order_checks.
Proof. vm_compute. reflexivity. Qed.
Lemma defrag_eq : extracted_defrag = modelled_defrag.
Proof. vm_compute. reflexivity. Qed.
Lemma early_eq : extracted_early_data = modelled_early_data.
Proof. vm_compute. reflexivity. Qed.
Lemma calls_eq : extracted_gate_calls = modelled_gate_calls.
Proof. vm_compute. reflexivity. Qed.

(* ------------------------------------------------------------------ computed facts *)
Lemma incl_all : forallb (included modelled_gates) all_cfgs = true.
Proof. vm_cast_no_check (eq_refl true). Qed.

Lemma incl_order_all : forallb (included_order modelled_gates) all_cfgs = true.
Proof. vm_cast_no_check (eq_refl true). Qed.

Lemma noapp_all : forallb (chk_noapp modelled_gates) all_cfgs = true.
Proof. vm_cast_no_check (eq_refl true). Qed.

Lemma post_closed_all : forallb (chk_post_closed modelled_gates) all_cfgs = true.
Proof. vm_cast_no_check (eq_refl true). Qed.

Lemma reneg_all : forallb (chk_reneg modelled_gates) all_cfgs = true.
Proof. vm_cast_no_check (eq_refl true). Qed.

Lemma interleave_all :
  forallb (fun c => negb (c_v13 c) || chk_interleave modelled_gates c) all_cfgs = true.
Proof. vm_cast_no_check (eq_refl true). Qed.

Lemma window_all : forallb (chk_window modelled_gates) cfgs_server13 = true.
Proof. vm_cast_no_check (eq_refl true). Qed.

Lemma witnesses_rejected_all :
  forallb (witness_rejected modelled_gates) deviation_witnesses && ord13_rejected modelled_gates = true.
Proof. vm_cast_no_check (eq_refl true). Qed.

(* keep the kernel from unfolding the exploration when it compares statements *)
Strategy 1000 [reach big_fuel check step_t gate_tab grammar deriv ccs_fin_order].

(* ------------------------------------------------------------------ lifted statements *)
Lemma incl_full c w :
  In c all_cfgs -> completes modelled_gates c w = true -> allowed c w = true.
Proof.
  intros Hc Hd.
  pose proof incl_all as H. rewrite forallb_forall in H. specialize (H c Hc).
  unfold included in H. unfold allowed.
  apply (included_by_sound (stp_of modelled_gates c) (stp_of_dead modelled_gates c)
           (init c) (grammar c) Sigma H w (Sigma_Forall w)).
  unfold completes, run in Hd. rewrite run_is_runs in Hd. exact Hd.
Qed.

Lemma order_full c w :
  In c all_cfgs -> completes modelled_gates c w = true -> matches (ccs_fin_order c) w = true.
Proof.
  intros Hc Hd.
  pose proof incl_order_all as H. rewrite forallb_forall in H. specialize (H c Hc).
  unfold included_order in H.
  apply (included_by_sound (stp_of modelled_gates c) (stp_of_dead modelled_gates c)
           (init c) (ccs_fin_order c) Sigma H w (Sigma_Forall w)).
  unfold completes, run in Hd. rewrite run_is_runs in Hd. exact Hd.
Qed.

Lemma former_rejected :
  Forall (fun x => let '(d, c, w) := x in
            completes modelled_gates c w = false /\ allowed c w = false) deviation_witnesses
  /\ completes modelled_gates ord13_cfg ord13_witness = false.
Proof.
  pose proof witnesses_rejected_all as H. apply andb_prop in H. destruct H as [H1 H2].
  split.
  - apply Forall_forall. intros [[d c] w] Hin.
    rewrite forallb_forall in H1. specialize (H1 _ Hin). unfold witness_rejected in H1.
    apply andb_prop in H1. destruct H1 as [A B].
    split; [destruct (completes modelled_gates c w)|destruct (allowed c w)]; try discriminate; reflexivity.
  - unfold ord13_rejected in H2. destruct (completes modelled_gates ord13_cfg ord13_witness);
      [discriminate|reflexivity].
Qed.

Lemma noapp c s e :
  In c all_cfgs -> handshaking s = true -> In e app_syms ->
  let s' := fst (step modelled_gates c s e) in
  is_abort s' = true \/ (ed s = true /\ s' = s).
Proof.
  intros Hc Hh He.
  pose proof noapp_all as H. rewrite forallb_forall in H. specialize (H c Hc).
  unfold chk_noapp in H. rewrite forallb_forall in H. specialize (H s (all_st_complete s)).
  rewrite Hh in H. cbn [negb orb] in H. rewrite forallb_forall in H. specialize (H e He).
  cbv zeta in *. unfold step.
  apply orb_true_iff in H. destruct H as [H|H]; [left; exact H|right].
  apply andb_prop in H. destruct H as [H1 H2]. split; [exact H1|apply st_eqb_eq; exact H2].
Qed.

Lemma post_closed c s e :
  In c all_cfgs -> is_post s = true -> post_or_abort (fst (step modelled_gates c s e)) = true.
Proof.
  intros Hc Hp.
  pose proof post_closed_all as H. rewrite forallb_forall in H. specialize (H c Hc).
  unfold chk_post_closed in H. rewrite forallb_forall in H. specialize (H s (all_st_complete s)).
  rewrite Hp in H. cbn [negb orb] in H. rewrite forallb_forall in H. exact (H e (Sigma_complete e)).
Qed.

Lemma reneg c s a :
  In c all_cfgs -> is_post s = true -> buf s = BEmpty ->
  let r := step modelled_gates c s (rd_at c (pc s), PH (reneg_msg c) a) in
  if c_v13 c
  then pc (fst r) = P_Abort R_unexpected /\ snd r = None
  else pc (fst r) = P_Post /\ gotc (fst r) = gotc s /\ snd r = Some 100%Z.
Proof.
  intros Hc Hp Hb.
  pose proof reneg_all as H. rewrite forallb_forall in H. specialize (H c Hc).
  unfold chk_reneg in H. rewrite forallb_forall in H. specialize (H s (all_st_complete s)).
  rewrite Hp, Hb in H. cbn [negb orb bufk_eqb] in H. rewrite forallb_forall in H.
  assert (Ha : In a bools) by (destruct a; in_list).
  specialize (H a Ha). unfold step. cbv zeta.
  destruct (step_t (gate_tab modelled_gates c) c s (rd_at c (pc s), PH (reneg_msg c) a)) as [s' w].
  cbn [fst snd]. destruct (c_v13 c).
  - apply andb_prop in H. destruct H as [H1 H2]. apply pos_eqb_eq in H1.
    split; [exact H1|]. destruct w; [discriminate|reflexivity].
  - apply andb_prop in H. destruct H as [H H3]. apply andb_prop in H. destruct H as [H1 H2].
    apply pos_eqb_eq in H1. apply bool_eqb_eq in H2.
    split; [exact H1|]. split; [exact H2|].
    destruct w as [z|]; [|discriminate].
    apply Z.eqb_eq in H3. subst. reflexivity.
Qed.

Lemma interleave_full c s e p :
  In c all_cfgs -> c_v13 c = true ->
  handshaking s = true -> v13_at c (pc s) = true -> buf s = BPartial ->
  In p non_hs_payloads ->
  let s' := fst (step modelled_gates c s (e, p)) in
  is_abort s' = true \/ (ed s = true /\ s' = s).
Proof.
  intros Hc Hv Hh Hv13 Hb Hp.
  pose proof interleave_all as H. rewrite forallb_forall in H. specialize (H c Hc).
  rewrite Hv in H. cbn [negb orb] in H.
  unfold chk_interleave in H. rewrite forallb_forall in H. specialize (H s (all_st_complete s)).
  rewrite Hh, Hv13, Hb in H. cbn [negb orb andb bufk_eqb] in H.
  rewrite forallb_forall in H. specialize (H e (all_epoch_complete e)).
  rewrite forallb_forall in H. specialize (H p Hp). cbv zeta in *. unfold step.
  apply orb_true_iff in H. destruct H as [H|H]; [left; exact H|right].
  apply andb_prop in H. destruct H as [H1 H2]. split; [exact H1|apply st_eqb_eq; exact H2].
Qed.

(* ------------------------------------------------------------------ the early-data window *)
Lemma window_facts c s e :
  In c cfgs_server13 -> handshaking s = true ->
  let s' := fst (step modelled_gates c s e) in
  (undec_sym c s e = true -> ed s = false -> is_abort s' = true) /\
  (ed s' = true -> is_abort s' = false ->
     ed s = true \/ (c_early c = true /\ pc s = S_CH)) /\
  (pc s = S13_CH2 -> (exists a, e = (E0, PH CH a)) -> ed s' = false \/ is_abort s' = true).
Proof.
  intros Hc Hh.
  pose proof window_all as H. rewrite forallb_forall in H. specialize (H c Hc).
  unfold chk_window in H. rewrite forallb_forall in H. specialize (H s (all_st_complete s)).
  rewrite Hh in H. cbn [negb orb] in H. rewrite forallb_forall in H.
  specialize (H e (Sigma_complete e)). cbv zeta in H. unfold step. cbv zeta.
  set (s' := fst (step_t (gate_tab modelled_gates c) c s e)) in *.
  apply andb_prop in H. destruct H as [H H3]. apply andb_prop in H. destruct H as [H1 H2].
  split; [|split].
  - intros Hu He. rewrite Hu, He in H1. cbn [negb orb] in H1. exact H1.
  - intros He' Ha. rewrite He', Ha in H2. cbn [negb orb] in H2.
    rewrite orb_false_r in H2. apply orb_true_iff in H2. destruct H2 as [H2|H2].
    + left. apply andb_prop in H2. exact (proj1 H2).
    + right. apply andb_prop in H2. destruct H2 as [H2 H4]. apply andb_prop in H2. destruct H2 as [H2 _].
      split; [exact H2|]. destruct (pc s); try discriminate H4. reflexivity.
  - intros Hp [a Ha]. subst e. rewrite Hp in H3. cbn [snd fst epoch_eqb] in H3.
    unfold implb' in H3. cbn [negb orb] in H3. apply orb_true_iff in H3. destruct H3 as [H3|H3].
    + left. destruct (ed s'); [discriminate|reflexivity].
    + right. exact H3.
Qed.
