(* C10: a DSA signature made by Python_DSAKey.sign verifies (group hypotheses stated). *)
From Coq Require Import ZArith List Bool Lia Zpow_facts.
From TV Require Import Base.Prelude Model.C10_RsaMath Model.C10_RsaSig Model.C10_Dsa
     Proofs.C10_MathP.
Import ListNotations.
Open Scope Z_scope.

(* g^q = 1 (mod p)  =>  exponents may be reduced modulo q *)
Lemma pow_exp_mod g p q a : 1 < p -> 0 < q -> 0 <= a -> g ^ q mod p = 1 ->
  g ^ a mod p = g ^ (a mod q) mod p.
Proof.
  intros Hp Hq Ha Hg.
  pose proof (Z.div_mod a q ltac:(lia)) as D. pose proof (Z.mod_pos_bound a q Hq) as M.
  assert (Hd : 0 <= a / q) by (apply Z.div_pos; lia).
  rewrite D at 1. rewrite Z.pow_add_r by nia. rewrite Z.pow_mul_r by lia.
  rewrite <- Z.mul_mod_idemp_l by lia. rewrite <- pow_mod_l by lia. rewrite Hg.
  rewrite Z.pow_1_l by lia. rewrite Z.mod_1_l by lia. rewrite Z.mul_1_l. reflexivity.
Qed.

Section Dsa.
  Variable key : dsa_key.
  Hypothesis Hp : 1 < dk_p key.
  Hypothesis Hq : 1 < dk_q key.
  Hypothesis Hx : 0 <= dk_x key.
  (* g generates a subgroup whose order divides q; y is the public key of x *)
  Hypothesis Hg : dk_g key ^ dk_q key mod dk_p key = 1.
  Hypothesis Hy : dk_y key = powmod (dk_g key) (dk_x key) (dk_p key).

  Theorem dsa_sign_then_verify data k kinv w :
    0 <= k -> (k * kinv) mod dk_q key = 1 ->
    let '(r, s) := dsa_sign key data k kinv in
    (s * w) mod dk_q key = 1 ->          (* invMod(s, q) found the inverse *)
    0 < r -> 0 < s ->
    dsa_verify key r s data w = true.
  Proof.
    intros Hk Hkinv. unfold dsa_sign.
    set (p := dk_p key) in *. set (q := dk_q key) in *. set (g := dk_g key) in *. set (x := dk_x key) in *.
    set (h := dsa_digest q data).
    set (r := powmod g k p mod q). set (s := (kinv * (h + x * r)) mod q).
    intros Hw Hr Hs. unfold dsa_verify. fold p q g h.
    assert (Br : r < q) by (apply Z.mod_pos_bound; lia).
    assert (Bs : s < q) by (apply Z.mod_pos_bound; lia).
    destruct ((0 <? r) && (r <? q) && (0 <? s) && (s <? q)) eqn:E.
    2:{ exfalso. repeat (apply andb_false_iff in E; destruct E as [E|E]);
          [apply Z.ltb_ge in E|apply Z.ltb_ge in E|apply Z.ltb_ge in E|apply Z.ltb_ge in E]; lia. }
    apply Z.eqb_eq.
    set (u1 := (h * w) mod q). set (u2 := (r * w) mod q).
    assert (B1 : 0 <= u1 < q) by (apply Z.mod_pos_bound; lia).
    assert (B2 : 0 <= u2 < q) by (apply Z.mod_pos_bound; lia).
    rewrite Hy. fold g x p. rewrite !powmod_spec by lia.
    rewrite pow_mod_l by lia. rewrite <- Z.mul_mod by lia.
    rewrite <- Z.pow_mul_r by lia. rewrite <- Z.pow_add_r by nia.
    (* exponent = k modulo q *)
    assert (Ex : (u1 + x * u2) mod q = k mod q).
    { unfold u1, u2. rewrite Z.add_mod by lia. rewrite Z.mod_mod by lia.
      rewrite (Z.mul_mod x) by lia. rewrite Z.mod_mod by lia. rewrite <- (Z.mul_mod x) by lia.
      rewrite <- Z.add_mod by lia.
      replace (h * w + x * (r * w)) with ((h + x * r) * w) by ring.
      (* (h + x r) = s k (mod q) *)
      assert (Es : (s * k) mod q = (h + x * r) mod q).
      { unfold s. rewrite Z.mul_mod_idemp_l by lia.
        replace (kinv * (h + x * r) * k) with ((k * kinv) * (h + x * r)) by ring.
        rewrite <- Z.mul_mod_idemp_l by lia. rewrite Hkinv. rewrite Z.mul_1_l. reflexivity. }
      rewrite <- Z.mul_mod_idemp_l by lia. rewrite <- Es. rewrite Z.mul_mod_idemp_l by lia.
      replace (s * k * w) with ((s * w) * k) by ring.
      rewrite <- Z.mul_mod_idemp_l by lia. rewrite Hw. rewrite Z.mul_1_l. reflexivity. }
    rewrite (pow_exp_mod g p q (u1 + x * u2)) by (try lia; try nia; exact Hg).
    rewrite Ex. rewrite <- (pow_exp_mod g p q k) by (try lia; exact Hg).
    unfold r. rewrite powmod_spec by lia. reflexivity.
  Qed.

  (* r or s outside (0, q) is rejected whatever else holds *)
  Lemma dsa_verify_range r s data w : (r <= 0 \/ dk_q key <= r \/ s <= 0 \/ dk_q key <= s) ->
    dsa_verify key r s data w = false.
  Proof.
    intros H. unfold dsa_verify.
    destruct ((0 <? r) && (r <? dk_q key) && (0 <? s) && (s <? dk_q key)) eqn:E; [|reflexivity].
    rewrite !andb_true_iff, !Z.ltb_lt in E. lia.
  Qed.
End Dsa.

(* the hypotheses are satisfiable: p = 607, q = 101, g = 64 = 2^6 (order 101), x = 57 *)
Definition toy_dsa : dsa_key := {| dk_p := 607; dk_q := 101; dk_g := 64; dk_x := 57; dk_y := powmod 64 57 607 |}.
Lemma toy_dsa_ok : dk_g toy_dsa ^ dk_q toy_dsa mod dk_p toy_dsa = 1 /\ dk_y toy_dsa = powmod (dk_g toy_dsa) (dk_x toy_dsa) (dk_p toy_dsa).
Proof.
  split; [|reflexivity]. cbn [toy_dsa dk_g dk_q dk_p].
  rewrite <- powmod_spec by lia. vm_compute. reflexivity.
Qed.

(* malformed DER (decode fails) or an empty signature: verify returns False (since /repo ab7872a;
   before, UnexpectedDER escaped from verify) *)
Lemma dsa_verify_bytes_malformed decode key sig data winv :
  (sig = [] \/ decode sig = None) -> dsa_verify_bytes decode key sig data winv = false.
Proof.
  intros [->|H]; [reflexivity|]. unfold dsa_verify_bytes. destruct sig; [reflexivity|]. rewrite H. reflexivity.
Qed.

Lemma dsa_verify_bytes_decoded decode key sig data winv r s :
  sig <> [] -> decode sig = Some (r, s) ->
  dsa_verify_bytes decode key sig data winv = dsa_verify key r s data (winv s).
Proof. intros Hn H. unfold dsa_verify_bytes. destruct sig; [contradiction|]. rewrite H. reflexivity. Qed.

(* ---- Python_DSAKey.generate() establishes the group hypothesis (since /repo b7d3c31) -------
   p = 2kq + 1, g = index^((p-1)//q) mod p.  The only thing assumed about p is what primality gives
   for the chosen index: index^(p-1) = 1 (mod p) (Fermat; isPrime() is a Miller-Rabin test, trusted). *)
Lemma dsa_generate_group q k index x :
  1 < q -> 0 < k -> index ^ (dsa_gen_p q k - 1) mod dsa_gen_p q k = 1 ->
  let key := dsa_gen_key q k index x in
  (dk_p key - 1) mod dk_q key = 0 /\ 1 < dk_p key /\
  dk_g key ^ dk_q key mod dk_p key = 1 /\
  dk_y key = powmod (dk_g key) (dk_x key) (dk_p key).
Proof.
  intros Hq Hk Hf. unfold dsa_gen_key. cbn [dk_p dk_q dk_g dk_x dk_y].
  unfold dsa_gen_g. set (p := dsa_gen_p q k) in *.
  assert (Ep : p - 1 = 2 * k * q) by (unfold p, dsa_gen_p; ring).
  assert (Hp : 1 < p) by nia.
  rewrite Ep. rewrite Z.mod_mul by lia. rewrite Z.div_mul by lia.
  repeat split; try assumption; try lia.
  rewrite powmod_spec by lia. rewrite pow_mod_l by lia.
  rewrite <- Z.pow_mul_r by lia. rewrite <- Ep. exact Hf.
Qed.

Theorem dsa_generated_key_sign_verifies q k index x :
  1 < q -> 0 < k -> 0 <= x -> index ^ (dsa_gen_p q k - 1) mod dsa_gen_p q k = 1 ->
  let key := dsa_gen_key q k index x in
  forall data nonce ninv w, 0 <= nonce -> (nonce * ninv) mod dk_q key = 1 ->
    let '(r, s) := dsa_sign key data nonce ninv in
    (s * w) mod dk_q key = 1 -> 0 < r -> 0 < s -> dsa_verify key r s data w = true.
Proof.
  intros Hq Hk Hx Hf key data nonce ninv w Hn Hinv.
  destruct (dsa_generate_group q k index x Hq Hk Hf) as (_ & Hp & Hg & Hy). fold key in Hp, Hg, Hy.
  apply (dsa_sign_then_verify key Hp); try assumption.
Qed.

(* instance: q = 101, k = 3 gives p = 607 (prime), index = 2 *)
Lemma dsa_generate_instance : 2 ^ (dsa_gen_p 101 3 - 1) mod dsa_gen_p 101 3 = 1 /\ dsa_gen_key 101 3 2 57 = toy_dsa.
Proof.
  split; [|vm_compute; reflexivity].
  change (dsa_gen_p 101 3) with 607. rewrite <- powmod_spec by lia. vm_compute. reflexivity.
Qed.

(* The group hypothesis g^q = 1 (mod p) is necessary: parameters with q not dividing p-1 -- the kind
   Python_DSAKey.generate_qp() produced BEFORE /repo b7d3c31 (its loop exited when (p-1) % q was
   NON-zero; then theorem dsa_sign_verifies_without_group_hypothesis_refuted) -- give
   signatures that do not verify.  p = 23, q = 7, g = 2^3, x = 3, data = [5], k = 2. *)
Definition bad_dsa : dsa_key := {| dk_p := 23; dk_q := 7; dk_g := 8; dk_x := 3; dk_y := powmod 8 3 23 |}.
Lemma dsa_group_hypothesis_needed :
  (dk_p bad_dsa - 1) mod dk_q bad_dsa <> 0 /\
  exists data k kinv w,
    0 <= k /\ (k * kinv) mod dk_q bad_dsa = 1 /\
    let '(r, s) := dsa_sign bad_dsa data k kinv in
    (s * w) mod dk_q bad_dsa = 1 /\ 0 < r /\ 0 < s /\ dsa_verify bad_dsa r s data w = false.
Proof.
  split; [vm_compute; discriminate|].
  exists [5], 2, 4, 6. vm_compute. repeat split; try reflexivity; discriminate.
Qed.
