(* C10: Python slicing/indexing facts on concatenations, xor of byte strings. *)
From Coq Require Import ZArith List Bool Lia.
From TV Require Import Base.Prelude Model.C10_RsaMath Model.C10_RsaSig Proofs.C10_BytesP.
Import ListNotations.
Open Scope Z_scope.

Lemma firstn_zlen_app {A} (a b : list A) : firstn (Z.to_nat (zlen a)) (a ++ b) = a.
Proof. unfold zlen. rewrite Nat2Z.id. rewrite firstn_app, Nat.sub_diag, firstn_all. cbn. apply app_nil_r. Qed.

Lemma skipn_zlen_app {A} (a b : list A) : skipn (Z.to_nat (zlen a)) (a ++ b) = b.
Proof. unfold zlen. rewrite Nat2Z.id. rewrite skipn_app, Nat.sub_diag, skipn_all. reflexivity. Qed.

Lemma clamp_id n b : 0 <= b <= n -> clamp_bound n b = b.
Proof.
  intros H. unfold clamp_bound.
  destruct (b <? 0) eqn:E1; [apply Z.ltb_lt in E1; lia|].
  destruct (b <? 0) eqn:E2; [apply Z.ltb_lt in E2; lia|].
  destruct (n <? b) eqn:E3; [apply Z.ltb_lt in E3; lia|]. reflexivity.
Qed.

Lemma clamp_neg n b : b < 0 -> 0 <= b + n -> clamp_bound n b = b + n.
Proof.
  intros H1 H2. unfold clamp_bound.
  destruct (b <? 0) eqn:E1; [|apply Z.ltb_ge in E1; lia].
  destruct (b + n <? 0) eqn:E2; [apply Z.ltb_lt in E2; lia|].
  destruct (n <? b + n) eqn:E3; [apply Z.ltb_lt in E3; lia|]. reflexivity.
Qed.

Lemma py_slice_range {A} (l : list A) lo hi : 0 <= lo <= hi -> hi <= zlen l ->
  py_slice l (Some lo) (Some hi) = firstn (Z.to_nat (hi - lo)) (skipn (Z.to_nat lo) l).
Proof.
  intros H1 H2. unfold py_slice. rewrite !clamp_id by lia.
  destruct (hi <=? lo) eqn:E; [|reflexivity].
  apply Z.leb_le in E. replace (hi - lo) with 0 by lia. reflexivity.
Qed.

(* x[0:len(a)] *)
Lemma py_slice_app_first {A} (a b : list A) : py_slice (a ++ b) (Some 0) (Some (zlen a)) = a.
Proof.
  pose proof (zlen_nonneg a) as Ha. pose proof (zlen_nonneg b) as Hb.
  rewrite py_slice_range by (rewrite ?zlen_app; lia).
  rewrite Z.sub_0_r. cbn [Z.to_nat skipn]. apply firstn_zlen_app.
Qed.

(* x[len(a):len(a)+len(b)] *)
Lemma py_slice_app_mid {A} (a b c : list A) :
  py_slice (a ++ b ++ c) (Some (zlen a)) (Some (zlen a + zlen b)) = b.
Proof.
  pose proof (zlen_nonneg a) as Ha. pose proof (zlen_nonneg b) as Hb. pose proof (zlen_nonneg c) as Hc.
  rewrite py_slice_range by (rewrite ?zlen_app; lia).
  rewrite skipn_zlen_app. replace (zlen a + zlen b - zlen a) with (zlen b) by lia. apply firstn_zlen_app.
Qed.

(* x[:n] *)
Lemma py_slice_prefix {A} (l : list A) n : 0 <= n <= zlen l -> py_slice l None (Some n) = firstn (Z.to_nat n) l.
Proof.
  intros H. unfold py_slice. rewrite clamp_id by lia.
  destruct (n <=? 0) eqn:E3.
  - apply Z.leb_le in E3. replace n with 0 by lia. reflexivity.
  - rewrite Z.sub_0_r. reflexivity.
Qed.

(* x[-len(b):] *)
Lemma py_slice_suffix_neg {A} (a b : list A) : 0 < zlen b -> py_slice (a ++ b) (Some (- zlen b)) None = b.
Proof.
  intros Hb. pose proof (zlen_nonneg a) as Ha. unfold py_slice. rewrite zlen_app.
  rewrite clamp_neg by lia. replace (- zlen b + (zlen a + zlen b)) with (zlen a) by lia.
  destruct (zlen a + zlen b <=? zlen a) eqn:E4; [apply Z.leb_le in E4; lia|].
  rewrite skipn_zlen_app. replace (zlen a + zlen b - zlen a) with (zlen b) by lia.
  unfold zlen. rewrite Nat2Z.id. apply firstn_all.
Qed.

Lemma py_index_last {A} (a : list A) x : py_index (a ++ [x]) (-1) = Ok x.
Proof.
  unfold py_index. rewrite zlen_app. change (zlen [x]) with 1. pose proof (zlen_nonneg a) as Ha.
  destruct (-1 <? 0) eqn:E; [|discriminate]. replace (-1 + (zlen a + 1)) with (zlen a) by lia.
  destruct ((0 <=? zlen a) && (zlen a <? zlen a + 1)) eqn:E2.
  - unfold zlen. rewrite Nat2Z.id. rewrite nth_error_app2 by lia. rewrite Nat.sub_diag. reflexivity.
  - apply andb_false_iff in E2. destruct E2 as [E2|E2]; [apply Z.leb_gt in E2|apply Z.ltb_ge in E2]; lia.
Qed.

Lemma py_index_mid {A} (a : list A) x b : py_index (a ++ x :: b) (zlen a) = Ok x.
Proof.
  unfold py_index. rewrite zlen_app, zlen_cons. pose proof (zlen_nonneg a) as Ha. pose proof (zlen_nonneg b) as Hb.
  destruct (zlen a <? 0) eqn:E; [apply Z.ltb_lt in E; lia|].
  destruct ((0 <=? zlen a) && (zlen a <? zlen a + (1 + zlen b))) eqn:E2.
  - unfold zlen. rewrite Nat2Z.id. rewrite nth_error_app2 by lia. rewrite Nat.sub_diag. reflexivity.
  - apply andb_false_iff in E2. destruct E2 as [E2|E2]; [apply Z.leb_gt in E2|apply Z.ltb_ge in E2]; lia.
Qed.

Lemma py_index_head {A} (x : A) l : py_index (x :: l) 0 = Ok x.
Proof. apply (py_index_mid [] x l). Qed.

(* ---- xor ---------------------------------------------------------------------- *)
Lemma xor_bytes_cons a x b y : xor_bytes (a :: x) (b :: y) = Z.lxor a b :: xor_bytes x y.
Proof. reflexivity. Qed.

Lemma xor_bytes_length a : forall b, length a = length b -> length (xor_bytes a b) = length a.
Proof. intros b H. unfold xor_bytes. rewrite map_length, combine_length, <- H. lia. Qed.

Lemma xor_bytes_involutive a : forall m, length a = length m -> xor_bytes (xor_bytes a m) m = a.
Proof.
  induction a as [|x a IH]; intros [|y m] H; cbn [length] in H; try discriminate; [reflexivity|].
  rewrite !xor_bytes_cons. rewrite Z.lxor_assoc, Z.lxor_nilpotent, Z.lxor_0_r. f_equal. apply IH. lia.
Qed.

Lemma byte_land_255 x : 0 <= x < 256 -> Z.land x 255 = x.
Proof. intros H. change 255 with (Z.ones 8). rewrite Z.land_ones by lia. apply Z.mod_small. exact H. Qed.

Lemma lxor_byte a b : 0 <= a < 256 -> 0 <= b < 256 -> 0 <= Z.lxor a b < 256.
Proof.
  intros Ha Hb.
  assert (Ea : a = a mod 2 ^ 8) by (symmetry; apply Z.mod_small; exact Ha).
  assert (Eb : b = b mod 2 ^ 8) by (symmetry; apply Z.mod_small; exact Hb).
  assert (E : Z.lxor a b = (Z.lxor a b) mod 2 ^ 8).
  { apply Z.bits_inj'. intros i Hi. destruct (Z.lt_ge_cases i 8).
    - rewrite Z.mod_pow2_bits_low by lia. reflexivity.
    - rewrite Z.mod_pow2_bits_high by lia. rewrite Z.lxor_spec. rewrite Ea, Eb.
      rewrite !Z.mod_pow2_bits_high by lia. reflexivity. }
  rewrite E. apply Z.mod_pos_bound. lia.
Qed.

Lemma xor_bytes_bytes a : forall b, all_bytes a = true -> all_bytes b = true -> all_bytes (xor_bytes a b) = true.
Proof.
  induction a as [|x a IH]; intros [|y b] Ha Hb; try reflexivity.
  rewrite xor_bytes_cons. cbn [all_bytes forallb] in *.
  apply andb_true_iff in Ha. apply andb_true_iff in Hb. destruct Ha as [Hx Ha], Hb as [Hy Hb].
  apply andb_true_iff. split; [|apply IH; assumption].
  apply is_byte_iff. apply lxor_byte; apply is_byte_iff; assumption.
Qed.

(* masking, unmasking and masking again keeps exactly the masked bits of the original *)
Lemma mask_xor_mask a m k : Z.land (Z.lxor (Z.land (Z.lxor a m) k) m) k = Z.land a k.
Proof.
  apply Z.bits_inj'. intros i Hi.
  rewrite !Z.land_spec, !Z.lxor_spec, !Z.land_spec, !Z.lxor_spec.
  destruct (Z.testbit a i), (Z.testbit m i), (Z.testbit k i); reflexivity.
Qed.

Lemma land_mask_topmask x k : Z.land (Z.land x k) (Z.land (Z.lnot k) 255) = 0.
Proof.
  apply Z.bits_inj'. intros i Hi.
  rewrite !Z.land_spec, Z.lnot_spec by lia. rewrite Z.bits_0.
  destruct (Z.testbit x i), (Z.testbit k i), (Z.testbit 255 i); reflexivity.
Qed.

Lemma zeros_zlen k : 0 <= k -> zlen (zeros k) = k.
Proof. intros H. unfold zeros. rewrite zlen_repeat. lia. Qed.
Lemma zeros_bytes k : all_bytes (zeros k) = true.
Proof. apply all_bytes_repeat. reflexivity. Qed.
Lemma zeros_all_zero k x : In x (zeros k) -> x = 0.
Proof. unfold zeros. intros H. apply repeat_spec in H. exact H. Qed.

(* x[len(a):] and x[:len(a)] on a concatenation *)
Lemma py_slice_app_tail {A} (a b : list A) : py_slice (a ++ b) (Some (zlen a)) None = b.
Proof.
  pose proof (zlen_nonneg a) as Ha. pose proof (zlen_nonneg b) as Hb.
  unfold py_slice. rewrite zlen_app. rewrite clamp_id by lia.
  destruct (zlen a + zlen b <=? zlen a) eqn:E.
  - apply Z.leb_le in E. assert (zlen b = 0) by lia. destruct b as [|x0 b']; [reflexivity|].
    rewrite zlen_cons in H. pose proof (zlen_nonneg b'). lia.
  - rewrite skipn_zlen_app. replace (zlen a + zlen b - zlen a) with (zlen b) by lia.
    unfold zlen. rewrite Nat2Z.id. apply firstn_all.
Qed.

Lemma py_slice_app_head {A} (a b : list A) : py_slice (a ++ b) None (Some (zlen a)) = a.
Proof.
  pose proof (zlen_nonneg a) as Ha. pose proof (zlen_nonneg b) as Hb.
  rewrite py_slice_prefix by (rewrite zlen_app; lia). apply firstn_zlen_app.
Qed.

Lemma b2n_zeros_app j l : bytesToNumber (zeros j ++ l) = bytesToNumber l.
Proof.
  unfold zeros. induction (Z.to_nat j) as [|m IH]; cbn [repeat app]; [reflexivity|].
  rewrite b2n_cons, IH. lia.
Qed.
