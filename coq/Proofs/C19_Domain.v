(* C19 -- validate() and the documented domains *)
From Coq Require Import ZArith List Bool String Lia.
From TV Require Import Base.Prelude Model.C19_Settings Spec.C19_Domain Proofs.C19_Frame Proofs.C19_Pure
                       Proofs.C19_Idem Proofs.C19_Facts Proofs.C19_Supported.
Import ListNotations.
Open Scope Z_scope.

Lemma not_allowed_len_false l ns : not_allowed_len l ns = Ok false -> forallb (fun x => has_len_in x ns) l = true.
Proof.
  induction l as [|x xs IH]; cbn [not_allowed_len forallb]; auto.
  unfold has_len_in. destruct (py_len x) as [n|e]; cbn [bind]; [|discriminate].
  destruct (existsb (Z.eqb n) ns); cbn [negb]; [exact IH|discriminate].
Qed.

Lemma not_allowed_len_true_or l ns b : not_allowed_len l ns = Ok b -> b = false -> forallb (fun x => has_len_in x ns) l = true.
Proof. intros H ->. apply not_allowed_len_false. exact H. Qed.

Lemma existsb_false_forallb {A} (p : A -> bool) l : existsb p l = false -> forallb (fun x => negb (p x)) l = true.
Proof. induction l as [|x xs IH]; cbn [existsb forallb]; auto. destruct (p x); cbn [orb negb andb]; [discriminate|exact IH]. Qed.

Lemma forallb_and {A} (p q : A -> bool) l : forallb p l = true -> forallb q l = true -> forallb (fun x => p x && q x) l = true.
Proof.
  induction l as [|x xs IH]; cbn [forallb]; auto. intros H1 H2.
  apply andb_true_iff in H1. apply andb_true_iff in H2. destruct H1 as [A1 B1], H2 as [A2 B2].
  rewrite A1, A2. cbn [andb]. apply IH; assumption.
Qed.

Lemma isnil_filter_false {A} (p : A -> bool) l : isnil (filter p l) = false -> negb (isnil l) = true.
Proof. destruct l; [discriminate|reflexivity]. Qed.

Lemma shares_enabled (a b : val -> bool) l :
  negb (isnil (filter (fun x => negb (a x) && negb (b x)) l)) = false -> forallb (fun x => a x || b x) l = true.
Proof.
  induction l as [|x xs IH]; cbn [filter forallb]; auto.
  destruct (a x); destruct (b x); cbn [negb andb orb]; try exact IH; discriminate.
Qed.

Lemma vhosts_ok l : forM_ vhost_validate l = Ok tt ->
  forallb (fun x => match x with
                    | VHost keys => negb (isnil keys) && forallb (fun k => fst k && snd k) keys
                    | _ => false end) l = true.
Proof.
  induction l as [|x xs IH]; cbn [forM_ forallb]; auto. intros H.
  apply bind_ok in H. destruct H as [[] [H1 H2]]. rewrite (IH H2), andb_true_r.
  destruct x; try discriminate H1. cbn [vhost_validate] in H1.
  apply bind_ok in H1. destruct H1 as [[] [G1 G2]]. apply guard_ok in G1. apply guard_ok in G2.
  rewrite G1. cbn [negb andb].
  clear -G2. induction keys as [|k ks IHk]; cbn [existsb forallb] in *; auto.
  apply orb_false_iff in G2. destruct G2 as [A B]. apply orb_false_iff in A. destruct A as [A1 A2].
  apply negb_false_iff in A1. apply negb_false_iff in A2. rewrite A1, A2. cbn [andb]. apply IHk. exact B.
Qed.

Lemma vhosts_ok_conv l :
  forallb (fun x => match x with
                    | VHost keys => negb (isnil keys) && forallb (fun k => fst k && snd k) keys
                    | _ => false end) l = true -> forM_ vhost_validate l = Ok tt.
Proof.
  induction l as [|x xs IH]; cbn [forM_ forallb]; auto. intros H. apply andb_true_iff in H. destruct H as [H1 H2].
  rewrite (IH H2). destruct x; try discriminate H1. apply andb_true_iff in H1. destruct H1 as [A B].
  cbn [vhost_validate]. apply negb_true_iff in A. rewrite A. cbn [guard bind].
  assert (E : existsb (fun k : bool * bool => negb (fst k) || negb (snd k)) keys = false).
  { clear -B. induction keys as [|k ks IHk]; cbn [existsb forallb] in *; auto.
    apply andb_true_iff in B. destruct B as [B1 B2]. apply andb_true_iff in B1. destruct B1 as [C1 C2].
    rewrite C1, C2. cbn [negb orb]. apply IHk. exact B2. }
  rewrite E. reflexivity.
Qed.

Lemma forallb_filter_nil {A} (p : A -> bool) l :
  forallb p l = true -> negb (isnil (filter (fun x => negb (p x)) l)) = false.
Proof.
  induction l as [|x xs IH]; cbn [filter forallb]; auto. intros H. apply andb_true_iff in H. destruct H as [H1 H2].
  rewrite H1. cbn [negb]. apply IH. exact H2.
Qed.

Lemma shares_enabled_conv (a b : val -> bool) l :
  forallb (fun x => a x || b x) l = true -> negb (isnil (filter (fun x => negb (a x) && negb (b x)) l)) = false.
Proof.
  induction l as [|x xs IH]; cbn [filter forallb]; auto. intros H. apply andb_true_iff in H. destruct H as [H1 H2].
  destruct (a x); destruct (b x); cbn [negb andb orb] in *; try discriminate H1; apply IH; exact H2.
Qed.

Lemma keyshares_known_conv (a b : val -> bool) l :
  forallb (fun x => b x || a x) l = true -> negb (isnil (filter (fun x => negb (a x) && negb (b x)) l)) = false.
Proof.
  induction l as [|x xs IH]; cbn [filter forallb]; auto. intros H. apply andb_true_iff in H. destruct H as [H1 H2].
  destruct (a x); destruct (b x); cbn [negb andb orb] in *; try discriminate H1; apply IH; exact H2.
Qed.

Lemma not_allowed_len_conv l ns : forallb (fun x => has_len_in x ns) l = true -> not_allowed_len l ns = Ok false.
Proof.
  induction l as [|x xs IH]; cbn [not_allowed_len forallb]; auto. intros H. apply andb_true_iff in H. destruct H as [H1 H2].
  unfold has_len_in in H1. destruct (py_len x) as [n|e]; [|discriminate H1]. cbn [bind]. rewrite H1. cbn [negb]. apply IH. exact H2.
Qed.

Lemma forallb_split {A} (p q : A -> bool) l : forallb (fun x => p x && q x) l = true -> forallb p l = true /\ forallb q l = true.
Proof.
  induction l as [|x xs IH]; cbn [forallb]; auto. intros H. apply andb_true_iff in H. destruct H as [H1 H2].
  apply andb_true_iff in H1. destruct H1 as [Ha Hb]. destruct (IH H2) as [Hc Hd]. rewrite Ha, Hb, Hc, Hd. auto.
Qed.

Lemma forallb_negb_existsb {A} (p : A -> bool) l : forallb (fun x => negb (p x)) l = true -> existsb p l = false.
Proof.
  induction l as [|x xs IH]; cbn [existsb forallb]; auto. intros H. apply andb_true_iff in H. destruct H as [H1 H2].
  apply negb_true_iff in H1. rewrite H1. cbn [orb]. apply IH. exact H2.
Qed.

Ltac zprep :=
  repeat match goal with
  | H : (_ <? _) = false |- _ => apply Z.ltb_ge in H
  | H : (_ >? _) = false |- _ => rewrite Z.gtb_ltb in H; apply Z.ltb_ge in H
  | H : negb (_ && _) = false |- _ => apply negb_false_iff in H; apply andb_true_iff in H; destruct H
  | H : (_ <? _) = true |- _ => apply Z.ltb_lt in H
  | H : (_ <=? _) = true |- _ => apply Z.leb_le in H
  end.
Ltac zfin := zprep; first [apply Z.leb_le; lia | apply Z.ltb_lt; lia].
Ltac bfin :=
  match goal with
  | H : negb ?b = false |- ?b = true => apply negb_false_iff in H; exact H
  | H : ?b = false |- negb ?b = true => rewrite H; reflexivity
  end.

Definition only_VE {A} (m : res A) : Prop := forall e, m = Err e -> e = ValueError.

Lemma only_ok {A} (x : A) : only_VE (Ok x).
Proof. intros e H. discriminate H. Qed.
Lemma only_guard b : only_VE (guard b).
Proof. intros e H. apply guard_err in H. apply H. Qed.
Lemma only_known l t : only_VE (all_known l t).
Proof. apply only_guard. Qed.
Lemma only_bind {A B} (m : res A) (f : A -> res B) : only_VE m -> (forall x, only_VE (f x)) -> only_VE (bind m f).
Proof. intros Hm Hf e H. destruct m as [x|e']; cbn [bind] in H; [apply (Hf x e H)|injection H as <-; apply Hm; reflexivity]. Qed.
Lemma only_if {A} (b : bool) (m1 m2 : res A) : only_VE m1 -> only_VE m2 -> only_VE (if b then m1 else m2).
Proof. destruct b; auto. Qed.
Lemma only_compression l t : only_VE (compression_check l t).
Proof. unfold compression_check. apply only_if; [apply only_ok|apply only_known]. Qed.
Lemma only_vhosts l : forallb is_host l = true -> only_VE (forM_ vhost_validate l).
Proof.
  induction l as [|x xs IH]; cbn [forallb forM_]; [intros _; apply only_ok|].
  intros H. apply andb_true_iff in H. destruct H as [H1 H2]. apply only_bind; [|intros _; apply IH; exact H2].
  destruct x; try discriminate H1. cbn [vhost_validate]. apply only_bind; [apply only_guard|intros _; apply only_guard].
Qed.
Lemma only_len l ns : forallb (fun x => is_tuple x || is_bytes x) l = true -> only_VE (not_allowed_len l ns).
Proof.
  induction l as [|x xs IH]; cbn [forallb not_allowed_len]; [intros _; apply only_ok|].
  intros H. apply andb_true_iff in H. destruct H as [H1 H2].
  destruct x; try discriminate H1; cbn [py_len bind]; apply only_if; try apply only_ok; apply IH; exact H2.
Qed.
Lemma filter_range_typed lo hi l : forallb is_pair l = true -> exists r, filter_range lo hi l = Ok r.
Proof.
  induction l as [|x xs IH]; cbn [forallb filter_range]; [eauto|].
  intros H. apply andb_true_iff in H. destruct H as [H1 H2]. destruct x; try discriminate H1.
  destruct (IH H2) as [r ->]. cbn [bind]. eauto.
Qed.
Lemma forallb_weaken {A} (p q : A -> bool) l : (forall x, p x = true -> q x = true) -> forallb p l = true -> forallb q l = true.
Proof.
  intros Hpq. induction l as [|x xs IH]; cbn [forallb]; auto. intros H. apply andb_true_iff in H. destruct H as [H1 H2].
  rewrite (Hpq x H1), (IH H2). reflexivity.
Qed.

Ltac only_auto :=
  repeat first [ apply only_bind; [|intros ?] | apply only_guard | apply only_known | apply only_ok
               | apply only_compression | apply only_if ].

Section Dom.
Variable T : tables.
Variable I : install.
Variable c : scalars.
Variables x2 x5 x6 x7 x8 x9 x10 x11 x12 x13 x14 x15 x16 x17 x18 x19 x20 x21 : list val.
Notation W := (V x2 x5 x6 x7 x8 x9 x10 x11 x12 x13 x14 x15 x16 x17 x18 x19 x20 x21).

Lemma accepted_in_enforced_domain_V x0 x1 x3 x4 v' :
  cvalidate T I (W x0 x1 x3 x4) c = Ok v' ->
  in_domain T (W x0 x1 x3 x4, c) = true.
Proof.
  intros H. destruct (cvalidate_V_inv T I c _ _ _ _ _ _ _ _ _ _ _ _ _ _ _ _ _ _ x0 x1 x3 x4 v' H)
    as [y4 [EA [Hy [EE [EC [NI [NC ->]]]]]]].
  unfold cchecks_A, sanityCheckKeySizes, sanityCheckPrimitivesNames, sanityCheckCipherSettings,
    sanityCheckDHSettings, sanityCheckECDHSettings, sanityCheckProtocolVersions_raises in EA.
  unfold sanityCheckExtensions, sanityCheckEMSExtension in EE.
  unfold cchecks_C, sanityCheckPsks, sanityCheckTicketSettings in EC.
  unfold dc_sig_algs_forbidden in EE.
  cbv zeta in EA, EE, EC.
  cbn [nth V F_cipherNames F_macNames F_keyExchangeNames F_cipherImplementations F_versions F_ec_point_formats
       F_ticketKeys F_certificate_compression_send F_certificate_compression_receive F_dc_sig_algs F_certificateTypes
       F_rsaSigHashes F_rsaSchemes F_dsaSigHashes F_ecdsaSigHashes F_more_sig_schemes F_virtual_hosts F_eccCurves
       F_dhGroups F_keyShares F_pskConfigs F_psk_modes] in EA, EE, EC.
  split_all.
  unfold in_domain, all_dims. cbn [forallb dom]. unfold VG, VS.
  cbn [fst snd nth V F_cipherNames F_macNames F_keyExchangeNames F_cipherImplementations F_versions F_ec_point_formats
       F_ticketKeys F_certificate_compression_send F_certificate_compression_receive F_dc_sig_algs F_certificateTypes
       F_rsaSigHashes F_rsaSchemes F_dsaSigHashes F_ecdsaSigHashes F_more_sig_schemes F_virtual_hosts F_eccCurves
       F_dhGroups F_keyShares F_pskConfigs F_psk_modes].
  repeat (apply andb_true_iff; split); try assumption; try reflexivity.
  all: try solve [bfin].
  all: try solve [zfin].
  all: try solve [match goal with H : forM_ vhost_validate _ = Ok tt |- _ => apply vhosts_ok; exact H end].
  all: try solve [eapply isnil_filter_false; eassumption].
  all: try solve [match goal with H : negb (isnil (filter _ ?l)) = false |- forallb _ ?l = true =>
                    first [apply shares_enabled; exact H | apply keyshares_known; exact H
                          | apply negb_isnil_filter_forallb; exact H] end].
  - match goal with H : (if ?b then all_known _ _ else Ok tt) = Ok tt |- _ =>
      destruct b; [apply all_known_sub; exact H|reflexivity] end.
  - match goal with H : dhParams_bad (dhParams c) = false |- _ => unfold dhParams_bad in H; destruct (dhParams c) as [[|a [|b [|d r]]]|];
      try reflexivity; try discriminate H end.
    match goal with Hq : negb (is_int _) || negb (is_int _) = false |- _ => apply orb_false_iff in Hq; destruct Hq as [A B] end.
    apply negb_false_iff in A. apply negb_false_iff in B. rewrite A, B. reflexivity.
  - unfold ver_le. match goal with H : ver_lt (maxVersion c) (minVersion c) = false |- _ => rewrite H; reflexivity end.
  - destruct (record_size_limit c); [|reflexivity]. bfin.
  - apply forallb_and; [apply not_allowed_len_false; assumption|apply existsb_false_forallb; assumption].
  - apply not_allowed_len_false; assumption.
Qed.

(* under `typed`, the only exception class is ValueError *)
Lemma typed_errors_V x0 x1 x3 x4 e :
  typed (W x0 x1 x3 x4, c) = true -> cvalidate T I (W x0 x1 x3 x4) c = Err e -> e = ValueError.
Proof.
  intros Ty. unfold typed, VG, VS in Ty.
  cbn [fst snd nth V F_versions F_ticketKeys F_virtual_hosts F_pskConfigs F_dc_sig_algs F_ec_point_formats] in Ty.
  repeat (apply andb_true_iff in Ty; destruct Ty as [Ty ?]).
  rewrite cvalidate_unfold, versions_W.
  assert (OA : only_VE (cchecks_A T (W x0 x1 x3 x4) c)).
  { unfold cchecks_A, sanityCheckKeySizes, sanityCheckPrimitivesNames, sanityCheckCipherSettings,
      sanityCheckDHSettings, sanityCheckECDHSettings, sanityCheckProtocolVersions_raises. cbv zeta.
    change (nth F_virtual_hosts (W x0 x1 x3 x4) []) with x16.
    only_auto. apply only_vhosts. assumption. }
  assert (OE : only_VE (sanityCheckExtensions T (W x0 x1 x3 x4) c)).
  { unfold sanityCheckExtensions, sanityCheckEMSExtension. cbv zeta. only_auto. }
  assert (OC : only_VE (cchecks_C T (W x0 x1 x3 x4) c)).
  { unfold cchecks_C, sanityCheckPsks, sanityCheckTicketSettings. cbv zeta.
    change (nth F_pskConfigs (W x0 x1 x3 x4) []) with x20. change (nth F_ticketKeys (W x0 x1 x3 x4) []) with x6.
    only_auto.
    - apply only_len. eapply forallb_weaken; [|eassumption]. intros v Hv. rewrite Hv. reflexivity.
    - apply only_len. eapply forallb_weaken; [|eassumption]. intros v Hv. rewrite Hv. apply orb_true_r.
    - apply only_len. eapply forallb_weaken; [|eassumption]. intros v Hv. rewrite Hv. apply orb_true_r. }
  intros Hc.
  destruct (cchecks_A T (W x0 x1 x3 x4) c) as [[]|ea] eqn:EA; [|injection Hc as <-; apply OA; reflexivity].
  assert (K : forall y4, ctail T I c (W x0 x1 x3 x4) (W x0 x1 x3 y4) = Err e -> e = ValueError).
  { intros y4 Ht. rewrite ctail_spec in Ht.
    destruct (sanityCheckExtensions T (W x0 x1 x3 x4) c) as [[]|ee]; [|injection Ht as <-; apply OE; reflexivity].
    destruct (cchecks_C T (W x0 x1 x3 x4) c) as [[]|ec]; [|injection Ht as <-; apply OC; reflexivity].
    destruct (isnil (filter (impl_available I) x3)); [injection Ht as <-; reflexivity|].
    destruct (isnil (filter (pcipher I) x0)); [injection Ht as <-; reflexivity|discriminate Ht]. }
  match goal with Hp : forallb is_pair x4 = true |- _ =>
    destruct (filter_range_typed (clip_lo (minVersion c)) (maxVersion c) x4 Hp) as [r Er] end.
  rewrite Er in Hc. apply (K r). exact Hc.
Qed.

Lemma bind_intro (m : res unit) (f : unit -> res unit) : m = Ok tt -> f tt = Ok tt -> bind m f = Ok tt.
Proof. intros -> H. exact H. Qed.

Lemma accepts_V x0 x1 x3 x4 :
  typed (W x0 x1 x3 x4, c) = true -> in_domain T (W x0 x1 x3 x4, c) = true ->
  something_supported I (W x0 x1 x3 x4, c) = true ->
  exists v', cvalidate T I (W x0 x1 x3 x4) c = Ok v'.
Proof.
  intros Ty D S.
  unfold typed, VG, VS in Ty.
  cbn [fst snd nth V F_versions F_ticketKeys F_virtual_hosts F_pskConfigs F_dc_sig_algs F_ec_point_formats] in Ty.
  repeat (apply andb_true_iff in Ty; destruct Ty as [Ty ?]).
  unfold something_supported, VG in S. cbn [fst nth V F_cipherImplementations F_cipherNames] in S.
  apply andb_true_iff in S. destruct S as [S1 S2].
  unfold in_domain, all_dims in D. cbn [forallb dom] in D. unfold VG, VS in D.
  cbn [fst snd nth V F_cipherNames F_macNames F_keyExchangeNames F_cipherImplementations F_versions F_ec_point_formats
       F_ticketKeys F_certificate_compression_send F_certificate_compression_receive F_dc_sig_algs F_certificateTypes
       F_rsaSigHashes F_rsaSchemes F_dsaSigHashes F_ecdsaSigHashes F_more_sig_schemes F_virtual_hosts F_eccCurves
       F_dhGroups F_keyShares F_pskConfigs F_psk_modes] in D.
  repeat match goal with Hd : _ && _ = true |- _ => apply andb_true_iff in Hd; destruct Hd end.
  rewrite cvalidate_unfold, versions_W.
  assert (EA : cchecks_A T (W x0 x1 x3 x4) c = Ok tt).
  { unfold cchecks_A, sanityCheckKeySizes, sanityCheckPrimitivesNames, sanityCheckCipherSettings,
      sanityCheckDHSettings, sanityCheckECDHSettings, sanityCheckProtocolVersions_raises. cbv zeta.
    cbn [nth V F_cipherNames F_macNames F_keyExchangeNames F_cipherImplementations F_versions F_ec_point_formats
       F_ticketKeys F_certificate_compression_send F_certificate_compression_receive F_dc_sig_algs F_certificateTypes
       F_rsaSigHashes F_rsaSchemes F_dsaSigHashes F_ecdsaSigHashes F_more_sig_schemes F_virtual_hosts F_eccCurves
       F_dhGroups F_keyShares F_pskConfigs F_psk_modes].
    repeat (apply bind_intro).
    all: try solve [apply sub_all_known; assumption].
    all: try solve [apply guard_ok; match goal with Hx : ?x = true |- negb ?x = false => rewrite Hx; reflexivity end].
    all: try solve [apply guard_ok; zprep; first [apply Z.ltb_ge; lia | rewrite Z.gtb_ltb; apply Z.ltb_ge; lia]].
    all: try solve [apply guard_ok; match goal with Hx : negb ?x = true |- ?x = false => apply negb_true_iff in Hx; exact Hx end].
    all: try solve [apply vhosts_ok_conv; assumption].
    all: try solve [apply guard_ok; first [apply shares_enabled_conv; assumption | apply keyshares_known_conv; assumption]].
    - match goal with Hx : (if ?b then sub_tab _ _ else true) = true |- _ =>
        destruct b; [apply sub_all_known; exact Hx|reflexivity] end.
    - apply guard_ok. unfold dhParams_bad.
      match goal with Hx : match dhParams c with _ => _ end = true |- _ =>
        destruct (dhParams c) as [[|a [|b [|d r]]]|]; try reflexivity; try discriminate Hx;
        apply andb_true_iff in Hx; destruct Hx as [Ha Hb]; rewrite Ha, Hb; reflexivity end.
    - apply guard_ok. match goal with Hx : ver_le (minVersion c) (maxVersion c) = true |- _ =>
        unfold ver_le in Hx; apply negb_true_iff in Hx; exact Hx end. }
  rewrite EA.
  assert (EE : sanityCheckExtensions T (W x0 x1 x3 x4) c = Ok tt).
  { unfold sanityCheckExtensions, sanityCheckEMSExtension, dc_sig_algs_forbidden. cbv zeta.
    cbn [nth V F_ec_point_formats F_dc_sig_algs F_certificate_compression_send F_certificate_compression_receive].
    repeat (apply bind_intro).
    all: try solve [apply guard_ok; match goal with Hx : ?x = true |- negb ?x = false => rewrite Hx; reflexivity end].
    all: try solve [apply guard_ok; match goal with Hx : negb ?x = true |- ?x = false => apply negb_true_iff in Hx; exact Hx end].
    all: try solve [apply guard_ok; zprep; first [apply Z.ltb_ge; lia | rewrite Z.gtb_ltb; apply Z.ltb_ge; lia]].
    all: try solve [apply guard_ok; apply forallb_filter_nil; assumption].
    all: try solve [unfold compression_check; match goal with |- (if isnil ?l then _ else _) = _ => destruct l; [reflexivity|apply sub_all_known; assumption] end].
    - apply guard_ok. destruct (record_size_limit c); [|reflexivity].
      match goal with Hx : (_ <=? _) && (_ <=? _) = true |- _ => rewrite Hx; reflexivity end. }
  assert (EC : cchecks_C T (W x0 x1 x3 x4) c = Ok tt).
  { unfold cchecks_C, sanityCheckPsks, sanityCheckTicketSettings. cbv zeta.
    cbn [nth V F_pskConfigs F_psk_modes F_ticketKeys].
    match goal with Hx : forallb (fun x => has_len_in x [2; 3] && negb (bad_psk_hash x)) x20 = true |- _ =>
      apply forallb_split in Hx; destruct Hx as [P1 P2] end.
    rewrite (not_allowed_len_conv _ _ P1). cbn [bind guard]. rewrite (forallb_negb_existsb _ _ P2). cbn [bind guard].
    match goal with Hx : forallb (fun x => has_len_in x [ticket_key_len (ticketCipher c)]) x6 = true |- _ =>
      pose proof Hx as TK2 end.
    assert (TK : forallb (fun x => has_len_in x [16; 32]) x6 = true).
    { eapply forallb_weaken; [|exact TK2].
      intros v. unfold has_len_in. destruct (py_len v) as [n|]; [|auto]. unfold ticket_key_len.
      destruct (in_tab (ticketCipher c) aes128_ticket_ciphers); cbn [existsb]; intros Hn; rewrite orb_false_r in Hn;
        rewrite Hn; [reflexivity|apply orb_true_r]. }
    rewrite (not_allowed_len_conv _ _ TK). cbn [bind guard]. rewrite (not_allowed_len_conv _ _ TK2). cbn [bind guard].

    repeat (apply bind_intro).
    all: try solve [apply sub_all_known; assumption].
    all: try solve [apply guard_ok; match goal with Hx : ?x = true |- negb ?x = false => rewrite Hx; reflexivity end].
    all: try solve [apply guard_ok; match goal with Hx : ?a = true, Hy : ?b = true |- negb (?a && ?b) = false => rewrite Hx, Hy; reflexivity end].
    apply guard_ok. apply negb_false_iff. apply andb_true_iff. split; zprep; [apply Z.ltb_lt; lia|apply Z.leb_le; lia]. }
  assert (PC : filter (pcipher I) x0 = filter (cipher_available I) x0).
  { apply filter_ext. intros a. unfold pcipher, cipher_available, not_3des. destruct (i_tdes I); cbn [negb].
    - rewrite andb_false_r. reflexivity.
    - rewrite andb_true_r. reflexivity. }
  assert (K : forall y4, exists v', ctail T I c (W x0 x1 x3 x4) (W x0 x1 x3 y4) = Ok v').
  { intros y4. rewrite ctail_spec, EE, EC, PC.
    apply negb_true_iff in S1. apply negb_true_iff in S2. rewrite S1, S2. eauto. }
  match goal with Hp : forallb is_pair x4 = true |- _ =>
    destruct (filter_range_typed (clip_lo (minVersion c)) (maxVersion c) x4 Hp) as [r Er] end.
  rewrite Er. apply K.
Qed.
End Dom.

Lemma accepted_in_enforced_domain T I v c v' :
  List.length v = NF -> cvalidate T I v c = Ok v' -> in_domain T (v, c) = true.
Proof.
  intros Len H.
  destruct v as [|x0 [|x1 [|x2 [|x3 [|x4 [|x5 [|x6 [|x7 [|x8 [|x9 [|x10 [|x11 [|x12 [|x13 [|x14 [|x15 [|x16
               [|x17 [|x18 [|x19 [|x20 [|x21 [|x22 r]]]]]]]]]]]]]]]]]]]]]]]; try discriminate Len.
  exact (accepted_in_enforced_domain_V T I c x2 x5 x6 x7 x8 x9 x10 x11 x12 x13 x14 x15 x16 x17 x18 x19 x20 x21 x0 x1 x3 x4 v' H).
Qed.

Lemma typed_errors T I v c e :
  List.length v = NF -> typed (v, c) = true -> cvalidate T I v c = Err e -> e = ValueError.
Proof.
  intros Len.
  destruct v as [|x0 [|x1 [|x2 [|x3 [|x4 [|x5 [|x6 [|x7 [|x8 [|x9 [|x10 [|x11 [|x12 [|x13 [|x14 [|x15 [|x16
               [|x17 [|x18 [|x19 [|x20 [|x21 [|x22 r]]]]]]]]]]]]]]]]]]]]]]]; try discriminate Len.
  exact (typed_errors_V T I c x2 x5 x6 x7 x8 x9 x10 x11 x12 x13 x14 x15 x16 x17 x18 x19 x20 x21 x0 x1 x3 x4 e).
Qed.

Lemma accepts_inside T I v c :
  List.length v = NF -> typed (v, c) = true -> in_domain T (v, c) = true -> something_supported I (v, c) = true ->
  exists v', cvalidate T I v c = Ok v'.
Proof.
  intros Len.
  destruct v as [|x0 [|x1 [|x2 [|x3 [|x4 [|x5 [|x6 [|x7 [|x8 [|x9 [|x10 [|x11 [|x12 [|x13 [|x14 [|x15 [|x16
               [|x17 [|x18 [|x19 [|x20 [|x21 [|x22 r]]]]]]]]]]]]]]]]]]]]]]]; try discriminate Len.
  exact (accepts_V T I c x2 x5 x6 x7 x8 x9 x10 x11 x12 x13 x14 x15 x16 x17 x18 x19 x20 x21 x0 x1 x3 x4).
Qed.

(* outside the domain of a dimension that validate() enforces: rejected, with ValueError *)
Lemma forallb_false_dim T v : forallb (fun d => dom T d v) all_dims = false -> exists d, dom T d v = false.
Proof.
  generalize all_dims. induction l as [|d ds IH]; cbn [forallb]; [discriminate|].
  destruct (dom T d v) eqn:E; [exact IH|eauto].
Qed.

Lemma all_dims_complete d : In d all_dims.
Proof. destruct d; cbn; tauto. Qed.

Lemma rejects_outside T I v c d :
  List.length v = NF -> typed (v, c) = true -> dom T d (v, c) = false -> cvalidate T I v c = Err ValueError.
Proof.
  intros Len Ty D.
  destruct (cvalidate T I v c) as [v'|e] eqn:E.
  - pose proof (accepted_in_enforced_domain T I v c v' Len E) as A. unfold in_domain in A. rewrite forallb_forall in A.
    rewrite (A d (all_dims_complete d)) in D. discriminate D.
  - f_equal. eapply typed_errors; eassumption.
Qed.

(* ---- on the by-reference model --------------------------------------------------------------- *)
Lemma validate_rejects_heap T I h s d :
  wf h s = true -> typed (view h s) = true -> dom T d (view h s) = false ->
  snd (validate T I h s) = Err ValueError.
Proof.
  intros W Ty D.
  pose proof (validate_refines_contents_lemma T I h s W) as R.
  assert (Len : List.length (lists h s) = NF) by (rewrite lists_length; apply (wf_length h s W)).
  pose proof (rejects_outside T I (lists h s) (sc s) d Len Ty D) as Rej.
  destruct (validate T I h s) as [h' [s'|e]]; cbn [snd].
  - destruct R as [R _]. rewrite Rej in R. discriminate R.
  - rewrite Rej in R. injection R as <-. reflexivity.
Qed.

Lemma validate_accepts_heap T I h s :
  wf h s = true -> typed (view h s) = true ->
  in_domain T (view h s) = true -> something_supported I (view h s) = true ->
  is_ok (snd (validate T I h s)) = true.
Proof.
  intros W Ty D S.
  pose proof (validate_refines_contents_lemma T I h s W) as R.
  assert (Len : List.length (lists h s) = NF) by (rewrite lists_length; apply (wf_length h s W)).
  destruct (accepts_inside T I (lists h s) (sc s) Len Ty D S) as [v' Acc].
  destruct (validate T I h s) as [h' [s'|e]]; cbn [snd is_ok]; [reflexivity|].
  rewrite Acc in R. discriminate R.
Qed.

Lemma validate_typed_errors_heap T I h s h' e :
  wf h s = true -> typed (view h s) = true -> validate T I h s = (h', Err e) -> e = ValueError.
Proof.
  intros W Ty H.
  pose proof (validate_refines_contents_lemma T I h s W) as R. rewrite H in R.
  eapply typed_errors; [|exact Ty|exact R]. rewrite lists_length. apply (wf_length h s W).
Qed.

(* accepted <-> inside the documented domains, for typed objects on an installation that supports
   something of what they name *)
Lemma validate_accepts_iff T I h s :
  wf h s = true -> typed (view h s) = true -> something_supported I (view h s) = true ->
  is_ok (snd (validate T I h s)) = in_domain T (view h s).
Proof.
  intros W Ty S. destruct (in_domain T (view h s)) eqn:D.
  - apply validate_accepts_heap; assumption.
  - unfold in_domain in D. destruct (forallb_false_dim T (view h s) D) as [d Hd].
    rewrite (validate_rejects_heap T I h s d W Ty Hd). reflexivity.
Qed.
