(* C04 -- proofs about Model/C04_Tamper.v *)
From Coq Require Import ZArith List Bool Lia.
From TV Require Import Base.Prelude Model.C04_Tamper.
Import ListNotations.
Open Scope Z_scope.

(* ---- decidable equalities are sound -------------------------------------------- *)
Lemma lists_eqb_sound {A} (eq : A -> A -> bool) :
  (forall x y, eq x y = true -> x = y) -> forall a b, lists_eqb eq a b = true -> a = b.
Proof.
  intros H a. induction a as [|x xs IH]; intros [|y ys] E; cbn in E; try discriminate; [reflexivity|].
  apply andb_true_iff in E. destruct E as [E1 E2]. f_equal; [apply H; exact E1|apply IH; exact E2].
Qed.

Lemma lists_eqb_refl {A} (eq : A -> A -> bool) :
  (forall x, eq x x = true) -> forall a, lists_eqb eq a a = true.
Proof. intros H a. induction a as [|x xs IH]; cbn; [reflexivity|]. rewrite H, IH. reflexivity. Qed.

Lemma zl_eqb_sound a b : zl_eqb a b = true -> a = b.
Proof. apply lists_eqb_sound. intros x y H. apply Z.eqb_eq. exact H. Qed.

Lemma zl_eqb_refl a : zl_eqb a a = true.
Proof. apply lists_eqb_refl. apply Z.eqb_refl. Qed.

Lemma ext_eqb_sound a b : ext_eqb a b = true -> a = b.
Proof.
  destruct a as [t p], b as [u q]. unfold ext_eqb. cbn [fst snd]. intros H.
  apply andb_true_iff in H. destruct H as [H1 H2]. apply Z.eqb_eq in H1. apply zl_eqb_sound in H2.
  subst. reflexivity.
Qed.

Lemma ch_eqb_sound a b : ch_eqb a b = true -> a = b.
Proof.
  destruct a, b. unfold ch_eqb. cbn. intros H.
  repeat (apply andb_true_iff in H; destruct H as [H ?]).
  apply Z.eqb_eq in H.
  repeat match goal with
         | X : (_ =? _) = true |- _ => apply Z.eqb_eq in X
         | X : zl_eqb _ _ = true |- _ => apply zl_eqb_sound in X
         | X : lists_eqb ext_eqb _ _ = true |- _ => apply (lists_eqb_sound _ ext_eqb_sound) in X
         | X : lists_eqb zl_eqb _ _ = true |- _ => apply (lists_eqb_sound _ zl_eqb_sound) in X
         end.
  subst. reflexivity.
Qed.

(* ---- flight shapes ---------------------------------------------------------------- *)
Lemma get_fin_flight_app l : forall b v, get_fin_flight l = Some (b, v) -> l = b ++ [MFin v].
Proof.
  induction l as [|m r IH]; intros b v H; [discriminate|].
  cbn [get_fin_flight] in H.
  destruct r as [|m' r'].
  - destruct m; try discriminate. injection H as <- <-. reflexivity.
  - destruct (get_fin_flight (m' :: r')) as [[b' v']|] eqn:E.
    + assert (Hm : Some (m :: b', v') = Some (b, v)) by (destruct m; exact H).
      injection Hm as <- <-. cbn [app]. f_equal. apply IH. reflexivity.
    + destruct m; discriminate.
Qed.

Lemma get_fin_flight_in l b v : get_fin_flight l = Some (b, v) -> In (MFin v) l.
Proof. intros H. apply get_fin_flight_app in H. subst. apply in_or_app. right. left. reflexivity. Qed.

Lemma get_ch_eq l c : get_ch l = Some c -> l = [MCH c].
Proof.
  destruct l as [|m [|m' r]]; cbn; try discriminate; destruct m; try discriminate.
  intros H. injection H as <-. reflexivity.
Qed.

Lemma get_sh_flight_eq l s r : get_sh_flight l = Some (s, r) -> l = MSH s :: r.
Proof.
  destruct l as [|m r']; cbn; try discriminate. destruct m; try discriminate.
  intros H. injection H as <- <-. reflexivity.
Qed.

Lemma app_inj_tail_msg (a b : list msg) x y : a ++ [x] = b ++ [y] -> a = b /\ x = y.
Proof. apply app_inj_tail. Qed.

Lemma negb_false_eqb a b : negb (zl_eqb a b) = false -> a = b.
Proof. intros H. apply negb_false_iff in H. apply zl_eqb_sound. exact H. Qed.

(* ---- second ClientHello: what hrr_second_ok forces ------------------------------------ *)
Lemma hrr_expected_basic ck c1 c2 c :
  hrr_expected ck c1 c2 = Some c ->
  ch_ver c = ch_ver c1 /\ ch_rand c = ch_rand c1 /\ ch_sid c = ch_sid c1 /\
  ch_suites c = ch_suites c1 /\ ch_comp c = ch_comp c1.
Proof.
  unfold hrr_expected. intros Ee.
  repeat match type of Ee with
         | context [match ?x with _ => _ end] => destruct x eqn:?; try discriminate Ee
         end.
  all: injection Ee as <-; cbn [ch_ver ch_rand ch_sid ch_suites ch_comp]; repeat split; reflexivity.
Qed.

Lemma hrr_second_ok_basic ck g c1 c2 :
  hrr_second_ok ck g c1 c2 = true ->
  ch_ver c1 = ch_ver c2 /\ ch_rand c1 = ch_rand c2 /\ ch_sid c1 = ch_sid c2 /\
  ch_suites c1 = ch_suites c2 /\ ch_comp c1 = ch_comp c2 /\
  (exists share, find_ext X_KEYSHARE (ch_exts c2) = Some [g; share]) /\
  hrr_expected ck c1 c2 = Some c2.
Proof.
  unfold hrr_second_ok.
  destruct (find_ext X_KEYSHARE (ch_exts c2)) as [[|g' [|sh [|? ?]]]|] eqn:Eks; try discriminate.
  intros H. apply andb_true_iff in H. destruct H as [Hg H]. apply Z.eqb_eq in Hg. subst g'.
  destruct (hrr_expected ck c1 c2) as [c|] eqn:Ee; [|discriminate].
  apply ch_eqb_sound in H. subst c.
  destruct (hrr_expected_basic _ _ _ _ Ee) as [A [B [C [D E']]]].
  repeat split; try (symmetry; assumption).
  eexists. reflexivity.
Qed.

(* the extension list outside the permitted types survives every edit of hrr_expected *)
Definition np (e : ext) : bool := negb (hrr_permitted (fst e)).

Lemma F_replace t p l : hrr_permitted t = true -> filter np (replace_ext t p l) = filter np l.
Proof.
  intros Ht. induction l as [|[u q] r IH]; cbn [replace_ext]; [reflexivity|].
  destruct (u =? t) eqn:E.
  - apply Z.eqb_eq in E. subst u. cbn [filter].
    assert (N : forall x, np (t, x) = false) by (intros x; unfold np; cbn [fst]; rewrite Ht; reflexivity).
    rewrite !N. reflexivity.
  - cbn [filter]. rewrite IH. reflexivity.
Qed.

Lemma F_remove t l : hrr_permitted t = true -> filter np (remove_ext t l) = filter np l.
Proof.
  intros Ht. induction l as [|[u q] r IH]; cbn [remove_ext]; [reflexivity|].
  destruct (u =? t) eqn:E.
  - apply Z.eqb_eq in E. subst u. cbn [filter].
    assert (N : np (t, q) = false) by (unfold np; cbn [fst]; rewrite Ht; reflexivity).
    rewrite N. exact IH.
  - cbn [filter]. rewrite IH. reflexivity.
Qed.

Lemma filter_app_np (a b : list ext) : filter np (a ++ b) = filter np a ++ filter np b.
Proof. induction a as [|x xs IH]; cbn [app filter]; [reflexivity|]. destruct (np x); cbn [app]; rewrite IH; reflexivity. Qed.

Lemma F_insert i t p l : hrr_permitted t = true -> filter np (insert_at i (t, p) l) = filter np l.
Proof.
  intros Ht. unfold insert_at. rewrite filter_app_np. cbn [filter].
  assert (N : np (t, p) = false) by (unfold np; cbn [fst]; rewrite Ht; reflexivity).
  rewrite N. rewrite <- filter_app_np. rewrite firstn_skipn. reflexivity.
Qed.

Lemma hrr_second_ok_fixed_nopsk cookie group c1 c2 :
  find_ext X_PSK (ch_exts c2) = None ->
  hrr_second_ok cookie group c1 c2 = true ->
  ch_fixed_part c1 = ch_fixed_part c2 /\
  exists share, find_ext X_KEYSHARE (ch_exts c2) = Some [group; share].
Proof.
  intros Hn H. apply hrr_second_ok_basic in H.
  destruct H as [A [B [C [D [E [G Ee]]]]]]. split; [|exact G].
  unfold ch_fixed_part. rewrite A, B, C, D, E. f_equal.
  fold np.
  unfold hrr_expected in Ee. rewrite Hn in Ee.
  assert (PK : hrr_permitted X_KEYSHARE = true) by reflexivity.
  assert (PC : hrr_permitted X_COOKIE = true) by reflexivity.
  assert (PP : hrr_permitted X_PADDING = true) by reflexivity.
  assert (PE : hrr_permitted X_EARLY = true) by reflexivity.
  cbv zeta in Ee.
  repeat match type of Ee with
         | context [match ?x with _ => _ end] =>
             lazymatch x with
             | context [match _ with _ => _ end] => fail
             | _ => destruct x eqn:?; try discriminate Ee
             end
         end.
  all: injection Ee as Ee; rewrite <- Ee; cbn [ch_exts].
  all: repeat first [ rewrite (F_remove _ _ PE) | rewrite (F_remove _ _ PP) | rewrite (F_replace _ _ _ PP)
                    | rewrite (F_insert _ _ _ _ PP) | rewrite (F_insert _ _ _ _ PC) | rewrite (F_replace _ _ _ PK) ].
  all: reflexivity.
Qed.

(* ---- the client puts TLS_FALLBACK_SCSV on the wire whenever it is requested ---------------- *)
Lemma scsv_sent ver rand fsid real session exts :
  memZ FALLBACK_SCSV (ch_suites (client_first_hello ver rand fsid real true session exts)) = true.
Proof.
  unfold client_first_hello, client_hello_suites, memZ. cbn [ch_suites].
  apply existsb_exists. exists FALLBACK_SCSV. split; [|apply Z.eqb_refl].
  right. apply in_or_app. right. left. reflexivity.
Qed.

Lemma scsv_not_sent_unrequested ver rand fsid real session exts :
  memZ FALLBACK_SCSV real = false ->
  memZ FALLBACK_SCSV (ch_suites (client_first_hello ver rand fsid real false session exts)) = false.
Proof.
  unfold client_first_hello, client_hello_suites, memZ. cbn [ch_suites existsb]. intros H.
  rewrite app_nil_r. rewrite H. reflexivity.
Qed.

Local Arguments app : simpl never.

Section Ideal.
  Variable hash : Z -> transcript -> list Z.
  Variable fin : Z -> Z -> list Z -> list Z.
  Variable prf_of : Z -> Z -> Z.
  Variable suite_ok : Z -> Z -> bool.
  Variables cmin cmax smin smax : Z.
  Variable c_hello : chello.
  Variable s_ch_ok : chello -> bool.
  Variable s_reply12 : Z -> chello -> option (shello * list msg).
  Variable c_extra_ok : chello -> shello -> bool.
  Variable c_flight12 : transcript -> list msg.
  Variable s_flight_ok : transcript -> list msg -> bool.
  Variable c_flight_ok : transcript -> list msg -> bool.
  Variable s_nst : transcript -> list msg.
  Variable c_key s_key : transcript -> Z.
  Variable s_resume : Z -> chello -> option (shello * Z).
  Variable c_sess_key : Z.
  Variable s_hrr : chello -> option (shello * option (list Z) * Z).
  Variable c_hello2 : chello -> shello -> option chello.
  Variable s_reply13 : transcript -> chello -> option (shello * list msg * option (nat * Z)).
  Variable c_psk_keys : list Z.
  Variable c_flight13 : transcript -> list msg.
  Variable psk_alg : Z -> Z.

  (* H-ideal-hash: the transcript hash is collision free (also across algorithms) *)
  Hypothesis H_ideal_hash : forall a t a' t', hash a t = hash a' t' -> a = a' /\ t = t'.
  (* H-ideal-PRF: verify_data determines key, label and digest *)
  Hypothesis H_ideal_prf : forall k l d k' l' d', fin k l d = fin k' l' d' -> k = k' /\ l = l' /\ d = d'.

  Notation R12 := (run12 hash fin prf_of suite_ok cmin cmax smin smax c_hello s_ch_ok s_reply12 c_extra_ok
                         c_flight12 s_flight_ok c_flight_ok s_nst c_key s_key).
  Notation R12r := (run12r hash fin prf_of suite_ok cmin cmax smin smax c_hello s_ch_ok c_extra_ok
                           s_resume c_sess_key).
  Notation R13 := (run13 hash fin prf_of suite_ok cmin cmax smin smax c_hello s_ch_ok c_extra_ok
                         s_flight_ok c_flight_ok c_key s_key s_hrr c_hello2 s_reply13 c_psk_keys c_flight13 psk_alg).
  Notation UNF := (unforgeable fin).

  Ltac brk H :=
    match type of H with
    | context [match ?x with _ => _ end] =>
        let E := fresh "E" in destruct x eqn:E; cbn [o_c o_s stop] in H; try discriminate H
    end.

  (* ------------------------------------------------------------------------------- *)
  Lemma run12_agree a1 a2 a3 a4 c s :
    o_c (R12 a1 a2 a3 a4) = Some c -> o_s (R12 a1 a2 a3 a4) = Some s ->
    UNF (R12 a1 a2 a3 a4) -> c = s.
  Proof.
    unfold run12. cbv zeta.
    intros Hc Hs Hu.
    repeat (brk Hc; try (cbn [o_c o_s stop] in Hs; discriminate Hs)).
    all: cbn [o_c o_s o_emit o_keys o_dlv] in *.
    injection Hc as <-. injection Hs as <-.
    match goal with E : get_fin_flight (a4 _) = Some (?b, ?v) |- _ =>
      pose proof (get_fin_flight_in _ _ _ E) as Hin; pose proof (get_fin_flight_app _ _ _ E) as Happ end.
    repeat match goal with X : negb (zl_eqb _ _) = false |- _ => apply negb_false_eqb in X end.
    match goal with X : ?v = fin (c_key ?T) L_SERVER ?d |- _ =>
      assert (Hem := Hu v (c_key T) L_SERVER d) end.
    cbn [o_dlv o_keys o_emit] in Hem.
    match type of Hem with ?A -> ?B -> ?C -> _ =>
      assert (HA : A) by (repeat (apply in_or_app; right); exact Hin);
      assert (HB : B) by (left; reflexivity) end.
    match goal with X : ?v = fin (c_key ?T) L_SERVER ?d |- _ => specialize (Hem HA HB X); rename X into Hv4 end.
    destruct Hem as [Hem|[Hem|[]]].
    - rewrite Hv4 in Hem. apply H_ideal_prf in Hem. destruct Hem as [_ [Hl _]]. discriminate Hl.
    - pose proof Hem as Hem0. rewrite Hv4 in Hem. apply H_ideal_prf in Hem. destruct Hem as [Hk [_ Hd]].
      apply H_ideal_hash in Hd. destruct Hd as [_ Ht].
      rewrite <- Hem0.
      pose proof Ht as Ht2. repeat rewrite <- app_comm_cons in Ht2.
      injection Ht2 as Hch Hsh _.
      f_equal; [rewrite Ht; reflexivity | symmetry; exact Hk | symmetry; exact Hch | symmetry; exact Hsh].
  Qed.

  (* ------------------------------------------------------------------------------- *)
  Lemma run12r_agree a1 a2 a3 c s :
    o_c (R12r a1 a2 a3) = Some c -> o_s (R12r a1 a2 a3) = Some s ->
    UNF (R12r a1 a2 a3) -> c = s.
  Proof.
    unfold run12r. cbv zeta.
    intros Hc Hs Hu.
    repeat (brk Hc; try (cbn [o_c o_s stop] in Hs; discriminate Hs)).
    all: cbn [o_c o_s o_emit o_keys o_dlv] in *.
    injection Hc as <-. injection Hs as <-.
    match goal with E : get_fin_flight (a3 _) = Some (?b, ?v) |- _ =>
      pose proof (get_fin_flight_in _ _ _ E) as Hin end.
    repeat match goal with X : negb (zl_eqb _ _) = false |- _ => apply negb_false_eqb in X end.
    match goal with X : ?v = fin ?k L_CLIENT ?d |- _ =>
      assert (Hem := Hu v k L_CLIENT d); rename X into Hv end.
    cbn [o_dlv o_keys o_emit] in Hem.
    match type of Hem with ?A -> ?B -> ?C -> _ =>
      assert (HA : A) by (repeat (apply in_or_app; right); exact Hin);
      assert (HB : B) by (left; reflexivity) end.
    specialize (Hem HA HB Hv).
    destruct Hem as [Hem|[Hem|[]]].
    - rewrite Hv in Hem. apply H_ideal_prf in Hem. destruct Hem as [_ [Hl _]]. discriminate Hl.
    - pose proof Hem as Hem0. rewrite Hv in Hem. apply H_ideal_prf in Hem. destruct Hem as [Hk [_ Hd]].
      apply H_ideal_hash in Hd. destruct Hd as [_ Ht].
      rewrite <- Hem0.
      pose proof Ht as Ht2. cbv beta iota delta [app] in Ht2.
      injection Ht2 as Hch Hsh _.
      f_equal; [rewrite Ht; reflexivity | exact Hk | exact Hch | exact Hsh].
  Qed.

  (* ------------------------------------------------------------------------------- *)
  Lemma in_binders v pre c0 :
    In v (binders_for hash fin c_psk_keys psk_alg pre c0) -> exists k d, v = fin k L_BINDER d.
  Proof.
    unfold binders_for. intros H. apply in_map_iff in H. destruct H as [k [H _]].
    exists k. eexists. symmetry. exact H.
  Qed.

  Lemma run13_agree a1 a2 a3 a4 a5 c s :
    o_c (R13 a1 a2 a3 a4 a5) = Some c -> o_s (R13 a1 a2 a3 a4 a5) = Some s ->
    UNF (R13 a1 a2 a3 a4 a5) -> c = s.
  Proof.
    unfold run13, run13_main. cbv zeta.
    intros Hc Hs Hu.
    repeat (brk Hc; try (cbn [o_c o_s stop] in Hs; discriminate Hs)).
    all: cbn [o_c o_s o_emit o_keys o_dlv] in *.
    all: injection Hc as <-; injection Hs as <-.
    all: repeat match goal with X : negb (zl_eqb _ _) = false |- _ => apply negb_false_eqb in X end.
    all: match goal with X : ?v = fin ?k L_CLIENT ?d |- _ =>
      assert (Hem := Hu v k L_CLIENT d); rename X into Hv end.
    all: match type of Hv with ?v = _ => match goal with E : get_fin_flight _ = Some (_, v) |- _ =>
      pose proof (get_fin_flight_in _ _ _ E) as Hin end end.
    all: cbn [o_dlv o_keys o_emit] in Hem.
    all: match type of Hem with ?A -> ?B -> ?C -> _ =>
      assert (HA : A) by (repeat (apply in_or_app; right); exact Hin);
      assert (HB : B) by (left; reflexivity) end.
    all: specialize (Hem HA HB Hv).
    all: cbn [ch_binders set_binders] in Hem.
    all: repeat (apply in_app_or in Hem; destruct Hem as [Hem|Hem]).
    all: try (apply in_binders in Hem; destruct Hem as [k' [d' Hem]]; rewrite Hv in Hem;
              apply H_ideal_prf in Hem; destruct Hem as [_ [Hl _]]; discriminate Hl).
    all: destruct Hem as [Hem|[Hem|[]]].
    all: try (rewrite Hv in Hem; apply H_ideal_prf in Hem; destruct Hem as [_ [Hl _]]; discriminate Hl).
    all: pose proof Hem as Hem0; rewrite Hv in Hem; apply H_ideal_prf in Hem; destruct Hem as [Hk [_ Hd]];
      apply H_ideal_hash in Hd; destruct Hd as [_ Ht];
      rewrite <- Hem0;
      pose proof Ht as Ht2; cbv beta iota delta [app] in Ht2.
    - (* HelloRetryRequest *)
      injection Ht2 as _ _ Hch Hsh _.
      f_equal; [rewrite Ht; reflexivity | exact Hk | exact Hch | exact Hsh].
    - injection Ht2 as Hch Hsh _.
      f_equal; [rewrite Ht; reflexivity | exact Hk | exact Hch | exact Hsh].
  Qed.

  (* ---- the client's sentinel check needs no hypothesis at all --------------------- *)
  Lemma client_accepts_sentinel c s :
    client_accepts suite_ok cmin cmax c_extra_ok c s = VOk ->
    sentinel_hit cmax (sh_version s) (sh_tail s) = false.
  Proof.
    unfold client_accepts, client_sh_check. cbv zeta.
    repeat match goal with |- context [if ?b then _ else _] => destruct b eqn:?; try discriminate end.
    all: try (intros; reflexivity).
  Qed.

  Lemma client_accepts_checks c s :
    client_accepts suite_ok cmin cmax c_extra_ok c s = VOk ->
    cmin <= sh_version s /\ In (sh_suite s) (ch_suites c) /\ suite_ok (sh_version s) (sh_suite s) = true /\
    (sh_version s > TLS12 -> sh_sid s = ch_sid c).
  Proof.
    unfold client_accepts, client_sh_check. cbv zeta.
    repeat match goal with |- context [if ?b then _ else _] => destruct b eqn:?; try discriminate end.
    intros _.
    match goal with X : negb (_ && _) = false |- _ => apply negb_false_iff in X; apply andb_true_iff in X; destruct X as [X1 X2] end.
    unfold memZ in X1. apply existsb_exists in X1. destruct X1 as [y [Hy1 Hy2]]. apply Z.eqb_eq in Hy2. subst y.
    repeat split; try lia; try assumption.
    all: try (intros Hv;
    match goal with X : (_ >? TLS12) && negb (_ =? _) = false |- _ =>
      apply andb_false_iff in X; destruct X as [X|X]; [lia|apply negb_false_iff in X; apply Z.eqb_eq in X; exact X] end).
  Qed.

  Lemma run12_client a1 a2 a3 a4 c :
    o_c (R12 a1 a2 a3 a4) = Some c ->
    e_ch c = c_hello /\ client_accepts suite_ok cmin cmax c_extra_ok c_hello (e_sh c) = VOk.
  Proof.
    unfold run12. cbv zeta. intros Hc.
    repeat brk Hc. injection Hc as <-. cbn [e_ch e_sh]. split; [reflexivity|assumption].
  Qed.

  Lemma run12r_client a1 a2 a3 c :
    o_c (R12r a1 a2 a3) = Some c ->
    e_ch c = c_hello /\ client_accepts suite_ok cmin cmax c_extra_ok c_hello (e_sh c) = VOk.
  Proof.
    unfold run12r. cbv zeta. intros Hc.
    repeat brk Hc. all: injection Hc as <-; cbn [e_ch e_sh]; split; [reflexivity|assumption].
  Qed.

  Lemma run13_client a1 a2 a3 a4 a5 c :
    o_c (R13 a1 a2 a3 a4 a5) = Some c ->
    client_accepts suite_ok cmin cmax c_extra_ok (e_ch c) (e_sh c) = VOk.
  Proof.
    unfold run13, run13_main. cbv zeta. intros Hc.
    repeat brk Hc. all: injection Hc as <-; cbn [e_ch e_sh]; assumption.
  Qed.

  (* ---- server side ------------------------------------------------------------------ *)
  Lemma server_front_ok c v :
    server_front smin smax s_ch_ok c = SelOk v ->
    sel_version smin smax c = SelOk v /\ scsv_hit smax v c = false.
  Proof.
    unfold server_front. destruct (sel_version smin smax c) as [a|w]; [discriminate|].
    destruct (scsv_hit smax w c) eqn:E; [discriminate|].
    destruct (s_ch_ok c); [|discriminate]. intros H. injection H as <-. split; [reflexivity|exact E].
  Qed.

  Lemma run12_server a1 a2 a3 a4 s :
    o_s (R12 a1 a2 a3 a4) = Some s ->
    exists v sh0 rest, sel_version smin smax (e_ch s) = SelOk v /\ scsv_hit smax v (e_ch s) = false /\
      s_reply12 v (e_ch s) = Some (sh0, rest) /\
      e_sh s = set_tail sh0 (sentinel_for smax v (sh_tail sh0)).
  Proof.
    unfold run12. cbv zeta. intros Hs.
    repeat brk Hs.
    all: injection Hs as <-; cbn [e_ch e_sh];
      match goal with X : server_front _ _ _ _ = SelOk ?v |- _ => apply server_front_ok in X; destruct X as [X1 X2] end;
      do 3 eexists; repeat split; eassumption.
  Qed.

  Lemma run12r_server a1 a2 a3 s :
    o_s (R12r a1 a2 a3) = Some s ->
    exists v sh0 k, sel_version smin smax (e_ch s) = SelOk v /\ scsv_hit smax v (e_ch s) = false /\
      s_resume v (e_ch s) = Some (sh0, k) /\
      e_sh s = set_tail sh0 (sentinel_for smax v (sh_tail sh0)).
  Proof.
    unfold run12r. cbv zeta. intros Hs.
    repeat brk Hs.
    all: injection Hs as <-; cbn [e_ch e_sh];
      match goal with X : server_front _ _ _ _ = SelOk ?v |- _ => apply server_front_ok in X; destruct X as [X1 X2] end;
      do 3 eexists; repeat split; eassumption.
  Qed.

  (* TLS 1.3: the SCSV / version decision is taken on the FIRST hello the server received *)
  Lemma run13_server a1 a2 a3 a4 a5 s :
    o_s (R13 a1 a2 a3 a4 a5) = Some s ->
    exists ch1', get_ch (a1 [MCH (set_binders c_hello (binders_for hash fin c_psk_keys psk_alg [] c_hello))]) = Some ch1' /\
      sel_version smin smax ch1' = SelOk TLS13 /\ scsv_hit smax TLS13 ch1' = false /\
      (e_ch s = ch1' \/ exists ck g, hrr_second_ok ck g ch1' (e_ch s) = true).
  Proof.
    unfold run13, run13_main. cbv zeta. intros Hs.
    repeat brk Hs.
    all: injection Hs as <-; cbn [e_ch e_sh];
      match goal with X : server_front _ _ _ _ = SelOk ?v |- _ => apply server_front_ok in X; destruct X as [X1 X2] end;
      match goal with X : negb (?w =? TLS13) = false |- _ => is_var w; apply negb_false_iff in X; apply Z.eqb_eq in X; subst w end;
      eexists; repeat split; try eassumption.
    - right. do 2 eexists. match goal with X : negb (hrr_second_ok _ _ _ _) = false |- _ => apply negb_false_iff in X; exact X end.
    - left. reflexivity.
  Qed.

  (* ---- sentinel written by the full-handshake ServerHello --------------------------- *)
  Lemma sentinel_for_spec v d :
    (v < TLS12 -> smax >= TLS12 -> sentinel_for smax v d = 1) /\
    (v = TLS12 -> smax > TLS12 -> sentinel_for smax v d = 2) /\
    (~ (v < TLS12 /\ smax >= TLS12) -> ~ (v = TLS12 /\ smax > TLS12) -> sentinel_for smax v d = d).
  Proof.
    unfold sentinel_for, TLS12.
    destruct (v <? 771) eqn:E1; destruct (smax >=? 771) eqn:E2; destruct (v =? 771) eqn:E3;
      destruct (smax >? 771) eqn:E4; cbn [andb]; repeat split; intros; try reflexivity; try lia.
  Qed.

  (* ---- corollaries stated the way Props/C04.v shows them ------------------------------ *)
  Lemma run12_no_downgrade a1 a2 a3 a4 c s :
    o_c (R12 a1 a2 a3 a4) = Some c -> o_s (R12 a1 a2 a3 a4) = Some s -> UNF (R12 a1 a2 a3 a4) ->
    exists v sh0 rest, sel_version smin smax c_hello = SelOk v /\ scsv_hit smax v c_hello = false /\
      s_reply12 v c_hello = Some (sh0, rest) /\
      e_sh c = set_tail sh0 (sentinel_for smax v (sh_tail sh0)) /\ e_sh s = e_sh c /\ e_ch s = c_hello.
  Proof.
    intros Hc Hs Hu. pose proof (run12_agree _ _ _ _ _ _ Hc Hs Hu) as E. subst s.
    destruct (run12_client _ _ _ _ _ Hc) as [Hch _].
    destruct (run12_server _ _ _ _ _ Hs) as [v [sh0 [rest [A [B [C D]]]]]].
    rewrite Hch in *. exists v, sh0, rest. repeat split; assumption.
  Qed.

  Lemma run12r_no_downgrade a1 a2 a3 c s :
    o_c (R12r a1 a2 a3) = Some c -> o_s (R12r a1 a2 a3) = Some s -> UNF (R12r a1 a2 a3) ->
    exists v sh0 k, sel_version smin smax c_hello = SelOk v /\ scsv_hit smax v c_hello = false /\
      s_resume v c_hello = Some (sh0, k) /\
      e_sh c = set_tail sh0 (sentinel_for smax v (sh_tail sh0)) /\ e_sh s = e_sh c /\ e_ch s = c_hello.
  Proof.
    intros Hc Hs Hu. pose proof (run12r_agree _ _ _ _ _ Hc Hs Hu) as E. subst s.
    destruct (run12r_client _ _ _ _ Hc) as [Hch _].
    destruct (run12r_server _ _ _ _ Hs) as [v [sh0 [k [A [B [C D]]]]]].
    rewrite Hch in *. exists v, sh0, k. repeat split; assumption.
  Qed.

  Lemma sentinel_written_all :
    (forall a1 a2 a3 a4 s, o_s (R12 a1 a2 a3 a4) = Some s ->
       exists v, sel_version smin smax (e_ch s) = SelOk v /\
         (v < TLS12 -> smax >= TLS12 -> sh_tail (e_sh s) = 1) /\
         (v = TLS12 -> smax > TLS12 -> sh_tail (e_sh s) = 2)) /\
    (forall a1 a2 a3 s, o_s (R12r a1 a2 a3) = Some s ->
       exists v, sel_version smin smax (e_ch s) = SelOk v /\
         (v < TLS12 -> smax >= TLS12 -> sh_tail (e_sh s) = 1) /\
         (v = TLS12 -> smax > TLS12 -> sh_tail (e_sh s) = 2)).
  Proof.
    split; intros.
    - destruct (run12_server _ _ _ _ _ H) as [v [sh0 [rest [A [B [C D]]]]]].
      exists v. split; [exact A|]. rewrite D. cbn [sh_tail set_tail].
      destruct (sentinel_for_spec v (sh_tail sh0)) as [P [Q _]]. split; assumption.
    - destruct (run12r_server _ _ _ _ H) as [v [sh0 [k [A [B [C D]]]]]].
      exists v. split; [exact A|]. rewrite D. cbn [sh_tail set_tail].
      destruct (sentinel_for_spec v (sh_tail sh0)) as [P [Q _]]. split; assumption.
  Qed.

  Notation CH1 := (set_binders c_hello (binders_for hash fin c_psk_keys psk_alg [] c_hello)).

  Lemma run13_client_tr a1 a2 a3 a4 a5 c :
    o_c (R13 a1 a2 a3 a4 a5) = Some c ->
    (exists rest, e_tr c = MCH CH1 :: rest) \/ (exists alg rest, e_tr c = MHash (hash alg [MCH CH1]) :: rest).
  Proof.
    unfold run13, run13_main. cbv zeta. intros Hc.
    repeat brk Hc. all: injection Hc as <-; cbn [e_tr].
    all: first [ right; eexists; eexists; repeat rewrite <- app_assoc; cbv beta iota delta [app]; reflexivity
               | left; eexists; repeat rewrite <- app_assoc; cbv beta iota delta [app]; reflexivity ].
  Qed.

  Lemma run13_server_tr a1 a2 a3 a4 a5 s :
    o_s (R13 a1 a2 a3 a4 a5) = Some s ->
    exists ch1', get_ch (a1 [MCH CH1]) = Some ch1' /\
      sel_version smin smax ch1' = SelOk TLS13 /\ scsv_hit smax TLS13 ch1' = false /\
      ((exists rest, e_tr s = MCH ch1' :: rest) \/ (exists alg rest, e_tr s = MHash (hash alg [MCH ch1']) :: rest)).
  Proof.
    unfold run13, run13_main. cbv zeta. intros Hs.
    repeat brk Hs.
    all: injection Hs as <-; cbn [e_tr];
      match goal with X : server_front _ _ _ _ = SelOk ?v |- _ => apply server_front_ok in X; destruct X as [X1 X2] end;
      match goal with X : negb (?w =? TLS13) = false |- _ => is_var w; apply negb_false_iff in X; apply Z.eqb_eq in X; subst w end;
      eexists; repeat split; try eassumption.
    all: first [ right; eexists; eexists; repeat rewrite <- app_assoc; cbv beta iota delta [app]; reflexivity
               | left; eexists; repeat rewrite <- app_assoc; cbv beta iota delta [app]; reflexivity ].
  Qed.

  Lemma run13_no_downgrade a1 a2 a3 a4 a5 c s :
    o_c (R13 a1 a2 a3 a4 a5) = Some c -> o_s (R13 a1 a2 a3 a4 a5) = Some s -> UNF (R13 a1 a2 a3 a4 a5) ->
    sel_version smin smax CH1 = SelOk TLS13 /\ scsv_hit smax TLS13 CH1 = false /\
    get_ch (a1 [MCH CH1]) = Some CH1 /\ e_sh s = e_sh c /\ e_ch s = e_ch c.
  Proof.
    intros Hc Hs Hu. pose proof (run13_agree _ _ _ _ _ _ _ Hc Hs Hu) as E. subst s.
    destruct (run13_server_tr _ _ _ _ _ _ Hs) as [ch1' [G [A [B T]]]].
    assert (ch1' = CH1) as ->.
    { destruct (run13_client_tr _ _ _ _ _ _ Hc) as [[r1 T1]|[al1 [r1 T1]]];
        destruct T as [[r2 T2]|[al2 [r2 T2]]]; rewrite T1 in T2; try discriminate T2.
      - injection T2 as T2 _. symmetry. exact T2.
      - injection T2 as T2 _. apply H_ideal_hash in T2. destruct T2 as [_ T2]. injection T2 as T2. symmetry. exact T2. }
    repeat split; assumption.
  Qed.


  Lemma views_equal_all :
    (forall a1 a2 a3 a4 c s, o_c (R12 a1 a2 a3 a4) = Some c -> o_s (R12 a1 a2 a3 a4) = Some s ->
       UNF (R12 a1 a2 a3 a4) -> view_of c = view_of s /\ e_tr c = e_tr s) /\
    (forall a1 a2 a3 c s, o_c (R12r a1 a2 a3) = Some c -> o_s (R12r a1 a2 a3) = Some s ->
       UNF (R12r a1 a2 a3) -> view_of c = view_of s /\ e_tr c = e_tr s) /\
    (forall a1 a2 a3 a4 a5 c s, o_c (R13 a1 a2 a3 a4 a5) = Some c -> o_s (R13 a1 a2 a3 a4 a5) = Some s ->
       UNF (R13 a1 a2 a3 a4 a5) -> view_of c = view_of s /\ e_tr c = e_tr s).
  Proof.
    repeat split; intros.
    1,2: rewrite (run12_agree _ _ _ _ _ _ H H0 H1); reflexivity.
    1,2: rewrite (run12r_agree _ _ _ _ _ H H0 H1); reflexivity.
    1,2: rewrite (run13_agree _ _ _ _ _ _ _ H H0 H1); reflexivity.
  Qed.

  Lemma sentinel_checked_all :
    (forall a1 a2 a3 a4 c, o_c (R12 a1 a2 a3 a4) = Some c ->
       sentinel_hit cmax (sh_version (e_sh c)) (sh_tail (e_sh c)) = false) /\
    (forall a1 a2 a3 c, o_c (R12r a1 a2 a3) = Some c ->
       sentinel_hit cmax (sh_version (e_sh c)) (sh_tail (e_sh c)) = false) /\
    (forall a1 a2 a3 a4 a5 c, o_c (R13 a1 a2 a3 a4 a5) = Some c ->
       sentinel_hit cmax (sh_version (e_sh c)) (sh_tail (e_sh c)) = false).
  Proof.
    repeat split; intros.
    - destruct (run12_client _ _ _ _ _ H) as [_ A]. eapply client_accepts_sentinel; exact A.
    - destruct (run12r_client _ _ _ _ H) as [_ A]. eapply client_accepts_sentinel; exact A.
    - pose proof (run13_client _ _ _ _ _ _ H) as A. eapply client_accepts_sentinel; exact A.
  Qed.

  Lemma scsv_enforced_all :
    (forall a1 a2 a3 a4 s, o_s (R12 a1 a2 a3 a4) = Some s ->
       exists v, sel_version smin smax (e_ch s) = SelOk v /\ scsv_hit smax v (e_ch s) = false) /\
    (forall a1 a2 a3 s, o_s (R12r a1 a2 a3) = Some s ->
       exists v, sel_version smin smax (e_ch s) = SelOk v /\ scsv_hit smax v (e_ch s) = false) /\
    (forall a1 a2 a3 a4 a5 s, o_s (R13 a1 a2 a3 a4 a5) = Some s ->
       scsv_hit smax TLS13 (e_ch s) = false).
  Proof.
    repeat split; intros.
    - destruct (run12_server _ _ _ _ _ H) as [v [sh0 [rest [A [B _]]]]]. exists v. split; assumption.
    - destruct (run12r_server _ _ _ _ H) as [v [sh0 [k [A [B _]]]]]. exists v. split; assumption.
    - destruct (run13_server _ _ _ _ _ _ H) as [ch1' [_ [_ [B [E|[ck [g E]]]]]]].
      + rewrite E. exact B.
      + apply hrr_second_ok_basic in E. destruct E as [_ [_ [_ [Hs _]]]].
        unfold scsv_hit in *. rewrite <- Hs. exact B.
  Qed.

  (* ---- fallback retries are refused ---------------------------------------------------- *)
  Lemma run12_server_hello a1 a2 a3 a4 s :
    o_s (R12 a1 a2 a3 a4) = Some s -> get_ch (a1 [MCH c_hello]) = Some (e_ch s).
  Proof. unfold run12. cbv zeta. intros Hs. repeat brk Hs. all: injection Hs as <-; cbn [e_ch]; first [assumption|reflexivity]. Qed.

  Lemma run12r_server_hello a1 a2 a3 s :
    o_s (R12r a1 a2 a3) = Some s -> get_ch (a1 [MCH c_hello]) = Some (e_ch s).
  Proof. unfold run12r. cbv zeta. intros Hs. repeat brk Hs. all: injection Hs as <-; cbn [e_ch]; first [assumption|reflexivity]. Qed.

  Lemma scsv_hit_true v c : v < smax -> memZ FALLBACK_SCSV (ch_suites c) = true -> scsv_hit smax v c = true.
  Proof. intros Hv Hm. unfold scsv_hit. rewrite Hm. destruct (v <? smax) eqn:E; [reflexivity|lia]. Qed.

  (* no hypothesis on the primitives: the hello reaches the server as sent *)
  Lemma fallback_refused ver rand fsid real session exts v :
    c_hello = client_first_hello ver rand fsid real true session exts ->
    sel_version smin smax c_hello = SelOk v -> v < smax ->
    (forall a1 a2 a3 a4, get_ch (a1 [MCH c_hello]) = Some c_hello -> o_s (R12 a1 a2 a3 a4) = None) /\
    (forall a1 a2 a3, get_ch (a1 [MCH c_hello]) = Some c_hello -> o_s (R12r a1 a2 a3) = None).
  Proof.
    intros Hc Hsel Hv.
    assert (Hm : memZ FALLBACK_SCSV (ch_suites c_hello) = true) by (rewrite Hc; apply scsv_sent).
    split; intros.
    - destruct (o_s (R12 a1 a2 a3 a4)) as [s|] eqn:E; [|reflexivity].
      pose proof (run12_server_hello _ _ _ _ _ E) as G. rewrite H in G. injection G as G.
      destruct (run12_server _ _ _ _ _ E) as [v' [sh0 [rest [A [B _]]]]]. rewrite <- G in A, B.
      rewrite Hsel in A. injection A as <-. rewrite (scsv_hit_true _ _ Hv Hm) in B. discriminate B.
    - destruct (o_s (R12r a1 a2 a3)) as [s|] eqn:E; [|reflexivity].
      pose proof (run12r_server_hello _ _ _ _ E) as G. rewrite H in G. injection G as G.
      destruct (run12r_server _ _ _ _ E) as [v' [sh0 [k [A [B _]]]]]. rewrite <- G in A, B.
      rewrite Hsel in A. injection A as <-. rewrite (scsv_hit_true _ _ Hv Hm) in B. discriminate B.
  Qed.

  (* any attacker, idealised primitives: the two endpoints never both complete *)
  Lemma fallback_refused_ideal ver rand fsid real session exts v :
    c_hello = client_first_hello ver rand fsid real true session exts ->
    sel_version smin smax c_hello = SelOk v -> v < smax ->
    (forall a1 a2 a3 a4 c s, o_c (R12 a1 a2 a3 a4) = Some c -> o_s (R12 a1 a2 a3 a4) = Some s ->
       UNF (R12 a1 a2 a3 a4) -> False) /\
    (forall a1 a2 a3 c s, o_c (R12r a1 a2 a3) = Some c -> o_s (R12r a1 a2 a3) = Some s ->
       UNF (R12r a1 a2 a3) -> False).
  Proof.
    intros Hc Hsel Hv.
    assert (Hm : memZ FALLBACK_SCSV (ch_suites c_hello) = true) by (rewrite Hc; apply scsv_sent).
    split; intros.
    - destruct (run12_no_downgrade _ _ _ _ _ _ H H0 H1) as [v' [sh0 [rest [A [B _]]]]].
      rewrite Hsel in A. injection A as <-. rewrite (scsv_hit_true _ _ Hv Hm) in B. discriminate B.
    - destruct (run12r_no_downgrade _ _ _ _ _ H H0 H1) as [v' [sh0 [k [A [B _]]]]].
      rewrite Hsel in A. injection A as <-. rewrite (scsv_hit_true _ _ Hv Hm) in B. discriminate B.
  Qed.

  (* ---- the sentinel is enforced AT the ServerHello ------------------------------------------- *)
  Lemma client_accepts_abort_on_sentinel c s :
    sentinel_hit cmax (sh_version s) (sh_tail s) = true ->
    exists a, client_accepts suite_ok cmin cmax c_extra_ok c s = VAbort a.
  Proof.
    intros H. unfold client_accepts, client_sh_check. cbv zeta. rewrite H.
    repeat match goal with |- context [if ?b then _ else _] => destruct b end; eexists; reflexivity.
  Qed.

  Ltac brk2 H :=
    match type of H with
    | context [match ?x with _ => _ end] =>
        lazymatch x with
        | context [match _ with _ => _ end] => fail
        | _ => let E := fresh "E" in destruct x eqn:E; try discriminate H
        end
    end.

  Lemma run12_stops_at_server_hello a1 a2 sh' :
    client_sees12 smin smax c_hello s_ch_ok s_reply12 a1 a2 = Some sh' ->
    sentinel_hit cmax (sh_version sh') (sh_tail sh') = true ->
    forall a3 a4, exists a, R12 a1 a2 a3 a4 = stop 1 a.
  Proof.
    unfold client_sees12, run12. cbv zeta. intros H Hit a3 a4.
    repeat brk2 H. injection H as ->.
    destruct (client_accepts_abort_on_sentinel c_hello sh' Hit) as [a Ha]. rewrite Ha. exists a. reflexivity.
  Qed.

  Lemma run12r_stops_at_server_hello a1 a2 sh' :
    client_sees12r hash fin prf_of smin smax c_hello s_ch_ok s_resume a1 a2 = Some sh' ->
    sentinel_hit cmax (sh_version sh') (sh_tail sh') = true ->
    forall a3, exists a, R12r a1 a2 a3 = stop 1 a.
  Proof.
    unfold client_sees12r, run12r. cbv zeta. intros H Hit a3.
    repeat brk2 H. injection H as ->.
    destruct (client_accepts_abort_on_sentinel c_hello sh' Hit) as [a Ha]. rewrite Ha. exists a. reflexivity.
  Qed.
End Ideal.
