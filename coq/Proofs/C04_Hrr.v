(* C04 -- the second-ClientHello comparison, including the branch that overwrites the last
   extension of the edited first hello with the new pre_shared_key extension. *)
From Coq Require Import ZArith List Bool Lia.
From TV Require Import Base.Prelude Model.C04_Tamper Proofs.C04_Tamper.
Import ListNotations.
Open Scope Z_scope.

Definition T (l : list ext) : list Z := map fst l.
Definition perm (t : Z) : bool := hrr_permitted t.

(* every extension after the first pre_shared_key has a permitted type *)
Fixpoint after_psk_ok (ts : list Z) : bool :=
  match ts with
  | [] => true
  | t :: r => if t =? X_PSK then forallb perm r else after_psk_ok r
  end.

Lemma T_replace t p l : T (replace_ext t p l) = T l.
Proof.
  induction l as [|[u q] r IH]; cbn [replace_ext]; [reflexivity|].
  destruct (u =? t); unfold T in *; cbn [map fst]; [reflexivity|]. rewrite IH. reflexivity.
Qed.

Lemma T_insert i t p l : T (insert_at i (t, p) l) = firstn i (T l) ++ t :: skipn i (T l).
Proof. unfold insert_at, T. rewrite map_app. cbn [map fst]. rewrite firstn_map, skipn_map. reflexivity. Qed.

Lemma T_remove t l : T (remove_ext t l) = filter (fun u => negb (u =? t)) (T l).
Proof.
  induction l as [|[u q] r IH]; cbn [remove_ext]; [reflexivity|].
  unfold T in *. cbn [map fst filter]. destruct (u =? t); cbn [negb]; [exact IH|]. cbn [map fst]. rewrite IH. reflexivity.
Qed.

Lemma forallb_firstn_skipn {A} (f : A -> bool) i l x :
  forallb f l = true -> f x = true -> forallb f (firstn i l ++ x :: skipn i l) = true.
Proof.
  intros Hl Hx. rewrite <- (firstn_skipn i l) in Hl. rewrite forallb_app in *.
  apply andb_true_iff in Hl. destruct Hl as [A1 A2]. cbn [forallb]. rewrite A1, Hx, A2. reflexivity.
Qed.

Lemma apo_insert i t ts :
  perm t = true -> t <> X_PSK -> after_psk_ok ts = true -> after_psk_ok (firstn i ts ++ t :: skipn i ts) = true.
Proof.
  intros Hp Hn. revert i. induction ts as [|x r IH]; intros i H.
  - destruct i; cbn [firstn skipn app after_psk_ok]; (destruct (t =? X_PSK) eqn:E; [apply Z.eqb_eq in E; contradiction|reflexivity]).
  - destruct i as [|j].
    + cbn [firstn skipn app]. cbn [after_psk_ok]. destruct (t =? X_PSK) eqn:E; [apply Z.eqb_eq in E; contradiction|exact H].
    + cbn [firstn skipn app]. cbn [after_psk_ok] in *. destruct (x =? X_PSK).
      * apply forallb_firstn_skipn; assumption.
      * apply IH. exact H.
Qed.

Lemma forallb_filter {A} (f g : A -> bool) l : forallb f l = true -> forallb f (filter g l) = true.
Proof.
  induction l as [|x r IH]; cbn [forallb filter]; [reflexivity|]. intros H. apply andb_true_iff in H. destruct H as [H1 H2].
  destruct (g x); cbn [forallb]; [rewrite H1; cbn [andb]|]; apply IH; exact H2.
Qed.

Lemma apo_filter t ts :
  t <> X_PSK -> after_psk_ok ts = true -> after_psk_ok (filter (fun u => negb (u =? t)) ts) = true.
Proof.
  intros Hn. induction ts as [|x r IH]; intros H; [reflexivity|].
  cbn [filter]. cbn [after_psk_ok] in H. destruct (x =? X_PSK) eqn:E.
  - apply Z.eqb_eq in E. subst x. destruct (X_PSK =? t) eqn:E2; [apply Z.eqb_eq in E2; congruence|].
    cbn [negb after_psk_ok]. rewrite Z.eqb_refl. apply forallb_filter. exact H.
  - destruct (x =? t); cbn [negb]; [apply IH; exact H|]. cbn [after_psk_ok]. rewrite E. apply IH. exact H.
Qed.

Lemma apo_of_index_none l n : index_of_ext X_PSK l n = None -> after_psk_ok (T l) = true.
Proof.
  revert n. induction l as [|[u q] r IH]; intros n H; [reflexivity|].
  cbn [index_of_ext] in H. unfold T. cbn [map fst after_psk_ok]. destruct (u =? X_PSK); [discriminate|]. eapply IH. exact H.
Qed.

Lemma apo_of_index_last l n i :
  index_of_ext X_PSK l n = Some i -> Nat.eqb (S i) (n + length l) = true -> after_psk_ok (T l) = true.
Proof.
  revert n. induction l as [|[u q] r IH]; intros n H E; [reflexivity|].
  cbn [index_of_ext] in H. unfold T. cbn [map fst after_psk_ok]. destruct (u =? X_PSK).
  - injection H as <-. apply Nat.eqb_eq in E. cbn [length] in E. destruct r; [reflexivity|cbn [length] in E; lia].
  - apply (IH (S n)); [exact H|]. apply Nat.eqb_eq in E. apply Nat.eqb_eq. cbn [length] in E. lia.
Qed.

Lemma psk_is_last_apo c : psk_is_last c = true -> after_psk_ok (T (ch_exts c)) = true.
Proof.
  unfold psk_is_last. destruct (index_of_ext X_PSK (ch_exts c) 0) as [i|] eqn:E; intros H.
  - eapply apo_of_index_last; [exact E|]. cbn [Nat.add]. exact H.
  - eapply apo_of_index_none. exact E.
Qed.

Lemma last_in {A} (l : list A) d : l <> [] -> In (last l d) l.
Proof.
  induction l as [|x r IH]; intros H; [congruence|]. destruct r as [|y r'].
  - left. reflexivity.
  - right. apply IH. discriminate.
Qed.

Lemma apo_last ts : after_psk_ok ts = true -> In X_PSK ts -> ts <> [] /\ perm (last ts 0) = true.
Proof.
  induction ts as [|x r IH]; intros H Hin; [destruct Hin|]. split; [discriminate|].
  cbn [after_psk_ok] in H. destruct (x =? X_PSK) eqn:E.
  - apply Z.eqb_eq in E. subst x. destruct r as [|y r']; [reflexivity|].
    change (last (X_PSK :: y :: r') 0) with (last (y :: r') 0).
    rewrite forallb_forall in H. apply H. apply last_in. discriminate.
  - destruct Hin as [Hx|Hin]; [subst x; rewrite Z.eqb_refl in E; discriminate|].
    destruct (IH H Hin) as [Hne Hp]. destruct r as [|y r']; [congruence|]. exact Hp.
Qed.

Lemma find_ext_in t l p : find_ext t l = Some p -> In t (T l).
Proof.
  induction l as [|[u q] r IH]; cbn [find_ext]; [discriminate|]. destruct (u =? t) eqn:E.
  - intros _. left. apply Z.eqb_eq in E. exact E.
  - intros H. right. apply IH. exact H.
Qed.

Lemma last_T (l : list ext) : fst (last l (0, [])) = last (T l) 0.
Proof.
  induction l as [|x r IH]; [reflexivity|]. destruct r as [|y r']; [reflexivity|].
  change (last (x :: y :: r') (0, [])) with (last (y :: r') (0, [])).
  unfold T. cbn [map]. change (last (fst x :: fst y :: map fst r') 0) with (last (map fst (y :: r')) 0). exact IH.
Qed.

Lemma F_replace_last x l :
  np x = false -> (l <> [] /\ np (last l (0, [])) = false) -> filter np (replace_last x l) = filter np l.
Proof.
  intros Hx [Hne Hl]. unfold replace_last. destruct l as [|a r]; [congruence|].
  rewrite (app_removelast_last (0, []) Hne) at 2.
  rewrite !filter_app_np. cbn [filter]. rewrite Hx, Hl. reflexivity.
Qed.

(* the invariant survives the three edits that precede the pre_shared_key replacement *)
Lemma hrr_second_ok_fixed cookie group c1 c2 :
  psk_is_last c1 = true ->
  hrr_second_ok cookie group c1 c2 = true ->
  ch_fixed_part c1 = ch_fixed_part c2 /\
  exists share, find_ext X_KEYSHARE (ch_exts c2) = Some [group; share].
Proof.
  intros Hlast H. pose proof H as H0. apply hrr_second_ok_basic in H.
  destruct H as [A [B [C [D [E [G Ee]]]]]]. split; [|exact G].
  unfold ch_fixed_part. rewrite A, B, C, D, E. f_equal. change (filter np (ch_exts c1) = filter np (ch_exts c2)).
  assert (PK : hrr_permitted X_KEYSHARE = true) by reflexivity.
  assert (PC : hrr_permitted X_COOKIE = true) by reflexivity.
  assert (PP : hrr_permitted X_PADDING = true) by reflexivity.
  assert (PE : hrr_permitted X_EARLY = true) by reflexivity.
  assert (NPSK : forall p, np (X_PSK, p) = false) by reflexivity.
  apply psk_is_last_apo in Hlast.
  unfold hrr_expected in Ee. cbv zeta in Ee.
  destruct (find_ext X_KEYSHARE (ch_exts c2)) as [ks2|]; [|discriminate Ee].
  destruct (find_ext X_KEYSHARE (ch_exts c1)) as [ks1|]; [|discriminate Ee].
  set (e1 := replace_ext X_KEYSHARE ks2 (ch_exts c1)) in *.
  assert (I1 : after_psk_ok (T e1) = true /\ filter np e1 = filter np (ch_exts c1)).
  { split; [unfold e1; rewrite T_replace; exact Hlast|apply F_replace; exact PK]. }
  destruct (match cookie with
            | Some ck => match index_of_ext X_COOKIE (ch_exts c2) 0 with
                         | Some i => match find_ext X_COOKIE (ch_exts c2) with
                                     | Some ck2 => if zl_eqb ck ck2 then Some (insert_at i (X_COOKIE, ck2) e1) else None
                                     | None => None end
                         | None => None end
            | None => Some e1 end) as [e2|] eqn:E2; [|discriminate Ee].
  assert (I2 : after_psk_ok (T e2) = true /\ filter np e2 = filter np (ch_exts c1)).
  { destruct cookie as [ck|].
    - destruct (index_of_ext X_COOKIE (ch_exts c2) 0) as [i|]; [|discriminate E2].
      destruct (find_ext X_COOKIE (ch_exts c2)) as [ck2|]; [|discriminate E2].
      destruct (zl_eqb ck ck2); [|discriminate E2]. injection E2 as <-. destruct I1 as [J1 J2]. split.
      + rewrite T_insert. apply apo_insert; [reflexivity|discriminate|exact J1].
      + rewrite F_insert by exact PC. exact J2.
    - injection E2 as <-. exact I1. }
  clear I1 E2. clearbody e1.
  set (e3 := match find_ext X_PADDING e2 with
             | Some _ => match find_ext X_PADDING (ch_exts c2) with
                         | Some p2 => replace_ext X_PADDING p2 e2
                         | None => remove_ext X_PADDING e2 end
             | None => match find_ext X_PADDING (ch_exts c2) with
                       | Some p2 => match index_of_ext X_PADDING (ch_exts c2) 0 with
                                    | Some i => insert_at i (X_PADDING, p2) e2
                                    | None => e2 end
                       | None => e2 end
             end) in *.
  assert (I3 : after_psk_ok (T e3) = true /\ filter np e3 = filter np (ch_exts c1)).
  { destruct I2 as [J1 J2]. unfold e3.
    destruct (find_ext X_PADDING e2); destruct (find_ext X_PADDING (ch_exts c2)) as [p2|].
    - split; [rewrite T_replace; exact J1|rewrite F_replace by exact PP; exact J2].
    - split; [rewrite T_remove; apply apo_filter; [discriminate|exact J1]|rewrite F_remove by exact PP; exact J2].
    - destruct (index_of_ext X_PADDING (ch_exts c2) 0).
      + split; [rewrite T_insert; apply apo_insert; [reflexivity|discriminate|exact J1]|rewrite F_insert by exact PP; exact J2].
      + split; assumption.
    - split; assumption. }
  clearbody e3. clear I2.
  destruct I3 as [J1 J2].
  destruct (find_ext X_PSK (ch_exts c2)) as [p2|] eqn:Pn; destruct (find_ext X_PSK e3) as [po|] eqn:Po.
  - (* the last extension of the edited copy is overwritten *)
    cbv beta iota in Ee.
    destruct (negb (let (t, _) := last (ch_exts c2) (0, []) in t =? X_PSK)); [discriminate Ee|].
    assert (L : e3 <> [] /\ np (last e3 (0, [])) = false).
    { apply find_ext_in in Po. destruct (apo_last _ J1 Po) as [Hne Hp]. split.
      - intros ->. apply Hne. reflexivity.
      - unfold np. rewrite last_T. unfold perm in Hp. rewrite Hp. reflexivity. }
    destruct (find_ext X_EARLY (replace_last (X_PSK, p2) e3)); injection Ee as Ee; rewrite <- Ee; cbn [ch_exts];
      [rewrite F_remove by exact PE|];
      (etransitivity; [symmetry; exact J2|symmetry; exact (F_replace_last (X_PSK, p2) e3 (NPSK p2) L)]).
  - cbv beta iota in Ee. cbn [negb] in Ee. destruct (find_ext X_EARLY e3); injection Ee as Ee; rewrite <- Ee; cbn [ch_exts];
      [rewrite F_remove by exact PE|]; symmetry; exact J2.
  - cbv beta iota in Ee. cbn [negb] in Ee. destruct (find_ext X_EARLY e3); injection Ee as Ee; rewrite <- Ee; cbn [ch_exts];
      [rewrite F_remove by exact PE|]; symmetry; exact J2.
  - cbv beta iota in Ee. cbn [negb] in Ee. destruct (find_ext X_EARLY e3); injection Ee as Ee; rewrite <- Ee; cbn [ch_exts];
      [rewrite F_remove by exact PE|]; symmetry; exact J2.
Qed.
