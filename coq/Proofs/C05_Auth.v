(* C05 -- lemmas about Model.C05_Auth (style: hypothesis inversion by one tactic). *)
From Coq Require Import ZArith List Bool String Lia.
From TV Require Import Base.Prelude Base.C05_Lib Gen.C05_VerifyBytes Model.C05_Auth.
Import ListNotations.
Open Scope Z_scope.

Lemma is_nil_false {A} (l : list A) : is_nil l = false -> l <> [].
Proof. destruct l; [discriminate|intros _ H; discriminate H]. Qed.

Lemma is_nil_true {A} (l : list A) : is_nil l = true -> l = [].
Proof. destruct l; [reflexivity|discriminate]. Qed.

(* decompose a successful monadic run into its successful steps *)
Ltac inv1 :=
  match goal with
  | H : alert _ = Ok _ |- _ => discriminate H
  | H : Err _ = Ok _ |- _ => discriminate H
  | H : None = Some _ |- _ => discriminate H
  | H : Some _ = None |- _ => discriminate H
  | H : Ok _ = Ok _ |- _ => injection H; clear H; intros; subst; try discriminate
  | H : bind ?m _ = Ok _ |- _ =>
      let E := fresh "E" in destruct m eqn:E; cbn [bind] in H; [|discriminate H]
  | H : guard ?b _ = Ok _ |- _ =>
      let E := fresh "G" in destruct b eqn:E; cbn [guard] in H; [|discriminate H]
  | H : opt_alert ?a = Ok _ |- _ => destruct a eqn:?; cbn [opt_alert] in H; [discriminate H|]
  | H : (match ?x with _ => _ end) = Ok _ |- _ =>
      let E := fresh "D" in destruct x eqn:E; try discriminate H
  end.
Ltac inv := repeat inv1.

Definition dc_proved (O : Orc) (r : Run) (cm : CertMsg) (d : DC) (ctx sg : list Z) : Prop :=
  sch_in (dc_cv_alg d) (r_dc_offered r) = true /\
  sch_in (dc_alg d) (r_offered r) = true /\
  sig_ok O (cm_key cm) (Some (dc_alg d)) (dc_tbs (cm_cert cm) (dc_cred d) (dc_alg d)) (dc_sig d) = true /\
  sig_ok O (dc_key d) (Some (dc_cv_alg d)) ctx sg = true.

(* ---- TLS 1.3 client ---------------------------------------------------------------- *)
Lemma client13_recorded O r s c :
  client13 O r = Ok s -> s_server_chain s = Some c ->
  r_rec_ok r = true /\ fin_ok O FIN_S13 (r_tr_fin r) (r_fin r) = true /\ r_psk r = None /\
  exists cm sch0 sg ctx,
    r_cert r = Some cm /\ c = cm_chain cm /\ c <> [] /\ r_cv r = Some (Some sch0, sg) /\
    vb13 O sch0 (r_prf r) tag_server (r_tr_cv r) = Ok ctx /\
    ((cm_dc cm = [] /\ s_dc s = false /\ sch_in sch0 (r_offered r) = true /\ sch_in sch0 (r_valid r) = true /\ sig_ok O (cm_key cm) (Some sch0) ctx sg = true) \/
     (exists d, cm_dc cm = [d] /\ s_dc s = true /\ dc_cv_alg d = sch0 /\ dc_proved O r cm d ctx sg)).
Proof.
  unfold client13, records, finished, key_from_chain, dc_verify. intros H Hc.
  inv; cbn in Hc; try discriminate Hc; injection Hc as Hc; subst c.
  - (* no delegated credential *)
    split; [reflexivity|]. split; [reflexivity|]. split; [reflexivity|].
    eexists _, _, _, _. split; [reflexivity|]. split; [reflexivity|].
    split; [apply is_nil_false; first [assumption|reflexivity]|]. split; [reflexivity|]. split; [eassumption|].
    left. split; [first [assumption|reflexivity]|]. split; [reflexivity|].
    repeat match goal with Hn : negb ?b = false |- _ => apply negb_false_iff in Hn end.
    split; [first [assumption|reflexivity]|]. split; first [assumption|reflexivity].
  - (* delegated credential *)
    split; [reflexivity|]. split; [reflexivity|]. split; [reflexivity|].
    eexists _, _, _, _. split; [reflexivity|]. split; [reflexivity|].
    split; [apply is_nil_false; first [assumption|reflexivity]|]. split; [reflexivity|]. split; [eassumption|].
    right. eexists. split; [eassumption|]. split; [reflexivity|].
    match goal with Hq : pairZ_eqb _ _ = true |- _ => apply pairZ_eqb_spec in Hq; subst end.
    split; [reflexivity|]. unfold dc_proved. repeat split; first [assumption|reflexivity].
Qed.

Lemma client13_psk O r s id :
  client13 O r = Ok s -> s_psk s = Some id ->
  r_psk r = Some id /\ s_server_chain s = None /\ s_dc s = false /\
  r_rec_ok r = true /\ fin_ok O FIN_S13 (r_tr_fin r) (r_fin r) = true.
Proof.
  unfold client13, records, finished. intros H Hp.
  destruct (r_psk r) as [id'|] eqn:Dp.
  - inv. cbn in Hp. injection Hp as Hp. subst id'. repeat split; first [assumption|reflexivity].
  - inv; cbn in Hp; discriminate Hp.
Qed.

(* ---- TLS 1.3 server ---------------------------------------------------------------- *)
Lemma server13_psk O r s id :
  server13 O r = Ok s -> s_psk s = Some id ->
  r_psk r = Some id /\ binder_ok O id (r_tr_binder r) (r_binder r) = true /\
  r_rec_ok r = true /\ fin_ok O FIN_C13 (r_tr_fin r) (r_fin r) = true.
Proof.
  unfold server13, records, finished. intros H Hp.
  destruct (r_psk r) as [id'|] eqn:Dp.
  - destruct (binder_ok O id' (r_tr_binder r) (r_binder r)) eqn:B; [|discriminate H].
    cbn [bind] in H. inv; cbn in Hp; injection Hp as Hp; subst id'; repeat split; first [assumption|reflexivity].
  - cbn [bind] in H. inv; cbn in Hp; discriminate Hp.
Qed.

Lemma server13_recorded O r s c :
  server13 O r = Ok s -> s_client_chain s = Some c ->
  r_rec_ok r = true /\ fin_ok O FIN_C13 (r_tr_fin r) (r_fin r) = true /\
  ((r_psk r = None /\ r_req_cert r = true /\
    exists cm sch sg ctx,
      r_cert r = Some cm /\ c = cm_chain cm /\ c <> [] /\ r_cv r = Some (Some sch, sg) /\
      sch_in sch (r_valid r) = true /\
      vb13 O sch (r_prf r) tag_client (r_tr_cv r) = Ok ctx /\
      sig_ok O (cm_key cm) (Some sch) ctx sg = true) \/
   (exists id, r_psk r = Some id /\ s_psk s = Some id /\ r_ticket_chain r = Some c /\
               binder_ok O id (r_tr_binder r) (r_binder r) = true)).
Proof.
  unfold server13, records, finished. intros H Hc.
  destruct (r_psk r) as [id|] eqn:Dp.
  - destruct (binder_ok O id (r_tr_binder r) (r_binder r)) eqn:B; [|discriminate H].
    cbn [bind] in H. rewrite andb_false_r in H. cbn [bind] in H.
    inv. cbn in Hc. split; [reflexivity|]. split; [reflexivity|]. right.
    exists id. repeat split; try first [assumption|reflexivity]; reflexivity.
  - cbn [bind is_none] in H. rewrite andb_true_r in H.
    inv; cbn in Hc; try discriminate Hc; injection Hc as Hc; subst c.
    match goal with Hn : (if is_nil ?l then None else Some _) = Some _ |- _ =>
      destruct (is_nil l) eqn:N; [discriminate Hn|injection Hn as Hn; subst] end.
    split; [reflexivity|]. split; [reflexivity|]. left. split; [reflexivity|]. split; [reflexivity|].
    eexists _, _, _, _. split; [reflexivity|]. split; [reflexivity|].
    split; [apply is_nil_false; first [assumption|reflexivity]|]. split; [reflexivity|]. split; [first [assumption|reflexivity]|].
    split; [eassumption|]. first [assumption|reflexivity].
Qed.

(* ---- post-handshake authentication --------------------------------------------------- *)
Lemma server_pha_recorded O r c :
  server_pha O r = Ok (Some c) ->
  r_ctx_ok r = true /\ fin_ok O FIN_PHA (r_tr_fin r) (r_fin r) = true /\
  exists cm sch sg ctx,
    r_cert r = Some cm /\ c = cm_chain cm /\ c <> [] /\ r_cv r = Some (Some sch, sg) /\
    sch_in sch (r_offered r) = true /\ sch_in sch (r_valid r) = true /\
    vb13 O sch (r_prf r) tag_client (r_tr_cv r) = Ok ctx /\
    sig_ok O (cm_key cm) (Some sch) ctx sg = true.
Proof.
  unfold server_pha, finished. intros H.
  destruct (r_cert r) as [cm|] eqn:Dc; [|discriminate H].
  destruct (is_nil (cm_chain cm)) eqn:N.
  - inv.
  - cbn [negb] in H. inv.
    split; [reflexivity|]. split; [reflexivity|].
    eexists _, _, _, _. split; [reflexivity|]. split; [reflexivity|].
    split; [apply is_nil_false; first [assumption|reflexivity]|]. split; [reflexivity|].
    split; [first [assumption|reflexivity]|]. split; [first [assumption|reflexivity]|]. split; [eassumption|]. first [assumption|reflexivity].
Qed.

(* ---- <= TLS 1.2 ---------------------------------------------------------------------- *)
Lemma verify_ske_ok O r cm osch params sg u :
  verify_ske O r cm osch params sg = Ok u ->
  sig_ok O (cm_key cm) (if ver_lt (r_ver r) (3, 3) then None else osch) (ske_tbs r params) sg = true /\
  (ver_lt (r_ver r) (3, 3) = false -> exists sch, osch = Some sch /\ sch_in sch (r_valid r) = true).
Proof.
  unfold verify_ske. intros H.
  destruct (ver_lt (r_ver r) (3, 3)) eqn:V.
  - cbv iota. inv. split; [first [assumption|reflexivity]|]. intros X; discriminate X.
  - cbv iota. destruct osch as [s|]; [|discriminate H].
    destruct (sch_in s (r_valid r)) eqn:Vs; cbn [negb] in H; [|discriminate H].
    assert (sig_ok O (cm_key cm) (Some s) (ske_tbs r params) sg = true) as S.
    { inv; first [assumption|reflexivity]. }
    split; [exact S|]. intros _. exists s. split; [reflexivity|exact Vs].
Qed.

Lemma client12_recorded O r s c :
  client12 O r = Ok s -> s_server_chain s = Some c ->
  kx_has_cert (r_kx r) = true /\ r_rec_ok r = true /\
  fin_ok O FIN_S12 (r_tr_fin r) (r_fin r) = true /\
  exists cm, r_cert r = Some cm /\ c = cm_chain cm /\ c <> [] /\
    (r_kx r <> 0 ->
     exists osch params sg, r_ske r = Some (osch, params, sg) /\
       sig_ok O (cm_key cm) (if ver_lt (r_ver r) (3, 3) then None else osch) (ske_tbs r params) sg = true /\
       (ver_lt (r_ver r) (3, 3) = false -> exists sch, osch = Some sch /\ sch_in sch (r_valid r) = true)).
Proof.
  unfold client12, records, finished, key_from_chain. intros H Hc.
  destruct (kx_has_cert (r_kx r)) eqn:K.
  - destruct (r_cert r) as [cm|] eqn:Dc; [|discriminate H].
    destruct (r_kx r =? 0) eqn:K0.
    + inv; cbn in Hc; injection Hc as Hc; subst c.
      split; [reflexivity|]. split; [reflexivity|]. split; [reflexivity|].
      exists cm. split; [reflexivity|]. split; [reflexivity|]. split; [apply is_nil_false; first [assumption|reflexivity]|].
      intros X. apply Z.eqb_eq in K0. contradiction.
    + destruct (r_ske r) as [[[osch params] sg]|] eqn:Ds.
      * destruct (verify_ske O r cm osch params sg) eqn:Vs.
        -- apply verify_ske_ok in Vs. destruct Vs as [S1 S2].
           inv; cbn in Hc; injection Hc as Hc; subst c.
           split; [reflexivity|]. split; [reflexivity|]. split; [reflexivity|].
           exists cm. split; [reflexivity|]. split; [reflexivity|]. split; [apply is_nil_false; first [assumption|reflexivity]|].
           intros _. exists osch, params, sg. split; [reflexivity|]. split; [exact S1|exact S2].
        -- inv.
      * inv.
  - inv; cbn in Hc; discriminate Hc.
Qed.

Lemma server12_recorded O r s c :
  server12 O r = Ok s -> s_client_chain s = Some c ->
  ((r_kx r =? 0) || (r_kx r =? 1) = true) /\ r_req_cert r = true /\
  r_rec_ok r = true /\ fin_ok O FIN_C12 (r_tr_fin r) (r_fin r) = true /\
  exists cm osch sg sigalg vb,
    r_cert r = Some cm /\ c = cm_chain cm /\ c <> [] /\ r_cv r = Some (osch, sg) /\
    verify_bytes O (r_ver r) (r_tr_cv r) sigalg (r_premaster r) (r_cr r) (r_sr r) None tag_client
                 (Some (cm_keytype cm)) = Ok vb /\
    sig_ok O (cm_key cm) sigalg vb sg = true /\
    (r_ver r = (3, 3) -> exists sch, osch = Some sch /\ sigalg = Some sch /\ sch_in sch (r_valid r) = true) /\
    (r_ver r <> (3, 3) -> sigalg = if String.eqb (cm_keytype cm) "ecdsa" then Some (2, 3) else None).
Proof.
  unfold server12, records, finished. intros H Hc.
  destruct (kx_is_srp (r_kx r)) eqn:Ks.
  - inv; cbn in Hc; discriminate Hc.
  - destruct ((r_kx r =? 0) || (r_kx r =? 1)) eqn:K.
    + destruct (r_req_cert r) eqn:Rq.
      * destruct (r_cert r) as [cm|] eqn:Dc.
        -- destruct (is_nil (cm_chain cm)) eqn:N.
           ++ inv; cbn in Hc; discriminate Hc.
           ++ destruct (pairZ_eqb (r_ver r) (3, 3)) eqn:V.
              ** inv; cbn in Hc; injection Hc as Hc; subst c.
                 split; [reflexivity|]. split; [reflexivity|]. split; [reflexivity|]. split; [reflexivity|].
                 eexists cm, _, _, _, _. split; [reflexivity|]. split; [reflexivity|].
                 split; [apply is_nil_false; first [assumption|reflexivity]|]. split; [reflexivity|].
                 split; [eassumption|]. split; [first [assumption|reflexivity]|]. split.
                 --- intros _. eexists. split; [reflexivity|]. split; [reflexivity|]. first [assumption|reflexivity].
                 --- intros X. apply pairZ_eqb_spec in V. contradiction.
              ** inv; cbn in Hc; injection Hc as Hc; subst c.
                 split; [reflexivity|]. split; [reflexivity|]. split; [reflexivity|]. split; [reflexivity|].
                 eexists cm, _, _, _, _. split; [reflexivity|]. split; [reflexivity|].
                 split; [apply is_nil_false; first [assumption|reflexivity]|]. split; [reflexivity|].
                 split; [eassumption|]. split; [first [assumption|reflexivity]|]. split.
                 --- intros X. apply pairZ_eqb_spec in X. rewrite X in V. discriminate V.
                 --- intros _. reflexivity.
        -- inv; cbn in Hc; discriminate Hc.
      * inv; cbn in Hc; discriminate Hc.
    + inv; cbn in Hc; discriminate Hc.
Qed.

Lemma server12_srp O r s u :
  server12 O r = Ok s -> s_srp_user s = Some u ->
  kx_is_srp (r_kx r) = true /\ r_srp_user r = Some u /\ r_srp_known r = true /\ r_kx_alert r = None /\
  r_rec_ok r = true /\ fin_ok O FIN_C12 (r_tr_fin r) (r_fin r) = true.
Proof.
  unfold server12, records, finished. intros H Hu.
  destruct (kx_is_srp (r_kx r)) eqn:Ks.
  - inv. cbn in Hu. repeat split; first [assumption|reflexivity].
  - inv; cbn in Hu; discriminate Hu.
Qed.

(* ---- Checker ------------------------------------------------------------------------- *)
Lemma wrapper_accepts hs cl w fp s :
  wrapper hs cl (Some w) fp = Ok s ->
  hs = Ok s /\ exists c, (if cl then s_server_chain s else s_client_chain s) = Some c /\ fp c = w.
Proof.
  unfold wrapper. intros H. destruct hs as [s0|e].
  2:{ exfalso. unfold map_exn in H. destruct e; try discriminate H.
      destruct (code =? X_DecryptionFailed); [discriminate H|].
      destruct (code =? X_IllegalParameter); discriminate H. }
  cbn [map_exn bind] in H.
  destruct (if cl then s_server_chain s0 else s_client_chain s0) as [c|] eqn:C; [|discriminate H].
  destruct (list_eqb (fp c) w) eqn:E; [|discriminate H].
  injection H as H. subst s0. split; [reflexivity|]. exists c. split; [exact C|].
  apply list_eqb_spec. exact E.
Qed.

Lemma wrapper_mismatch (hs : res Session) (cl : bool) (w : list Z) (fp : list Z -> list Z) (s : Session) :
  hs = Ok s ->
  (forall c, (if cl then s_server_chain s else s_client_chain s) = Some c -> fp c <> w) ->
  wrapper hs cl (Some w) fp = Err (OtherExn X_AuthenticationError).
Proof.
  intros -> Hne. unfold wrapper. cbn [map_exn bind].
  destruct (if cl then s_server_chain s else s_client_chain s) as [c|] eqn:C; [|reflexivity].
  destruct (list_eqb (fp c) w) eqn:E; [|reflexivity].
  apply list_eqb_spec in E. exfalso. exact (Hne c eq_refl E).
Qed.

Lemma wrapper_failed_handshake (e : exn) (cl : bool) (w : option (list Z)) (fp : list Z -> list Z) :
  exists e', wrapper (Err e) cl w fp = Err e'.
Proof.
  unfold wrapper, map_exn. destruct e; try (eexists; reflexivity).
  destruct (code =? X_DecryptionFailed); [eexists; reflexivity|].
  destruct (code =? X_IllegalParameter); eexists; reflexivity.
Qed.

(* ---- the former refutation witnesses (held before fixes 61d7222 / 11c0ed7) are now rejected -- *)
Lemma former_witness_scheme_not_offered_rejected :
  client13 (orc_const true) run_w1 = Err (OtherExn illegal_parameter).
Proof. vm_compute. reflexivity. Qed.

Lemma former_witness_srp_unproved_not_recorded :
  exists s, server12 (orc_const true) run_w2 = Ok s /\ s_srp_user s = None.
Proof. eexists. split; vm_compute; reflexivity. Qed.

(* ---- F12: the server's own `scheme` only matters through SignatureScheme.getHash raising *)
Lemma dispatch13_srv_independent sch n1 n2 h1 h2 :
  SignatureScheme_getHash (Some n1) = Ok h1 -> SignatureScheme_getHash (Some n2) = Ok h2 ->
  dispatch13_srv sch (Some n1) = dispatch13_srv sch (Some n2).
Proof.
  intros H1 H2. unfold dispatch13_srv.
  destruct (sch_in sch eddsa_like); [reflexivity|].
  destruct (snd sch =? 3); [reflexivity|].
  destruct (sch_in sch brainpool13); [|reflexivity].
  rewrite H1, H2. reflexivity.
Qed.


Lemma client13_dc O r s :
  client13 O r = Ok s -> s_dc s = true ->
  exists cm d sg ctx,
    r_cert r = Some cm /\ cm_dc cm = [d] /\ r_cv r = Some (Some (dc_cv_alg d), sg) /\
    vb13 O (dc_cv_alg d) (r_prf r) tag_server (r_tr_cv r) = Ok ctx /\
    sch_in (dc_cv_alg d) (r_dc_offered r) = true /\ sch_in (dc_alg d) (r_offered r) = true /\
    sig_ok O (cm_key cm) (Some (dc_alg d)) (dc_tbs (cm_cert cm) (dc_cred d) (dc_alg d)) (dc_sig d) = true /\
    sig_ok O (dc_key d) (Some (dc_cv_alg d)) ctx sg = true.
Proof.
  intros H Hd.
  destruct (s_server_chain s) as [c|] eqn:Sc.
  - destruct (client13_recorded O r s c H Sc) as (_ & _ & _ & cm & sch0 & sg & ctx & Hc & _ & _ & Hcv & Hvb & Hor).
    destruct Hor as [(_ & Hf & _)|(d & Hdc & _ & Halg & (P1 & P2 & P3 & P4))].
    + rewrite Hd in Hf. discriminate Hf.
    + subst sch0. exists cm, d, sg, ctx. repeat split; first [assumption|reflexivity].
  - exfalso. revert H Hd Sc. unfold client13, records, finished, key_from_chain, dc_verify. intros H Hd Sc.
    inv; cbn in Hd, Sc; try discriminate Hd; try discriminate Sc.
Qed.

Lemma scheme_offered_parts O r :
  (forall s c, server12 O r = Ok s -> s_client_chain s = Some c -> r_ver r = (3, 3) ->
     exists sch sg, r_cv r = Some (Some sch, sg) /\ sch_in sch (r_valid r) = true) /\
  (forall s c, server13 O r = Ok s -> s_client_chain s = Some c -> r_psk r = None ->
     exists sch sg, r_cv r = Some (Some sch, sg) /\ sch_in sch (r_valid r) = true) /\
  (forall c, server_pha O r = Ok (Some c) ->
     exists sch sg, r_cv r = Some (Some sch, sg) /\ sch_in sch (r_offered r) = true /\ sch_in sch (r_valid r) = true) /\
  (forall s c, client12 O r = Ok s -> s_server_chain s = Some c -> r_kx r <> 0 -> ver_lt (r_ver r) (3, 3) = false ->
     exists sch params sg, r_ske r = Some (Some sch, params, sg) /\ sch_in sch (r_valid r) = true) /\
  (forall s, client13 O r = Ok s -> s_dc s = true ->
     exists cm d, r_cert r = Some cm /\ cm_dc cm = [d] /\
       sch_in (dc_cv_alg d) (r_dc_offered r) = true /\ sch_in (dc_alg d) (r_offered r) = true) /\
  (forall s c, client13 O r = Ok s -> s_server_chain s = Some c -> s_dc s = false ->
     exists sch sg, r_cv r = Some (Some sch, sg) /\ sch_in sch (r_offered r) = true /\ sch_in sch (r_valid r) = true).
Proof.
  split; [|split; [|split; [|split; [|split]]]].
  - intros s c H Hc V.
    destruct (server12_recorded O r s c H Hc) as (_ & _ & _ & _ & cm & osch & sg & sa & vb & _ & _ & _ & Hcv & _ & _ & H33 & _).
    destruct (H33 V) as (sch & -> & _ & Hin). exists sch, sg. split; assumption.
  - intros s c H Hc P.
    destruct (server13_recorded O r s c H Hc) as (_ & _ & [(_ & _ & cm & sch & sg & ctx & _ & _ & _ & Hcv & Hin & _)|(id & Hp & _)]).
    + exists sch, sg. split; assumption.
    + rewrite P in Hp. discriminate Hp.
  - intros c H.
    destruct (server_pha_recorded O r c H) as (_ & _ & cm & sch & sg & ctx & _ & _ & _ & Hcv & Ho & Hv & _).
    exists sch, sg. repeat split; assumption.
  - intros s c H Hc K V.
    destruct (client12_recorded O r s c H Hc) as (_ & _ & _ & cm & _ & _ & _ & Hs).
    destruct (Hs K) as (osch & params & sg & Hske & _ & Hv). destruct (Hv V) as (sch & -> & Hin).
    exists sch, params, sg. split; assumption.
  - intros s H Hd.
    destruct (client13_dc O r s H Hd) as (cm & d & sg & ctx & Hc & Hdc & _ & _ & H1 & H2 & _).
    exists cm, d. repeat split; assumption.
  - intros s c H Hc Hd.
    destruct (client13_recorded O r s c H Hc) as (_ & _ & _ & cm & sch0 & sg & ctx & _ & _ & _ & Hcv & _ & Hor).
    destruct Hor as [(_ & _ & Hoff & Hval & _)|(d & _ & Hf & _)].
    + exists sch0, sg. repeat split; assumption.
    + rewrite Hd in Hf. discriminate Hf.
Qed.

(* ---- the end-entity entry of the recorded chain -------------------------------------------- *)
Lemma cm_ee_of_chain cm :
  cm_chain cm <> [] ->
  exists e rest, cm_entries cm = e :: rest /\ cm_chain cm = e_id e :: map e_id rest /\
                 cm_key cm = e_key e /\ cm_cert cm = e_cert e /\ cm_dc cm = e_dc e.
Proof.
  unfold cm_chain, cm_key, cm_cert, cm_dc, cm_ee. destruct (cm_entries cm) as [|e rest]; intros H.
  - exfalso. apply H. reflexivity.
  - exists e, rest. repeat split; reflexivity.
Qed.

Lemma client13_dc_ee O r s :
  client13 O r = Ok s -> s_dc s = true ->
  exists cm e rest d sg ctx,
    r_cert r = Some cm /\ cm_entries cm = e :: rest /\
    s_server_chain s = Some (e_id e :: map e_id rest) /\
    e_dc e = [d] /\ r_cv r = Some (Some (dc_cv_alg d), sg) /\
    vb13 O (dc_cv_alg d) (r_prf r) tag_server (r_tr_cv r) = Ok ctx /\
    sch_in (dc_cv_alg d) (r_dc_offered r) = true /\ sch_in (dc_alg d) (r_offered r) = true /\
    sig_ok O (e_key e) (Some (dc_alg d)) (dc_tbs (e_cert e) (dc_cred d) (dc_alg d)) (dc_sig d) = true /\
    sig_ok O (dc_key d) (Some (dc_cv_alg d)) ctx sg = true.
Proof.
  intros H Hd.
  destruct (client13_dc O r s H Hd) as (cm & d & sg & ctx & Hc & Hdc & Hcv & Hvb & H1 & H2 & H3 & H4).
  destruct (s_server_chain s) as [c|] eqn:Sc.
  - destruct (client13_recorded O r s c H Sc) as (_ & _ & _ & cm' & _ & _ & _ & Hc' & Hch & Hne & _).
    rewrite Hc in Hc'. injection Hc' as Hc'. subst cm'. subst c.
    destruct (cm_ee_of_chain cm Hne) as (e & rest & He & Hchain & Hk & Hce & Hde).
    exists cm, e, rest, d, sg, ctx.
    rewrite Hchain. rewrite <- Hk, <- Hce, <- Hde.
    repeat split; first [assumption|reflexivity].
  - exfalso. revert H Hd Sc. unfold client13, records, finished, key_from_chain, dc_verify. intros H Hd Sc.
    inv; cbn in Hd, Sc; try discriminate Hd; try discriminate Sc.
Qed.

(* ---- <= TLS 1.2 resumption: identities restored from a ticket / cached session --------------- *)
Lemma server12_resume_identity O r s :
  server12_resume O r = Ok (Some s) ->
  (exists id, r_psk r = Some id) /\ r_rec_ok r = true /\
  fin_ok O FIN_C12 (r_tr_fin r) (r_fin r) = true /\
  s_srp_user s = r_ticket_srp r /\ s_client_chain s = r_ticket_chain r /\ s_server_chain s = None /\
  (forall h, r_srp_user r = Some h -> r_ticket_srp r = Some h).
Proof.
  unfold server12_resume, records, finished. intros H.
  destruct (r_psk r) as [id|] eqn:P; [|discriminate H].
  destruct (r_srp_user r) as [u|] eqn:U; destruct (r_ticket_srp r) as [u'|] eqn:T; try discriminate H.
  - destruct (list_eqb u u') eqn:E; [|discriminate H]. apply list_eqb_spec in E. subst u'.
    inv. cbn. split; [eexists; reflexivity|]. repeat split; try reflexivity.
    intros h Hh. injection Hh as Hh. subst h. reflexivity.
  - inv. cbn. split; [eexists; reflexivity|]. repeat split; try reflexivity. intros h Hh. discriminate Hh.
  - inv. cbn. split; [eexists; reflexivity|]. repeat split; try reflexivity. intros h Hh. discriminate Hh.
Qed.

(* ---- range guard of the DSA verification generated from Python_DSAKey.verify ------------------ *)
From TV Require Import Gen.C05_DsaVerify.
From Coq Require Import Lia.
Lemma dsa_tail_accept_in_range (invMod : Z -> Z -> Z) (powMod : Z -> Z -> Z -> Z) p q g y d r s :
  dsa_verify_tail invMod powMod p q g y d r s = true ->
  0 < r < q /\ 0 < s < q /\
  r = (((powMod g ((d * invMod s q) mod q) p) * (powMod y ((r * invMod s q) mod q) p)) mod p) mod q.
Proof.
  unfold dsa_verify_tail. intros H.
  match type of H with (if ?c then _ else _) = true => destruct c eqn:E; [|discriminate H] end.
  repeat (rewrite andb_true_iff in E). rewrite !Z.ltb_lt in E.
  cbv zeta in H. apply Z.eqb_eq in H.
  split; [lia|]. split; [lia|]. exact H.
Qed.

(* ---- Checker and resumed connections ------------------------------------------------------------ *)
Lemma wrapper_r_checked hs cl w fp resumed chk s :
  (cl = false \/ resumed = false \/ chk = true) ->
  wrapper_r hs cl (Some w) fp resumed chk = Ok s ->
  hs = Ok s /\ exists c, (if cl then s_server_chain s else s_client_chain s) = Some c /\ fp c = w.
Proof.
  unfold wrapper_r. intros Hc H.
  assert (resumed && negb chk && cl = false) as E.
  { destruct Hc as [-> | [-> | ->]]; [apply andb_false_r|reflexivity|].
    rewrite andb_false_r. reflexivity. }
  rewrite E in H. exact (wrapper_accepts hs cl w fp s H).
Qed.

Lemma wrapper_r_client_skips hs w fp : wrapper_r hs true w fp true false = map_exn hs.
Proof. reflexivity. Qed.

Lemma wrapper_r_former_witness_rejected :
  wrapper_r (Ok session_w3) false (Some [21]) (fun x => x) true false = Err (OtherExn X_AuthenticationError).
Proof. reflexivity. Qed.
