(* C03 -- lemmas about the abbreviated handshake, Model/C03_Resume.v *)
From Coq Require Import ZArith List Bool Lia.
From TV Require Import Base.Prelude Gen.C03Tables Model.C03_Negotiate Model.C03_Resume Proofs.C03_Negotiate.
Import ListNotations.
Open Scope Z_scope.

(* every field of views_agree_core except the application protocol *)
Definition views_agree_but_alpn (cv sv : View) : Prop :=
  vw_version cv = vw_version sv /\ vw_suite cv = vw_suite sv /\ vw_etm cv = vw_etm sv /\
  vw_ems cv = vw_ems sv /\ vw_npn cv = vw_npn sv /\ vw_sni cv = vw_sni sv /\
  vw_send_limit cv = vw_recv_limit sv /\ vw_recv_limit cv = vw_send_limit sv /\
  vw_secret cv = vw_secret sv.

Lemma core_but_alpn cv sv : views_agree_core cv sv -> views_agree_but_alpn cv sv /\ vw_alpn cv = vw_alpn sv.
Proof.
  intros [A [B [C [D [E [F [G [H [I J]]]]]]]]]. split; [|exact E]. repeat split; assumption.
Qed.

Lemma full_handshake_agrees c2 s2 r : full_handshake c2 s2 = Ok r ->
  rs_resumed r = false /\ views_agree_core (rs_client r) (rs_server r).
Proof.
  unfold full_handshake. destruct (negotiate c2 s2) as [o|] eqn:E; [|discriminate].
  cbn [bind]. intros H. injection H as <-. cbn [rs_resumed rs_client rs_server].
  split; [reflexivity|]. exact (views_agree_core_all _ _ _ E).
Qed.

Lemma resume_legacy_agrees t c2 s2 sc ss r :
  views_agree_core sc ss -> resume_legacy t c2 s2 sc ss = Ok r ->
  views_agree_core (rs_client r) (rs_server r).
Proof.
  intros V H. unfold resume_legacy in H.
  destruct (client_offer c2) as [ch|] eqn:E0; [|discriminate H]. cbn [bind] in H.
  destruct (negb (memZ (vw_suite sc) (client_suites c2))); [discriminate H|].
  destruct (negb (opt_eqb (vw_sni sc) (cl_sni c2))); [discriminate H|].
  destruct (server_min_version (sv_set s2) ch) as [[]|]; [|discriminate H]. cbn [bind] in H.
  destruct (server_tls13_sanity ch) as [[]|]; [|discriminate H]. cbn [bind] in H.
  destruct (server_pick_version (sv_set s2) ch) as [v|]; [|discriminate H]. cbn [bind] in H.
  destruct (if (v <? st_maxV (sv_set s2)) && ch_fallback ch then _ else _) as [[]|]; [|discriminate H]. cbn [bind] in H.
  destruct (match ch_rsl ch with Some r0 => _ | None => _ end) as [[]|]; [|discriminate H]. cbn [bind] in H.
  assert (FULL : forall r', full_handshake c2 s2 = Ok r' -> views_agree_core (rs_client r') (rs_server r')).
  { intros r' Hr. exact (proj2 (full_handshake_agrees _ _ _ Hr)). }
  destruct (t && (st_maxV (cl_set c2) =? 0)); [exact (FULL r H)|].
  destruct (3 <? v); [exact (FULL r H)|].
  destruct (negb (memZ (vw_suite ss) (server_suites s2 ch v))); [exact (FULL r H)|].
  destruct (negb (memZ (vw_suite ss) (ch_suites ch))); [discriminate H|].
  destruct (match ch_sni ch with Some n => _ | None => false end); [discriminate H|].
  destruct (vw_etm ss && negb (ch_etm ch)); [discriminate H|].
  destruct (vw_ems ss && negb (ch_ems ch)); [discriminate H|].
  destruct (negb (vw_ems ss) && ch_ems ch); [exact (FULL r H)|].
  destruct (match ch_alpn ch, sv_alpn s2 with Some ca, Some sa => _ | _, _ => _ end) as [alpn|] eqn:EA; [|discriminate H].
  cbn [bind] in H.
  match type of H with bind ?m _ = _ => destruct m as [[]|]; [|discriminate H] end. cbn [bind] in H.
  match type of H with (if ?b then _ else _) = _ => destruct b; [discriminate H|] end.
  injection H as <-. cbn [rs_client rs_server rs_resumed].
  destruct V as [V1 [V2 [V3 [V4 [V5 [V6 [V7 [V8 [V9 V10]]]]]]]]].
  unfold views_agree_core, resumed_view.
  cbn [vw_version vw_suite vw_etm vw_ems vw_npn vw_sni vw_send_limit vw_recv_limit vw_secret vw_alpn].
  repeat split; try assumption; try reflexivity.
  - destruct (ch_rsl ch) as [r0|] eqn:R; destruct (st_rsl (sv_set s2)) as [m|]; cbn [fst snd];
      try reflexivity; destruct (st_rsl (cl_set c2)); reflexivity.
  - destruct (ch_rsl ch) as [r0|] eqn:R; destruct (st_rsl (sv_set s2)) as [m|]; cbn [fst snd];
      try reflexivity; try (destruct (st_rsl (cl_set c2)); reflexivity).
    rewrite (client_offer_rsl _ _ _ E0 R). reflexivity.
Qed.

Lemma resumed_after_negotiate t c s o c2 s2 r : negotiate c s = Ok o ->
  resume_legacy t c2 s2 (oc_client o) (oc_server o) = Ok r ->
  views_agree_core (rs_client r) (rs_server r).
Proof.
  intros H R. exact (resume_legacy_agrees _ _ _ _ _ _ (views_agree_core_all _ _ _ H) R).
Qed.
