(* Fragmentation (TLSRecordLayer._sendMsg): lemmas. *)
From Coq Require Import ZArith List Bool Lia.
From TV Require Import Base.Prelude Model.C01_RecordPipe Proofs.C01_Lists.
Import ListNotations.
Open Scope Z_scope.

Lemma split_fuel_concat fuel lim buf : concat (split_fuel fuel lim buf) = buf.
Proof.
  revert buf. induction fuel as [|f IH]; intros buf; cbn [split_fuel].
  - cbn. apply app_nil_r.
  - destruct (zlen buf >? lim).
    + cbn [concat]. rewrite IH. apply ztake_zdrop.
    + cbn. apply app_nil_r.
Qed.

Lemma split_fuel_bound fuel lim buf : 1 <= lim -> (length buf <= fuel)%nat ->
  Forall (fun f => zlen f <= lim) (split_fuel fuel lim buf).
Proof.
  intros Hl. revert buf. induction fuel as [|f IH]; intros buf Hf; cbn [split_fuel].
  - constructor; [|constructor]. destruct buf; [rewrite zlen_nil; lia|cbn in Hf; lia].
  - destruct (zlen buf >? lim) eqn:E.
    + constructor.
      * rewrite zlen_ztake; lia.
      * apply IH. unfold zdrop. rewrite skipn_length. unfold zlen in E. lia.
    + constructor; [lia|constructor].
Qed.

Lemma split_fuel_nonempty fuel lim buf : 1 <= lim -> buf <> [] ->
  Forall (fun f => f <> []) (split_fuel fuel lim buf).
Proof.
  intros Hl. revert buf. induction fuel as [|f IH]; intros buf Hne; cbn [split_fuel].
  - constructor; [exact Hne|constructor].
  - destruct (zlen buf >? lim) eqn:E.
    + constructor.
      * intros H0. apply (f_equal zlen) in H0. rewrite zlen_ztake, zlen_nil in H0; lia.
      * apply IH. intros H0. apply (f_equal zlen) in H0.
        rewrite zlen_zdrop, zlen_nil in H0; lia.
    + constructor; [exact Hne|constructor].
Qed.

Lemma split_concat lim buf : concat (split lim buf) = buf.
Proof. apply split_fuel_concat. Qed.

Lemma split_bound lim buf : 1 <= lim -> Forall (fun f => zlen f <= lim) (split lim buf).
Proof. intros H. apply split_fuel_bound; [exact H|lia]. Qed.

Lemma fragment_concat_l beast lim data : concat (fragment beast lim data) = data.
Proof.
  unfold fragment. destruct beast; [|apply split_concat].
  cbn [concat]. destruct (zlen (zdrop 1 data) =? 0) eqn:E.
  - apply Z.eqb_eq in E. apply zlen_zero_nil in E. cbn [concat]. rewrite app_nil_r.
    rewrite <- (ztake_zdrop 1 data) at 2. rewrite E, app_nil_r. reflexivity.
  - rewrite split_concat. apply ztake_zdrop.
Qed.

Lemma fragment_bound_l beast lim data : 1 <= lim ->
  Forall (fun f => zlen f <= lim) (fragment beast lim data).
Proof.
  intros H. unfold fragment. destruct beast; [|apply split_bound; exact H].
  constructor.
  - unfold ztake. unfold zlen. rewrite firstn_length. change (Z.to_nat 1) with 1%nat. lia.
  - destruct (zlen (zdrop 1 data) =? 0); [constructor|apply split_bound; exact H].
Qed.

Lemma fragment_empty beast lim : fragment beast lim [] = [[]].
Proof. destruct beast; reflexivity. Qed.

Lemma fragment_nonempty beast lim data : 1 <= lim -> data <> [] ->
  Forall (fun f => f <> []) (fragment beast lim data).
Proof.
  intros Hl Hne. unfold fragment. destruct beast.
  - constructor.
    + destruct data; [congruence|]. cbn. discriminate.
    + destruct (zlen (zdrop 1 data) =? 0) eqn:E; [constructor|].
      apply split_fuel_nonempty; [exact Hl|]. intros H0. rewrite H0 in E. discriminate.
  - apply split_fuel_nonempty; assumption.
Qed.

(* the 1/n-1 split: first record carries exactly one byte *)
Lemma fragment_beast_head lim data : data <> [] ->
  exists b rest, data = b :: rest /\ hd [] (fragment true lim data) = [b].
Proof. intros H. destruct data as [|b rest]; [congruence|]. exists b, rest. split; reflexivity. Qed.

Lemma record_size_le user sl : record_size user sl <= sl /\ record_size user sl <= user.
Proof. unfold record_size. lia. Qed.
