(* C17 -- lemmas about Model/C17_Lifecycle.v *)
From Coq Require Import ZArith List Bool Lia.
From TV Require Import Model.C17_Lifecycle.
Import ListNotations.
Open Scope Z_scope.

(* destruct whatever the goal (or a hypothesis named H) is matching on *)
Ltac dmatch :=
  match goal with
  | |- context [match ?x with _ => _ end] =>
      match type of x with
      | _ => is_var x; destruct x
      | _ => let E := fresh "E" in destruct x eqn:E
      end
  end.
Ltac dmatch_in H :=
  match type of H with
  | context [match ?x with _ => _ end] =>
      match type of x with
      | _ => is_var x; destruct x
      | _ => let E := fresh "E" in destruct x eqn:E
      end
  end.

(* the session flag may only stay or go from resumable to not resumable *)
Definition sess_le (a b : option bool) : Prop := b = a \/ (a = Some true /\ b = Some false).

Lemma sess_le_refl a : sess_le a a.
Proof. left; reflexivity. Qed.

Lemma sess_le_trans a b c : sess_le a b -> sess_le b c -> sess_le a c.
Proof.
  unfold sess_le. intros [->|[-> ->]] [->|[E ->]]; auto; try discriminate.
Qed.

Lemma sess_le_off a : sess_le a (option_map (fun _ => false) a).
Proof. destruct a as [[|]|]; cbn; [right|left|left]; auto. Qed.

(* ---- what the primitives leave alone ---------------------------------------------------- *)
(* "frame": configuration, lifecycle flags other than those named, never touched by I/O *)
Definition same_core (s s' : st) : Prop :=
  closed s' = closed s /\ hs s' = hs s /\ refc s' = refc s /\ sess s' = sess s /\ ign s' = ign s /\
  csock s' = csock s /\ tls13 s' = tls13 s /\ split s' = split s /\ recsz s' = recsz s /\
  rbuf s' = rbuf s /\ rxe s' = rxe s /\ sock_open s' = sock_open s.

Lemma same_core_refl s : same_core s s.
Proof. unfold same_core; repeat split. Qed.

Lemma same_core_trans a b c : same_core a b -> same_core b c -> same_core a c.
Proof. unfold same_core. intuition congruence. Qed.

Ltac inv H := inversion H; subst; clear H.
Ltac prim H := repeat (dmatch_in H); inv H; unfold same_core; cbn; repeat split; auto.

Lemma sock_send_core ws s s' e : sock_send ws s = (s', e) ->
  same_core s s' /\ inq s' = inq s /\ wq s' = wq s /\ bufw s' = bufw s.
Proof. unfold sock_send. intros H. prim H. Qed.

Lemma send_rec_core w s s' e : send_rec w s = (s', e) ->
  same_core s s' /\ inq s' = inq s /\ bufw s' = bufw s /\ (bufw s = false -> wq s' = wq s).
Proof.
  unfold send_rec. intros H. destruct (bufw s) eqn:B.
  - inv H. unfold same_core; cbn; repeat split; auto. intros; congruence.
  - apply sock_send_core in H. destruct H as (A & B1 & C & D). split; [exact A|]. repeat split; auto; congruence.
Qed.

Lemma flush_core s s' e : flush s = (s', e) ->
  same_core s s' /\ inq s' = inq s /\ bufw s' = bufw s /\ wq s' = [].
Proof.
  unfold flush. intros H. destruct (wq s) eqn:Q.
  - inv H. repeat split; auto using same_core_refl.
  - apply sock_send_core in H. cbn in H. unfold same_core in *. cbn in H. intuition.
Qed.

Lemma flush_nil s : wq s = [] -> flush s = (s, None).
Proof. intros Q. unfold flush. rewrite Q. reflexivity. Qed.

(* ---- R: what every piece of the machine guarantees between entry and exit ---------------- *)
Definition cfg_same (s s' : st) : Prop :=
  ign s' = ign s /\ csock s' = csock s /\ tls13 s' = tls13 s /\ split s' = split s /\ recsz s' = recsz s.

Definition R (s s' : st) : Prop :=
  sess_le (sess s) (sess s') /\ cfg_same s s' /\ (closed s = true -> closed s' = true) /\ hs s' = hs s.

Lemma R_refl s : R s s.
Proof. unfold R, cfg_same. repeat split; auto using sess_le_refl. Qed.

Lemma R_trans a b c : R a b -> R b c -> R a c.
Proof.
  unfold R, cfg_same. intros (S1 & (A1 & A2 & A3 & A4 & A5) & C1 & H1) (S2 & (B1 & B2 & B3 & B4 & B5) & C2 & H2).
  repeat split; try congruence; eauto using sess_le_trans.
Qed.

Lemma core_R s s' : same_core s s' -> R s s'.
Proof.
  unfold same_core, R, cfg_same. intros (A1 & A2 & A3 & A4 & A5 & A6 & A7 & A8 & A9 & _).
  repeat split; try congruence. rewrite A4. apply sess_le_refl.
Qed.

Lemma shutdown_spec r s s' e : shutdown r s = (s', e) ->
  closed s' = true /\ R s s' /\ rbuf s' = rbuf s /\ inq s' = inq s /\ rxe s' = rxe s /\ refc s' = refc s /\
  bufw s' = bufw s /\
  (r = true -> sess s' = sess s) /\
  (e = None -> r = false -> sess s' = option_map (fun _ => false) (sess s)) /\
  (wq s = [] -> e = None /\ wq s' = []) /\
  (e = None -> csock s = true -> sock_open s' = false) /\
  (csock s = false -> sock_open s' = sock_open s /\ e = None).
Proof.
  destruct s as [cl h rc se ig cs t13 sp rz so bw q rb iq rx tx wi].
  unfold shutdown, flush, sock_send; cbn. intros H.
  destruct cs, q as [|w q], so, tx as [[k z]|], r; cbn in H; try destruct (k <=? 0); cbn in H; inv H;
    cbn; unfold R, cfg_same; cbn; repeat split; intros; auto using sess_le_refl, sess_le_off;
    try congruence; try discriminate.
Qed.

Lemma shutdown_R r s s' e : shutdown r s = (s', e) -> R s s'.
Proof. intros H. apply shutdown_spec in H. tauto. Qed.

Lemma sock_send_R ws s s' e : sock_send ws s = (s', e) -> R s s'.
Proof. intros H. apply sock_send_core in H. apply core_R. tauto. Qed.
Lemma send_rec_R w s s' e : send_rec w s = (s', e) -> R s s'.
Proof. intros H. apply send_rec_core in H. apply core_R. tauto. Qed.
Lemma flush_R s s' e : flush s = (s', e) -> R s s'.
Proof. intros H. apply flush_core in H. apply core_R. tauto. Qed.

Lemma set_inq_R q s : R s (set_inq q s).
Proof. unfold R, cfg_same; cbn; repeat split; auto using sess_le_refl. Qed.
Lemma set_rbuf_R q s : R s (set_rbuf q s).
Proof. unfold R, cfg_same; cbn; repeat split; auto using sess_le_refl. Qed.
Lemma set_bufw_R q s : R s (set_bufw q s).
Proof. unfold R, cfg_same; cbn; repeat split; auto using sess_le_refl. Qed.
Lemma set_refc_R q s : R s (set_refc q s).
Proof. unfold R, cfg_same; cbn; repeat split; auto using sess_le_refl. Qed.

Lemma raise_after_shutdown_spec r x s s' o : raise_after_shutdown r x s = (s', o) ->
  R s s' /\ closed s' = true /\ exists y, o = OExc y.
Proof.
  unfold raise_after_shutdown. destruct (shutdown r s) as [s1 e] eqn:S. intros H. inv H.
  apply shutdown_spec in S. split; [tauto|]. split; [tauto|]. eexists; reflexivity.
Qed.

Lemma send_error_R d s s' x : send_error d s = (s', x) -> R s s'.
Proof.
  unfold send_error. intros H.
  destruct (flush s) as [s1 e1] eqn:F. pose proof (flush_R _ _ _ F) as R1.
  destruct e1; [inv H; exact R1|].
  destruct (send_rec (WAlert 2 d) (set_bufw false s1)) as [s3 e3] eqn:S3. pose proof (send_rec_R _ _ _ _ S3) as R3.
  assert (R s s3) as R13 by (eapply R_trans; [exact R1|]; eapply R_trans; [apply set_bufw_R|exact R3]).
  destruct e3; [inv H; exact R13|].
  destruct (shutdown false s3) as [s4 e4] eqn:S4. inv H.
  eapply R_trans; [exact R13|]. eapply shutdown_R; eauto.
Qed.

Lemma alert_branch_R l d s s' x : alert_branch l d s = (s', x) -> R s s'.
Proof.
  unfold alert_branch. intros H.
  destruct (shutdown (d =? 0) (if (l =? 1) || (d =? 0) then fst (send_rec (WAlert 1 0) s) else s)) as [s2 e] eqn:S.
  inv H. apply shutdown_R in S. eapply R_trans; [|exact S].
  destruct ((l =? 1) || (d =? 0)); [|apply R_refl].
  destruct (send_rec (WAlert 1 0) s) eqn:E. cbn. eapply send_rec_R; eauto.
Qed.

Lemma get_msg_q_R c q : forall s s' r, get_msg_q c q s = (s', r) -> R s s'.
Proof.
  induction q as [|i q IH]; intros s s' r H; cbn in H.
  - inv H. apply set_inq_R.
  - assert (R s (set_inq q s)) as R0 by apply set_inq_R.
    assert ((let '(s1, x) := send_error 10 (set_inq q s) in (s1, @Exc item x)) = (s', r) -> R s s') as SE.
    { intros X. destruct (send_error 10 (set_inq q s)) eqn:E. inv X. eapply R_trans; [exact R0|eapply send_error_R; eauto]. }
    destruct i as [d|l d|b|k].
    + destruct c.
      * destruct d; [eapply R_trans; [exact R0|eauto]|inv H; exact R0].
      * destruct d; [eapply R_trans; [exact R0|eauto]|inv H; exact R0].
      * destruct (send_error 10 (set_inq q s)) eqn:E. inv H. eapply R_trans; [exact R0|eapply send_error_R; eauto].
    + destruct c; try (inv H; exact R0);
        destruct (alert_branch l d (set_inq q s)) eqn:E; inv H; (eapply R_trans; [exact R0|eapply alert_branch_R; eauto]).
    + destruct c.
      * destruct (b && tls13 s); [inv H; exact R0|].
        destruct (send_error 10 (set_inq q s)) eqn:E. inv H. eapply R_trans; [exact R0|eapply send_error_R; eauto].
      * destruct (send_error 10 (set_inq q s)) eqn:E. inv H. eapply R_trans; [exact R0|eapply send_error_R; eauto].
      * inv H; exact R0.
    + destruct k as [| |a|a].
      * destruct c; try (apply SE; exact H). destruct (tls13 s); [inv H; exact R0|apply SE; exact H].
      * destruct c; try (apply SE; exact H). destruct (tls13 s); [inv H; exact R0|apply SE; exact H].
      * destruct a; [|apply SE; exact H].
        eapply R_trans; [exact R0|]. eapply R_trans; [|eapply IH; exact H].
        destruct (send_rec (WHs 24) (set_inq q s)) eqn:E. cbn. eapply send_rec_R; eauto.
      * destruct c; try (apply SE; exact H). destruct (a && tls13 s); [inv H; exact R0|apply SE; exact H].
Qed.

Lemma get_msg_R c s s' r : get_msg c s = (s', r) -> R s s'.
Proof. apply get_msg_q_R. Qed.

Lemma post_send_hs_R s s' r : post_send_hs s = (s', r) -> R s s'.
Proof.
  unfold post_send_hs. intros H.
  destruct (send_rec (WHs 22) s) as [s1 e] eqn:E. pose proof (send_rec_R _ _ _ _ E) as R1.
  destruct e as [z|]; [|inv H; exact R1].
  destruct (recv_item s1) as [s2 ri] eqn:V.
  assert (R s1 s2) as R2.
  { unfold recv_item in V. destruct (inq s1); inv V; [apply R_refl|apply set_inq_R]. }
  destruct ri as [i|x| |]; try (inv H; eapply R_trans; eauto; fail).
  destruct (shutdown false s2) as [s3 e'] eqn:S. apply shutdown_R in S. inv H.
  eapply R_trans; [exact R1|]. eapply R_trans; [exact R2|exact S].
Qed.

Lemma post_send_w_R s s' r : post_send_w s = (s', r) -> R s s'.
Proof.
  unfold post_send_w. intros H. destruct (post_send_hs s) as [s1 r1] eqn:P. apply post_send_hs_R in P.
  destruct r1 as [u|x| |]; try (inv H; exact P).
  destruct (shutdown false s1) as [s2 e] eqn:S. apply shutdown_R in S. inv H. eapply R_trans; eauto.
Qed.

(* an exception leaving _send_post_handshake_msg has closed the connection *)
Lemma post_send_w_exc s s' x : post_send_w s = (s', Exc x) -> closed s' = true.
Proof.
  unfold post_send_w. intros H. destruct (post_send_hs s) as [s1 r1] eqn:P.
  destruct r1 as [u|y| |]; try discriminate.
  destruct (shutdown false s1) as [s2 e] eqn:S. apply shutdown_spec in S. inv H. tauto.
Qed.

Lemma read_msg_R s s' r : read_msg s = (s', r) -> R s s'.
Proof.
  unfold read_msg. intros H. destruct (get_msg CRead s) as [s1 r1] eqn:G. pose proof (get_msg_R _ _ _ _ G) as R1.
  destruct r1 as [i|x| |]; try (inv H; exact R1).
  destruct i as [d|l d|b|k]; try (inv H; exact R1).
  destruct k as [| |a|a]; try (inv H; exact R1).
  - destruct (post_send_w s1) as [s2 r2] eqn:P. apply post_send_w_R in P.
    destruct r2; inv H; eapply R_trans; eauto.
  - destruct (sock_send [WHs 22; WHs 22; WHs 22] s1) as [s2 e] eqn:P. apply sock_send_R in P.
    inv H. eapply R_trans; eauto.
Qed.

Lemma read_loop_R mn : forall f t s s' r, read_loop f t mn s = (s', r) -> R s s'.
Proof.
  induction f as [|f IH]; intros t s s' r H; cbn in H; [inv H; apply R_refl|].
  destruct (((zlen (rbuf s) <? mn) || (is_nil (rbuf s) && t)) && negb (closed s)); [|inv H; apply R_refl].
  destruct (read_msg s) as [s1 r1] eqn:G. pose proof (read_msg_R _ _ _ G) as R1.
  destruct r1 as [i|x| |].
  - destruct i as [d|l d|b|k]; (eapply R_trans; [exact R1|]);
      [eapply R_trans; [apply set_rbuf_R|eapply IH; eauto]|eauto|eauto|destruct k; eauto].
  - destruct x; try (inv H; exact R1).
    + destruct (ign s1); [|inv H; exact R1].
      destruct (shutdown true s1) as [s2 e] eqn:S. pose proof (shutdown_R _ _ _ _ S) as R2.
      destruct e; [inv H; eapply R_trans; eauto|]. eapply R_trans; [exact R1|]. eapply R_trans; [exact R2|eauto].
    + destruct (desc =? 0); [eapply R_trans; [exact R1|eauto]|inv H; exact R1].
  - inv H; exact R1.
  - inv H; exact R1.
Qed.

Lemma do_read_R mx mn s s' o : do_read mx mn s = (s', o) -> R s s'.
Proof.
  unfold do_read. intros H. destruct (read_loop (S (S (length (inq s)))) true mn s) as [s1 r] eqn:L.
  pose proof (read_loop_R _ _ _ _ _ _ L) as R1. destruct r.
  - inv H. eapply R_trans; [exact R1|apply set_rbuf_R].
  - apply raise_after_shutdown_spec in H. eapply R_trans; [exact R1|tauto].
  - inv H; exact R1.
  - inv H; exact R1.
Qed.

Lemma send_all_R rs : forall s s' e, send_all rs s = (s', e) -> R s s'.
Proof.
  induction rs as [|x rs IH]; intros s s' e H; cbn in H; [inv H; apply R_refl|].
  destruct (send_rec (WData x) s) as [s1 e1] eqn:S. pose proof (send_rec_R _ _ _ _ S) as R1.
  destruct e1; [inv H; exact R1|]. eapply R_trans; eauto.
Qed.

Lemma do_write_R d s s' o : do_write d s = (s', o) -> R s s'.
Proof.
  unfold do_write. intros H. destruct (closed s).
  - inv H. apply R_refl.
  - destruct (send_all (records s d) s) as [s1 e] eqn:S. pose proof (send_all_R _ _ _ _ S) as R1.
    destruct e; [apply raise_after_shutdown_spec in H; eapply R_trans; [exact R1|tauto]|inv H; exact R1].
Qed.

Lemma close_wait_R : forall f s s' r, close_wait f s = (s', r) -> R s s'.
Proof.
  induction f as [|f IH]; intros s s' r H; cbn in H; [inv H; apply R_refl|].
  destruct (get_msg CWait s) as [s1 r1] eqn:G. pose proof (get_msg_R _ _ _ _ G) as R1.
  destruct r1 as [i|x| |]; try (inv H; exact R1).
  destruct i; try (inv H; exact R1); eapply R_trans; eauto.
Qed.

Lemma close_forgive_R s s' o : close_forgive s = (s', o) -> R s s' /\ closed s' = true.
Proof.
  unfold close_forgive. destruct (shutdown true s) as [s1 e] eqn:S. intros H; inv H.
  apply shutdown_spec in S. tauto.
Qed.

Lemma do_close_R s s' o : do_close s = (s', o) -> R s s'.
Proof.
  unfold do_close. intros H. destruct (closed s); [inv H; apply R_refl|].
  assert (R s (set_refc (refc s - 1) s)) as R0 by apply set_refc_R.
  destruct (refc (set_refc (refc s - 1) s) =? 0); [|inv H; exact R0].
  destruct (send_rec (WAlert 1 0) (set_refc (refc s - 1) s)) as [s2 e2] eqn:S2.
  pose proof (send_rec_R _ _ _ _ S2) as R2. assert (R s s2) as R02 by (eapply R_trans; [exact R0|exact R2]).
  destruct e2; [apply close_forgive_R in H; eapply R_trans; [exact R02|tauto]|].
  destruct (csock s2).
  - destruct (shutdown true s2) as [s3 e3] eqn:S3. pose proof (shutdown_R _ _ _ _ S3) as R3.
    destruct e3; [apply close_forgive_R in H; eapply R_trans; [exact R02|]; eapply R_trans; [exact R3|tauto]|].
    inv H. eapply R_trans; [exact R02|exact R3].
  - destruct (close_wait (S (length (inq s2))) s2) as [s3 r3] eqn:W. pose proof (close_wait_R _ _ _ _ W) as R3.
    assert (R s s3) as R03 by (eapply R_trans; [exact R02|exact R3]).
    destruct r3 as [[l d]|x| |]; try (inv H; exact R03).
    + destruct (d =? 0).
      * destruct (shutdown true s3) as [s4 e4] eqn:S4. pose proof (shutdown_R _ _ _ _ S4) as R4.
        destruct e4; [apply close_forgive_R in H; eapply R_trans; [exact R03|]; eapply R_trans; [exact R4|tauto]|].
        inv H. eapply R_trans; [exact R03|exact R4].
      * apply raise_after_shutdown_spec in H. eapply R_trans; [exact R03|tauto].
    + destruct x; try (apply raise_after_shutdown_spec in H; eapply R_trans; [exact R03|tauto]);
        (apply close_forgive_R in H; eapply R_trans; [exact R03|tauto]).
Qed.

(* ---- handshake steps --------------------------------------------------------------------- *)
Arguments hs_wrapper : simpl never.
Arguments look_for_alert : simpl never.
Arguments raise_after_shutdown : simpl never.
Arguments get_msg : simpl never.
Arguments send_rec : simpl never.
Arguments flush : simpl never.
Arguments shutdown : simpl never.
Arguments send_error : simpl never.
Arguments alert_branch : simpl never.
(* Rs: like R but saying nothing about hs (the wrapper ends the handshake) *)
Definition Rs (s s' : st) : Prop :=
  sess_le (sess s) (sess s') /\ cfg_same s s' /\ (closed s = true -> closed s' = true).

Lemma R_Rs s s' : R s s' -> Rs s s'.
Proof. unfold R, Rs. tauto. Qed.

Lemma Rs_trans a b c : Rs a b -> Rs b c -> Rs a c.
Proof.
  unfold Rs, cfg_same. intros (S1 & (A1 & A2 & A3 & A4 & A5) & C1) (S2 & (B1 & B2 & B3 & B4 & B5) & C2).
  repeat split; try congruence; eauto using sess_le_trans.
Qed.

Lemma set_hs_Rs b s : Rs s (set_hs b s).
Proof. unfold Rs, cfg_same; cbn; repeat split; auto using sess_le_refl. Qed.

Lemma hs_wrapper_spec x s s' o : hs_wrapper x s = (s', o) ->
  Rs s s' /\ hs s' = false /\ exists y, o = OExc y.
Proof.
  unfold hs_wrapper. intros H.
  assert (forall s1 o1, raise_after_shutdown false x (set_hs false s) = (s1, o1) ->
          Rs s s1 /\ hs s1 = false /\ exists y, o1 = OExc y) as K.
  { intros s1 o1 E. apply raise_after_shutdown_spec in E. destruct E as ((S1 & C1 & M1 & H1) & CL & Y).
    split; [|split; [cbn in H1; exact H1|exact Y]].
    eapply Rs_trans; [apply set_hs_Rs|]. unfold Rs. tauto. }
  destruct x; try (apply K; exact H); inv H; (split; [apply set_hs_Rs|split; [reflexivity|eexists; reflexivity]]).
Qed.

Lemma recv_item_R s s' r : recv_item s = (s', r) -> R s s'.
Proof.
  unfold recv_item. destruct (inq s); intros H; inv H; [apply R_refl|apply set_inq_R].
Qed.

Lemma look_for_alert_spec z s s' o : look_for_alert z s = (s', o) ->
  Rs s s' /\ hs s' = false /\ (o = OBlocked \/ exists y, o = OExc y).
Proof.
  unfold look_for_alert. intros H.
  destruct (recv_item s) as [s1 r] eqn:E. pose proof (recv_item_R _ _ _ E) as R1.
  assert (forall x t, R s t -> hs_wrapper x t = (s', o) ->
          Rs s s' /\ hs s' = false /\ (o = OBlocked \/ exists y, o = OExc y)) as W.
  { intros x t Rt X. apply hs_wrapper_spec in X. destruct X as (A & B & (y & ->)).
    split; [eapply Rs_trans; [apply R_Rs; exact Rt|exact A]|]. split; [exact B|]. right; eauto. }
  destruct r as [i|x| |].
  - destruct (shutdown false s1) as [s2 e] eqn:S. pose proof (shutdown_R _ _ _ _ S) as R2.
    assert (R s s2) as R12 by (eapply R_trans; [exact R1|exact R2]).
    destruct e as [z'|]; [eapply W; eauto|]. destruct i; eapply W; eauto.
  - eapply W; eauto.
  - inv H. split; [eapply Rs_trans; [apply R_Rs; exact R1|apply set_hs_Rs]|]. split; [reflexivity|]. left; reflexivity.
  - exfalso. (* recv_item never returns Fuel *)
    unfold recv_item, no_input in E. destruct (inq s); [|discriminate].
    destruct (negb (sock_open s)); [discriminate|]. destruct (rxe s); discriminate.
Qed.

Ltac fin := unfold cfg_same in *; cbn in *;
  intuition (try congruence; try discriminate; eauto using sess_le_refl, sess_le_trans).

(* facts about one handshake step *)
Lemma do_hs_spec h s s' o : do_hs h s = (s', o) ->
  cfg_same s s' /\
  ((forall b, h <> HSetSess b) -> sess_le (sess s) (sess s')) /\
  (h <> HDone -> closed s = true -> closed s' = true) /\
  (hs s' = true -> hs s = true /\ h <> HDone) /\
  (forall y, o = OExc y -> hs s' = false) /\
  (o = OHsDone -> h = HDone /\ hs s = true) /\
  (h = HDone -> o = OHsDone \/ o = ONone) /\
  (o <> ONone -> hs s = true).
Proof.
  unfold do_hs. intros H. destruct (hs s) eqn:HS; cbn in H.
  2:{ inv H. fin. }
  destruct h.
  - (* HRecv *)
    destruct (get_msg CHs s) as [s1 r] eqn:G. pose proof (get_msg_R _ _ _ _ G) as (S1 & C1 & M1 & H1).
    destruct r as [i|x| |].
    + inv H. fin.
    + apply hs_wrapper_spec in H. destruct H as ((S2 & C2 & M2) & B & (y & ->)). fin.
    + inv H. fin.
    + inv H. fin.
  - (* HSend *)
    destruct (send_rec (WHs ct) s) as [s1 e] eqn:E. pose proof (send_rec_R _ _ _ _ E) as (S1 & C1 & M1 & H1).
    destruct e as [z|].
    + destruct (ct =? 22).
      * apply look_for_alert_spec in H. destruct H as ((S2 & C2 & M2) & B & [->|(y & ->)]); fin.
      * apply hs_wrapper_spec in H. destruct H as ((S2 & C2 & M2) & B & (y & ->)). fin.
    + inv H. fin.
  - inv H. fin.
  - (* HFlushOff *)
    destruct (flush s) as [s1 e] eqn:E. pose proof (flush_R _ _ _ E) as (S1 & C1 & M1 & H1).
    destruct e as [z|].
    + apply hs_wrapper_spec in H. destruct H as ((S2 & C2 & M2) & B & (y & ->)). fin.
    + inv H. fin.
  - inv H. fin. exfalso; eauto.
  - inv H. fin.
Qed.

Lemma do_hs_start_spec s s' o : do_hs_start s = (s', o) ->
  cfg_same s s' /\ sess_le (sess s) (sess s') /\ closed s' = true /\ (forall y, o = OExc y -> hs s' = hs s) /\ o <> OHsDone.
Proof.
  unfold do_hs_start. intros H. destruct (closed s) eqn:C; cbn in H.
  - inv H. fin.
  - apply raise_after_shutdown_spec in H. destruct H as ((S1 & C1 & M1 & H1) & CL & (y & ->)). fin.
Qed.

(* ---- post-handshake public calls ---------------------------------------------------------- *)
Lemma post_outcome_R s p s' o : post_send_w s = p -> post_outcome p = (s', o) ->
  R s s' /\ o <> OHsDone /\ (forall x, o = OExc x -> closed s' = true).
Proof.
  intros P H. destruct p as [s1 r]. pose proof (post_send_w_R _ _ _ P) as RR.
  destruct r; inv H; (split; [exact RR|split; [discriminate|]]); intros y Y; try discriminate.
  inv Y. eapply post_send_w_exc; eauto.
Qed.

Lemma do_keyupdate_R s s' o : do_keyupdate s = (s', o) -> R s s' /\ o <> OHsDone.
Proof.
  unfold do_keyupdate. intros H. destruct (closed s); [inv H; split; [apply R_refl|discriminate]|].
  destruct (negb (tls13 s)); [inv H; split; [apply R_refl|discriminate]|].
  destruct (post_outcome_R s _ s' o eq_refl H) as (A & B & _). auto.
Qed.

Lemma do_pha_R ok s s' o : do_pha ok s = (s', o) -> R s s' /\ o <> OHsDone.
Proof.
  unfold do_pha. intros H. destruct (closed s || negb ok || negb (tls13 s)); [inv H; split; [apply R_refl|discriminate]|].
  destruct (post_outcome_R s _ s' o eq_refl H) as (A & B & _). auto.
Qed.

Lemma do_heartbeat_R ok s s' o : do_heartbeat ok s = (s', o) -> R s s' /\ o <> OHsDone.
Proof.
  unfold do_heartbeat. intros H. destruct (closed s); [inv H; split; [apply R_refl|discriminate]|].
  destruct (negb ok); [inv H; split; [apply R_refl|discriminate]|].
  destruct (send_rec (WHs 24) s) as [s1 e] eqn:E. apply send_rec_R in E.
  destruct e; [|inv H; split; [exact E|discriminate]].
  apply raise_after_shutdown_spec in H. destruct H as (RR & _ & (y & ->)).
  split; [eapply R_trans; eauto|discriminate].
Qed.

Definition post_call (ev : event) : Prop :=
  match ev with UKeyUpdate | UPha _ | UHeartbeat _ => True | _ => False end.

(* the three public post-handshake calls: whatever they raise, except the caller errors raised
   before anything is sent (XValue; state untouched), the connection is closed afterwards *)
Lemma post_call_exc s ev s' x : post_call ev -> step s ev = (s', OExc x) ->
  (x = XValue /\ s' = s) \/ closed s' = true.
Proof.
  intros PC H. destruct ev; cbn in PC; try contradiction; cbn [step] in H.
  - unfold do_keyupdate in H. destruct (closed s) eqn:C; [inv H; auto|].
    destruct (negb (tls13 s)); [inv H; auto|].
    destruct (post_outcome_R s _ s' _ eq_refl H) as (_ & _ & K). right. eapply K; reflexivity.
  - unfold do_pha in H. destruct (closed s || negb ok || negb (tls13 s)); [inv H; auto|].
    destruct (post_outcome_R s _ s' _ eq_refl H) as (_ & _ & K). right. eapply K; reflexivity.
  - unfold do_heartbeat in H. destruct (closed s) eqn:C; [inv H; auto|].
    destruct (negb ok); [inv H; auto|].
    destruct (send_rec (WHs 24) s) as [s1 e]. destruct e; [|discriminate].
    apply raise_after_shutdown_spec in H. right. tauto.
Qed.

(* ---- whole steps ------------------------------------------------------------------------- *)
Definition not_setsess (ev : event) : Prop := forall b, ev <> UHs (HSetSess b).

Lemma step_sess_le s ev s' o : not_setsess ev -> step s ev = (s', o) -> sess_le (sess s) (sess s').
Proof.
  intros NS H. destruct ev; cbn in H.
  - apply do_read_R in H. apply H.
  - apply do_write_R in H. apply H.
  - apply do_close_R in H. apply H.
  - inv H. apply sess_le_refl.
  - apply do_hs_start_spec in H. tauto.
  - apply do_hs_spec in H. destruct H as (_ & A & _). apply A. intros b E. apply (NS b). congruence.
  - inv H. apply sess_le_refl.
  - inv H. apply sess_le_refl.
  - apply do_keyupdate_R in H. apply H.
  - apply do_pha_R in H. apply H.
  - apply do_heartbeat_R in H. apply H.
  - destruct (rx_open s && sock_open s); inv H; apply sess_le_refl.
  - destruct (rx_open s); inv H; apply sess_le_refl.
  - destruct (rx_open s); inv H; apply sess_le_refl.
  - destruct (txf s); inv H; apply sess_le_refl.
Qed.

Lemma run_sess_le : forall evs s s' os, Forall not_setsess evs -> run s evs = (s', os) -> sess_le (sess s) (sess s').
Proof.
  induction evs as [|ev evs IH]; intros s s' os F H; cbn in H.
  - inv H. apply sess_le_refl.
  - destruct (step s ev) as [s1 o] eqn:E. destruct (run s1 evs) as [s2 os2] eqn:E2. inv H.
    inversion F; subst. eapply sess_le_trans; [eapply step_sess_le; eauto|eapply IH; eauto].
Qed.

(* during a handshake the connection counts as closed *)
Definition inv (s : st) : Prop := hs s = true -> closed s = true.

Lemma do_read_exc mx mn s s' x : do_read mx mn s = (s', OExc x) -> closed s' = true.
Proof.
  unfold do_read. destruct (read_loop (S (S (length (inq s)))) true mn s) as [s1 r]. destruct r; intros H; try discriminate.
  apply raise_after_shutdown_spec in H. tauto.
Qed.

Lemma do_write_exc d s s' x : do_write d s = (s', OExc x) -> closed s' = true.
Proof.
  unfold do_write. destruct (closed s) eqn:C; intros H; [inv H; exact C|].
  destruct (send_all (records s d) s) as [s1 e]. destruct e; [apply raise_after_shutdown_spec in H; tauto|discriminate].
Qed.

Lemma do_close_exc s s' x : do_close s = (s', OExc x) -> closed s' = true.
Proof.
  unfold do_close. intros H. destruct (closed s); [discriminate|].
  destruct (refc (set_refc (refc s - 1) s) =? 0); [|discriminate].
  destruct (send_rec (WAlert 1 0) (set_refc (refc s - 1) s)) as [s2 e2].
  destruct e2; [apply close_forgive_R in H; tauto|].
  destruct (csock s2).
  - destruct (shutdown true s2) as [s3 e3]. destruct e3; [apply close_forgive_R in H; tauto|discriminate].
  - destruct (close_wait (S (length (inq s2))) s2) as [s3 r3].
    destruct r3 as [[l d]|y| |]; try discriminate.
    + destruct (d =? 0).
      * destruct (shutdown true s3) as [s4 e4]. destruct e4; [apply close_forgive_R in H; tauto|discriminate].
      * apply raise_after_shutdown_spec in H; tauto.
    + destruct y; try (apply raise_after_shutdown_spec in H; tauto); apply close_forgive_R in H; tauto.
Qed.

Definition is_call (ev : event) : Prop :=
  match ev with URead _ _ | UWrite _ | UClose | UHsStart | UHs _ => True | _ => False end.

Lemma step_inv s ev s' o : inv s -> step s ev = (s', o) -> inv s'.
Proof.
  unfold inv. intros I H. destruct ev; cbn in H.
  - pose proof (do_read_R _ _ _ _ _ H) as (_ & _ & M & E). rewrite E. auto.
  - pose proof (do_write_R _ _ _ _ H) as (_ & _ & M & E). rewrite E. auto.
  - pose proof (do_close_R _ _ _ H) as (_ & _ & M & E). rewrite E. auto.
  - inv H. exact I.
  - apply do_hs_start_spec in H. tauto.
  - apply do_hs_spec in H. destruct H as (_ & _ & M & B & _). intros X. destruct (B X) as (B1 & B2). auto.
  - inv H. exact I.
  - inv H. exact I.
  - pose proof (do_keyupdate_R _ _ _ H) as ((_ & _ & M & E) & _). rewrite E. auto.
  - pose proof (do_pha_R _ _ _ _ H) as ((_ & _ & M & E) & _). rewrite E. auto.
  - pose proof (do_heartbeat_R _ _ _ _ H) as ((_ & _ & M & E) & _). rewrite E. auto.
  - destruct (rx_open s && sock_open s); inv H; exact I.
  - destruct (rx_open s); inv H; exact I.
  - destruct (rx_open s); inv H; exact I.
  - destruct (txf s); inv H; exact I.
Qed.

(* "If an exception is raised, the connection will have been automatically closed" *)
Lemma exc_closes s ev s' x : inv s -> (post_call ev -> x <> XValue) -> step s ev = (s', OExc x) -> closed s' = true.
Proof.
  intros I NP H.
  assert (post_call ev -> closed s' = true) as PCK.
  { intros PC. destruct (post_call_exc _ _ _ _ PC H) as [(E & _)|K]; [exfalso; apply (NP PC); exact E|exact K]. }
  destruct ev; cbn in H; try (inv H; fail); try (apply PCK; exact Logic.I).
  - eapply do_read_exc; eauto.
  - eapply do_write_exc; eauto.
  - eapply do_close_exc; eauto.
  - apply do_hs_start_spec in H. tauto.
  - apply do_hs_spec in H. destruct H as (_ & _ & M & _ & _ & _ & D & N).
    assert (hs s = true) as HS by (apply N; discriminate).
    apply M; [|apply I; exact HS]. intros ->. destruct (D eq_refl); discriminate.
  - destruct (rx_open s && sock_open s); inv H.
  - destruct (rx_open s); inv H.
  - destruct (rx_open s); inv H.
  - destruct (txf s); inv H.
Qed.

Lemma run_inv : forall evs s s' os, inv s -> run s evs = (s', os) -> inv s'.
Proof.
  induction evs as [|ev evs IH]; intros s s' os I H; cbn in H; [inv H; exact I|].
  destruct (step s ev) as [s1 o] eqn:E. destruct (run s1 evs) as [s2 os2] eqn:E2. inv H.
  eapply IH; [eapply step_inv; eauto|eauto].
Qed.

Lemma init_run_inv a b c d n evs s' os : run (init a b c d n) evs = (s', os) -> inv s'.
Proof. apply run_inv. intros H; discriminate H. Qed.

(* once a handshake call has ended no completion is reported until a new handshake is started *)
Lemma step_hs_false s ev s' o : ev <> UHsStart -> hs s = false -> step s ev = (s', o) -> hs s' = false /\ o <> OHsDone.
Proof.
  intros NE HS H. destruct ev; cbn in H; try congruence.
  - pose proof (do_read_R _ _ _ _ _ H) as (_ & _ & _ & E). split; [congruence|].
    unfold do_read in H. destruct (read_loop _ _ _ _) as [s1 r]. destruct r; try (inv H; discriminate).
    apply raise_after_shutdown_spec in H. destruct H as (_ & _ & (y & ->)). discriminate.
  - pose proof (do_write_R _ _ _ _ H) as (_ & _ & _ & E). split; [congruence|].
    unfold do_write in H. destruct (closed s).
    + inv H. discriminate.
    + destruct (send_all _ _) as [s1 e]. destruct e; [|inv H; discriminate].
      apply raise_after_shutdown_spec in H. destruct H as (_ & _ & (y & ->)). discriminate.
  - pose proof (do_close_R _ _ _ H) as (_ & _ & _ & E). split; [congruence|].
    intros ->. revert H. unfold do_close, close_forgive, raise_after_shutdown.
    repeat (match goal with |- context [match ?x with _ => _ end] => destruct x end); intros H; inv H.
  - inv H. split; [exact HS|discriminate].
  - apply do_hs_spec in H. destruct H as (_ & _ & _ & B & _ & D & _). split.
    + destruct (hs s') eqn:X; [destruct (B eq_refl); congruence|reflexivity].
    + intros ->. destruct (D eq_refl). congruence.
  - inv H. split; [exact HS|discriminate].
  - inv H. split; [exact HS|discriminate].
  - pose proof (do_keyupdate_R _ _ _ H) as ((_ & _ & _ & E) & N). split; [congruence|exact N].
  - pose proof (do_pha_R _ _ _ _ H) as ((_ & _ & _ & E) & N). split; [congruence|exact N].
  - pose proof (do_heartbeat_R _ _ _ _ H) as ((_ & _ & _ & E) & N). split; [congruence|exact N].
  - destruct (rx_open s && sock_open s); inv H; (split; [exact HS|discriminate]).
  - destruct (rx_open s); inv H; (split; [exact HS|discriminate]).
  - destruct (rx_open s); inv H; (split; [exact HS|discriminate]).
  - destruct (txf s); inv H; (split; [exact HS|discriminate]).
Qed.

Lemma run_no_complete : forall evs s s' os, Forall (fun ev => ev <> UHsStart) evs -> hs s = false ->
  run s evs = (s', os) -> ~ In OHsDone os.
Proof.
  induction evs as [|ev evs IH]; intros s s' os F HS H; cbn in H; [inv H; intros []|].
  destruct (step s ev) as [s1 o] eqn:E. destruct (run s1 evs) as [s2 os2] eqn:E2. inv H.
  inversion F; subst. destruct (step_hs_false _ _ _ _ H1 HS E) as (A & B).
  intros [X|X]; [congruence|]. eapply IH; eauto.
Qed.

(* ---- closed is absorbing for data calls -------------------------------------------------- *)
(* a closed connection outside any handshake with nothing left in the write buffer *)
Definition shut (s : st) : Prop := closed s = true /\ hs s = false /\ wq s = [] /\ bufw s = false.

Definition data_event (ev : event) : Prop :=
  match ev with UHsStart | UHs _ => False | _ => True end.

Lemma read_when_closed mx mn s : closed s = true ->
  exists n, do_read mx mn s = (set_rbuf (skipn n (rbuf s)) s, ORet (firstn n (rbuf s))).
Proof.
  intros C. unfold do_read. cbn [read_loop]. rewrite C. cbn [negb]. rewrite andb_false_r.
  eexists. reflexivity.
Qed.

Lemma shutdown_shut r s : shut s -> exists s', shutdown r s = (s', None) /\ shut s' /\
  rbuf s' = rbuf s /\ wire s' = wire s /\ inq s' = inq s /\
  sess s' = (if r then sess s else option_map (fun _ => false) (sess s)).
Proof.
  intros (C & H & Q & B). destruct s as [cl h rc se ig cs t13 sp rz so bw q rb iq rx tx wi]. cbn in *. subst.
  unfold shutdown, flush, shut. cbn. destruct cs, r; cbn; eexists; repeat split.
Qed.

Lemma write_when_shut d s : shut s -> do_write d s = (s, OExc XClosed).
Proof. intros (C & _). unfold do_write. rewrite C. reflexivity. Qed.

Lemma step_shut s ev s' o : shut s -> data_event ev -> step s ev = (s', o) ->
  shut s' /\ wire s' = wire s /\
  match ev with
  | URead _ _ => exists d, o = ORet d /\ d ++ rbuf s' = rbuf s /\ sess s' = sess s
  | UWrite _ => o = OExc XClosed /\ s' = s
  | UClose => o = ODone /\ s' = s
  | UKeyUpdate | UHeartbeat _ => o = OExc XClosed /\ s' = s
  | UPha _ => o = OExc XValue /\ s' = s
  | _ => sess s' = sess s
  end.
Proof.
  intros S D H. pose proof S as (C & HS & Q & B). destruct ev; cbn in H; try contradiction.
  - destruct (read_when_closed mx mn s C) as (n & E). rewrite E in H. inv H.
    split; [unfold shut; cbn; tauto|]. split; [reflexivity|].
    eexists; split; [reflexivity|]. cbn. split; [apply firstn_skipn|reflexivity].
  - rewrite (write_when_shut d s S) in H. inv H. tauto.
  - unfold do_close in H. rewrite C in H. inv H. tauto.
  - inv H. unfold shut; cbn. tauto.
  - inv H. unfold shut; cbn. tauto.
  - inv H. unfold shut; cbn. tauto.
  - unfold do_keyupdate in H. rewrite C in H. inv H. tauto.
  - unfold do_pha in H. rewrite C in H. cbn in H. inv H. tauto.
  - unfold do_heartbeat in H. rewrite C in H. inv H. tauto.
  - destruct (rx_open s && sock_open s); inv H; unfold shut; cbn; tauto.
  - destruct (rx_open s); inv H; unfold shut; cbn; tauto.
  - destruct (rx_open s); inv H; unfold shut; cbn; tauto.
  - destruct (txf s); inv H; unfold shut; cbn; tauto.
Qed.

Lemma run_shut : forall evs s s' os, shut s -> Forall data_event evs -> run s evs = (s', os) ->
  shut s' /\ wire s' = wire s /\
  Forall (fun o => (exists d, o = ORet d) \/ o = OExc XClosed \/ o = OExc XValue \/ o = ODone \/ o = OStep \/ o = ONone) os.
Proof.
  induction evs as [|ev evs IH]; intros s s' os S F H; cbn in H; [inv H; auto|].
  destruct (step s ev) as [s1 o] eqn:E. destruct (run s1 evs) as [s2 os2] eqn:E2. inv H.
  inversion F; subst. destruct (step_shut _ _ _ _ S H1 E) as (S1 & W1 & K).
  destruct (IH _ _ _ S1 H2 E2) as (S2 & W2 & K2). split; [exact S2|]. split; [congruence|].
  constructor; [|exact K2].
  destruct ev; cbn in E; try contradiction; try (inv E; auto 10; fail).
  - destruct K as (d & -> & _). left; eauto.
  - destruct K as (-> & _). auto 10.
  - destruct K as (-> & _). auto 10.
  - destruct K as (-> & _). auto 10.
  - destruct K as (-> & _). auto 10.
  - destruct K as (-> & _). auto 10.
  - destruct (rx_open s && sock_open s); inv E; auto 10.
  - destruct (rx_open s); inv E; auto 10.
  - destruct (rx_open s); inv E; auto 10.
  - destruct (txf s); inv E; auto 10.
Qed.

(* on a shut connection no data call and no transport event touches the session *)
Lemma step_shut_session s ev s' o : shut s -> data_event ev -> step s ev = (s', o) -> sess s' = sess s.
Proof.
  intros S D E. destruct (step_shut _ _ _ _ S D E) as (_ & _ & K).
  destruct ev; cbn in *; try contradiction; try tauto.
  - destruct K as (d & _ & _ & K). exact K.
  - destruct K as (_ & ->). reflexivity.
  - destruct K as (_ & ->). reflexivity.
  - destruct K as (_ & ->). reflexivity.
  - destruct K as (_ & ->). reflexivity.
  - destruct K as (_ & ->). reflexivity.
Qed.

(* ---- explicit situations ------------------------------------------------------------------ *)
Arguments read_loop : simpl never.

Lemma get_msg_q_alert_read l d q s :
  get_msg_q CRead (IAlert l d :: q) s = let '(s1, x) := alert_branch l d (set_inq q s) in (s1, Exc x).
Proof. reflexivity. Qed.

Lemma read_loop_S f t mn s : read_loop (S f) t mn s =
    if ((zlen (rbuf s) <? mn) || (is_nil (rbuf s) && t)) && negb (closed s) then
      match read_msg s with
      | (s1, Val (IData d)) => read_loop f false mn (set_rbuf (rbuf s1 ++ d) s1)
      | (s1, Val (ICtl KuNoReq)) => read_loop f true mn s1
      | (s1, Val _) => read_loop f false mn s1
      | (s1, Exc (XRemote d)) => if d =? 0 then read_loop f false mn s1 else (s1, Exc (XRemote d))
      | (s1, Exc XAbrupt) =>
          if ign s1 then
            (let '(s2, e) := shutdown true s1 in
             match e with Some z => (s2, Exc (XSock z)) | None => read_loop f false mn s2 end)
          else (s1, Exc XAbrupt)
      | (s1, Exc x) => (s1, Exc x)
      | (s1, Blk) => (s1, Blk)
      | (s1, Fuel) => (s1, Fuel)
      end
    else (s, Val tt).
Proof. reflexivity. Qed.

Lemma read_loop_closed f t mn s : closed s = true -> read_loop (S f) t mn s = (s, Val tt).
Proof. intros C. rewrite read_loop_S, C. cbn [negb]. rewrite andb_false_r. reflexivity. Qed.

(* the alert branch when nothing is queued for writing *)
Lemma alert_branch_quiet l d s s' x : wq s = [] -> bufw s = false -> alert_branch l d s = (s', x) ->
  x = XRemote d /\ closed s' = true /\ hs s' = hs s /\ refc s' = refc s /\ rbuf s' = rbuf s /\ inq s' = inq s /\
  wq s' = [] /\ bufw s' = false /\ cfg_same s s' /\ rxe s' = rxe s /\
  sess s' = (if d =? 0 then sess s else option_map (fun _ => false) (sess s)) /\
  (sock_open s = true -> txf s = None -> wire s' = if (l =? 1) || (d =? 0) then wire s ++ [WAlert 1 0] else wire s).
Proof.
  destruct s as [cl h rc se ig cs t13 sp rz so bw q rb iq rx tx wi]. cbn. intros -> ->.
  unfold alert_branch, send_rec, sock_send, shutdown, flush, cfg_same. cbn.
  destruct (l =? 1), (d =? 0), so, tx as [[k z]|], cs; cbn; try destruct (k <=? 0); cbn; intros H; inv H; cbn;
    repeat split; intros; try congruence; try discriminate.
Qed.

Definition take_n (mx : option Z) (l : list Z) : nat :=
  match mx with None => length l | Some m => Z.to_nat m end.

(* close_notify is the next message and the reader wants more than is buffered: the read
   returns what is buffered, the connection is closed, the session keeps its resumable flag,
   close_notify is answered when the transport still works *)
Lemma read_close_notify s l rest mx mn :
  closed s = false -> wq s = [] -> bufw s = false -> inq s = IAlert l 0 :: rest ->
  (zlen (rbuf s) <? mn) || is_nil (rbuf s) = true ->
  exists s', step s (URead mx mn) = (s', ORet (firstn (take_n mx (rbuf s)) (rbuf s))) /\
     closed s' = true /\ sess s' = sess s /\
     rbuf s' = skipn (take_n mx (rbuf s)) (rbuf s) /\ inq s' = rest /\ wq s' = [] /\ bufw s' = false /\
     hs s' = hs s /\
     (sock_open s = true -> txf s = None -> wire s' = wire s ++ [WAlert 1 0]).
Proof.
  intros C Q B I Hc. cbn [step]. unfold do_read. rewrite I. cbn [length].
  rewrite read_loop_S, C. cbn [negb]. rewrite !andb_true_r, Hc.
  unfold read_msg, get_msg. rewrite I, get_msg_q_alert_read.
  destruct (alert_branch l 0 (set_inq rest s)) as [s1 x] eqn:A.
  apply alert_branch_quiet in A; [|exact Q|exact B].
  destruct A as (-> & C1 & H1 & RC1 & RB1 & IQ1 & Q1 & B1 & CF1 & RX1 & SE1 & W1). cbn in *.
  rewrite read_loop_closed by exact C1.
  exists (set_rbuf (skipn (take_n mx (rbuf s1)) (rbuf s1)) s1). unfold take_n. rewrite RB1. cbn.
  repeat split; auto. rewrite orb_true_r in W1. exact W1.
Qed.

(* no input left and the transport has ended *)
Lemma get_msg_empty c s : inq s = [] -> get_msg c s = (s, no_input s).
Proof.
  intros I. unfold get_msg. rewrite I. cbn. destruct s; cbn in *; subst; reflexivity.
Qed.

Lemma raise_off x s : wq s = [] -> exists s', raise_after_shutdown false x s = (s', OExc x) /\
  closed s' = true /\ sess s' = option_map (fun _ => false) (sess s) /\ hs s' = hs s /\ rbuf s' = rbuf s /\
  wq s' = [] /\ bufw s' = bufw s.
Proof.
  intros Q. unfold raise_after_shutdown. destruct (shutdown false s) as [s' e] eqn:S.
  pose proof (shutdown_spec _ _ _ _ S) as (C & (_ & _ & _ & H) & RB & _ & _ & _ & BW & _ & SE & QQ & _).
  destruct (QQ Q) as (-> & Q'). exists s'. repeat split; auto.
Qed.

(* truncation: the transport ends without close_notify while the reader still wants data *)
Lemma read_truncated s mx mn :
  closed s = false -> wq s = [] -> bufw s = false -> inq s = [] -> sock_open s = true -> rxe s = RxEof ->
  (zlen (rbuf s) <? mn) || is_nil (rbuf s) = true ->
  exists s', closed s' = true /\
   if ign s
   then step s (URead mx mn) = (s', ORet (firstn (take_n mx (rbuf s)) (rbuf s))) /\ sess s' = sess s
   else step s (URead mx mn) = (s', OExc XAbrupt) /\ sess s' = option_map (fun _ => false) (sess s).
Proof.
  intros C Q B I SO RX Hc. cbn [step]. unfold do_read. rewrite I. cbn [length].
  rewrite read_loop_S, C. cbn [negb]. rewrite !andb_true_r, Hc.
  unfold read_msg. rewrite get_msg_empty by exact I. unfold no_input. rewrite SO, RX. cbn [negb].
  destruct (ign s) eqn:IG.
  - destruct (shutdown true s) as [s1 e] eqn:S.
    pose proof (shutdown_spec _ _ _ _ S) as (C1 & _ & RB & _ & _ & _ & _ & SE & _ & QQ & _).
    destruct (QQ Q) as (-> & Q'). rewrite read_loop_closed by exact C1.
    eexists. split; [|split; [unfold take_n; rewrite RB; reflexivity|cbn; auto]]. cbn. exact C1.
  - destruct (raise_off XAbrupt s Q) as (s' & E & C' & SE & _). exists s'. rewrite E. auto.
Qed.

(* the receive direction fails with an errno *)
Lemma read_sock_error s e mx mn :
  closed s = false -> wq s = [] -> bufw s = false -> inq s = [] -> sock_open s = true -> rxe s = RxErr e ->
  (zlen (rbuf s) <? mn) || is_nil (rbuf s) = true ->
  exists s', step s (URead mx mn) = (s', OExc (XSock e)) /\ closed s' = true /\
             sess s' = option_map (fun _ => false) (sess s).
Proof.
  intros C Q B I SO RX Hc. cbn [step]. unfold do_read. rewrite I. cbn [length].
  rewrite read_loop_S, C. cbn [negb]. rewrite !andb_true_r, Hc.
  unfold read_msg. rewrite get_msg_empty by exact I. unfold no_input. rewrite SO, RX. cbn [negb].
  destruct (raise_off (XSock e) s Q) as (s' & E & C' & SE & _). exists s'. rewrite E. auto.
Qed.

(* a warning or fatal alert other than close_notify is the next message *)
Lemma read_alert s l d rest mx mn :
  closed s = false -> wq s = [] -> bufw s = false -> inq s = IAlert l d :: rest -> d <> 0 ->
  (zlen (rbuf s) <? mn) || is_nil (rbuf s) = true ->
  exists s', step s (URead mx mn) = (s', OExc (XRemote d)) /\ closed s' = true /\
             sess s' = option_map (fun _ => false) (sess s).
Proof.
  intros C Q B I D Hc. cbn [step]. unfold do_read. rewrite I. cbn [length].
  rewrite read_loop_S, C. cbn [negb]. rewrite !andb_true_r, Hc.
  unfold read_msg, get_msg. rewrite I, get_msg_q_alert_read.
  destruct (alert_branch l d (set_inq rest s)) as [s1 x] eqn:A.
  apply alert_branch_quiet in A; [|exact Q|exact B].
  destruct A as (-> & C1 & H1 & RC1 & RB1 & IQ1 & Q1 & B1 & CF1 & RX1 & SE1 & W1). cbn in *.
  apply Z.eqb_neq in D. rewrite D in *.
  destruct (raise_off (XRemote d) s1 Q1) as (s' & E & C' & SE & _). exists s'. rewrite E.
  repeat split; auto. rewrite SE, SE1. destruct (sess s) as [[|]|]; reflexivity.
Qed.

(* ---- truncation in general ---------------------------------------------------------------- *)
Lemma send_error_exn d s s' x : send_error d s = (s', x) -> (exists z, x = XSock z) \/ x = XLocal d.
Proof.
  unfold send_error. intros H.
  destruct (flush s) as [s1 e1]. destruct e1; [inv H; eauto|].
  destruct (send_rec (WAlert 2 d) (set_bufw false s1)) as [s3 e3]. destruct e3; [inv H; eauto|].
  destruct (shutdown false s3) as [s4 e4]. inv H. destruct e4; eauto.
Qed.

Lemma alert_branch_exn l d s s' x : alert_branch l d s = (s', x) -> (exists z, x = XSock z) \/ x = XRemote d.
Proof.
  unfold alert_branch. intros H.
  destruct (shutdown (d =? 0) _) as [s2 e]. inv H. destruct e; eauto.
Qed.

Lemma get_msg_q_read_facts : forall q s s' r, get_msg_q CRead q s = (s', r) ->
  match r with
  | Val _ => closed s' = closed s /\ incl (inq s') q
  | Exc (XRemote d) => exists l, In (IAlert l d) q
  | _ => True
  end.
Proof.
  induction q as [|i q IH]; intros s s' r H; cbn [get_msg_q] in H.
  - inv H. unfold no_input. destruct (negb _); [exact I|]. destruct (rxe _); exact I.
  - assert (forall s1 x, send_error 10 (set_inq q s) = (s1, x) ->
            match @Exc item x with Exc (XRemote d) => exists l, In (IAlert l d) (i :: q) | _ => True end) as SE.
    { intros s1 x A. apply send_error_exn in A. destruct A as [(z & ->)| ->]; exact I. }
    destruct i as [d|l d|b|k].
    + destruct d.
      * apply IH in H. destruct r as [i|x| |]; auto.
        -- cbn in H. destruct H as (A & B). split; [exact A|]. intros y Y. right. apply B. exact Y.
        -- destruct x; auto. destruct H as (l & L). exists l. right. exact L.
      * inv H. cbn. split; [reflexivity|]. intros y Y. right. exact Y.
    + destruct (alert_branch l d (set_inq q s)) as [s1 x] eqn:A. inv H.
      apply alert_branch_exn in A. destruct A as [(z & ->)| ->]; [exact I|]. exists l. left. reflexivity.
    + destruct (b && tls13 (set_inq q s)).
      * inv H. cbn. split; [reflexivity|]. intros y Y. right. exact Y.
      * destruct (send_error 10 (set_inq q s)) as [s1 x] eqn:A. inv H.
        apply send_error_exn in A. destruct A as [(z & ->)| ->]; exact I.
    + destruct k as [| |a|a].
      * destruct (tls13 (set_inq q s)); [inv H; cbn; split; [reflexivity|intros y Y; right; exact Y]|].
        destruct (send_error 10 (set_inq q s)) as [s1 x] eqn:A. inv H. eapply SE; eauto.
      * destruct (tls13 (set_inq q s)); [inv H; cbn; split; [reflexivity|intros y Y; right; exact Y]|].
        destruct (send_error 10 (set_inq q s)) as [s1 x] eqn:A. inv H. eapply SE; eauto.
      * destruct a.
        -- destruct (send_rec (WHs 24) (set_inq q s)) as [sa ea] eqn:E. cbn [fst] in H.
           pose proof (send_rec_core _ _ _ _ E) as ((CA & _) & _). cbn in CA.
           apply IH in H. destruct r as [i|x| |]; auto.
           ++ destruct H as (A & B). split; [congruence|]. intros y Y. right. apply B. exact Y.
           ++ destruct x; auto. destruct H as (l & L). exists l. right. exact L.
        -- destruct (send_error 10 (set_inq q s)) as [s1 x] eqn:A. inv H. eapply SE; eauto.
      * destruct (a && tls13 (set_inq q s)); [inv H; cbn; split; [reflexivity|intros y Y; right; exact Y]|].
        destruct (send_error 10 (set_inq q s)) as [s1 x] eqn:A. inv H. eapply SE; eauto.
Qed.

Lemma post_send_hs_facts s s' r : post_send_hs s = (s', r) ->
  match r with
  | Val _ => closed s' = closed s /\ inq s' = inq s
  | Exc (XRemote d) => exists l rest, inq s = IAlert l d :: rest
  | _ => True
  end.
Proof.
  unfold post_send_hs. intros H. destruct (send_rec (WHs 22) s) as [s2 e] eqn:E.
  pose proof (send_rec_core _ _ _ _ E) as ((C2 & _) & I2 & _).
  destruct e as [z|]; [|inv H; auto].
  unfold recv_item in H. rewrite I2 in H. destruct (inq s) as [|i q] eqn:Q.
  - unfold no_input in H. destruct (negb (sock_open s2)); [inv H; exact I|]. destruct (rxe s2); inv H; exact I.
  - destruct (shutdown false (set_inq q s2)) as [s3 e'] eqn:S. inv H.
    destruct e'; [exact I|]. destruct i; try exact I. eauto.
Qed.

Lemma post_send_w_facts s s' r : post_send_w s = (s', r) ->
  match r with
  | Val _ => closed s' = closed s /\ inq s' = inq s
  | Exc (XRemote d) => exists l rest, inq s = IAlert l d :: rest
  | _ => True
  end.
Proof.
  unfold post_send_w. intros H. destruct (post_send_hs s) as [s1 r1] eqn:P. apply post_send_hs_facts in P.
  destruct r1 as [u|x| |]; try (inv H; exact P).
  destruct (shutdown false s1) as [s2 e] eqn:S. inv H. destruct e; [exact I|]. exact P.
Qed.

Lemma read_msg_facts s s' r : read_msg s = (s', r) ->
  match r with
  | Val _ => closed s' = closed s /\ incl (inq s') (inq s)
  | Exc (XRemote d) => exists l, In (IAlert l d) (inq s)
  | _ => True
  end.
Proof.
  unfold read_msg. intros H. destruct (get_msg CRead s) as [s1 r1] eqn:G.
  unfold get_msg in G. apply get_msg_q_read_facts in G.
  destruct r1 as [i|x| |]; try (inv H; exact G).
  destruct i as [d|l d|b|k]; try (inv H; exact G).
  destruct k as [| |a|a]; try (inv H; exact G); destruct G as (C1 & INC).
  - destruct (post_send_w s1) as [s2 r2] eqn:P. apply post_send_w_facts in P.
    destruct r2 as [u|x| |]; inv H; try exact I.
    + destruct P as (C2 & I2). split; [congruence|]. rewrite I2. exact INC.
    + destruct x; try exact I. destruct P as (l & rest & Q). exists l. apply INC. rewrite Q. left. reflexivity.
  - destruct (sock_send [WHs 22; WHs 22; WHs 22] s1) as [s2 e] eqn:E.
    pose proof (sock_send_core _ _ _ _ E) as ((C2 & _) & I2 & _).
    inv H. destruct e; [exact I|]. split; [congruence|]. rewrite I2. exact INC.
Qed.

Lemma read_loop_closes_only_on_close_notify mn : forall f t s s' u,
  ign s = false -> closed s = false -> read_loop f t mn s = (s', Val u) -> closed s' = true ->
  exists l, In (IAlert l 0) (inq s).
Proof.
  induction f as [|f IH]; intros t s s' u IG C H C'.
  - cbn in H. discriminate.
  - rewrite read_loop_S in H.
    destruct (((zlen (rbuf s) <? mn) || (is_nil (rbuf s) && t)) && negb (closed s)); [|inv H; congruence].
    destruct (read_msg s) as [s1 r1] eqn:G.
    pose proof (read_msg_R _ _ _ G) as (_ & (IG1 & _) & _ & _).
    apply read_msg_facts in G.
    destruct r1 as [i|x| |]; try discriminate.
    + destruct G as (C1 & INC).
      assert (exists l, In (IAlert l 0) (inq s1)) as (l & L).
      { destruct i as [d|lv d|b|k]; [eapply (IH false (set_rbuf (rbuf s1 ++ d) s1)); eauto; cbn; congruence
                    |eapply (IH false s1); eauto; congruence
                    |eapply (IH false s1); eauto; congruence
                    |destruct k; [eapply (IH false s1)|eapply (IH true s1)|eapply (IH false s1)|eapply (IH false s1)]; eauto; congruence]. }
      exists l. apply INC. exact L.
    + destruct x; try discriminate.
      * destruct (ign s1) eqn:X; [congruence|discriminate].
      * destruct (desc =? 0) eqn:D; [|discriminate]. apply Z.eqb_eq in D. subst. exact G.
Qed.

(* truncation is never mistaken for the end of data, in general: whenever a read on an open
   connection returns normally (no exception) and leaves the connection closed while
   ignoreAbruptClose is off, a close_notify alert was among the messages that had arrived *)
Lemma read_closes_only_on_close_notify s mx mn s' d :
  ign s = false -> closed s = false -> step s (URead mx mn) = (s', ORet d) -> closed s' = true ->
  exists l, In (IAlert l 0) (inq s).
Proof.
  intros IG C H C'. cbn [step] in H. unfold do_read in H.
  destruct (read_loop (S (S (length (inq s)))) true mn s) as [s1 r] eqn:L.
  destruct r as [u|x| |].
  - inv H. cbn in C'. eapply read_loop_closes_only_on_close_notify; eauto.
  - apply raise_after_shutdown_spec in H. destruct H as (_ & _ & (y & Y)). discriminate.
  - inv H.
  - inv H.
Qed.

(* ---- transport faults inside a handshake -------------------------------------------------- *)
Definition rx_dead (s : st) : Prop := sock_open s = true /\ rxe s <> RxOpen.
Definition tx_dead (s : st) (e : Z) : Prop := sock_open s = true /\ exists k, txf s = Some (k, e) /\ k <= 0.
Definition fault_exn (x : exn) : Prop := x = XAbrupt \/ exists e, x = XSock e.

(* what "contained" means for a handshake call that was hit by a transport fault *)
Definition contained (s s' : st) (o : outcome) : Prop :=
  (exists x, o = OExc x /\ fault_exn x) /\ hs s' = false /\ closed s' = true /\
  sess s' = option_map (fun _ => false) (sess s).

Lemma wrapper_off x s : wq s = [] -> exists s', hs_wrapper x s = (s', OExc x) /\ hs s' = false /\
  (closed s = true -> closed s' = true) /\
  (match x with XRemote _ | XLocal _ => sess s' = sess s | _ => sess s' = option_map (fun _ => false) (sess s) /\ closed s' = true end).
Proof.
  intros Q. unfold hs_wrapper.
  destruct (raise_off x (set_hs false s) Q) as (s' & E & C & SE & H & _).
  destruct x; try (exists s'; rewrite E; cbn in *; auto; fail); eexists; cbn; auto.
Qed.

Lemma hs_recv_fault s : hs s = true -> wq s = [] -> inq s = [] -> rx_dead s ->
  exists s' o, step s (UHs HRecv) = (s', o) /\ contained s s' o.
Proof.
  intros HS Q I (SO & RX). cbn [step]. unfold do_hs. rewrite HS. cbn [negb].
  rewrite get_msg_empty by exact I. unfold no_input. rewrite SO. cbn [negb].
  destruct (rxe s) as [| |e] eqn:RXE; [congruence| |].
  - destruct (wrapper_off XAbrupt s Q) as (s' & E & H & _ & SE & C). exists s', (OExc XAbrupt). rewrite E.
    unfold contained, fault_exn. repeat split; eauto.
  - destruct (wrapper_off (XSock e) s Q) as (s' & E & H & _ & SE & C). exists s', (OExc (XSock e)). rewrite E.
    unfold contained, fault_exn. repeat split; eauto.
Qed.

Lemma send_rec_dead w s e : bufw s = false -> tx_dead s e -> send_rec w s = (s, Some e).
Proof.
  intros B (SO & k & T & K). unfold send_rec, sock_send. rewrite B, SO, T. cbn.
  destruct (k <=? 0) eqn:X; [reflexivity|]. apply Z.leb_gt in X. lia.
Qed.

Lemma hs_send_fault s ct e : hs s = true -> wq s = [] -> bufw s = false -> tx_dead s e -> ct <> 22 ->
  exists s', step s (UHs (HSend ct)) = (s', OExc (XSock e)) /\ contained s s' (OExc (XSock e)).
Proof.
  intros HS Q B T NE. cbn [step]. unfold do_hs. rewrite HS. cbn [negb].
  rewrite (send_rec_dead _ _ _ B T). apply Z.eqb_neq in NE. rewrite NE.
  destruct (wrapper_off (XSock e) s Q) as (s' & E & H & _ & SE & C). exists s'. rewrite E.
  unfold contained, fault_exn. repeat split; eauto.
Qed.

Lemma hs_flush_fault s e w q : hs s = true -> wq s = w :: q -> tx_dead s e ->
  exists s', step s (UHs HFlushOff) = (s', OExc (XSock e)) /\ contained s s' (OExc (XSock e)).
Proof.
  intros HS Q (SO & k & T & K). cbn [step]. unfold do_hs. rewrite HS. cbn [negb].
  unfold flush. rewrite Q. unfold sock_send. cbn. rewrite SO, T. cbn.
  destruct (k <=? 0) eqn:X; [|apply Z.leb_gt in X; lia].
  destruct (wrapper_off (XSock e) (set_wq [] s) eq_refl) as (s' & E & H & _ & SE & C). exists s'. rewrite E.
  unfold contained, fault_exn. repeat split; eauto.
Qed.

Lemma off_off (a : option bool) : option_map (fun _ => false) (option_map (fun _ : bool => false) a) = option_map (fun _ => false) a.
Proof. destruct a; reflexivity. Qed.

(* a handshake-type record cannot be sent: the code looks at the next incoming record *)
Lemma hs_send22_fault s e : hs s = true -> wq s = [] -> bufw s = false -> tx_dead s e ->
  match inq s with
  | [] => match rxe s with
          | RxOpen => (* half-open: only the send direction is dead, nothing has arrived: the code
                         waits for the peer's next record (a possible alert) *)
                      exists s', step s (UHs (HSend 22)) = (s', OBlocked) /\ hs s' = false
          | _ => exists s' o, step s (UHs (HSend 22)) = (s', o) /\ contained s s' o
          end
  | IAlert l d :: _ =>
      exists s', step s (UHs (HSend 22)) = (s', OExc (XRemote d)) /\ hs s' = false /\
                 (closed s' = true) /\ sess s' = option_map (fun _ => false) (sess s)
  | _ :: _ =>
      (* a non-alert record is waiting: the send failure itself is raised *)
      exists s', step s (UHs (HSend 22)) = (s', OExc (XSock e)) /\ contained s s' (OExc (XSock e))
  end.
Proof.
  intros HS Q B T. pose proof T as (SO & _). cbn [step]. unfold do_hs. rewrite HS. cbn [negb].
  rewrite (send_rec_dead _ _ _ B T). cbn. unfold look_for_alert, recv_item.
  destruct (inq s) as [|i rest] eqn:I.
  - unfold no_input. rewrite SO. cbn [negb]. destruct (rxe s) as [| |e'] eqn:RXE.
    + eexists; split; reflexivity.
    + destruct (wrapper_off XAbrupt s Q) as (s' & E & H & _ & SE & C). exists s', (OExc XAbrupt). rewrite E.
      unfold contained, fault_exn. repeat split; eauto.
    + destruct (wrapper_off (XSock e') s Q) as (s' & E & H & _ & SE & C). exists s', (OExc (XSock e')). rewrite E.
      unfold contained, fault_exn. repeat split; eauto.
  - destruct (shutdown false (set_inq rest s)) as [s2 e2] eqn:S.
    pose proof (shutdown_spec _ _ _ _ S) as (C2 & (_ & _ & _ & H2) & _ & _ & _ & _ & _ & _ & SE2 & QQ & _).
    destruct (QQ Q) as (-> & Q2). cbn in H2. specialize (SE2 eq_refl eq_refl). cbn in SE2.
    assert (exists s', hs_wrapper (XSock e) s2 = (s', OExc (XSock e)) /\ contained s s' (OExc (XSock e))) as K.
    { destruct (wrapper_off (XSock e) s2 Q2) as (s' & E & H & _ & SE & C). exists s'. split; [exact E|].
      unfold contained, fault_exn. repeat split; eauto. rewrite SE, SE2. apply off_off. }
    destruct i as [d|l d|b|k].
    + exact K.
    + destruct (wrapper_off (XRemote d) s2 Q2) as (s' & E & H & CC & SE). exists s'. rewrite E.
      repeat split; auto. congruence.
    + exact K.
    + exact K.
Qed.

(* FULL statement for sends: the transport is dead (send fails for good, receive side ended);
   whatever record type is being sent and whatever has arrived before, the call raises, the
   handshake is over, the connection closed, the session not resumable; the exception is the
   abrupt-close / socket error, or the peer's alert when one was waiting *)
Lemma hs_send_contained s e ct : hs s = true -> wq s = [] -> bufw s = false -> tx_dead s e -> rxe s <> RxOpen ->
  exists s' o, step s (UHs (HSend ct)) = (s', o) /\ hs s' = false /\ closed s' = true /\
    sess s' = option_map (fun _ => false) (sess s) /\
    ((exists x, o = OExc x /\ fault_exn x) \/
     (exists l d rest, ct = 22 /\ inq s = IAlert l d :: rest /\ o = OExc (XRemote d))).
Proof.
  intros HS Q B T RX. destruct (Z.eq_dec ct 22) as [->|NE].
  - pose proof (hs_send22_fault s e HS Q B T) as K.
    destruct (inq s) as [|i rest] eqn:I.
    + destruct (rxe s) eqn:RXE; [congruence| |];
        destruct K as (s' & o & E & (X & H & C & SE)); exists s', o; repeat split; auto.
    + destruct i as [d|l d|b|k].
      * destruct K as (s' & E & (X & H & C & SE)). exists s', (OExc (XSock e)). repeat split; auto.
      * destruct K as (s' & E & H & C & SE). exists s', (OExc (XRemote d)). repeat split; auto.
        right. exists l, d, rest. auto.
      * destruct K as (s' & E & (X & H & C & SE)). exists s', (OExc (XSock e)). repeat split; auto.
      * destruct K as (s' & E & (X & H & C & SE)). exists s', (OExc (XSock e)). repeat split; auto.
  - destruct (hs_send_fault s ct e HS Q B T NE) as (s' & E & (X & H & C & SE)).
    exists s', (OExc (XSock e)). repeat split; auto.
Qed.

(* a write that hits the dead transport on its first record *)
Lemma write_fault s d e : closed s = false -> wq s = [] -> bufw s = false -> tx_dead s e ->
  exists s', step s (UWrite d) = (s', OExc (XSock e)) /\ closed s' = true /\
             sess s' = (if ign s then sess s else option_map (fun _ => false) (sess s)).
Proof.
  intros C Q B T. cbn [step]. unfold do_write. rewrite C.
  assert (exists x rs, records s d = x :: rs) as (x & rs & RS).
  { unfold records. destruct (split s).
    - destruct d; eauto.
    - destruct d; cbn; eauto. match goal with |- context[if ?b then _ else _] => destruct b end; eauto. }
  rewrite RS. cbn [send_all]. rewrite (send_rec_dead _ _ _ B T).
  unfold raise_after_shutdown. destruct (shutdown (ign s) s) as [s' e'] eqn:S.
  pose proof (shutdown_spec _ _ _ _ S) as (C' & _ & _ & _ & _ & _ & _ & SE1 & SE2 & QQ & _).
  destruct (QQ Q) as (-> & _). exists s'. repeat split; auto.
  destruct (ign s); auto.
Qed.

Lemma hs_recv_fatal s l d rest : hs s = true -> closed s = true -> wq s = [] -> inq s = IAlert l d :: rest ->
  l <> 1 -> d <> 0 ->
  exists s', step s (UHs HRecv) = (s', OExc (XRemote d)) /\ hs s' = false /\ closed s' = true /\
             sess s' = option_map (fun _ => false) (sess s).
Proof.
  intros HS C Q I L D. cbn [step]. unfold do_hs. rewrite HS. cbn [negb].
  unfold get_msg. rewrite I. cbn [get_msg_q]. unfold alert_branch.
  apply Z.eqb_neq in L. apply Z.eqb_neq in D. rewrite L, D. cbn [orb].
  destruct (shutdown false (set_inq rest s)) as [s2 e2] eqn:S.
  pose proof (shutdown_spec _ _ _ _ S) as (C2 & (_ & _ & _ & H2) & _ & _ & _ & _ & _ & _ & SE2 & QQ & _).
  destruct (QQ Q) as (-> & Q2). specialize (SE2 eq_refl eq_refl). cbn in SE2, H2.
  destruct (wrapper_off (XRemote d) s2 Q2) as (s' & E & H & CC & SE). exists s'. rewrite E.
  repeat split; auto. congruence.
Qed.

(* ---- orderly close, then anything but a write or a new handshake ------------------------- *)
Lemma shut_continuation : forall evs s1 s2 os, shut s1 -> Forall data_event evs -> run s1 evs = (s2, os) ->
      closed s2 = true /\ sess s2 = sess s1 /\ wire s2 = wire s1 /\
      Forall (fun o => (exists d, o = ORet d) \/ o = OExc XClosed \/ o = OExc XValue \/ o = ODone \/ o = OStep \/ o = ONone) os /\
      (rbuf s1 = [] -> Forall (fun o => forall d, o = ORet d -> d = []) os).
Proof.
  induction evs as [|ev evs IH]; intros s1 s2 os S1 F H; cbn in H.
  - inv H. repeat split; auto; try apply S1.
  - destruct (step s1 ev) as [sa o] eqn:E. destruct (run sa evs) as [sb osb] eqn:E2. inv H.
    inversion F as [|? ? D H2]; subst.
    destruct (step_shut _ _ _ _ S1 D E) as (Sa & Wa & K).
    pose proof (step_shut_session _ _ _ _ S1 D E) as SEa.
    destruct (IH sa _ _ Sa H2 E2) as (Cb & SEb & Wb & Fb & Eb).
    repeat split; auto; try congruence.
    + constructor; [|exact Fb].
      destruct ev; cbn in E; try contradiction; try (inv E; auto 10; fail).
      * destruct K as (d & -> & _). left; eauto.
      * destruct K as (-> & _). auto 10.
      * destruct K as (-> & _). auto 10.
      * destruct K as (-> & _). auto 10.
      * destruct K as (-> & _). auto 10.
      * destruct K as (-> & _). auto 10.
      * destruct (rx_open s1 && sock_open s1); inv E; auto 10.
      * destruct (rx_open s1); inv E; auto 10.
      * destruct (rx_open s1); inv E; auto 10.
      * destruct (txf s1); inv E; auto 10.
    + intros RB. assert (rbuf sa = [] /\ forall d, o = ORet d -> d = []) as (RBa & Oa).
      { destruct ev; cbn in E; try contradiction; try (inv E; split; [auto|discriminate]; fail).
        - destruct K as (d & -> & K & _). rewrite RB in K. apply app_eq_nil in K. destruct K as (-> & ->).
          split; [reflexivity|]. intros d E'. inv E'. reflexivity.
        - destruct K as (-> & ->). split; [exact RB|discriminate].
        - destruct K as (-> & ->). split; [exact RB|discriminate].
        - destruct K as (-> & ->). split; [exact RB|discriminate].
        - destruct K as (-> & ->). split; [exact RB|discriminate].
        - destruct K as (-> & ->). split; [exact RB|discriminate].
        - destruct (rx_open s1 && sock_open s1); inv E; (split; [auto|discriminate]).
        - destruct (rx_open s1); inv E; (split; [auto|discriminate]).
        - destruct (rx_open s1); inv E; (split; [auto|discriminate]).
        - destruct (txf s1); inv E; (split; [auto|discriminate]). }
      constructor; [exact Oa|apply Eb; exact RBa].
Qed.

Lemma after_close_notify_lemma s l rest mx mn :
  closed s = false -> hs s = false -> wq s = [] -> bufw s = false -> inq s = IAlert l 0 :: rest ->
  (zlen (rbuf s) <? mn) || is_nil (rbuf s) = true ->
  exists s1, step s (URead mx mn) = (s1, ORet (firstn (take_n mx (rbuf s)) (rbuf s))) /\
    closed s1 = true /\ sess s1 = sess s /\
    (sock_open s = true -> txf s = None -> wire s1 = wire s ++ [WAlert 1 0]) /\
    forall evs s2 os, Forall data_event evs -> run s1 evs = (s2, os) ->
      closed s2 = true /\ sess s2 = sess s /\ wire s2 = wire s1 /\
      Forall (fun o => (exists d, o = ORet d) \/ o = OExc XClosed \/ o = OExc XValue \/ o = ODone \/ o = OStep \/ o = ONone) os /\
      (rbuf s1 = [] -> Forall (fun o => forall d, o = ORet d -> d = []) os).
Proof.
  intros C HS Q B I Hc.
  destruct (read_close_notify s l rest mx mn C Q B I Hc) as (s1 & E & C1 & SE1 & RB1 & IQ1 & Q1 & B1 & H1 & W1).
  exists s1. repeat split; auto;
  assert (shut s1) as S1 by (unfold shut; repeat split; auto; congruence);
  destruct (shut_continuation evs s1 s2 os S1 H H0) as (A1 & A2 & A3 & A4 & A5); auto; congruence.
Qed.

(* ---- the fuel of the loops always suffices --------------------------------------------------- *)
Lemma shutdown_inq r s s' e : shutdown r s = (s', e) -> inq s' = inq s.
Proof. intros H. apply shutdown_spec in H. tauto. Qed.

Lemma send_error_inq d s s' x : send_error d s = (s', x) -> inq s' = inq s.
Proof.
  unfold send_error. intros H.
  destruct (flush s) as [s1 e1] eqn:F. pose proof (flush_core _ _ _ F) as (_ & I1 & _).
  destruct e1; [inv H; exact I1|].
  destruct (send_rec (WAlert 2 d) (set_bufw false s1)) as [s3 e3] eqn:S3.
  pose proof (send_rec_core _ _ _ _ S3) as (_ & I3 & _). cbn in I3.
  destruct e3; [inv H; congruence|].
  destruct (shutdown false s3) as [s4 e4] eqn:S4. apply shutdown_inq in S4. inv H. congruence.
Qed.

Lemma alert_branch_inq l d s s' x : alert_branch l d s = (s', x) -> inq s' = inq s.
Proof.
  unfold alert_branch. intros H.
  destruct (shutdown (d =? 0) _) as [s2 e] eqn:S. apply shutdown_inq in S. inv H. rewrite S.
  destruct ((l =? 1) || (d =? 0)); [|reflexivity].
  destruct (send_rec (WAlert 1 0) s) as [s1 e1] eqn:E. cbn. apply send_rec_core in E. tauto.
Qed.

(* get_msg never runs out of fuel (it has none), never lengthens the queue, and shortens it
   whenever it returns a message or a remote alert *)
Lemma get_msg_q_len c : forall q s s' r, get_msg_q c q s = (s', r) ->
  r <> Fuel /\ (length (inq s') <= length q)%nat /\
  match r with
  | Val _ => (length (inq s') < length q)%nat
  | Exc (XRemote _) => (length (inq s') < length q)%nat
  | _ => True
  end.
Proof.
  induction q as [|i q IH]; intros s s' r H; cbn [get_msg_q] in H.
  - inv H. cbn. unfold no_input. destruct (negb _); [repeat split; auto; discriminate|].
    destruct (rxe _); repeat split; auto; discriminate.
  - assert (forall d s1 x, send_error d (set_inq q s) = (s1, x) ->
            Exc x <> @Fuel item /\ (length (inq s1) <= length (i :: q))%nat /\
            match x with XRemote _ => (length (inq s1) < length (i :: q))%nat | _ => True end) as SE.
    { intros d s1 x E. apply send_error_inq in E. cbn in *. rewrite E.
      split; [discriminate|]. split; [lia|]. destruct x; auto; lia. }
    assert (forall j t s1 r1, get_msg_q c q t = (s1, r1) -> length (inq t) = length q ->
            r1 <> Fuel /\ (length (inq s1) <= length (j :: q))%nat /\
            match r1 with
            | Val _ => (length (inq s1) < length (j :: q))%nat
            | Exc (XRemote _) => (length (inq s1) < length (j :: q))%nat
            | _ => True
            end) as REC.
    { intros j t s1 r1 E _. apply IH in E. destruct E as (A & B & C). split; [exact A|]. split; [cbn; lia|].
      destruct r1 as [?|x| |]; auto; [cbn; lia|]. destruct x; auto; cbn; lia. }
    destruct i as [d|l d|b|k].
    + destruct c.
      * destruct d; [eapply REC; [exact H|reflexivity]|inv H; cbn; repeat split; auto; discriminate].
      * destruct d; [eapply REC; [exact H|reflexivity]|inv H; cbn; repeat split; auto; discriminate].
      * destruct (send_error 10 (set_inq q s)) as [s1 x] eqn:E. inv H. apply SE in E. exact E.
    + assert (forall s1 x, alert_branch l d (set_inq q s) = (s1, x) ->
              Exc x <> @Fuel item /\ (length (inq s1) <= length (IAlert l d :: q))%nat /\
              match x with XRemote _ => (length (inq s1) < length (IAlert l d :: q))%nat | _ => True end) as AB.
      { intros s1 x E. apply alert_branch_inq in E. cbn in *. rewrite E.
        split; [discriminate|]. split; [lia|]. destruct x; auto; lia. }
      destruct c.
      * destruct (alert_branch l d (set_inq q s)) as [s1 x] eqn:E. inv H. exact (AB _ _ eq_refl).
      * inv H. cbn. repeat split; auto; discriminate.
      * destruct (alert_branch l d (set_inq q s)) as [s1 x] eqn:E. inv H. exact (AB _ _ eq_refl).
    + destruct c.
      * destruct (b && tls13 (set_inq q s)); [inv H; cbn; repeat split; auto; discriminate|].
        destruct (send_error 10 (set_inq q s)) as [s1 x] eqn:E. inv H. apply SE in E. exact E.
      * destruct (send_error 10 (set_inq q s)) as [s1 x] eqn:E. inv H. apply SE in E. exact E.
      * inv H. cbn. repeat split; auto; discriminate.
    + assert ((let '(s1, x) := send_error 10 (set_inq q s) in (s1, @Exc item x)) = (s', r) ->
              r <> Fuel /\ (length (inq s') <= length (ICtl k :: q))%nat /\
              match r with Val _ => (length (inq s') < length (ICtl k :: q))%nat
                         | Exc (XRemote _) => (length (inq s') < length (ICtl k :: q))%nat | _ => True end) as SE'.
      { intros X. destruct (send_error 10 (set_inq q s)) as [s1 x] eqn:E. inv X. apply SE in E. exact E. }
      destruct k as [| |a|a].
      * destruct c; try (apply SE'; exact H).
        destruct (tls13 (set_inq q s)); [inv H; cbn; repeat split; auto; discriminate|apply SE'; exact H].
      * destruct c; try (apply SE'; exact H).
        destruct (tls13 (set_inq q s)); [inv H; cbn; repeat split; auto; discriminate|apply SE'; exact H].
      * destruct a; [|apply SE'; exact H]. eapply REC; [exact H|].
        destruct (send_rec (WHs 24) (set_inq q s)) as [sa ea] eqn:E. cbn [fst].
        apply send_rec_core in E. destruct E as (_ & E & _). rewrite E. reflexivity.
      * destruct c; try (apply SE'; exact H).
        destruct (a && tls13 (set_inq q s)); [inv H; cbn; repeat split; auto; discriminate|apply SE'; exact H].
Qed.

Lemma post_send_hs_len s s' r : post_send_hs s = (s', r) -> r <> Fuel /\ (length (inq s') <= length (inq s))%nat.
Proof.
  unfold post_send_hs. intros H. destruct (send_rec (WHs 22) s) as [s1 e] eqn:E.
  apply send_rec_core in E. destruct E as (_ & I1 & _).
  destruct e as [z|]; [|inv H; split; [discriminate|rewrite I1; lia]].
  unfold recv_item in H. destruct (inq s1) as [|i q] eqn:Q.
  - unfold no_input in H. rewrite <- I1.
    destruct (negb (sock_open s1)); [inv H; split; [discriminate|rewrite Q; cbn; lia]|].
    destruct (rxe s1); inv H; (split; [discriminate|rewrite Q; cbn; lia]).
  - destruct (shutdown false (set_inq q s1)) as [s3 e'] eqn:S. apply shutdown_inq in S. inv H.
    split; [discriminate|]. rewrite S. cbn [inq set_inq]. rewrite <- I1. cbn. lia.
Qed.

Lemma post_send_w_len s s' r : post_send_w s = (s', r) -> r <> Fuel /\ (length (inq s') <= length (inq s))%nat.
Proof.
  unfold post_send_w. intros H. destruct (post_send_hs s) as [s1 r1] eqn:P. apply post_send_hs_len in P.
  destruct r1 as [u|x| |]; try (inv H; exact P).
  destruct (shutdown false s1) as [s2 e] eqn:S. apply shutdown_inq in S. inv H.
  split; [discriminate|]. rewrite S. tauto.
Qed.

Lemma read_msg_len s s' r : read_msg s = (s', r) ->
  r <> Fuel /\ (length (inq s') <= length (inq s))%nat /\
  match r with
  | Val _ => (length (inq s') < length (inq s))%nat
  | Exc (XRemote _) => (length (inq s') < length (inq s))%nat
  | _ => True
  end.
Proof.
  unfold read_msg. intros H. destruct (get_msg CRead s) as [s1 r1] eqn:G. unfold get_msg in G.
  apply get_msg_q_len in G. destruct G as (NF & LE & ST).
  destruct r1 as [i|x| |]; try (inv H; auto; fail).
  destruct i as [d|l d|b|k]; try (inv H; auto; fail).
  destruct k as [| |a|a]; try (inv H; auto; fail).
  - destruct (post_send_w s1) as [s2 r2] eqn:P. apply post_send_w_len in P. destruct P as (NF2 & LE2).
    destruct r2 as [u|x| |]; inv H; try (split; [discriminate|split; [lia|]]; auto; fail).
    + split; [discriminate|]. split; [lia|lia].
    + split; [discriminate|]. split; [lia|]. destruct x; auto; lia.
    + congruence.
  - destruct (sock_send [WHs 22; WHs 22; WHs 22] s1) as [s2 e] eqn:P. apply sock_send_core in P.
    destruct P as (_ & I2 & _). inv H. rewrite I2. destruct e; (split; [discriminate|split; [lia|auto]]).
Qed.

Definition measure (s : st) : nat := (length (inq s) + (if closed s then 0 else 1))%nat.

Lemma read_loop_no_fuel mn : forall f t s s' r, (measure s < f)%nat -> read_loop f t mn s = (s', r) -> r <> Fuel.
Proof.
  induction f as [|f IH]; intros t s s' r M H; [lia|].
  rewrite read_loop_S in H.
  destruct (((zlen (rbuf s) <? mn) || (is_nil (rbuf s) && t)) && negb (closed s)) eqn:CND; [|inv H; discriminate].
  apply andb_true_iff in CND. destruct CND as (_ & CL). apply negb_true_iff in CL.
  unfold measure in M. rewrite CL in M.
  destruct (read_msg s) as [s1 r1] eqn:G.
  pose proof (read_msg_len _ _ _ G) as (NF & LE & ST).
  assert (forall s2, inq s2 = inq s1 -> (length (inq s1) < length (inq s))%nat -> (measure s2 < f)%nat) as K.
  { intros s2 E L. unfold measure. rewrite E. destruct (closed s2); lia. }
  destruct r1 as [i|x| |]; [ | |inv H; discriminate|congruence].
  - destruct i as [d|l d|b|k]; [| | |destruct k]; eapply IH; try exact H; apply K; auto.
  - destruct x; try (inv H; discriminate).
    + destruct (ign s1); [|inv H; discriminate].
      destruct (shutdown true s1) as [s2 e] eqn:S. pose proof (shutdown_spec _ _ _ _ S) as (C2 & _ & _ & I2 & _).
      destruct e; [inv H; discriminate|]. eapply IH; try exact H. unfold measure. rewrite C2, I2. lia.
    + destruct (desc =? 0); [|inv H; discriminate]. eapply IH; try exact H. apply K; auto.
Qed.

Lemma close_wait_no_fuel : forall f s s' r, (length (inq s) < f)%nat -> close_wait f s = (s', r) -> r <> Fuel.
Proof.
  induction f as [|f IH]; intros s s' r M H; [lia|]. cbn [close_wait] in H.
  destruct (get_msg CWait s) as [s1 r1] eqn:G. unfold get_msg in G.
  pose proof (get_msg_q_len _ _ _ _ _ G) as (NF & LE & ST).
  destruct r1 as [i|x| |]; try (inv H; auto; discriminate).
  destruct i; try (eapply IH; [|exact H]; lia). inv H. discriminate.
Qed.

(* the fuel of the model's loops always suffices: no event ever yields OFuel *)
Lemma step_no_fuel s ev : snd (step s ev) <> OFuel.
Proof.
  destruct ev; cbn [step]; try (cbn; discriminate).
  - unfold do_read. destruct (read_loop _ _ _ _) as [s1 r] eqn:L.
    apply read_loop_no_fuel in L; [|unfold measure; destruct (closed s); lia].
    destruct r; cbn; try discriminate; [|congruence].
    unfold raise_after_shutdown. destruct (shutdown false s1). cbn. discriminate.
  - unfold do_write, raise_after_shutdown. destruct (closed s).
    + cbn. discriminate.
    + destruct (send_all _ _) as [s1 e]. destruct e; [destruct (shutdown _ _)|]; cbn; discriminate.
  - unfold do_close, close_forgive, raise_after_shutdown. destruct (closed s); [cbn; discriminate|].
    destruct (_ =? 0); [|cbn; discriminate].
    destruct (send_rec _ _) as [s2 e2]. destruct e2; [destruct (shutdown _ _); cbn; destruct o; discriminate|].
    destruct (csock s2).
    + destruct (shutdown true s2) as [s3 e3]. destruct e3; [destruct (shutdown _ _); cbn; destruct o; discriminate|cbn; discriminate].
    + destruct (close_wait _ _) as [s3 r3] eqn:W. apply close_wait_no_fuel in W; [|lia].
      destruct r3 as [[l d]|x| |]; try (cbn; discriminate); [| |congruence].
      * destruct (d =? 0).
        -- destruct (shutdown true s3) as [s4 e4]. destruct e4; [destruct (shutdown _ _); cbn; destruct o; discriminate|cbn; discriminate].
        -- destruct (shutdown false s3). cbn. discriminate.
      * destruct x; try (destruct (shutdown false s3); cbn; discriminate);
          (destruct (shutdown true s3); cbn; destruct o; discriminate).
  - unfold do_hs_start, raise_after_shutdown. destruct (negb _); [destruct (shutdown _ _)|]; cbn; discriminate.
  - pose proof (do_hs_spec h s) as K. destruct (do_hs h s) as [s' o] eqn:E. cbn. clear K.
    unfold do_hs in E. destruct (negb (hs s)); [inv E; discriminate|].
    assert (forall x t t' o', hs_wrapper x t = (t', o') -> o' <> OFuel) as W.
    { intros x t t' o' X. apply hs_wrapper_spec in X. destruct X as (_ & _ & (y & ->)). discriminate. }
    destruct h.
    + destruct (get_msg CHs s) as [s1 r] eqn:G. unfold get_msg in G. apply get_msg_q_len in G. destruct G as (NF & _).
      destruct r; try (inv E; discriminate); [eapply W; eauto|congruence].
    + destruct (send_rec _ _) as [s1 e]. destruct e; [|inv E; discriminate].
      destruct (ct =? 22); [|eapply W; eauto].
      apply look_for_alert_spec in E. destruct E as (_ & _ & [->|(y & ->)]); discriminate.
    + inv E; discriminate.
    + destruct (flush s) as [s1 e]. destruct e; [eapply W; eauto|inv E; discriminate].
    + inv E; discriminate.
    + inv E; discriminate.
  - unfold do_keyupdate. destruct (closed s); [cbn; discriminate|]. destruct (negb (tls13 s)); [cbn; discriminate|].
    destruct (post_send_w s) as [s1 r] eqn:P. apply post_send_w_len in P. destruct P as (NF & _).
    destruct r; cbn; try discriminate. congruence.
  - unfold do_pha. destruct (closed s || negb ok || negb (tls13 s)); [cbn; discriminate|].
    destruct (post_send_w s) as [s1 r] eqn:P. apply post_send_w_len in P. destruct P as (NF & _).
    destruct r; cbn; try discriminate. congruence.
  - unfold do_heartbeat, raise_after_shutdown. destruct (closed s); [cbn; discriminate|]. destruct (negb ok); [cbn; discriminate|].
    destruct (send_rec (WHs 24) s) as [s1 e]. destruct e; [destruct (shutdown false s1)|]; cbn; discriminate.
  - destruct (_ && _); cbn; discriminate.
  - destruct (rx_open s); cbn; discriminate.
  - destruct (rx_open s); cbn; discriminate.
  - destruct (txf s); cbn; discriminate.
Qed.

(* ---- transport faults at the public post-handshake calls ----------------------------------- *)
(* the bare look-for-alert branch with the send direction dead *)
Lemma post_send_fault s e : closed s = false -> wq s = [] -> bufw s = false -> tx_dead s e ->
  match inq s with
  | [] => match rxe s with
          | RxOpen => post_send_hs s = (s, Blk)
          | RxEof => post_send_hs s = (s, Exc XAbrupt)
          | RxErr e' => post_send_hs s = (s, Exc (XSock e'))
          end
  | IAlert l d :: _ =>
      exists s', post_send_hs s = (s', Exc (XRemote d)) /\ closed s' = true /\ wq s' = [] /\
                 sess s' = option_map (fun _ => false) (sess s)
  | _ :: _ =>
      exists s', post_send_hs s = (s', Exc (XSock e)) /\ closed s' = true /\ wq s' = [] /\
                 sess s' = option_map (fun _ => false) (sess s)
  end.
Proof.
  intros C Q B T. pose proof T as (SO & _). unfold post_send_hs. rewrite (send_rec_dead _ _ _ B T).
  unfold recv_item. destruct (inq s) as [|i rest] eqn:I.
  - unfold no_input. rewrite SO. cbn [negb]. destruct (rxe s); reflexivity.
  - destruct (shutdown false (set_inq rest s)) as [s2 e2] eqn:S.
    pose proof (shutdown_spec _ _ _ _ S) as (C2 & _ & _ & _ & _ & _ & _ & _ & SE2 & QQ & _).
    destruct (QQ Q) as (-> & Q2). specialize (SE2 eq_refl eq_refl). cbn in SE2.
    destruct i as [d|l d|b|k]; exists s2; auto.
Qed.

Lemma shutdown_off s : wq s = [] -> exists s', shutdown false s = (s', None) /\ closed s' = true /\
  sess s' = option_map (fun _ => false) (sess s).
Proof.
  intros Q. destruct (shutdown false s) as [s' e] eqn:S.
  pose proof (shutdown_spec _ _ _ _ S) as (C & _ & _ & _ & _ & _ & _ & _ & SE & QQ & _).
  destruct (QQ Q) as (-> & _). exists s'. auto.
Qed.

(* _send_post_handshake_msg with the transport dead (sends fail for good; a record is waiting or
   the receive side has ended): the exception is the abrupt-close / socket error, or the peer's
   alert when one was waiting; the connection is closed and the session not resumable *)
Lemma post_send_w_fault s e : closed s = false -> wq s = [] -> bufw s = false -> tx_dead s e ->
  (inq s <> [] \/ rxe s <> RxOpen) ->
  exists s' x, post_send_w s = (s', Exc x) /\ closed s' = true /\
    sess s' = option_map (fun _ => false) (sess s) /\
    (fault_exn x \/ exists l d rest, inq s = IAlert l d :: rest /\ x = XRemote d).
Proof.
  intros C Q B T NE. pose proof (post_send_fault s e C Q B T) as K. unfold post_send_w, fault_exn.
  destruct (inq s) as [|i rest] eqn:I.
  - destruct (rxe s) eqn:RX; [destruct NE; congruence| |]; rewrite K;
      destruct (shutdown_off s Q) as (s' & -> & C' & SE); eexists _, _; repeat split; eauto.
  - assert (forall s1 x, post_send_hs s = (s1, Exc x) -> closed s1 = true -> wq s1 = [] ->
            sess s1 = option_map (fun _ => false) (sess s) ->
            exists s' , (let '(s2, e0) := shutdown false s1 in (s2, @Exc unit (match e0 with Some z => XSock z | None => x end))) = (s', Exc x) /\
                        closed s' = true /\ sess s' = option_map (fun _ => false) (sess s)) as W.
    { intros s1 x _ _ Q1 SE1. destruct (shutdown_off s1 Q1) as (s' & -> & C' & SE). exists s'.
      repeat split; auto. rewrite SE, SE1. apply off_off. }
    destruct i as [d|l d|b|k]; destruct K as (s1 & P & C1 & Q1 & SE1); rewrite P;
      destruct (W s1 _ P C1 Q1 SE1) as (s' & E & C' & SE); rewrite E; eexists _, _; repeat split; eauto 10.
Qed.

(* FULL statement for the three public post-handshake calls: the transport is dead; the call
   raises the abrupt-close / socket error (or the peer's alert that was waiting), the connection
   is closed, the session not resumable *)
Definition applicable (ev : event) (s : st) : Prop :=
  match ev with
  | UKeyUpdate | UPha true => tls13 s = true
  | UHeartbeat true => True
  | _ => False
  end.

Lemma post_call_fault s e ev : applicable ev s -> closed s = false -> wq s = [] -> bufw s = false -> tx_dead s e ->
  (inq s <> [] \/ rxe s <> RxOpen) ->
  exists s' x, step s ev = (s', OExc x) /\ closed s' = true /\
    sess s' = option_map (fun _ => false) (sess s) /\
    (fault_exn x \/ exists l d rest, inq s = IAlert l d :: rest /\ x = XRemote d).
Proof.
  intros A C Q B T NE. destruct ev as [| | | | | | | | |[|]|[|]| | | |]; cbn in A; try contradiction; cbn [step].
  - unfold do_keyupdate. rewrite C, A. cbn [negb].
    destruct (post_send_w_fault s e C Q B T NE) as (s' & x & -> & K). exists s', x. split; [reflexivity|exact K].
  - unfold do_pha. rewrite C, A. cbn [negb orb].
    destruct (post_send_w_fault s e C Q B T NE) as (s' & x & -> & K). exists s', x. split; [reflexivity|exact K].
  - unfold do_heartbeat. rewrite C. cbn [negb]. rewrite (send_rec_dead _ _ _ B T).
    destruct (raise_off (XSock e) s Q) as (s' & -> & C' & SE & _). exists s', (XSock e).
    repeat split; auto. left. unfold fault_exn. eauto.
Qed.

(* half-open transport (only the send direction dead, nothing arrived): the call waits for the
   peer's next record *)
Lemma post_call_half_open s e : closed s = false -> tls13 s = true -> wq s = [] -> bufw s = false -> tx_dead s e ->
  inq s = [] -> rxe s = RxOpen -> step s UKeyUpdate = (s, OBlocked) /\ step s (UPha true) = (s, OBlocked).
Proof.
  intros C T13 Q B T I RX. pose proof (post_send_fault s e C Q B T) as K. rewrite I, RX in K.
  cbn [step]. unfold do_keyupdate, do_pha, post_send_w. rewrite C, T13, K. cbn. auto.
Qed.

(* the histories that refuted the statement before /repo fa8f243: handshake, the transport dies,
   the call raises -- now the connection is closed and the session not resumable *)
Definition post_fault_script (ev : event) : list event :=
  [UHsStart; UHs (HSend 22); NIn (IHs false); UHs HRecv; UHs (HSetSess true); UHs HDone;
   NSendBreak 0 32; NEof; ev; UWrite [119]].

Lemma keyupdate_fault_history :
  let '(s', os) := run (init false true true false 16384) (post_fault_script UKeyUpdate) in
  os = [OStep; OStep; ONone; OStep; OStep; OHsDone; ONone; ONone; OExc XAbrupt; OExc XClosed] /\
  closed s' = true /\ sess s' = Some false.
Proof. vm_compute. repeat split. Qed.

Lemma heartbeat_fault_history :
  let '(s', os) := run (init false true false false 16384) (post_fault_script (UHeartbeat true)) in
  os = [OStep; OStep; ONone; OStep; OStep; OHsDone; ONone; ONone; OExc (XSock 32); OExc XClosed] /\
  closed s' = true /\ sess s' = Some false.
Proof. vm_compute. repeat split. Qed.

(* ---- the two histories that refuted the full statements before the fixes in /repo ---------- *)
(* Before /repo 0ab9df1 (_sendMsgThroughSocket fell through when the waiting record was not an
   alert) this script ended in [...; OStep; OHsDone] with closed = false on a closed socket, and
   "transport_fault_contained_refuted : ~ transport_fault_contained_full" was the theorem. *)
Definition swallow_script : list event :=
  [UHsStart; NIn (IHs false); UHs HRecv; UHs (HSend 22); NIn (IHs false); UHs HRecv; UHs (HSetSess true);
   NIn (IData [71; 69; 84]);              (* the peer's first application data, already buffered *)
   NSendBreak 0 32; NEof;                 (* the transport dies *)
   UHs (HSend 22);                        (* the server's NewSessionTicket record *)
   UHs HDone].

Lemma swallow_script_contained :
  let '(s', os) := run (init false true true false 16384) swallow_script in
  os = [OStep; ONone; OStep; OStep; ONone; OStep; OStep; ONone; ONone; ONone; OExc (XSock 32); ONone] /\
  closed s' = true /\ hs s' = false /\ sock_open s' = false /\ sess s' = Some false.
Proof. vm_compute. repeat split. Qed.

(* Before /repo 8b57b65 (writeAsync's handler ran _shutdown(ignoreAbruptClose) also for the
   closed-connection error) this history ended with sess = Some false, and
   "after_close_notify_refuted : ~ after_close_notify_full" was the theorem. *)
Definition est0 : st := mkst false false 1 (Some true) false true false false 16384 true false [] [] [] RxOpen None [].

Lemma write_after_close_history :
  let '(s', os) := run est0 [NIn (IAlert 1 0); URead None 1; UWrite [119]] in
  os = [ONone; ORet []; OExc XClosed] /\ closed s' = true /\ sess s' = Some true.
Proof. vm_compute. repeat split. Qed.

(* example states meeting the hypotheses used above *)
Definition ex_open_cn : st := fst (run est0 [NIn (IData [1; 2]); NIn (IAlert 1 0)]).
Definition ex_in_handshake : st := fst (run (init false true false false 16384) [UHsStart; UHs (HSend 22); UHs (HSetSess true)]).
