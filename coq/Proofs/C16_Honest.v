(* C16: a history of permitted operations never produces a fatal alert (lemmas). *)
From Coq Require Import ZArith List Bool Lia.
From TV Require Import Base.Prelude Model.C16_PostHs Spec.C16_Spec Proofs.C16_PostHs.
Import ListNotations.
Open Scope Z_scope.

Definition link (I : ep) (out inc : list rec) : Prop :=
  NoDup (reqs out ++ rctxs inc) /\ (forall c, In c (reqs out ++ rctxs inc) -> In c (ctxs I)) /\
  (forall p, In p (pending (au I)) -> snd p = true).

Definition HInv (s : st) : Prop :=
  scan (g13 s) (cf (eb s)) 0 (ab s) = Some 0 /\ scan (g13 s) (cf (ea s)) 0 (ba s) = Some 0 /\
  link (ea s) (ab s) (ba s) /\ link (eb s) (ba s) (ab s) /\
  good_cfg (cf (ea s)) (cf (eb s)) /\ good_cfg (cf (eb s)) (cf (ea s)) /\
  alerts (io (ea s)) = [] /\ alerts (io (eb s)) = [].

Lemma scan_app v13 c : forall a st st' b, scan v13 c st a = Some st' -> scan v13 c st (a ++ b) = scan v13 c st' b.
Proof.
  induction a as [|r a IH]; intros st st' b H; cbn [scan app] in *.
  - inversion H. reflexivity.
  - destruct (scan1 v13 c st (body r)); [|discriminate]. apply IH. exact H.
Qed.

Lemma scan_idle_all v13 c l : (forall r, In r l -> scan1 v13 c 0 (body r) = Some 0) -> scan v13 c 0 l = Some 0.
Proof.
  induction l as [|r l IH]; intros H; cbn [scan]; [reflexivity|].
  rewrite (H r (or_introl eq_refl)). apply IH. intros x Hx. apply H. right. exact Hx.
Qed.

Definition cfg_same (c c' : cfgT) : Prop :=
  is_cl c' = is_cl c /\ hb_sup c' = hb_sup c /\ hb_recv c' = hb_recv c /\ pha_key c' = pha_key c.

Lemma scan_cfg v13 c c' : cfg_same c c' -> forall ch st, scan v13 c' st ch = scan v13 c st ch.
Proof.
  intros (E1 & E2 & E3 & E4). induction ch as [|r ch IH]; intros st; cbn [scan]; [reflexivity|].
  assert (E : scan1 v13 c' st (body r) = scan1 v13 c st (body r)).
  { unfold scan1. rewrite E1, E2, E3, E4. reflexivity. }
  rewrite E. destruct (scan1 v13 c st (body r)); [apply IH|reflexivity].
Qed.

Lemma reqs_app a b : reqs (a ++ b) = reqs a ++ reqs b.
Proof. unfold reqs. apply flat_map_app. Qed.
Lemma rctxs_app a b : rctxs (a ++ b) = rctxs a ++ rctxs b.
Proof. unfold rctxs. apply flat_map_app. Qed.

Lemma flat_nil {A B} (f : A -> list B) l : (forall x, In x l -> f x = []) -> flat_map f l = [].
Proof.
  induction l as [|x l IH]; intros H; cbn [flat_map]; [reflexivity|].
  rewrite (H x (or_introl eq_refl)). apply IH. intros y Hy. apply H. right. exact Hy.
Qed.

Lemma chunks_nonempty : forall fuel n d, (1 <= n)%nat -> d <> [] -> forall f, In f (chunks fuel n d) -> f <> [].
Proof.
  induction fuel as [|k IH]; intros n d Hn Hd f Hf; cbn [chunks] in Hf.
  - destruct Hf as [Hf|[]]. subst. exact Hd.
  - destruct (Nat.leb (length d) n) eqn:E.
    + destruct Hf as [Hf|[]]. subst. exact Hd.
    + apply Nat.leb_gt in E. destruct Hf as [Hf|Hf].
      * subst f. destruct d as [|x d]; [congruence|]. destruct n; [lia|]. cbn. discriminate.
      * apply (IH n (skipn n d)); auto. intros Hs.
        assert (length (skipn n d) = 0%nat) by (rewrite Hs; reflexivity). rewrite skipn_length in H. lia.
Qed.

Definition hpre (v13 : bool) (me : ep) (peerc : cfgT) (inc : list rec) : Prop :=
  scan v13 (cf me) 0 inc = Some 0 /\ good_cfg (cf me) peerc /\ good_cfg peerc (cf me) /\
  (forall p, In p (pending (au me)) -> snd p = true) /\
  NoDup (rctxs inc) /\ (forall c, In c (rctxs inc) -> In c (ctxs me)).

Definition hpost (v13 : bool) (me : ep) (peerc : cfgT) (inc : list rec) (R : resT) : Prop :=
  let '(me', inc', em, c) := R in
  scan v13 (cf me) 0 inc' = Some 0 /\
  scan v13 peerc 0 em = Some 0 /\
  alerts (io me') = alerts (io me) /\
  reqs em = [] /\
  (forall p, In p (pending (au me')) -> snd p = true) /\
  (forall L, NoDup (L ++ rctxs inc) -> (forall c, In c (L ++ rctxs inc) -> In c (ctxs me)) ->
             NoDup (L ++ rctxs inc') /\ (forall c, In c (L ++ rctxs inc') -> In c (ctxs me'))) /\
  (forall L (P : Z -> Prop), NoDup (reqs inc ++ L) -> (forall c, In c (reqs inc ++ L) -> P c) ->
             NoDup (reqs inc' ++ L ++ rctxs em) /\ (forall c, In c (reqs inc' ++ L ++ rctxs em) -> P c)).

(* a record that is consumed with no effect on the PHA bookkeeping, [k] emitted, loop continues from me1 *)
Lemma htrans v13 me me1 peerc r inc' k R :
  scan1 v13 (cf me) 0 (body r) = Some 0 -> reqs [r] = [] -> rctxs [r] = [] ->
  cf me1 = cf me -> au me1 = au me -> alerts (io me1) = alerts (io me) ->
  scan v13 peerc 0 k = Some 0 -> reqs k = [] -> rctxs k = [] ->
  hpost v13 me1 peerc inc' R ->
  hpost v13 me peerc (r :: inc') (let '(me2, inc2, em, c) := R in (me2, inc2, k ++ em, c)).
Proof.
  destruct R as [[[me2 inc2] em] c]. unfold hpost.
  intros Hs Hq Hc Ecf Eau Eal Hk Hkq Hkc (A & B & C & D & E & F & G).
  rewrite Ecf in A. unfold ctxs in *. rewrite Eau in F.
  split; [exact A|]. split; [rewrite (scan_app _ _ _ _ _ _ Hk); exact B|].
  split; [congruence|]. split; [rewrite reqs_app, Hkq, D; reflexivity|]. split; [exact E|].
  assert (Er : rctxs (r :: inc') = rctxs inc') by (change (r :: inc') with ([r] ++ inc'); rewrite rctxs_app, Hc; reflexivity).
  assert (Eq : reqs (r :: inc') = reqs inc') by (change (r :: inc') with ([r] ++ inc'); rewrite reqs_app, Hq; reflexivity).
  rewrite Er, Eq, rctxs_app, Hkc. cbn [app]. split; [exact F|exact G].
Qed.

Lemma hskip v13 me peerc r inc' R :
  reqs [r] = [] -> rctxs [r] = [] -> hpost v13 me peerc inc' R -> hpost v13 me peerc (r :: inc') R.
Proof.
  destruct R as [[[me2 inc2] em] c]. unfold hpost. intros Hq Hc H.
  assert (Er : rctxs (r :: inc') = rctxs inc') by (change (r :: inc') with ([r] ++ inc'); rewrite rctxs_app, Hc; reflexivity).
  assert (Eq : reqs (r :: inc') = reqs inc') by (change (r :: inc') with ([r] ++ inc'); rewrite reqs_app, Hq; reflexivity).
  rewrite Er, Eq. exact H.
Qed.

(* the loop stops here having consumed nothing more: generic stop with endpoint me' *)
Lemma hstop v13 me me' peerc inc em c :
  scan v13 (cf me) 0 inc = Some 0 -> scan v13 peerc 0 em = Some 0 ->
  alerts (io me') = alerts (io me) -> reqs em = [] -> rctxs em = [] ->
  au me' = au me \/ (pending (au me') = pending (au me)) ->
  (forall p, In p (pending (au me)) -> snd p = true) ->
  hpost v13 me peerc inc (me', inc, em, c).
Proof.
  intros A B C D E F G. unfold hpost.
  assert (Hp : pending (au me') = pending (au me)) by (destruct F as [F|F]; [rewrite F; reflexivity|exact F]).
  split; [exact A|]. split; [exact B|]. split; [exact C|]. split; [exact D|].
  split; [rewrite Hp; exact G|]. unfold ctxs. rewrite Hp.
  split; [intros L H1 H2; split; assumption|intros L P H1 H2; rewrite E, app_nil_r; split; assumption].
Qed.

Lemma scan_cons v13 c r tl st st' :
  scan v13 c st (r :: tl) = Some st' -> exists s1, scan1 v13 c st (body r) = Some s1 /\ scan v13 c s1 tl = Some st'.
Proof. cbn [scan]. destruct (scan1 v13 c st (body r)) as [s1|]; [|discriminate]. intros H. exists s1. auto. Qed.

Lemma NoDup_mid {A} (L : list A) x M : NoDup (L ++ x :: M) -> NoDup (L ++ M) /\ ~ In x (L ++ M).
Proof.
  intros H. split; [eapply NoDup_remove_1; exact H|eapply NoDup_remove_2; exact H].
Qed.

Lemma NoDup_rot {A} (x : A) M L : NoDup ((x :: M) ++ L) -> NoDup (M ++ L ++ [x]).
Proof.
  cbn [app]. intros H. inversion H as [|? ? Hn Hd]; subst.
  rewrite app_assoc. apply NoDup_snoc; assumption.
Qed.

Lemma NoDup_app_r {A} (a b : list A) : NoDup (a ++ b) -> NoDup b.
Proof. induction a as [|x a IH]; cbn [app]; intros H; [exact H|]. inversion H; subst. apply IH. assumption. Qed.

Ltac nor Eb := (unfold reqs, rctxs; cbn [flat_map app]; rewrite Eb; reflexivity).

Lemma rloop_h v13 peerc : forall inc me wp,
  pre v13 me inc wp -> hpre v13 me peerc inc ->
  hpost v13 me peerc inc (rloop v13 me inc).
Proof.
  induction inc as [|r inc' IH]; intros me wp Hpre Hh.
  - cbn [rloop]. destruct Hh as (A & B & C & D & _). apply hstop; auto.
  - pose proof Hpre as (Hs & Hn & Hrb & Hc & Ha).
    pose proof Hh as (Hsc & Hg1 & Hg2 & Hwf & Hnd & Hin).
    cbn [in_step] in Hs. destruct Hs as [Ht Hs].
    apply scan_cons in Hsc. destruct Hsc as [s1 [Hs1 Hsc]].
    cbn [rloop]. destruct (tag r =? rgen (ks me)) eqn:Et; cbn [negb]; [|apply Z.eqb_neq in Et; congruence].
    unfold scan1 in Hs1. cbn [Z.eqb] in Hs1.
    destruct (body r) eqn:Eb; try discriminate.
    + (* MData *)
      inversion Hs1; subst s1.
      assert (Hp1 : pre v13 me inc' wp) by (eapply pre_skip; [exact Hpre|rewrite Eb; reflexivity]).
      assert (Hq : reqs [r] = []) by nor Eb.
      assert (Hcx : rctxs [r] = []) by nor Eb.
      assert (Er : rctxs (r :: inc') = rctxs inc') by (change (r :: inc') with ([r] ++ inc'); rewrite rctxs_app, Hcx; reflexivity).
      rewrite Er in Hnd, Hin.
      destruct d as [|d0 d'].
      * apply hskip; auto. apply (IH me wp); auto. unfold hpre; auto 10.
      * apply hskip; auto. apply hstop; auto.
    + (* MKU *)
      destruct v13; cbn [andb] in Hs1; [|discriminate]. cbn [negb].
      destruct ((v =? 0) || (v =? 1)) eqn:Ev; [|discriminate]. inversion Hs1; subst s1.
      assert (Hv : v = 0 \/ v = 1) by (apply orb_true_iff in Ev; destruct Ev as [E|E]; apply Z.eqb_eq in E; auto).
      destruct (v <? 0) eqn:E0; [lia|]. destruct (2 <=? v) eqn:E2; [lia|].
      assert (Hq : reqs [r] = []) by nor Eb.
      assert (Hcx : rctxs [r] = []) by nor Eb.
      assert (Er : rctxs (r :: inc') = rctxs inc') by (change (r :: inc') with ([r] ++ inc'); rewrite rctxs_app, Hcx; reflexivity).
      rewrite Er in Hnd, Hin.
      assert (Hs1' : scan1 true (cf me) 0 (body r) = Some 0).
      { rewrite Eb. unfold scan1. cbn [Z.eqb andb]. rewrite Ev. reflexivity. }
      assert (Hvk : valid_ku (MKU v) = true) by (cbn [valid_ku]; apply andb_true_iff; split; apply Z.leb_le; lia).
      rewrite Hvk in Hs.
      destruct (v =? 1) eqn:E1.
      * assert (Hp2 : pre true (bump_w (bump_r me true) true) inc' wp).
        { split; [exact Hs|]. split; [discriminate|]. split; [exact Hrb|]. split; [apply cnt_bump_rw; exact Hc|exact Ha]. }
        assert (Hh2 : hpre true (bump_w (bump_r me true) true) peerc inc') by (unfold hpre; auto 10).
        specialize (IH (bump_w (bump_r me true) true) wp Hp2 Hh2).
        apply (htrans true me _ peerc r inc' [emit (bump_r me true) (MKU 0)]) in IH; auto.
      * assert (Hp1 : pre true (bump_r me false) inc' wp).
        { split; [exact Hs|]. split; [discriminate|]. split; [exact Hrb|]. split; [apply cnt_bump_r; exact Hc|exact Ha]. }
        assert (Hh2 : hpre true (bump_r me false) peerc inc') by (unfold hpre; auto 10).
        specialize (IH (bump_r me false) wp Hp1 Hh2).
        apply (htrans true me _ peerc r inc' []) in IH; auto.
        destruct (rloop true (bump_r me false) inc') as [[[me2 inc2] em] c]. exact IH.
    + (* MHB *)
      destruct (hb_sup (cf me)) eqn:Esup; cbn [andb] in Hs1; [|discriminate].
      destruct (hb_recv (cf me)) eqn:Erecv; cbn [andb] in Hs1; [|discriminate].
      destruct b as [|b0 b']; cbn [negb] in Hs1; [discriminate|]. inversion Hs1; subst s1.
      assert (Hq : reqs [r] = []) by nor Eb.
      assert (Hcx : rctxs [r] = []) by nor Eb.
      assert (Er : rctxs (r :: inc') = rctxs inc') by (change (r :: inc') with ([r] ++ inc'); rewrite rctxs_app, Hcx; reflexivity).
      rewrite Er in Hnd, Hin.
      assert (Hs1' : scan1 v13 (cf me) 0 (body r) = Some 0).
      { rewrite Eb. unfold scan1. cbn [Z.eqb]. rewrite Esup, Erecv. reflexivity. }
      destruct (on_heartbeat me (b0 :: b')) as [[me1 out]|] eqn:Eh.
      2:{ exfalso. unfold on_heartbeat in Eh. rewrite Esup in Eh. cbn [negb] in Eh.
          destruct (hb_parse (b0 :: b')) as [[[ty pl] pd]|]; [|discriminate].
          destruct (ty =? 1); [rewrite Erecv in Eh; cbn [negb] in Eh; destruct (zlen pd <? 16); [discriminate|];
                               destruct (recsize (cf me) <? zlen (hb_write 2 pl (padding 16))); discriminate|].
          destruct ((ty =? 2) && hb_cb (cf me)); discriminate. }
      assert (Hout : forall x, In x out -> exists f, body x = MHB f /\ f <> []).
      { unfold on_heartbeat in Eh. rewrite Esup in Eh. cbn [negb] in Eh.
        destruct (hb_parse (b0 :: b')) as [[[ty pl] pd]|]; [|inversion Eh; subst; intros x []].
        destruct (ty =? 1).
        - rewrite Erecv in Eh. cbn [negb] in Eh. destruct (zlen pd <? 16); [inversion Eh; subst; intros x []|].
          destruct (recsize (cf me) <? zlen (hb_write 2 pl (padding 16))); inversion Eh; subst; [intros x []|].
          intros x [Hx|[]]. subst x. eexists. split; [reflexivity|]. unfold hb_write. discriminate.
        - destruct ((ty =? 2) && hb_cb (cf me)); inversion Eh; subst; intros x []. }
      apply on_heartbeat_spec in Eh. destruct Eh as ((E1 & E2 & E3) & Hau & _).
      assert (Hp1 : pre v13 me1 inc' wp).
      { apply (pre_core v13 me me1 inc' wp);
          [eapply pre_skip; [exact Hpre|rewrite Eb; reflexivity] | repeat split; assumption
          | unfold au_ok, ctxs in *; rewrite Hau; exact Ha]. }
      assert (Hh1 : hpre v13 me1 peerc inc') by (unfold hpre, ctxs in *; rewrite E3, Hau; auto 10).
      specialize (IH me1 wp Hp1 Hh1).
      apply (htrans v13 me me1 peerc r inc' out) in IH; auto.
      * rewrite E2. reflexivity.
      * apply scan_idle_all. intros x Hx. destruct (Hout x Hx) as [f [Hf Hne]]. rewrite Hf.
        unfold scan1. cbn [Z.eqb]. destruct Hg1 as (_ & _ & _ & Hhs & _). destruct Hg2 as (_ & _ & _ & _ & Hhr & _).
        rewrite <- Hhs, Esup. rewrite Hhr by (rewrite <- Hhs; exact Esup). destruct f; [congruence|reflexivity].
      * unfold reqs. apply flat_nil. intros x Hx. destruct (Hout x Hx) as [f [Hf _]]. rewrite Hf. reflexivity.
      * unfold rctxs. apply flat_nil. intros x Hx. destruct (Hout x Hx) as [f [Hf _]]. rewrite Hf. reflexivity.
    + (* MNST *)
      destruct v13; cbn [andb] in Hs1; [|discriminate]. destruct (is_cl (cf me)); [|discriminate].
      inversion Hs1; subst s1.
      assert (Hcx : rctxs [r] = []) by nor Eb.
      apply hskip; [nor Eb|exact Hcx|].
      apply hstop; auto.
    + (* MCertReq *)
      destruct (v13 && is_cl (cf me) && pha_key (cf me)) eqn:Ec; cbn [andb] in Hs1; [|discriminate].
      destruct wf; [|discriminate]. inversion Hs1; subst s1. cbn [negb].
      assert (Hdev : dev (cf me) = 0) by (destruct Hg1; assumption).
      assert (Hrep : pha_reply (note_ctx me ctx) ctx = [MCert ctx (my_chain (cf me)); MCV true; MFin true]).
      { unfold pha_reply. cbn [note_ctx set_au cf]. rewrite Hdev. cbn [Z.eqb]. rewrite Z.eqb_refl. reflexivity. }
      rewrite Hrep. cbn [map].
      apply andb_true_iff in Ec. destruct Ec as [Ec Hkey]. apply andb_true_iff in Ec. destruct Ec as [Hv Hcl].
      assert (Hch : my_chain (cf me) <> 0) by (destruct Hg1 as (_ & _ & _ & _ & _ & _ & Hk); apply Hk; exact Hkey).
      assert (Er : rctxs (r :: inc') = rctxs inc') by (unfold rctxs; cbn [flat_map]; rewrite Eb; reflexivity).
      assert (Eq : reqs (r :: inc') = ctx :: reqs inc') by (unfold reqs; cbn [flat_map]; rewrite Eb; reflexivity).
      unfold hpost. cbn [note_ctx set_au cf io au alerts pending].
      split; [exact Hsc|].
      split.
      { cbn [scan emit body]. unfold scan1. cbn [Z.eqb]. rewrite Hv.
        destruct Hg2 as (_ & _ & Hcl2 & _). rewrite Hcl in Hcl2. rewrite Hcl2. cbn [negb andb].
        destruct (my_chain (cf me) =? 0) eqn:E0; [apply Z.eqb_eq in E0; congruence|]. reflexivity. }
      split; [reflexivity|]. split; [reflexivity|]. split; [exact Hwf|].
      rewrite Er, Eq. unfold ctxs. cbn [au pending].
      split; [intros L H1 H2; split; assumption|].
      intros L P H1 H2. unfold rctxs. cbn [flat_map emit body app].
      split; [apply NoDup_rot; exact H1|].
      intros c Hc'. apply H2. apply in_app_or in Hc'. cbn [app]. destruct Hc' as [Hc'|Hc'].
      * right. apply in_or_app. left. exact Hc'.
      * apply in_app_or in Hc'. destruct Hc' as [Hc'|[Hc'|[]]]; [right; apply in_or_app; right; exact Hc'|left; exact Hc'].
    + (* MCert *)
      destruct (v13 && negb (is_cl (cf me)) && negb (ch =? 0)) eqn:Ec; [|discriminate]. inversion Hs1; subst s1.
      apply andb_true_iff in Ec. destruct Ec as [Ec Hch]. rewrite Ec.
      assert (Er : rctxs (r :: inc') = ctx :: rctxs inc') by (unfold rctxs; cbn [flat_map]; rewrite Eb; reflexivity).
      assert (Hctx : In ctx (ctxs me)) by (apply Hin; rewrite Er; left; reflexivity).
      assert (Hpn : pending (au me) <> []) by (unfold ctxs in Hctx; destruct (pending (au me)); [destruct Hctx|discriminate]).
      destruct (pending (au me)) as [|p0 pl] eqn:Ep; [congruence|]. cbn [negb andb].
      destruct Ha as (_ & Hrange & _). destruct (Hrange ctx Hctx) as [Hpos _].
      destruct (ctx =? 0) eqn:E0; [apply Z.eqb_eq in E0; lia|].
      rewrite <- Ep. rewrite (proj2 (ctx_mem_in ctx (pending (au me)))) by exact Hctx. cbn [negb].
      (* the two records that follow *)
      destruct inc' as [|c1 tl1]; [cbn [scan] in Hsc; discriminate|].
      apply scan_cons in Hsc. destruct Hsc as [s2 [Hc1 Hsc]].
      unfold scan1 in Hc1. cbn [Z.eqb] in Hc1. destruct (body c1) eqn:Eb1; try discriminate.
      destruct ok; [|discriminate]. inversion Hc1; subst s2.
      destruct tl1 as [|f1 tl2]; [cbn [scan] in Hsc; discriminate|].
      apply scan_cons in Hsc. destruct Hsc as [s3 [Hf1 Hsc]].
      unfold scan1 in Hf1. cbn [Z.eqb] in Hf1. destruct (body f1) eqn:Eb2; try discriminate.
      destruct ok; [|discriminate]. inversion Hf1; subst s3.
      cbn [valid_ku in_step] in Hs. destruct Hs as [Ht1 Hs]. rewrite Eb1 in Hs. cbn [valid_ku] in Hs. destruct Hs as [Ht2 Hs].
      apply negb_true_iff in Hch.
      unfold srv_pha. rewrite Hch. change (rgen (ks (pop_ctx me ctx))) with (rgen (ks me)).
      rewrite Ht1, Ht2, Z.eqb_refl, Eb1, Eb2. cbn [negb].
      unfold hpost. cbn [record_chain pop_ctx set_au cf io au alerts pending].
      split; [exact Hsc|]. split; [reflexivity|]. split; [reflexivity|]. split; [reflexivity|].
      split. { intros p Hp. apply Hwf. unfold ctx_del in Hp. apply filter_In in Hp. rewrite Ep in Hp. tauto. }
      assert (Er3 : rctxs (r :: c1 :: f1 :: tl2) = ctx :: rctxs tl2)
        by (unfold rctxs; cbn [flat_map]; rewrite Eb, Eb1, Eb2; reflexivity).
      assert (Eq3 : reqs (r :: c1 :: f1 :: tl2) = reqs tl2)
        by (unfold reqs; cbn [flat_map]; rewrite Eb, Eb1, Eb2; reflexivity).
      rewrite Er3, Eq3.
      split.
      * intros L H1 H2. apply NoDup_mid in H1. destruct H1 as [H1 Hni]. split; [exact H1|].
        intros c Hc'. unfold ctxs. cbn [au pending]. apply in_ctx_del. split.
        -- apply H2. apply in_app_or in Hc'. apply in_or_app. destruct Hc'; [left|right; right]; assumption.
        -- intros ->. apply Hni. exact Hc'.
      * intros L P H1 H2. rewrite app_nil_r. split; assumption.
    + (* MAlert *)
      destruct (negb fatal && (desc =? 0)) eqn:Ea; [|discriminate]. inversion Hs1; subst s1.
      apply andb_true_iff in Ea. destruct Ea as [Ef Ed]. apply negb_true_iff in Ef. subst fatal. rewrite Ed.
      assert (Hcx : rctxs [r] = []) by nor Eb.
      assert (Er : rctxs (r :: inc') = rctxs inc') by (change (r :: inc') with ([r] ++ inc'); rewrite rctxs_app, Hcx; reflexivity).
      apply hskip; [nor Eb|exact Hcx|].
      apply hstop; auto.
Qed.

(* ---- one permitted operation preserves the honest invariant --------------------------------------- *)
Lemma hio s me' :
  HInv s -> cf me' = cf (ea s) -> au me' = au (ea s) -> alerts (io me') = alerts (io (ea s)) ->
  HInv (mkst me' (eb s) (ab s) (ba s) (g13 s)).
Proof.
  intros (A & B & (C1 & C2 & C3) & D & E & F & G & H) E1 E2 E3. unfold HInv, link, ctxs in *. cbn.
  rewrite E1, E2, E3. auto 12.
Qed.

Lemma hsend s me' em :
  HInv s -> cf me' = cf (ea s) -> au me' = au (ea s) -> alerts (io me') = alerts (io (ea s)) ->
  scan (g13 s) (cf (eb s)) 0 em = Some 0 -> reqs em = [] -> rctxs em = [] ->
  HInv (mkst me' (eb s) (ab s ++ em) (ba s) (g13 s)).
Proof.
  intros (A & B & (C1 & C2 & C3) & (D1 & D2 & D3) & E & F & G & H) E1 E2 E3 Hs Hq Hc.
  unfold HInv, link, ctxs in *. cbn. rewrite E1, E2, E3, reqs_app, rctxs_app, Hq, Hc, !app_nil_r.
  rewrite (scan_app _ _ _ _ _ _ A). auto 12.
Qed.

Lemma first_wf_true l : (forall p, In p l -> snd p = true) -> first_wf l = true.
Proof. destruct l as [|p l]; intros H; cbn [first_wf]; [reflexivity|]. apply H. left. reflexivity. Qed.

Lemma hcfg s c' :
  HInv s -> cfg_same (cf (ea s)) c' -> good_cfg c' (cf (eb s)) -> good_cfg (cf (eb s)) c' ->
  HInv (mkst (set_cf (ea s) c') (eb s) (ab s) (ba s) (g13 s)).
Proof.
  intros (A & B & C & D & E & F & G & H) Hsame G1 G2. unfold HInv, link, ctxs in *. cbn.
  rewrite (scan_cfg _ _ _ Hsame). auto 12.
Qed.

Lemma act_h s o : Inv s -> HInv s -> honest_op o = true -> HInv (fst (act s o)).
Proof.
  intros Hi Hh Ho.
  pose proof Hi as ((A1 & A2 & A3) & (B1 & B2 & B3) & C1 & C2 & D1 & D2).
  pose proof Hh as (S1 & S2 & (L1 & L2 & L3) & (M1 & M2 & M3) & G1 & G2 & AL1 & AL2).
  assert (Hst : mkst (ea s) (eb s) (ab s) (ba s) (g13 s) = s) by (destruct s; reflexivity).
  assert (Hpeer_cl : is_cl (cf (ea s)) = false -> is_cl (cf (eb s)) = true).
  { intros E. destruct G1 as (_ & _ & Hc & _). rewrite E in Hc. destruct (is_cl (cf (eb s))); [reflexivity|discriminate]. }
  unfold act. destruct o; cbn [honest_op] in Ho; try discriminate.
  - (* OWrite *)
    destruct (closed (io (ea s))); cbn [fst]; [exact Hh|].
    apply hsend; auto.
    + apply scan_idle_all. intros r Hr. apply in_map_iff in Hr. destruct Hr as [f [Hf _]]. subst r. reflexivity.
    + unfold reqs. apply flat_nil. intros r Hr. apply in_map_iff in Hr. destruct Hr as [f [Hf _]]. subst r. reflexivity.
    + unfold rctxs. apply flat_nil. intros r Hr. apply in_map_iff in Hr. destruct Hr as [f [Hf _]]. subst r. reflexivity.
  - (* ORead *)
    destruct (closed (io (ea s))).
    { unfold deliver. cbn [fst]. apply hio; auto. }
    rewrite (first_wf_true _ L3). cbn [negb]. rewrite andb_false_r.
    destruct (rbuf (io (ea s))) as [|b0 bs] eqn:Erb.
    2:{ unfold deliver. cbn [fst]. apply hio; auto. }
    assert (Hpre : pre (g13 s) (ea s) (ba s) (wgen (ks (eb s)))).
    { split; [exact B1|]. split; [exact B3|]. split; [exact Erb|]. split; assumption. }
    assert (Hhp : hpre (g13 s) (ea s) (cf (eb s)) (ba s)).
    { unfold hpre. split; [exact S2|]. split; [exact G1|]. split; [exact G2|]. split; [exact L3|].
      split; [eapply NoDup_app_r; exact L1|]. intros c Hc. apply L2. apply in_or_app. right. exact Hc. }
    pose proof (rloop_post _ _ _ _ Hpre) as Hpost.
    pose proof (rloop_h _ (cf (eb s)) _ _ _ Hpre Hhp) as Hhpost.
    destruct (rloop (g13 s) (ea s) (ba s)) as [[[me1 inc1] em] c].
    destruct Hpost as (_ & _ & _ & _ & _ & _ & _ & _ & Ecf).
    destruct Hhpost as (P1 & P2 & P3 & P4 & P5 & P6 & P7).
    assert (Hnew : HInv (mkst me1 (eb s) (ab s ++ em) inc1 (g13 s))).
    { unfold HInv, link. cbn. rewrite Ecf.
      split; [rewrite (scan_app _ _ _ _ _ _ S1); exact P2|]. split; [exact P1|].
      destruct (P6 (reqs (ab s)) L1 L2) as [Q1 Q2].
      destruct (P7 (rctxs (ab s)) (fun c => In c (ctxs (eb s))) M1 M2) as [R1 R2].
      rewrite reqs_app, rctxs_app, P4, app_nil_r.
      split; [split; [exact Q1|split; [exact Q2|exact P5]]|].
      split; [split; [exact R1|split; [exact R2|exact M3]]|].
      rewrite P3. auto. }
    destruct (c =? 0); [|exact Hnew].
    unfold deliver. cbn [fst].
    apply (hio (mkst me1 (eb s) (ab s ++ em) inc1 (g13 s))); auto.
  - (* OKeyUpdate *)
    destruct (closed (io (ea s))); cbn [fst]; [exact Hh|].
    destruct (negb (g13 s)) eqn:Ev; cbn [fst]; [exact Hh|]. apply negb_false_iff in Ev.
    apply hsend; auto.
    cbn [scan emit body]. unfold scan1. cbn [Z.eqb]. rewrite Ev. destruct req; reflexivity.
  - (* ORequestAuth *)
    destruct (closed (io (ea s)) || negb (g13 s) || is_cl (cf (ea s)) || negb (pha_sup (cf (ea s)))) eqn:Ec; cbn [fst]; [exact Hh|].
    apply orb_false_iff in Ec. destruct Ec as [Ec Eps]. apply orb_false_iff in Ec. destruct Ec as [Ec Ecl].
    apply orb_false_iff in Ec. destruct Ec as [_ Ev]. apply negb_false_iff in Ev, Eps.
    destruct D1 as (_ & Hrange & _ & _ & Hpos).
    unfold HInv, link, ctxs in *. cbn [ea eb ab ba g13 cf io au pending alerts set_au].
    set (n := next_ctx (au (ea s))) in *.
    assert (Eq1 : reqs [emit (ea s) (MCertReq n true)] = [n]) by reflexivity.
    assert (Ec1 : rctxs [emit (ea s) (MCertReq n true)] = []) by reflexivity.
    rewrite reqs_app, rctxs_app, map_app, Eq1, Ec1. cbn [map fst].
    rewrite app_nil_r.
    split.
    { rewrite (scan_app _ _ _ _ _ _ S1). cbn [scan emit body]. unfold scan1. cbn [Z.eqb].
      rewrite Ev, (Hpeer_cl Ecl). destruct G1 as (_ & _ & _ & _ & _ & Hk & _). rewrite (Hk Eps). reflexivity. }
    split; [exact S2|].
    split.
    { split.
      - rewrite <- app_assoc. cbn [app].
        assert (Hfresh : ~ In n (reqs (ab s) ++ rctxs (ba s))) by (intros Hx; apply L2 in Hx; apply Hrange in Hx; lia).
        clear - L1 Hfresh. revert L1 Hfresh. generalize (reqs (ab s)) (rctxs (ba s)). intros a b Hnd Hf.
        induction a as [|x a IH]; cbn [app] in *.
        + constructor; assumption.
        + inversion Hnd; subst. constructor.
          * intros Hx. apply in_app_or in Hx. destruct Hx as [Hx|[Hx|Hx]].
            -- apply H1. apply in_or_app. left. exact Hx.
            -- subst. apply Hf. left. reflexivity.
            -- apply H1. apply in_or_app. right. exact Hx.
          * apply IH; [assumption|]. intros Hx. apply Hf. right. exact Hx.
      - split.
        + intros c Hc. apply in_app_or in Hc. destruct Hc as [Hc|Hc].
          * apply in_app_or in Hc. destruct Hc as [Hc|[Hc|[]]].
            -- apply in_or_app. left. apply L2. apply in_or_app. left. exact Hc.
            -- apply in_or_app. right. left. exact Hc.
          * apply in_or_app. left. apply L2. apply in_or_app. right. exact Hc.
        + intros p Hp. apply in_app_or in Hp. destruct Hp as [Hp|[Hp|[]]]; [apply L3; exact Hp|subst p; reflexivity]. }
    split; [split; [exact M1|split; [exact M2|exact M3]]|]. auto.
  - (* OHeartbeat *)
    destruct (closed (io (ea s))); cbn [fst]; [exact Hh|].
    destruct (negb (hb_sup (cf (ea s))) || negb (hb_send (cf (ea s)))) eqn:Eh; cbn [fst]; [exact Hh|].
    apply orb_false_iff in Eh. destruct Eh as [Eh _]. apply negb_false_iff in Eh.
    destruct (recsize (cf (ea s)) <? zlen (hb_write 1 payload (padding padlen))); cbn [fst]; [exact Hh|].
    apply hsend; auto.
    cbn [scan emit body]. unfold scan1. cbn [Z.eqb].
    destruct G1 as (_ & _ & _ & Hhs & _). destruct G2 as (_ & _ & _ & _ & Hhr & _).
    rewrite <- Hhs, Eh. rewrite Hhr by (rewrite <- Hhs; exact Eh). reflexivity.
  - (* OTickets *)
    destruct (closed (io (ea s)) || negb (g13 s) || is_cl (cf (ea s))) eqn:Ec; cbn [fst]; [exact Hh|].
    apply orb_false_iff in Ec. destruct Ec as [Ec Ecl]. apply orb_false_iff in Ec. destruct Ec as [_ Ev]. apply negb_false_iff in Ev.
    assert (Hr : forall x, In x (repeat (emit (ea s) MNST) (Z.to_nat k)) -> body x = MNST)
      by (intros x Hx; apply repeat_spec in Hx; subst x; reflexivity).
    apply hsend; auto.
    + apply scan_idle_all. intros r Hx. rewrite (Hr r Hx). unfold scan1. cbn [Z.eqb]. rewrite Ev, (Hpeer_cl Ecl). reflexivity.
    + unfold reqs. apply flat_nil. intros r Hx. rewrite (Hr r Hx). reflexivity.
    + unfold rctxs. apply flat_nil. intros r Hx. rewrite (Hr r Hx). reflexivity.
  - (* OClose *)
    destruct (closed (io (ea s))); cbn [fst]; [exact Hh|].
    apply hsend; auto.
  - (* OSetRecSize *)
    destruct (n <? 1) eqn:En; cbn [fst]; [exact Hh|].
    apply hcfg; [exact Hh|repeat split| |].
    + destruct G1 as (g1 & g2 & g3 & g4 & g5 & g6 & g7). unfold good_cfg. cbn. repeat split; auto; lia.
    + destruct G2 as (g1 & g2 & g3 & g4 & g5 & g6 & g7). unfold good_cfg. cbn. repeat split; auto.
  - (* OSetDev *)
    apply Z.eqb_eq in Ho. subst d. cbn [fst].
    apply hcfg; [exact Hh|repeat split| |].
    + destruct G1 as (g1 & g2 & g3 & g4 & g5 & g6 & g7). unfold good_cfg. cbn. repeat split; auto.
    + destruct G2 as (g1 & g2 & g3 & g4 & g5 & g6 & g7). unfold good_cfg. cbn. repeat split; auto.
Qed.

Lemma swap_h s : HInv s -> HInv (swap s).
Proof. unfold HInv, swap. cbn. tauto. Qed.

Lemma step_h s a o : Inv s -> HInv s -> honest_op o = true -> HInv (fst (step s a o)).
Proof.
  intros Hi Hh Ho. unfold step. destruct a; [apply act_h; assumption|].
  pose proof (act_h (swap s) o (swap_inv s Hi) (swap_h s Hh) Ho) as H1.
  destruct (act (swap s) o) as [s' r]. cbn [fst] in *. apply swap_h. exact H1.
Qed.

Lemma exec_h : forall ops s, Inv s -> HInv s -> forallb (fun p => honest_op (snd p)) ops = true -> HInv (exec s ops).
Proof.
  unfold exec. induction ops as [|[a o] tl IH]; intros s Hi Hh Ho; cbn [run fst]; [exact Hh|].
  cbn [forallb snd] in Ho. apply andb_true_iff in Ho. destruct Ho as [Ho Htl].
  pose proof (step_inv s a o Hi) as Hi1. pose proof (step_h s a o Hi Hh Ho) as Hh1.
  destruct (step s a o) as [s1 r]. cbn [fst] in Hi1, Hh1.
  specialize (IH s1 Hi1 Hh1 Htl). destruct (run s1 tl) as [s2 rs]. exact IH.
Qed.

Lemma init_h v13 cc sc nst : init_ok cc sc -> v13 = true \/ nst <= 0 -> HInv (init v13 cc sc nst).
Proof.
  intros (Hc & Hs & G1 & G2) Hv. unfold HInv, init, link, ctxs. cbn [ea eb ab ba g13 cf io au pending alerts ep0 io0 au0].
  assert (Hr : forall x, In x (repeat (mkrec 0 MNST) (Z.to_nat nst)) -> x = mkrec 0 MNST)
    by (intros x Hx; apply repeat_spec in Hx; exact Hx).
  assert (Hq : reqs (repeat (mkrec 0 MNST) (Z.to_nat nst)) = [])
    by (unfold reqs; apply flat_nil; intros x Hx; rewrite (Hr x Hx); reflexivity).
  assert (Hx : rctxs (repeat (mkrec 0 MNST) (Z.to_nat nst)) = [])
    by (unfold rctxs; apply flat_nil; intros x Hx; rewrite (Hr x Hx); reflexivity).
  rewrite Hq, Hx. cbn [reqs rctxs flat_map app map].
  split; [reflexivity|].
  split.
  { destruct Hv as [Hv|Hv].
    - apply scan_idle_all. intros r Hin. rewrite (Hr r Hin). unfold scan1. cbn [Z.eqb body]. rewrite Hv, Hc. reflexivity.
    - replace (Z.to_nat nst) with 0%nat by lia. reflexivity. }
  split. { split; [apply NoDup_nil|]. split; [intros c []|intros p []]. }
  split. { split; [apply NoDup_nil|]. split; [intros c []|intros p []]. }
  split; [exact G1|]. split; [exact G2|]. split; reflexivity.
Qed.

Lemma honest_never_fatal_all : forall v13 cc sc nst ops,
  init_ok cc sc -> v13 = true \/ nst <= 0 ->
  forallb (fun p => honest_op (snd p)) ops = true ->
  let s := exec (init v13 cc sc nst) ops in
  alerts (io (ea s)) = [] /\ alerts (io (eb s)) = [].
Proof.
  intros v13 cc sc nst ops Hok Hv Hops.
  pose proof (exec_h ops (init v13 cc sc nst) (init_inv v13 cc sc nst) (init_h v13 cc sc nst Hok Hv) Hops) as H.
  destruct H as (_ & _ & _ & _ & _ & _ & A & B). split; assumption.
Qed.

Lemma init_ok_ex : init_ok ex_cc ex_sc.
Proof. unfold init_ok, good_cfg, ex_cc, ex_sc. cbn. repeat split; auto; try lia; try discriminate. Qed.
