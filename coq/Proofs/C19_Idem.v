(* C19 -- idempotence of validate() on contents, then on the by-reference model *)
From Coq Require Import ZArith List Bool String Lia.
From TV Require Import Base.Prelude Model.C19_Settings Spec.C19_Domain Proofs.C19_Frame Proofs.C19_Pure.
Import ListNotations.
Open Scope Z_scope.

(* ---- small facts about the filters ------------------------------------------------------------ *)
Lemma filter_idem {A} (p : A -> bool) l : filter p (filter p l) = filter p l.
Proof. rewrite filter_filter. apply filter_ext. intros a. destruct (p a); reflexivity. Qed.

Lemma not_matching_filter p l t : not_matching l t = [] -> not_matching (filter p l) t = [].
Proof.
  unfold not_matching. induction l as [|x xs IH]; cbn [filter]; auto.
  destruct (negb (in_tab x t)) eqn:E; [discriminate|]. intros H.
  destruct (p x); cbn [filter]; [rewrite E|]; auto.
Qed.

Lemma all_known_filter p l t : all_known l t = Ok tt -> all_known (filter p l) t = Ok tt.
Proof.
  unfold all_known. intros H. apply guard_ok in H. apply guard_ok.
  destruct (not_matching l t) eqn:E; [|discriminate]. rewrite (not_matching_filter p l t E). reflexivity.
Qed.

Lemma filter_lt34_fix l r : filter_lt34 l = Ok r -> filter_lt34 r = Ok r /\ val_in (VPair 3 4) r = false.
Proof.
  revert r. induction l as [|x xs IH]; intros r H.
  - injection H as <-. auto.
  - destruct x; try discriminate H. cbn [filter_lt34] in H.
    destruct (filter_lt34 xs) as [r'|]; [|discriminate H]. cbn [bind] in H. injection H as <-.
    destruct (IH r' eq_refl) as [I1 I2].
    destruct (ver_lt (a, b) (3, 4)) eqn:E; [|auto].
    split.
    + cbn [filter_lt34]. rewrite I1. cbn [bind]. rewrite E. reflexivity.
    + cbn [val_in existsb py_eq]. fold (val_in (VPair 3 4) r'). rewrite I2.
      unfold ver_lt in E. cbn [fst snd] in E.
      destruct (3 =? a) eqn:E3; [|reflexivity]. apply Z.eqb_eq in E3. subst a.
      destruct (4 =? b) eqn:E4; [|reflexivity]. apply Z.eqb_eq in E4. subst b. discriminate E.
Qed.

Section Core.
Variable T : tables.
Variable I : install.
Variable c : scalars.
Variables x2 x5 x6 x7 x8 x9 x10 x11 x12 x13 x14 x15 x16 x17 x18 x19 x20 x21 : list val.
Definition V (x0 x1 x3 x4 : list val) : list (list val) :=
  [x0; x1; x2; x3; x4; x5; x6; x7; x8; x9; x10; x11; x12; x13; x14; x15; x16; x17; x18; x19; x20; x21].

(* the functions that do not read cipherNames, macNames, cipherImplementations, versions *)
Lemma indep_keysizes a0 a1 a3 a4 b0 b1 b3 b4 :
  sanityCheckKeySizes (V a0 a1 a3 a4) c = sanityCheckKeySizes (V b0 b1 b3 b4) c.
Proof. reflexivity. Qed.
Lemma indep_ext a0 a1 a3 a4 b0 b1 b3 b4 :
  sanityCheckExtensions T (V a0 a1 a3 a4) c = sanityCheckExtensions T (V b0 b1 b3 b4) c.
Proof. reflexivity. Qed.
Lemma indep_C a0 a1 a3 a4 b0 b1 b3 b4 : cchecks_C T (V a0 a1 a3 a4) c = cchecks_C T (V b0 b1 b3 b4) c.
Proof. reflexivity. Qed.

(* the rest of _sanityCheckPrimitivesNames after the two calls *)
Definition prim_rest (v : list (list val)) : res unit :=
  _ <- all_known (nth F_certificateTypes v []) (t_certtypes T) ;;
  _ <- all_known (nth F_rsaSigHashes v []) (t_all_rsa_hashes T) ;;
  _ <- all_known (nth F_rsaSchemes v []) (t_rsa_schemes T) ;;
  _ <- all_known (nth F_dsaSigHashes v []) (t_dsa_hashes T) ;;
  guard (isnil (nth F_rsaSigHashes v []) && isnil (nth F_ecdsaSigHashes v []) && isnil (nth F_dsaSigHashes v [])
         && isnil (nth F_more_sig_schemes v []) && ver_le (3, 3) (maxVersion c)).
Lemma prim_unfold v :
  sanityCheckPrimitivesNames T v c =
  (_ <- sanityCheckCipherSettings T v ;; _ <- sanityCheckDHSettings T v c ;; prim_rest v).
Proof. reflexivity. Qed.
Lemma indep_rest a0 a1 a3 a4 b0 b1 b3 b4 : prim_rest (V a0 a1 a3 a4) = prim_rest (V b0 b1 b3 b4).
Proof. reflexivity. Qed.

(* ECDH checks before the TLS1.3-only clause: do not read the four attributes *)
Definition ecdh_head (v : list (list val)) : res unit :=
  _ <- all_known (nth F_eccCurves v []) (t_all_curves T) ;;
  _ <- guard (negb (in_tab (defaultCurve c) (t_all_curves T))) ;;
  _ <- guard (negb (isnil (filter (fun x => negb (val_in x (nth F_eccCurves v [])) && negb (val_in x (nth F_dhGroups v [])))
                                  (nth F_keyShares v [])))) ;;
  _ <- all_known (nth F_ecdsaSigHashes v []) (t_ecdsa_hashes T) ;;
  _ <- all_known (nth F_more_sig_schemes v []) (t_sig_schemes T) ;;
  all_known (nth F_dhGroups v []) (t_all_dh T).
Definition ecdh_tail (v : list (list val)) : res unit :=
  if negb (val_in (VPair 3 3) (nth F_versions v [])) && val_in (VPair 3 4) (nth F_versions v [])
  then all_known (nth F_eccCurves v []) (t_tls13_groups T) else Ok tt.
Definition dh_rest (v : list (list val)) : res unit :=
  _ <- guard (negb (isnil (filter (fun x => negb (in_tab x (t_all_dh T)) && negb (in_tab x (t_all_curves T)))
                                  (nth F_keyShares v [])))) ;;
  guard (dhParams_bad (dhParams c)).
Lemma bind_assoc {A B C} (m : res A) (f : A -> res B) (g : B -> res C) :
  bind (bind m f) g = bind m (fun x => bind (f x) g).
Proof. destruct m; reflexivity. Qed.
Lemma dh_unfold v :
  sanityCheckDHSettings T v c = (_ <- ecdh_head v ;; _ <- ecdh_tail v ;; dh_rest v).
Proof.
  unfold sanityCheckDHSettings, sanityCheckECDHSettings, ecdh_head, ecdh_tail, dh_rest.
  repeat rewrite bind_assoc. reflexivity.
Qed.
Lemma indep_head a0 a1 a3 a4 b0 b1 b3 b4 : ecdh_head (V a0 a1 a3 a4) = ecdh_head (V b0 b1 b3 b4).
Proof. reflexivity. Qed.
Lemma indep_dhrest a0 a1 a3 a4 b0 b1 b3 b4 : dh_rest (V a0 a1 a3 a4) = dh_rest (V b0 b1 b3 b4).
Proof. reflexivity. Qed.

Lemma res_unit_ok (m : res unit) y : m = Ok y -> m = Ok tt.
Proof. destruct y. auto. Qed.

(* first block of checks is stable under shrinking the three name lists and under a versions list
   that either is the same or no longer contains (3,4) *)
Lemma A_stable x0 x1 x3 x4 p0 p1 p3 y4 :
  cchecks_A T (V x0 x1 x3 x4) c = Ok tt ->
  (y4 = x4 \/ val_in (VPair 3 4) y4 = false) ->
  cchecks_A T (V (filter p0 x0) (filter p1 x1) (filter p3 x3) y4) c = Ok tt.
Proof.
  unfold cchecks_A. intros H Hy.
  apply bind_ok in H. destruct H as [[] [H1 H]].
  apply bind_ok in H. destruct H as [[] [H2 H]].
  apply bind_ok in H. destruct H as [[] [H3 H4]].
  change (nth F_certificateTypes (V (filter p0 x0) (filter p1 x1) (filter p3 x3) y4) [])
    with (nth F_certificateTypes (V x0 x1 x3 x4) []).
  rewrite H1. cbn [bind].
  rewrite (indep_keysizes _ _ _ _ x0 x1 x3 x4), H2. cbn [bind].
  rewrite H4.
  assert (P : sanityCheckPrimitivesNames T (V (filter p0 x0) (filter p1 x1) (filter p3 x3) y4) c = Ok tt);
    [|rewrite P; reflexivity].
  rewrite prim_unfold in *.
  apply bind_ok in H3. destruct H3 as [[] [C1 H3]].
  apply bind_ok in H3. destruct H3 as [[] [C2 C3]].
  assert (CS : sanityCheckCipherSettings T (V (filter p0 x0) (filter p1 x1) (filter p3 x3) y4) = Ok tt).
  { unfold sanityCheckCipherSettings in *. cbn [nth V F_cipherNames F_macNames F_keyExchangeNames F_cipherImplementations] in *.
    apply bind_ok in C1. destruct C1 as [[] [K0 C1]].
    apply bind_ok in C1. destruct C1 as [[] [K1 C1]].
    apply bind_ok in C1. destruct C1 as [[] [K2 K3]].
    rewrite (all_known_filter p0 _ _ K0). cbn [bind].
    rewrite (all_known_filter p1 _ _ K1). cbn [bind].
    rewrite K2. cbn [bind]. apply all_known_filter. exact K3. }
  rewrite CS. cbn [bind].
  assert (DH : sanityCheckDHSettings T (V (filter p0 x0) (filter p1 x1) (filter p3 x3) y4) c = Ok tt).
  { rewrite dh_unfold in *.
    apply bind_ok in C2. destruct C2 as [[] [D1 C2]].
    apply bind_ok in C2. destruct C2 as [[] [D2 D3]].
    rewrite (indep_head _ _ _ _ x0 x1 x3 x4), D1. cbn [bind].
    rewrite (indep_dhrest _ _ _ _ x0 x1 x3 x4), D3.
    assert (TL : ecdh_tail (V (filter p0 x0) (filter p1 x1) (filter p3 x3) y4) = Ok tt); [|rewrite TL; reflexivity].
    destruct Hy as [->|Hy]; [exact D2|].
    unfold ecdh_tail. cbn [nth V F_versions]. rewrite Hy, andb_false_r. reflexivity. }
  rewrite DH. cbn [bind]. rewrite (indep_rest _ _ _ _ x0 x1 x3 x4). exact C3.
Qed.

Lemma impl_V a0 a1 a3 a4 : cstep_impl I (V a0 a1 a3 a4) = V a0 a1 (filter (impl_available I) a3) a4.
Proof. reflexivity. Qed.
Lemma nth_impl_V a0 a1 a3 a4 : nth F_cipherImplementations (V a0 a1 a3 a4) [] = a3.
Proof. reflexivity. Qed.
Lemma nth_cn_V a0 a1 a3 a4 : nth F_cipherNames (V a0 a1 a3 a4) [] = a0.
Proof. reflexivity. Qed.

Lemma idem_V x0 x1 x3 x4 v' :
  cvalidate T I (V x0 x1 x3 x4) c = Ok v' -> cvalidate T I v' c = Ok v'.
Proof.
  unfold cvalidate at 1. intros H.
  destruct (cchecks_A T (V x0 x1 x3 x4) c) as [[]|] eqn:EA; [|discriminate H].
  (* versions *)
  assert (SV : (exists y4, cstep_versions (V x0 x1 x3 x4) c = Ok (V x0 x1 x3 y4) /\
                          (y4 = x4 \/ val_in (VPair 3 4) y4 = false) /\
                          (forall a0 a1 a3, cstep_versions (V a0 a1 a3 y4) c = Ok (V a0 a1 a3 y4)))
               \/ exists e, cstep_versions (V x0 x1 x3 x4) c = Err e).
  { unfold cstep_versions. cbn [nth V F_versions lupd].
    destruct (ver_lt (maxVersion c) (3, 4)).
    - destruct (filter_lt34 x4) as [l|e] eqn:FL; [|right; exists e; reflexivity].
      destruct (filter_lt34_fix x4 l FL) as [F1 F2].
      left. exists l. split; [reflexivity|]. split; [right; exact F2|]. intros. rewrite F1. reflexivity.
    - left. exists x4. split; [reflexivity|]. split; [left; reflexivity|]. reflexivity. }
  destruct SV as [[y4 [SV [Hy SVfix]]]|[e SV]]; rewrite SV in H; [|discriminate H].
  destruct (sanityCheckExtensions T (V x0 x1 x3 y4) c) as [[]|] eqn:EE; [|discriminate H].
  (* macNames *)
  set (p1 := if ver_lt (maxVersion c) (3, 3) then keep_old_mac else (fun _ => true)).
  assert (SM : cstep_mac (V x0 x1 x3 x4) (V x0 x1 x3 y4) c = V x0 (filter p1 x1) x3 y4 /\
               forall a0 a3, cstep_mac (V a0 (filter p1 x1) a3 y4) (V a0 (filter p1 x1) a3 y4) c
                             = V a0 (filter p1 x1) a3 y4).
  { unfold cstep_mac, p1. cbn [nth V F_macNames lupd].
    destruct (ver_lt (maxVersion c) (3, 3)).
    - split; [reflexivity|]. intros. rewrite filter_idem. reflexivity.
    - rewrite filter_true. split; reflexivity. }
  destruct SM as [SM SMfix]. rewrite SM in H.
  destruct (cchecks_C T (V x0 (filter p1 x1) x3 y4) c) as [[]|] eqn:EC; [|discriminate H].
  (* implementations *)
  rewrite impl_V, nth_impl_V in H.
  destruct (isnil (filter (impl_available I) x3)) eqn:NI; [discriminate H|].
  (* ciphers *)
  set (p0 := if negb (i_tdes I) then not_3des else (fun _ => true)).
  assert (SC : forall a1 a3 a4, cstep_ciphers I (V x0 a1 a3 a4) = V (filter p0 x0) a1 a3 a4 /\
                                cstep_ciphers I (V (filter p0 x0) a1 a3 a4) = V (filter p0 x0) a1 a3 a4).
  { intros. unfold cstep_ciphers, p0. cbn [nth V F_cipherNames lupd].
    destruct (negb (i_tdes I)).
    - rewrite filter_idem. split; reflexivity.
    - rewrite filter_true. split; reflexivity. }
  rewrite (proj1 (SC _ _ _)), nth_cn_V in H.
  destruct (isnil (filter p0 x0)) eqn:NC; [discriminate H|]. injection H as <-.
  (* second run *)
  unfold cvalidate.
  rewrite (A_stable x0 x1 x3 x4 p0 p1 (impl_available I) y4 EA Hy).
  rewrite SVfix.
  rewrite (indep_ext _ _ _ _ x0 x1 x3 y4), EE.
  rewrite SMfix.
  rewrite (indep_C _ _ _ _ x0 (filter p1 x1) x3 y4), EC.
  rewrite impl_V, nth_impl_V, filter_idem, NI.
  rewrite (proj2 (SC _ _ _)), nth_cn_V, NC. reflexivity.
Qed.
End Core.

Lemma cvalidate_idem T I v c v' :
  List.length v = NF -> cvalidate T I v c = Ok v' -> cvalidate T I v' c = Ok v'.
Proof.
  intros Len H.
  destruct v as [|x0 [|x1 [|x2 [|x3 [|x4 [|x5 [|x6 [|x7 [|x8 [|x9 [|x10 [|x11 [|x12 [|x13 [|x14 [|x15 [|x16
               [|x17 [|x18 [|x19 [|x20 [|x21 [|x22 r]]]]]]]]]]]]]]]]]]]]]]]; try discriminate Len.
  exact (idem_V T I c x2 x5 x6 x7 x8 x9 x10 x11 x12 x13 x14 x15 x16 x17 x18 x19 x20 x21 x0 x1 x3 x4 v' H).
Qed.

(* ---- idempotence of the by-reference model ---------------------------------------------------- *)
Lemma validate_idempotent_heap T I h s h1 s1 :
  wf h s = true -> validate T I h s = (h1, Ok s1) ->
  exists h2 s2, validate T I h1 s1 = (h2, Ok s2) /\ view h2 s2 = view h1 s1.
Proof.
  intros W H.
  pose proof (validate_refines T I h s W) as R. rewrite H in R. destruct R as [R1 [R2 R3]].
  pose proof (validate_refines T I h1 s1 R3) as R'.
  assert (Len : List.length (lists h s) = NF) by (rewrite lists_length; apply (wf_length h s W)).
  pose proof (cvalidate_idem T I _ _ _ Len R1) as Id. rewrite <- R2 in Id.
  destruct (validate T I h1 s1) as [h2 [s2|e]].
  - exists h2, s2. split; [reflexivity|]. destruct R' as [A [B _]]. rewrite Id in A. injection A as A.
    unfold view. rewrite <- A, B. reflexivity.
  - rewrite Id in R'. discriminate R'.
Qed.
