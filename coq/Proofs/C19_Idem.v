(* C19 -- idempotence of validate() on contents, then on the by-reference model *)
From Coq Require Import ZArith List Bool String Lia.
From TV Require Import Base.Prelude Model.C19_Settings Spec.C19_Domain Proofs.C19_Frame Proofs.C19_Pure.
Import ListNotations.
Open Scope Z_scope.

(* ---- small facts about the filters ------------------------------------------------------------ *)
Lemma filter_idem {A} (p : A -> bool) l : filter p (filter p l) = filter p l.
Proof. rewrite filter_filter. apply filter_ext. intros a. destruct (p a); reflexivity. Qed.

Lemma not_matching_filter p l t : not_matching l t = [] -> not_matching (filter p l) t = [].
Proof.
  unfold not_matching. induction l as [|x xs IH]; cbn [filter]; auto.
  destruct (negb (in_tab x t)) eqn:E; [discriminate|]. intros H.
  destruct (p x); cbn [filter]; [rewrite E|]; auto.
Qed.

Lemma all_known_filter p l t : all_known l t = Ok tt -> all_known (filter p l) t = Ok tt.
Proof.
  unfold all_known. intros H. apply guard_ok in H. apply guard_ok.
  destruct (not_matching l t) eqn:E; [|discriminate]. rewrite (not_matching_filter p l t E). reflexivity.
Qed.

Lemma all_known_sub l t : all_known l t = Ok tt -> sub_tab l t = true.
Proof.
  unfold all_known, sub_tab, not_matching. intros H. apply guard_ok in H.
  induction l as [|x xs IH]; cbn [forallb filter] in *; auto.
  destruct (in_tab x t); cbn [negb] in *; [apply IH; exact H|discriminate H].
Qed.

Lemma sub_all_known l t : sub_tab l t = true -> all_known l t = Ok tt.
Proof.
  unfold all_known, sub_tab, not_matching. intros H. apply guard_ok.
  induction l as [|x xs IH]; cbn [forallb filter] in *; auto.
  apply andb_true_iff in H. destruct H as [H1 H2]. rewrite H1. cbn [negb]. apply IH. exact H2.
Qed.

(* the clipping of `versions` to [minVersion, maxVersion] *)
Lemma filter_range_fix lo hi l r : filter_range lo hi l = Ok r -> filter_range lo hi r = Ok r.
Proof.
  revert r. induction l as [|x xs IH]; intros r H.
  - injection H as <-. reflexivity.
  - destruct x; try discriminate H. cbn [filter_range] in H.
    destruct (filter_range lo hi xs) as [r'|]; [|discriminate H]. cbn [bind] in H. injection H as <-.
    specialize (IH r' eq_refl). destruct (in_range lo hi a b) eqn:E; [|exact IH].
    cbn [filter_range]. rewrite IH. cbn [bind]. rewrite E. reflexivity.
Qed.

Lemma filter_range_in lo hi l r a b :
  filter_range lo hi l = Ok r -> val_in (VPair a b) r = val_in (VPair a b) l && in_range lo hi a b.
Proof.
  revert r. induction l as [|x xs IH]; intros r H.
  - injection H as <-. reflexivity.
  - destruct x; try discriminate H. cbn [filter_range] in H.
    destruct (filter_range lo hi xs) as [r'|]; [|discriminate H]. cbn [bind] in H. injection H as <-.
    specialize (IH r' eq_refl). unfold val_in in *. cbn [existsb py_eq].
    destruct ((a =? a0) && (b =? b0)) eqn:Eq.
    + apply andb_true_iff in Eq. destruct Eq as [E1 E2]. apply Z.eqb_eq in E1. apply Z.eqb_eq in E2. subst a0 b0.
      cbn [orb]. destruct (in_range lo hi a b) eqn:E.
      * cbn [existsb py_eq]. rewrite !Z.eqb_refl. reflexivity.
      * rewrite IH. rewrite andb_false_r. reflexivity.
    + cbn [orb]. destruct (in_range lo hi a0 b0); [cbn [existsb py_eq]; rewrite Eq|]; exact IH.
Qed.

Lemma in_range_34_33 lo hi : in_range lo hi 3 4 = true -> ver_le lo (3, 3) = true -> in_range lo hi 3 3 = true.
Proof.
  unfold in_range, ver_le, ver_lt. destruct lo as [l1 l2], hi as [h1 h2]. cbn [fst snd].
  intros H L. apply andb_true_iff in H. destruct H as [_ H]. rewrite L. cbn [andb].
  apply negb_true_iff in H. apply negb_true_iff. apply orb_false_iff in H. destruct H as [H1 H2].
  rewrite H1. cbn [orb]. destruct (h1 =? 3) eqn:E; [|reflexivity]. cbn [andb] in *.
  apply Z.ltb_ge in H2. apply Z.ltb_ge. lia.
Qed.

(* the rule of _sanityCheckECDHSettings: TLS 1.3 enabled without TLS 1.2 => only RFC 8446 groups *)
Definition tls13_only_rule (T : tables) (versions curves : list val) : bool :=
  if negb (val_in (VPair 3 3) versions) && val_in (VPair 3 4) versions
  then sub_tab curves (t_tls13_groups T) else true.

(* validate() evaluates that rule on `versions` BEFORE clipping it; the object is stable when the rule also
   holds for the clipped list.  Since 0b9340a the lower clip bound is never above (3,3), which makes every
   accepted object stable (clip_stable_ok); under f81c02a alone (bound = minVersion) it was not. *)
Definition clip_stable (T : tables) (v : list (list val)) (c : scalars) : bool :=
  match filter_range (clip_lo (minVersion c)) (maxVersion c) (nth F_versions v []) with
  | Ok y => tls13_only_rule T y (nth F_eccCurves v [])
  | Err _ => true
  end.

Section Core.
Variable T : tables.
Variable I : install.
Variable c : scalars.
Variables x2 x5 x6 x7 x8 x9 x10 x11 x12 x13 x14 x15 x16 x17 x18 x19 x20 x21 : list val.
Definition V (x0 x1 x3 x4 : list val) : list (list val) :=
  [x0; x1; x2; x3; x4; x5; x6; x7; x8; x9; x10; x11; x12; x13; x14; x15; x16; x17; x18; x19; x20; x21].

(* the functions that do not read cipherNames, macNames, cipherImplementations, versions *)
Lemma indep_keysizes a0 a1 a3 a4 b0 b1 b3 b4 :
  sanityCheckKeySizes (V a0 a1 a3 a4) c = sanityCheckKeySizes (V b0 b1 b3 b4) c.
Proof. reflexivity. Qed.
Lemma indep_ext a0 a1 a3 a4 b0 b1 b3 b4 :
  sanityCheckExtensions T (V a0 a1 a3 a4) c = sanityCheckExtensions T (V b0 b1 b3 b4) c.
Proof. reflexivity. Qed.
Lemma indep_C a0 a1 a3 a4 b0 b1 b3 b4 : cchecks_C T (V a0 a1 a3 a4) c = cchecks_C T (V b0 b1 b3 b4) c.
Proof. reflexivity. Qed.

(* the rest of _sanityCheckPrimitivesNames after the two calls *)
Definition prim_rest (v : list (list val)) : res unit :=
  _ <- all_known (nth F_certificateTypes v []) (t_certtypes T) ;;
  _ <- all_known (nth F_rsaSigHashes v []) (t_all_rsa_hashes T) ;;
  _ <- all_known (nth F_rsaSchemes v []) (t_rsa_schemes T) ;;
  _ <- all_known (nth F_dsaSigHashes v []) (t_dsa_hashes T) ;;
  guard (isnil (nth F_rsaSigHashes v []) && isnil (nth F_ecdsaSigHashes v []) && isnil (nth F_dsaSigHashes v [])
         && isnil (nth F_more_sig_schemes v []) && ver_le (3, 3) (maxVersion c)).
Lemma prim_unfold v :
  sanityCheckPrimitivesNames T v c =
  (_ <- sanityCheckCipherSettings T v ;; _ <- sanityCheckDHSettings T v c ;; prim_rest v).
Proof. reflexivity. Qed.
Lemma indep_rest a0 a1 a3 a4 b0 b1 b3 b4 : prim_rest (V a0 a1 a3 a4) = prim_rest (V b0 b1 b3 b4).
Proof. reflexivity. Qed.

(* ECDH checks before the TLS1.3-only clause: do not read the four attributes *)
Definition ecdh_head (v : list (list val)) : res unit :=
  _ <- all_known (nth F_eccCurves v []) (t_all_curves T) ;;
  _ <- guard (negb (in_tab (defaultCurve c) (t_all_curves T))) ;;
  _ <- guard (negb (isnil (filter (fun x => negb (val_in x (nth F_eccCurves v [])) && negb (val_in x (nth F_dhGroups v [])))
                                  (nth F_keyShares v [])))) ;;
  _ <- all_known (nth F_ecdsaSigHashes v []) (t_ecdsa_hashes T) ;;
  _ <- all_known (nth F_more_sig_schemes v []) (t_sig_schemes T) ;;
  all_known (nth F_dhGroups v []) (t_all_dh T).
Definition ecdh_tail (v : list (list val)) : res unit :=
  if negb (val_in (VPair 3 3) (nth F_versions v [])) && val_in (VPair 3 4) (nth F_versions v [])
  then all_known (nth F_eccCurves v []) (t_tls13_groups T) else Ok tt.
Definition dh_rest (v : list (list val)) : res unit :=
  _ <- guard (negb (isnil (filter (fun x => negb (in_tab x (t_all_dh T)) && negb (in_tab x (t_all_curves T)))
                                  (nth F_keyShares v [])))) ;;
  guard (dhParams_bad (dhParams c)).
Lemma bind_assoc {A B C} (m : res A) (f : A -> res B) (g : B -> res C) :
  bind (bind m f) g = bind m (fun x => bind (f x) g).
Proof. destruct m; reflexivity. Qed.
Lemma dh_unfold v :
  sanityCheckDHSettings T v c = (_ <- ecdh_head v ;; _ <- ecdh_tail v ;; dh_rest v).
Proof.
  unfold sanityCheckDHSettings, sanityCheckECDHSettings, ecdh_head, ecdh_tail, dh_rest.
  repeat rewrite bind_assoc. reflexivity.
Qed.
Lemma indep_head a0 a1 a3 a4 b0 b1 b3 b4 : ecdh_head (V a0 a1 a3 a4) = ecdh_head (V b0 b1 b3 b4).
Proof. reflexivity. Qed.
Lemma indep_dhrest a0 a1 a3 a4 b0 b1 b3 b4 : dh_rest (V a0 a1 a3 a4) = dh_rest (V b0 b1 b3 b4).
Proof. reflexivity. Qed.

Lemma res_unit_ok (m : res unit) y : m = Ok y -> m = Ok tt.
Proof. destruct y. auto. Qed.

(* first block of checks is stable under shrinking the three name lists and under a versions list
   for which the TLS 1.3-only group rule holds *)
Lemma A_stable x0 x1 x3 x4 p0 p1 p3 y4 :
  cchecks_A T (V x0 x1 x3 x4) c = Ok tt ->
  ecdh_tail (V x0 x1 x3 y4) = Ok tt ->
  cchecks_A T (V (filter p0 x0) (filter p1 x1) (filter p3 x3) y4) c = Ok tt.
Proof.
  unfold cchecks_A. intros H Hy.
  apply bind_ok in H. destruct H as [[] [H1 H]].
  apply bind_ok in H. destruct H as [[] [H2 H]].
  apply bind_ok in H. destruct H as [[] [H3 H4]].
  change (nth F_certificateTypes (V (filter p0 x0) (filter p1 x1) (filter p3 x3) y4) [])
    with (nth F_certificateTypes (V x0 x1 x3 x4) []).
  rewrite H1. cbn [bind].
  rewrite (indep_keysizes _ _ _ _ x0 x1 x3 x4), H2. cbn [bind].
  rewrite H4.
  assert (P : sanityCheckPrimitivesNames T (V (filter p0 x0) (filter p1 x1) (filter p3 x3) y4) c = Ok tt);
    [|rewrite P; reflexivity].
  rewrite prim_unfold in *.
  apply bind_ok in H3. destruct H3 as [[] [C1 H3]].
  apply bind_ok in H3. destruct H3 as [[] [C2 C3]].
  assert (CS : sanityCheckCipherSettings T (V (filter p0 x0) (filter p1 x1) (filter p3 x3) y4) = Ok tt).
  { unfold sanityCheckCipherSettings in *. cbn [nth V F_cipherNames F_macNames F_keyExchangeNames F_cipherImplementations] in *.
    apply bind_ok in C1. destruct C1 as [[] [K0 C1]].
    apply bind_ok in C1. destruct C1 as [[] [K1 C1]].
    apply bind_ok in C1. destruct C1 as [[] [K2 K3]].
    rewrite (all_known_filter p0 _ _ K0). cbn [bind].
    rewrite (all_known_filter p1 _ _ K1). cbn [bind].
    rewrite K2. cbn [bind]. apply all_known_filter. exact K3. }
  rewrite CS. cbn [bind].
  assert (DH : sanityCheckDHSettings T (V (filter p0 x0) (filter p1 x1) (filter p3 x3) y4) c = Ok tt).
  { rewrite dh_unfold in *.
    apply bind_ok in C2. destruct C2 as [[] [D1 C2]].
    apply bind_ok in C2. destruct C2 as [[] [D2 D3]].
    rewrite (indep_head _ _ _ _ x0 x1 x3 x4), D1. cbn [bind].
    rewrite (indep_dhrest _ _ _ _ x0 x1 x3 x4), D3.
    assert (TL : ecdh_tail (V (filter p0 x0) (filter p1 x1) (filter p3 x3) y4) = Ok tt); [|rewrite TL; reflexivity].
    exact Hy. }
  rewrite DH. cbn [bind]. rewrite (indep_rest _ _ _ _ x0 x1 x3 x4). exact C3.
Qed.

Lemma impl_V a0 a1 a3 a4 : cstep_impl I (V a0 a1 a3 a4) = V a0 a1 (filter (impl_available I) a3) a4.
Proof. reflexivity. Qed.
Lemma nth_impl_V a0 a1 a3 a4 : nth F_cipherImplementations (V a0 a1 a3 a4) [] = a3.
Proof. reflexivity. Qed.
Lemma nth_cn_V a0 a1 a3 a4 : nth F_cipherNames (V a0 a1 a3 a4) [] = a0.
Proof. reflexivity. Qed.

Lemma ecdh_tail_rule a0 a1 a3 y4 : ecdh_tail (V a0 a1 a3 y4) = Ok tt <-> tls13_only_rule T y4 x17 = true.
Proof.
  unfold ecdh_tail, tls13_only_rule. cbn [nth V F_versions F_eccCurves].
  destruct (negb (val_in (VPair 3 3) y4) && val_in (VPair 3 4) y4); [|split; reflexivity].
  split; [apply all_known_sub|apply sub_all_known].
Qed.

Lemma idem_V x0 x1 x3 x4 v' :
  clip_stable T (V x0 x1 x3 x4) c = true ->
  cvalidate T I (V x0 x1 x3 x4) c = Ok v' -> cvalidate T I v' c = Ok v'.
Proof.
  intros CS. unfold cvalidate at 1. intros H.
  destruct (cchecks_A T (V x0 x1 x3 x4) c) as [[]|] eqn:EA; [|discriminate H].
  (* versions *)
  assert (SV : (exists y4, cstep_versions (V x0 x1 x3 x4) c = Ok (V x0 x1 x3 y4) /\
                          ecdh_tail (V x0 x1 x3 y4) = Ok tt /\
                          (forall a0 a1 a3, cstep_versions (V a0 a1 a3 y4) c = Ok (V a0 a1 a3 y4)))
               \/ exists e, cstep_versions (V x0 x1 x3 x4) c = Err e).
  { unfold clip_stable in CS. unfold cstep_versions. cbn [nth V F_versions F_eccCurves lupd] in *.
    destruct (filter_range (clip_lo (minVersion c)) (maxVersion c) x4) as [l|e] eqn:FL; [|right; exists e; reflexivity].
    left. exists l. split; [reflexivity|]. split; [apply ecdh_tail_rule; exact CS|].
    intros. rewrite (filter_range_fix _ _ _ _ FL). reflexivity. }
  destruct SV as [[y4 [SV [Hy SVfix]]]|[e SV]]; rewrite SV in H; [|discriminate H].
  destruct (sanityCheckExtensions T (V x0 x1 x3 y4) c) as [[]|] eqn:EE; [|discriminate H].
  (* macNames *)
  set (p1 := if ver_lt (maxVersion c) (3, 3) then keep_old_mac else (fun _ => true)).
  assert (SM : cstep_mac (V x0 x1 x3 x4) (V x0 x1 x3 y4) c = V x0 (filter p1 x1) x3 y4 /\
               forall a0 a3, cstep_mac (V a0 (filter p1 x1) a3 y4) (V a0 (filter p1 x1) a3 y4) c
                             = V a0 (filter p1 x1) a3 y4).
  { unfold cstep_mac, p1. cbn [nth V F_macNames lupd].
    destruct (ver_lt (maxVersion c) (3, 3)).
    - split; [reflexivity|]. intros. rewrite filter_idem. reflexivity.
    - rewrite filter_true. split; reflexivity. }
  destruct SM as [SM SMfix]. rewrite SM in H.
  destruct (cchecks_C T (V x0 (filter p1 x1) x3 y4) c) as [[]|] eqn:EC; [|discriminate H].
  (* implementations *)
  rewrite impl_V, nth_impl_V in H.
  destruct (isnil (filter (impl_available I) x3)) eqn:NI; [discriminate H|].
  (* ciphers *)
  set (p0 := if negb (i_tdes I) then not_3des else (fun _ => true)).
  assert (SC : forall a1 a3 a4, cstep_ciphers I (V x0 a1 a3 a4) = V (filter p0 x0) a1 a3 a4 /\
                                cstep_ciphers I (V (filter p0 x0) a1 a3 a4) = V (filter p0 x0) a1 a3 a4).
  { intros. unfold cstep_ciphers, p0. cbn [nth V F_cipherNames lupd].
    destruct (negb (i_tdes I)).
    - rewrite filter_idem. split; reflexivity.
    - rewrite filter_true. split; reflexivity. }
  rewrite (proj1 (SC _ _ _)), nth_cn_V in H.
  destruct (isnil (filter p0 x0)) eqn:NC; [discriminate H|]. injection H as <-.
  (* second run *)
  unfold cvalidate.
  rewrite (A_stable x0 x1 x3 x4 p0 p1 (impl_available I) y4 EA Hy).
  rewrite SVfix.
  rewrite (indep_ext _ _ _ _ x0 x1 x3 y4), EE.
  rewrite SMfix.
  rewrite (indep_C _ _ _ _ x0 (filter p1 x1) x3 y4), EC.
  rewrite impl_V, nth_impl_V, filter_idem, NI.
  rewrite (proj2 (SC _ _ _)), nth_cn_V, NC. reflexivity.
Qed.
End Core.

Lemma cvalidate_idem_stable T I v c v' :
  List.length v = NF -> clip_stable T v c = true -> cvalidate T I v c = Ok v' -> cvalidate T I v' c = Ok v'.
Proof.
  intros Len CS H.
  destruct v as [|x0 [|x1 [|x2 [|x3 [|x4 [|x5 [|x6 [|x7 [|x8 [|x9 [|x10 [|x11 [|x12 [|x13 [|x14 [|x15 [|x16
               [|x17 [|x18 [|x19 [|x20 [|x21 [|x22 r]]]]]]]]]]]]]]]]]]]]]]]; try discriminate Len.
  exact (idem_V T I c x2 x5 x6 x7 x8 x9 x10 x11 x12 x13 x14 x15 x16 x17 x18 x19 x20 x21 x0 x1 x3 x4 v' CS H).
Qed.

Lemma clip_lo_le c : ver_le (clip_lo c) (3, 3) = true.
Proof.
  unfold clip_lo. destruct (ver_lt (3, 3) c) eqn:E; [reflexivity|]. unfold ver_le. rewrite E. reflexivity.
Qed.

(* every accepted object is stable: the lower clip bound never exceeds (3,3) *)
Lemma clip_stable_ok T I v c v' :
  List.length v = NF -> cvalidate T I v c = Ok v' -> clip_stable T v c = true.
Proof.
  intros Len H. pose proof (clip_lo_le (minVersion c)) as Lo.
  destruct v as [|x0 [|x1 [|x2 [|x3 [|x4 [|x5 [|x6 [|x7 [|x8 [|x9 [|x10 [|x11 [|x12 [|x13 [|x14 [|x15 [|x16
               [|x17 [|x18 [|x19 [|x20 [|x21 [|x22 r]]]]]]]]]]]]]]]]]]]]]]]; try discriminate Len.
  change [x0; x1; x2; x3; x4; x5; x6; x7; x8; x9; x10; x11; x12; x13; x14; x15; x16; x17; x18; x19; x20; x21]
    with (V x2 x5 x6 x7 x8 x9 x10 x11 x12 x13 x14 x15 x16 x17 x18 x19 x20 x21 x0 x1 x3 x4) in *.
  unfold cvalidate in H.
  destruct (cchecks_A T (V x2 x5 x6 x7 x8 x9 x10 x11 x12 x13 x14 x15 x16 x17 x18 x19 x20 x21 x0 x1 x3 x4) c) as [[]|] eqn:EA;
    [|discriminate H]. clear H.
  unfold cchecks_A in EA.
  apply bind_ok in EA. destruct EA as [[] [_ EA]]. apply bind_ok in EA. destruct EA as [[] [_ EA]].
  apply bind_ok in EA. destruct EA as [[] [EP _]].
  rewrite prim_unfold in EP. apply bind_ok in EP. destruct EP as [[] [_ EP]]. apply bind_ok in EP. destruct EP as [[] [ED _]].
  rewrite dh_unfold in ED. apply bind_ok in ED. destruct ED as [[] [_ ED]]. apply bind_ok in ED. destruct ED as [[] [ET _]].
  apply ecdh_tail_rule in ET.
  unfold clip_stable. cbn [nth V F_versions F_eccCurves].
  destruct (filter_range (clip_lo (minVersion c)) (maxVersion c) x4) as [y|e] eqn:FL; [|reflexivity].
  unfold tls13_only_rule in *.
  rewrite (filter_range_in _ _ _ _ 3 3 FL), (filter_range_in _ _ _ _ 3 4 FL).
  destruct (val_in (VPair 3 4) x4) eqn:V34; cbn [andb]; [|rewrite andb_false_r; reflexivity].
  destruct (in_range (clip_lo (minVersion c)) (maxVersion c) 3 4) eqn:R34; [|rewrite andb_false_r; reflexivity].
  rewrite (in_range_34_33 _ _ R34 Lo), andb_true_r.
  destruct (val_in (VPair 3 3) x4); cbn [negb andb] in *; [reflexivity|exact ET].
Qed.

Lemma cvalidate_idem T I v c v' :
  List.length v = NF -> cvalidate T I v c = Ok v' -> cvalidate T I v' c = Ok v'.
Proof.
  intros Len H. eapply cvalidate_idem_stable; [exact Len| |exact H]. eapply clip_stable_ok; eassumption.
Qed.

(* ---- idempotence of the by-reference model ---------------------------------------------------- *)
Lemma validate_idempotent_heap T I h s h1 s1 :
  wf h s = true -> validate T I h s = (h1, Ok s1) ->
  exists h2 s2, validate T I h1 s1 = (h2, Ok s2) /\ view h2 s2 = view h1 s1.
Proof.
  intros W H.
  pose proof (validate_refines T I h s W) as R. rewrite H in R. destruct R as [R1 [R2 R3]].
  pose proof (validate_refines T I h1 s1 R3) as R'.
  assert (Len : List.length (lists h s) = NF) by (rewrite lists_length; apply (wf_length h s W)).
  pose proof (cvalidate_idem T I _ _ _ Len R1) as Id. rewrite <- R2 in Id.
  destruct (validate T I h1 s1) as [h2 [s2|e]].
  - exists h2, s2. split; [reflexivity|]. destruct R' as [A [B _]]. rewrite Id in A. injection A as A.
    unfold view. rewrite <- A, B. reflexivity.
  - rewrite Id in R'. discriminate R'.
Qed.
