(* C14 lemmas: one read()/poll call is a function of the messages; a poll handles exactly one
   message (KeyUpdate excepted, which is transparent); nothing is lost or duplicated. *)
From Coq Require Import ZArith List Bool Lia.
From TV Require Import Base.Prelude Model.C14_ReadLoop Proofs.C14_Transport.
Import ListNotations.
Open Scope Z_scope.

Lemma clamp_range n v : 0 <= n -> 0 <= clamp_bound n v <= n.
Proof.
  intros Hn. unfold clamp_bound.
  destruct (v <? 0); [destruct (v + n <? 0) eqn:E; [lia|destruct (n <? v + n) eqn:E2; lia]|].
  destruct (v <? 0) eqn:E; [lia|]. destruct (n <? v) eqn:E2; lia.
Qed.

Lemma py_slice_split (l : list Z) n :
  py_slice l None (Some n) ++ py_slice l (Some n) None = l.
Proof.
  unfold py_slice. pose proof (clamp_range (zlen l) n (zlen_nonneg l)) as Hc.
  set (k := clamp_bound (zlen l) n) in *.
  replace (firstn (Z.to_nat (k - 0)) (skipn (Z.to_nat 0) l)) with (firstn (Z.to_nat k) l)
    by (cbn [Z.to_nat skipn]; f_equal; lia).
  assert (H2 : firstn (Z.to_nat (zlen l - k)) (skipn (Z.to_nat k) l) = skipn (Z.to_nat k) l).
  { apply firstn_all2. rewrite skipn_length. unfold zlen in *. lia. }
  rewrite H2.
  destruct (k <=? 0) eqn:E1.
  - assert (k = 0) by lia. destruct (zlen l <=? k) eqn:E2.
    + assert (zlen l = 0) by lia. symmetry. apply zlen_nil. assumption.
    + rewrite H. cbn. reflexivity.
  - destruct (zlen l <=? k) eqn:E2.
    + assert (k = zlen l) by lia. rewrite app_nil_r. rewrite H. unfold zlen. rewrite Nat2Z.id. apply firstn_all.
    + apply firstn_skipn.
Qed.

Definition n_tickets (ms : list msg) : Z :=
  zlen (filter (fun m => match m with MTicket => true | _ => false end) ms).

Lemma n_tickets_cons m ms :
  n_tickets (m :: ms) = (match m with MTicket => 1 | _ => 0 end) + n_tickets ms.
Proof. unfold n_tickets. destruct m; cbn [filter]; unfold zlen; cbn [length]; lia. Qed.

(* conservation: what a call returns plus what stays buffered is what was buffered plus the data
   of the messages it consumed; tickets are counted once each; the rest of the messages is untouched *)
Lemma read_loop_conserves mx mn : forall ms t st,
  let '(r, st', ms') := read_loop mx mn t st ms in
  exists consumed, ms = consumed ++ ms' /\
    delivered r ++ r_buf st' = r_buf st ++ data_of consumed /\
    r_tickets st' = r_tickets st + n_tickets consumed /\
    (r = RPending -> ms' = []).
Proof.
  induction ms as [|m ms IH]; intros t st; cbn [read_loop].
  - destruct (loop_cond mn t st).
    + exists []. cbn. rewrite app_nil_r. repeat split; try reflexivity. unfold n_tickets, zlen. cbn. lia.
    + unfold finish. exists []. cbn [app data_of map concat delivered r_buf r_tickets].
      rewrite app_nil_r. split; [reflexivity|]. split; [|split].
      * destruct mx; apply py_slice_split.
      * unfold n_tickets, zlen. cbn. lia.
      * intros H; discriminate.
  - destruct (loop_cond mn t st).
    + destruct (handle m st) as [st1 t1] eqn:Eh.
      specialize (IH t1 st1). destruct (read_loop mx mn t1 st1 ms) as [[r st'] ms'].
      destruct IH as [consumed [H1 [H2 [H3 H4]]]].
      exists (m :: consumed). rewrite n_tickets_cons. split; [cbn [app]; rewrite H1; reflexivity|].
      unfold data_of in *. cbn [map concat].
      destruct m; cbn [handle] in Eh; injection Eh as E1 E2; subst st1; cbn [r_buf r_tickets] in H2, H3;
        (split; [rewrite H2; rewrite <- ?app_assoc; cbn [app]; reflexivity | split; [rewrite H3; lia | exact H4]]).
    + unfold finish. exists []. cbn [app data_of map concat delivered r_buf r_tickets].
      rewrite app_nil_r. split; [reflexivity|]. split; [|split].
      * destruct mx; apply py_slice_split.
      * unfold n_tickets, zlen. cbn. lia.
      * intros H; discriminate.
Qed.

(* a poll (min <= 0) on an empty buffer handles exactly ONE message, whatever else has arrived *)
Lemma poll_one_message mx mn m ms st :
  mn <= 0 -> r_buf st = [] -> r_closed st = false -> m <> MKeyUpdate ->
  read_call mx mn st (m :: ms) =
  (fst (finish mx (fst (handle m st))), snd (finish mx (fst (handle m st))), ms).
Proof.
  intros Hmn Hb Hc Hm. unfold read_call. cbn [read_loop].
  unfold loop_cond at 1. rewrite Hb, Hc. cbn [zlen length Z.of_nat Z.eqb andb orb negb].
  rewrite orb_true_r. cbn [andb].
  destruct (handle m st) as [st1 t1] eqn:Eh. cbn [fst].
  assert (Ht : t1 = false) by (destruct m; cbn in Eh; try congruence; injection Eh as _ <-; reflexivity).
  subst t1.
  assert (Hcond : loop_cond mn false st1 = false).
  { unfold loop_cond. rewrite andb_false_r, orb_false_r.
    pose proof (zlen_nonneg (r_buf st1)). destruct (zlen (r_buf st1) <? mn) eqn:E; [lia|reflexivity]. }
  destruct ms as [|m2 ms2]; cbn [read_loop]; rewrite Hcond; destruct (finish mx st1); reflexivity.
Qed.

(* a KeyUpdate in front is transparent: the call goes on as if it had just started *)
Lemma keyupdate_transparent mx mn ms st :
  loop_cond mn true st = true ->
  read_call mx mn st (MKeyUpdate :: ms) = read_call mx mn st ms.
Proof. intros H. unfold read_call. cbn [read_loop handle]. rewrite H. reflexivity. Qed.
