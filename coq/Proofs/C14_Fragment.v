(* C14 lemmas: the sender's fragmentation for EVERY record size k >= 1 and every message:
   the fragments concatenate to the message, each has between 1 and k bytes (a single empty
   record only for an empty message). *)
From Coq Require Import ZArith List Bool Lia.
From TV Require Import Base.Prelude Model.C14_Fragment Proofs.C14_Transport.
Import ListNotations.
Open Scope Z_scope.

Lemma fragment_fuel_spec k (Hk : 1 <= k) : forall fuel buf, (length buf <= fuel)%nat ->
  concat (fragment_fuel fuel k buf) = buf /\
  Forall (fun r => zlen r <= k) (fragment_fuel fuel k buf) /\
  (buf <> [] -> Forall (fun r => 1 <= zlen r) (fragment_fuel fuel k buf)) /\
  (buf = [] -> fragment_fuel fuel k buf = [[]]).
Proof.
  induction fuel as [|fuel IH]; intros buf Hlen.
  - destruct buf; [|cbn in Hlen; lia]. cbn. repeat split; try reflexivity.
    + repeat constructor. unfold zlen. cbn. lia.
    + intros H; contradiction.
  - cbn [fragment_fuel]. destruct (k <? zlen buf) eqn:E.
    + assert (Hl : (length (skipn (Z.to_nat k) buf) <= fuel)%nat).
      { rewrite skipn_length. unfold zlen in E. lia. }
      destruct (IH (skipn (Z.to_nat k) buf) Hl) as [I1 [I2 [I3 I4]]].
      assert (Hne : skipn (Z.to_nat k) buf <> []).
      { intros H. apply (f_equal (@length Z)) in H. rewrite skipn_length in H. cbn in H. unfold zlen in E. lia. }
      assert (Hf : zlen (firstn (Z.to_nat k) buf) = k).
      { unfold zlen in *. rewrite firstn_length. lia. }
      split; [cbn [concat]; rewrite I1; apply firstn_skipn|].
      split; [constructor; [lia|exact I2]|].
      split; [intros _; constructor; [lia|exact (I3 Hne)]|].
      intros ->. unfold zlen in E. cbn in E. lia.
    + split; [cbn; apply app_nil_r|].
      split; [repeat constructor; lia|].
      split; [|intros ->; reflexivity].
      intros Hne. repeat constructor. unfold zlen. destruct buf; [contradiction|cbn; lia].
Qed.

Lemma fragment_spec k buf : 1 <= k ->
  concat (fragment k buf) = buf /\
  Forall (fun r => zlen r <= k) (fragment k buf) /\
  (buf <> [] -> Forall (fun r => 1 <= zlen r) (fragment k buf)) /\
  (buf = [] -> fragment k buf = [[]]).
Proof. intros Hk. apply fragment_fuel_spec; [exact Hk|apply le_n]. Qed.
