(* C02: the converse direction -- every protection with legal sender choices, by a sender in
   step with the receiver, is accepted and yields the protected record. *)
From Coq Require Import ZArith List Bool Lia.
From TV Require Import Base.Prelude Spec.CbcCheck Model.C01_RecordPipe Spec.C01_Contracts
  Model.C02_RecordAccept Spec.C02_Ideal Proofs.C01_Lists Proofs.C01_Cbc Proofs.C01_RoundTrip
  Proofs.C01_Delivery Proofs.C02_Cbc Proofs.C02_Accept Proofs.C02_Reject Proofs.C02_Corollaries.
Import ListNotations.
Open Scope Z_scope.
Local Opaque be_bytes.

Section Img.
Context {CS : Type}.
Variable P : Prim CS.
Variable R : CS -> CS -> Prop.
Variable c : Cfg.

Lemma pad_legal_ok ch : pad_legal c ch -> pad_ok (c_ver c) (c_bs c) (ch_pad ch) (zlen (ch_pad ch)).
Proof. intros [_ [H _]]. split; [reflexivity|exact H]. Qed.

Lemma drop_ivb ch (x : list Z) : zlen (ch_ivb ch) = (if ver_le (3, 2) (c_ver c) then c_bs c else 0) ->
  (if ver_le (3, 2) (c_ver c) then zdrop (c_bs c) (ch_ivb ch ++ x) else ch_ivb ch ++ x) = x.
Proof.
  intros H. destruct (ver_le (3, 2) (c_ver c)).
  - apply zdrop_app_n. symmetry. exact H.
  - apply zlen_zero_nil in H. rewrite H. reflexivity.
Qed.

(* ---------------- CBC MtE, any legal padding / IV block ------------------------------------------------- *)
Lemma cbc_image_accepted (s s' r : St CS) ty data ch body :
  mode_ok P R MCbc c -> sync R s r -> pad_legal c ch ->
  mte_body_with c P s ty data ch = ROk (s', body) ->
  exists r', decrypt_then_mac c P r ty body = ROk (r', data) /\ sync R s' r'.
Proof.
  intros [_ [[Hv [_ [_ [Hm [Hml Hds]]]]] [_ [Henc [Hb1 [Hbs [Hciph _]]]]]]] [HR [Hseq H0]] Hleg Hp.
  pose proof Hleg as [Hp255 [Hpadl Hivl]].
  unfold mte_body_with in Hp.
  apply rbind_ok_inv in Hp. destruct Hp as [[s1 d1] [Ham Hp]].
  unfold append_mac in Ham. rewrite Hm in Ham.
  apply rbind_ok_inv in Ham. destruct Ham as [[seqb s2] [Hns Ham]].
  apply next_seq_inv in Hns. destruct Hns as [Hrange [-> ->]].
  apply rbind_ok_inv in Ham. destruct Ham as [t [Hcm Ham]].
  apply (calc_mac_inv c) in Hcm. destruct Hcm as [Hb [_ [Hl Ht]]].
  injection Ham as <- <-.
  rewrite Henc, Hb1 in Hp. cbn [andb] in Hp.
  destruct (zlen (cbc_padded ch (data ++ t)) mod c_bs c =? 0) eqn:Emod; [|discriminate]. cbn [negb] in Hp.
  apply Z.eqb_eq in Emod. injection Hp as <- <-. cbn [st_cs set_cs st_seq].
  set (d2 := cbc_padded ch (data ++ t)) in *.
  destruct (Hciph (st_cs s) (st_cs r) d2 HR Emod) as [Hdec [Hclen HR']].
  assert (Htl : zlen t = ds P) by (rewrite Ht; apply Hml).
  unfold decrypt_then_mac. rewrite Hv, Hb1, Hm. cbn [negb andb].
  rewrite Hclen, Emod. cbn [Z.eqb negb]. rewrite Hdec.
  assert (Hd1 : (if ver_le (3, 2) (c_ver c) then zdrop (c_bs c) d2 else d2)
                = data ++ t ++ ch_pad ch ++ [zlen (ch_pad ch)]).
  { unfold d2, cbc_padded. rewrite <- !app_assoc. apply drop_ivb. exact Hivl. }
  rewrite Hd1.
  rewrite next_seq_ok by (cbn [set_cs st_seq]; lia). cbn [rbind set_cs st_cs st_seq].
  rewrite Hb. cbn [negb]. rewrite <- Hseq.
  rewrite well_formed_intro.
  - unfold ds. rewrite (strip_intro (pr_mac P)).
    + eexists. split; [reflexivity|]. unfold sync. cbn [set_cs st_cs st_seq]. split; [exact HR'|]. split; lia.
    + exact Htl.
    + reflexivity.
  - exact Htl.
  - apply pad_legal_ok. exact Hleg.
  - unfold tag_of. exact Ht.
Qed.

(* ---------------- EtM, any legal padding / IV block ------------------------------------------------------ *)
Lemma etm_padding_general data padb : 0 <= zlen padb ->
  (is_ssl3 (c_ver c) = true \/ Forall (fun b => b = zlen padb) padb) ->
  etm_padding_ok c (data ++ padb ++ [zlen padb]) = true.
Proof.
  intros Hp Hpad. unfold etm_padding_ok. cbv zeta.
  replace (last_byte (data ++ padb ++ [zlen padb])) with (zlen padb) by (rewrite app_assoc, last_byte_snoc; reflexivity).
  assert (Hn : zlen (data ++ padb ++ [zlen padb]) = zlen data + zlen padb + 1).
  { rewrite !zlen_app. change (zlen [zlen padb]) with 1. lia. }
  rewrite Hn. pose proof (zlen_nonneg data).
  apply andb_true_iff. split; [apply Z.leb_le; lia|].
  apply orb_true_iff. destruct Hpad as [Hs|Hf]; [left; exact Hs|right].
  replace (zlen data + zlen padb + 1 - (zlen padb + 1)) with (zlen data) by lia.
  rewrite zdrop_app_exact, ztake_app_exact.
  apply forallb_forall. intros x Hx. rewrite Forall_forall in Hf. apply Z.eqb_eq. auto.
Qed.

Lemma etm_image_accepted (s s' r : St CS) ty data ch body :
  mode_ok P R MEtm c -> sync R s r -> (c_has_enc c = true -> pad_legal_etm c ch) ->
  etm_body_with c P s ty data ch = ROk (s', body) ->
  exists r', mac_then_decrypt c P r ty body = ROk (r', data) /\ sync R s' r'.
Proof.
  intros [_ [[Hv [_ [_ [Hm [Hml Hds]]]]] [_ Hblk0]]] [HR [Hseq H0]] Hleg Hp.
  unfold etm_body_with in Hp.
  apply rbind_ok_inv in Hp. destruct Hp as [[s1 ct] [He Hp]].
  unfold append_mac in Hp. rewrite Hm in Hp.
  apply rbind_ok_inv in Hp. destruct Hp as [[seqb s2] [Hns Hp]].
  apply next_seq_inv in Hns. destruct Hns as [Hrange [-> ->]].
  apply rbind_ok_inv in Hp. destruct Hp as [t [Hcm Hp]].
  apply (calc_mac_inv c) in Hcm. destruct Hcm as [Hb [_ [Hl Ht]]].
  injection Hp as <- <-.
  assert (Htl : zlen t = ds P) by (rewrite Ht; apply Hml).
  unfold mac_then_decrypt. rewrite Hm, zlen_app, Htl. pose proof (zlen_nonneg ct) as Hc0.
  destruct (zlen ct + ds P <? ds P) eqn:E0; [lia|].
  replace (zlen ct + ds P - ds P) with (zlen ct) by lia.
  destruct (c_has_enc c) eqn:Henc.
  - specialize (Hblk0 eq_refl). destruct Hblk0 as [Hb1 [Hbs [Hciph _]]].
    destruct (Hleg eq_refl) as [Hp255 [Hpadl Hivl]].
    destruct (zlen (cbc_padded ch data) mod c_bs c =? 0) eqn:Emod; [|discriminate]. cbn [negb] in He.
    apply Z.eqb_eq in Emod. injection He as <- <-.
    set (d2 := cbc_padded ch data) in *.
    destruct (Hciph (st_cs s) (st_cs r) d2 HR Emod) as [Hdec [Hclen HR']].
    cbn [set_cs st_seq st_cs] in *.
    rewrite next_seq_ok by lia. cbn [rbind].
    rewrite ztake_app_exact, zdrop_app_exact.
    rewrite calc_mac_ok by (try assumption; lia). cbn [rbind].
    rewrite <- Hseq, <- Ht, list_eqb_refl. cbn [rbind st_cs].
    rewrite Hclen, Emod. cbn [Z.eqb negb]. rewrite Hdec.
    assert (Hd1 : (if ver_le (3, 2) (c_ver c) then zdrop (c_bs c) d2 else d2)
                  = data ++ ch_pad ch ++ [zlen (ch_pad ch)]).
    { unfold d2, cbc_padded. apply drop_ivb. exact Hivl. }
    rewrite Hd1.
    assert (Hn : zlen (data ++ ch_pad ch ++ [zlen (ch_pad ch)]) = zlen data + zlen (ch_pad ch) + 1).
    { rewrite !zlen_app. change (zlen [zlen (ch_pad ch)]) with 1. lia. }
    rewrite Hn. pose proof (zlen_nonneg data). pose proof (zlen_nonneg (ch_pad ch)).
    destruct (zlen data + zlen (ch_pad ch) + 1 =? 0) eqn:Ez; [lia|].
    rewrite etm_padding_general by (try lia; exact Hpadl).
    replace (last_byte (data ++ ch_pad ch ++ [zlen (ch_pad ch)])) with (zlen (ch_pad ch))
      by (rewrite app_assoc, last_byte_snoc; reflexivity).
    replace (zlen data + zlen (ch_pad ch) + 1 - (zlen (ch_pad ch) + 1)) with (zlen data) by lia.
    rewrite ztake_app_exact.
    eexists. split; [reflexivity|]. unfold sync. cbn [set_cs st_cs st_seq]. split; [exact HR'|]. split; lia.
  - injection He as <- <-.
    rewrite next_seq_ok by lia. cbn [rbind].
    rewrite ztake_app_exact, zdrop_app_exact.
    rewrite calc_mac_ok by (try assumption; lia). cbn [rbind].
    rewrite <- Hseq, <- Ht, list_eqb_refl. cbn [rbind].
    eexists. split; [reflexivity|]. unfold sync. cbn [set_cs st_cs st_seq]. split; [exact HR|]. split; lia.
Qed.

(* ---------------- TLS 1.2 AEAD, any explicit nonce ------------------------------------------------------------ *)
Lemma aead12_image_accepted (s s' r : St CS) ty hver data ch body :
  mode_ok P R MAead12 c -> sync R s r -> (explicit_nonce c = true -> zlen (ch_nonce ch) = 8) ->
  aead_body_with c P s ty data ch = ROk (s', body) ->
  exists r', decrypt_and_unseal c P r (ty, hver, body) = ROk (r', data) /\ sync R s' r'.
Proof.
  intros [_ [Hv [H13 [Henc [Haead [Hok [Htag [Hnl Hxe]]]]]]]] [HR [Hseq H0]] Hch Hp.
  assert (Hn13 : is_tls13_plus c = false) by (unfold is_tls13_plus; rewrite Hv; reflexivity).
  unfold aead_body_with in Hp.
  apply rbind_ok_inv in Hp. destruct Hp as [[seqb s2] [Hns Hp]].
  apply next_seq_inv in Hns. destruct Hns as [Hrange [-> ->]].
  rewrite Hn13 in Hp.
  destruct (is_byte ty && is_byte (zlen data / 256)) eqn:Eb; [|discriminate]. cbn [negb] in Hp.
  apply rbind_ok_inv in Hp. destruct Hp as [nonce [Hno Hp]]. injection Hp as <- <-.
  destruct (Hok nonce data (aad12 c (be_bytes 8 (st_seq s)) ty (zlen data))) as [Hopen Hslen].
  set (ct := pr_seal P nonce data (aad12 c (be_bytes 8 (st_seq s)) ty (zlen data))) in *.
  pose proof (zlen_nonneg data) as Hd0.
  unfold decrypt_and_unseal. rewrite next_seq_ok by lia. cbn [rbind]. rewrite <- Hseq.
  destruct (explicit_nonce c) eqn:Ee.
  - specialize (Hch eq_refl). injection Hno as <-.
    rewrite zlen_app, Hch. pose proof (zlen_nonneg ct).
    destruct (8 >? 8 + zlen ct) eqn:E8; [lia|]. cbn [rbind].
    rewrite ztake_app_n, zdrop_app_n by (symmetry; exact Hch).
    destruct (c_tag c >? zlen ct) eqn:Et; [lia|]. rewrite Hn13, Hslen.
    replace (zlen data + c_tag c - c_tag c) with (zlen data) by lia. rewrite Eb. cbn [negb rbind].
    fold ct. rewrite Hopen.
    eexists. split; [reflexivity|]. unfold sync. cbn [st_cs st_seq]. split; [exact HR|]. split; lia.
  - rewrite Hno. cbn [rbind].
    destruct (c_tag c >? zlen ct) eqn:Et; [lia|]. rewrite Hn13, Hslen.
    replace (zlen data + c_tag c - c_tag c) with (zlen data) by lia. rewrite Eb. cbn [negb rbind].
    fold ct. rewrite Hopen.
    eexists. split; [reflexivity|]. unfold sync. cbn [st_cs st_seq]. split; [exact HR|]. split; lia.
Qed.
End Img.

(* ---- through the dispatchers: acceptance set = image of protect_with (TLS <= 1.2) ---------------------- *)
Section Iff.
Context {CS : Type}.
Variable P : Prim CS.
Variable R : CS -> CS -> Prop.
Variable c : Cfg.

Lemma unprotect_size (r r' : St CS) hty hver body x :
  unprotect c P r (hty, hver, body) = ROk (r', x) -> zlen body <= c_recv_limit c + 2048.
Proof.
  unfold unprotect. destruct (zlen body >? c_recv_limit c + 2048) eqn:E; [discriminate|]. intros _. lia.
Qed.

Lemma unprotect_of_path md (r r' : St CS) hty hver body p :
  md <> MTls13 -> mode_ok P R md c -> zlen body <= c_recv_limit c + 2048 -> zlen p <= c_recv_limit c ->
  match md with
  | MStream => decrypt_stream_then_mac c P r hty body
  | MCbc => decrypt_then_mac c P r hty body
  | MEtm => mac_then_decrypt c P r hty body
  | _ => decrypt_and_unseal c P r (hty, hver, body)
  end = ROk (r', p) ->
  unprotect c P r (hty, hver, body) = ROk (r', (hty, p)).
Proof.
  intros Hmd Hmode Hb Hp Hpath. unfold unprotect.
  destruct (zlen body >? c_recv_limit c + 2048) eqn:E1; [lia|].
  destruct md; [| | | |contradiction].
  - destruct Hmode as [_ [Hleg [Hetm [Hblk _]]]]. pose proof (legacy_not13 c P Hleg) as Hn13.
    destruct Hleg as [_ [H13 [Ha _]]]. rewrite H13, Hn13, Ha, Hetm, Hblk. cbn [andb]. rewrite !andb_false_r.
    rewrite Hpath. cbn [rbind]. destruct (zlen p >? c_recv_limit c) eqn:E2; [lia|]. reflexivity.
  - destruct Hmode as [_ [Hleg [Hetm [Henc [Hblk _]]]]]. pose proof (legacy_not13 c P Hleg) as Hn13.
    destruct Hleg as [_ [H13 [Ha _]]]. rewrite H13, Hn13, Ha, Hetm, Hblk, Henc. cbn [andb].
    rewrite Hpath. cbn [rbind]. destruct (zlen p >? c_recv_limit c) eqn:E2; [lia|]. reflexivity.
  - destruct Hmode as [_ [Hleg [Hetm _]]]. pose proof (legacy_not13 c P Hleg) as Hn13.
    destruct Hleg as [_ [H13 [Ha _]]]. rewrite H13, Hn13, Ha, Hetm. cbn [andb]. rewrite !andb_false_r.
    rewrite Hpath. cbn [rbind]. destruct (zlen p >? c_recv_limit c) eqn:E2; [lia|]. reflexivity.
  - destruct Hmode as [_ [Hv [H13 [Henc [Haead _]]]]].
    assert (Hn13 : is_tls13_plus c = false) by (unfold is_tls13_plus; rewrite Hv; reflexivity).
    rewrite H13, Hn13, Henc, Haead. cbn [andb].
    rewrite Hpath. cbn [rbind]. destruct (zlen p >? c_recv_limit c) eqn:E2; [lia|]. reflexivity.
Qed.

Lemma protect_with_path md (s s' : St CS) ty p ch hver w :
  md <> MTls13 -> mode_ok P R md c -> protect_with c P s (ty, p) ch hver = ROk (s', w) ->
  w = (ty, hver, snd w) /\
  match md with
  | MStream => mac_then_encrypt c P s ty p
  | MCbc => mte_body_with c P s ty p ch
  | MEtm => etm_body_with c P s ty p ch
  | _ => aead_body_with c P s ty p ch
  end = ROk (s', snd w).
Proof.
  intros Hmd Hmode H. unfold protect_with in H.
  assert (Hn13 : is_tls13_plus c = false /\ ver_lt (3, 3) (c_ver c) = false).
  { destruct md; [| | | |contradiction].
    - destruct Hmode as [_ [Hleg _]]. split; [apply (legacy_not13 c P Hleg)|]. destruct Hleg as [Hv _]. apply ver_macable_not13. exact Hv.
    - destruct Hmode as [_ [Hleg _]]. split; [apply (legacy_not13 c P Hleg)|]. destruct Hleg as [Hv _]. apply ver_macable_not13. exact Hv.
    - destruct Hmode as [_ [Hleg _]]. split; [apply (legacy_not13 c P Hleg)|]. destruct Hleg as [Hv _]. apply ver_macable_not13. exact Hv.
    - destruct Hmode as [_ [Hv _]]. unfold is_tls13_plus. rewrite Hv. auto. }
  destruct Hn13 as [Hn13 Hvl]. rewrite Hn13, Hvl in H. cbn [andb] in H.
  apply rbind_ok_inv in H. destruct H as [[s1 body] [Hb H]]. injection H as <- <-. cbn [snd].
  split; [reflexivity|].
  destruct md; [| | | |contradiction].
  - destruct Hmode as [_ [[_ [_ [Ha _]]] [Hetm [Hblk _]]]]. rewrite Ha, Hetm in Hb. rewrite andb_false_r in Hb.
    rewrite (mte_body_with_stream P c) in Hb by exact Hblk. exact Hb.
  - destruct Hmode as [_ [[_ [_ [Ha _]]] [Hetm _]]]. rewrite Ha, Hetm in Hb. rewrite andb_false_r in Hb. exact Hb.
  - destruct Hmode as [_ [[_ [_ [Ha _]]] [Hetm _]]]. rewrite Ha, Hetm in Hb. rewrite andb_false_r in Hb. exact Hb.
  - destruct Hmode as [_ [_ [_ [Henc [Haead _]]]]]. rewrite Henc, Haead in Hb. exact Hb.
Qed.

Theorem image_accepted_legacy md (s s' r : St CS) ty p ch hver w :
  md <> MTls13 -> mode_ok P R md c -> sync R s r -> choice_legal c md ch ->
  zlen (snd w) <= c_recv_limit c + 2048 -> zlen p <= c_recv_limit c ->
  protect_with c P s (ty, p) ch hver = ROk (s', w) ->
  exists r', unprotect c P r w = ROk (r', (ty, p)) /\ sync R s' r'.
Proof.
  intros Hmd Hmode Hsync Hleg Hb Hp Hpw.
  destruct (protect_with_path md s s' ty p ch hver w Hmd Hmode Hpw) as [Hw Hpath].
  rewrite Hw. destruct md; [| | | |contradiction].
  - (* stream: no choice, C01's round trip *)
    pose proof Hmode as [[_ [_ Hl3]] [[_ [_ [_ [Hm _]]]] _]].
    unfold mac_then_encrypt in Hpath.
    assert (Hfacts : is_byte ty = true /\ st_seq s < 18446744073709551616).
    { apply rbind_ok_inv in Hpath. destruct Hpath as [[s1 d1] [Ham _]]. unfold append_mac in Ham. rewrite Hm in Ham.
      apply rbind_ok_inv in Ham. destruct Ham as [[seqb s2] [Hns Ham]]. apply next_seq_inv in Hns.
      apply rbind_ok_inv in Ham. destruct Ham as [t [Hcm _]]. apply (calc_mac_inv c) in Hcm. split; [tauto|lia]. }
    destruct Hfacts as [Hbt Hsq].
    destruct (stream_rt P R c s r ty p Hmode Hsync Hbt ltac:(lia) Hsq) as [s2 [b2 [r' [A [_ [B [C _]]]]]]].
    fold (mac_then_encrypt c P s ty p) in Hpath. rewrite Hpath in A. injection A as <- <-.
    exists r'. split; [|exact C].
    apply (unprotect_of_path MStream r r' ty hver (snd w) p); auto.
  - destruct (cbc_image_accepted P R c s s' r ty p ch (snd w) Hmode Hsync Hleg Hpath) as [r' [A B]].
    exists r'. split; [|exact B]. apply (unprotect_of_path MCbc r r' ty hver (snd w) p); auto.
  - destruct (etm_image_accepted P R c s s' r ty p ch (snd w) Hmode Hsync Hleg Hpath) as [r' [A B]].
    exists r'. split; [|exact B]. apply (unprotect_of_path MEtm r r' ty hver (snd w) p); auto.
  - destruct (aead12_image_accepted P R c s s' r ty hver p ch (snd w) Hmode Hsync Hleg Hpath) as [r' [A B]].
    exists r'. split; [|exact B]. apply (unprotect_of_path MAead12 r r' ty hver (snd w) p); auto.
Qed.

(* acceptance set = image (TLS <= 1.2, every path) *)
Theorem accept_iff_image_legacy md (s r : St CS) hty hver body ty p :
  md <> MTls13 -> mode_ok P R md c -> onto_ok P R c md -> dec_bytes P -> bytes_list body -> zlen body < 65536 ->
  sync R s r ->
  ((exists r', unprotect c P r (hty, hver, body) = ROk (r', (ty, p))) <->
   (zlen body <= c_recv_limit c + 2048 /\ zlen p <= c_recv_limit c /\
    exists ch s', choice_legal c md ch /\ protect_with c P s (ty, p) ch hver = ROk (s', (hty, hver, body)))).
Proof.
  intros Hmd Hmode Honto Hdb Hbb Hb16 Hsync. split.
  - intros [r' H]. pose proof (unprotect_size r r' hty hver body (ty, p) H) as Hsz.
    destruct (accept_in_image_legacy P R c md s r r' hty hver body ty p Hmd Hmode Honto Hdb Hbb Hb16 Hsync H)
      as [ch [s' [A [B [_ [_ C]]]]]].
    split; [exact Hsz|]. split; [exact C|]. eauto.
  - intros [Hsz [Hp [ch [s' [A B]]]]].
    destruct (image_accepted_legacy md s s' r ty p ch hver (hty, hver, body) Hmd Hmode Hsync A Hsz Hp B) as [r' [C _]].
    eauto.
Qed.
End Iff.

(* ---- TLS 1.3: acceptance set = image, for every amount of zero padding ------------------------------------ *)
Section Iff13.
Context {CS : Type}.
Variable P : Prim CS.
Variable R : CS -> CS -> Prop.
Variable c : Cfg.

Lemma protect_with_tls13 (s : St CS) ty data ch : mode_ok P R MTls13 c -> ty <> 20 ->
  protect_with c P s (ty, data) ch (3, 3) =
  ('(s1, body) <~ aead_body_with c P s 23 (data ++ [ty] ++ zeros (ch_zeros ch)) ch ;; ROk (s1, (23, (3, 3), body))).
Proof.
  intros [_ [Hv [H13 [Henc [Haead _]]]]] H20.
  assert (Ht13 : is_tls13_plus c = true) by (unfold is_tls13_plus; rewrite Hv, H13; reflexivity).
  unfold protect_with. rewrite Ht13, Henc.
  destruct (ty =? 20) eqn:E; [apply Z.eqb_eq in E; contradiction|]. cbn [andb negb].
  rewrite Hv. change (ver_lt (3, 3) (3, 4)) with true. change (23 =? 20) with false. cbn [andb].
  rewrite Haead. cbn [andb]. reflexivity.
Qed.

Lemma aead_body_tls13 (s : St CS) inner ch : mode_ok P R MTls13 c ->
  0 <= st_seq s < 18446744073709551616 -> zlen inner + c_tag c < 65536 ->
  exists nonce, get_nonce c (be_bytes 8 (st_seq s)) = ROk nonce /\
    aead_body_with c P s 23 inner ch =
      ROk ({| st_cs := st_cs s; st_seq := st_seq s + 1 |},
           pr_seal P nonce inner (aad13 23 (3, 3) (zlen inner + c_tag c))).
Proof.
  intros [_ [Hv [H13 [Henc [Haead [Hok [Htag [Hnl [Hn8 _]]]]]]]]] Hs Hl.
  assert (Ht13 : is_tls13_plus c = true) by (unfold is_tls13_plus; rewrite Hv, H13; reflexivity).
  assert (Hexp : explicit_nonce c = false) by (unfold explicit_nonce; rewrite Ht13; apply andb_false_r).
  assert (Hux : uses_xor_nonce c = true) by (unfold uses_xor_nonce; rewrite Ht13; apply orb_true_r).
  assert (Hgn : exists nonce, get_nonce c (be_bytes 8 (st_seq s)) = ROk nonce).
  { unfold get_nonce. rewrite Hux, zlen_be_bytes. change (Z.of_nat 8) with 8.
    destruct (zlen (c_fixed_nonce c) <? 8) eqn:E; [lia|]. eauto. }
  destruct Hgn as [nonce Hgn]. exists nonce. split; [exact Hgn|].
  unfold aead_body_with. rewrite next_seq_ok by lia. cbn [rbind]. rewrite Ht13.
  pose proof (zlen_nonneg inner).
  change (is_byte 23) with true. rewrite (div256_byte (zlen inner + c_tag c)) by lia. cbn [andb negb].
  rewrite Hexp, Hgn. cbn [rbind]. reflexivity.
Qed.

Theorem accept_iff_image_tls13_l (s r : St CS) body ty data :
  mode_ok P R MTls13 c -> aead_tight P -> sync R s r -> zlen body < 65536 ->
  ((exists r', unprotect c P r (23, (3, 3), body) = ROk (r', (ty, data))) <->
   ((ty <> 0 /\ ty <> 20) /\ zlen data <= c_recv_limit c /\ st_seq s < 18446744073709551616 /\
    exists k s', 0 <= k /\ zlen data + 1 + k <= c_recv_limit c + 1 /\
      protect_with c P s (ty, data) {| ch_pad := []; ch_ivb := []; ch_nonce := []; ch_zeros := k |} (3, 3)
        = ROk (s', (23, (3, 3), body)))).
Proof.
  intros Hmode Htight Hsync Hb16. pose proof Hsync as [HR [Hseq H0]].
  pose proof Hmode as [[Hl1 [Hl2 Hl3]] [Hv [H13 [Henc [Haead [Hok [Htag [Hnl [Hn8 _]]]]]]]]].
  assert (Ht13 : is_tls13_plus c = true) by (unfold is_tls13_plus; rewrite Hv, H13; reflexivity).
  assert (Hexp : explicit_nonce c = false) by (unfold explicit_nonce; rewrite Ht13; apply andb_false_r).
  split.
  - intros [r' H].
    destruct (tls13_accept P R c s r r' (3, 3) body ty data Hmode Htight Hsync H)
      as [_ [Hty [Hdl [k [nonce [Hk [Hkl [Hgn [Hbody [Hsy Hsq]]]]]]]]]].
    assert (Hsr : st_seq s < 18446744073709551616).
    { (* the receiver consumed a sequence number *)
      destruct (unprotect_inv_tls13 R c P r r' (3, 3) body ty data Hmode H) as [inner [A _]].
      unfold decrypt_and_unseal in A. apply rbind_ok_inv in A. destruct A as [[sb s2] [Hns _]].
      apply next_seq_inv in Hns. lia. }
    split; [exact Hty|]. split; [exact Hdl|]. split; [exact Hsr|]. destruct Hty as [Hty H20].
    exists k. eexists. split; [exact Hk|]. split; [exact Hkl|].
    rewrite (protect_with_tls13 s ty data _ Hmode H20). cbn [ch_zeros].
    set (inner := data ++ [ty] ++ zeros k) in *.
    destruct (Hok nonce inner (aad13 23 (3, 3) (zlen body))) as [_ Hsl]. rewrite <- Hbody in Hsl.
    destruct (aead_body_tls13 s inner {| ch_pad := []; ch_ivb := []; ch_nonce := []; ch_zeros := k |} Hmode ltac:(lia) ltac:(lia))
      as [n2 [Hg2 Hab]].
    rewrite Hseq in Hg2. rewrite Hgn in Hg2. injection Hg2 as <-.
    rewrite Hab. cbn [rbind]. rewrite <- Hsl, <- Hbody. reflexivity.
  - intros [[Hty H20] [Hdl [Hsr [k [s' [Hk [Hkl Hpw]]]]]]].
    rewrite (protect_with_tls13 s ty data _ Hmode H20) in Hpw. cbn [ch_zeros] in Hpw.
    set (inner := data ++ [ty] ++ zeros k) in *.
    assert (Hil : zlen inner = zlen data + 1 + k).
    { unfold inner. rewrite !zlen_app, zlen_zeros by lia. change (zlen [ty]) with 1. lia. }
    pose proof (zlen_nonneg data) as Hd0.
    destruct (aead_body_tls13 s inner {| ch_pad := []; ch_ivb := []; ch_nonce := []; ch_zeros := k |} Hmode ltac:(lia) ltac:(lia))
      as [nonce [Hgn Hab]].
    rewrite Hab in Hpw. cbn [rbind] in Hpw. injection Hpw as <- Hbody.
    destruct (Hok nonce inner (aad13 23 (3, 3) (zlen inner + c_tag c))) as [Hopen Hsl].
    rewrite Hbody in Hopen, Hsl.
    unfold unprotect.
    destruct (zlen body >? c_recv_limit c + 2048) eqn:E1; [lia|]. rewrite H13. cbn [andb].
    destruct (zlen body >? c_recv_limit c + 256) eqn:E2; [lia|].
    rewrite Ht13, Henc, Haead. change (23 =? 20) with false. change (23 =? 21) with false. cbn [andb].
    rewrite ?andb_false_r. cbn [andb].
    unfold decrypt_and_unseal. rewrite next_seq_ok by lia. cbn [rbind]. rewrite Hexp, <- Hseq, Hgn. cbn [rbind].
    destruct (c_tag c >? zlen body) eqn:E3; [lia|]. rewrite Ht13.
    change (23 =? 23) with true. change (pairZ_eqb (3, 3) (3, 3)) with true. cbn [negb rbind].
    replace (zlen inner + c_tag c) with (zlen body) in Hopen by lia. rewrite Hopen. cbn [rbind].
    destruct (zlen inner >? c_recv_limit c + 1) eqn:E4; [lia|].
    unfold inner. rewrite de_pad_spec by exact Hty. cbn [rbind].
    destruct (ty =? 20) eqn:E20; [apply Z.eqb_eq in E20; contradiction|]. cbn [rbind].
    destruct (zlen data >? c_recv_limit c) eqn:E5; [lia|]. eauto.
Qed.
End Iff13.
