(* The contracts of Spec/C01_Contracts.v are satisfiable: they hold of the toy primitives
   used by the byte-exact correspondence (stream cipher, AEAD, MAC) and of the identity
   "cipher" for every block size. *)
From Coq Require Import ZArith List Bool Lia.
From TV Require Import Base.Prelude Spec.CbcCheck Toy.ToyMac Model.C01_RecordPipe Toy.C01_ToyCipher
  Spec.C01_Contracts Proofs.C01_Lists.
Import ListNotations.
Open Scope Z_scope.

Lemma tm_out_length fuel : forall h n, (Z.to_nat n < fuel)%nat -> zlen (tm_out fuel h n) = Z.max 0 n.
Proof.
  induction fuel as [|f IH]; intros h n Hf; [lia|]. cbn [tm_out].
  destruct (n <=? 0) eqn:E; [rewrite zlen_nil; lia|].
  rewrite zlen_app. unfold zlen at 1. rewrite map_length, firstn_length. cbn [length].
  destruct (Z_le_gt_dec n 4).
  - rewrite IH by lia. lia.
  - rewrite IH by lia. lia.
Qed.

Lemma toy2_mac_length key n msg : 0 <= n -> zlen (toy2_mac key n msg) = n.
Proof. intros H. unfold toy2_mac. rewrite tm_out_length by lia. lia. Qed.

Lemma ts_run_involutive x : forall h,
  snd (ts_run h (snd (ts_run h x))) = x /\ fst (ts_run h (snd (ts_run h x))) = fst (ts_run h x) /\
  length (snd (ts_run h x)) = length x.
Proof.
  induction x as [|b t IH]; intros h; cbn [ts_run fst snd]; [auto|].
  destruct (IH (ts_step h)) as [H1 [H2 H3]]. cbn [length]. rewrite H1, H2, H3.
  rewrite Z.lxor_assoc, Z.lxor_nilpotent, Z.lxor_0_r. auto.
Qed.

Lemma toy_stream_cipher_ok mk mds mbs : cipher_ok (toy_prim_stream mk mds mbs) eq 1.
Proof.
  intros s r x <- _. cbn [toy_prim_stream pr_enc pr_dec]. unfold ts_crypt. cbn [fst snd].
  destruct (ts_run_involutive x (nthZ s 0)) as [H1 [H2 H3]].
  split; [exact H1|]. split; [unfold zlen; rewrite H3; reflexivity|]. rewrite H2. reflexivity.
Qed.

(* identity cipher: every block size *)
Definition id_prim (mac : HMac) (seal : list Z -> list Z -> list Z -> list Z)
           (opn : list Z -> list Z -> list Z -> option (list Z)) : Prim unit :=
  {| pr_enc := fun s x => (s, x); pr_dec := fun s x => (s, x); pr_mac := mac; pr_seal := seal; pr_open := opn |}.

Lemma id_cipher_ok mac sl op bs : cipher_ok (id_prim mac sl op) eq bs.
Proof. intros s r x <- _. cbn. auto. Qed.

Lemma id_cipher_onto mac sl op bs : cipher_onto (id_prim mac sl op) eq bs.
Proof. intros s r x <- _. cbn. auto. Qed.

Lemma toy_mac_ok_id key n bs sl op : 0 <= n -> mac_ok (id_prim (toy_hmac key n bs) sl op).
Proof. intros H m. unfold ds. cbn. apply toy_mac_length. exact H. Qed.

(* the toy AEAD opens what it sealed *)
Lemma toy_aead_ok key tl : 0 <= tl -> aead_ok (toy_prim_aead key tl) tl.
Proof.
  intros Htl n p a. cbn [toy_prim_aead pr_seal pr_open]. unfold ta_seal, ta_open.
  set (ct := snd (ts_run (ta_ks0 key n) p)).
  assert (Htag : zlen (ta_tag key tl n a ct) = tl) by (apply toy2_mac_length; exact Htl).
  assert (Hct : zlen ct = zlen p).
  { unfold zlen, ct. destruct (ts_run_involutive p (ta_ks0 key n)) as [_ [_ H]]. rewrite H. reflexivity. }
  rewrite zlen_app, Htag. replace (zlen ct + tl - tl) with (zlen ct) by lia.
  pose proof (zlen_nonneg ct).
  destruct (zlen ct <? 0) eqn:E; [lia|].
  rewrite ztake_app_exact, zdrop_app_exact, list_eqb_refl.
  split; [|lia]. f_equal. unfold ct. apply ts_run_involutive.
Qed.

Lemma id_aead_ok key tl mac : 0 <= tl -> aead_ok (id_prim mac (ta_seal key tl) (ta_open key tl)) tl.
Proof. intros H. exact (toy_aead_ok key tl H). Qed.

(* ---- concrete configurations meeting mode_ok (one per protection path) ------------------------- *)
Definition ex_cfg (ver : Z * Z) (enc mac blk aead etm aes chacha : bool) (bs tag nl : Z) (fn fiv : list Z)
           (cb : option (Z -> Z -> Z -> Z)) : Cfg :=
  {| c_ver := ver; c_tls13 := ver_lt (3, 3) ver; c_has_enc := enc; c_has_mac := mac; c_block := blk;
     c_aead := aead; c_etm := etm; c_bs := bs; c_aes := aes; c_chacha := chacha; c_tag := tag;
     c_nonce_len := nl; c_fixed_nonce := fn; c_fixed_iv := fiv; c_send_limit := 16384;
     c_recv_limit := 16384; c_pad_cb := cb; c_plain_alert := false |}.

Definition ex_stream := ex_cfg (3, 1) true true false false false false false 0 0 0 [] [] None.
Definition ex_cbc := ex_cfg (3, 2) true true true false false false false 16 0 0 [] (repeat 7 16) None.
Definition ex_etm := ex_cfg (3, 3) true true true false true false false 16 0 0 [] (repeat 9 16) None.
Definition ex_gcm := ex_cfg (3, 3) true false false true false true false 16 16 12 [1; 2; 3; 4] [] None.
Definition ex_chacha := ex_cfg (3, 3) true false false true false false true 16 16 12 (repeat 5 12) [] None.
Definition ex_tls13 := ex_cfg (3, 4) true false false true false true false 16 16 12 (repeat 6 12) []
                              (Some (fun l _ m => Z.max 0 (Z.min m ((16 - l mod 16) mod 16)))).

Definition ex_mac := toy_hmac [1; 2; 3] 20 64.
Definition ex_prim_stream := toy_prim_stream [1; 2; 3] 20 64.
Definition ex_prim_id := id_prim ex_mac (ta_seal [4; 5] 16) (ta_open [4; 5] 16).

Lemma ex_legacy_ok {CS} (P : Prim CS) c : pr_mac P = ex_mac \/ pr_mac P = toy2_hmac [1; 2; 3] 20 64 ->
  ver_macable (c_ver c) = true ->
  c_tls13 c = false -> c_aead c = false -> c_has_mac c = true -> legacy_ok P c.
Proof.
  intros Hm Hv H13 Ha Hmc. unfold legacy_ok.
  split; [assumption|]. split; [assumption|]. split; [assumption|]. split; [assumption|]. split.
  - intros m. unfold ds. destruct Hm as [Hm|Hm]; rewrite Hm.
    + change (zlen (toy_mac [1; 2; 3] 20 m) = 20). apply toy_mac_length. lia.
    + change (zlen (toy2_mac [1; 2; 3] 20 m) = 20). apply toy2_mac_length. lia.
  - unfold ds. destruct Hm as [Hm|Hm]; rewrite Hm; cbn; lia.
Qed.

Lemma ex_stream_ok : mode_ok ex_prim_stream eq MStream ex_stream.
Proof.
  split; [unfold limits_ok; repeat split; apply Z.leb_le; reflexivity|]. split; [apply ex_legacy_ok; try reflexivity; right; reflexivity|].
  split; [reflexivity|]. split; [reflexivity|]. intros _. apply toy_stream_cipher_ok.
Qed.

Lemma ex_legacy_ok_id c : ver_macable (c_ver c) = true ->
  c_tls13 c = false -> c_aead c = false -> c_has_mac c = true -> legacy_ok ex_prim_id c.
Proof.
  intros Hv H13 Ha Hmc. apply ex_legacy_ok; auto.
Qed.

Lemma ex_block_ok c : c_block c = true -> c_bs c = 16 ->
  (ver_le (3, 2) (c_ver c) = true -> zlen (c_fixed_iv c) = 16) -> block_ok ex_prim_id eq c.
Proof.
  intros Hb Hbs Hiv. unfold block_ok. rewrite Hbs.
  split; [assumption|]. split; [lia|]. split; [apply id_cipher_ok|assumption].
Qed.

Lemma ex_cbc_ok : mode_ok ex_prim_id eq MCbc ex_cbc.
Proof.
  split; [unfold limits_ok; repeat split; apply Z.leb_le; reflexivity|]. split; [apply ex_legacy_ok_id; reflexivity|].
  split; [reflexivity|]. split; [reflexivity|]. apply ex_block_ok; reflexivity.
Qed.

Lemma ex_etm_ok : mode_ok ex_prim_id eq MEtm ex_etm.
Proof.
  split; [unfold limits_ok; repeat split; apply Z.leb_le; reflexivity|]. split; [apply ex_legacy_ok_id; reflexivity|].
  split; [reflexivity|]. intros _. apply ex_block_ok; reflexivity.
Qed.

Lemma ex_gcm_ok : mode_ok ex_prim_id eq MAead12 ex_gcm.
Proof.
  split; [unfold limits_ok; repeat split; apply Z.leb_le; reflexivity|].
  split; [reflexivity|]. split; [reflexivity|]. split; [reflexivity|]. split; [reflexivity|].
  split; [apply (id_aead_ok [4; 5] 16 ex_mac); lia|].
  split; [cbn; lia|]. split; [reflexivity|]. vm_compute. intros H; try discriminate H; reflexivity.
Qed.

Lemma ex_chacha_ok : mode_ok ex_prim_id eq MAead12 ex_chacha.
Proof.
  split; [unfold limits_ok; repeat split; apply Z.leb_le; reflexivity|].
  split; [reflexivity|]. split; [reflexivity|]. split; [reflexivity|]. split; [reflexivity|].
  split; [apply (id_aead_ok [4; 5] 16 ex_mac); lia|].
  split; [cbn; lia|]. split; [reflexivity|]. vm_compute. intros H; try discriminate H; reflexivity.
Qed.

Lemma ex_tls13_ok : mode_ok ex_prim_id eq MTls13 ex_tls13.
Proof.
  split; [unfold limits_ok; repeat split; apply Z.leb_le; reflexivity|].
  split; [reflexivity|]. split; [reflexivity|]. split; [reflexivity|]. split; [reflexivity|].
  split; [apply (id_aead_ok [4; 5] 16 ex_mac); lia|].
  split; [cbn; lia|]. split; [reflexivity|]. split; [cbn; lia|].
  cbn [ex_tls13 ex_cfg c_pad_cb pad_cb_ok]. intros l ty m. lia.
Qed.
