(* C15 -- the statements exported by Props/C15.v, in their final form. *)
From Coq Require Import ZArith List Bool Lia.
From TV Require Import Base.Prelude Model.C15_Codec Model.C15_Fmt Model.C15_Messages
  Proofs.C15_Codec Proofs.C15_Fmt Proofs.C15_Messages.
Import ListNotations.
Open Scope Z_scope.

Lemma decode_encode_top f v bs :
  wf_fmt f -> encode f v = Ok bs -> decode f bs = Ok (v, []).
Proof. intros W H. apply (decode_encode_gen f W v bs H). Qed.

Lemma decode_encode_delim_top f v bs r :
  wf_fmt f -> delim f -> encode f v = Ok bs -> decode f (bs ++ r) = Ok (v, r).
Proof. intros W D H. apply (proj2 (decode_encode_gen f W v bs H) D). Qed.

Lemma encode_decode_top f bs v r :
  wf_fmt f -> all_bytes bs = true -> decode f bs = Ok (v, r) ->
  exists pre, bs = pre ++ r /\ encode f v = Ok pre.
Proof. intros W B H. apply all_bytes_iff in B. eapply encode_decode_gen; eauto. Qed.

Lemma encode_never_truncates_top f v :
  ((exists bs, encode f v = Ok bs) <-> wf_val f v) /\
  (~ wf_val f v -> is_ok (encode f v) = false) /\
  (forall bs, encode f v = Ok bs -> zlen bs = vsize f v).
Proof.
  split; [apply encode_ok_iff_wf_val|]. split; [apply encode_not_fitting|apply encode_size].
Qed.

Lemma writer_never_wraps_top w x n :
  (forall w', w_add w x n = Ok w' <-> (0 <= n /\ 0 <= x < 256 ^ n) /\ w' = w ++ be_bytes (Z.to_nat n) x) /\
  (~ (0 <= n /\ 0 <= x < 256 ^ n) -> w_add w x n = Err ValueError) /\
  (forall d, 256 ^ n <= zlen d -> w_add_var_bytes w d n = Err ValueError).
Proof.
  split; [intros w'; apply w_add_ok|]. split; [apply w_add_overflow|intros d; apply w_add_var_bytes_overflow].
Qed.

Lemma decode_strict_top f :
  wf_fmt f ->
  (* the only failure is DecodeError (in particular the repetition never runs out of fuel) *)
  (forall bs e, decode f bs = Err e -> e = DecodeError) /\
  (* what is consumed is a prefix of the input *)
  (forall bs v r, decode f bs = Ok (v, r) -> exists pre, bs = pre ++ r) /\
  (* self-delimiting formats: the result depends on the consumed bytes only, and no
     strict prefix of them is accepted *)
  (delim f -> forall pre r v, decode f (pre ++ r) = Ok (v, r) ->
     (forall r', decode f (pre ++ r') = Ok (v, r')) /\
     (forall k, (k < length pre)%nat -> decode f (firstn k pre) = Err DecodeError)).
Proof.
  intros W. split; [apply decode_err; exact W|]. split; [apply decode_prefix; exact W|].
  intros D pre r v H. split.
  - destruct (decode_prefix_det f W _ _ _ H) as [p0 [EQ K]]. apply app_inv_tail in EQ. subst p0.
    apply K. exact D.
  - apply (decode_truncated f W D pre r v H).
Qed.

Lemma bounded_strict_top ll f :
  wf_fmt f -> 0 < ll ->
  (* accepted => length field, exactly that many bytes, wholly consumed by the body *)
  (forall bs v r, decode (FBounded ll f) bs = Ok (v, r) ->
     exists lb body, bs = lb ++ body ++ r /\ zlen lb = ll /\ zlen body = be_val lb /\
                     decode f body = Ok (v, [])) /\
  (* a declared length that differs from what the (self-delimiting) body needs is rejected:
     shorter = truncated body, longer = trailing bytes inside the structure *)
  (delim f -> forall enc v, decode f enc = Ok (v, []) ->
     forall n rest, 0 <= n < 256 ^ ll -> n <> zlen enc ->
     decode (FBounded ll f) (be_bytes (Z.to_nat ll) n ++ enc ++ rest) = Err DecodeError).
Proof.
  intros W Hl. split; [intros bs v r; apply bounded_inv|].
  intros D. apply bounded_length_mismatch; assumption.
Qed.

Lemma messages_wf_top :
  wf_fmt fmt_RecordHeader3 /\ wf_fmt fmt_Alert /\ wf_fmt fmt_ChangeCipherSpec /\ wf_fmt fmt_Heartbeat /\
  wf_fmt fmt_KeyUpdate /\ wf_fmt fmt_HelloRequest /\ wf_fmt fmt_ServerHelloDone /\
  wf_fmt fmt_ClientHello /\ wf_fmt fmt_ServerHello /\ wf_fmt fmt_EncryptedExtensions /\
  wf_fmt fmt_Certificate12 /\ wf_fmt fmt_Certificate13 /\
  (forall b, wf_fmt (fmt_CertificateRequest b)) /\ wf_fmt fmt_CertificateRequest13 /\
  (forall b, wf_fmt (fmt_CertificateVerify b)) /\ wf_fmt fmt_CertificateStatus /\
  (forall k s, wf_fmt (fmt_ServerKeyExchange k s)) /\ (forall k b, wf_fmt (fmt_ClientKeyExchange k b)) /\
  (forall n, 0 <= n -> wf_fmt (fmt_Finished n)) /\ wf_fmt fmt_NextProtocol /\
  wf_fmt fmt_NewSessionTicket13 /\ wf_fmt fmt_NewSessionTicket10 /\ wf_fmt fmt_SessionTicketPayload /\
  wf_fmt fmt_CompressedCertificate /\ wf_fmt fmt_RecordHeader2 /\ wf_fmt fmt_ClientHelloSSL2 /\
  (forall c, wf_fmt (fmt_Ext c) /\ delim (fmt_Ext c)).
Proof.
  split; [exact wf_RecordHeader3|].
  split; [exact wf_Alert|].
  split; [exact wf_ChangeCipherSpec|].
  split; [exact wf_Heartbeat|].
  split; [exact wf_KeyUpdate|].
  split; [exact wf_HelloRequest|].
  split; [exact wf_ServerHelloDone|].
  split; [exact wf_ClientHello|].
  split; [exact wf_ServerHello|].
  split; [exact wf_EncryptedExtensions|].
  split; [exact wf_Certificate12|].
  split; [exact wf_Certificate13|].
  split; [exact wf_CertificateRequest|].
  split; [exact wf_CertificateRequest13|].
  split; [exact wf_CertificateVerify|].
  split; [exact wf_CertificateStatus|].
  split; [exact wf_ServerKeyExchange|].
  split; [exact wf_ClientKeyExchange|].
  split; [exact wf_Finished|].
  split; [exact wf_NextProtocol|].
  split; [exact wf_NewSessionTicket13|].
  split; [exact wf_NewSessionTicket10|].
  split; [exact wf_SessionTicketPayload|].
  split; [exact wf_CompressedCertificate|].
  split; [exact wf_RecordHeader2|].
  split; [exact wf_ClientHelloSSL2|].
  intros c. split; [apply wf_Ext|apply delim_Ext].
Qed.

Lemma get_add_top a x n w c :
  w_add a x n = Ok w ->
  exists p', p_get (mkParser (w ++ c) (zlen a) 0 0) n = Ok (x, p') /\ pindex p' = zlen w /\ pbytes p' = w ++ c.
Proof. apply get_add. Qed.

(* the decoder clauses are the Parser primitives applied to the remaining input *)
Lemma decode_is_parser_top a r ic lc n :
  0 <= n ->
  (p_get (at_pos a r ic lc) n =
     match decode (FU n) r with
     | Ok (VInt x, r') => Ok (x, mkParser (a ++ r) (zlen a + n) ic lc)
     | Ok _ => Err TypeError
     | Err e => Err e end) /\
  (p_getFixBytes (at_pos a r ic lc) n =
     match decode (FFix n) r with
     | Ok (VBytes x, r') => Ok (x, mkParser (a ++ r) (zlen a + n) ic lc)
     | Ok _ => Err TypeError
     | Err e => Err e end).
Proof.
  intros Hn. rewrite p_get_take, p_getFixBytes_take by exact Hn. cbn [decode]. unfold take.
  destruct (0 <=? n) eqn:E0; [|lia]. cbn [andb].
  destruct (n <=? zlen r); cbn [bind]; split; reflexivity.
Qed.

(* distinct values never share an encoding (None vs [] vs [x], b"" vs absent, ...) *)
Lemma encode_injective_top f v1 v2 bs :
  wf_fmt f -> encode f v1 = Ok bs -> encode f v2 = Ok bs -> v1 = v2.
Proof.
  intros W H1 H2. pose proof (decode_encode_top f v1 bs W H1) as D1.
  pose proof (decode_encode_top f v2 bs W H2) as D2. congruence.
Qed.

(* RecordHeader2 through its API view (length, padding, securityEscape) *)
Lemma rh2_roundtrip_top len pad esc :
  (* what fits: encodes, decodes back to the same wire value, and parse() reports the same fields *)
  (forall v, rh2_val len pad esc = Some v ->
     (exists bs, encode fmt_RecordHeader2 v = Ok bs /\ decode fmt_RecordHeader2 bs = Ok (v, [])) /\
     rh2_fields v = Some (len, pad, esc)) /\
  (* what is refused: exactly a length that needs more bits than the header form has (15 bits in
     the 2-byte form, 14 bits in the 3-byte form), or a padding that is not a byte *)
  (rh2_val len pad esc = None <->
     ~ (0 <= len /\ if rh2_short pad esc then len < 32768 else len < 16384 /\ 0 <= pad < 256)).
Proof.
  split.
  - intros v H. split; [|apply (rh2_fields_val _ _ _ _ H)].
    pose proof (rh2_val_wf _ _ _ _ H) as W. apply encode_ok_iff_wf_val in W. destruct W as [bs Hb].
    exists bs. split; [exact Hb|]. apply (decode_encode_top _ _ _ wf_RecordHeader2 Hb).
  - unfold rh2_val. destruct (rh2_short pad esc).
    + destruct ((0 <=? len) && (len <? 32768)) eqn:E.
      * split; [discriminate|]. intros N. exfalso. apply N. lia.
      * split; [|reflexivity]. intros _ [A B]. lia.
    + destruct ((0 <=? len) && (len <? 16384) && (0 <=? pad) && (pad <? 256)) eqn:E.
      * split; [discriminate|]. intros N. exfalso. apply N. lia.
      * split; [|reflexivity]. intros _ [A [B C]]. lia.
Qed.
