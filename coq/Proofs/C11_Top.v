(* C11 -- the headline reading of decrypt_eq_spec in terms of the PKCS#1 format *)
From Coq Require Import String ZArith List Bool Lia.
From TV Require Import Base.Prelude Base.C11_Lib Gen.C11_RsaDecrypt Spec.C11_Pkcs1Dec
  Proofs.C11_LibFacts Proofs.C11_Decrypt Proofs.C11_Format.
Import ListNotations.
Open Scope Z_scope.

Lemma decrypt_by_format_all hash hmac raw n d cache enc :
  (forall k m, zlen (hmac k m) = 32) -> (forall k m, all_bytes (hmac k m) = true) ->
  (forall m, 0 <= raw m) -> 11 <= numBytes n <= 65535 -> 0 <= d -> cache_ok hash n d cache ->
  zlen enc = numBytes n -> bytesToNumber enc < n ->
  let k := numBytes n in
  let em := be_bytes (Z.to_nat k) (raw (bytesToNumber enc)) in
  let kdk := hmac (hash (be_bytes (Z.to_nat k) d)) enc in
  (forall M, pkcs1_format em M -> decrypt hash hmac raw true n d "rsa"%string cache enc = Ok (Some M)) /\
  ((forall M, ~ pkcs1_format em M) ->
     decrypt hash hmac raw true n d "rsa"%string cache enc =
     Ok (Some (skipn (Z.to_nat (k - synth_len k (prf_spec hmac kdk label_length 2048)))
                     (prf_spec hmac kdk label_message (k * 8))))).
Proof.
  intros H1 H2 R Hk Hd Hc A B. cbv zeta.
  rewrite (decrypt_eq_spec_all hash hmac raw H1 H2 R n d cache enc Hk Hd Hc).
  unfold spec_decrypt. destruct (zlen enc =? numBytes n) eqn:E1; [|lia].
  destruct (bytesToNumber enc <? n) eqn:E2; [|lia]. cbn [andb]. cbv zeta. unfold spec_decrypt_em.
  split.
  - intros M F. apply unpad_iff_format in F. rewrite F. reflexivity.
  - intros NF. destruct (pkcs1_unpad _) as [M|] eqn:U; [|reflexivity].
    exfalso. apply (NF M). apply unpad_iff_format. exact U.
Qed.

(* ---- statements of Props/C11.v with their hypotheses packaged ------------------------- *)
Definition hmac_ok (hmac : list Z -> list Z -> list Z) : Prop :=
  (forall k m, zlen (hmac k m) = 32) /\ (forall k m, all_bytes (hmac k m) = true).
Definition key_size_ok (n : Z) : Prop := 11 <= numBytes n <= 65535.

Lemma decrypt_eq_spec_w : forall hash hmac raw n d cache enc,
  hmac_ok hmac -> (forall m, 0 <= raw m) -> key_size_ok n -> 0 <= d -> cache_ok hash n d cache ->
  decrypt hash hmac raw true n d "rsa"%string cache enc = Ok (spec_decrypt hash hmac raw n d enc).
Proof. intros hash hmac raw n d cache enc [H1 H2] R K D. exact (decrypt_eq_spec_all hash hmac raw H1 H2 R n d cache enc K D). Qed.

Lemma decrypt_total_w : forall hash hmac raw n d cache enc,
  hmac_ok hmac -> (forall m, 0 <= raw m) -> key_size_ok n -> 0 <= d -> cache_ok hash n d cache ->
  (zlen enc = numBytes n /\ bytesToNumber enc < n ->
     exists m, decrypt hash hmac raw true n d "rsa"%string cache enc = Ok (Some m) /\ all_bytes m = true
               /\ zlen m <= numBytes n - 11) /\
  (~ (zlen enc = numBytes n /\ bytesToNumber enc < n) ->
     decrypt hash hmac raw true n d "rsa"%string cache enc = Ok None).
Proof. intros hash hmac raw n d cache enc [H1 H2] R K D. exact (decrypt_total_all hash hmac raw H1 H2 R n d cache enc K D). Qed.

Lemma decrypt_by_format_w : forall hash hmac raw n d cache enc,
  hmac_ok hmac -> (forall m, 0 <= raw m) -> key_size_ok n -> 0 <= d -> cache_ok hash n d cache ->
  zlen enc = numBytes n -> bytesToNumber enc < n ->
  let k := numBytes n in
  let em := be_bytes (Z.to_nat k) (raw (bytesToNumber enc)) in
  let kdk := hmac (hash (be_bytes (Z.to_nat k) d)) enc in
  (forall M, pkcs1_format em M -> decrypt hash hmac raw true n d "rsa"%string cache enc = Ok (Some M)) /\
  ((forall M, ~ pkcs1_format em M) ->
     decrypt hash hmac raw true n d "rsa"%string cache enc =
     Ok (Some (skipn (Z.to_nat (k - synth_len k (prf_spec hmac kdk label_length 2048)))
                     (prf_spec hmac kdk label_message (k * 8))))).
Proof. intros hash hmac raw n d cache enc [H1 H2]. exact (decrypt_by_format_all hash hmac raw n d cache enc H1 H2). Qed.

Lemma synthetic_independent_of_defect_w : forall hash hmac raw1 raw2 n d cache enc,
  hmac_ok hmac -> (forall m, 0 <= raw1 m) -> (forall m, 0 <= raw2 m) -> key_size_ok n -> 0 <= d -> cache_ok hash n d cache ->
  pkcs1_unpad (be_bytes (Z.to_nat (numBytes n)) (raw1 (bytesToNumber enc))) = None ->
  pkcs1_unpad (be_bytes (Z.to_nat (numBytes n)) (raw2 (bytesToNumber enc))) = None ->
  decrypt hash hmac raw1 true n d "rsa"%string cache enc = decrypt hash hmac raw2 true n d "rsa"%string cache enc.
Proof. intros hash hmac raw1 raw2 n d cache enc [H1 H2]. exact (synthetic_independent_all hash hmac raw1 raw2 n d cache enc H1 H2). Qed.

Lemma invalid_length_independent_of_defect_w : forall hash hmac raw n d cache enc,
  hmac_ok hmac -> (forall m, 0 <= raw m) -> key_size_ok n -> 0 <= d -> cache_ok hash n d cache ->
  zlen enc = numBytes n -> bytesToNumber enc < n ->
  pkcs1_unpad (be_bytes (Z.to_nat (numBytes n)) (raw (bytesToNumber enc))) = None ->
  exists m, decrypt hash hmac raw true n d "rsa"%string cache enc = Ok (Some m) /\
            zlen m = synth_len (numBytes n)
                       (prf_spec hmac (hmac (hash (be_bytes (Z.to_nat (numBytes n)) d)) enc) label_length 2048).
Proof. intros hash hmac raw n d cache enc [H1 H2]. exact (invalid_result_length hash hmac raw n d cache enc H1 H2). Qed.

Lemma dec_prf_is_prf_w : forall hmac key label L,
  hmac_ok hmac -> 0 <= L -> L mod 8 = 0 ->
  dec_prf hmac key label L = Ok (prf_spec hmac key label L).
Proof. intros hmac key label L [H1 H2]. exact (dec_prf_spec hmac H1 H2 key label L). Qed.
