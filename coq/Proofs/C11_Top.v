(* C11 -- the headline reading of decrypt_eq_spec in terms of the PKCS#1 format *)
From Coq Require Import String ZArith List Bool Lia.
From TV Require Import Base.Prelude Base.C11_Lib Gen.C11_RsaDecrypt Spec.C11_Pkcs1Dec
  Proofs.C11_LibFacts Proofs.C11_Decrypt Proofs.C11_Format.
Import ListNotations.
Open Scope Z_scope.

Lemma decrypt_by_format_all hash hmac raw n d enc :
  (forall k m, zlen (hmac k m) = 32) -> (forall k m, all_bytes (hmac k m) = true) ->
  (forall m, 0 <= raw m) -> 11 <= numBytes n <= 65535 -> 0 <= d ->
  zlen enc = numBytes n -> bytesToNumber enc < n ->
  let k := numBytes n in
  let em := be_bytes (Z.to_nat k) (raw (bytesToNumber enc)) in
  let kdk := hmac (hash (be_bytes (Z.to_nat k) d)) enc in
  (forall M, pkcs1_format em M -> decrypt hash hmac raw true n d "rsa"%string enc = Ok (Some M)) /\
  ((forall M, ~ pkcs1_format em M) ->
     decrypt hash hmac raw true n d "rsa"%string enc =
     Ok (Some (skipn (Z.to_nat (k - synth_len k (prf_spec hmac kdk label_length 2048)))
                     (prf_spec hmac kdk label_message (k * 8))))).
Proof.
  intros H1 H2 R Hk Hd A B. cbv zeta.
  rewrite (decrypt_eq_spec_all hash hmac raw H1 H2 R n d enc Hk Hd).
  unfold spec_decrypt. destruct (zlen enc =? numBytes n) eqn:E1; [|lia].
  destruct (bytesToNumber enc <? n) eqn:E2; [|lia]. cbn [andb]. cbv zeta. unfold spec_decrypt_em.
  split.
  - intros M F. apply unpad_iff_format in F. rewrite F. reflexivity.
  - intros NF. destruct (pkcs1_unpad _) as [M|] eqn:U; [|reflexivity].
    exfalso. apply (NF M). apply unpad_iff_format. exact U.
Qed.
