(* C04 -- a toy instance of the idealised primitives: the hypotheses H_ideal_hash and
   H_ideal_prf of Proofs/C04_Tamper.v are satisfiable.  hash = an injective
   (prefix-free) serialisation of the transcript term, fin = the tuple itself:
   this is the free term algebra written as byte strings. *)
From Coq Require Import ZArith List Bool Lia.
From TV Require Import Base.Prelude Model.C04_Tamper Model.C04_Toy.
Import ListNotations.
Open Scope Z_scope.

Definition pf {A} (e : A -> list Z) : Prop :=
  forall x y r r', e x ++ r = e y ++ r' -> x = y /\ r = r'.


Lemma pf_Z : pf eZ.
Proof. intros x y r r' H. cbn in H. injection H as -> ->. split; reflexivity. Qed.

Lemma pf_B : pf eB.
Proof. intros x y r r' H. cbn in H. injection H as H ->. split; [|reflexivity]. destruct x, y; congruence. Qed.

Lemma pf_pair {A B} (e1 : A -> list Z) (e2 : B -> list Z) : pf e1 -> pf e2 -> pf (ePair e1 e2).
Proof.
  intros H1 H2 [a b] [a' b'] r r' H. unfold ePair in H. cbn [fst snd] in H.
  rewrite <- !app_assoc in H. apply H1 in H. destruct H as [-> H]. apply H2 in H. destruct H as [-> ->].
  split; reflexivity.
Qed.

Lemma pf_flat {A} (e : A -> list Z) : pf e ->
  forall l l' r r', length l = length l' -> flat_map e l ++ r = flat_map e l' ++ r' -> l = l' /\ r = r'.
Proof.
  intros He l. induction l as [|x xs IH]; intros [|y ys] r r' Hl H; cbn in Hl; try discriminate.
  - cbn in H. split; [reflexivity|exact H].
  - cbn [flat_map] in H. rewrite <- !app_assoc in H. apply He in H. destruct H as [-> H].
    apply IH in H; [|lia]. destruct H as [-> ->]. split; reflexivity.
Qed.

Lemma pf_list {A} (e : A -> list Z) : pf e -> pf (eList e).
Proof.
  intros He l l' r r' H. unfold eList in H. cbn [app] in H. injection H as Hl H.
  apply Nat2Z.inj in Hl. apply (pf_flat e He); assumption.
Qed.

Lemma pf_map {A B} (f : A -> B) (e : B -> list Z) : (forall x y, f x = f y -> x = y) -> pf e -> pf (fun x => e (f x)).
Proof. intros Hf He x y r r' H. apply He in H. destruct H as [H ->]. split; [apply Hf; exact H|reflexivity]. Qed.


Lemma pf_ext : pf eExt.
Proof. apply pf_pair; [apply pf_Z|apply pf_list, pf_Z]. Qed.

Lemma pf_CH : pf eCH.
Proof.
  unfold eCH. apply (pf_map ch_tuple).
  - intros [] [] H. unfold ch_tuple in H. cbn in H. injection H. intros. subst. reflexivity.
  - repeat (apply pf_pair; [first [apply pf_Z | apply pf_list, pf_Z]|]).
    apply pf_pair; [apply pf_list, pf_ext|apply pf_list, pf_list, pf_Z].
Qed.

Lemma pf_SH : pf eSH.
Proof.
  unfold eSH. apply (pf_map sh_tuple).
  - intros [] [] H. unfold sh_tuple in H. cbn in H. injection H. intros. subst. reflexivity.
  - repeat (apply pf_pair; [first [apply pf_Z | apply pf_B]|]).
    apply pf_list, pf_ext.
Qed.


Lemma cons_eq_inv (a b : Z) l l' : a :: l = b :: l' -> a = b /\ l = l'.
Proof. intros H. split; [exact (f_equal (hd 0) H) | exact (f_equal (@tl Z) H)]. Qed.

Lemma pf_msg : pf eMsg.
Proof.
  intros x y r r' H.
  destruct x, y; cbn [eMsg] in H; rewrite <- !app_comm_cons in H; apply cons_eq_inv in H;
    destruct H as [Htag H]; try discriminate Htag.
  - apply pf_CH in H. destruct H as [-> ->]. split; reflexivity.
  - apply pf_SH in H. destruct H as [-> ->]. split; reflexivity.
  - apply (pf_list eZ pf_Z) in H. destruct H as [-> ->]. split; reflexivity.
  - apply cons_eq_inv in H. destruct H as [-> H]. cbn [app] in H. apply cons_eq_inv in H. destruct H as [-> ->]. split; reflexivity.
  - apply (pf_list eZ pf_Z) in H. destruct H as [-> ->]. split; reflexivity.
Qed.


Lemma toy_hash_ideal a t a' t' : toy_hash a t = toy_hash a' t' -> a = a' /\ t = t'.
Proof.
  unfold toy_hash. intros H. apply cons_eq_inv in H. destruct H as [-> H]. split; [reflexivity|].
  assert (H' : eList eMsg t ++ [] = eList eMsg t' ++ []) by (rewrite !app_nil_r; exact H).
  apply (pf_list eMsg pf_msg) in H'. destruct H' as [-> _]. reflexivity.
Qed.

Lemma toy_fin_ideal k l d k' l' d' : toy_fin k l d = toy_fin k' l' d' -> k = k' /\ l = l' /\ d = d'.
Proof.
  unfold toy_fin. intros H. apply cons_eq_inv in H. destruct H as [-> H].
  apply cons_eq_inv in H. destruct H as [-> ->]. repeat split.
Qed.
