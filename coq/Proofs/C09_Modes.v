(* RC4 (generated code = spec, stream splitting, decrypt o encrypt), CBC and CTR mode lemmas. *)
From Coq Require Import ZArith List Bool Lia.
From TV Require Import Base.Prelude Base.C09_Lib Base.C09_Oracle Gen.C09_RC4 Gen.C09_AesModes
  Spec.C09_Poly1305 Spec.C09_Modes Proofs.C09_Lists Toy.C09_ToyOracle.
Import ListNotations.
Open Scope Z_scope.

(* ---- RC4 ---------------------------------------------------------------------------------- *)
Definition rc4_state_ok (st : list Z * Z * Z) : Prop :=
  let '(Sb, i, j) := st in
  length Sb = 256%nat /\ Forall (fun x => 0 <= x < 256) Sb /\ 0 <= i < 256 /\ 0 <= j < 256.

Lemma nthZ_range Sb k : Forall (fun x => 0 <= x < 256) Sb -> 0 <= nthZ Sb k < 256.
Proof. intros H. apply (Forall_nth_Z (fun x => 0 <= x < 256) Sb k H). lia. Qed.

Lemma swap_ok Sb i j : length Sb = 256%nat -> Forall (fun x => 0 <= x < 256) Sb ->
  length (swap Sb i j) = 256%nat /\ Forall (fun x => 0 <= x < 256) (swap Sb i j).
Proof.
  intros L F. unfold swap. split; [rewrite !set_nth_length; exact L|].
  repeat apply set_nth_Forall; try assumption; apply nthZ_range; assumption.
Qed.

Lemma rc4_step_ok st : rc4_state_ok st -> rc4_state_ok (fst (rc4_step st)) /\ 0 <= snd (rc4_step st) < 256.
Proof.
  destruct st as [[Sb i] j]. intros (L & F & Hi & Hj). unfold rc4_step. cbv zeta. cbn [fst snd].
  destruct (swap_ok Sb ((i + 1) mod 256) ((j + nthZ Sb ((i + 1) mod 256)) mod 256) L F) as [L' F'].
  split; [|apply nthZ_range; exact F'].
  unfold rc4_state_ok. repeat split; try assumption; try (apply Z.mod_pos_bound; lia).
Qed.

(* one iteration of the generated loop body *)
Lemma is_byte_range x : 0 <= x < 256 -> is_byte x = true.
Proof. intros H. unfold is_byte. apply andb_true_iff. split; [apply Z.leb_le|apply Z.ltb_lt]; lia. Qed.

Lemma lxor_range a b : 0 <= a < 256 -> 0 <= b < 256 -> 0 <= Z.lxor a b < 256.
Proof.
  intros Ha Hb. split; [apply Z.lxor_nonneg; lia|].
  destruct (Z.eq_dec (Z.lxor a b) 0) as [->|Hne]; [lia|].
  assert (Hp : 0 < Z.lxor a b) by (pose proof (proj2 (Z.lxor_nonneg a b)); lia).
  change 256 with (2 ^ 8). apply Z.log2_lt_pow2; [exact Hp|].
  eapply Z.le_lt_trans; [apply Z.log2_lxor; lia|].
  apply Z.max_lub_lt.
  - destruct (Z.eq_dec a 0) as [->|]; [cbn; lia|]. apply Z.log2_lt_pow2; [lia|]. change (2 ^ 8) with 256. lia.
  - destruct (Z.eq_dec b 0) as [->|]; [cbn; lia|]. apply Z.log2_lt_pow2; [lia|]. change (2 ^ 8) with 256. lia.
Qed.

Definition rc4_body := (fun '(i, j, self_S, ciphertextBytes) x =>
    let i := (Z.modulo (Z.add i 1) 256) in
    t2_ <- py_index self_S i ;;
    let j := (Z.modulo (Z.add j t2_) 256) in
    t3_ <- py_index self_S j ;;
    t4_ <- py_index self_S i ;;
    let t5_ := t3_ in
    let t6_ := t4_ in
    self_S <- py_store self_S i t5_ ;;
    self_S <- py_store self_S j t6_ ;;
    t7_ <- py_index self_S i ;;
    t8_ <- py_index self_S j ;;
    let t := (Z.modulo (Z.add t7_ t8_) 256) in
    t9_ <- py_index ciphertextBytes x ;;
    t10_ <- py_index self_S t ;;
    ciphertextBytes <- py_store_b ciphertextBytes x (Z.lxor t9_ t10_) ;;
    @Ok (Z * Z * list Z * list Z) (i, j, self_S, ciphertextBytes)).

Lemma rc4_encrypt_unfold st pt :
  rc4_encrypt st pt =
  ('(i, j, S', ct) <- foldM rc4_body (zrange 0 (zlen pt)) (rc4_i st, rc4_j st, rc4_S st, pt) ;;
   Ok (mkRC4 S' i j, ct)).
Proof. reflexivity. Qed.

Lemma rc4_body_ok Sb i j pre b suf : rc4_state_ok (Sb, i, j) -> 0 <= b < 256 ->
  rc4_body (i, j, Sb, pre ++ b :: suf) (zlen pre) =
  let '((S', i', j'), k) := rc4_step (Sb, i, j) in Ok (i', j', S', pre ++ Z.lxor b k :: suf).
Proof.
  intros (L & F & Hi & Hj) Hb. unfold rc4_body, rc4_step. cbv zeta.
  assert (Hz : zlen Sb = 256) by (unfold zlen; lia).
  set (i' := (i + 1) mod 256). assert (Hi' : 0 <= i' < 256) by (apply Z.mod_pos_bound; lia).
  rewrite py_index_ok by lia. rewrite bind_ok.
  set (j' := (j + nthZ Sb i') mod 256). assert (Hj' : 0 <= j' < 256) by (apply Z.mod_pos_bound; lia).
  rewrite !py_index_ok by lia. rewrite !bind_ok.
  rewrite py_store_ok by lia. rewrite bind_ok.
  rewrite py_store_ok by (unfold zlen; rewrite set_nth_length; lia). rewrite bind_ok.
  fold (swap Sb i' j').
  destruct (swap_ok Sb i' j' L F) as [L' F'].
  assert (Hz' : zlen (swap Sb i' j') = 256) by (unfold zlen; lia).
  rewrite !py_index_ok by lia. rewrite !bind_ok.
  set (t := (nthZ (swap Sb i' j') i' + nthZ (swap Sb i' j') j') mod 256).
  assert (Ht : 0 <= t < 256) by (apply Z.mod_pos_bound; lia).
  assert (Ep : py_index (pre ++ b :: suf) (zlen pre) = Ok b).
  { rewrite py_index_ok by (rewrite zlen_app, zlen_cons; pose proof (zlen_nonneg pre); pose proof (zlen_nonneg suf); lia).
    f_equal. unfold nthZ, zlen. rewrite Nat2Z.id. rewrite app_nth2 by lia. rewrite Nat.sub_diag. reflexivity. }
  rewrite Ep, bind_ok. rewrite py_index_ok by lia. rewrite bind_ok.
  unfold py_store_b. rewrite is_byte_range by (apply lxor_range; [exact Hb|apply nthZ_range; exact F']).
  assert (Es : forall v, py_store (pre ++ b :: suf) (zlen pre) v = Ok (pre ++ v :: suf)).
  { intros v. rewrite py_store_ok by (rewrite zlen_app, zlen_cons; pose proof (zlen_nonneg pre); pose proof (zlen_nonneg suf); lia).
    f_equal. unfold zlen. rewrite Nat2Z.id. clear. induction pre as [|p pre IH]; cbn [app length set_nth]; [reflexivity|]. rewrite IH. reflexivity. }
  rewrite Es, bind_ok. reflexivity.
Qed.

Lemma rc4_loop : forall data pre Sb i j, rc4_state_ok (Sb, i, j) -> Forall (fun x => 0 <= x < 256) data ->
  foldM rc4_body (zrange (zlen pre) (zlen pre + zlen data)) (i, j, Sb, pre ++ data) =
  let '((S', i', j'), out) := rc4_crypt (Sb, i, j) data in Ok (i', j', S', pre ++ out).
Proof.
  induction data as [|b data IH]; intros pre Sb i j Hst Hd.
  - change (zlen (@nil Z)) with 0. rewrite Z.add_0_r, zrange_empty by lia. reflexivity.
  - inversion Hd as [|? ? Hb Hd']; subst.
    rewrite zrange_cons by (rewrite zlen_cons; pose proof (zlen_nonneg data); lia).
    cbn [foldM rc4_crypt]. rewrite (rc4_body_ok Sb i j pre b data Hst Hb).
    pose proof (rc4_step_ok (Sb, i, j) Hst) as [Hst1 Hk].
    destruct (rc4_step (Sb, i, j)) as [[[S1 i1] j1] k]. cbn [fst snd] in Hst1, Hk. rewrite bind_ok.
    replace (pre ++ Z.lxor b k :: data) with ((pre ++ [Z.lxor b k]) ++ data) by (rewrite <- app_assoc; reflexivity).
    replace (zlen pre + 1) with (zlen (pre ++ [Z.lxor b k])) by zl.
    replace (zlen pre + zlen (b :: data)) with (zlen (pre ++ [Z.lxor b k]) + zlen data) by zl.
    rewrite (IH (pre ++ [Z.lxor b k]) S1 i1 j1 Hst1 Hd').
    destruct (rc4_crypt (S1, i1, j1) data) as [[[S2 i2] j2] out]. rewrite <- app_assoc. reflexivity.
Qed.

Lemma rc4_encrypt_ok st pt : rc4_state_ok (rc4_S st, rc4_i st, rc4_j st) -> Forall (fun x => 0 <= x < 256) pt ->
  rc4_encrypt st pt =
  let '((S', i', j'), out) := rc4_crypt (rc4_S st, rc4_i st, rc4_j st) pt in Ok (mkRC4 S' i' j', out).
Proof.
  intros Hst Hp. rewrite rc4_encrypt_unfold.
  pose proof (rc4_loop pt [] (rc4_S st) (rc4_i st) (rc4_j st) Hst Hp) as H.
  cbn [app] in H. change (zlen (@nil Z)) with 0 in H. rewrite Z.add_0_l in H. rewrite H.
  destruct (rc4_crypt (rc4_S st, rc4_i st, rc4_j st) pt) as [[[S2 i2] j2] out]. reflexivity.
Qed.

Lemma rc4_decrypt_is_encrypt st ct : rc4_decrypt st ct = rc4_encrypt st ct.
Proof.
  unfold rc4_decrypt. destruct st as [Sb i j]. cbn [rc4_S rc4_i rc4_j].
  destruct (rc4_encrypt (mkRC4 Sb i j) ct) as [[[S' i' j'] out]|e]; reflexivity.
Qed.

(* spec level: the generator state threads through concatenation *)
Lemma rc4_crypt_app st a b :
  rc4_crypt st (a ++ b) =
  let '(st1, c1) := rc4_crypt st a in let '(st2, c2) := rc4_crypt st1 b in (st2, c1 ++ c2).
Proof.
  revert st. induction a as [|x a IH]; intros st; cbn [app rc4_crypt].
  - destruct (rc4_crypt st b). reflexivity.
  - destruct (rc4_step st) as [st1 k]. rewrite IH.
    destruct (rc4_crypt st1 a) as [st2 c1]. destruct (rc4_crypt st2 b) as [st3 c2]. reflexivity.
Qed.

Lemma rc4_crypt_state_ok st data : rc4_state_ok st -> rc4_state_ok (fst (rc4_crypt st data)) /\
  (Forall (fun x => 0 <= x < 256) data -> Forall (fun x => 0 <= x < 256) (snd (rc4_crypt st data))).
Proof.
  revert st. induction data as [|b data IH]; intros st Hst; cbn [rc4_crypt].
  - split; [exact Hst|intros; constructor].
  - pose proof (rc4_step_ok st Hst) as [H1 Hk]. destruct (rc4_step st) as [st1 k]. cbn [fst snd] in *.
    destruct (IH st1 H1) as [H2 H3]. destruct (rc4_crypt st1 data) as [st2 out]. cbn [fst snd] in *.
    split; [exact H2|]. intros Hd. inversion Hd; subst. constructor; [apply lxor_range; assumption|auto].
Qed.

(* decrypting with a generator in the same state recovers the plaintext *)
Lemma rc4_crypt_involutive st data :
  snd (rc4_crypt st (snd (rc4_crypt st data))) = data /\ fst (rc4_crypt st (snd (rc4_crypt st data))) = fst (rc4_crypt st data).
Proof.
  revert st. induction data as [|b data IH]; intros st; cbn [rc4_crypt]; [split; reflexivity|].
  destruct (rc4_step st) as [st1 k] eqn:E1. destruct (IH st1) as [IH1 IH2].
  destruct (rc4_crypt st1 data) as [st2 out] eqn:E2. cbn [snd fst rc4_crypt] in *. rewrite E1.
  destruct (rc4_crypt st1 out) as [st3 out2] eqn:E3. cbn [snd fst] in *.
  split; [|exact IH2]. rewrite IH1. f_equal. rewrite Z.lxor_assoc, Z.lxor_nilpotent, Z.lxor_0_r. reflexivity.
Qed.

(* code level: two calls on one object = one call on the concatenation *)
Lemma rc4_stream_split_code st a b : rc4_state_ok (rc4_S st, rc4_i st, rc4_j st) ->
  Forall (fun x => 0 <= x < 256) a -> Forall (fun x => 0 <= x < 256) b ->
  ('(st1, c1) <- rc4_encrypt st a ;; '(st2, c2) <- rc4_encrypt st1 b ;; Ok (st2, c1 ++ c2)) = rc4_encrypt st (a ++ b).
Proof.
  intros Hst Ha Hb. rewrite (rc4_encrypt_ok st (a ++ b)) by (try assumption; apply Forall_app; split; assumption).
  rewrite rc4_crypt_app. rewrite (rc4_encrypt_ok st a) by assumption.
  destruct (rc4_crypt_state_ok (rc4_S st, rc4_i st, rc4_j st) a Hst) as [Hst1 _].
  destruct (rc4_crypt (rc4_S st, rc4_i st, rc4_j st) a) as [[[S1 i1] j1] c1]. cbn [fst] in Hst1. rewrite bind_ok.
  rewrite (rc4_encrypt_ok (mkRC4 S1 i1 j1) b) by assumption. cbn [rc4_S rc4_i rc4_j].
  destruct (rc4_crypt (S1, i1, j1) b) as [[[S2 i2] j2] c2]. reflexivity.
Qed.

Lemma rc4_dec_enc_code st pt : rc4_state_ok (rc4_S st, rc4_i st, rc4_j st) -> Forall (fun x => 0 <= x < 256) pt ->
  exists st' ct, rc4_encrypt st pt = Ok (st', ct) /\ rc4_decrypt st ct = Ok (st', pt).
Proof.
  intros Hst Hp. rewrite (rc4_encrypt_ok st pt) by assumption.
  destruct (rc4_crypt_state_ok (rc4_S st, rc4_i st, rc4_j st) pt Hst) as [_ Hc].
  destruct (rc4_crypt_involutive (rc4_S st, rc4_i st, rc4_j st) pt) as [I1 I2].
  destruct (rc4_crypt (rc4_S st, rc4_i st, rc4_j st) pt) as [[[S1 i1] j1] ct] eqn:E. cbn [fst snd] in *.
  exists (mkRC4 S1 i1 j1), ct. split; [reflexivity|]. rewrite rc4_decrypt_is_encrypt.
  rewrite (rc4_encrypt_ok st ct) by (try assumption; apply Hc; assumption).
  destruct (rc4_crypt (rc4_S st, rc4_i st, rc4_j st) ct) as [[[S2 i2] j2] pt2]. cbn [fst snd] in *.
  subst pt2. injection I2 as -> -> ->. reflexivity.
Qed.

(* key setup: the generated constructor computes the standard key schedule *)
Lemma rc4_init_ok key : 16 <= zlen key <= 256 -> Forall (fun x => 0 <= x < 256) key ->
  rc4_init key = Ok (mkRC4 (rc4_ksa key) 0 0) /\ rc4_state_ok (rc4_ksa key, 0, 0).
Proof.
  intros Hk Fk. unfold rc4_init, rc4_base_init.
  destruct ((zlen key <? 16) || (zlen key >? 256)) eqn:E; [lia|]. rewrite bind_ok.
  rewrite map_id.
  set (P := fun st : Z * list Z => length (snd st) = 256%nat /\ Forall (fun x => 0 <= x < 256) (snd st) /\ 0 <= fst st < 256).
  set (g := fun '(j, Sb) i => let j := (j + nthZ Sb i + nthZ key (i mod zlen key)) mod 256 in (j, swap Sb i j)).
  assert (P0 : P (0, zrange 0 256)).
  { unfold P. cbn [fst snd]. split; [rewrite zrange_length; reflexivity|]. split; [|lia].
    apply Forall_forall. intros x Hx. apply in_zrange in Hx. lia. }
  match goal with |- context [foldM ?f _ _] =>
    destruct (foldM_inv P f g (zrange 0 256)
      ltac:(intros [j Sb] i Hi (L & F & Hj); apply in_zrange in Hi; cbn [fst snd] in L, F, Hj;
            assert (Hz : zlen Sb = 256) by (unfold zlen; lia);
            rewrite py_index_ok by lia; rewrite bind_ok;
            unfold py_mod; destruct (zlen key =? 0) eqn:E0; [lia|]; rewrite bind_ok;
            pose proof (Z.mod_pos_bound i (zlen key) ltac:(lia));
            rewrite py_index_ok by lia; rewrite bind_ok; cbv zeta;
            set (j' := (j + nthZ Sb i + nthZ key (i mod zlen key)) mod 256);
            assert (Hj' : 0 <= j' < 256) by (apply Z.mod_pos_bound; lia);
            rewrite !py_index_ok by lia; rewrite !bind_ok;
            rewrite py_store_ok by lia; rewrite bind_ok;
            rewrite py_store_ok by (unfold zlen; rewrite set_nth_length; lia); rewrite bind_ok;
            fold (swap Sb i j'); unfold g; fold j';
            destruct (swap_ok Sb i j' L F) as [L' F'];
            split; [reflexivity|unfold P; cbn [fst snd]; auto])
      (0, zrange 0 256) P0) as [E1 P1]
  end.
  rewrite E1, bind_ok. unfold rc4_ksa. fold g.
  destruct (fold_left g (zrange 0 256) (0, zrange 0 256)) as [j Sb]. cbn [snd fst] in *.
  split; [reflexivity|]. destruct P1 as (L & F & _). unfold rc4_state_ok. repeat split; try assumption; lia.
Qed.

(* ---- CBC (SP 800-38A 6.2) over any block function with a left inverse ------------------------ *)
Section CBC.
  Variable E D : list Z -> list Z.
  Variable bs : nat.
  Hypothesis bs_pos : (0 < bs)%nat.
  Hypothesis DE : forall b, length b = bs -> D (E b) = b.
  Hypothesis Elen : forall b, length b = bs -> length (E b) = bs.

  Definition blocks_ok (l : list (list Z)) : Prop := Forall (fun b => length b = bs) l.

  Lemma xorb_length a b : length a = length b -> length (xorb a b) = length a.
  Proof. intros H. unfold xorb. rewrite map_length, combine_length. lia. Qed.

  Lemma xorb_cancel a b : length a = length b -> xorb (xorb a b) b = a.
  Proof.
    revert b. induction a as [|x a IH]; intros [|y b] H; try discriminate; [reflexivity|].
    unfold xorb in *. cbn [combine map fst snd]. rewrite IH by (cbn [length] in H; lia).
    rewrite Z.lxor_assoc, Z.lxor_nilpotent, Z.lxor_0_r. reflexivity.
  Qed.

  (* decryption inverts encryption, and both leave the same chaining value for the next call *)
  Lemma cbc_dec_enc_blocks : forall blocks iv, blocks_ok blocks -> length iv = bs ->
    let '(iv1, ct) := cbc_enc_blocks E iv blocks in
    length ct = (bs * length blocks)%nat /\ length iv1 = bs /\
    cbc_dec_blocks D iv (chunks bs ct) = (iv1, concat blocks).
  Proof.
    induction blocks as [|p blocks IH]; intros iv Hb Hiv.
    - cbn [cbc_enc_blocks]. split; [cbn; lia|]. split; [exact Hiv|]. reflexivity.
    - inversion Hb as [|? ? Hp Hb']; subst. cbn [cbc_enc_blocks].
      set (c := E (xorb p iv)).
      assert (Lx : length (xorb p iv) = bs) by (rewrite xorb_length; lia).
      assert (Lc : length c = bs) by (apply Elen; exact Lx).
      specialize (IH c Hb' Lc). destruct (cbc_enc_blocks E c blocks) as [iv1 out].
      destruct IH as (L1 & L2 & IH).
      split; [rewrite app_length, L1, Lc; cbn [length]; lia|]. split; [exact L2|].
      unfold chunks. rewrite app_length, Lc.
      destruct bs as [|bs'] eqn:Ebs; [lia|]. rewrite <- Ebs in *.
      replace (bs + length out)%nat with (S (bs' + length out)) by lia. cbn [chunks_fuel].
      destruct (c ++ out) as [|z zs] eqn:Ez; [destruct c; [cbn [length] in Lc; lia|discriminate]|]. rewrite <- Ez.
      rewrite firstn_app, Lc, Nat.sub_diag, firstn_O, app_nil_r, firstn_all2 by lia.
      rewrite skipn_app, Lc, Nat.sub_diag, skipn_O, skipn_all2 by lia. cbn [app cbc_dec_blocks].
      assert (Hch : chunks_fuel (bs' + length out) bs out = chunks bs out).
      { unfold chunks. clear - bs_pos. remember (length out) as n eqn:En.
        assert (G : forall f1 f2 (l : list Z), (length l <= f1)%nat -> (length l <= f2)%nat -> chunks_fuel f1 bs l = chunks_fuel f2 bs l).
        { induction f1 as [|f1 IHf]; intros f2 l H1 H2.
          - destruct l; [destruct f2; reflexivity|cbn [length] in H1; lia].
          - destruct f2 as [|f2]; [destruct l; [reflexivity|cbn [length] in H2; lia]|].
            cbn [chunks_fuel]. destruct l as [|x l]; [reflexivity|]. f_equal.
            apply IHf; rewrite skipn_length; cbn [length] in *; lia. }
        apply G; lia. }
      rewrite Hch, IH. unfold c. rewrite DE by exact Lx. rewrite xorb_cancel by lia. reflexivity.
  Qed.

  (* a second call continues where the first stopped: chaining value = last ciphertext block *)
  Lemma cbc_enc_blocks_app : forall b1 b2 iv,
    cbc_enc_blocks E iv (b1 ++ b2) =
    let '(iv1, c1) := cbc_enc_blocks E iv b1 in let '(iv2, c2) := cbc_enc_blocks E iv1 b2 in (iv2, c1 ++ c2).
  Proof.
    induction b1 as [|p b1 IH]; intros b2 iv; cbn [app cbc_enc_blocks].
    - destruct (cbc_enc_blocks E iv b2). reflexivity.
    - rewrite IH. destruct (cbc_enc_blocks E (E (xorb p iv)) b1) as [iv1 c1].
      destruct (cbc_enc_blocks E iv1 b2) as [iv2 c2]. rewrite app_assoc. reflexivity.
  Qed.

  Lemma cbc_dec_blocks_app : forall b1 b2 iv,
    cbc_dec_blocks D iv (b1 ++ b2) =
    let '(iv1, c1) := cbc_dec_blocks D iv b1 in let '(iv2, c2) := cbc_dec_blocks D iv1 b2 in (iv2, c1 ++ c2).
  Proof.
    induction b1 as [|p b1 IH]; intros b2 iv; cbn [app cbc_dec_blocks].
    - destruct (cbc_dec_blocks D iv b2). reflexivity.
    - rewrite IH. destruct (cbc_dec_blocks D p b1) as [iv1 c1].
      destruct (cbc_dec_blocks D iv1 b2) as [iv2 c2]. rewrite app_assoc. reflexivity.
  Qed.
End CBC.

Lemma cbc_split_both (E D : list Z -> list Z) b1 b2 iv :
  cbc_enc_blocks E iv (b1 ++ b2) =
    (let '(iv1, c1) := cbc_enc_blocks E iv b1 in let '(iv2, c2) := cbc_enc_blocks E iv1 b2 in (iv2, c1 ++ c2)) /\
  cbc_dec_blocks D iv (b1 ++ b2) =
    (let '(iv1, c1) := cbc_dec_blocks D iv b1 in let '(iv2, c2) := cbc_dec_blocks D iv1 b2 in (iv2, c1 ++ c2)).
Proof. split; [apply cbc_enc_blocks_app|apply cbc_dec_blocks_app]. Qed.

(* ---- CTR: two calls on one object vs one call (the general theorem is in Proofs/C09_CTR.v).  Before /repo commit
   de57de0 ("Python_AES_CTR must keep unused key stream between calls") the two differed for every split inside a block
   (the check carried ctr_stream_split_refuted with this very witness) -------------------------------------------------- *)
Definition ctr_two_calls (O : BlockOracle) key iv a b : res (list Z) :=
  st <- ctr_init O key 6 iv ;; '(st1, c1) <- ctr_encrypt O st a ;; '(st2, c2) <- ctr_encrypt O st1 b ;; Ok (c1 ++ c2).
Definition ctr_one_call (O : BlockOracle) key iv a b : res (list Z) :=
  st <- ctr_init O key 6 iv ;; '(st1, c) <- ctr_encrypt O st (a ++ b) ;; Ok c.

Lemma ctr_split_unaligned_example :
  ctr_two_calls toy_block_oracle [1;2;3;4;5;6;7;8;9;10;11;12;13;14;15;16] [10;20;30;40;50;60;70;80;90;100;110;120;130;140;150;160]
                [1; 2; 3; 4; 5] [6; 7; 8; 9; 10; 11; 12]
  = ctr_one_call toy_block_oracle [1;2;3;4;5;6;7;8;9;10;11;12;13;14;15;16] [10;20;30;40;50;60;70;80;90;100;110;120;130;140;150;160]
                [1; 2; 3; 4; 5] [6; 7; 8; 9; 10; 11; 12].
Proof. vm_compute. reflexivity. Qed.
