(* C14 lemmas: RecordSocket reads/writes over scripted sockets depend only on the
   byte stream the script carries, never on its chunking or would-blocks. *)
From Coq Require Import ZArith List Bool Lia.
From TV Require Import Base.Prelude Model.C14_Transport.
Import ListNotations.
Open Scope Z_scope.

(* ---- list/Z helpers ----------------------------------------------------------------- *)
Lemma zlen_app {A} (a c : list A) : zlen (a ++ c) = zlen a + zlen c.
Proof. unfold zlen. rewrite app_length. lia. Qed.

Lemma zlen_nonneg {A} (a : list A) : 0 <= zlen a.
Proof. unfold zlen. lia. Qed.

Lemma zlen_nil {A} (a : list A) : zlen a = 0 -> a = [].
Proof. unfold zlen. destruct a; cbn; [reflexivity|lia]. Qed.

Lemma firstn_app_Z {A} (acc l : list A) n m :
  zlen acc = n - m -> 0 <= m ->
  firstn (Z.to_nat n) (acc ++ l) = acc ++ firstn (Z.to_nat m) l.
Proof.
  unfold zlen. intros H Hm. rewrite firstn_app.
  rewrite firstn_all2 by lia. f_equal. f_equal. lia.
Qed.

Lemma skipn_app_Z {A} (acc l : list A) n m :
  zlen acc = n - m -> 0 <= m ->
  skipn (Z.to_nat n) (acc ++ l) = skipn (Z.to_nat m) l.
Proof.
  unfold zlen. intros H Hm. rewrite skipn_app.
  rewrite skipn_all2 by lia. cbn [app]. f_equal. lia.
Qed.

Lemma firstn_short_Z {A} (a c : list A) n :
  n <= zlen a -> firstn (Z.to_nat n) (a ++ c) = firstn (Z.to_nat n) a.
Proof.
  unfold zlen. intros H. rewrite firstn_app.
  replace (Z.to_nat n - length a)%nat with 0%nat by lia. cbn [firstn]. apply app_nil_r.
Qed.

Lemma skipn_short_Z {A} (a c : list A) n :
  n <= zlen a -> skipn (Z.to_nat n) (a ++ c) = skipn (Z.to_nat n) a ++ c.
Proof.
  unfold zlen. intros H. rewrite skipn_app.
  replace (Z.to_nat n - length a)%nat with 0%nat by lia. reflexivity.
Qed.

Lemma skipn_add {A} (x y : nat) : forall l : list A, skipn x (skipn y l) = skipn (x + y) l.
Proof.
  induction y as [|y IH]; intros l.
  - rewrite Nat.add_0_r. reflexivity.
  - rewrite Nat.add_succ_r. destruct l as [|a l]; [rewrite !skipn_nil; reflexivity|].
    cbn [skipn]. apply IH.
Qed.

Lemma split_again {A} (c : list A) (m req : Z) :
  0 <= m <= req ->
  firstn (Z.to_nat (req - m)) (skipn (Z.to_nat m) c) ++ skipn (Z.to_nat req) c
  = skipn (Z.to_nat m) c.
Proof.
  intros H.
  replace (Z.to_nat req) with (Z.to_nat (req - m) + Z.to_nat m)%nat by lia.
  rewrite <- skipn_add. apply firstn_skipn.
Qed.

Lemma zlen_skipn {A} (c : list A) n : 0 <= n <= zlen c -> zlen (skipn (Z.to_nat n) c) = zlen c - n.
Proof. unfold zlen. intros H. rewrite skipn_length. lia. Qed.

(* ---- the central lemma: _sockRecvAll reads the stream ------------------------------- *)
Definition ra_ok (ra : Z -> Z) : Prop := forall m, m <= ra m.

Lemma ra_raw_ok : ra_ok ra_raw.
Proof. intros m. unfold ra_raw. lia. Qed.
Lemma ra_buffered_ok : ra_ok ra_buffered.
Proof. intros m. unfold ra_buffered. lia. Qed.

Definition agrees {A} (r : gres A) (sp : Z * outcome A * stream) : Prop :=
  out_of r = out_of sp /\
  (forall a, out_of r = Done a -> stream_of (state_of r) = state_of sp).

Lemma recv_loop_spec ra (Hra : ra_ok ra) need : forall s acc y,
  zlen acc < need ->
  agrees (recv_loop ra need acc y s)
         (take_spec need (acc ++ fst (flatten s), snd (flatten s))).
Proof.
  induction s as [|ev s IH]; intros acc y Hacc.
  - cbn [recv_loop flatten fst snd take_spec]. rewrite app_nil_r.
    destruct (need <=? zlen acc) eqn:E; [lia|].
    split; [reflexivity|]. unfold out_of; cbn. intros a Ha; discriminate.
  - destruct ev as [c| |e].
    + cbn [recv_loop flatten].
      destruct (zlen c =? 0) eqn:Ec.
      { cbn [fst snd take_spec]. rewrite app_nil_r.
        destruct (need <=? zlen acc) eqn:E; [lia|].
        split; [reflexivity|]. unfold out_of; cbn. intros a Ha; discriminate. }
      destruct (flatten s) as [d t] eqn:Ef. cbn [fst snd] in *.
      pose proof (zlen_nonneg c) as Hc0. pose proof (zlen_nonneg acc) as Ha0.
      pose proof (Hra (need - zlen acc)) as Hreq.
      set (m := need - zlen acc) in *.
      assert (Hfirst : firstn (Z.to_nat need) (acc ++ c ++ d) = acc ++ firstn (Z.to_nat m) (c ++ d)).
      { apply firstn_app_Z; unfold m; lia. }
      assert (Hskip : skipn (Z.to_nat need) (acc ++ c ++ d) = skipn (Z.to_nat m) (c ++ d)).
      { apply skipn_app_Z; unfold m; lia. }
      destruct (zlen c <=? ra m) eqn:E1.
      * destruct (zlen c <? m) eqn:E2.
        -- specialize (IH (acc ++ c) y).
           rewrite <- app_assoc in IH. apply IH. rewrite zlen_app. unfold m in *. lia.
        -- unfold take_spec.
           destruct (need <=? zlen (acc ++ c ++ d)) eqn:E3.
           2:{ rewrite !zlen_app in E3. pose proof (zlen_nonneg d). unfold m in *. lia. }
           split.
           ++ unfold out_of; cbn [fst snd]. rewrite Hfirst. rewrite firstn_short_Z by lia. reflexivity.
           ++ intros a _. unfold state_of, stream_of; cbn [fst snd]. rewrite Ef.
              rewrite Hskip. rewrite skipn_short_Z by lia. reflexivity.
      * unfold take_spec.
        destruct (need <=? zlen (acc ++ c ++ d)) eqn:E3.
        2:{ rewrite !zlen_app in E3. pose proof (zlen_nonneg d). unfold m in *. lia. }
        split.
        ++ unfold out_of; cbn [fst snd]. rewrite Hfirst. rewrite firstn_short_Z by lia. reflexivity.
        ++ intros a _. unfold state_of, stream_of; cbn [fst snd flatten].
           assert (Hz : zlen (skipn (Z.to_nat (ra m)) c) =? 0 = false).
           { rewrite zlen_skipn by lia. lia. }
           rewrite Hz, Ef. rewrite Hskip. rewrite skipn_short_Z by lia.
           rewrite app_assoc. rewrite split_again by (subst m; lia). reflexivity.
    + cbn [recv_loop flatten fst snd take_spec]. rewrite app_nil_r.
      destruct (need <=? zlen acc) eqn:E; [lia|].
      split; [reflexivity|]. unfold out_of; cbn. intros a Ha; discriminate.
    + cbn [recv_loop flatten].
      destruct (is_wb e) eqn:Ew.
      * apply IH. exact Hacc.
      * cbn [fst snd take_spec]. rewrite app_nil_r.
        destruct (need <=? zlen acc) eqn:E; [lia|].
        split; [reflexivity|]. unfold out_of; cbn. intros a Ha; discriminate.
Qed.

Lemma stream_of_eq rbuf s : stream_of (rbuf, s) = (rbuf ++ fst (flatten s), snd (flatten s)).
Proof. unfold stream_of. cbn [fst snd]. destruct (flatten s). reflexivity. Qed.

Lemma recv_all_spec ra (Hra : ra_ok ra) need st :
  agrees (recv_all ra need st) (take_spec need (stream_of st)).
Proof.
  destruct st as [rbuf s]. rewrite stream_of_eq. unfold recv_all.
  destruct (flatten s) as [d t] eqn:Ef. cbn [fst snd].
  destruct (need =? 0) eqn:E0.
  - apply Z.eqb_eq in E0. subst need. unfold take_spec.
    pose proof (zlen_nonneg (rbuf ++ d)).
    destruct (0 <=? zlen (rbuf ++ d)) eqn:E; [|lia].
    split; [reflexivity|]. intros a _. unfold state_of; cbn [snd Z.to_nat skipn].
    rewrite stream_of_eq, Ef. reflexivity.
  - destruct (need <=? zlen rbuf) eqn:E1.
    + unfold take_spec. pose proof (zlen_nonneg d).
      destruct (need <=? zlen (rbuf ++ d)) eqn:E2; [|rewrite zlen_app in E2; lia].
      split.
      * unfold out_of; cbn [fst snd]. rewrite firstn_short_Z by lia. reflexivity.
      * intros a _. unfold state_of; cbn [snd]. rewrite stream_of_eq, Ef. cbn [fst snd].
        rewrite skipn_short_Z by lia. reflexivity.
    + pose proof (recv_loop_spec ra Hra need s rbuf 0) as H. rewrite Ef in H. apply H. lia.
Qed.

(* ---- programs: simulation between the scripted socket and the stream ---------------- *)
Lemma run_agrees ra (Hra : ra_ok ra) {A} (p : prog A) : forall st,
  agrees (run_sock ra p st) (run_spec p (stream_of st)).
Proof.
  unfold run_sock, run_spec.
  induction p as [a|e|n k IH]; intros st.
  - cbn [run]. split; [reflexivity|]. intros; reflexivity.
  - cbn [run]. split; [reflexivity|]. unfold out_of; cbn. intros; discriminate.
  - cbn [run].
    pose proof (recv_all_spec ra Hra n st) as [Ho Hs].
    destruct (recv_all ra n st) as [[y o] st'] eqn:E1.
    destruct (take_spec n (stream_of st)) as [[y2 o2] x'] eqn:E2.
    unfold out_of, state_of in Ho, Hs. cbn [fst snd] in Ho, Hs. subst o2.
    destruct o as [d|e|].
    + specialize (Hs d eq_refl). subst x'.
      specialize (IH d st').
      destruct (run (recv_all ra) (k d) st') as [[ya oa] sa].
      destruct (run take_spec (k d) (stream_of st')) as [[yb ob] sb].
      exact IH.
    + split; [reflexivity|]. unfold out_of; cbn. intros; discriminate.
    + split; [reflexivity|]. unfold out_of; cbn. intros; discriminate.
Qed.

Lemma chunk_independent ra1 ra2 (H1 : ra_ok ra1) (H2 : ra_ok ra2) {A} (p : prog A) st1 st2 :
  stream_of st1 = stream_of st2 ->
  out_of (run_sock ra1 p st1) = out_of (run_sock ra2 p st2) /\
  (forall a, out_of (run_sock ra1 p st1) = Done a ->
     stream_of (state_of (run_sock ra1 p st1)) = stream_of (state_of (run_sock ra2 p st2))).
Proof.
  intros Hst.
  destruct (run_agrees ra1 H1 p st1) as [Ha Hb].
  destruct (run_agrees ra2 H2 p st2) as [Hc Hd].
  rewrite Hst in Ha, Hb.
  split; [congruence|].
  intros a Hdone. rewrite (Hb a Hdone). symmetry. apply (Hd a). congruence.
Qed.

(* the canonical one-chunk script for a stream *)
Definition canon (x : stream) : list rev :=
  (if zlen (fst x) =? 0 then [] else [Data (fst x)]) ++
  match snd x with TOpen => [] | TEof => [Eof] | TFail e => [Fail e] end.

Lemma flatten_term_not_wb s : forall e, snd (flatten s) = TFail e -> is_wb e = false.
Proof.
  induction s as [|ev s IH]; intros e; cbn [flatten].
  - cbn. discriminate.
  - destruct ev as [c| |e0].
    + destruct (zlen c =? 0); [cbn; discriminate|].
      destruct (flatten s) as [d t]. cbn [snd] in *. apply IH.
    + cbn. discriminate.
    + destruct (is_wb e0) eqn:E; [apply IH|]. cbn. intros H. injection H as <-. exact E.
Qed.

Lemma flatten_canon s : flatten (canon (flatten s)) = flatten s.
Proof.
  pose proof (flatten_term_not_wb s) as Hwb.
  destruct (flatten s) as [d t]. unfold canon. cbn [fst snd] in *.
  destruct (zlen d =? 0) eqn:Ed.
  - apply Z.eqb_eq in Ed. apply zlen_nil in Ed. subst d. cbn [app].
    destruct t as [| |e]; cbn [flatten]; try reflexivity.
    rewrite (Hwb e eq_refl). reflexivity.
  - cbn [app flatten]. rewrite Ed.
    destruct t as [| |e]; cbn [flatten]; rewrite ?app_nil_r; try reflexivity.
    rewrite (Hwb e eq_refl). rewrite app_nil_r. reflexivity.
Qed.

Lemma same_as_one_chunk ra1 ra2 (H1 : ra_ok ra1) (H2 : ra_ok ra2) {A} (p : prog A) s :
  out_of (run_sock ra1 p ([], s)) = out_of (run_sock ra2 p ([], canon (flatten s))).
Proof.
  apply chunk_independent; try assumption.
  unfold stream_of. cbn [fst snd]. rewrite flatten_canon. reflexivity.
Qed.

(* ---- yields are exactly the would-blocks consumed ------------------------------------ *)
Lemma count_wb_cons ev s :
  count_wb (ev :: s) = (match ev with Fail e => if is_wb e then 1 else 0 | _ => 0 end) + count_wb s.
Proof.
  unfold count_wb. cbn [filter].
  destruct ev as [c| |e]; try (cbn; lia).
  destruct (is_wb e); [|lia]. unfold zlen. cbn [length]. lia.
Qed.

Lemma count_wb_nonneg s : 0 <= count_wb s.
Proof. unfold count_wb. apply zlen_nonneg. Qed.

Lemma recv_loop_yields ra need : forall s acc y,
  let r := recv_loop ra need acc y s in
  yields_of r = y + count_wb s - count_wb (snd (state_of r)).
Proof.
  induction s as [|ev s IH]; intros acc y; cbn zeta.
  - cbn. unfold count_wb; cbn. lia.
  - rewrite count_wb_cons. destruct ev as [c| |e]; cbn [recv_loop].
    + destruct (zlen c =? 0); [unfold yields_of, state_of; cbn [fst snd]; lia|].
      destruct (zlen c <=? ra (need - zlen acc)).
      * destruct (zlen c <? need - zlen acc).
        -- rewrite IH. lia.
        -- unfold yields_of, state_of; cbn [fst snd]. lia.
      * unfold yields_of, state_of; cbn [fst snd]. rewrite count_wb_cons. lia.
    + unfold yields_of, state_of; cbn [fst snd]. lia.
    + destruct (is_wb e).
      * rewrite IH. lia.
      * unfold yields_of, state_of; cbn [fst snd]. lia.
Qed.

Lemma recv_all_yields ra need st :
  let r := recv_all ra need st in
  yields_of r = count_wb (snd st) - count_wb (snd (state_of r)).
Proof.
  destruct st as [rbuf s]. unfold recv_all. cbn zeta.
  destruct (need =? 0); [unfold yields_of, state_of; cbn [fst snd]; lia|].
  destruct (need <=? zlen rbuf); [unfold yields_of, state_of; cbn [fst snd]; lia|].
  rewrite recv_loop_yields. cbn [snd]. lia.
Qed.

Lemma run_yields ra {A} (p : prog A) : forall st,
  let r := run_sock ra p st in
  yields_of r = count_wb (snd st) - count_wb (snd (state_of r)).
Proof.
  unfold run_sock. induction p as [a|e|n k IH]; intros st; cbn zeta.
  - cbn. lia.
  - cbn. lia.
  - cbn [run]. pose proof (recv_all_yields ra n st) as Hy. cbn zeta in Hy.
    destruct (recv_all ra n st) as [[y o] st'].
    unfold yields_of, state_of in Hy. cbn [fst snd] in Hy.
    destruct o as [d|e|].
    + specialize (IH d st'). cbn zeta in IH.
      destruct (run (recv_all ra) (k d) st') as [[y2 o2] st2].
      unfold yields_of, state_of in *. cbn [fst snd] in *. lia.
    + unfold yields_of, state_of. cbn [fst snd]. lia.
    + unfold yields_of, state_of. cbn [fst snd]. lia.
Qed.

(* remaining script never has more would-blocks than the original *)
Lemma recv_loop_wb_mono ra need : forall s acc y,
  count_wb (snd (state_of (recv_loop ra need acc y s))) <= count_wb s.
Proof.
  induction s as [|ev s IH]; intros acc y.
  - cbn. lia.
  - rewrite count_wb_cons. destruct ev as [c| |e]; cbn [recv_loop].
    + destruct (zlen c =? 0); [unfold state_of; cbn [snd]; lia|].
      destruct (zlen c <=? ra (need - zlen acc)).
      * destruct (zlen c <? need - zlen acc).
        -- specialize (IH (acc ++ c) y). lia.
        -- unfold state_of; cbn [snd]. lia.
      * unfold state_of; cbn [snd]. rewrite count_wb_cons. lia.
    + unfold state_of; cbn [snd]. lia.
    + destruct (is_wb e).
      * specialize (IH acc (y + 1)). lia.
      * unfold state_of; cbn [snd]. lia.
Qed.

Lemma recv_all_wb_mono ra need st :
  count_wb (snd (state_of (recv_all ra need st))) <= count_wb (snd st).
Proof.
  destruct st as [rbuf s]. unfold recv_all.
  destruct (need =? 0); [unfold state_of; cbn [snd]; lia|].
  destruct (need <=? zlen rbuf); [unfold state_of; cbn [snd]; lia|].
  apply recv_loop_wb_mono.
Qed.

Lemma run_wb_mono ra {A} (p : prog A) : forall st,
  count_wb (snd (state_of (run_sock ra p st))) <= count_wb (snd st).
Proof.
  unfold run_sock. induction p as [a|e|n k IH]; intros st.
  - cbn. lia.
  - cbn. lia.
  - cbn [run]. pose proof (recv_all_wb_mono ra n st) as Hm.
    destruct (recv_all ra n st) as [[y o] st'].
    unfold state_of in Hm. cbn [snd] in Hm.
    destruct o as [d|e|].
    + specialize (IH d st').
      destruct (run (recv_all ra) (k d) st') as [[y2 o2] st2].
      unfold state_of in *. cbn [snd] in *. lia.
    + unfold state_of. cbn [snd]. lia.
    + unfold state_of. cbn [snd]. lia.
Qed.

(* ---- blocking = generator run to completion -------------------------------------------- *)
Lemma flatten_strip_wb s : flatten (strip_wb s) = flatten s.
Proof.
  induction s as [|ev s IH]; [reflexivity|].
  destruct ev as [c| |e]; cbn [strip_wb filter flatten].
  - fold (strip_wb s). rewrite IH. reflexivity.
  - reflexivity.
  - fold (strip_wb s). destruct (is_wb e) eqn:E; cbn [negb].
    + exact IH.
    + cbn [flatten]. rewrite E. reflexivity.
Qed.

Lemma count_wb_strip s : count_wb (strip_wb s) = 0.
Proof.
  induction s as [|ev s IH]; [reflexivity|].
  destruct ev as [c| |e]; cbn [strip_wb filter]; fold (strip_wb s).
  - rewrite count_wb_cons. lia.
  - rewrite count_wb_cons. lia.
  - destruct (is_wb e) eqn:E; cbn [negb]; [exact IH|].
    rewrite count_wb_cons, E. lia.
Qed.

Lemma blocking_equals_async ra (Hra : ra_ok ra) {A} (p : prog A) rbuf s :
  out_of (run_sock ra p (rbuf, strip_wb s)) = out_of (run_sock ra p (rbuf, s)) /\
  yields_of (run_sock ra p (rbuf, strip_wb s)) = 0 /\
  yields_of (run_sock ra p (rbuf, s)) <= count_wb s.
Proof.
  split; [|split].
  - apply chunk_independent; try assumption.
    unfold stream_of. cbn [fst snd]. rewrite flatten_strip_wb. reflexivity.
  - pose proof (run_yields ra p (rbuf, strip_wb s)) as Hy. cbn zeta in Hy. cbn [snd] in Hy.
    pose proof (run_wb_mono ra p (rbuf, strip_wb s)) as Hm. cbn [snd] in Hm.
    rewrite count_wb_strip in *.
    pose proof (count_wb_nonneg (snd (state_of (run_sock ra p (rbuf, strip_wb s))))). lia.
  - pose proof (run_yields ra p (rbuf, s)) as Hy. cbn zeta in Hy. cbn [snd] in Hy.
    pose proof (count_wb_nonneg (snd (state_of (run_sock ra p (rbuf, s))))). lia.
Qed.

(* ---- EOF ----------------------------------------------------------------------------------- *)
Lemma eof_short_read ra (Hra : ra_ok ra) need st :
  snd (stream_of st) = TEof -> zlen (fst (stream_of st)) < need ->
  out_of (recv_all ra need st) = Raised AbruptClose.
Proof.
  intros Ht Hl. destruct (recv_all_spec ra Hra need st) as [Ho _]. rewrite Ho.
  destruct (stream_of st) as [d t]. cbn [fst snd] in *. subst t. unfold take_spec.
  destruct (need <=? zlen d) eqn:E; [lia|]. reflexivity.
Qed.

Lemma take_spec_term n x : snd (state_of (take_spec n x)) = snd x.
Proof.
  destruct x as [d t]. unfold take_spec.
  destruct (n <=? zlen d); [reflexivity|]. destruct t; reflexivity.
Qed.

(* programs that never raise socket errors themselves *)
Inductive clean {A} : prog A -> Prop :=
| clean_ret a : clean (Ret a)
| clean_throw e : (forall n, e <> SockError n) -> e <> AbruptClose -> clean (Throw e)
| clean_take n k : (forall d, clean (k d)) -> clean (Take n k).

Lemma clean_pbind {A B} (p : prog A) (f : A -> prog B) :
  clean p -> (forall a, clean (f a)) -> clean (pbind p f).
Proof.
  intros Hp Hf. induction Hp as [a|e H1 H2|n k Hk IH]; cbn [pbind].
  - apply Hf.
  - apply clean_throw; assumption.
  - apply clean_take. exact IH.
Qed.

Lemma clean_recv_header : clean recv_header.
Proof.
  unfold recv_header. apply clean_take. intros b0.
  destruct (in_Z (b b0 0) content_types).
  - apply clean_take. intros r. apply clean_ret.
  - apply clean_take. intros r.
    match goal with |- clean (if ?c then _ else _) => destruct c end.
    + apply clean_throw; [intros n; discriminate|discriminate].
    + apply clean_ret.
Qed.

Lemma clean_record_recv limit tls13 : clean (record_recv limit tls13).
Proof.
  unfold record_recv. apply clean_pbind; [apply clean_recv_header|]. intros hd.
  destruct (limit + 1024 + 1024 <? h_len hd).
  - apply clean_throw; [intros n; discriminate|discriminate].
  - destruct (tls13 && (limit + 256 <? h_len hd)).
    + apply clean_throw; [intros n; discriminate|discriminate].
    + apply clean_take. intros body. apply clean_ret.
Qed.

Lemma clean_recv_many limit tls13 k : clean (recv_many limit tls13 k).
Proof.
  induction k as [|k IH]; cbn [recv_many]; [apply clean_ret|].
  apply clean_pbind; [apply clean_record_recv|]. intros r.
  apply clean_pbind; [exact IH|]. intros rs. apply clean_ret.
Qed.

(* on a stream that ends in EOF a clean program either completes or raises: never stays
   suspended, never reports a socket error; and TLSAbruptCloseError only arises from a
   read that the stream cannot satisfy *)
Lemma run_spec_term {A} (p : prog A) : forall x,
  snd (state_of (run_spec p x)) = snd x.
Proof.
  unfold run_spec. induction p as [a|e|n k IH]; intros x; cbn [run]; try reflexivity.
  pose proof (take_spec_term n x) as Ht.
  destruct (take_spec n x) as [[y o] x']. unfold state_of in Ht. cbn [snd] in Ht.
  destruct o as [d|e|]; try exact Ht.
  specialize (IH d x'). destruct (run take_spec (k d) x') as [[y2 o2] x2].
  unfold state_of in *. cbn [snd] in *. congruence.
Qed.

Lemma run_spec_eof {A} (p : prog A) (Hc : clean p) : forall x, snd x = TEof ->
  out_of (run_spec p x) <> Pending /\ (forall e, out_of (run_spec p x) <> Raised (SockError e)).
Proof.
  unfold run_spec. induction Hc as [a|e H1 H2|n k Hk IH]; intros x Hx.
  - cbn. split; [discriminate|intros; discriminate].
  - cbn. split; [discriminate|]. intros e0 H. injection H as H. exact (H1 e0 H).
  - cbn [run]. destruct x as [d t]. cbn [snd] in Hx. subst t.
    change (take_spec n (d, TEof)) with
      (if n <=? zlen d then (0, Done (firstn (Z.to_nat n) d), (skipn (Z.to_nat n) d, TEof))
       else (0, @Raised (list Z) AbruptClose, (d, TEof))).
    destruct (n <=? zlen d).
    + specialize (IH (firstn (Z.to_nat n) d) (skipn (Z.to_nat n) d, TEof) eq_refl).
      destruct (run take_spec (k (firstn (Z.to_nat n) d)) (skipn (Z.to_nat n) d, TEof)) as [[y2 o2] x2].
      exact IH.
    + unfold out_of. cbn. split; [discriminate|intros; discriminate].
Qed.

Lemma eof_never_pending ra (Hra : ra_ok ra) {A} (p : prog A) (Hc : clean p) st :
  snd (stream_of st) = TEof ->
  out_of (run_sock ra p st) <> Pending /\ (forall e, out_of (run_sock ra p st) <> Raised (SockError e)).
Proof.
  intros Ht. destruct (run_agrees ra Hra p st) as [Ho _]. rewrite Ho.
  apply run_spec_eof; assumption.
Qed.

(* ---- sending --------------------------------------------------------------------------------- *)
Lemma accepted_range k data : 0 <= accepted k data <= zlen data.
Proof. unfold accepted. pose proof (zlen_nonneg data). lia. Qed.

Lemma send_all_exact_l : forall s data y wire,
  let r := send_all data y wire s in
  let o := snd (fst (fst r)) in
  let wire' := snd (fst r) in
  exists sent rest, data = sent ++ rest /\ wire' = wire ++ sent /\ (o = Done tt -> rest = []) /\ (forall e, o = Raised e -> exists n, e = SockError n /\ is_wb n = false) /\ (o = Pending -> snd r = []).
Proof.
  induction s as [|ev s IH]; intros data y wire; cbn zeta.
  - cbn. exists [], data. rewrite app_nil_r. repeat split; try discriminate; auto; try (intros; discriminate).
  - destruct ev as [k|e]; cbn [send_all].
    + pose proof (accepted_range k data) as Hr.
      destruct (accepted k data =? zlen data) eqn:E.
      * cbn [fst snd]. exists data, []. rewrite app_nil_r.
        repeat split; try discriminate; auto; try (intros; discriminate).
      * specialize (IH (skipn (Z.to_nat (accepted k data)) data) (y + 1)
                       (wire ++ firstn (Z.to_nat (accepted k data)) data)).
        cbn zeta in IH. destruct IH as [sent [rest [H1 [H2 [H3 [H4 H5]]]]]].
        exists (firstn (Z.to_nat (accepted k data)) data ++ sent), rest.
        split; [rewrite <- app_assoc, <- H1; symmetry; apply firstn_skipn|].
        split; [rewrite H2, app_assoc; reflexivity|].
        auto.
    + destruct (is_wb e) eqn:E.
      * apply IH.
      * cbn [fst snd]. exists [], data. rewrite app_nil_r.
        repeat split; try discriminate; auto.
        intros e0 H. injection H as <-. exists e. auto.
Qed.

Definition pos_accept_or_wb (e : sev) : bool :=
  match e with Accept k => 1 <=? k | SFail e => is_wb e end.
Definition n_accepts (s : list sev) : Z :=
  zlen (filter (fun e => match e with Accept _ => true | _ => false end) s).

Lemma n_accepts_cons ev s :
  n_accepts (ev :: s) = (match ev with Accept _ => 1 | _ => 0 end) + n_accepts s.
Proof. unfold n_accepts. destruct ev; cbn [filter]; unfold zlen; cbn [length]; lia. Qed.

Lemma send_all_completes : forall s data y wire,
  forallb pos_accept_or_wb s = true -> Z.max 1 (zlen data) <= n_accepts s ->
  snd (fst (fst (send_all data y wire s))) = Done tt.
Proof.
  induction s as [|ev s IH]; intros data y wire Hall Hn.
  - unfold n_accepts in Hn. cbn in Hn. lia.
  - cbn [forallb] in Hall. apply andb_true_iff in Hall. destruct Hall as [Hev Hall].
    rewrite n_accepts_cons in Hn.
    destruct ev as [k|e]; cbn [send_all].
    + cbn in Hev. apply Z.leb_le in Hev.
      destruct (accepted k data =? zlen data) eqn:E; [reflexivity|].
      apply IH; [exact Hall|].
      unfold accepted in *. pose proof (zlen_nonneg data).
      rewrite zlen_skipn by lia. lia.
    + cbn in Hev. rewrite Hev. apply IH; [exact Hall|lia].
Qed.

Lemma sock_sendall_exact_l : forall s data wire,
  let r := sock_sendall data wire s in
  exists sent rest, data = sent ++ rest /\ snd (fst r) = wire ++ sent /\ (fst (fst r) = Done tt -> rest = []).
Proof.
  induction s as [|ev s IH]; intros data wire; cbn zeta.
  - cbn. exists [], data. rewrite app_nil_r. repeat split; try discriminate; auto.
  - destruct ev as [k|e]; cbn [sock_sendall].
    + destruct (accepted k data =? zlen data) eqn:E.
      * cbn [fst snd]. exists data, []. rewrite app_nil_r. auto.
      * specialize (IH (skipn (Z.to_nat (accepted k data)) data)
                       (wire ++ firstn (Z.to_nat (accepted k data)) data)).
        cbn zeta in IH. destruct IH as [sent [rest [H1 [H2 H3]]]].
        exists (firstn (Z.to_nat (accepted k data)) data ++ sent), rest.
        split; [rewrite <- app_assoc, <- H1; symmetry; apply firstn_skipn|].
        split; [rewrite H2, app_assoc; reflexivity|]. exact H3.
    + cbn [fst snd]. exists [], data. rewrite app_nil_r. repeat split; try discriminate; auto.
Qed.

Lemma sock_sendall_accept_only : forall s data wire,
  forallb sev_accept_only s = true ->
  forall e, fst (fst (sock_sendall data wire s)) <> Raised e.
Proof.
  induction s as [|ev s IH]; intros data wire Hall e.
  - cbn. discriminate.
  - cbn [forallb] in Hall. apply andb_true_iff in Hall. destruct Hall as [Hev Hall].
    destruct ev as [k|e0]; [|cbn in Hev; discriminate].
    cbn [sock_sendall]. destruct (accepted k data =? zlen data); [cbn; discriminate|].
    apply IH. exact Hall.
Qed.
