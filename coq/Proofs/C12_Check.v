(* C12 main proof: the generated ct_check_cbc_mac_and_pad equals Spec.CbcCheck.well_formed. *)
From Coq Require Import ZArith List Bool Lia.
From TV Require Import Base.Prelude Gen.ConstantTime Spec.CbcCheck Proofs.CtOps.
From TV Require Import Proofs.C12_Lemmas.
Import ListNotations.
Open Scope Z_scope.

Section Check.
Variables (data : list Z) (mac : HMac) (seq : list Z) (ty : Z) (ver : Z*Z) (bs : Z).
Hypothesis Hver : In ver [(3,0);(3,1);(3,2);(3,3)].
Hypothesis Hdata : all_bytes data = true.
Hypothesis Hlen : zlen data < 65536.
Hypothesis Hty : byte ty.
Hypothesis Hmbs : 0 < mac_bs mac.
Hypothesis Hmac : forall m, zlen (mac_fn mac m) = mac_ds mac /\ all_bytes (mac_fn mac m) = true.
Hypothesis Hbs : u32 bs.

Let n := zlen data.
Let ds := mac_ds mac.
Let p := nthZ data (n - 1).
Let ps := Z.max 0 (n - p - 1).
Let ms := Z.max 0 (ps - ds).
Let sp := Z.max 0 (n - (256 + ds)) / mac_bs mac * mac_bs mac.
Let r0 := Z.lor 0 (ct_lsb_prop_u8 (ct_lt_u32 n (p + 1 + ds))).
Let vb := if is_ssl3 ver then [] else [fst ver; snd ver].

Definition padR : Z :=
  if is_ssl3 ver then Z.lor r0 (ct_lsb_prop_u8 (ct_lt_u32 bs p))
  else fold_left (fun r i => Z.lor r (Z.land (Z.lxor (nthZ data i) p) (ct_lsb_prop_u8 (ct_le_u32 ps i))))
                 (zrange (Z.max 0 (n - 256)) n) r0.

Definition dig (i : Z) : list Z :=
  mac_fn mac (mac_acc mac ++ seq ++ [ty] ++ vb ++ [Z.shiftr ms 8] ++ [Z.land ms 255]
              ++ py_slice data None (Some sp) ++ py_slice data (Some sp) (Some i)).

Definition macR : Z :=
  fold_left (fun r i =>
     fold_left (fun r j => Z.lor r (Z.land (Z.lxor (nthZ data (i + j)) (nthZ (dig i) j))
                                          (ct_lsb_prop_u8 (ct_eq_u32 i ms))))
               (zrange 0 ds) r)
    (zrange sp (n - ds)) padR.

Lemma ds_nonneg : 0 <= ds.
Proof. destruct (Hmac []) as [H _]. unfold ds, zlen in *. lia. Qed.

Lemma p_byte : ds + 1 <= n -> byte p.
Proof. intros H. pose proof ds_nonneg. apply all_bytes_nth; [exact Hdata|]. fold n. lia. Qed.

Lemma sp_bounds : 0 <= sp <= Z.max 0 (n - (256 + ds)).
Proof.
  unfold sp. set (x := Z.max 0 (n - (256 + ds))). assert (0 <= x) by lia.
  pose proof (Z.mul_div_le x (mac_bs mac) Hmbs).
  pose proof (Z.div_pos x (mac_bs mac) H Hmbs). nia.
Qed.

Lemma ms_bounds : ds + 1 <= n -> 0 <= ms < n - ds /\ Z.max 0 (n - (256 + ds)) <= ms.
Proof.
  intros H. pose proof (p_byte H) as Hp. pose proof ds_nonneg. unfold byte in Hp. unfold ms, ps. lia.
Qed.

Lemma check_norm : ds + 1 <= n ->
  ct_check_cbc_mac_and_pad data mac seq ty ver bs = Ok (macR =? 0).
Proof.
  intros Hn. pose proof ds_nonneg as Hds. pose proof (p_byte Hn) as Hp.
  pose proof sp_bounds as Hsp. pose proof (ms_bounds Hn) as Hms.
  unfold ct_check_cbc_mac_and_pad.
  assert (Hv : existsb (pairZ_eqb ver) [(3, 0); (3, 1); (3, 2); (3, 3)] = true).
  { apply existsb_exists. exists ver. split; [exact Hver|]. apply pairZ_eqb_spec. reflexivity. }
  rewrite Hv. cbv zeta. fold n ds.
  rewrite Z.gtb_ltb. destruct (n <? ds + 1) eqn:E; [apply Z.ltb_lt in E; lia|].
  rewrite py_index_ok by (fold n; lia). cbn [bind]. fold p. fold ps. fold ms. fold r0.
  (* padding part *)
  assert (Hpad :
    (if pairZ_eqb ver (3, 0)
     then Ok (Z.lor r0 (ct_lsb_prop_u8 (ct_lt_u32 bs p)))
     else
      result <- foldM (fun result i => t3_ <- py_index data i ;;
                 Ok (Z.lor result (Z.land (Z.lxor t3_ p) (ct_lsb_prop_u8 (ct_le_u32 ps i)))))
               (zrange (Z.max 0 (n - 256)) n) r0 ;; Ok result) = Ok padR).
  { unfold padR, is_ssl3. destruct (pairZ_eqb ver (3, 0)); [reflexivity|].
    rewrite (foldM_ok_ext _ (fun r i => Z.lor r (Z.land (Z.lxor (nthZ data i) p) (ct_lsb_prop_u8 (ct_le_u32 ps i))))).
    - reflexivity.
    - intros a x Hx. apply in_zrange in Hx. rewrite py_index_ok by (fold n; lia). reflexivity. }
  rewrite Hpad. cbn [bind].
  unfold py_div. destruct (mac_bs mac =? 0) eqn:Eb; [lia|]. cbn [bind]. fold sp.
  rewrite (mk_byte_ok ty Hty). cbn [bind].
  (* header bytes *)
  assert (Hhdr :
    (if negb (pairZ_eqb ver (3, 0))
     then t6_ <- mk_byte (fst ver) ;; t7_ <- mk_byte (snd ver) ;;
          Ok (mac_update (mac_update (mac_update (mac_update mac seq) [ty]) t6_) t7_)
     else Ok (mac_update (mac_update mac seq) [ty]))
    = Ok (mac_update (mac_update (mac_update mac seq) [ty]) vb)).
  { unfold vb, is_ssl3.
    destruct Hver as [<-|[<-|[<-|[<-|[]]]]]; cbn; unfold mac_update; cbn;
      rewrite <- ?app_assoc; cbn; rewrite ?app_nil_r; reflexivity. }
  rewrite Hhdr. cbn [bind].
  rewrite (mk_byte_ok (Z.shiftr ms 8)).
  2:{ rewrite shiftr8_div. unfold byte. split; [apply Z.div_pos; lia|apply Z.div_lt_upper_bound; lia]. }
  cbn [bind].
  rewrite (mk_byte_ok (Z.land ms 255)).
  2:{ rewrite land255_mod. unfold byte. apply Z.mod_pos_bound. lia. }
  cbn [bind].
  (* MAC loop *)
  rewrite (foldM_ok_ext _ (fun r i =>
     fold_left (fun r j => Z.lor r (Z.land (Z.lxor (nthZ data (i + j)) (nthZ (dig i) j))
                                          (ct_lsb_prop_u8 (ct_eq_u32 i ms))))
               (zrange 0 ds) r)).
  - reflexivity.
  - intros a i Hi. apply in_zrange in Hi.
    rewrite (foldM_ok_ext _ (fun r j => Z.lor r (Z.land (Z.lxor (nthZ data (i + j)) (nthZ (dig i) j))
                                          (ct_lsb_prop_u8 (ct_eq_u32 i ms))))).
    + reflexivity.
    + intros b j Hj. apply in_zrange in Hj.
      rewrite py_index_ok by (fold n; lia). cbn [bind].
      assert (Hd : mac_digest
        (mac_update (mac_update (mac_update (mac_update (mac_update (mac_update (mac_update mac seq) [ty]) vb)
             [Z.shiftr ms 8]) [Z.land ms 255]) (py_slice data None (Some sp)))
             (py_slice data (Some sp) (Some i))) = dig i).
      { unfold dig, mac_digest, mac_update. cbn [mac_fn mac_acc]. rewrite <- !app_assoc. reflexivity. }
      rewrite Hd.
      rewrite py_index_ok by (destruct (Hmac (mac_acc mac ++ seq ++ [ty] ++ vb ++ [Z.shiftr ms 8] ++ [Z.land ms 255]
              ++ py_slice data None (Some sp) ++ py_slice data (Some sp) (Some i))) as [HL _]; unfold dig; rewrite HL; fold ds; lia).
      reflexivity.
Qed.

Lemma lor_mask_zero x (c : bool) : byte x ->
  (Z.land x (ct_lsb_prop_u8 (if c then 1 else 0)) = 0 <-> (c = true -> x = 0)).
Proof.
  intros Hx. rewrite lsb_if. destruct c.
  - rewrite land255_mod, Z.mod_small by exact Hx. split; [intros H _; exact H|intros H; apply H; reflexivity].
  - rewrite Z.land_0_r. split; [intros _ H; discriminate|reflexivity].
Qed.

Lemma xor_mask_zero a b (c : bool) : byte a -> byte b ->
  (Z.land (Z.lxor a b) (ct_lsb_prop_u8 (if c then 1 else 0)) = 0 <-> (c = true -> a = b)).
Proof.
  intros Ha Hb. rewrite lsb_if. destruct c.
  - rewrite byte_xor_mask by assumption. split; [intros H _; exact H|intros H; apply H; reflexivity].
  - rewrite Z.land_0_r. split; [intros _ H; discriminate|reflexivity].
Qed.

Lemma r0_zero_iff : ds + 1 <= n -> (r0 = 0 <-> p + 1 + ds <= n).
Proof.
  intros Hn. pose proof (p_byte Hn) as Hp. pose proof ds_nonneg. unfold byte in Hp.
  unfold r0. rewrite Z.lor_0_l, ct_lt_u32_spec by (unfold u32; lia). rewrite lsb_if.
  destruct (n <? p + 1 + ds) eqn:E; split; intros; try lia; try discriminate.
Qed.

Lemma dig_bytes i j : 0 <= j < ds -> byte (nthZ (dig i) j).
Proof.
  intros Hj. unfold dig.
  match goal with |- context [mac_fn mac ?m] => destruct (Hmac m) as [HL HB] end.
  apply all_bytes_nth; [exact HB|]. rewrite HL. exact Hj.
Qed.

Lemma macR_zero_iff : ds + 1 <= n ->
  (macR = 0 <-> padR = 0 /\ forall j, 0 <= j < ds -> nthZ data (ms + j) = nthZ (dig ms) j).
Proof.
  intros Hn. pose proof ds_nonneg as Hds. pose proof (ms_bounds Hn) as Hms. pose proof sp_bounds as Hsp.
  unfold macR.
  rewrite (fold_left_ext_in _ (fun r i => Z.lor r (fold_left (fun r j => Z.lor r (Z.land (Z.lxor (nthZ data (i + j)) (nthZ (dig i) j))
                                          (ct_lsb_prop_u8 (ct_eq_u32 i ms)))) (zrange 0 ds) 0))).
  2:{ intros a i _. apply (fold_lor_shift (fun j => Z.land (Z.lxor (nthZ data (i + j)) (nthZ (dig i) j))
                                          (ct_lsb_prop_u8 (ct_eq_u32 i ms)))). }
  rewrite (fold_lor_zero (fun i => fold_left (fun r j => Z.lor r (Z.land (Z.lxor (nthZ data (i + j)) (nthZ (dig i) j))
                                          (ct_lsb_prop_u8 (ct_eq_u32 i ms)))) (zrange 0 ds) 0)).
  split; intros [H1 H2]; (split; [exact H1|]).
  - intros j Hj.
    specialize (H2 ms ltac:(apply in_zrange; lia)). cbv beta in H2.
    rewrite (fold_lor_zero (fun j => Z.land (Z.lxor (nthZ data (ms + j)) (nthZ (dig ms) j))
                                          (ct_lsb_prop_u8 (ct_eq_u32 ms ms)))) in H2.
    destruct H2 as [_ H2]. specialize (H2 j ltac:(apply in_zrange; lia)). cbv beta in H2.
    rewrite ct_eq_u32_spec in H2 by (unfold u32; fold n in Hlen; lia).
    rewrite Z.eqb_refl in H2.
    assert (Hba : byte (nthZ data (ms + j))) by (apply all_bytes_nth; [exact Hdata|fold n; lia]).
    exact (proj1 (xor_mask_zero _ _ true Hba (dig_bytes ms j Hj)) H2 eq_refl).
  - intros i Hi. apply in_zrange in Hi. cbv beta.
    rewrite (fold_lor_zero (fun j => Z.land (Z.lxor (nthZ data (i + j)) (nthZ (dig i) j))
                                          (ct_lsb_prop_u8 (ct_eq_u32 i ms)))).
    split; [reflexivity|]. intros j Hj. apply in_zrange in Hj. cbv beta.
    rewrite ct_eq_u32_spec by (unfold u32; fold n in Hlen; lia).
    apply xor_mask_zero; [apply all_bytes_nth; [exact Hdata|fold n; lia]|apply dig_bytes; lia|].
    intros E. apply Z.eqb_eq in E. subst i. apply H2. lia.
Qed.

Definition pad_spec : bool :=
  if is_ssl3 ver then p <=? bs
  else forallb (fun i => nthZ data i =? p) (zrange (n - 1 - p) (n - 1)).

Lemma padR_zero_iff : ds + 1 <= n -> (padR = 0 <-> p + 1 + ds <= n /\ pad_spec = true).
Proof.
  intros Hn. pose proof (p_byte Hn) as Hp. pose proof ds_nonneg as Hds. unfold byte in Hp.
  pose proof (r0_zero_iff Hn) as Hr0.
  unfold padR, pad_spec. destruct (is_ssl3 ver).
  - rewrite Z.lor_eq_0_iff, Hr0.
    rewrite ct_lt_u32_spec by (unfold u32 in *; lia). rewrite lsb_if.
    destruct (bs <? p) eqn:E1, (p <=? bs) eqn:E2; try lia; split; intros [A B]; try discriminate; split; auto.
  - rewrite (fold_lor_zero (fun i => Z.land (Z.lxor (nthZ data i) p) (ct_lsb_prop_u8 (ct_le_u32 ps i)))), Hr0.
    split; intros [H1 H2]; (split; [exact H1|]).
    + apply forallb_forall. intros i Hi. apply in_zrange in Hi. apply Z.eqb_eq.
      specialize (H2 i ltac:(apply in_zrange; lia)). cbv beta in H2.
      rewrite ct_le_u32_spec in H2 by (unfold u32, ps; fold n in Hlen; lia).
      assert (Hbi : byte (nthZ data i)) by (apply all_bytes_nth; [exact Hdata|fold n; lia]).
      apply (proj1 (xor_mask_zero _ _ _ Hbi Hp) H2). apply Z.leb_le. unfold ps. lia.
    + rewrite forallb_forall in H2. intros i Hi. apply in_zrange in Hi. cbv beta.
      rewrite ct_le_u32_spec by (unfold u32, ps; fold n in Hlen; lia).
      assert (Hbi : byte (nthZ data i)) by (apply all_bytes_nth; [exact Hdata|fold n; lia]).
      apply (xor_mask_zero _ _ _ Hbi Hp). intros E. apply Z.leb_le in E. unfold ps in E.
      destruct (Z.eq_dec i (n - 1)) as [->|Hne]; [reflexivity|].
      apply Z.eqb_eq. apply H2. apply in_zrange. lia.
Qed.

Theorem check_eq_spec_sec :
  ct_check_cbc_mac_and_pad data mac seq ty ver bs = Ok (well_formed ver bs mac seq ty data).
Proof.
  pose proof ds_nonneg as Hds.
  destruct (Z_lt_le_dec n (ds + 1)) as [Hshort|Hn].
  - (* too short for a MAC and a padding length byte *)
    unfold ct_check_cbc_mac_and_pad, well_formed.
    assert (Hv : existsb (pairZ_eqb ver) [(3, 0); (3, 1); (3, 2); (3, 3)] = true).
    { apply existsb_exists. exists ver. split; [exact Hver|]. apply pairZ_eqb_spec. reflexivity. }
    rewrite Hv. cbv zeta. fold n ds. rewrite Z.gtb_ltb.
    destruct (n <? ds + 1) eqn:E; [reflexivity|apply Z.ltb_ge in E; lia].
  - rewrite (check_norm Hn). f_equal.
    pose proof (p_byte Hn) as Hp. unfold byte in Hp.
    pose proof (macR_zero_iff Hn) as HM. pose proof (padR_zero_iff Hn) as HP.
    unfold well_formed. cbv zeta. fold n ds. fold p.
    destruct (n <? ds + 1) eqn:E; [apply Z.ltb_lt in E; lia|].
    destruct (n <? p + 1 + ds) eqn:E2.
    + apply Z.ltb_lt in E2. apply Z.eqb_neq. intros H0. apply HM in H0. destruct H0 as [H0 _].
      apply HP in H0. lia.
    + apply Z.ltb_ge in E2.
      assert (Hms : ms = n - p - 1 - ds) by (unfold ms, ps; lia).
      pose proof sp_bounds as Hsp.
      assert (Hdig : dig ms = mac_fn mac (mac_acc mac ++ mac_header seq ty ver (n - p - 1 - ds)
                                            ++ firstn (Z.to_nat (n - p - 1 - ds)) data)).
      { unfold dig. rewrite (slices_join data sp ms) by (fold n; lia).
        rewrite shiftr8_div, land255_mod, Hms. unfold mac_header. fold vb.
        rewrite <- !app_assoc. reflexivity. }
      fold pad_spec.
      rewrite <- Hdig.
      destruct (macR =? 0) eqn:EM.
      * apply Z.eqb_eq in EM. apply HM in EM. destruct EM as [H1 H2]. apply HP in H1. destruct H1 as [_ H1].
        rewrite H1. cbn [andb]. symmetry. apply list_eqb_spec.
        rewrite <- Hms.
        apply (window_eq_pointwise data (dig ms) ms ds); try (fold n; lia).
        -- unfold dig. match goal with |- context [mac_fn mac ?m] => destruct (Hmac m) as [HL _] end. exact HL.
        -- exact H2.
      * symmetry. apply andb_false_iff.
        destruct pad_spec eqn:EP; [right|left; reflexivity].
        apply Z.eqb_neq in EM.
        destruct (list_eqb (firstn (Z.to_nat ds) (skipn (Z.to_nat (n - p - 1 - ds)) data)) (dig ms)) eqn:EL; [|reflexivity].
        exfalso. apply EM. apply HM. split; [apply HP; split; [lia|reflexivity]|].
        apply list_eqb_spec in EL. rewrite <- Hms in EL.
        apply (window_eq_pointwise data (dig ms) ms ds); try (fold n; lia).
        -- unfold dig. match goal with |- context [mac_fn mac ?m] => destruct (Hmac m) as [HL _] end. exact HL.
        -- exact EL.
Qed.
End Check.
