(* AES-GCM field arithmetic: the generated 4-bit table multiply AESGCM._mul (with the table built by AESGCM.__init__)
   is the GF(2^128) product of SP 800-38D 6.3 Algorithm 1 (Spec.C09_AEAD.gf128_mul) by H = AES_K(0^128). *)
From Coq Require Import ZArith List Bool Lia String.
From TV Require Import Base.Prelude Base.C09_Lib Base.C09_Oracle Gen.C09_AesModes Gen.C09_GCM
  Spec.C09_Poly1305 Spec.C09_Modes Spec.C09_AEAD Proofs.C09_Lists.
Import ListNotations.
Open Scope list_scope.
Open Scope Z_scope.

Definition W128 : Z := 2 ^ 128.
Definition mulx (v : Z) : Z := if Z.testbit v 0 then Z.lxor (Z.shiftr v 1) gcm_R else Z.shiftr v 1.
Definition mulxn (n : nat) (v : Z) : Z := Nat.iter n mulx v.

Lemma lxor_lt_pow2 n a b : 0 < n -> 0 <= a < 2 ^ n -> 0 <= b < 2 ^ n -> 0 <= Z.lxor a b < 2 ^ n.
Proof.
  intros Hn Ha Hb. split; [apply Z.lxor_nonneg; split; intros _; [apply Hb|apply Ha]|].
  destruct (Z.eq_dec (Z.lxor a b) 0) as [->|Hne]; [apply Z.pow_pos_nonneg; lia|].
  assert (Hp : 0 < Z.lxor a b).
  { assert (0 <= Z.lxor a b) by (apply Z.lxor_nonneg; split; intros _; [apply Hb|apply Ha]). lia. }
  apply Z.log2_lt_pow2; [exact Hp|].
  eapply Z.le_lt_trans; [apply Z.log2_lxor; lia|].
  apply Z.max_lub_lt.
  - destruct (Z.eq_dec a 0) as [->|Na]; [cbn; lia|]. apply Z.log2_lt_pow2; [destruct Ha; lia|apply Ha].
  - destruct (Z.eq_dec b 0) as [->|Nb]; [cbn; lia|]. apply Z.log2_lt_pow2; [destruct Hb; lia|apply Hb].
Qed.

Lemma mulx_bound v : 0 <= v < W128 -> 0 <= mulx v < W128.
Proof.
  intros H. unfold mulx, W128 in *.
  assert (Hs : 0 <= Z.shiftr v 1 < 2 ^ 127).
  { rewrite Z.shiftr_div_pow2 by lia. change (2 ^ 1) with 2. split; [apply Z.div_pos; lia|].
    apply Z.div_lt_upper_bound; [lia|]. change (2 * 2 ^ 127) with (2 ^ 128). lia. }
  destruct (Z.testbit v 0).
  - apply lxor_lt_pow2; [lia| |]; [assert (2 ^ 127 < 2 ^ 128) by (apply Z.pow_lt_mono_r; lia); lia|].
    unfold gcm_R. vm_compute. split; [discriminate|reflexivity].
  - assert (2 ^ 127 < 2 ^ 128) by (apply Z.pow_lt_mono_r; lia). lia.
Qed.

Lemma mulxn_bound n v : 0 <= v < W128 -> 0 <= mulxn n v < W128.
Proof. intros H. induction n as [|n IH]; [exact H|]. unfold mulxn in *. simpl. apply mulx_bound. exact IH. Qed.

Lemma mulx_0 : mulx 0 = 0.
Proof. reflexivity. Qed.

Lemma mulxn_0 n : mulxn n 0 = 0.
Proof. induction n as [|n IH]; [reflexivity|]. unfold mulxn in *. simpl. rewrite IH. reflexivity. Qed.

(* multiplication by x is linear over XOR *)
Lemma mulx_lxor a b : mulx (Z.lxor a b) = Z.lxor (mulx a) (mulx b).
Proof.
  unfold mulx. rewrite Z.lxor_spec, Z.shiftr_lxor.
  destruct (Z.testbit a 0), (Z.testbit b 0); unfold Datatypes.xorb; cbv iota;
    apply Z.bits_inj'; intros n Hn; rewrite ?Z.lxor_spec;
    destruct (Z.testbit (Z.shiftr a 1) n), (Z.testbit (Z.shiftr b 1) n), (Z.testbit gcm_R n); reflexivity.
Qed.

Lemma mulxn_lxor n a b : mulxn n (Z.lxor a b) = Z.lxor (mulxn n a) (mulxn n b).
Proof. induction n as [|n IH]; [reflexivity|]. unfold mulxn in *. simpl. rewrite IH. apply mulx_lxor. Qed.

Lemma mulx_shiftl a k : 0 <= k -> mulx (Z.shiftl a (k + 1)) = Z.shiftl a k.
Proof.
  intros Hk. unfold mulx. rewrite Z.shiftl_spec_low by lia.
  rewrite Z.shiftr_shiftl_l by lia. f_equal. lia.
Qed.

Lemma mulxn_shiftl k a : mulxn k (Z.shiftl a (Z.of_nat k)) = a.
Proof.
  induction k as [|k IH]; [apply Z.shiftl_0_r|].
  unfold mulxn in *. change (Nat.iter (S k) mulx (Z.shiftl a (Z.of_nat (S k)))) with (mulx (Nat.iter k mulx (Z.shiftl a (Z.of_nat (S k))))).
  rewrite <- iter_shift. rewrite Nat2Z.inj_succ, <- Z.add_1_r. rewrite mulx_shiftl by lia. exact IH.
Qed.

Definition RT : list Z := [0; 7200; 14400; 9312; 28800; 27808; 18624; 21728; 57600; 64800; 55616; 50528; 37248; 36256; 43456; 46560].

Lemma red4_low : forallb (fun l => mulxn 4 l =? Z.shiftl (nthZ RT l) 112) (zrange 0 16) = true.
Proof. vm_compute. reflexivity. Qed.

Lemma split_nibble r : r = Z.lxor (Z.shiftl (Z.shiftr r 4) 4) (Z.land r 15).
Proof.
  apply Z.bits_inj'. intros n Hn. rewrite Z.lxor_spec, Z.land_spec. change 15 with (Z.ones 4).
  destruct (Z_lt_le_dec n 4) as [L|L].
  - rewrite Z.shiftl_spec_low by lia. rewrite Z.ones_spec_low by lia. rewrite andb_true_r. destruct (Z.testbit r n); reflexivity.
  - rewrite Z.shiftl_spec by lia. rewrite Z.shiftr_spec by lia. rewrite Z.ones_spec_high by lia.
    rewrite andb_false_r, xorb_false_r. f_equal. lia.
Qed.

(* the 4-bit reduction step of AESGCM._mul is multiplication by x^4 *)
Lemma red4 r : 0 <= r ->
  Z.lxor (Z.shiftr r 4) (Z.shiftl (nthZ RT (Z.land r 15)) 112) = mulxn 4 r.
Proof.
  intros Hr. rewrite (split_nibble r) at 3. rewrite mulxn_lxor.
  assert (E1 : mulxn 4 (Z.shiftl (Z.shiftr r 4) 4) = Z.shiftr r 4).
  { exact (mulxn_shiftl 4 (Z.shiftr r 4)). }
  rewrite E1. f_equal.
  assert (Hl : 0 <= Z.land r 15 < 16).
  { change 15 with (Z.ones 4). rewrite Z.land_ones by lia. apply Z.mod_pos_bound. reflexivity. }
  pose proof red4_low as F. rewrite forallb_forall in F.
  specialize (F (Z.land r 15) ltac:(apply in_zrange; lia)). apply Z.eqb_eq in F. symmetry. exact F.
Qed.

(* ---- XOR sums ------------------------------------------------------------------------------- *)
Definition xs (c : Z -> bool) (f : Z -> Z) (l : list Z) (z0 : Z) : Z :=
  fold_left (fun z i => if c i then Z.lxor z (f i) else z) l z0.

Lemma xs_start c f l z0 : xs c f l z0 = Z.lxor z0 (xs c f l 0).
Proof.
  unfold xs. revert z0. induction l as [|i l IH]; intros z0; cbn [fold_left]; [rewrite Z.lxor_0_r; reflexivity|].
  rewrite IH. rewrite (IH (if c i then Z.lxor 0 (f i) else 0)).
  destruct (c i); [rewrite Z.lxor_0_l, Z.lxor_assoc; reflexivity|rewrite Z.lxor_0_l; reflexivity].
Qed.

Lemma xs_app c f l1 l2 : xs c f (l1 ++ l2) 0 = Z.lxor (xs c f l1 0) (xs c f l2 0).
Proof. unfold xs at 1. rewrite fold_left_app. fold (xs c f l1 0). fold (xs c f l2 (xs c f l1 0)). apply xs_start. Qed.

Lemma xs_ext c d f g l z : (forall i, In i l -> c i = d i /\ f i = g i) -> xs c f l z = xs d g l z.
Proof.
  unfold xs. revert z. induction l as [|i l IH]; intros z H; cbn [fold_left]; [reflexivity|].
  destruct (H i (or_introl eq_refl)) as [-> ->]. apply IH. intros j Hj. apply H. right. exact Hj.
Qed.

Lemma xs_map c f (g : Z -> Z) l z : xs c f (map g l) z = xs (fun i => c (g i)) (fun i => f (g i)) l z.
Proof. unfold xs. revert z. induction l as [|i l IH]; intros z; cbn [map fold_left]; [reflexivity|]. apply IH. Qed.

Lemma xs_mulxn n c f l : mulxn n (xs c f l 0) = xs c (fun i => mulxn n (f i)) l 0.
Proof.
  induction l as [|i l IH] using rev_ind; [apply mulxn_0|].
  rewrite !xs_app, mulxn_lxor, IH. f_equal. unfold xs. cbn [fold_left].
  destruct (c i); [rewrite !Z.lxor_0_l; reflexivity|apply mulxn_0].
Qed.

Lemma xs_bound c f l z : 0 <= z < W128 -> (forall i, In i l -> 0 <= f i < W128) -> 0 <= xs c f l z < W128.
Proof.
  unfold xs. revert z. induction l as [|i l IH]; intros z Hz H; cbn [fold_left]; [exact Hz|].
  apply IH; [|intros j Hj; apply H; right; exact Hj].
  destruct (c i); [|exact Hz]. apply (lxor_lt_pow2 128); [lia|exact Hz|apply H; left; reflexivity].
Qed.

(* ---- the SP 800-38D product as an XOR sum ----------------------------------------------------- *)
Lemma mulxn_S n v : mulxn (S n) v = mulx (mulxn n v).
Proof. reflexivity. Qed.

Lemma gf128_fold x y : forall k a z, 0 <= a ->
  fold_left (fun '(z, v) i =>
               (if Z.testbit x (127 - i) then Z.lxor z v else z,
                if Z.testbit v 0 then Z.lxor (Z.shiftr v 1) gcm_R else Z.shiftr v 1))
            (zrange a (a + Z.of_nat k)) (z, mulxn (Z.to_nat a) y)
  = (xs (fun i => Z.testbit x (127 - i)) (fun i => mulxn (Z.to_nat i) y) (zrange a (a + Z.of_nat k)) z,
     mulxn (Z.to_nat (a + Z.of_nat k)) y).
Proof.
  induction k as [|k IH]; intros a z Ha.
  - rewrite Z.add_0_r, zrange_empty by lia. reflexivity.
  - rewrite zrange_cons by lia. unfold xs. cbn [fold_left]. fold (mulx (mulxn (Z.to_nat a) y)).
    rewrite <- mulxn_S. replace (S (Z.to_nat a)) with (Z.to_nat (a + 1)) by lia.
    replace (a + Z.of_nat (S k)) with (a + 1 + Z.of_nat k) by lia.
    rewrite IH by lia. reflexivity.
Qed.

Lemma gf128_mul_xs x y :
  gf128_mul x y = xs (fun i => Z.testbit x (127 - i)) (fun i => mulxn (Z.to_nat i) y) (zrange 0 128) 0.
Proof.
  unfold gf128_mul. pose proof (gf128_fold x y 128 0 0 ltac:(lia)) as H.
  change (0 + Z.of_nat 128) with 128 in H. change (mulxn (Z.to_nat 0) y) with y in H. rewrite H. reflexivity.
Qed.

Lemma iter_add' {A} (f : A -> A) n m x : Nat.iter (n + m) f x = Nat.iter m f (Nat.iter n f x).
Proof.
  revert x. induction n as [|n IH]; intros x; [reflexivity|].
  change (Nat.iter (S n + m) f x) with (f (Nat.iter (n + m) f x)). rewrite IH.
  change (Nat.iter (S n) f x) with (f (Nat.iter n f x)). symmetry. apply iter_shift.
Qed.

(* ---- nibble-wise evaluation -------------------------------------------------------------------- *)
Section Nibbles.
  Variables (y h : Z).
  Hypothesis Hh : 0 <= h < W128.

  Let c := fun i => Z.testbit y (127 - i).

  (* the contribution of the 4k lowest-order bits of y (the highest powers of x), divided by x^(128-4k) *)
  Definition psum (k : Z) : Z :=
    xs c (fun i => mulxn (Z.to_nat (i - (128 - 4 * k))) h) (zrange (128 - 4 * k) 128) 0.

  (* the product of a 4-bit polynomial (bit 3 = x^0 ... bit 0 = x^3) with h *)
  Definition tsum (nib : Z) : Z :=
    xs (fun b => Z.testbit nib (3 - b)) (fun b => mulxn (Z.to_nat b) h) [0; 1; 2; 3] 0.

  Lemma tsum_bound nib : 0 <= tsum nib < W128.
  Proof. apply xs_bound; [unfold W128; lia|]. intros i _. apply mulxn_bound. exact Hh. Qed.

  Lemma psum_bound k : 0 <= psum k < W128.
  Proof. apply xs_bound; [unfold W128; lia|]. intros i _. apply mulxn_bound. exact Hh. Qed.

  Lemma psum_0 : psum 0 = 0.
  Proof. unfold psum. rewrite zrange_empty by lia. reflexivity. Qed.

  Lemma psum_32 : psum 32 = gf128_mul y h.
  Proof.
    rewrite gf128_mul_xs. unfold psum. change (128 - 4 * 32) with 0. apply xs_ext. intros i Hi.
    split; [reflexivity|]. rewrite Z.sub_0_r. reflexivity.
  Qed.

  Lemma nibble_bit k b : 0 <= k -> 0 <= b < 4 ->
    Z.testbit (Z.land (Z.shiftr y (4 * k)) 15) (3 - b) = Z.testbit y (127 - (128 - 4 * (k + 1) + b)).
  Proof.
    intros Hk Hb. rewrite Z.land_spec, Z.shiftr_spec by lia. change 15 with (Z.ones 4).
    rewrite Z.ones_spec_low by lia. rewrite andb_true_r. f_equal. lia.
  Qed.

  Lemma psum_step k : 0 <= k < 32 ->
    psum (k + 1) = Z.lxor (mulxn 4 (psum k)) (tsum (Z.land (Z.shiftr y (4 * k)) 15)).
  Proof.
    intros Hk. unfold psum at 1. set (a := 128 - 4 * (k + 1)).
    rewrite (zrange_split a (a + 4) 128) by lia. rewrite xs_app. rewrite Z.lxor_comm. f_equal.
    - (* the old terms, one nibble further *)
      unfold psum. rewrite xs_mulxn. replace (128 - 4 * k) with (a + 4) by lia.
      apply xs_ext. intros i Hi. apply in_zrange in Hi. split; [reflexivity|].
      unfold mulxn. rewrite <- iter_add'. f_equal. lia.
    - (* the four new terms *)
      unfold tsum.
      replace (zrange a (a + 4)) with (map (fun b => a + b) [0; 1; 2; 3]).
      2:{ rewrite (zrange_cons a) by lia. rewrite (zrange_cons (a + 1)) by lia. rewrite (zrange_cons (a + 1 + 1)) by lia.
          rewrite (zrange_cons (a + 1 + 1 + 1)) by lia. rewrite zrange_empty by lia. cbn [map].
          replace (a + 0) with a by lia. replace (a + 1 + 1) with (a + 2) by lia. replace (a + 2 + 1) with (a + 3) by lia. reflexivity. }
      rewrite xs_map. apply xs_ext. intros b Hb.
      assert (0 <= b < 4) by (cbn [In] in Hb; lia).
      split.
      + unfold c. symmetry. apply nibble_bit; lia.
      + f_equal. lia.
  Qed.
End Nibbles.

(* ---- the generated table-driven multiply ----------------------------------------------------------- *)
Definition table_ok (T : list Z) (h : Z) : Prop :=
  List.length T = 16%nat /\ forall j, 0 <= j < 16 -> nthZ T j = tsum h j.

Section Mul.
  Variable O : BlockOracle.
  Variables (k0 : list Z) (ctr0 : AESCTR) (T : list Z) (h : Z).
  Hypothesis Hh : 0 <= h < W128.
  Hypothesis HT : table_ok T h.

  Variable y0 : Z.
  Hypothesis Hy : 0 <= y0 < W128.

  Let body := (fun '(ret, y) (i : Z) =>
    let retHigh := (Z.land ret 15) in
    let ret := (Z.shiftr ret 4) in
    t2_ <- py_index [0; 7200; 14400; 9312; 28800; 27808; 18624; 21728; 57600; 64800; 55616; 50528; 37248; 36256; 43456; 46560] retHigh ;;
    let ret := (Z.lxor ret (Z.shiftl t2_ 112)) in
    t3_ <- py_index T (Z.land y 15) ;;
    let ret := (Z.lxor ret t3_) in
    let y := (Z.shiftr y 4) in
    @Ok (Z * Z) (ret, y)).

  Lemma land15 v : 0 <= Z.land v 15 < 16.
  Proof. change 15 with (Z.ones 4). rewrite Z.land_ones by lia. apply Z.mod_pos_bound. reflexivity. Qed.

  Lemma mul_step k i : 0 <= k < 32 ->
    body (psum y0 h k, Z.shiftr y0 (4 * k)) i = Ok (psum y0 h (k + 1), Z.shiftr y0 (4 * (k + 1))).
  Proof.
    intros Hk. unfold body. cbv zeta.
    pose proof (psum_bound y0 h Hh k) as Bp. pose proof (land15 (psum y0 h k)) as L1. pose proof (land15 (Z.shiftr y0 (4 * k))) as L2.
    rewrite py_index_ok by (change (zlen _) with 16; lia). rewrite bind_ok.
    destruct HT as [LT PT].
    rewrite py_index_ok by (unfold zlen; lia). rewrite bind_ok.
    fold RT. rewrite red4 by lia. rewrite PT by lia.
    rewrite <- (psum_step y0 h k Hk). rewrite Z.shiftr_shiftr by lia. do 3 f_equal. lia.
  Qed.

  Lemma mul_loop : forall (l : list Z) k, 0 <= k -> k + zlen l <= 32 ->
    foldM body l (psum y0 h k, Z.shiftr y0 (4 * k)) = Ok (psum y0 h (k + zlen l), Z.shiftr y0 (4 * (k + zlen l))).
  Proof.
    induction l as [|i l IH]; intros k Hk Hl.
    - change (zlen (@nil Z)) with 0. rewrite Z.add_0_r. reflexivity.
    - rewrite zlen_cons in *. pose proof (zlen_nonneg l). cbn [foldM]. rewrite mul_step by lia. rewrite bind_ok.
      rewrite IH by lia. do 3 f_equal; lia.
  Qed.

  (* AESGCM._mul(y) = y . H  (SP 800-38D 6.3), given that the 16-entry product table is right *)
  Lemma gcm_mul_ok : gcm_mul O (mkAESGCM k0 ctr0 T) y0 = Ok (gf128_mul y0 h).
  Proof.
    unfold gcm_mul. cbn [gcm_key gcm__ctr gcm__productTable]. fold body.
    assert (E0 : (0, y0) = (psum y0 h 0, Z.shiftr y0 (4 * 0))) by (rewrite psum_0, Z.shiftr_0_r; reflexivity).
    rewrite E0. rewrite (mul_loop (py_range 0 128 4) 0) by (try lia; vm_compute; discriminate).
    rewrite bind_ok. change (0 + zlen (py_range 0 128 4)) with 32. change (4 * 32) with 128.
    assert (Ez : Z.shiftr y0 128 = 0).
    { rewrite Z.shiftr_div_pow2 by lia. apply Z.div_small. exact Hy. }
    rewrite Ez. cbn [Z.eqb]. rewrite psum_32. reflexivity.
  Qed.
End Mul.

(* ---- the 16-entry product table built by AESGCM.__init__ ----------------------------------------------- *)
Section Table.
  Variable O : BlockOracle.
  Variable sh : Z -> Z.
  Variable ad : Z -> Z -> Z.
  Variable h : Z.

  Definition build_table : res (list Z) :=
    let self__productTable := (py_repeat [0] 16) in
    t3_ <- gcm_reverseBits O 1 ;;
    self__productTable <- py_store self__productTable t3_ h ;;
    self__productTable <- foldM (fun self__productTable i =>
      t7_ <- gcm_reverseBits O (Z.div i 2) ;;
      t8_ <- py_index self__productTable t7_ ;;
      t9_ <- gcm_reverseBits O i ;;
      self__productTable <- py_store self__productTable t9_ (sh t8_) ;;
      t10_ <- gcm_reverseBits O i ;;
      t11_ <- py_index self__productTable t10_ ;;
      t12_ <- gcm_reverseBits O (Z.add i 1) ;;
      self__productTable <- py_store self__productTable t12_ (ad t11_ h) ;;
      Ok self__productTable) (py_range 2 16 2) self__productTable ;;
    Ok self__productTable.
End Table.

Lemma build_table_val O sh ad h :
  build_table O sh ad h = Ok
         [0; sh (sh (sh h)); sh (sh h); sh (sh (ad (sh h) h));
          sh h; sh (ad (sh (sh h)) h); sh (ad (sh h) h);
          sh (ad (sh (ad (sh h) h)) h); h; ad (sh (sh (sh h))) h;
          ad (sh (sh h)) h; ad (sh (sh (ad (sh h) h))) h;
          ad (sh h) h; ad (sh (ad (sh (sh h)) h)) h;
          ad (sh (ad (sh h) h)) h; ad (sh (ad (sh (ad (sh h) h)) h)) h].
Proof. vm_compute. reflexivity. Qed.

Lemma gcmShift_mulx O x : gcm_gcmShift O x = mulx x.
Proof.
  unfold gcm_gcmShift, mulx. cbv zeta.
  assert (E : z_true (Z.land x 1) = Z.testbit x 0).
  { unfold z_true. change 1 with (Z.ones 1). rewrite Z.land_ones by lia. change (2 ^ 1) with 2.
    pose proof (Z.bit0_mod x) as B. destruct (Z.testbit x 0); cbn [Z.b2z] in B; rewrite <- B; reflexivity. }
  rewrite E. destruct (Z.testbit x 0); reflexivity.
Qed.

Lemma table_built_ok h :
  table_ok [0; mulx (mulx (mulx h)); mulx (mulx h); mulx (mulx (Z.lxor (mulx h) h));
            mulx h; mulx (Z.lxor (mulx (mulx h)) h); mulx (Z.lxor (mulx h) h);
            mulx (Z.lxor (mulx (Z.lxor (mulx h) h)) h); h; Z.lxor (mulx (mulx (mulx h))) h;
            Z.lxor (mulx (mulx h)) h; Z.lxor (mulx (mulx (Z.lxor (mulx h) h))) h;
            Z.lxor (mulx h) h; Z.lxor (mulx (Z.lxor (mulx (mulx h)) h)) h;
            Z.lxor (mulx (Z.lxor (mulx h) h)) h; Z.lxor (mulx (Z.lxor (mulx (Z.lxor (mulx h) h)) h)) h] h.
Proof.
  split; [reflexivity|]. intros j Hj.
  assert (Hc : j = 0 \/ j = 1 \/ j = 2 \/ j = 3 \/ j = 4 \/ j = 5 \/ j = 6 \/ j = 7 \/ j = 8 \/ j = 9 \/ j = 10 \/
               j = 11 \/ j = 12 \/ j = 13 \/ j = 14 \/ j = 15) by lia.
  repeat (destruct Hc as [->|Hc]); [.. | subst j];
    unfold nthZ, tsum, xs, mulxn; cbn [fold_left];
    repeat match goal with |- context [Z.to_nat ?a] =>
             let v := eval vm_compute in (Z.to_nat a) in change (Z.to_nat a) with v end;
    cbn [nth]; cbv beta iota delta [Nat.iter nat_rect];
    repeat match goal with |- context [Z.testbit ?a ?b] =>
             let v := eval vm_compute in (Z.testbit a b) in change (Z.testbit a b) with v end;
    cbv iota;
    rewrite ?mulx_lxor;
    apply Z.bits_inj'; intros n Hn; rewrite ?Z.lxor_spec, ?Z.bits_0;
    destruct (Z.testbit h n), (Z.testbit (mulx h) n), (Z.testbit (mulx (mulx h)) n), (Z.testbit (mulx (mulx (mulx h))) n);
    reflexivity.
Qed.

Lemma be_num_bound (l : list Z) : all_bytes l = true -> 0 <= be_num l < 256 ^ zlen l.
Proof.
  intros H. unfold be_num.
  assert (G : forall m : list Z, all_bytes m = true -> 0 <= le_num m < 256 ^ zlen m).
  { induction m as [|x m IH]; intros Hm; [cbn; lia|].
    unfold all_bytes in *. cbn [forallb] in Hm. apply andb_true_iff in Hm. destruct Hm as [Hx Hm].
    specialize (IH Hm). cbn [le_num]. rewrite zlen_cons.
    rewrite Z.pow_add_r by (pose proof (zlen_nonneg m); lia). change (256 ^ 1) with 256.
    unfold is_byte in Hx. apply andb_true_iff in Hx. destruct Hx as [H0 H1].
    apply Z.leb_le in H0. apply Z.ltb_lt in H1. nia. }
  replace (zlen l) with (zlen (rev l)) by (unfold zlen; rewrite rev_length; reflexivity).
  apply G. unfold all_bytes in *. rewrite forallb_forall in *. intros x Hx. apply H. apply in_rev. exact Hx.
Qed.

(* AESGCM.__init__ builds the right table for H = AES_K(0^128) *)
Lemma gcm_init_table O key impl raw g : gcm_init O key impl raw = Ok g ->
  gcm_key g = key /\ table_ok (gcm__productTable g) (bytesToNumber (bo_enc O key (repeat 0 16))).
Proof.
  unfold gcm_init.
  destruct (if zlen key =? 16 then Ok tt else if zlen key =? 32 then Ok tt else Err AssertionError) as [u|e];
    cbn [bind]; [|discriminate].
  destruct (ctr_init O key 6 (py_repeat [0] 16)) as [ctr|e]; cbn [bind]; [|discriminate].
  unfold py_zeros. change (16 <? 0) with false. cbv iota. cbn [bind]. change (Z.to_nat 16) with 16%nat.
  set (h := bytesToNumber (bo_enc O key (repeat 0 16))).
  pose proof (build_table_val O (gcm_gcmShift O) (gcm_gcmAdd O) h) as B. unfold build_table in B. cbv zeta in B |- *.
  destruct (gcm_reverseBits O 1) as [r1|e]; cbn [bind] in B |- *; [|discriminate].
  destruct (py_store (py_repeat [0] 16) r1 h) as [T1|e]; cbn [bind] in B |- *; [|discriminate].
  match type of B with (bind (foldM ?f ?l ?a) _) = _ => destruct (foldM f l a) as [T|e] end; cbn [bind] in B |- *; [|discriminate].
  injection B as ->. intros G. injection G as <-. cbn [gcm_key gcm__productTable]. split; [reflexivity|].
  unfold gcm_gcmAdd. rewrite !gcmShift_mulx. apply table_built_ok.
Qed.

(* gcm_mul_eq_gf128: the 4-bit table multiply of an initialised AESGCM object is the SP 800-38D product by H *)
Lemma gcm_mul_eq_gf128_code O key impl raw g y :
  (List.length (bo_enc O key (repeat 0 16)) = 16%nat /\ all_bytes (bo_enc O key (repeat 0 16)) = true) ->
  gcm_init O key impl raw = Ok g -> 0 <= y < 2 ^ 128 ->
  gcm_mul O g y = Ok (gf128_mul y (be_num (bo_enc O key (repeat 0 16)))).
Proof.
  intros [HL HB] Hi Hy. destruct (gcm_init_table O key impl raw g Hi) as [Hk HT].
  destruct g as [k ctr T]. cbn [gcm_key gcm__productTable] in Hk, HT. subst k.
  apply (gcm_mul_ok O key ctr T (be_num (bo_enc O key (repeat 0 16)))); [|exact HT|exact Hy].
  pose proof (be_num_bound _ HB) as Bd. replace (zlen (bo_enc O key (repeat 0 16))) with 16 in Bd by (unfold zlen; lia).
  exact Bd.
Qed.
