(* HKDF-Expand, P_hash and the TLS PRFs: generated code (Gen/C09_KDF.v) vs the RFC definitions
   (Spec/C09_KDF.v), for arbitrary hash/HMAC oracles. *)
From Coq Require Import ZArith List Bool Lia String.
From TV Require Import Base.Prelude Base.C09_Lib Base.C09_Oracle Gen.C09_KDF Spec.C09_Poly1305 Spec.C09_KDF
  Proofs.C09_Lists Toy.ToyMac Toy.C09_ToyOracle.
Import ListNotations.
Open Scope list_scope.
Open Scope Z_scope.

Section HKDF.
  Variable Orc : Oracles.
  Variables (alg : string) (prk info : list Z).

  Let T := hkdf_T Orc alg prk info.
  Let okm (j : nat) : list Z := hkdf_okm Orc alg prk info j.

  Let body := (fun '(Titer, T0) x =>
      t4_ <- mk_bytes [x] ;;
      let Titer := o_hmac Orc alg prk ((Titer ++ info) ++ t4_) in
      let T0 := T0 ++ Titer in
      Ok (Titer, T0)).

  (* after m iterations: Titer = T(m), T = T(1) | ... | T(m) *)
  Lemma hkdf_loop (m : nat) : (m <= 255)%nat ->
    foldM body (zrange 1 (Z.of_nat m + 1)) ([], []) = Ok (T m, okm m).
  Proof.
    induction m as [|m IH]; intros Hm.
    - reflexivity.
    - replace (Z.of_nat (S m) + 1) with (Z.of_nat m + 1 + 1) by lia.
      rewrite zrange_snoc by lia. rewrite foldM_app, IH by lia. rewrite bind_ok.
      cbn [foldM]. unfold body at 1. unfold mk_bytes, all_bytes. cbn [forallb].
      replace (is_byte (Z.of_nat m + 1)) with true by (symmetry; unfold is_byte; lia).
      cbn [andb]. rewrite !bind_ok.
      assert (ET : o_hmac Orc alg prk ((T m ++ info) ++ [Z.of_nat m + 1]) = T (S m)).
      { unfold T. cbn [hkdf_T]. rewrite <- app_assoc. do 4 f_equal. lia. }
      rewrite ET. f_equal. f_equal.
      unfold okm, hkdf_okm. rewrite seq_snoc, map_app, concat_app. cbn [map List.concat plus]. rewrite app_nil_r. reflexivity.
  Qed.

  (* a 256th block would need the counter byte 256 *)
  Lemma hkdf_loop_256 (rest : list Z) :
    foldM body (zrange 1 (Z.of_nat 255 + 1) ++ 256 :: rest) ([], []) = Err ValueError.
  Proof. rewrite foldM_app, hkdf_loop by lia. rewrite bind_ok. reflexivity. Qed.

  Lemma HKDF_expand_ok hl L : digest_size alg = Some hl -> 0 < hl -> 0 <= L <= 255 * hl ->
    HKDF_expand Orc prk info L alg =
    Ok (firstn (Z.to_nat L) (hkdf_okm Orc alg prk info (Z.to_nat ((L + hl - 1) / hl)))).
  Proof.
    intros Hd Hhl HL. unfold HKDF_expand, py_digest_size. rewrite Hd, bind_ok.
    unfold divceil, py_divmod. destruct (hl =? 0) eqn:E; [lia|]. rewrite !bind_ok.
    rewrite divceil_pos_val by lia.
    set (N := (L + hl - 1) / hl).
    assert (HN : 0 <= N <= 255).
    { unfold N. split; [apply Z.div_pos; lia|]. apply Z.lt_succ_r. apply Z.div_lt_upper_bound; lia. }
    fold body.
    replace (N + 1) with (Z.of_nat (Z.to_nat N) + 1) by lia.
    rewrite hkdf_loop by lia. rewrite bind_ok.
    rewrite py_slice_to by lia. reflexivity.
  Qed.

  (* beyond the RFC's range the function refuses *)
  Lemma HKDF_expand_too_long hl L : digest_size alg = Some hl -> 0 < hl -> 255 * hl < L ->
    HKDF_expand Orc prk info L alg = Err ValueError.
  Proof.
    intros Hd Hhl HL. unfold HKDF_expand, py_digest_size. rewrite Hd, bind_ok.
    unfold divceil, py_divmod. destruct (hl =? 0) eqn:E; [lia|]. rewrite !bind_ok.
    rewrite divceil_pos_val by lia.
    set (N := (L + hl - 1) / hl).
    assert (HN : 256 <= N).
    { unfold N. apply Z.div_le_lower_bound; lia. }
    fold body.
    rewrite (zrange_split 1 256 (N + 1)) by lia. rewrite (zrange_cons 256) by lia.
    change 256 with (Z.of_nat 255 + 1) at 1. rewrite hkdf_loop_256. reflexivity.
  Qed.
End HKDF.

Lemma digest_size_pos alg hl : digest_size alg = Some hl -> 0 < hl.
Proof.
  intros Hd. unfold digest_size in Hd.
  repeat match type of Hd with (if ?c then _ else _) = _ => destruct c; [injection Hd as <-; lia|] end. discriminate.
Qed.

(* the RFC's function, wherever it is defined (0 <= L <= 255*HashLen), is what the code returns *)
Lemma hkdf_expand_full Orc alg prk info L okm :
  hkdf_expand_rfc Orc alg prk info L = Some okm -> HKDF_expand Orc prk info L alg = Ok okm.
Proof.
  unfold hkdf_expand_rfc. destruct (digest_size alg) as [hl|] eqn:Hd; [|discriminate].
  destruct ((0 <=? L) && (L <=? 255 * hl)) eqn:E; [|discriminate]. intros H. injection H as <-.
  apply HKDF_expand_ok; [exact Hd|apply (digest_size_pos alg); exact Hd|lia].
Qed.

Lemma hkdf_expand_beyond Orc alg prk info L hl :
  digest_size alg = Some hl -> 255 * hl < L ->
  hkdf_expand_rfc Orc alg prk info L = None /\ HKDF_expand Orc prk info L alg = Err ValueError.
Proof.
  intros Hd HL. pose proof (digest_size_pos alg hl Hd). split.
  - unfold hkdf_expand_rfc. rewrite Hd. destruct ((0 <=? L) && (L <=? 255 * hl)) eqn:E; [lia|reflexivity].
  - apply (HKDF_expand_too_long Orc alg prk info hl L); assumption.
Qed.

(* ---- P_hash (RFC 5246 5) -------------------------------------------------------- *)
Section PHash.
  Variable Orc : Oracles.
  Variables (alg : string) (secret seed : list Z) (ds len : Z).
  Hypothesis Hds : digest_size alg = Some ds.
  Hypothesis Hlen : forall msg, zlen (o_hmac Orc alg secret msg) = ds.
  Hypothesis Hlen0 : 0 <= len.

  Let A := p_A Orc alg secret seed.
  Let blk (i : nat) := o_hmac Orc alg secret (A i ++ seed).
  Let stream := p_hash_stream Orc alg secret seed.

  Lemma ds_pos : 0 < ds.
  Proof.
    unfold digest_size in Hds.
    repeat match type of Hds with (if ?c then _ else _) = _ => destruct c; [injection Hds as <-; lia|] end. discriminate.
  Qed.

  Lemma stream_len n : zlen (stream n) = Z.of_nat n * ds.
  Proof.
    unfold stream, p_hash_stream. induction n as [|n IH].
    - reflexivity.
    - rewrite seq_snoc, map_app, concat_app. cbn [map List.concat]. rewrite app_nil_r.
      rewrite zlen_app, IH, Hlen. lia.
  Qed.

  Lemma stream_S n : stream (S n) = stream n ++ blk (S n).
  Proof.
    unfold stream, p_hash_stream. rewrite seq_snoc, map_app, concat_app. cbn [map List.concat plus].
    rewrite app_nil_r. reflexivity.
  Qed.

  (* loop state after i full iterations *)
  Let idx (i : nat) : Z := Z.min (Z.of_nat i * ds) len.
  Let St (i : nat) : list Z * list Z * Z :=
    (A i, firstn (Z.to_nat (idx i)) (stream i) ++ repeat 0 (Z.to_nat (len - idx i)), idx i).

  Let mac : HMac := {| mac_ds := ds; mac_bs := hash_block_size alg; mac_fn := o_hmac Orc alg secret; mac_acc := [] |}.

  Let body := (fun '(A0, ret, index) =>
      let a_fun := mac in
      let a_fun := mac_update a_fun A0 in
      let A0 := mac_digest a_fun in
      let out_fun := mac in
      let out_fun := mac_update out_fun A0 in
      let out_fun := mac_update out_fun seed in
      let output := mac_digest out_fun in
      let how_many := Z.min (len - index) (zlen output) in
      let ret := py_slice_assign ret (Some index) (Some (index + how_many)) (py_slice output None (Some how_many)) in
      let index := index + how_many in
      @Ok (list Z * list Z * Z) (A0, ret, index)).

  Lemma repeat_zlen (x : Z) n : zlen (repeat x n) = Z.of_nat n.
  Proof. unfold zlen. rewrite repeat_length. reflexivity. Qed.

  Lemma p_hash_step i : Z.of_nat i * ds < len -> body (St i) = Ok (St (S i)).
  Proof.
    intros Hi. pose proof ds_pos as Hp.
    unfold St at 1. unfold body. cbv zeta.
    unfold mac_update, mac_digest. cbn [mac_fn mac_acc mac_ds mac_bs mac app].
    change (o_hmac Orc alg secret (A i)) with (A (S i)).
    rewrite !Hlen. fold (blk (S i)).
    assert (Ei : idx i = Z.of_nat i * ds) by (unfold idx; lia).
    rewrite Ei.
    assert (Es : idx (S i) = Z.of_nat i * ds + Z.min (len - Z.of_nat i * ds) ds) by (unfold idx; lia).
    set (hm := Z.min (len - Z.of_nat i * ds) ds) in *.
    assert (Hhm : 0 < hm <= ds) by (unfold hm; lia).
    assert (Hhm2 : Z.of_nat i * ds + hm <= len) by (unfold hm; lia).
    unfold St. rewrite Es. f_equal. f_equal.
    (* the returned buffer *)
    assert (Lp : Z.of_nat (List.length (stream i)) = Z.of_nat i * ds) by (pose proof (stream_len i) as L; unfold zlen in L; exact L).
    assert (Lb : Z.of_nat (List.length (blk (S i))) = ds) by (pose proof (Hlen (A (S i) ++ seed)) as L; unfold zlen in L; exact L).
    rewrite stream_S.
    generalize dependent (blk (S i)). intros bS Lb.
    generalize dependent (stream i). intros si Lp.
    remember (Z.of_nat i * ds) as p eqn:Ep. clearbody hm. clear Ei Es.
    assert (Hp0 : 0 <= p) by lia.
    rewrite firstn_all2 by lia.
    rewrite py_slice_to by lia.
    unfold py_slice_assign.
    assert (Lret : zlen (si ++ repeat 0 (Z.to_nat (len - p))) = len).
    { rewrite zlen_app, repeat_zlen. unfold zlen. lia. }
    rewrite Lret. rewrite !clamp_bound_nonneg by lia.
    replace (Z.min len p) with p by lia.
    replace (Z.min len (p + hm)) with (p + hm) by lia.
    destruct (p + hm <? p) eqn:E; [lia|].
    rewrite firstn_app. rewrite firstn_all2 by lia.
    replace (Z.to_nat p - List.length si)%nat with 0%nat by lia.
    rewrite firstn_O, app_nil_r.
    rewrite skipn_app. rewrite skipn_all2 by lia.
    cbn [app].
    replace (Z.to_nat (p + hm) - List.length si)%nat with (Z.to_nat hm) by lia.
    rewrite firstn_app.
    rewrite (firstn_all2 (n := Z.to_nat (p + hm)) si) by lia.
    replace (Z.to_nat (p + hm) - List.length si)%nat with (Z.to_nat hm) by lia.
    rewrite <- app_assoc. f_equal. f_equal.
    (* the zero tail *)
    replace (Z.to_nat (len - p)) with (Z.to_nat hm + Z.to_nat (len - (p + hm)))%nat by lia.
    rewrite repeat_app, skipn_app, skipn_all2 by (rewrite repeat_length; lia).
    rewrite repeat_length, Nat.sub_diag. reflexivity.
  Qed.

  Let cond := (fun '(A0, ret, index) => index <? len) : list Z * list Z * Z -> bool.

  Lemma cond_St i : cond (St i) = (idx i <? len).
  Proof. reflexivity. Qed.

  Lemma while_fuel_S {S0} fuel (c : S0 -> bool) (b : S0 -> res S0) s :
    while_fuel (S fuel) c b s = if c s then s' <- b s ;; while_fuel fuel c b s' else Ok s.
  Proof. reflexivity. Qed.

  Lemma p_hash_loop : forall k i fuel, (Z.of_nat (i + k) - 1) * ds < len -> len <= Z.of_nat (i + k) * ds ->
    (k < fuel)%nat ->
    while_fuel fuel cond body (St i) = Ok (St (i + k)).
  Proof.
    pose proof ds_pos as Hp.
    induction k as [|k IH]; intros i fuel H1 H2 Hf.
    - rewrite Nat.add_0_r in *. destruct fuel as [|fuel]; [lia|]. rewrite while_fuel_S, cond_St.
      assert (idx i = len) as -> by (unfold idx; lia). rewrite Z.ltb_irrefl. reflexivity.
    - destruct fuel as [|fuel]; [lia|]. rewrite while_fuel_S, cond_St.
      assert (Hi : Z.of_nat i * ds < len) by nia.
      assert (idx i = Z.of_nat i * ds) as -> by (unfold idx; lia).
      destruct (Z.of_nat i * ds <? len) eqn:E; [|lia].
      rewrite (p_hash_step i Hi), bind_ok.
      replace (i + S k)%nat with (S i + k)%nat by lia. apply IH; [| |lia].
      + replace (S i + k)%nat with (i + S k)%nat by lia. exact H1.
      + replace (S i + k)%nat with (i + S k)%nat by lia. exact H2.
  Qed.

  Lemma P_hash_ok : P_hash Orc alg secret seed len = Ok (p_hash_rfc Orc alg ds secret seed len).
  Proof.
    pose proof ds_pos as Hp.
    unfold P_hash. unfold py_zeros. destruct (len <? 0) eqn:E; [lia|]. rewrite bind_ok.
    unfold mk_hmac. rewrite Hds, bind_ok. fold mac. fold body. fold cond.
    set (n := Z.to_nat ((len + ds - 1) / ds)).
    assert (Hn1 : (Z.of_nat n - 1) * ds < len /\ len <= Z.of_nat n * ds).
    { unfold n. rewrite Z2Nat.id by (apply Z.div_pos; lia).
      pose proof (Z.div_mod (len + ds - 1) ds ltac:(lia)). pose proof (Z.mod_pos_bound (len + ds - 1) ds Hp). nia. }
    assert (H0 : (A 0%nat, repeat 0 (Z.to_nat len), 0) = St 0).
    { unfold St, idx. cbn [Z.of_nat Z.mul]. replace (Z.min 0 len) with 0 by lia. rewrite Z.sub_0_r. reflexivity. }
    change seed with (A 0%nat) at 1. rewrite H0.
    rewrite (p_hash_loop n 0 (Z.to_nat (len + 1))); [| cbn [plus]; lia | cbn [plus]; lia |].
    - rewrite bind_ok. cbn [plus]. unfold St, p_hash_rfc. fold n. fold (stream n).
      assert (idx n = len) as -> by (unfold idx; lia).
      rewrite Z.sub_diag. cbn [Z.to_nat repeat]. rewrite app_nil_r. reflexivity.
    - assert (Z.of_nat n <= len); [|lia].
      destruct (Z.eq_dec len 0) as [->|Hne].
      + unfold n. rewrite Z.add_0_l. rewrite Z.div_small by lia. cbn. lia.
      + nia.
  Qed.
End PHash.

(* ---- the TLS 1.0/1.1 PRF (RFC 2246 5) and the TLS 1.2 PRFs ------------------------ *)
Definition oracle_ok (Orc : Oracles) : Prop :=
  forall alg ds key msg, digest_size alg = Some ds ->
    zlen (o_hmac Orc alg key msg) = ds /\ all_bytes (o_hmac Orc alg key msg) = true.

Lemma py_index_app (pre : list Z) x suf : py_index (pre ++ x :: suf) (zlen pre) = Ok x.
Proof.
  rewrite py_index_ok by (rewrite zlen_app, zlen_cons; pose proof (zlen_nonneg pre); pose proof (zlen_nonneg suf); lia).
  f_equal. unfold nthZ, zlen. rewrite Nat2Z.id. rewrite app_nth2 by lia. rewrite Nat.sub_diag. reflexivity.
Qed.

Lemma py_store_b_app (pre : list Z) x suf v : is_byte v = true ->
  py_store_b (pre ++ x :: suf) (zlen pre) v = Ok (pre ++ v :: suf).
Proof.
  intros Hv. unfold py_store_b. rewrite Hv.
  unfold py_store. pose proof (zlen_nonneg pre) as Hp. pose proof (zlen_nonneg suf) as Hs.
  destruct (zlen pre <? 0) eqn:E; [lia|].
  rewrite zlen_app, zlen_cons.
  destruct ((0 <=? zlen pre) && (zlen pre <? zlen pre + (1 + zlen suf))) eqn:E2; [|lia].
  f_equal. unfold zlen. rewrite Nat2Z.id.
  clear. induction pre as [|p pre IH]; cbn [app List.length set_nth]; [reflexivity|]. rewrite IH. reflexivity.
Qed.

Lemma lxor_is_byte a b : is_byte a = true -> is_byte b = true -> is_byte (Z.lxor a b) = true.
Proof.
  unfold is_byte. intros Ha Hb. apply andb_true_iff in Ha. apply andb_true_iff in Hb.
  destruct Ha as [A0 A1], Hb as [B0 B1].
  apply Z.leb_le in A0. apply Z.leb_le in B0. apply Z.ltb_lt in A1. apply Z.ltb_lt in B1.
  apply andb_true_iff. split; [apply Z.leb_le; apply Z.lxor_nonneg; lia|apply Z.ltb_lt].
  destruct (Z.eq_dec (Z.lxor a b) 0) as [->|Hne]; [lia|].
  assert (Hp : 0 < Z.lxor a b) by (pose proof (proj2 (Z.lxor_nonneg a b)); lia).
  change 256 with (2 ^ 8). apply Z.log2_lt_pow2; [exact Hp|].
  eapply Z.le_lt_trans; [apply Z.log2_lxor; lia|].
  apply Z.max_lub_lt.
  - destruct (Z.eq_dec a 0) as [->|]; [cbn; lia|]. apply Z.log2_lt_pow2; [lia|]. change (2 ^ 8) with 256. lia.
  - destruct (Z.eq_dec b 0) as [->|]; [cbn; lia|]. apply Z.log2_lt_pow2; [lia|]. change (2 ^ 8) with 256. lia.
Qed.

Lemma xor_loop : forall (a' b' pre preb : list Z), List.length a' = List.length b' -> List.length pre = List.length preb ->
  all_bytes a' = true -> all_bytes b' = true ->
  foldM (fun p x => t5 <- py_index p x ;; t6 <- py_index (preb ++ b') x ;; p <- py_store_b p x (Z.lxor t5 t6) ;; Ok p)
        (zrange (zlen pre) (zlen pre + zlen a')) (pre ++ a')
  = Ok (pre ++ xor_list a' b').
Proof.
  induction a' as [|x a' IH]; intros b' pre preb Hl Hp Ba Bb.
  - destruct b'; [|discriminate]. change (zlen (@nil Z)) with 0. rewrite Z.add_0_r, zrange_empty by lia. reflexivity.
  - destruct b' as [|y b']; [discriminate|]. injection Hl as Hl.
    unfold all_bytes in Ba, Bb. cbn [forallb] in Ba, Bb. apply andb_true_iff in Ba. apply andb_true_iff in Bb.
    destruct Ba as [Bx Ba], Bb as [By Bb].
    rewrite zrange_cons by (rewrite zlen_cons; pose proof (zlen_nonneg a'); lia).
    cbn [foldM]. rewrite py_index_app, bind_ok.
    replace (zlen pre) with (zlen preb) at 1 by (unfold zlen; lia). rewrite py_index_app, bind_ok.
    rewrite py_store_b_app by (apply lxor_is_byte; assumption). rewrite !bind_ok.
    replace (pre ++ Z.lxor x y :: a') with ((pre ++ [Z.lxor x y]) ++ a') by (rewrite <- app_assoc; reflexivity).
    replace (preb ++ y :: b') with ((preb ++ [y]) ++ b') by (rewrite <- app_assoc; reflexivity).
    replace (zlen pre + 1) with (zlen (pre ++ [Z.lxor x y])) by zl.
    replace (zlen pre + zlen (x :: a')) with (zlen (pre ++ [Z.lxor x y]) + zlen a') by zl.
    rewrite (IH b' (pre ++ [Z.lxor x y]) (preb ++ [y])); try assumption.
    + rewrite <- app_assoc. reflexivity.
    + rewrite !app_length. cbn [List.length]. lia.
Qed.

Section PRFs.
  Variable Orc : Oracles.
  Hypothesis HO : oracle_ok Orc.

  Lemma P_hash_oracle alg ds secret seed len : digest_size alg = Some ds -> 0 <= len ->
    P_hash Orc alg secret seed len = Ok (p_hash_rfc Orc alg ds secret seed len).
  Proof. intros Hd Hl. apply P_hash_ok; [exact Hd| |exact Hl]. intros msg. apply (HO alg ds secret msg Hd). Qed.

  Lemma PRF_1_2_ok secret label seed len : 0 <= len ->
    PRF_1_2 Orc secret label seed len = Ok (prf12_rfc Orc "sha256" 32 secret label seed len).
  Proof. intros Hl. unfold PRF_1_2. rewrite (P_hash_oracle "sha256" 32) by (reflexivity || exact Hl). reflexivity. Qed.

  Lemma PRF_1_2_SHA384_ok secret label seed len : 0 <= len ->
    PRF_1_2_SHA384 Orc secret label seed len = Ok (prf12_rfc Orc "sha384" 48 secret label seed len).
  Proof. intros Hl. unfold PRF_1_2_SHA384. rewrite (P_hash_oracle "sha384" 48) by (reflexivity || exact Hl). reflexivity. Qed.

  Lemma stream_bytes alg ds secret seed n : digest_size alg = Some ds ->
    all_bytes (p_hash_stream Orc alg secret seed n) = true.
  Proof.
    intros Hd. unfold p_hash_stream. induction (seq 1 n) as [|i l IH]; [reflexivity|].
    cbn [map List.concat]. rewrite all_bytes_app, IH. rewrite (proj2 (HO alg ds secret _ Hd)). reflexivity.
  Qed.

  Lemma p_hash_rfc_len alg ds secret seed len : digest_size alg = Some ds -> 0 <= len ->
    zlen (p_hash_rfc Orc alg ds secret seed len) = len /\ all_bytes (p_hash_rfc Orc alg ds secret seed len) = true.
  Proof.
    intros Hd Hl. unfold p_hash_rfc. split.
    - assert (Hp : 0 < ds).
      { unfold digest_size in Hd.
        repeat match type of Hd with (if ?c then _ else _) = _ => destruct c; [injection Hd as <-; lia|] end. discriminate. }
      pose proof (stream_len Orc alg secret seed ds (fun msg => proj1 (HO alg ds secret msg Hd))
                    (Z.to_nat ((len + ds - 1) / ds))) as L.
      rewrite Z2Nat.id in L by (apply Z.div_pos; lia).
      unfold zlen in *. rewrite firstn_length.
      pose proof (Z.div_mod (len + ds - 1) ds ltac:(lia)). pose proof (Z.mod_pos_bound (len + ds - 1) ds Hp). nia.
    - apply all_bytes_firstn. apply (stream_bytes alg ds). exact Hd.
  Qed.

  Lemma PRF_12_both secret label seed len : 0 <= len ->
    PRF_1_2 Orc secret label seed len = Ok (prf12_rfc Orc "sha256" 32 secret label seed len) /\
    PRF_1_2_SHA384 Orc secret label seed len = Ok (prf12_rfc Orc "sha384" 48 secret label seed len).
  Proof. intros Hl. split; [apply PRF_1_2_ok|apply PRF_1_2_SHA384_ok]; assumption. Qed.

  (* odd-length secrets: the two halves share the middle byte *)
  Lemma PRF_ok secret label seed len : 0 <= len ->
    PRF Orc secret label seed len = Ok (prf10_rfc Orc secret label seed len).
  Proof.
    intros Hl. unfold PRF, prf10_rfc. pose proof (zlen_nonneg secret) as Hs.
    assert (Hh : 0 <= (zlen secret + 1) / 2 <= zlen secret).
    { pose proof (Z.div_mod (zlen secret + 1) 2 ltac:(lia)). pose proof (Z.mod_pos_bound (zlen secret + 1) 2 ltac:(lia)). lia. }
    rewrite py_slice_to by lia.
    rewrite py_slice_from by (apply Z.div_pos; lia).
    replace (Z.to_nat (zlen secret / 2)) with (List.length secret - Z.to_nat ((zlen secret + 1) / 2))%nat.
    2:{ pose proof (Z.div_mod (zlen secret + 1) 2 ltac:(lia)). pose proof (Z.mod_pos_bound (zlen secret + 1) 2 ltac:(lia)).
        pose proof (Z.div_mod (zlen secret) 2 ltac:(lia)). pose proof (Z.mod_pos_bound (zlen secret) 2 ltac:(lia)).
        unfold zlen in *. lia. }
    rewrite (P_hash_oracle "md5" 16) by (reflexivity || exact Hl). rewrite bind_ok.
    rewrite (P_hash_oracle "sha1" 20) by (reflexivity || exact Hl). rewrite bind_ok.
    set (a := p_hash_rfc Orc "md5" 16 _ _ len). set (b := p_hash_rfc Orc "sha1" 20 _ _ len).
    destruct (p_hash_rfc_len "md5" 16 (firstn (Z.to_nat ((zlen secret + 1) / 2)) secret) (label ++ seed) len eq_refl Hl) as [La Ba].
    destruct (p_hash_rfc_len "sha1" 20 (skipn (List.length secret - Z.to_nat ((zlen secret + 1) / 2)) secret) (label ++ seed) len eq_refl Hl) as [Lb Bb].
    fold a in La, Ba. fold b in Lb, Bb.
    pose proof (xor_loop a b [] [] ltac:(unfold zlen in *; lia) eq_refl Ba Bb) as X.
    cbn [app] in X. change (zlen (@nil Z)) with 0 in X. rewrite Z.add_0_l, La in X.
    rewrite X. reflexivity.
  Qed.
End PRFs.
