(* C08: crash analysis of the server's validation of the SECOND ClientHello after a
   HelloRetryRequest (nested region of _serverGetClientHello, model regenerated into
   Gen/HrrChChecks.v, proof script Gen/HrrChChecksProof.v; proved by plain path enumeration,
   no statement-boundary lemmas). *)
From Coq Require Import ZArith List Bool String.
From TV Require Import Base.Prelude Base.C08_Lib Gen.HrrChChecks Gen.HrrChChecksProof Model.C08_Known.
Import ListNotations.
Open Scope Z_scope.

Definition hrr_mk (exts : list ext) : ClientHello_r :=
  {| ClientHello_client_version := (3, 3); ClientHello_cipher_suites := [4865];
     ClientHello_compression_methods := [0]; ClientHello_session_id := [];
     ClientHello_extensions := Some exts |}.
Definition hrr_ks (shares : option (list KeyShareEntry_r)) : ext :=
  X_ClientKeyShareExtension {| ClientKeyShareExtension_client_shares := shares |}.
Definition hrr_share (g : Z) : KeyShareEntry_r := {| KeyShareEntry_group := g; KeyShareEntry_key_exchange := [4; 1; 2] |}.

(* second ClientHello whose key_share extension has an empty body *)
Definition hrr_w_empty_body : ClientHello_r := hrr_mk [hrr_ks None].

(* before /repo 79180d8 this value refuted crash-freedom (Crash "TypeError" "len:ext.client_shares#1");
   now it is answered with decode_error *)
Lemma hrr_former_witness : HrrChChecks hrr_w_empty_body 23 = Alert 50.
Proof. vm_compute. reflexivity. Qed.

(* FULL crash-freedom *)
Lemma hrr_crash_free_l : forall ch g, ncrash (HrrChChecks ch g).
Proof. intros. apply crash_in_nil_ncrash. exact (HrrChChecks_crash_sites ch g). Qed.

(* the other shapes: absent => missing_extension (109); present with an EMPTY VECTOR, two shares or
   the wrong group => illegal_parameter (47); exactly the requested group => passes *)
Lemma hrr_examples :
  HrrChChecks (hrr_mk []) 23 = Alert 109 /\
  HrrChChecks (hrr_mk [hrr_ks (Some [])]) 23 = Alert 47 /\
  HrrChChecks (hrr_mk [hrr_ks (Some [hrr_share 23; hrr_share 29])]) 23 = Alert 47 /\
  HrrChChecks (hrr_mk [hrr_ks (Some [hrr_share 29])]) 23 = Alert 47 /\
  HrrChChecks (hrr_mk [hrr_ks (Some [hrr_share 23])]) 23 = OK tt.
Proof. repeat split; vm_compute; reflexivity. Qed.
