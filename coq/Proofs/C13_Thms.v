(* C13 -- the property theorems, proved from the invariant (C13_Hist) and the decision lemmas (C13_Decide) *)
From Coq Require Import ZArith List Bool Lia.
From TV Require Import Base.Prelude Model.C13_Resume Proofs.C13_Decide Proofs.C13_Hist.
Import ListNotations.
Open Scope Z_scope.

Ltac delta_cases := unfold conn_delta; cbv zeta; repeat break_inner;
                    cbn [d_store d_used d_newc d_conn d_log d_issue d_bump].

(* the security parameters C13 lists: suite, EMS, EtM, server name, authenticated client identity *)
Definition same_security (a b : sess) : Prop :=
  s_suite a = s_suite b /\ s_ems a = s_ems b /\ s_etm a = s_etm b /\ s_sni a = s_sni b /\
  s_ccert a = s_ccert b /\ s_srp a = s_srp b /\ s_ms a = s_ms b.

Definition ideal_aead (blob : Type) (seal : Z -> Z -> payload -> blob) (open : Z -> blob -> option payload)
           (tamper : blob -> Z -> blob) (junk : Z -> blob) : Prop :=
  (forall k n p, open k (seal k n p) = Some p) /\
  (forall k k' n p, k <> k' -> open k' (seal k n p) = None) /\
  (forall k b i, open k (tamper b i) = None) /\
  (forall k n, open k (junk n) = None).

(* bytes offered as a ticket that were not sealed under one of the server's current keys *)
Definition not_under_current_key {blob} (seal : Z -> Z -> payload -> blob) (tamper : blob -> Z -> blob)
           (junk : Z -> blob) (keys : list Z) (b : blob) : Prop :=
  (exists b' i, b = tamper b' i) \/ (exists n, b = junk n) \/ (exists k n p, b = seal k n p /\ ~ In k keys).

Section Thms.
Variable blob : Type.
Variable seal : Z -> Z -> payload -> blob.
Variable open : Z -> blob -> option payload.
Variable tamper : blob -> Z -> blob.
Variable junk : Z -> blob.
Hypothesis ideal : ideal_aead blob seal open tamper junk.

Let open_seal := proj1 ideal.
Let open_other_key := proj1 (proj2 ideal).
Let open_tamper := proj1 (proj2 (proj2 ideal)).
Let open_junk := proj2 (proj2 (proj2 ideal)).

Notation world' := (world blob).
Notation conn_delta' := (conn_delta blob seal open).
Notation reachable' := (reachable blob seal open tamper junk).
Notation Inv' := (Inv blob seal tamper junk).

Lemma reach_inv w : reachable' w -> Inv' w.
Proof. apply reachable_inv; assumption. Qed.

Definition offered (w : world') (cp : cparams) : option (cobj blob) :=
  match cp_offer cp with Some i => zget (w_clients w) i | None => None end.

(* ---- what the client put into the hello comes from the offered object ---------------- *)
Lemma client_offer_ticket cp c0 now fresh h used b :
  client_offer blob cp c0 now fresh = Offer blob h used -> h_ticket h = Some b ->
  exists c t, c0 = Some c /\ In t (c_t10 c) /\ tk_blob t = b.
Proof.
  unfold client_offer. destruct c0 as [c00|]; [|intros H; injection H as <- _; cbn; discriminate].
  destruct (c_valid blob c00); [|intros H; injection H as <- _; cbn; discriminate].
  set (c2 := if nonempty (c_t10 c00) then set_t10 blob c00 (filter (tk10_valid blob now) (c_t10 c00)) else c00).
  replace (if nonempty (c_t10 c00) then Some (set_t10 blob c00 (filter (tk10_valid blob now) (c_t10 c00))) else Some c00)
    with (Some c2) by (unfold c2; destruct (nonempty (c_t10 c00)); reflexivity).
  assert (incl (c_t10 c2) (c_t10 c00)) as I2.
  { unfold c2. destruct (nonempty (c_t10 c00)); [apply incl_filter|apply incl_refl]. }
  destruct (nz (s_sid (c_sess c2)) && negb (zmem (s_suite (c_sess c2)) (cp_suites cp))); [discriminate|].
  intros H. injection H as <- _. cbn [h_ticket].
  destruct (c_t10 c2) as [|t r] eqn:T; [discriminate|]. intros H. injection H as <-.
  exists c00, t. split; [reflexivity|]. split; [apply I2; left; reflexivity|reflexivity].
Qed.

Lemma client_offer_psk cp c0 now fresh h used b bk :
  client_offer blob cp c0 now fresh = Offer blob h used -> h_psk h = Some (b, bk) ->
  exists c t, c0 = Some c /\ In t (c_t13 c) /\ tk_blob t = b /\ bk = c_rms c.
Proof.
  unfold client_offer. destruct c0 as [c00|]; [|intros H; injection H as <- _; cbn; discriminate].
  destruct (c_valid blob c00); [|intros H; injection H as <- _; cbn; discriminate].
  set (c2 := if nonempty (c_t10 c00) then set_t10 blob c00 (filter (tk10_valid blob now) (c_t10 c00)) else c00).
  replace (if nonempty (c_t10 c00) then Some (set_t10 blob c00 (filter (tk10_valid blob now) (c_t10 c00))) else Some c00)
    with (Some c2) by (unfold c2; destruct (nonempty (c_t10 c00)); reflexivity).
  assert (c_t13 c2 = c_t13 c00 /\ c_rms c2 = c_rms c00) as [I2 R2].
  { unfold c2. destruct (nonempty (c_t10 c00)); split; reflexivity. }
  destruct (nz (s_sid (c_sess c2)) && negb (zmem (s_suite (c_sess c2)) (cp_suites cp))); [discriminate|].
  intros H. injection H as <- _. cbn [h_psk].
  destruct (4 <=? cp_maxv cp); [|intros H; discriminate H].
  rewrite andb_true_r.
  set (c3 := if nonempty (c_t13 c2) then set_t13 blob c2 (filter (tk13_valid blob now) (c_t13 c2)) else c2).
  assert (incl (c_t13 c3) (c_t13 c2) /\ c_rms c3 = c_rms c2) as [I3 R3].
  { unfold c3. destruct (nonempty (c_t13 c2)); split; try reflexivity; [apply incl_filter|apply incl_refl]. }
  destruct (c_t13 c3) as [|t r] eqn:T; [discriminate|]. intros H. injection H as <- <-.
  exists c00, t. split; [reflexivity|]. split; [rewrite <- I2; apply I3; left; reflexivity|].
  split; [reflexivity|]. rewrite R3, R2. reflexivity.
Qed.

Lemma client_offer_sid cp c0 now fresh h used :
  client_offer blob cp c0 now fresh = Offer blob h used ->
  h_sid h = 0 \/ h_sid h = fresh \/ (exists c, used = Some c /\ h_sid h = s_sid (c_sess c)).
Proof.
  unfold client_offer. repeat break_inner; intros H; try discriminate; injection H as <- <-; cbn [h_sid]; auto.
  all: right; right; eexists; split; [reflexivity|]; cbn [c_sess set_t13]; reflexivity.
Qed.

(* ---- inversion: a log entry that says "resumed" ----------------------------------------- *)
Lemma delta_resumed12_inv w cp sv cr :
  r_out (d_log blob (conn_delta' w cp sv)) = ODone true cr ->
  r_ver (d_log blob (conn_delta' w cp sv)) < 4 ->
  exists h used st1 s o,
    client_offer blob cp (offered w cp) (w_now w) (w_fresh w) = Offer blob h used /\
    server_try_resume blob open (sv_cfg sv) (sv_store sv) (o_acc cp) h (w_now w) = (st1, SResume s o) /\
    r_hello (d_log blob (conn_delta' w cp sv)) = Some h /\
    r_sview (d_log blob (conn_delta' w cp sv)) = Some s /\
    r_src (d_log blob (conn_delta' w cp sv)) = Some o.
Proof.
  unfold offered. delta_cases; cbn [r_out r_ver r_hello r_sview r_src]; intros H Hv; try discriminate;
    try (match goal with H : (4 <=? _) = true |- _ => apply Z.leb_le in H end; lia).
  all: do 5 eexists; repeat split; try reflexivity; eassumption.
Qed.

Lemma delta_resumed13_inv w cp sv cr :
  r_out (d_log blob (conn_delta' w cp sv)) = ODone true cr ->
  4 <= r_ver (d_log blob (conn_delta' w cp sv)) ->
  exists h used k p s,
    client_offer blob cp (offered w cp) (w_now w) (w_fresh w) = Offer blob h used /\
    server_psk blob open (sv_cfg sv) cp h (w_now w) = S13Psk k p /\
    r_hello (d_log blob (conn_delta' w cp sv)) = Some h /\
    r_sview (d_log blob (conn_delta' w cp sv)) = Some s /\
    r_src (d_log blob (conn_delta' w cp sv)) = Some (ByPsk k) /\
    s_ccert s = p_ccert p /\ s_hash s = p_hash p /\ s_ems s = true /\ s_etm s = false /\ s_origin s = p_origin p.
Proof.
  unfold offered. delta_cases; cbn [r_out r_ver r_hello r_sview r_src]; intros H Hv; try discriminate;
    try (match goal with H : (4 <=? _) = false |- _ => apply Z.leb_gt in H end; lia).
  all: match goal with H : server_psk _ _ _ _ _ _ = S13Psk _ ?p |- _ =>
         pose proof (server_psk_sound _ _ _ _ _ _ _ _ H) as [b0 [bk0 [_ [_ [_ [_ [_ [Hh _]]]]]]]] end.
  all: do 5 eexists; repeat split; try reflexivity; try eassumption; cbn; congruence.
Qed.

(* ---- resume_sound + resume_preserves, TLS <= 1.2 ------------------------------------------ *)
Theorem resume_sound_preserves12 w cp sv cr :
  reachable' w -> zget (w_servers w) (cp_srv cp) = Some sv ->
  let r := d_log blob (conn_delta' w cp sv) in
  r_out r = ODone true cr -> r_ver r < 4 ->
  exists h s o,
    r_hello r = Some h /\ r_sview r = Some s /\ r_src r = Some o /\
    zmem (s_suite s) (o_acc cp) = true /\ hello_consistent s h /\
    match o with
    | ByCache => accepted_by_cache blob (sv_cfg sv) (sv_store sv) h (w_now w) s
    | ByTicket k => accepted_by_ticket blob open (sv_cfg sv) h (w_now w) k s
    | ByBoth k => accepted_by_both blob open (sv_cfg sv) (sv_store sv) h (w_now w) k s
    | ByPsk _ => False
    end /\
    exists r0 v0, In r0 (w_log w) /\ is_done (r_out r0) /\ r_sview r0 = Some v0 /\ same_security s v0 /\
                  (o = ByCache \/ (exists k, o = ByBoth k) -> r_out r0 = ODone false false /\ v0 = s).
Proof.
  intros HR Z r Hout Hver. pose proof (reach_inv _ HR) as HI.
  pose proof (zget_in _ _ _ Z) as Hsv.
  destruct (inv_sorted _ _ _ _ _ HI sv Hsv) as [Hsorted _].
  destruct (delta_resumed12_inv _ _ _ _ Hout Hver) as [h [used [st1 [s [o [CO [TR [Hh [Hs Ho]]]]]]]]].
  destruct (server_try_resume_sound _ _ _ _ _ _ _ _ _ _ Hsorted TR) as [Hacc [Hcons Hpath]].
  exists h, s, o. split; [exact Hh|]. split; [exact Hs|]. split; [exact Ho|]. split; [exact Hacc|].
  split; [exact Hcons|]. split; [exact Hpath|].
  assert (forall e, In e (sv_store sv) -> ce_sess e = s ->
            exists r0 v0, In r0 (w_log w) /\ is_done (r_out r0) /\ r_sview r0 = Some v0 /\ same_security s v0 /\
                          (o = ByCache \/ (exists k, o = ByBoth k) -> r_out r0 = ODone false false /\ v0 = s)) as FromCache.
  { intros e A B. assert (entries blob w e) as He by (exists sv; auto).
    destruct (inv_cache_origin _ _ _ _ _ HI e He) as [r0 [R1 [R2 R3]]].
    exists r0, s. rewrite B in R3. split; [exact R1|]. split; [rewrite R2; eexists; eexists; reflexivity|].
    split; [exact R3|]. split; [repeat split; reflexivity|]. intros _. split; [exact R2|reflexivity]. }
  destruct o as [|k|k|k]; [| | |destruct Hpath].
  - destruct Hpath as [_ [_ [_ [_ [e [A [B [C D]]]]]]]]. apply (FromCache e A B).
  - clear FromCache.
    destruct Hpath as [b [p [HT [K [O [L ->]]]]]].
    destruct (client_offer_ticket _ _ _ _ _ _ _ CO HT) as [c [t [Hc0 [Ht Hb]]]].
    assert (In c (w_clients w)) as Hc.
    { unfold offered in Hc0. destruct (cp_offer cp) as [i|]; [|discriminate]. eapply zget_in. exact Hc0. }
    assert (blob_ok blob seal tamper junk (w_issued w) b) as Hok.
    { rewrite <- Hb. apply (inv_blobs _ _ _ _ _ HI c t Hc). apply in_or_app. left. exact Ht. }
    destruct (blob_ok_open blob seal open tamper junk open_seal open_other_key open_tamper open_junk _ _ _ _ Hok O)
      as [srv Hiss].
    destruct (inv_issued _ _ _ _ _ HI srv k p Hiss) as [r0 [v0 [R1 [R2 [R3 P]]]]].
    exists r0, v0. split; [exact R1|]. split; [exact R2|]. split; [exact R3|].
    split; [|intros [H|[k' H]]; discriminate].
    destruct P as [P1 [P2 [P3 [P4 [P5 [P6 [P7 [P8 [P9 P10]]]]]]]]]. unfold same_security. cbn. auto 10.
  - destruct Hpath as [_ [_ [_ [_ [e [A [B _]]]]]]]. apply (FromCache e A B).
Qed.

(* ---- TLS 1.3 PSK ---------------------------------------------------------------------------- *)
(* soundness is complete since /repo e172bf7 (lifetime); before it the lifetime conjunct was refuted by
   [TLS 1.3 handshake, lifetime 100 s; close; 1000 s pass; a client that keeps the ticket offers it].
   Preservation stays partial: server name and suite of the issuing connection are NOT kept (RFC 8446
   permits; witness tls13_sni_suite_refuted_witness). *)
Theorem resume_sound_preserves13 w cp sv cr :
  reachable' w -> zget (w_servers w) (cp_srv cp) = Some sv ->
  let r := d_log blob (conn_delta' w cp sv) in
  r_out r = ODone true cr -> 4 <= r_ver r ->
  exists h b bk k p s,
    r_hello r = Some h /\ h_psk h = Some (b, bk) /\ r_sview r = Some s /\ r_src r = Some (ByPsk k) /\
    In k (sv_keys (sv_cfg sv)) /\ open k b = Some p /\ p_ver p = 4 /\
    w_now w <= p_created p + sv_life (sv_cfg sv) /\ p_hash p = o_fhash cp /\ bk = p_ms p /\
    exists r0 v0, In r0 (w_log w) /\ is_done (r_out r0) /\ r_sview r0 = Some v0 /\
                  s_ccert s = s_ccert v0 /\ s_hash s = s_hash v0 /\ s_ems s = true /\ s_etm s = false /\
                  s_origin s = s_origin v0.
Proof.
  intros HR Z r Hout Hver. pose proof (reach_inv _ HR) as HI.
  destruct (delta_resumed13_inv _ _ _ _ Hout Hver) as [h [used [k [p [s [CO [PS [Hh [Hs [Ho [E1 [E2 [E3 [E4 E5]]]]]]]]]]]]]].
  destruct (server_psk_sound _ _ _ _ _ _ _ _ PS) as [b [bk [HP [K [O [V [Lf [Hh2 B]]]]]]]].
  exists h, b, bk, k, p, s. split; [exact Hh|]. split; [exact HP|]. split; [exact Hs|]. split; [exact Ho|].
  split; [exact K|]. split; [exact O|]. split; [exact V|]. split; [exact Lf|]. split; [exact Hh2|]. split; [exact B|].
  destruct (client_offer_psk _ _ _ _ _ _ _ _ CO HP) as [c [t [Hc0 [Ht [Hb _]]]]].
  assert (In c (w_clients w)) as Hc.
  { unfold offered in Hc0. destruct (cp_offer cp) as [i|]; [|discriminate]. eapply zget_in. exact Hc0. }
  assert (blob_ok blob seal tamper junk (w_issued w) b) as Hok.
  { rewrite <- Hb. apply (inv_blobs _ _ _ _ _ HI c t Hc). apply in_or_app. right. exact Ht. }
  destruct (blob_ok_open blob seal open tamper junk open_seal open_other_key open_tamper open_junk _ _ _ _ Hok O)
    as [srv Hiss].
  destruct (inv_issued _ _ _ _ _ HI srv k p Hiss) as [r0 [v0 [R1 [R2 [R3 P]]]]].
  exists r0, v0. split; [exact R1|]. split; [exact R2|]. split; [exact R3|].
  destruct P as [P1 [P2 [P3 [P4 [P5 [P6 [P7 [P8 [P9 P10]]]]]]]]].
  rewrite E1, E2, E5. repeat split; congruence.
Qed.

(* ---- a declined offer leaves no trace ------------------------------------------------------------ *)
(* Whatever was offered (expired / wrong-hash / wrong-version / altered ticket, unknown ID ...): when the
   connection completes as a full handshake, the server's session carries only the identity proved on
   THIS connection (the certificate the client presented, if the server asked), its own origin, the
   hello's server name and the negotiated suite; nothing of the declined session. *)
Theorem declined_leaves_no_trace w cp sv cr :
  let r := d_log blob (conn_delta' w cp sv) in
  r_out r = ODone false cr ->
  cr = false /\
  exists h s, r_hello r = Some h /\ r_sview r = Some s /\
    s_ccert s = (if sv_reqcert (sv_cfg sv) then cp_ccert cp else 0) /\
    s_origin s = Z.of_nat (length (w_log w)) /\ s_suite s = o_fsuite cp /\ s_sni s = h_sni h /\
    r_src r = None.
Proof.
  delta_cases; cbn [r_out r_hello r_sview r_src]; intros H; try discriminate; injection H as <-;
    (split; [reflexivity|]); do 2 eexists; cbn; repeat split; reflexivity.
Qed.

(* ---- forged / altered / foreign tickets ------------------------------------------------------ *)
Lemma not_current_unopenable keys b :
  not_under_current_key seal tamper junk keys b -> forall k, In k keys -> open k b = None.
Proof.
  intros [[b' [i ->]]|[[n ->]|[k0 [n [p [-> Hk]]]]]] k Hin.
  - apply open_tamper.
  - apply open_junk.
  - apply open_other_key. intros ->. contradiction.
Qed.

Theorem ticket_forgery_rejected cfg st acc (h : hello blob) now b :
  h_ticket h = Some b -> not_under_current_key seal tamper junk (sv_keys cfg) b ->
  server_try_resume blob open cfg st acc h now = (st, SFull).
Proof.
  intros HT HN. apply server_try_resume_unopenable with (b := b); [exact HT|].
  apply not_current_unopenable. exact HN.
Qed.

Theorem psk_forgery_rejected cfg cp (h : hello blob) now b bk :
  h_psk h = Some (b, bk) -> not_under_current_key seal tamper junk (sv_keys cfg) b ->
  server_psk blob open cfg cp h now = S13Full.
Proof.
  intros HP HN. apply server_psk_unopenable with (b := b) (bk := bk); [exact HP|].
  apply not_current_unopenable. exact HN.
Qed.

(* ---- invalidated sessions -------------------------------------------------------------------- *)
(* server side: once a connection bound to the cached session died abnormally at the server
   (fatal alert or abrupt close seen), no later connection, in any continuation, resumes it by ID,
   nor by a ticket that is matched with the cached object (ByBoth).  Since /repo 4da1727 a ticket
   resumption whose hello names the cached session IS bound to the cached object, so its failure counts
   here; before that commit the cached object survived such a failure. *)
Theorem invalidated_never_resumes_by_id w cp sv cr crec sid :
  reachable' w -> zget (w_servers w) (cp_srv cp) = Some sv ->
  In crec (w_conns w) -> cr_ks crec = true -> cr_sobj crec = Some sid -> cr_srv crec = cp_srv cp ->
  let r := d_log blob (conn_delta' w cp sv) in
  r_out r = ODone true cr -> r_ver r < 4 ->
  r_src r = Some ByCache \/ (exists k, r_src r = Some (ByBoth k)) ->
  forall s, r_sview r = Some s -> s_sid s <> sid.
Proof.
  intros HR Z Hin Hks Hso Hsrv r Hout Hver Hsrc s Hs Heq.
  pose proof (reach_inv _ HR) as HI.
  destruct (resume_sound_preserves12 w cp sv cr HR Z Hout Hver)
    as [h [s' [o [_ [Hs' [Ho [_ [_ [Hpath _]]]]]]]]].
  fold r in Hs', Ho. rewrite Hs in Hs'. injection Hs' as <-.
  assert (exists e, In e (sv_store sv) /\ ce_sess e = s /\ ce_res e = true) as [e [A [B C]]].
  { destruct Hsrc as [Hsrc|[k Hsrc]]; rewrite Hsrc in Ho; injection Ho as <-.
    - destruct Hpath as [_ [_ [_ [_ [e [A [B [C _]]]]]]]]. exists e. auto.
    - destruct Hpath as [_ [_ [_ [_ [e [A [B [C _]]]]]]]]. exists e. auto. }
  assert (ce_res e = false) as K.
  { apply (inv_ks _ _ _ _ _ HI crec sid sv e); try assumption; [rewrite Hsrv; exact Z|rewrite B; exact Heq]. }
  rewrite K in C. discriminate.
Qed.

(* client side: an object whose resumable flag is cleared is never offered and nothing is resumed *)
Theorem invalidated_never_offered w cp sv i c0 :
  reachable' w -> zget (w_servers w) (cp_srv cp) = Some sv ->
  cp_offer cp = Some i -> zget (w_clients w) i = Some c0 -> c_res c0 = false ->
  let r := d_log blob (conn_delta' w cp sv) in
  r_offer_valid r = false /\ forall cr, r_out r <> ODone true cr.
Proof.
  intros HR Z Hoff Hc0 Hres r. pose proof (reach_inv _ HR) as HI.
  assert (client_offer blob cp (offered w cp) (w_now w) (w_fresh w) =
          Offer blob {| h_maxv := cp_maxv cp;
                        h_sid := if 4 <=? cp_maxv cp then w_fresh w else 0;
                        h_suites := cp_suites cp; h_ems := cp_ems cp; h_etm := cp_etm cp;
                        h_sni := cp_sni cp; h_srp := cp_srp cp; h_ticket := None; h_psk := None |} None) as CO.
  { unfold offered. rewrite Hoff, Hc0. unfold client_offer, c_valid. rewrite Hres. cbn [andb].
    destruct (4 <=? cp_maxv cp); reflexivity. }
  assert (forall e, In e (sv_store sv) -> s_sid (ce_sess e) < w_fresh w) as Hfr.
  { intros e He. apply (inv_fresh_s _ _ _ _ _ HI). exists sv. split; [eapply zget_in; exact Z|exact He]. }
  split.
  - unfold r, conn_delta. cbv zeta. rewrite Hoff, Hc0. unfold offered in CO. rewrite Hoff, Hc0 in CO.
    repeat break_inner; cbn [d_log r_offer_valid]; unfold c_valid; rewrite Hres; reflexivity.
  - intros cr Hout.
    destruct (Z_lt_le_dec (r_ver r) 4) as [Hv|Hv].
    + destruct (delta_resumed12_inv _ _ _ _ Hout Hv) as [h [used [st1 [s [o [CO' [TR _]]]]]]].
      rewrite CO in CO'. injection CO' as <- <-.
      assert (snd (server_try_resume blob open (sv_cfg sv) (sv_store sv) (o_acc cp)
                 {| h_maxv := cp_maxv cp; h_sid := if 4 <=? cp_maxv cp then w_fresh w else 0;
                    h_suites := cp_suites cp; h_ems := cp_ems cp; h_etm := cp_etm cp; h_sni := cp_sni cp;
                    h_srp := cp_srp cp; h_ticket := None; h_psk := None |} (w_now w)) = SFull) as K.
      { destruct (4 <=? cp_maxv cp) eqn:M; [|reflexivity].
        apply server_try_resume_unknown_id; [reflexivity|]. cbn [h_sid].
        destruct (cache_find _ _) as [e|] eqn:F; [|reflexivity]. exfalso.
        apply cache_find_some in F. destruct F as [A B]. apply purge_incl in A.
        specialize (Hfr e A). lia. }
      rewrite TR in K. discriminate.
    + destruct (delta_resumed13_inv _ _ _ _ Hout Hv) as [h [used [k [p [s [CO' [PS _]]]]]]].
      rewrite CO in CO'. injection CO' as <- <-. unfold server_psk in PS. cbn [h_psk] in PS. discriminate.
Qed.

(* ---- fallback: when the server declines, both ends complete a full handshake ------------------- *)
(* A ServerHello of a full handshake carries session_id 0 or a fresh one; the (repaired) client never
   takes it for a resumption.  Before /repo 51120a0 this was false whenever the offered session held a
   live TLS<=1.2 ticket (finding F1: fallback_completes was refuted by the history
   [full handshake with ticket under key 1; close; server replaces the key; connect offering the session]). *)
Lemma no_misread w cp h used sid :
  Inv' w -> client_offer blob cp (offered w cp) (w_now w) (w_fresh w) = Offer blob h used ->
  (sid = 0 \/ sid = w_fresh w + 1) ->
  client_resume_branch blob used h sid = false.
Proof.
  intros HI CO Hsid. unfold client_resume_branch. destruct used as [c|]; [|reflexivity].
  destruct (client_offer_used _ _ _ _ _ _ _ _ CO eq_refl) as [c00 [E [P _]]].
  assert (s_sid (c_sess c) < w_fresh w) as Hlt.
  { destruct P as [-> _]. apply (inv_fresh_c _ _ _ _ _ HI). unfold offered in E.
    destruct (cp_offer cp) as [i|]; [|discriminate]. eapply zget_in. exact E. }
  pose proof (inv_pos _ _ _ _ _ HI) as Hpos.
  destruct Hsid as [->| ->]; [reflexivity|].
  destruct (client_offer_sid _ _ _ _ _ _ CO) as [Hs|[Hs|[c' [Ec Hs]]]].
  - rewrite Hs. replace (w_fresh w + 1 =? 0) with false by (symmetry; apply Z.eqb_neq; lia).
    rewrite andb_false_r. reflexivity.
  - rewrite Hs. replace (w_fresh w + 1 =? w_fresh w) with false by (symmetry; apply Z.eqb_neq; lia).
    rewrite andb_false_r. reflexivity.
  - injection Ec as <-. rewrite Hs.
    replace (w_fresh w + 1 =? s_sid (c_sess c)) with false by (symmetry; apply Z.eqb_neq; lia).
    rewrite andb_false_r. reflexivity.
Qed.

Theorem fallback_completes_all w cp sv h used :
  reachable' w -> zget (w_servers w) (cp_srv cp) = Some sv ->
  client_offer blob cp (offered w cp) (w_now w) (w_fresh w) = Offer blob h used ->
  o_fsuite cp <> 0 -> cp_half cp = 0 ->
  let r := d_log blob (conn_delta' w cp sv) in
  let v := Z.min (cp_maxv cp) (sv_maxv (sv_cfg sv)) in
  (4 <= v -> server_psk blob open (sv_cfg sv) cp h (w_now w) = S13Full -> r_out r = ODone false false) /\
  (v < 4 -> snd (server_try_resume blob open (sv_cfg sv) (sv_store sv) (o_acc cp) h (w_now w)) = SFull ->
   r_out r = ODone false false).
Proof.
  intros HR Z CO Hfs Hhalf r v. pose proof (reach_inv _ HR) as HI.
  apply Z.eqb_neq in Hfs. split.
  - intros Hv Hd. unfold r, conn_delta. cbv zeta. unfold offered in CO. rewrite CO.
    apply Z.leb_le in Hv. fold v. rewrite Hv, Hfs, Hd. reflexivity.
  - intros Hv Hd. unfold r, conn_delta. cbv zeta. pose proof CO as CO'. unfold offered in CO'. rewrite CO'.
    apply Z.leb_gt in Hv. fold v. rewrite Hv.
    destruct (server_try_resume blob open (sv_cfg sv) (sv_store sv) (o_acc cp) h (w_now w)) as [st1 d].
    cbn [snd] in Hd. subst d. rewrite Hfs.
    destruct (sv_usecache (sv_cfg sv)).
    + rewrite (no_misread w cp h used (w_fresh w + 1) HI CO (or_intror eq_refl)). rewrite Hhalf. reflexivity.
    + rewrite (no_misread w cp h used 0 HI CO (or_introl eq_refl)). rewrite Hhalf. reflexivity.
Qed.

(* ---- only completed handshakes become resumable; resumable is monotone ------------------------------ *)
(* a handshake that is held up before the server has verified the client's Finished leaves nothing
   resumable behind: no cache entry, no ticket (connections may overlap: other events, including connections
   offering the session ID and master secret the client already knows, run while it is suspended) *)
Theorem suspended_leaves_nothing_resumable w cp sv :
  let d := conn_delta' w cp sv in
  r_out (d_log blob d) = OSuspended ->
  d_issue blob d = None /\ r_sview (d_log blob d) = None /\
  forall st e, d_store blob d = Some st -> In e st -> In e (sv_store sv).
Proof.
  delta_cases; cbn [r_out r_sview]; intros H; try discriminate;
    (split; [reflexivity|]); (split; [reflexivity|]); intros st e Hs Hin; injection Hs as <-;
    match goal with
    | H : server_try_resume _ _ _ _ _ _ _ = (?st1, _) |- _ =>
        eapply try_resume_store_in; rewrite H; exact Hin
    end.
Qed.

(* in every reachable world (any history, any interleaving of open connections) every SessionCache entry
   stems from a connection whose full handshake COMPLETED (both Finished messages verified) *)
Theorem cache_only_completed w e :
  reachable' w -> entries blob w e ->
  exists r, In r (w_log w) /\ r_out r = ODone false false /\ r_sview r = Some (ce_sess e).
Proof. intros HR. apply (inv_cache_origin _ _ _ _ _ (reach_inv _ HR)). Qed.

(* resumable is monotone on the server: once a connection bound to the cached Session object has died
   abnormally there, the object's flag is clear in EVERY later world -- no clean close of another connection
   sharing the object, no other event, sets it again *)
Theorem resumable_monotone_server w crec sid sv e :
  reachable' w -> In crec (w_conns w) -> cr_ks crec = true -> cr_sobj crec = Some sid ->
  zget (w_servers w) (cr_srv crec) = Some sv -> In e (sv_store sv) -> s_sid (ce_sess e) = sid ->
  ce_res e = false.
Proof. intros HR. apply (inv_ks _ _ _ _ _ (reach_inv _ HR)). Qed.

(* ---- completeness of ticket acceptance (honest offer resumes) -------------------------------------- *)
Lemma try_decrypt_seal keys k n p :
  In k keys -> try_decrypt blob open keys (seal k n p) = Some (k, p).
Proof.
  induction keys as [|k0 ks IH]; [intros []|]. intros Hin. cbn [try_decrypt].
  destruct (Z.eq_dec k0 k) as [->|Hne].
  - rewrite open_seal. reflexivity.
  - rewrite (open_other_key k k0 n p (fun E => Hne (eq_sym E))).
    destruct Hin as [E|Hin]; [contradiction|apply IH; exact Hin].
Qed.

(* A ticket sealed under a current key, within its lifetime, whose suite is still acceptable, offered with
   a ClientHello consistent with it (suite offered; SRP user, server name, EtM, EMS as in the session -- for
   an SRP session this needs the user name that tickets carry since /repo 19b1cb2) is accepted: the server
   resumes exactly the session of the payload, in particular with its SRP user name.  (Server without a
   SessionCache; with one the cached object may be used instead, see ByBoth.) *)
Theorem honest_ticket_offer_resumes cfg st acc (h : hello blob) now k n p :
  h_ticket h = Some (seal k n p) -> In k (sv_keys cfg) -> now <= p_created p + sv_life cfg ->
  sv_usecache cfg = false ->
  zmem (p_suite p) acc = true -> hello_consistent (sess_of_payload p (h_sid h)) h ->
  server_try_resume blob open cfg st acc h now = (st, SResume (sess_of_payload p (h_sid h)) (ByTicket k)) /\
  s_srp (sess_of_payload p (h_sid h)) = p_srp p.
Proof.
  intros HT K L U A C. split; [|reflexivity].
  unfold server_try_resume. rewrite HT. rewrite orb_true_r.
  unfold ticket_to_session. rewrite (try_decrypt_seal _ _ _ _ K).
  replace (p_created p + sv_life cfg <? now) with false by (symmetry; apply Z.ltb_ge; exact L).
  rewrite U. cbn [andb]. cbn [s_suite sess_of_payload]. rewrite A. cbn [negb].
  rewrite (consistency_complete blob _ (ByTicket k) h C). reflexivity.
Qed.

End Thms.

(* ---- the symbolic AEAD satisfies the hypotheses; witnesses of the refuted statements ------------ *)
Lemma sym_aead_ideal : ideal_aead sblob Sealed sopen Tampered Junk.
Proof.
  repeat split.
  - intros k n p. cbn. rewrite Z.eqb_refl. reflexivity.
  - intros k k' n p Hne. cbn. destruct (k' =? k) eqn:E; [apply Z.eqb_eq in E; congruence|reflexivity].
Qed.

Definition wit_cfg (maxv : Z) (keys : list Z) (life : Z) : scfg :=
  {| sv_maxv := maxv; sv_keys := keys; sv_life := life; sv_count := 1; sv_usecache := false; sv_maxage := 200;
     sv_cap := 100; sv_ems := true; sv_etm := true; sv_reqcert := true |}.

Definition wit_cp (maxv : Z) (offer : option Z) (sni suite : Z) : cparams :=
  {| cp_srv := 0; cp_maxv := maxv; cp_suites := [4865; 4867; 49199]; cp_ems := true; cp_etm := true; cp_sni := sni;
     cp_srp := 0; cp_ccert := 1; cp_offer := offer; cp_half := 0; o_acc := [4865; 4867; 49199]; o_fsuite := suite; o_fcbc := false;
     o_fhash := 256; o_falert := 40 |}.

(* The history that refuted fallback_completes before /repo 51120a0 (F1): TLS 1.2, ticket issued under
   key 1, key replaced by 7, the client offers the session again.  Now: declined, full handshake completes. *)
Definition wit_f1_history : list event :=
  [EConn (wit_cp 3 None 1 49199); EClose 0 0; ECfg 0 (wit_cfg 3 [7] 400)].

Lemma fallback_f1_history_completes :
  let w := srun [wit_cfg 3 [1] 400] wit_f1_history in
  let cp := wit_cp 3 (Some 0) 1 49199 in
  exists sv h used,
    zget (w_servers w) 0 = Some sv /\
    client_offer sblob cp (offered sblob w cp) (w_now w) (w_fresh w) = Offer sblob h used /\
    h_ticket h <> None /\
    snd (server_try_resume sblob sopen (sv_cfg sv) (sv_store sv) (o_acc cp) h (w_now w)) = SFull /\
    r_out (d_log sblob (conn_delta sblob Sealed sopen w cp sv)) = ODone false false.
Proof.
  cbv zeta. eexists. eexists. eexists.
  split; [vm_compute; reflexivity|]. split; [vm_compute; reflexivity|].
  split; [vm_compute; discriminate|]. split; vm_compute; reflexivity.
Qed.

(* The history that refuted the TLS 1.3 lifetime conjunct before /repo e172bf7: ticketLifetime 100 s,
   offered 1000 s later by a client that keeps it.  Now: declined, full handshake completes. *)
Definition wit_13_expired : list event :=
  [EConn (wit_cp 4 None 1 4865); EClose 0 0; ETick 4000; EDevKeep 0].

Lemma tls13_expired_history_declined :
  let w := srun [wit_cfg 4 [1] 400] wit_13_expired in
  let cp := wit_cp 4 (Some 0) 1 4865 in
  exists sv h,
    zget (w_servers w) 0 = Some sv /\
    r_hello (d_log sblob (conn_delta sblob Sealed sopen w cp sv)) = Some h /\ h_psk h <> None /\
    r_out (d_log sblob (conn_delta sblob Sealed sopen w cp sv)) = ODone false false.
Proof.
  cbv zeta. eexists. eexists.
  split; [vm_compute; reflexivity|]. split; [vm_compute; reflexivity|].
  split; [vm_compute; discriminate|]. vm_compute. reflexivity.
Qed.

(* TLS 1.3: the resumed connection reports another server name / suite than the one that issued the ticket *)
Definition wit_13_sni : list event :=
  [EConn (wit_cp 4 None 1 4865); EClose 0 0; EDevSni 0 2].

Lemma tls13_sni_suite_refuted_witness :
  let w := srun [wit_cfg 4 [1] 400] wit_13_sni in
  let cp := wit_cp 4 (Some 0) 2 4867 in
  exists sv s r0 v0,
    zget (w_servers w) 0 = Some sv /\
    r_out (d_log sblob (conn_delta sblob Sealed sopen w cp sv)) = ODone true true /\
    r_sview (d_log sblob (conn_delta sblob Sealed sopen w cp sv)) = Some s /\
    nth_error (w_log w) 0 = Some r0 /\ r_sview r0 = Some v0 /\
    s_ccert s = s_ccert v0 /\ s_ccert s = 1 /\ s_sni s <> s_sni v0 /\ s_suite s <> s_suite v0.
Proof.
  cbv zeta. do 4 eexists.
  split; [vm_compute; reflexivity|]. split; [vm_compute; reflexivity|].
  split; [vm_compute; reflexivity|]. split; [vm_compute; reflexivity|].
  split; [vm_compute; reflexivity|]. split; [vm_compute; reflexivity|]. split; [vm_compute; reflexivity|].
  split; vm_compute; discriminate.
Qed.

(* The history of the former finding ticket-connection-failure-not-propagated-to-cache (server with cache
   and tickets): full handshake; close; resumed from the ticket (bound to the cached object since /repo
   4da1727); that connection dies abruptly at the server; the client's ticket expires; the session is
   offered by ID.  Before 4da1727 the last connection was resumed by ID; now it is a full handshake. *)
Definition wit_cfg_both : scfg :=
  {| sv_maxv := 3; sv_keys := [1]; sv_life := 400; sv_count := 1; sv_usecache := true; sv_maxage := 57600;
     sv_cap := 100; sv_ems := true; sv_etm := true; sv_reqcert := true |}.
Definition wit_ticketconn_history : list event :=
  [EConn (wit_cp 3 None 1 49199); EClose 0 0; EConn (wit_cp 3 (Some 0) 1 49199); EClose 1 2; ETick 404].

Lemma ticketconn_failure_reaches_cache_witness :
  let w := srun [wit_cfg_both] wit_ticketconn_history in
  let cp := wit_cp 3 (Some 0) 1 49199 in
  exists sv r1 h,
    zget (w_servers w) 0 = Some sv /\
    nth_error (w_log w) 1 = Some r1 /\ r_src r1 = Some (ByBoth 1) /\ r_out r1 = ODone true true /\
    r_hello (d_log sblob (conn_delta sblob Sealed sopen w cp sv)) = Some h /\
    h_ticket h = None /\ h_sid h <> 0 /\
    r_out (d_log sblob (conn_delta sblob Sealed sopen w cp sv)) = ODone false false.
Proof.
  cbv zeta. do 3 eexists.
  split; [vm_compute; reflexivity|]. split; [vm_compute; reflexivity|]. split; [vm_compute; reflexivity|].
  split; [vm_compute; reflexivity|]. split; [vm_compute; reflexivity|]. split; [vm_compute; reflexivity|].
  split; [vm_compute; discriminate|]. vm_compute. reflexivity.
Qed.

(* SRP sessions and tickets.  Before /repo 19b1cb2 the ticket payload had no SRP user name, the session
   rebuilt from it had none, and the consistency check aborted an honest client that offered its own SRP
   session (finding fallback-broken:ticket-tls12-srp:server-alert-40; this history ended with the server's
   handshake_failure).  Now the same offer resumes with the user name preserved. *)
Definition wit_cp_srp (offer : option Z) : cparams :=
  {| cp_srv := 0; cp_maxv := 3; cp_suites := [49185; 49182]; cp_ems := true; cp_etm := true; cp_sni := 1;
     cp_srp := 1; cp_ccert := 0; cp_offer := offer; cp_half := 0; o_acc := [49185; 49182]; o_fsuite := 49185; o_fcbc := true;
     o_fhash := 256; o_falert := 40 |}.
Definition wit_srp_history : list event := [EConn (wit_cp_srp None); EClose 0 0].

Lemma srp_ticket_offer_resumes_witness :
  let w := srun [wit_cfg 3 [1] 400] wit_srp_history in
  let cp := wit_cp_srp (Some 0) in
  exists sv h used b p s,
    zget (w_servers w) 0 = Some sv /\
    client_offer sblob cp (offered sblob w cp) (w_now w) (w_fresh w) = Offer sblob h used /\
    h_ticket h = Some b /\ sopen 1 b = Some p /\ h_srp h = 1 /\
    r_out (d_log sblob (conn_delta sblob Sealed sopen w cp sv)) = ODone true true /\
    r_sview (d_log sblob (conn_delta sblob Sealed sopen w cp sv)) = Some s /\ s_srp s = 1.
Proof.
  cbv zeta. do 6 eexists.
  split; [vm_compute; reflexivity|]. split; [vm_compute; reflexivity|]. split; [vm_compute; reflexivity|].
  split; [vm_compute; reflexivity|]. split; [vm_compute; reflexivity|]. split; [vm_compute; reflexivity|].
  split; vm_compute; reflexivity.
Qed.

(* stateless tickets: the server saw the connection die abruptly, the ticket still resumes *)
Definition wit_ticket_survives : list event := [EConn (wit_cp 3 None 1 49199); EClose 0 2].

Lemma ticket_outlives_invalidation_witness :
  let w := srun [wit_cfg 3 [1] 400] wit_ticket_survives in
  let cp := wit_cp 3 (Some 0) 1 49199 in
  exists sv crec,
    zget (w_servers w) 0 = Some sv /\ nth_error (w_conns w) 0 = Some crec /\ cr_ks crec = true /\
    r_out (d_log sblob (conn_delta sblob Sealed sopen w cp sv)) = ODone true true /\
    r_src (d_log sblob (conn_delta sblob Sealed sopen w cp sv)) = Some (ByTicket 1).
Proof.
  cbv zeta. do 2 eexists. repeat split; vm_compute; reflexivity.
Qed.
