(* Lemmas: the constant-time helpers of tlslite/utils/constanttime.py (as regenerated
   into Gen/ConstantTime.v) equal the plain comparisons on the full unsigned 32-bit range. *)
From Coq Require Import ZArith List Bool Lia.
From TV Require Import Base.Prelude Gen.ConstantTime.
Open Scope Z_scope.

Definition u32 (x : Z) : Prop := 0 <= x < 4294967296.

Lemma land_mask32 x : Z.land x 4294967295 = x mod 4294967296.
Proof. change 4294967295 with (Z.ones 32). rewrite Z.land_ones by lia. reflexivity. Qed.

Lemma high_bits_zero x n : u32 x -> 32 <= n -> Z.testbit x n = false.
Proof.
  intros [H0 H1] Hn. rewrite <- (Z.mod_small x (2^32)) by (change (2^32) with 4294967296; lia).
  apply Z.mod_pow2_bits_high. lia.
Qed.

Lemma testbit31 x : u32 x -> Z.testbit x 31 = (2147483648 <=? x).
Proof.
  intros [H0 H1].
  pose proof (Z.testbit_spec' x 31 ltac:(lia)) as H.
  change (2^31) with 2147483648 in H.
  assert (x / 2147483648 = 0 \/ x / 2147483648 = 1) as [E|E].
  { assert (0 <= x / 2147483648 < 2) by (split; [apply Z.div_pos; lia| apply Z.div_lt_upper_bound; lia]). lia. }
  - rewrite E in H. destruct (Z.testbit x 31); cbn in H; [discriminate|].
    symmetry. apply Z.leb_gt. 
    assert (x < 2147483648); [|lia]. 
    pose proof (Z.div_small_iff x 2147483648 ltac:(lia)). lia.
  - rewrite E in H. destruct (Z.testbit x 31); cbn in H; [|discriminate].
    symmetry. apply Z.leb_le. pose proof (Z.mul_div_le x 2147483648 ltac:(lia)). lia.
Qed.

(* x >> 31 for a value whose bits above 31 are zero *)
Lemma shiftr31_bit x : (forall n, 32 <= n -> Z.testbit x n = false) ->
  Z.shiftr x 31 = Z.b2z (Z.testbit x 31).
Proof.
  intros H. apply Z.bits_inj'. intros n Hn.
  rewrite Z.shiftr_spec by lia.
  destruct (Z.eq_dec n 0) as [->|Hne].
  - rewrite Z.b2z_bit0. reflexivity.
  - rewrite H by lia. symmetry.
    destruct (Z.testbit x 31); unfold Z.b2z.
    + change 1 with (2^0). apply Z.pow2_bits_false. lia.
    + apply Z.bits_0.
Qed.

Lemma ct_lt_u32_spec a b : u32 a -> u32 b -> ct_lt_u32 a b = if a <? b then 1 else 0.
Proof.
  intros Ha Hb. unfold ct_lt_u32.
  rewrite !land_mask32.
  rewrite (Z.mod_small a), (Z.mod_small b) by (unfold u32 in *; lia).
  set (d := (a - b) mod 4294967296).
  assert (Hd : u32 d) by (unfold d, u32; apply Z.mod_pos_bound; lia).
  rewrite shiftr31_bit.
  2:{ intros n Hn. rewrite Z.lxor_spec, Z.lor_spec, !Z.lxor_spec.
      rewrite !high_bits_zero by assumption. reflexivity. }
  rewrite Z.lxor_spec, Z.lor_spec, !Z.lxor_spec.
  rewrite !testbit31 by assumption.
  unfold d, u32 in *.
  destruct (a <? b) eqn:E.
  - apply Z.ltb_lt in E.
    assert ((a - b) mod 4294967296 = a - b + 4294967296) as ->.
    { symmetry. apply Z.mod_unique with (q := -1); lia. }
    destruct (2147483648 <=? a) eqn:E1, (2147483648 <=? b) eqn:E2, (2147483648 <=? a - b + 4294967296) eqn:E3; cbn; try reflexivity; lia.
  - apply Z.ltb_ge in E.
    rewrite (Z.mod_small (a - b)) by lia.
    destruct (2147483648 <=? a) eqn:E1, (2147483648 <=? b) eqn:E2, (2147483648 <=? a - b) eqn:E3; cbn; try reflexivity; lia.
Qed.

Lemma ct_gt_u32_spec a b : u32 a -> u32 b -> ct_gt_u32 a b = if b <? a then 1 else 0.
Proof. intros Ha Hb. unfold ct_gt_u32. apply ct_lt_u32_spec; assumption. Qed.

Lemma ct_le_u32_spec a b : u32 a -> u32 b -> ct_le_u32 a b = if a <=? b then 1 else 0.
Proof.
  intros Ha Hb. unfold ct_le_u32. rewrite ct_gt_u32_spec by assumption.
  destruct (b <? a) eqn:E1, (a <=? b) eqn:E2; try reflexivity; lia.
Qed.

Lemma ct_lsb_prop_u8_0 : ct_lsb_prop_u8 0 = 0.
Proof. reflexivity. Qed.
Lemma ct_lsb_prop_u8_1 : ct_lsb_prop_u8 1 = 255.
Proof. reflexivity. Qed.
Lemma ct_lsb_prop_u16_0 : ct_lsb_prop_u16 0 = 0.
Proof. reflexivity. Qed.
Lemma ct_lsb_prop_u16_1 : ct_lsb_prop_u16 1 = 65535.
Proof. reflexivity. Qed.

Lemma ct_neq_u32_spec a b : u32 a -> u32 b -> ct_neq_u32 a b = if a =? b then 0 else 1.
Proof.
  intros Ha Hb. unfold ct_neq_u32.
  rewrite !land_mask32.
  rewrite (Z.mod_small a), (Z.mod_small b) by (unfold u32 in *; lia).
  set (d := (a - b) mod 4294967296). set (e := (b - a) mod 4294967296).
  assert (Hd : u32 d) by (unfold d, u32; apply Z.mod_pos_bound; lia).
  assert (He : u32 e) by (unfold e, u32; apply Z.mod_pos_bound; lia).
  rewrite shiftr31_bit.
  2:{ intros n Hn. rewrite Z.lor_spec, !high_bits_zero by assumption. reflexivity. }
  rewrite Z.lor_spec, !testbit31 by assumption.
  unfold d, e, u32 in *.
  destruct (Z.lt_trichotomy a b) as [L|[L|L]].
  - assert ((a - b) mod 4294967296 = a - b + 4294967296) as -> by (symmetry; apply Z.mod_unique with (q := -1); lia).
    rewrite (Z.mod_small (b - a)) by lia.
    destruct (a =? b) eqn:E; [lia|].
    destruct (2147483648 <=? a - b + 4294967296) eqn:E1, (2147483648 <=? b - a) eqn:E2; cbn; try reflexivity; lia.
  - subst b. rewrite Z.sub_diag, Z.mod_0_l by lia. rewrite Z.eqb_refl. reflexivity.
  - assert ((b - a) mod 4294967296 = b - a + 4294967296) as -> by (symmetry; apply Z.mod_unique with (q := -1); lia).
    rewrite (Z.mod_small (a - b)) by lia.
    destruct (a =? b) eqn:E; [lia|].
    destruct (2147483648 <=? a - b) eqn:E1, (2147483648 <=? b - a + 4294967296) eqn:E2; cbn; try reflexivity; lia.
Qed.

Lemma ct_eq_u32_spec a b : u32 a -> u32 b -> ct_eq_u32 a b = if a =? b then 1 else 0.
Proof.
  intros Ha Hb. unfold ct_eq_u32. rewrite ct_neq_u32_spec by assumption.
  destruct (a =? b); reflexivity.
Qed.

Lemma ct_isnonzero_u32_spec a : u32 a -> ct_isnonzero_u32 a = if a =? 0 then 0 else 1.
Proof.
  intros Ha. unfold ct_isnonzero_u32.
  rewrite !land_mask32. rewrite (Z.mod_small a) by (unfold u32 in *; lia).
  set (e := (- a) mod 4294967296).
  assert (He : u32 e) by (unfold e, u32; apply Z.mod_pos_bound; lia).
  rewrite shiftr31_bit.
  2:{ intros n Hn. rewrite Z.lor_spec, !high_bits_zero by assumption. reflexivity. }
  rewrite Z.lor_spec, !testbit31 by assumption.
  unfold e, u32 in *.
  destruct (a =? 0) eqn:E.
  - apply Z.eqb_eq in E. subst a. reflexivity.
  - apply Z.eqb_neq in E.
    assert ((- a) mod 4294967296 = 4294967296 - a) as -> by (symmetry; apply Z.mod_unique with (q := -1); lia).
    destruct (2147483648 <=? a) eqn:E1, (2147483648 <=? 4294967296 - a) eqn:E2; cbn; try reflexivity; lia.
Qed.

Lemma ct_ops_spec_all : forall a b, u32 a -> u32 b ->
  ct_lt_u32 a b = (if a <? b then 1 else 0) /\
  ct_gt_u32 a b = (if b <? a then 1 else 0) /\
  ct_le_u32 a b = (if a <=? b then 1 else 0) /\
  ct_neq_u32 a b = (if a =? b then 0 else 1) /\
  ct_eq_u32 a b = (if a =? b then 1 else 0) /\
  ct_isnonzero_u32 a = (if a =? 0 then 0 else 1).
Proof.
  intros a b Ha Hb. repeat split.
  - apply ct_lt_u32_spec; assumption.
  - apply ct_gt_u32_spec; assumption.
  - apply ct_le_u32_spec; assumption.
  - apply ct_neq_u32_spec; assumption.
  - apply ct_eq_u32_spec; assumption.
  - apply ct_isnonzero_u32_spec; assumption.
Qed.
