(* C14 lemmas: Defragmenter -- the messages extracted do not depend on how the byte
   stream of a content type was cut into records. *)
From Coq Require Import ZArith List Bool Lia.
From TV Require Import Base.Prelude Model.C14_Defrag Proofs.C14_Transport.
Import ListNotations.
Open Scope Z_scope.

(* bytes are never negative (Python bytearray elements are 0..255) *)
Definition nonneg (l : list Z) : Prop := Forall (fun x => 0 <= x) l.

Lemma nonneg_app a c : nonneg a -> nonneg c -> nonneg (a ++ c).
Proof. unfold nonneg. intros. apply Forall_app. split; assumption. Qed.

Lemma nonneg_app_inv a c : nonneg (a ++ c) -> nonneg a /\ nonneg c.
Proof. unfold nonneg. intros H. apply Forall_app in H. exact H. Qed.

Lemma nonneg_firstn n l : nonneg l -> nonneg (firstn n l).
Proof.
  unfold nonneg. intros H. rewrite <- (firstn_skipn n l) in H. apply Forall_app in H. tauto.
Qed.

Lemma nonneg_skipn n l : nonneg l -> nonneg (skipn n l).
Proof.
  unfold nonneg. intros H. rewrite <- (firstn_skipn n l) in H. apply Forall_app in H. tauto.
Qed.

Lemma be_val_from_nonneg l : forall a, 0 <= a -> nonneg l -> 0 <= fold_left (fun a x => a * 256 + x) l a.
Proof.
  induction l as [|x l IH]; intros a Ha Hl; cbn [fold_left]; [exact Ha|].
  inversion Hl; subst. apply IH; [lia|assumption].
Qed.

Lemma be_val_nonneg l : nonneg l -> 0 <= be_val l.
Proof. intros H. unfold be_val. apply be_val_from_nonneg; [lia|exact H]. Qed.

Definition dwf (dec : decoder) : Prop := dec_wf dec = true.

(* a complete message has positive size and fits *)
Lemma msg_size_range dec data n :
  dwf dec -> nonneg data -> msg_size dec data = Some n -> 1 <= n <= zlen data.
Proof.
  unfold dwf. intros Hw Hd H. destruct dec as [size|off sz]; cbn [msg_size dec_wf] in *.
  - destruct (zlen data <? size) eqn:E; [discriminate|]. injection H as <-. lia.
  - apply andb_true_iff in Hw. destruct Hw as [H1 H2].
    destruct (zlen data <? off + sz) eqn:E; [discriminate|].
    set (p := be_val (firstn (Z.to_nat sz) (skipn (Z.to_nat off) data))) in *.
    assert (0 <= p) by (apply be_val_nonneg, nonneg_firstn, nonneg_skipn; exact Hd).
    destruct (zlen data - (off + sz) <? p) eqn:E2; [discriminate|]. injection H as <-. lia.
Qed.

(* once complete, appending more bytes does not change the verdict *)
Lemma msg_size_stable dec data x n :
  dwf dec -> msg_size dec data = Some n -> msg_size dec (data ++ x) = Some n.
Proof.
  unfold dwf. intros Hw H. pose proof (zlen_nonneg x) as Hx.
  destruct dec as [size|off sz]; cbn [msg_size dec_wf] in *.
  - rewrite zlen_app. destruct (zlen data <? size) eqn:E; [discriminate|].
    destruct (zlen data + zlen x <? size) eqn:E2; [lia|exact H].
  - apply andb_true_iff in Hw. destruct Hw as [H1 H2].
    rewrite zlen_app.
    destruct (zlen data <? off + sz) eqn:E; [discriminate|].
    destruct (zlen data + zlen x <? off + sz) eqn:E3; [lia|].
    assert (Hs : firstn (Z.to_nat sz) (skipn (Z.to_nat off) (data ++ x))
                 = firstn (Z.to_nat sz) (skipn (Z.to_nat off) data)).
    { rewrite skipn_short_Z by lia. rewrite firstn_app.
      assert (Hl : (Z.to_nat sz <= length (skipn (Z.to_nat off) data))%nat).
      { rewrite skipn_length. unfold zlen in *. lia. }
      replace (Z.to_nat sz - length (skipn (Z.to_nat off) data))%nat with 0%nat by lia.
      cbn [firstn]. apply app_nil_r. }
    rewrite Hs.
    set (p := be_val (firstn (Z.to_nat sz) (skipn (Z.to_nat off) data))) in *.
    destruct (zlen data - (off + sz) <? p) eqn:E2; [discriminate|].
    destruct (zlen data + zlen x - (off + sz) <? p) eqn:E4; [lia|exact H].
Qed.

(* ---- parse_stream ------------------------------------------------------------------------- *)
Lemma parse_fuel_stable dec (Hw : dwf dec) : forall f1 f2 data,
  nonneg data -> (length data < f1)%nat -> (length data < f2)%nat ->
  parse_fuel f1 dec data = parse_fuel f2 dec data.
Proof.
  induction f1 as [|f1 IH]; intros f2 data Hd H1 H2; [lia|].
  destruct f2 as [|f2]; [lia|]. cbn [parse_fuel].
  destruct (msg_size dec data) as [n|] eqn:E; [|reflexivity].
  pose proof (msg_size_range dec data n Hw Hd E) as Hn.
  assert (Hl : (length (skipn (Z.to_nat n) data) < length data)%nat).
  { rewrite skipn_length. unfold zlen in Hn. lia. }
  rewrite (IH f2 (skipn (Z.to_nat n) data)); [reflexivity|apply nonneg_skipn; exact Hd|lia|lia].
Qed.

Lemma parse_stream_unfold dec (Hw : dwf dec) data : nonneg data ->
  parse_stream dec data =
  match msg_size dec data with
  | None => ([], data)
  | Some n => let '(ms, rest) := parse_stream dec (skipn (Z.to_nat n) data) in
              (firstn (Z.to_nat n) data :: ms, rest)
  end.
Proof.
  intros Hd. unfold parse_stream at 1. cbn [parse_fuel].
  destruct (msg_size dec data) as [n|] eqn:E; [|reflexivity].
  pose proof (msg_size_range dec data n Hw Hd E) as Hn.
  unfold parse_stream.
  rewrite (parse_fuel_stable dec Hw (length data) (S (length (skipn (Z.to_nat n) data))));
    [reflexivity|apply nonneg_skipn; exact Hd| |lia].
  rewrite skipn_length. unfold zlen in Hn. lia.
Qed.

(* induction principle on the length of the buffer *)
Lemma length_ind (P : list Z -> Prop) :
  (forall l, (forall l', (length l' < length l)%nat -> P l') -> P l) -> forall l, P l.
Proof.
  intros H l. assert (G : forall n l, (length l < n)%nat -> P l).
  { induction n as [|n IH]; intros l0 Hl; [lia|]. apply H. intros l' Hl'. apply IH. lia. }
  apply (G (S (length l))). lia.
Qed.

Lemma parse_rest_incomplete dec (Hw : dwf dec) : forall data, nonneg data ->
  msg_size dec (snd (parse_stream dec data)) = None /\ nonneg (snd (parse_stream dec data)).
Proof.
  apply (length_ind (fun data => nonneg data ->
    msg_size dec (snd (parse_stream dec data)) = None /\ nonneg (snd (parse_stream dec data)))).
  intros data IH Hd. rewrite (parse_stream_unfold dec Hw data Hd).
  destruct (msg_size dec data) as [n|] eqn:E; [|cbn [snd]; split; assumption].
  pose proof (msg_size_range dec data n Hw Hd E) as Hn.
  specialize (IH (skipn (Z.to_nat n) data)).
  destruct (parse_stream dec (skipn (Z.to_nat n) data)) as [ms rest]. cbn [snd] in *.
  apply IH; [|apply nonneg_skipn; exact Hd].
  rewrite skipn_length. unfold zlen in Hn. lia.
Qed.

(* parsing b ++ x = parsing b, then parsing what was left of b followed by x *)
Lemma parse_append dec (Hw : dwf dec) x (Hx : nonneg x) : forall data, nonneg data ->
  parse_stream dec (data ++ x) =
  (fst (parse_stream dec data) ++ fst (parse_stream dec (snd (parse_stream dec data) ++ x)),
   snd (parse_stream dec (snd (parse_stream dec data) ++ x))).
Proof.
  apply (length_ind (fun data => nonneg data -> parse_stream dec (data ++ x) =
    (fst (parse_stream dec data) ++ fst (parse_stream dec (snd (parse_stream dec data) ++ x)),
     snd (parse_stream dec (snd (parse_stream dec data) ++ x))))).
  intros data IH Hd.
  rewrite (parse_stream_unfold dec Hw data Hd).
  destruct (msg_size dec data) as [n|] eqn:E.
  - pose proof (msg_size_range dec data n Hw Hd E) as Hn.
    rewrite (parse_stream_unfold dec Hw (data ++ x) (nonneg_app _ _ Hd Hx)).
    rewrite (msg_size_stable dec data x n Hw E).
    rewrite skipn_short_Z by lia. rewrite firstn_short_Z by lia.
    specialize (IH (skipn (Z.to_nat n) data)).
    rewrite IH; [|rewrite skipn_length; unfold zlen in Hn; lia|apply nonneg_skipn; exact Hd].
    destruct (parse_stream dec (skipn (Z.to_nat n) data)) as [ms rest]. cbn [fst snd].
    reflexivity.
  - cbn [fst snd app].
    destruct (parse_stream dec (data ++ x)) as [ms rest]. reflexivity.
Qed.

(* ---- the multi-type defragmenter -------------------------------------------------------- *)
Definition dinv (d : defrag) : Prop :=
  wf d = true /\ nodup_types d = true /\ Forall (fun e => nonneg (e_buf e)) d.

Lemma buffer_of_cons t e d :
  buffer_of t (e :: d) = if e_type e =? t then e_buf e else buffer_of t d.
Proof. unfold buffer_of. cbn [find]. destruct (e_type e =? t); reflexivity. Qed.

Lemma decoder_of_cons t e d :
  decoder_of t (e :: d) = if e_type e =? t then Some (e_dec e) else decoder_of t d.
Proof. unfold decoder_of. cbn [find]. destruct (e_type e =? t); reflexivity. Qed.

Lemma defined_cons t e d : defined t (e :: d) = (e_type e =? t) || defined t d.
Proof. reflexivity. Qed.

Lemma decoder_defined t d dec : decoder_of t d = Some dec -> defined t d = true.
Proof.
  induction d as [|e d IH]; [discriminate|].
  rewrite decoder_of_cons, defined_cons. destruct (e_type e =? t); [reflexivity|exact IH].
Qed.

Lemma dinv_cons e d : dinv (e :: d) ->
  dwf (e_dec e) /\ defined (e_type e) d = false /\ nonneg (e_buf e) /\ dinv d.
Proof.
  unfold dinv, dwf. cbn [wf forallb nodup_types]. intros [H1 [H2 H3]].
  apply andb_true_iff in H1. apply andb_true_iff in H2. inversion H3; subst.
  destruct H1, H2. repeat split; try assumption.
  destruct (defined (e_type e) d); [discriminate|reflexivity].
Qed.

Lemma dinv_cons_intro e d :
  dwf (e_dec e) -> defined (e_type e) d = false -> nonneg (e_buf e) -> dinv d -> dinv (e :: d).
Proof.
  unfold dinv, dwf. intros H1 H2 H3 [H4 [H5 H6]]. split; [|split].
  - change (wf (e :: d)) with (dec_wf (e_dec e) && wf d). rewrite H1, H4. reflexivity.
  - change (nodup_types (e :: d)) with (negb (defined (e_type e) d) && nodup_types d).
    rewrite H2, H5. reflexivity.
  - constructor; assumption.
Qed.

Lemma buffer_of_nonneg t d : dinv d -> nonneg (buffer_of t d).
Proof.
  induction d as [|e d IH]; intros H.
  - unfold buffer_of. cbn. constructor.
  - apply dinv_cons in H. destruct H as [_ [_ [Hb Hd]]].
    rewrite buffer_of_cons. destruct (e_type e =? t); [exact Hb|apply IH; exact Hd].
Qed.

Lemma decoder_of_wf t d dec : dinv d -> decoder_of t d = Some dec -> dwf dec.
Proof.
  induction d as [|e d IH]; intros H; [discriminate|].
  apply dinv_cons in H. destruct H as [Hw [_ [_ Hd]]].
  rewrite decoder_of_cons. destruct (e_type e =? t).
  - intros E. injection E as <-. exact Hw.
  - apply IH. exact Hd.
Qed.

Lemma get_message_some : forall d, dinv d -> forall t m d', get_message d = Some ((t, m), d') ->
  exists dec n, decoder_of t d = Some dec /\ msg_size dec (buffer_of t d) = Some n /\
    m = firstn (Z.to_nat n) (buffer_of t d) /\
    buffer_of t d' = skipn (Z.to_nat n) (buffer_of t d) /\
    (forall t', t' <> t -> buffer_of t' d' = buffer_of t' d) /\
    (forall t', decoder_of t' d' = decoder_of t' d) /\
    (forall t', defined t' d' = defined t' d) /\
    dinv d' /\ (total_len d' < total_len d)%nat.
Proof.
  induction d as [|e d IH]; intros Hinv t m d' H; [discriminate|].
  pose proof (dinv_cons e d Hinv) as [Hw [Hnd [Hb Hd]]].
  destruct e as [[ty0 dec0] buf0]. cbn [e_type e_dec e_buf fst snd] in *.
  cbn [get_message e_type e_dec e_buf fst snd] in H.
  destruct (msg_size dec0 buf0) as [n|] eqn:E.
  - injection H as <- <- <-.
    pose proof (msg_size_range _ _ _ Hw Hb E) as Hn.
    exists dec0, n.
    rewrite !buffer_of_cons, decoder_of_cons. cbn [e_type e_buf e_dec fst snd]. rewrite Z.eqb_refl.
    split; [reflexivity|]. split; [exact E|]. split; [reflexivity|]. split; [reflexivity|].
    split.
    { intros t' Ht. rewrite !buffer_of_cons. cbn [e_type e_buf fst snd].
      destruct (ty0 =? t') eqn:Et; [apply Z.eqb_eq in Et; congruence|reflexivity]. }
    split; [intros t'; rewrite !decoder_of_cons; reflexivity|].
    split; [intros t'; rewrite !defined_cons; reflexivity|].
    split.
    { apply dinv_cons_intro; cbn [e_type e_dec e_buf fst snd]; try assumption.
      apply nonneg_skipn. exact Hb. }
    cbn [total_len fold_right e_buf snd]. fold (total_len d). rewrite skipn_length.
    unfold zlen in Hn. lia.
  - destruct (get_message d) as [[m0 d0]|] eqn:Eg; [|discriminate].
    injection H as -> <-.
    destruct (IH Hd t m d0 eq_refl) as [dec [n [H1 [H2 [H3 [H4 [H5 [H6 [H7 [H8 H9]]]]]]]]]].
    assert (Hne : (ty0 =? t) = false).
    { destruct (ty0 =? t) eqn:Et; [|reflexivity]. apply Z.eqb_eq in Et. subst t.
      rewrite (decoder_defined _ _ _ H1) in Hnd. discriminate. }
    exists dec, n. rewrite !buffer_of_cons, decoder_of_cons. cbn [e_type e_dec e_buf fst snd]. rewrite Hne.
    split; [exact H1|]. split; [exact H2|]. split; [exact H3|]. split; [exact H4|].
    split.
    { intros t' Ht. rewrite !buffer_of_cons. cbn [e_type e_buf fst snd].
      destruct (ty0 =? t'); [reflexivity|apply H5; exact Ht]. }
    split.
    { intros t'. rewrite !decoder_of_cons. cbn [e_type e_dec fst snd].
      destruct (ty0 =? t'); [reflexivity|apply H6]. }
    split; [intros t'; rewrite !defined_cons, H7; reflexivity|].
    split.
    { apply dinv_cons_intro; cbn [e_type e_dec e_buf fst snd]; try assumption. rewrite H7. exact Hnd. }
    cbn [total_len fold_right]. fold (total_len d0). fold (total_len d). lia.
Qed.

Lemma get_message_none : forall d, get_message d = None ->
  forall t dec, decoder_of t d = Some dec -> msg_size dec (buffer_of t d) = None.
Proof.
  induction d as [|e d IH]; intros H t dec Hdec; [discriminate|].
  cbn [get_message] in H.
  destruct (msg_size (e_dec e) (e_buf e)) as [n|] eqn:E; [discriminate|].
  destruct (get_message d) as [[m0 d0]|] eqn:Eg; [discriminate|].
  rewrite decoder_of_cons in Hdec. rewrite buffer_of_cons.
  destruct (e_type e =? t).
  - injection Hdec as <-. exact E.
  - apply IH; [reflexivity|exact Hdec].
Qed.

Lemma msgs_of_cons t t0 m ms :
  msgs_of t ((t0, m) :: ms) = if t0 =? t then m :: msgs_of t ms else msgs_of t ms.
Proof. unfold msgs_of. cbn [filter fst]. destruct (t0 =? t); reflexivity. Qed.

Lemma msgs_of_app t a c : msgs_of t (a ++ c) = msgs_of t a ++ msgs_of t c.
Proof. unfold msgs_of. rewrite filter_app, map_app. reflexivity. Qed.

(* draining: per type exactly the complete messages of its buffer, the rest stays; the
   fuel S (total_len d) never runs out (get_message = None at the end) *)
Lemma drain_fuel_spec : forall fuel d, dinv d -> (total_len d < fuel)%nat ->
  get_message (snd (drain_fuel fuel d)) = None /\ dinv (snd (drain_fuel fuel d)) /\
  (forall t, decoder_of t (snd (drain_fuel fuel d)) = decoder_of t d) /\
  (forall t, defined t (snd (drain_fuel fuel d)) = defined t d) /\
  forall t dec, decoder_of t d = Some dec ->
    msgs_of t (fst (drain_fuel fuel d)) = fst (parse_stream dec (buffer_of t d)) /\
    buffer_of t (snd (drain_fuel fuel d)) = snd (parse_stream dec (buffer_of t d)).
Proof.
  induction fuel as [|fuel IH]; intros d Hinv Hf; [lia|].
  cbn [drain_fuel].
  destruct (get_message d) as [[[t0 m] d1]|] eqn:Eg.
  - destruct (get_message_some d Hinv t0 m d1 Eg) as [dec0 [n [H1 [H2 [H3 [H4 [H5 [H6 [H7 [H8 H9]]]]]]]]]].
    specialize (IH d1 H8 ltac:(lia)).
    destruct (drain_fuel fuel d1) as [ms d2]. cbn [fst snd] in *.
    destruct IH as [I1 [I2 [I3 [I4 I5]]]].
    split; [exact I1|]. split; [exact I2|].
    split; [intros t; rewrite I3; apply H6|].
    split; [intros t; rewrite I4; apply H7|].
    intros t dec Hdec. rewrite msgs_of_cons.
    assert (Hdec1 : decoder_of t d1 = Some dec) by (rewrite H6; exact Hdec).
    destruct (I5 t dec Hdec1) as [J1 J2].
    destruct (t0 =? t) eqn:Et.
    + apply Z.eqb_eq in Et. subst t0.
      assert (dec0 = dec) by congruence. subst dec0.
      rewrite (parse_stream_unfold dec (decoder_of_wf t d dec Hinv Hdec) (buffer_of t d)
                 (buffer_of_nonneg t d Hinv)).
      rewrite H2. rewrite H4 in J1, J2.
      destruct (parse_stream dec (skipn (Z.to_nat n) (buffer_of t d))) as [ms' rest].
      cbn [fst snd] in *. rewrite J1, J2, H3. split; reflexivity.
    + apply Z.eqb_neq in Et. rewrite (H5 t ltac:(congruence)) in J1, J2. split; assumption.
  - cbn [fst snd]. split; [exact Eg|]. split; [exact Hinv|].
    split; [reflexivity|]. split; [reflexivity|].
    intros t dec Hdec.
    rewrite (parse_stream_unfold dec (decoder_of_wf t d dec Hinv Hdec) (buffer_of t d)
               (buffer_of_nonneg t d Hinv)).
    rewrite (get_message_none d Eg t dec Hdec). cbn [fst snd]. split; reflexivity.
Qed.

Lemma append_to_spec ty data : forall d, dinv d -> nonneg data -> defined ty d = true ->
  dinv (append_to ty data d) /\
  buffer_of ty (append_to ty data d) = buffer_of ty d ++ data /\
  (forall t, t <> ty -> buffer_of t (append_to ty data d) = buffer_of t d) /\
  (forall t, decoder_of t (append_to ty data d) = decoder_of t d) /\
  (forall t, defined t (append_to ty data d) = defined t d).
Proof.
  induction d as [|e d IH]; intros Hinv Hdata Hdef; [discriminate|].
  pose proof (dinv_cons e d Hinv) as [Hw [Hnd [Hb Hd]]].
  destruct e as [[ty0 dec0] buf0]. cbn [e_type e_dec e_buf fst snd] in *.
  cbn [append_to e_type e_dec e_buf fst snd]. rewrite defined_cons in Hdef. cbn [e_type fst] in Hdef.
  destruct (ty0 =? ty) eqn:Et.
  - rewrite !buffer_of_cons. cbn [e_type e_buf fst snd]. rewrite Et.
    split.
    { apply dinv_cons_intro; cbn [e_type e_dec e_buf fst snd]; try assumption. apply nonneg_app; assumption. }
    split; [reflexivity|].
    split.
    { intros t Ht. rewrite !buffer_of_cons. cbn [e_type e_buf fst snd].
      destruct (ty0 =? t) eqn:E2; [|reflexivity].
      apply Z.eqb_eq in E2. apply Z.eqb_eq in Et. congruence. }
    split; intros t; [rewrite !decoder_of_cons|rewrite !defined_cons]; reflexivity.
  - cbn [orb] in Hdef. destruct (IH Hd Hdata Hdef) as [I1 [I2 [I3 [I4 I5]]]].
    rewrite !buffer_of_cons. cbn [e_type e_buf fst snd]. rewrite Et.
    split.
    { apply dinv_cons_intro; cbn [e_type e_dec e_buf fst snd]; try assumption. rewrite I5. exact Hnd. }
    split; [exact I2|].
    split.
    { intros t Ht. rewrite !buffer_of_cons. cbn [e_type e_buf fst snd].
      destruct (ty0 =? t); [reflexivity|apply I3; exact Ht]. }
    split; intros t; [rewrite !decoder_of_cons, I4|rewrite !defined_cons, I5]; reflexivity.
Qed.

Lemma stream_for_cons t ty data rs :
  stream_for t ((ty, data) :: rs) = (if ty =? t then data else []) ++ stream_for t rs.
Proof. unfold stream_for. cbn [filter fst]. destruct (ty =? t); reflexivity. Qed.

Definition records_ok (d : defrag) (records : list (Z * list Z)) : Prop :=
  Forall (fun r => nonneg (snd r) /\ defined (fst r) d = true) records.

Lemma feed_spec : forall records d, dinv d -> records_ok d records ->
  exists ms d', feed records d = Ok (ms, d') /\ dinv d' /\ get_message d' = None /\
  forall t dec, decoder_of t d = Some dec ->
    msgs_of t ms = fst (parse_stream dec (buffer_of t d ++ stream_for t records)) /\
    buffer_of t d' = snd (parse_stream dec (buffer_of t d ++ stream_for t records)).
Proof.
  induction records as [|[ty data] rs IH]; intros d Hinv Hrec.
  - cbn [feed]. unfold drain.
    pose proof (drain_fuel_spec (S (total_len d)) d Hinv ltac:(lia)) as [H1 [H2 [H3 [H4 H5]]]].
    destruct (drain_fuel (S (total_len d)) d) as [ms d'] eqn:E. cbn [fst snd] in *.
    exists ms, d'. split; [reflexivity|]. split; [exact H2|]. split; [exact H1|].
    intros t dec Hdec. unfold stream_for. cbn [filter map concat]. rewrite app_nil_r. apply H5. exact Hdec.
  - inversion Hrec as [|r rs' [Hdata Hdef] Hrest]; subst. cbn [fst snd] in *.
    cbn [feed]. unfold drain.
    pose proof (drain_fuel_spec (S (total_len d)) d Hinv ltac:(lia)) as [H1 [H2 [H3 [H4 H5]]]].
    destruct (drain_fuel (S (total_len d)) d) as [ms1 d1] eqn:E. cbn [fst snd] in *.
    unfold add_data. rewrite H4, Hdef. cbn [bind].
    destruct (append_to_spec ty data d1 H2 Hdata ltac:(rewrite H4; exact Hdef)) as [A1 [A2 [A3 [A4 A5]]]].
    assert (Hrec2 : records_ok (append_to ty data d1) rs).
    { unfold records_ok in *. eapply Forall_impl; [|exact Hrest].
      intros r [Ha Hb]. split; [exact Ha|]. rewrite A5, H4. exact Hb. }
    destruct (IH (append_to ty data d1) A1 Hrec2) as [ms2 [d3 [F1 [F2 [F3 F4]]]]].
    rewrite F1. cbn [bind].
    exists (ms1 ++ ms2), d3. split; [reflexivity|]. split; [exact F2|]. split; [exact F3|].
    intros t dec Hdec.
    assert (Hw : dwf dec) by (apply (decoder_of_wf t d dec Hinv Hdec)).
    destruct (H5 t dec Hdec) as [P1 P2].
    assert (Hdec2 : decoder_of t (append_to ty data d1) = Some dec) by (rewrite A4, H3; exact Hdec).
    destruct (F4 t dec Hdec2) as [Q1 Q2].
    rewrite stream_for_cons.
    assert (Hx : nonneg ((if ty =? t then data else []) ++ stream_for t rs)).
    { apply nonneg_app; [destruct (ty =? t); [exact Hdata|constructor]|].
      unfold stream_for. clear -Hrest. induction Hrest as [|r rs [Ha Hb] Hr IHr]; cbn [filter].
      - cbn. constructor.
      - destruct (fst r =? t); cbn [map concat]; [apply nonneg_app; assumption|exact IHr]. }
    rewrite (parse_append dec Hw _ Hx (buffer_of t d) (buffer_of_nonneg t d Hinv)).
    cbn [fst snd]. rewrite <- P2.
    assert (Hb2 : buffer_of t (append_to ty data d1) = buffer_of t d1 ++ (if ty =? t then data else [])).
    { destruct (ty =? t) eqn:Et.
      - apply Z.eqb_eq in Et. subst t. exact A2.
      - rewrite app_nil_r. apply A3. apply Z.eqb_neq in Et. congruence. }
    rewrite Hb2, <- app_assoc in Q1, Q2.
    rewrite msgs_of_app, P1, Q1, Q2. split; reflexivity.
Qed.

(* two ways of cutting the same per-type streams into records give the same messages *)
Lemma refragment_invariant d records1 records2 :
  dinv d -> records_ok d records1 -> records_ok d records2 ->
  (forall t, stream_for t records1 = stream_for t records2) ->
  exists ms1 d1 ms2 d2,
    feed records1 d = Ok (ms1, d1) /\ feed records2 d = Ok (ms2, d2) /\
    forall t, defined t d = true -> msgs_of t ms1 = msgs_of t ms2 /\ buffer_of t d1 = buffer_of t d2.
Proof.
  intros Hinv H1 H2 Hs.
  destruct (feed_spec records1 d Hinv H1) as [ms1 [d1 [F1 [_ [_ S1]]]]].
  destruct (feed_spec records2 d Hinv H2) as [ms2 [d2 [F2 [_ [_ S2]]]]].
  exists ms1, d1, ms2, d2. split; [exact F1|]. split; [exact F2|].
  intros t Hdef.
  destruct (decoder_of t d) as [dec|] eqn:Ed.
  - destruct (S1 t dec Ed) as [A1 A2]. destruct (S2 t dec Ed) as [B1 B2].
    rewrite A1, A2, B1, B2, Hs. split; reflexivity.
  - exfalso. clear -Hdef Ed. induction d as [|e d IH]; [discriminate|].
    rewrite decoder_of_cons in Ed. rewrite defined_cons in Hdef.
    destruct (e_type e =? t); [discriminate|]. apply IH; assumption.
Qed.

Lemma tls_defrag_inv : dinv tls_defrag.
Proof. unfold dinv, tls_defrag. cbn. repeat split. repeat constructor. Qed.

(* priority: the message returned belongs to the first type, in priority order, that has a
   complete message *)
Lemma get_message_priority : forall d t m d', get_message d = Some ((t, m), d') ->
  exists pre e post, d = pre ++ e :: post /\ e_type e = t /\
    (forall e', In e' pre -> msg_size (e_dec e') (e_buf e') = None) /\
    exists n, msg_size (e_dec e) (e_buf e) = Some n /\ m = firstn (Z.to_nat n) (e_buf e) /\
      d' = pre ++ (e_type e, e_dec e, skipn (Z.to_nat n) (e_buf e)) :: post.
Proof.
  induction d as [|e d IH]; intros t m d' H; [discriminate|].
  cbn [get_message] in H.
  destruct (msg_size (e_dec e) (e_buf e)) as [n|] eqn:E.
  - injection H as <- <- <-. exists [], e, d. cbn [app].
    split; [reflexivity|]. split; [reflexivity|]. split; [intros e' []|].
    exists n. repeat split. exact E.
  - destruct (get_message d) as [[m0 d0]|] eqn:Eg; [|discriminate].
    injection H as -> <-.
    destruct (IH t m d0 eq_refl) as [pre [e1 [post [H1 [H2 [H3 [n [H4 [H5 H6]]]]]]]]].
    exists (e :: pre), e1, post. cbn [app]. rewrite <- H1.
    split; [reflexivity|]. split; [exact H2|].
    split; [intros e' [<-|Hin]; [exact E|apply H3; exact Hin]|].
    exists n. split; [exact H4|]. split; [exact H5|]. rewrite H6. reflexivity.
Qed.

Lemma is_empty_spec d : is_empty d = true <-> forall e, In e d -> e_buf e = [].
Proof.
  unfold is_empty. rewrite forallb_forall. split; intros H e Hin.
  - apply zlen_nil. apply Z.eqb_eq. apply H. exact Hin.
  - rewrite (H e Hin). reflexivity.
Qed.

Lemma clear_buffers_empty d : is_empty (clear_buffers d) = true.
Proof.
  unfold is_empty, clear_buffers. rewrite forallb_forall. intros e Hin.
  apply in_map_iff in Hin. destruct Hin as [e0 [<- _]]. reflexivity.
Qed.
