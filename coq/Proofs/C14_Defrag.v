(* C14 lemmas: Defragmenter -- the messages extracted do not depend on how the byte
   stream of a content type was cut into records. *)
From Coq Require Import ZArith List Bool Lia.
From TV Require Import Base.Prelude Model.C14_Defrag Proofs.C14_Transport.
Import ListNotations.
Open Scope Z_scope.
