(* C10: integer lemmas: powmod = Z.pow mod, CRT private operation, blinding, FFDH. *)
From Coq Require Import ZArith List Bool Lia Znumtheory Zpow_facts.
From TV Require Import Base.Prelude Model.C10_RsaMath.
Import ListNotations.
Open Scope Z_scope.

(* ---- powmod ------------------------------------------------------------------ *)
Lemma powmod_pos_spec b e n : 0 < n -> powmod_pos b e n = b ^ Zpos e mod n.
Proof.
  intros Hn. induction e as [e IH|e IH|].
  - cbn [powmod_pos]. rewrite IH.
    replace (Zpos e~1) with (Zpos e + Zpos e + 1) by lia.
    rewrite !Z.pow_add_r by lia. rewrite Z.pow_1_r.
    rewrite <- (Z.mul_mod_idemp_l (b ^ Z.pos e * b ^ Z.pos e)) by lia.
    rewrite (Z.mul_mod (b ^ Z.pos e) (b ^ Z.pos e)) by lia. reflexivity.
  - cbn [powmod_pos]. rewrite IH.
    replace (Zpos e~0) with (Zpos e + Zpos e) by lia.
    rewrite Z.pow_add_r by lia. rewrite <- Z.mul_mod by lia. reflexivity.
  - cbn [powmod_pos]. rewrite Z.pow_1_r. reflexivity.
Qed.

Lemma powmod_spec b e n : 0 < n -> 0 <= e -> powmod b e n = b ^ e mod n.
Proof.
  intros Hn He. destruct e as [|e|e]; cbn [powmod].
  - reflexivity.
  - apply powmod_pos_spec. exact Hn.
  - lia.
Qed.

Lemma powmod_range b e n : 0 < n -> 0 <= e -> 0 <= powmod b e n < n.
Proof. intros Hn He. rewrite powmod_spec by assumption. apply Z.mod_pos_bound. exact Hn. Qed.

Lemma pow_mod_l a b n : 0 < n -> (a mod n) ^ b mod n = a ^ b mod n.
Proof. intros Hn. symmetry. apply Zpower_mod. lia. Qed.

(* ---- CRT uniqueness ---------------------------------------------------------- *)
Lemma crt_unique p q x y :
  0 < p -> 0 < q -> rel_prime p q ->
  0 <= x < p * q -> 0 <= y < p * q ->
  x mod p = y mod p -> x mod q = y mod q -> x = y.
Proof.
  intros Hp Hq Hrel Hx Hy Ep Eq.
  assert (Dp : (p | x - y)).
  { apply Z.mod_divide; [lia|]. rewrite Zminus_mod, Ep, Z.sub_diag. apply Z.mod_0_l. lia. }
  assert (Dq : (q | x - y)).
  { apply Z.mod_divide; [lia|]. rewrite Zminus_mod, Eq, Z.sub_diag. apply Z.mod_0_l. lia. }
  destruct Dq as [t Ht].
  assert (Dt : (p | t)).
  { apply Gauss with q; [|exact Hrel]. rewrite Z.mul_comm, <- Ht. exact Dp. }
  destruct Dt as [s Hs]. subst t.
  assert (E : x - y = s * (p * q)) by (rewrite Ht; ring).
  assert (s = 0) by nia. subst s. lia.
Qed.

Lemma rel_prime_of_inverse p q qi : 1 < p -> (q * qi) mod p = 1 -> rel_prime p q.
Proof.
  intros Hp H. apply bezout_rel_prime.
  (* q*qi = p * ((q*qi)/p) + 1 *)
  pose proof (Z.div_mod (q * qi) p ltac:(lia)) as D. rewrite H in D.
  apply Bezout_intro with (u := - ((q * qi) / p)) (v := qi). lia.
Qed.

Section Key.
  Variable k : rsa_priv.
  Hypothesis Hshape : crt_shape_ok k = true.
  Hypothesis Hed : forall x, 0 <= x < rk_n k -> (x ^ rk_e k) ^ rk_d k mod rk_n k = x.
  Hypothesis HdP : forall x, 0 <= x < rk_p k -> x ^ rk_dP k mod rk_p k = x ^ rk_d k mod rk_p k.
  Hypothesis HdQ : forall x, 0 <= x < rk_q k -> x ^ rk_dQ k mod rk_q k = x ^ rk_d k mod rk_q k.

  Lemma shape_facts :
    1 < rk_p k /\ 1 < rk_q k /\ rk_n k = rk_p k * rk_q k /\ (rk_q k * rk_qInv k) mod rk_p k = 1 /\
    0 <= rk_dP k /\ 0 <= rk_dQ k /\ 0 <= rk_d k /\ 0 <= rk_e k.
  Proof.
    pose proof Hshape as H. unfold crt_shape_ok in H.
    rewrite !andb_true_iff, !Z.ltb_lt, !Z.leb_le, !Z.eqb_eq in H. tauto.
  Qed.

  Lemma n_pos : 1 < rk_n k.
  Proof. destruct shape_facts as (Hp & Hq & Hn & _). rewrite Hn. nia. Qed.

  Lemma pow_mod_p_dP m : m ^ rk_dP k mod rk_p k = m ^ rk_d k mod rk_p k.
  Proof.
    destruct shape_facts as (Hp & _).
    rewrite <- (pow_mod_l m (rk_dP k)) by lia. rewrite <- (pow_mod_l m (rk_d k)) by lia.
    apply HdP. apply Z.mod_pos_bound. lia.
  Qed.
  Lemma pow_mod_q_dQ m : m ^ rk_dQ k mod rk_q k = m ^ rk_d k mod rk_q k.
  Proof.
    destruct shape_facts as (_ & Hq & _).
    rewrite <- (pow_mod_l m (rk_dQ k)) by lia. rewrite <- (pow_mod_l m (rk_d k)) by lia.
    apply HdQ. apply Z.mod_pos_bound. lia.
  Qed.

  Lemma mod_mod_divisor a p q : 0 < p -> 0 < q -> (a mod (p * q)) mod p = a mod p.
  Proof.
    intros Hp Hq. rewrite Z.rem_mul_r by lia.
    rewrite Z.add_mod by lia. rewrite Z.mod_mod by lia.
    rewrite (Z.mul_comm p), Z.mod_mul by lia. rewrite Z.add_0_r. apply Z.mod_mod. lia.
  Qed.

  (* python_rsakey.py _rawPrivateKeyOpHelper computes m^d mod n *)
  Lemma crt_helper_correct m : raw_private_helper k m = m ^ rk_d k mod rk_n k.
  Proof.
    destruct shape_facts as (Hp & Hq & Hn & Hinv & HdP0 & HdQ0 & Hd0 & He0).
    unfold raw_private_helper.
    rewrite !powmod_spec by lia.
    rewrite pow_mod_p_dP, pow_mod_q_dQ.
    set (X := m ^ rk_d k).
    set (s1 := X mod rk_p k). set (s2 := X mod rk_q k).
    set (h := ((s1 - s2) * rk_qInv k) mod rk_p k).
    assert (Bs2 : 0 <= s2 < rk_q k) by (apply Z.mod_pos_bound; lia).
    assert (Bh : 0 <= h < rk_p k) by (apply Z.mod_pos_bound; lia).
    apply crt_unique with (p := rk_p k) (q := rk_q k); try lia.
    - apply rel_prime_of_inverse with (rk_qInv k); assumption.
    - nia.
    - rewrite Hn. apply Z.mod_pos_bound. nia.
    - (* mod p *)
      rewrite Hn, mod_mod_divisor by lia. fold s1.
      unfold h. rewrite Z.add_mod by lia. rewrite Z.mul_mod_idemp_r by lia.
      replace (rk_q k * ((s1 - s2) * rk_qInv k)) with ((rk_q k * rk_qInv k) * (s1 - s2)) by ring.
      rewrite <- Z.add_mod by lia.
      rewrite <- Z.add_mod_idemp_r by lia. rewrite <- Z.mul_mod_idemp_l by lia. rewrite Hinv.
      rewrite Z.mul_1_l. rewrite Z.add_mod_idemp_r by lia.
      replace (s2 + (s1 - s2)) with s1 by ring. unfold s1. apply Z.mod_mod. lia.
    - (* mod q *)
      rewrite Hn, (Z.mul_comm (rk_p k)), mod_mod_divisor by lia. fold s2.
      rewrite (Z.mul_comm (rk_q k) h), Z_mod_plus_full. apply Z.mod_small. exact Bs2.
  Qed.

  (* exponents commute: the signing direction of H-rsa-key *)
  Lemma rsa_de x : 0 <= x < rk_n k -> (x ^ rk_d k) ^ rk_e k mod rk_n k = x.
  Proof.
    intros Hx. destruct shape_facts as (_ & _ & _ & _ & _ & _ & Hd0 & He0).
    rewrite <- Z.pow_mul_r by lia. rewrite Z.mul_comm. rewrite Z.pow_mul_r by lia. apply Hed. exact Hx.
  Qed.

  Lemma rsa_priv_then_pub x : 0 <= x < rk_n k -> powmod (x ^ rk_d k mod rk_n k) (rk_e k) (rk_n k) = x.
  Proof.
    intros Hx. pose proof n_pos as Hn. destruct shape_facts as (_ & _ & _ & _ & _ & _ & Hd0 & He0).
    rewrite powmod_spec by lia. rewrite pow_mod_l by lia. apply rsa_de. exact Hx.
  Qed.

  Lemma rsa_pub_injective x y :
    0 <= x < rk_n k -> 0 <= y < rk_n k ->
    powmod x (rk_e k) (rk_n k) = powmod y (rk_e k) (rk_n k) -> x = y.
  Proof.
    intros Hx Hy E. pose proof n_pos as Hn. destruct shape_facts as (_ & _ & _ & _ & _ & _ & Hd0 & He0).
    rewrite !powmod_spec in E by lia.
    rewrite <- (Hed x Hx), <- (Hed y Hy).
    rewrite <- (pow_mod_l (x ^ rk_e k)), <- (pow_mod_l (y ^ rk_e k)) by lia. rewrite E. reflexivity.
  Qed.

  (* ---- blinding ------------------------------------------------------------ *)
  Definition blind_inv (b : blind) : Prop :=
    (bl_blinder b * bl_unblinder b ^ rk_e k) mod rk_n k = 1.

  Lemma blind_update_inv b : blind_inv b -> blind_inv (blind_update k b).
  Proof.
    unfold blind_inv, blind_update. cbn [bl_blinder bl_unblinder]. intros H.
    pose proof n_pos as Hn. destruct shape_facts as (_ & _ & _ & _ & _ & _ & Hd0 & He0).
    rewrite <- Z.mul_mod_idemp_r by lia. rewrite pow_mod_l by lia.
    rewrite Z.mul_mod_idemp_r by lia. rewrite Z.mul_mod_idemp_l by lia.
    rewrite Z.pow_mul_l.
    replace (bl_blinder b * bl_blinder b * (bl_unblinder b ^ rk_e k * bl_unblinder b ^ rk_e k))
      with ((bl_blinder b * bl_unblinder b ^ rk_e k) * (bl_blinder b * bl_unblinder b ^ rk_e k)) by ring.
    rewrite Z.mul_mod by lia. rewrite H. rewrite Z.mul_1_l. apply Z.mod_1_l. lia.
  Qed.

  (* first use: unblinder u random, blinder = invMod(u, n)^e mod n, provided u is invertible *)
  Lemma blind_create_inv u ui : (u * ui) mod rk_n k = 1 -> blind_inv (blind_create k u ui).
  Proof.
    unfold blind_inv, blind_create. cbn [bl_blinder bl_unblinder]. intros H.
    pose proof n_pos as Hn. destruct shape_facts as (_ & _ & _ & _ & _ & _ & Hd0 & He0).
    rewrite powmod_spec by lia. rewrite Z.mul_mod_idemp_l by lia.
    rewrite <- Z.pow_mul_l. rewrite <- pow_mod_l by lia. rewrite (Z.mul_comm ui), H.
    rewrite Z.pow_1_l by lia. apply Z.mod_1_l. lia.
  Qed.

  Lemma blind_cancel b : blind_inv b -> (bl_blinder b ^ rk_d k * bl_unblinder b) mod rk_n k = 1.
  Proof.
    unfold blind_inv. intros H.
    pose proof n_pos as Hn. destruct shape_facts as (_ & _ & _ & _ & _ & _ & Hd0 & He0).
    set (B := bl_blinder b) in *. set (U := bl_unblinder b) in *.
    assert (E1 : (B * U ^ rk_e k) ^ rk_d k mod rk_n k = 1).
    { rewrite <- pow_mod_l by lia. rewrite H. rewrite Z.pow_1_l by lia. apply Z.mod_1_l. lia. }
    rewrite Z.pow_mul_l in E1.
    assert (E2 : (U ^ rk_e k) ^ rk_d k mod rk_n k = U mod rk_n k).
    { rewrite <- (pow_mod_l (U ^ rk_e k)) by lia. rewrite <- (pow_mod_l U (rk_e k)) by lia.
      rewrite pow_mod_l by lia. apply Hed. apply Z.mod_pos_bound. lia. }
    rewrite <- Z.mul_mod_idemp_r in E1 by lia. rewrite E2 in E1.
    rewrite Z.mul_mod_idemp_r in E1 by lia. exact E1.
  Qed.

  Lemma raw_private_op_correct b m :
    blind_inv b -> 0 <= m < rk_n k ->
    fst (raw_private_op k b m) = m ^ rk_d k mod rk_n k /\ blind_inv (snd (raw_private_op k b m)).
  Proof.
    intros Hb Hm. unfold raw_private_op. cbn [fst snd]. split; [|apply blind_update_inv; exact Hb].
    pose proof n_pos as Hn. destruct shape_facts as (_ & _ & _ & _ & _ & _ & Hd0 & He0).
    rewrite crt_helper_correct. rewrite pow_mod_l by lia. rewrite Z.mul_mod_idemp_l by lia.
    rewrite Z.pow_mul_l. rewrite <- Z.mul_assoc. rewrite <- Z.mul_mod_idemp_r by lia.
    rewrite (blind_cancel b Hb). rewrite Z.mul_1_r. reflexivity.
  Qed.

  Lemma raw_private_ops_correct ms : forall b,
    blind_inv b -> Forall (fun m => 0 <= m < rk_n k) ms ->
    fst (raw_private_ops k b ms) = map (fun m => m ^ rk_d k mod rk_n k) ms /\
    blind_inv (snd (raw_private_ops k b ms)).
  Proof.
    induction ms as [|m ms IH]; intros b Hb Hms; cbn [raw_private_ops map].
    - split; [reflexivity|exact Hb].
    - inversion Hms as [|? ? Hm Hrest]; subst.
      destruct (raw_private_op_correct b m Hb Hm) as [E1 E2].
      destruct (raw_private_op k b m) as [c b'] eqn:Eop. cbn [fst snd] in E1, E2.
      destruct (IH b' E2 Hrest) as [E3 E4].
      destruct (raw_private_ops k b' ms) as [cs b''] eqn:Eops. cbn [fst snd] in *.
      split; [rewrite E1, E3; reflexivity|exact E4].
  Qed.
End Key.

(* ---- the hypotheses are satisfiable: a small real key ---------------------- *)
Definition toy_key : rsa_priv :=
  {| rk_n := 3233; rk_e := 17; rk_d := 2753; rk_p := 61; rk_q := 53; rk_dP := 53; rk_dQ := 49; rk_qInv := 38 |}.

Lemma forall_range_lift (P : Z -> bool) a b :
  forallb P (zrange a b) = true -> forall x, a <= x < b -> P x = true.
Proof. intros H x Hx. rewrite forallb_forall in H. apply H. apply in_zrange. exact Hx. Qed.

Lemma toy_key_shape : crt_shape_ok toy_key = true.
Proof. vm_compute. reflexivity. Qed.

Lemma toy_key_ed : forall x, 0 <= x < rk_n toy_key -> (x ^ rk_e toy_key) ^ rk_d toy_key mod rk_n toy_key = x.
Proof.
  intros x Hx.
  assert (H : forallb (fun x => powmod (powmod x 17 3233) 2753 3233 =? x) (zrange 0 3233) = true)
    by (vm_compute; reflexivity).
  pose proof (forall_range_lift _ _ _ H x Hx) as E. cbv beta in E. apply Z.eqb_eq in E.
  rewrite !powmod_spec in E by lia. rewrite pow_mod_l in E by lia. exact E.
Qed.

Lemma toy_key_dP : forall x, 0 <= x < rk_p toy_key -> x ^ rk_dP toy_key mod rk_p toy_key = x ^ rk_d toy_key mod rk_p toy_key.
Proof.
  intros x Hx.
  assert (H : forallb (fun x => powmod x 53 61 =? powmod x 2753 61) (zrange 0 61) = true)
    by (vm_compute; reflexivity).
  pose proof (forall_range_lift _ _ _ H x Hx) as E. cbv beta in E. apply Z.eqb_eq in E.
  rewrite !powmod_spec in E by lia. exact E.
Qed.

Lemma toy_key_dQ : forall x, 0 <= x < rk_q toy_key -> x ^ rk_dQ toy_key mod rk_q toy_key = x ^ rk_d toy_key mod rk_q toy_key.
Proof.
  intros x Hx.
  assert (H : forallb (fun x => powmod x 49 53 =? powmod x 2753 53) (zrange 0 53) = true)
    by (vm_compute; reflexivity).
  pose proof (forall_range_lift _ _ _ H x Hx) as E. cbv beta in E. apply Z.eqb_eq in E.
  rewrite !powmod_spec in E by lia. exact E.
Qed.

Lemma toy_key_blind_inv : blind_inv toy_key (blind_create toy_key 7 462).
Proof. apply (blind_create_inv toy_key toy_key_shape). vm_compute. reflexivity. Qed.

Lemma blinding_inv_both :
  forall k, crt_shape_ok k = true ->
    (forall u ui, (u * ui) mod rk_n k = 1 -> blind_inv k (blind_create k u ui)) /\
    (forall b, blind_inv k b -> blind_inv k (blind_update k b)).
Proof. intros k H. split; [exact (blind_create_inv k H)|exact (blind_update_inv k H)]. Qed.

(* ---- why the pair must be read (and replaced) atomically ------------------------------- *)
Lemma torn_is_op k b m : raw_private_op_torn k (bl_blinder b) (bl_unblinder b) m = fst (raw_private_op k b m).
Proof. reflexivity. Qed.

(* correct whenever the two values actually used satisfy the invariant ... *)
Lemma torn_correct_if_consistent k (Hs : crt_shape_ok k = true)
      (Hed : forall x, 0 <= x < rk_n k -> (x ^ rk_e k) ^ rk_d k mod rk_n k = x)
      (HdP : forall x, 0 <= x < rk_p k -> x ^ rk_dP k mod rk_p k = x ^ rk_d k mod rk_p k)
      (HdQ : forall x, 0 <= x < rk_q k -> x ^ rk_dQ k mod rk_q k = x ^ rk_d k mod rk_q k) bl ub m :
  (bl * ub ^ rk_e k) mod rk_n k = 1 -> 0 <= m < rk_n k ->
  raw_private_op_torn k bl ub m = m ^ rk_d k mod rk_n k.
Proof.
  intros Hinv Hm.
  change (raw_private_op_torn k bl ub m) with (fst (raw_private_op k {| bl_blinder := bl; bl_unblinder := ub |} m)).
  apply (raw_private_op_correct k Hs Hed HdP HdQ); assumption.
Qed.

(* ... and wrong otherwise: blinder taken AFTER another thread's update, unblinder BEFORE it
   (toy key, pair created from u = 7): the result is not m^d mod n *)
Lemma torn_read_breaks :
  let b := blind_create toy_key 7 462 in
  let b' := blind_update toy_key b in
  raw_private_op_torn toy_key (bl_blinder b') (bl_unblinder b) 2 <> powmod 2 (rk_d toy_key) (rk_n toy_key) /\
  raw_private_op_torn toy_key (bl_blinder b) (bl_unblinder b) 2 = powmod 2 (rk_d toy_key) (rk_n toy_key).
Proof. cbv zeta. split; vm_compute; [discriminate|reflexivity]. Qed.
