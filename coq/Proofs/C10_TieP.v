(* C10: obligations that tie the hand-written models to the regenerated tables
   (Gen/C10_Tables.v).  Each is closed by computation; a change in /repo that alters a table
   makes the corresponding obligation fail to compile. *)
From Coq Require Import ZArith List Bool String.
From TV Require Import Base.Prelude Gen.C10_Tables Model.C10_SignSites Spec.C10_DigestInfo.
Import ListNotations.
Local Open Scope string_scope.

(* the identity of every signing site known when the model was written *)
Definition expected_site_ids : list (string * string * string) := [
  ("keyexchange.py", "KeyExchange._tls12_sign_ecdsa_SKE", "sign");
  ("keyexchange.py", "KeyExchange._tls12_sign_dsa_SKE", "sign");
  ("keyexchange.py", "KeyExchange._tls12_sign_eddsa_ske", "hashAndSign");
  ("keyexchange.py", "KeyExchange._tls12_signSKE", "sign");
  ("keyexchange.py", "KeyExchange.signServerKeyExchange", "sign");
  ("keyexchange.py", "KeyExchange.makeCertificateVerify", "hashAndSign|sign");
  ("tlsconnection.py", "TLSConnection._clientTLS13Handshake", "hashAndSign|sign");
  ("tlsconnection.py", "TLSConnection._serverTLS13Handshake", "hashAndSign|sign");
  ("tlsrecordlayer.py", "TLSRecordLayer._handle_pha", "hashAndSign|sign")
].

(* fingerprints of the modelled functions at the time the models were written/validated *)
Definition expected_fingerprints : list (string * string) := [
  ("keyexchange.py:FFDHKeyExchange.__init__", "8c929e555cc92e0b");
  ("keyexchange.py:FFDHKeyExchange.calc_public_value", "ba13bd3e457fcd2d");
  ("keyexchange.py:FFDHKeyExchange._normalise_peer_share", "2b4091d285e2d3b3");
  ("keyexchange.py:FFDHKeyExchange.calc_shared_key", "91ac0384d716ddcc");
  ("keyexchange.py:ECDHKeyExchange._non_zero_check", "2b492add8763cbb1");
  ("keyexchange.py:ECDHKeyExchange.calc_shared_key", "0a48ff75512105c7");
  ("keyexchange.py:ECDHKeyExchange._get_fun_gen_size", "76587201a0e568e7");
  ("cryptomath.py:bytesToNumber", "fd941533c2fb0aa1");
  ("cryptomath.py:numberToByteArray", "b38d08ee6bd42849");
  ("cryptomath.py:divceil", "24423bf7d72accb1");
  ("cryptomath.py:secureHash", "7fe3e9951a0f75c7");
  ("python_dsakey.py:Python_DSAKey.sign", "e7342ccd4ca09bbb");
  ("python_dsakey.py:Python_DSAKey.verify", "b87764ce4e870e29");
  ("python_dsakey.py:Python_DSAKey.hashAndSign", "ce8bcedfcb353606");
  ("python_dsakey.py:Python_DSAKey.hashAndVerify", "8923a87b6397cca1");
  ("python_dsakey.py:Python_DSAKey.generate", "e8013bfc3df9e26e");
  ("python_dsakey.py:Python_DSAKey.generate_qp", "5f166df08c9e8d70");
  ("python_rsakey.py:Python_RSAKey._rawPrivateKeyOp", "21ec51fc9e09cfe1");
  ("python_rsakey.py:Python_RSAKey._rawPrivateKeyOpHelper", "35769c37e4fcadbd");
  ("python_rsakey.py:Python_RSAKey._rawPublicKeyOp", "5438ac819f318ef5");
  ("rsakey.py:RSAKey.hashAndSign", "615f40f87aa3d419");
  ("rsakey.py:RSAKey.hashAndVerify", "ea026835a7c1c057");
  ("rsakey.py:RSAKey.MGF1", "903d7055670b52ce");
  ("rsakey.py:RSAKey.EMSA_PSS_encode", "3be4a14cd632476d");
  ("rsakey.py:RSAKey.RSASSA_PSS_sign", "1a4c7804efc928aa");
  ("rsakey.py:RSAKey.EMSA_PSS_verify", "85a6ba3370fc745a");
  ("rsakey.py:RSAKey.RSASSA_PSS_verify", "dcf6f087a0b4ea2f");
  ("rsakey.py:RSAKey._raw_pkcs1_sign", "4fe802ef16022440");
  ("rsakey.py:RSAKey.sign", "0fd99480ae288237");
  ("rsakey.py:RSAKey._raw_pkcs1_verify", "3f01b1c778227d53");
  ("rsakey.py:RSAKey.verify", "38c2730b142c4784");
  ("rsakey.py:RSAKey._raw_private_key_op_bytes", "dd192fd5222fa7de");
  ("rsakey.py:RSAKey._raw_public_key_op_bytes", "92a8583595f6434b");
  ("rsakey.py:RSAKey.addPKCS1SHA1Prefix", "23bd28d0ae1ec321");
  ("rsakey.py:RSAKey.addPKCS1Prefix", "dece9d7bb5d2d4a0");
  ("rsakey.py:RSAKey._addPKCS1Padding", "07936a5873b4490e");
  ("x25519.py:decodeUCoordinate", "bfb56c2047e79bdc");
  ("x25519.py:decodeScalar22519", "c4c1379d669e6b5e");
  ("x25519.py:decodeScalar448", "82ba3d92770d85ca");
  ("x25519.py:cswap", "bf32b38b79505331");
  ("x25519.py:x25519", "4b41ed51e9f7f617");
  ("x25519.py:x448", "574d7332174a9d72");
  ("x25519.py:_x25519_generic", "650f627f1bd09c91")
].

Lemma prefixes_match_rfc : pkcs1_prefixes = rfc8017_digestinfo_prefixes /\
                           sha1_prefix_no_null = sha1_digestinfo_prefix_without_null.
Proof. split; reflexivity. Qed.

Lemma sites_as_modelled : forallb site_checked sign_sites = true /\ map site_id sign_sites = expected_site_ids.
Proof. split; vm_compute; reflexivity. Qed.

Lemma sources_unchanged : src_fingerprints = expected_fingerprints.
Proof. reflexivity. Qed.

(* every caller of a helper whose signing site raises TLSInternalError turns it into an
   internal_error alert (since /repo dd1d1cb; before, the SRP and anonymous server paths did not) *)
Lemma unhandled_callers_are : unhandled_callers = [].
Proof. vm_compute. reflexivity. Qed.

(* the blinding pair is only ever read or written while the key's lock is held *)
Lemma state_access_locked :
  rsa_state_accesses <> [] /\
  forallb (fun a => match a with (_, _, _, locked) => locked end) rsa_state_accesses = true.
Proof. split; [discriminate|vm_compute; reflexivity]. Qed.

(* the range / length / structure guards on which the acceptance theorems rest are present in the code
   (condition text normalised by ast.unparse; effect of the guarded branch) *)
Definition expected_range_guards : list (string * string * string) := [
  ("_raw_public_key_op_bytes", "len(ciphertext) != numBytes(n)", "raise");
  ("_raw_public_key_op_bytes", "c_int >= n", "raise");                     (* RFC 8017 5.2.2 step 1 *)
  ("_raw_private_key_op_bytes", "len(message) != numBytes(n)", "raise");
  ("_raw_private_key_op_bytes", "m_int >= n", "raise");
  ("_raw_pkcs1_verify", "numBytes(self.n) < len(bytes) + 11", "return-false");
  ("_raw_pkcs1_sign", "numBytes(self.n) < len(bytes) + 11", "raise");
  ("verify", "0 < r < self.q and 0 < s < self.q", "branch");               (* FIPS 186-4 4.7 *)
  ("verify", "not signature", "return-false");
  ("verify", "padding == 'pkcs1' and self.key_type == 'rsa-pss'", "return-false");
  ("EMSA_PSS_verify", "emLen < hashLen + sLen + 2", "raise");
  ("EMSA_PSS_verify", "EM[-1] != 188", "raise");
  ("EMSA_PSS_verify", "maskedDB[0] & DBHelpMask != 0", "raise");
  ("EMSA_PSS_verify", "DB[emLen - hashLen - sLen - 2] != 1", "raise");
  ("RSASSA_PSS_verify", "any(EM[:len(EM) - emLen])", "raise");
  ("__init__", "not 1 < self.generator < self.prime", "raise");
  ("calc_public_value", "dh_Y in (1, self.prime - 1)", "raise");
  ("_normalise_peer_share", "numBytes(self.prime) != len(peer_share)", "raise");
  ("calc_shared_key", "not 2 <= peer_share < self.prime - 1", "raise");
  ("calc_shared_key", "S in (1, self.prime - 1)", "raise");
  ("calc_shared_key", "len(peer_share) != size", "raise");
  ("_non_zero_check", "summa == 0", "raise")
].

Definition guard_eqb (a b : string * string * string) : bool :=
  match a, b with (f1, c1, k1), (f2, c2, k2) => String.eqb f1 f2 && String.eqb c1 c2 && String.eqb k1 k2 end.

Lemma guards_present :
  forallb (fun g => existsb (guard_eqb g) range_guards) expected_range_guards = true.
Proof. vm_compute. reflexivity. Qed.
