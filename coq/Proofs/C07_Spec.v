(* C07 -- lemmas about Spec/C07_NegotiateRFC.v *)
From Coq Require Import ZArith List Bool Lia.
From TV Require Import Spec.C07_NegotiateRFC.
Import ListNotations.
Open Scope Z_scope.

Lemma mem_In x l : mem x l = true <-> In x l.
Proof.
  unfold mem. rewrite existsb_exists. split.
  - intros [y [Hy E]]. apply Z.eqb_eq in E. subst. exact Hy.
  - intros H. exists x. split; [exact H|apply Z.eqb_refl].
Qed.

Lemma first_common_some pref other ok x :
  first_common pref other ok = Some x -> In x pref /\ In x other /\ ok x = true.
Proof.
  induction pref as [|y t IH]; cbn [first_common]; [discriminate|].
  destruct (mem y other && ok y) eqn:E.
  - intros H. injection H as <-. apply andb_true_iff in E. destruct E as [A B].
    split; [left; reflexivity|]. split; [apply mem_In; exact A|exact B].
  - intros H. destruct (IH H) as [A B]. split; [right; exact A|exact B].
Qed.

Lemma first_common_none pref other ok :
  first_common pref other ok = None -> forall x, In x pref -> In x other -> ok x = true -> False.
Proof.
  induction pref as [|y t IH]; cbn [first_common]; intros H x Hx Ho Hk; [destruct Hx|].
  destruct (mem y other && ok y) eqn:E; [discriminate|].
  destruct Hx as [->|Hx]; [|exact (IH H x Hx Ho Hk)].
  apply mem_In in Ho. rewrite Ho, Hk in E. discriminate E.
Qed.

Lemma first_common_exists pref other ok x :
  In x pref -> In x other -> ok x = true -> exists y, first_common pref other ok = Some y.
Proof.
  intros A B C. destruct (first_common pref other ok) eqn:E; [eexists; reflexivity|].
  exfalso. exact (first_common_none _ _ _ E x A B C).
Qed.

(* highest_such: invariant of the fold *)
Definition hs_step (p : Z -> bool) (acc : option Z) (v : Z) : option Z :=
  if p v then match acc with Some m => Some (Z.max m v) | None => Some v end else acc.

Lemma hs_fold_spec p a : forall acc seen,
  (match acc with
   | Some m => In m seen /\ p m = true /\ (forall w, In w seen -> p w = true -> w <= m)
   | None => forall w, In w seen -> p w = true -> False end) ->
  match fold_left (hs_step p) a acc with
  | Some m => In m (seen ++ a) /\ p m = true /\ (forall w, In w (seen ++ a) -> p w = true -> w <= m)
  | None => forall w, In w (seen ++ a) -> p w = true -> False end.
Proof.
  induction a as [|v t IH]; intros acc seen Hacc; cbn [fold_left].
  - rewrite app_nil_r. exact Hacc.
  - replace (seen ++ v :: t) with ((seen ++ [v]) ++ t) by (rewrite <- app_assoc; reflexivity).
    apply IH. unfold hs_step. destruct (p v) eqn:M.
    + destruct acc as [m|].
      * destruct Hacc as [A [B C]]. split; [|split].
        -- destruct (Z.max_spec m v) as [[_ ->]|[_ ->]]; apply in_or_app; [right; left; reflexivity|left; exact A].
        -- destruct (Z.max_spec m v) as [[_ ->]|[_ ->]]; assumption.
        -- intros w Hw Hb. apply in_app_or in Hw. destruct Hw as [Hw|[<-|[]]]; [specialize (C w Hw Hb)|]; lia.
      * split; [apply in_or_app; right; left; reflexivity|]. split; [exact M|].
        intros w Hw Hb. apply in_app_or in Hw. destruct Hw as [Hw|[<-|[]]]; [exfalso; exact (Hacc w Hw Hb)|lia].
    + destruct acc as [m|].
      * destruct Hacc as [A [B C]]. split; [apply in_or_app; left; exact A|]. split; [exact B|].
        intros w Hw Hb. apply in_app_or in Hw. destruct Hw as [Hw|[<-|[]]]; [exact (C w Hw Hb)|congruence].
      * intros w Hw Hb. apply in_app_or in Hw. destruct Hw as [Hw|[<-|[]]]; [exact (Hacc w Hw Hb)|congruence].
Qed.

Lemma highest_such_spec p a :
  match highest_such p a with
  | Some m => In m a /\ p m = true /\ (forall w, In w a -> p w = true -> w <= m)
  | None => forall w, In w a -> p w = true -> False end.
Proof.
  unfold highest_such. change (fun acc v => _) with (hs_step p).
  apply (hs_fold_spec p a None []). intros w [].
Qed.

Lemma feasible_spec env c s v suite : feasible env c s v suite = true <->
  usable env v suite = true /\
  (needs_group env suite = true -> exists g, In g (cf_groups c) /\ In g (cf_groups s)) /\
  (needs_sig env v suite = true -> exists sg, In sg (cf_sigs c) /\ In sg (cf_sigs s) /\ sig_fits env v sg = true).
Proof.
  unfold feasible. split.
  - intros H. apply andb_true_iff in H. destruct H as [H H3]. apply andb_true_iff in H. destruct H as [H1 H2].
    split; [exact H1|]. split.
    + intros N. rewrite N in H2. cbn [negb orb] in H2.
      destruct (first_common (cf_groups s) (cf_groups c) _) as [g|] eqn:E; [|discriminate H2].
      apply first_common_some in E. exists g. split; [exact (proj1 (proj2 E))|exact (proj1 E)].
    + intros N. rewrite N in H3. cbn [negb orb] in H3.
      destruct (first_common (cf_sigs s) (cf_sigs c) _) as [g|] eqn:E; [|discriminate H3].
      apply first_common_some in E. exists g. split; [exact (proj1 (proj2 E))|]. split; [exact (proj1 E)|exact (proj2 (proj2 E))].
  - intros [H1 [H2 H3]]. rewrite H1. cbn [andb].
    apply andb_true_iff. split.
    + destruct (needs_group env suite); [|reflexivity]. cbn [negb orb].
      destruct (H2 eq_refl) as [g [A B]].
      destruct (first_common_exists (cf_groups s) (cf_groups c) (fun _ => true) g B A eq_refl) as [y ->]. reflexivity.
    + destruct (needs_sig env v suite); [|reflexivity]. cbn [negb orb].
      destruct (H3 eq_refl) as [g [A [B C]]].
      destruct (first_common_exists (cf_sigs s) (cf_sigs c) (sig_fits env v) g B A C) as [y ->]. reflexivity.
Qed.

Lemma version_ok_spec env c s v : version_ok env c s v = true ->
  In v (cf_versions s).
Proof. unfold version_ok. rewrite andb_true_iff, mem_In. intros [A _]. exact A. Qed.

Theorem spec_fails_iff_no_common_pf env c s : spec_negotiate env c s = None <-> ~ common env c s.
Proof.
  unfold spec_negotiate. pose proof (highest_such_spec (version_ok env c s) (cf_versions c)) as HV.
  destruct (highest_such (version_ok env c s) (cf_versions c)) as [v|] eqn:EV.
  - destruct HV as [V1 [V2 V3]].
    destruct (first_common (cf_suites s) (cf_suites c) (feasible env c s v)) as [suite|] eqn:ES.
    + apply first_common_some in ES. destruct ES as [S1 [S2 S3]]. apply feasible_spec in S3.
      assert (CM : exists v suite, In v (cf_versions c) /\ version_ok env c s v = true /\
         (forall w, In w (cf_versions c) -> version_ok env c s w = true -> w <= v) /\
         In suite (cf_suites c) /\ In suite (cf_suites s) /\ usable env v suite = true /\
         (needs_group env suite = true -> exists g, In g (cf_groups c) /\ In g (cf_groups s)) /\
         (needs_sig env v suite = true -> exists sg, In sg (cf_sigs c) /\ In sg (cf_sigs s) /\ sig_fits env v sg = true)).
      { exists v, suite. destruct S3 as [U [G Sg]]. repeat split; assumption. }
      destruct (cf_alpn c) as [a|] eqn:EA, (cf_alpn s) as [b|] eqn:EB;
        try (split; [discriminate|]; intros N; exfalso; apply N; split; [exact CM|]; intros a0 b0 X Y; congruence).
      destruct (first_common b a (fun _ => true)) as [p|] eqn:EP.
      * split; [discriminate|]. intros N. exfalso. apply N. split; [exact CM|].
        intros a0 b0 X Y. rewrite EA in X. rewrite EB in Y. injection X as <-. injection Y as <-.
        apply first_common_some in EP. exists p. split; [exact (proj1 (proj2 EP))|exact (proj1 EP)].
      * split; [|reflexivity]. intros _ [_ AL]. destruct (AL a b EA EB) as [p [P1 P2]].
        exact (first_common_none _ _ _ EP p P2 P1 eq_refl).
    + split; [|reflexivity]. intros _ [[v' [suite [W1 [W2 [W3 [S1 [S2 [U [G Sg]]]]]]]]] _].
      assert (v' = v) by (specialize (V3 v' W1 W2); specialize (W3 v V1 V2); lia). subst v'.
      apply (first_common_none _ _ _ ES suite S2 S1). apply feasible_spec. repeat split; assumption.
  - split; [|reflexivity]. intros _ [[v [suite [W1 [W2 _]]]] _]. exact (HV v W1 W2).
Qed.

Theorem spec_choice_in_both_pf env c s ch : spec_negotiate env c s = Some ch ->
  (In (co_version ch) (cf_versions c) /\ In (co_version ch) (cf_versions s) /\
   forall w, In w (cf_versions c) -> version_ok env c s w = true -> w <= co_version ch) /\
  (In (co_suite ch) (cf_suites c) /\ In (co_suite ch) (cf_suites s) /\
   usable env (co_version ch) (co_suite ch) = true) /\
  (forall g, co_group ch = Some g -> In g (cf_groups c) /\ In g (cf_groups s)) /\
  (forall sg, co_sig ch = Some sg -> In sg (cf_sigs c) /\ In sg (cf_sigs s) /\ sig_fits env (co_version ch) sg = true) /\
  (forall p, co_alpn ch = Some p -> exists a b, cf_alpn c = Some a /\ cf_alpn s = Some b /\ In p a /\ In p b) /\
  (needs_group env (co_suite ch) = true -> co_group ch <> None) /\
  (needs_sig env (co_version ch) (co_suite ch) = true -> co_sig ch <> None).
Proof.
  unfold spec_negotiate. pose proof (highest_such_spec (version_ok env c s) (cf_versions c)) as HV.
  destruct (highest_such (version_ok env c s) (cf_versions c)) as [v|]; [|discriminate].
  destruct HV as [V1 [V2 V3]]. pose proof (version_ok_spec _ _ _ _ V2) as VS.
  destruct (first_common (cf_suites s) (cf_suites c) (feasible env c s v)) as [suite|] eqn:ES; [|discriminate].
  apply first_common_some in ES. destruct ES as [S1 [S2 S3]].
  pose proof S3 as F. apply feasible_spec in S3. destruct S3 as [U [G Sg]].
  set (alpn := match cf_alpn c, cf_alpn s with Some a, Some b => Some (first_common b a (fun _ => true)) | _, _ => None end).
  intros H.
  assert (HC : ch = {| co_version := v; co_suite := suite;
                       co_group := if needs_group env suite then first_common (cf_groups s) (cf_groups c) (fun _ => true) else None;
                       co_sig := if needs_sig env v suite then first_common (cf_sigs s) (cf_sigs c) (sig_fits env v) else None;
                       co_alpn := match alpn with Some (Some p) => Some p | _ => None end |}).
  { destruct alpn as [[p|]|]; try discriminate H; injection H as <-; reflexivity. }
  subst ch. cbn [co_version co_suite co_group co_sig co_alpn].
  split; [repeat split; assumption|]. split; [repeat split; assumption|]. split.
  { intros g Hg. destruct (needs_group env suite); [|discriminate Hg].
    apply first_common_some in Hg. split; [exact (proj1 (proj2 Hg))|exact (proj1 Hg)]. }
  split.
  { intros sg Hg. destruct (needs_sig env v suite); [|discriminate Hg].
    apply first_common_some in Hg. split; [exact (proj1 (proj2 Hg))|]. split; [exact (proj1 Hg)|exact (proj2 (proj2 Hg))]. }
  split.
  { intros p Hp. unfold alpn in Hp. destruct (cf_alpn c) as [a|], (cf_alpn s) as [b|]; try discriminate Hp.
    destruct (first_common b a _) as [q|] eqn:E; [|discriminate Hp]. injection Hp as <-.
    apply first_common_some in E. exists a, b. repeat split; [exact (proj1 (proj2 E))|exact (proj1 E)]. }
  split.
  { intros N. rewrite N. destruct (G N) as [g [A B]].
    destruct (first_common_exists (cf_groups s) (cf_groups c) (fun _ => true) g B A eq_refl) as [y ->]. discriminate. }
  intros N. rewrite N. destruct (Sg N) as [g [A [B C]]].
  destruct (first_common_exists (cf_sigs s) (cf_sigs c) (sig_fits env v) g B A C) as [y ->]. discriminate.
Qed.
