(* The lock discipline of the step lists extracted from /repo (Gen/Locks.v), decided by
   computation: every access to an attribute that some analysed method of the class writes
   lies between acquire and release of the class's single lock, and every method has at
   most one critical section. *)
From Coq Require Import List Bool String.
From TV Require Import Base.Prelude Base.C18_Lib Model.C18_Conc Model.C18_LockSteps Gen.Locks.
Import ListNotations.

(* Before the fix "BaseDB.keys() must copy the key view while holding the lock" (commit d3942bb)
   this held for every method except VerifierDB.keys, which iterated a live view of self.db after
   releasing the lock (then: extracted_lock_discipline_refuted / _partial). *)
Lemma extracted_methods_ok : all_methods_ok all_methods = true.
Proof. vm_compute. reflexivity. Qed.

Lemma extracted_each : forall m, In m all_methods -> method_ok all_methods m = true.
Proof.
  intros m Hin. pose proof extracted_methods_ok as H. unfold all_methods_ok in H.
  rewrite forallb_forall in H. exact (H m Hin).
Qed.

(* the analysed set: every public/dunder instance method of the three shared classes (discovered from the
   class bodies through the MRO, so a new method is analysed automatically); nothing silently dropped.
   Not analysed, with the reason in translator/units_locks.py: constructors, BaseDB.create/open (set-up),
   RSAKey.write (abstract), static/class methods (no instance). *)
Lemma extracted_methods_present :
  map (fun e : string * string * list (list xstep) => let '(c, n, _) := e in (c, n)) all_method_paths =
  [("SessionCache", "__getitem__"); ("SessionCache", "__setitem__");
   ("VerifierDB", "__setitem__"); ("VerifierDB", "__getitem__"); ("VerifierDB", "__delitem__");
   ("VerifierDB", "__contains__"); ("VerifierDB", "check"); ("VerifierDB", "keys");
   ("Python_RSAKey", "_rawPrivateKeyOp"); ("Python_RSAKey", "hasPrivateKey");
   ("Python_RSAKey", "acceptsPassword"); ("Python_RSAKey", "__len__"); ("Python_RSAKey", "hashAndSign");
   ("Python_RSAKey", "hashAndVerify"); ("Python_RSAKey", "MGF1"); ("Python_RSAKey", "EMSA_PSS_encode");
   ("Python_RSAKey", "RSASSA_PSS_sign"); ("Python_RSAKey", "EMSA_PSS_verify");
   ("Python_RSAKey", "RSASSA_PSS_verify"); ("Python_RSAKey", "sign"); ("Python_RSAKey", "verify");
   ("Python_RSAKey", "encrypt"); ("Python_RSAKey", "decrypt")]%string.
Proof. reflexivity. Qed.

(* Clock reads.  The sequential model (and the specification) stamp a stored entry and age a
   looked-up entry with the clock value of the call's position in the history, i.e. at its
   linearization point.  In the code this is true only if time.time() is called inside the
   critical section: a stamp taken before the lock can be overtaken by a later stamp, the list is
   then no longer ordered in time and _purge stops early (an expired session is returned).
   to_shape maps XClock to a shared read, so method_ok already demands it; stated separately: *)
Lemma extracted_clock_locked :
  forallb (fun m : xmethod => let '(_, _, p) := m in clock_locked false p) all_methods = true.
Proof. vm_compute. reflexivity. Qed.

(* ... and each SessionCache call reads the clock exactly once (one clock value per call in the model) *)
Lemma cache_clock_once :
  count_clock SessionCache_getitem = 1%nat /\ count_clock SessionCache_setitem = 1%nat.
Proof. split; vm_compute; reflexivity. Qed.

Lemma extracted_clock_facts :
  forallb (fun m : xmethod => let '(_, _, p) := m in clock_locked false p) all_methods = true /\
  count_clock SessionCache_getitem = 1%nat /\ count_clock SessionCache_setitem = 1%nat.
Proof. exact (conj extracted_clock_locked cache_clock_once). Qed.

(* no analysed method writes any attribute of self outside the critical section (to_shape maps every
   XWrite to a shared write whatever the attribute is, so a new cache attribute filled outside the lock
   -- e.g. a memo of decoded database entries -- breaks method_ok; stated separately) *)
Lemma extracted_writes_locked :
  forallb (fun m : xmethod => let '(_, _, p) := m in writes_locked false p) all_methods = true.
Proof. vm_compute. reflexivity. Qed.
