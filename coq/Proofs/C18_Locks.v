(* The lock discipline of the step lists extracted from /repo (Gen/Locks.v), decided by
   computation: every access to an attribute that some analysed method of the class writes
   lies between acquire and release of the class's single lock, and every method has at
   most one critical section. *)
From Coq Require Import List Bool String.
From TV Require Import Base.Prelude Base.C18_Lib Model.C18_Conc Model.C18_LockSteps Gen.Locks.
Import ListNotations.

(* BaseDB.keys() takes `self.db.keys()` under the lock but iterates the result after the
   release: for an in-memory database that is a live view of the dict (finding, see
   design/C18.md); every other analysed method respects the discipline. *)
Definition is_db_keys (m : xmethod) : bool :=
  let '(c, n, _) := m in String.eqb c "VerifierDB" && String.eqb n "keys".

Lemma extracted_methods_ok_but_keys :
  forallb (fun m => is_db_keys m || method_ok all_methods m) all_methods = true.
Proof. vm_compute. reflexivity. Qed.

Lemma extracted_partial : forall m, In m all_methods -> is_db_keys m = false -> method_ok all_methods m = true.
Proof.
  intros m Hin Hk. pose proof extracted_methods_ok_but_keys as H. rewrite forallb_forall in H.
  specialize (H m Hin). rewrite Hk in H. exact H.
Qed.

Lemma extracted_refuted : exists m, In m all_methods /\ method_ok all_methods m = false.
Proof.
  exists ("VerifierDB", "keys", VerifierDB_keys)%string. split; [|vm_compute; reflexivity].
  unfold all_methods. repeat (try (left; reflexivity); right).
Qed.

(* the analysed set is the one the property names (nothing silently dropped by the extractor) *)
Lemma extracted_methods_present :
  map (fun m : xmethod => let '(c, n, _) := m in (c, n)) all_methods =
  [("SessionCache", "__getitem__"); ("SessionCache", "__setitem__");
   ("VerifierDB", "__getitem__"); ("VerifierDB", "__setitem__"); ("VerifierDB", "__delitem__");
   ("VerifierDB", "__contains__"); ("VerifierDB", "check"); ("VerifierDB", "keys");
   ("Python_RSAKey", "_rawPrivateKeyOp")]%string.
Proof. reflexivity. Qed.

