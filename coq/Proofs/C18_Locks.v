(* The lock discipline of the step lists extracted from /repo (Gen/Locks.v), decided by
   computation: every access to an attribute that some analysed method of the class writes
   lies between acquire and release of the class's single lock, and every method has at
   most one critical section. *)
From Coq Require Import List Bool String.
From TV Require Import Base.Prelude Base.C18_Lib Model.C18_Conc Model.C18_LockSteps Gen.Locks.
Import ListNotations.

(* Before the fix "BaseDB.keys() must copy the key view while holding the lock" (commit d3942bb)
   this held for every method except VerifierDB.keys, which iterated a live view of self.db after
   releasing the lock (then: extracted_lock_discipline_refuted / _partial). *)
Lemma extracted_methods_ok : all_methods_ok all_methods = true.
Proof. vm_compute. reflexivity. Qed.

Lemma extracted_each : forall m, In m all_methods -> method_ok all_methods m = true.
Proof.
  intros m Hin. pose proof extracted_methods_ok as H. unfold all_methods_ok in H.
  rewrite forallb_forall in H. exact (H m Hin).
Qed.

(* the analysed set is the one the property names (nothing silently dropped by the extractor) *)
Lemma extracted_methods_present :
  map (fun m : xmethod => let '(c, n, _) := m in (c, n)) all_methods =
  [("SessionCache", "__getitem__"); ("SessionCache", "__setitem__");
   ("VerifierDB", "__getitem__"); ("VerifierDB", "__setitem__"); ("VerifierDB", "__delitem__");
   ("VerifierDB", "__contains__"); ("VerifierDB", "check"); ("VerifierDB", "keys");
   ("Python_RSAKey", "_rawPrivateKeyOp")]%string.
Proof. reflexivity. Qed.

