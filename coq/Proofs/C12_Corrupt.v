(* C12: the verdict on any body of the sender's shape payload ++ tag' ++ pad' ++ [p], and from it:
   a wrong MAC byte, a wrong padding byte (TLS) or (absent a MAC collision) a wrong data byte is rejected. *)
From Coq Require Import ZArith List Bool Lia.
From TV Require Import Base.Prelude Spec.CbcCheck Proofs.C12_Lemmas Proofs.C12_Sender.
Import ListNotations.
Open Scope Z_scope.

Lemma forallb_zrange_window (f : Z -> bool) (pre win post : list Z) :
  forallb (fun i => f (nthZ (pre ++ win ++ post) i)) (zrange (zlen pre) (zlen pre + zlen win)) =
  forallb f win.
Proof.
  revert pre. induction win as [|x xs IH]; intros pre.
  - rewrite zrange_empty by (unfold zlen; cbn [length]; lia). reflexivity.
  - rewrite zrange_cons by (unfold zlen; cbn [length]; lia).
    cbn [forallb]. f_equal.
    + rewrite nthZ_app_r by lia. replace (zlen pre - zlen pre) with 0 by lia. reflexivity.
    + specialize (IH (pre ++ [x])).
      replace ((pre ++ [x]) ++ xs ++ post) with (pre ++ (x :: xs) ++ post) in IH
        by (rewrite <- app_assoc; reflexivity).
      replace (zlen (pre ++ [x])) with (zlen pre + 1) in IH by (rewrite zlen_app; reflexivity).
      replace (zlen pre + zlen (x :: xs)) with (zlen pre + 1 + zlen xs)
        by (unfold zlen; cbn [length]; lia).
      exact IH.
Qed.

(* the specification's verdict on ANY body of the sender's shape *)
Lemma wf_shape (ver : Z * Z) (bs : Z) (mac : HMac) (seq : list Z) (ty : Z)
      (payload tagx padx : list Z) (p : Z) :
  zlen tagx = mac_ds mac ->
  zlen padx = p ->
  well_formed ver bs mac seq ty (payload ++ tagx ++ padx ++ [p]) =
    (if is_ssl3 ver then p <=? bs else forallb (fun x => x =? p) padx)
    && list_eqb tagx (mac_fn mac (mac_acc mac ++ mac_header seq ty ver (zlen payload) ++ payload)).
Proof.
  intros Htag Hpad.
  pose proof (zlen_nonneg payload) as Hp0. pose proof (zlen_nonneg padx) as Hpb0.
  pose proof (zlen_nonneg tagx) as Ht0.
  set (data := payload ++ tagx ++ padx ++ [p]).
  assert (Hn : zlen data = zlen payload + mac_ds mac + p + 1).
  { unfold data. rewrite !zlen_app. unfold zlen at 4. cbn [length]. lia. }
  assert (Hlast : nthZ data (zlen data - 1) = p).
  { rewrite Hn. unfold data.
    replace (payload ++ tagx ++ padx ++ [p]) with ((payload ++ tagx ++ padx) ++ [p])
      by (rewrite <- !app_assoc; reflexivity).
    rewrite nthZ_app_r by (rewrite !zlen_app; lia).
    rewrite !zlen_app.
    replace (zlen payload + mac_ds mac + p + 1 - 1 - (zlen payload + (zlen tagx + zlen padx))) with 0 by lia.
    reflexivity. }
  unfold well_formed. cbv zeta. fold data. rewrite Hlast.
  destruct (zlen data <? mac_ds mac + 1) eqn:E1; [apply Z.ltb_lt in E1; lia|].
  destruct (zlen data <? p + 1 + mac_ds mac) eqn:E2; [apply Z.ltb_lt in E2; lia|].
  replace (zlen data - p - 1 - mac_ds mac) with (zlen payload) by lia.
  f_equal.
  - destruct (is_ssl3 ver); [reflexivity|].
    replace (zlen data - 1 - p) with (zlen (payload ++ tagx)) by (rewrite Hn, zlen_app; lia).
    replace (zlen data - 1) with (zlen (payload ++ tagx) + zlen padx) by (rewrite Hn, zlen_app; lia).
    unfold data.
    replace (payload ++ tagx ++ padx ++ [p]) with ((payload ++ tagx) ++ padx ++ [p])
      by (rewrite <- app_assoc; reflexivity).
    apply (forallb_zrange_window (fun x => x =? p)).
  - unfold zlen at 1 3. rewrite !Nat2Z.id.
    unfold data. rewrite skipn_app_exact, firstn_app_exact.
    replace (Z.to_nat (mac_ds mac)) with (length tagx) by (unfold zlen in Htag; lia).
    rewrite firstn_app_exact. reflexivity.
Qed.

(* any wrong MAC (in particular one wrong MAC byte) is rejected, in every version *)
Lemma wrong_mac_rejected_lem (ver : Z * Z) (bs : Z) (mac : HMac) (seq : list Z) (ty : Z)
      (payload tagx padx : list Z) (p : Z) :
  zlen tagx = mac_ds mac -> zlen padx = p ->
  tagx <> mac_fn mac (mac_acc mac ++ mac_header seq ty ver (zlen payload) ++ payload) ->
  well_formed ver bs mac seq ty (payload ++ tagx ++ padx ++ [p]) = false.
Proof.
  intros Htag Hpad Hne. rewrite wf_shape by assumption.
  apply andb_false_iff. right.
  destruct (list_eqb tagx _) eqn:E; [|reflexivity].
  apply list_eqb_spec in E. contradiction.
Qed.

(* TLS: any padding byte different from the padding length is rejected, whatever the MAC *)
Lemma wrong_pad_rejected_lem (ver : Z * Z) (bs : Z) (mac : HMac) (seq : list Z) (ty : Z)
      (payload tagx padx : list Z) (p : Z) :
  is_ssl3 ver = false ->
  zlen tagx = mac_ds mac -> zlen padx = p ->
  (exists x, In x padx /\ x <> p) ->
  well_formed ver bs mac seq ty (payload ++ tagx ++ padx ++ [p]) = false.
Proof.
  intros Hv Htag Hpad [x [Hin Hx]]. rewrite wf_shape by assumption. rewrite Hv.
  apply andb_false_iff. left.
  destruct (forallb (fun x0 => x0 =? p) padx) eqn:E; [|reflexivity].
  rewrite forallb_forall in E. specialize (E x Hin). apply Z.eqb_eq in E. contradiction.
Qed.

(* a changed fragment is rejected unless the MAC collides on it *)
Lemma wrong_data_rejected_lem (ver : Z * Z) (bs : Z) (mac : HMac) (seq : list Z) (ty : Z)
      (payload payload' padx : list Z) (p : Z) :
  let tag := mac_fn mac (mac_acc mac ++ mac_header seq ty ver (zlen payload) ++ payload) in
  zlen tag = mac_ds mac -> zlen padx = p ->
  mac_fn mac (mac_acc mac ++ mac_header seq ty ver (zlen payload') ++ payload') <> tag ->
  well_formed ver bs mac seq ty (payload' ++ tag ++ padx ++ [p]) = false.
Proof.
  intros tag Htag Hpad Hne. apply wrong_mac_rejected_lem; [exact Htag|exact Hpad|].
  intros E. apply Hne. symmetry. exact E.
Qed.

(* SSLv3: more than one block of padding is rejected *)
Lemma ssl3_long_pad_rejected_lem (ver : Z * Z) (bs : Z) (mac : HMac) (seq : list Z) (ty : Z)
      (payload tagx padx : list Z) (p : Z) :
  is_ssl3 ver = true ->
  zlen tagx = mac_ds mac -> zlen padx = p -> bs < p ->
  well_formed ver bs mac seq ty (payload ++ tagx ++ padx ++ [p]) = false.
Proof.
  intros Hv Htag Hpad Hlt. rewrite wf_shape by assumption. rewrite Hv.
  apply andb_false_iff. left. apply Z.leb_gt. exact Hlt.
Qed.
