(* CBC padding and the MAC-and-padding specification (Spec.CbcCheck.well_formed):
   which bodies it accepts, in terms of their decomposition. *)
From Coq Require Import ZArith List Bool Lia.
From TV Require Import Base.Prelude Spec.CbcCheck Model.C01_RecordPipe Proofs.C01_Lists.
Import ListNotations.
Open Scope Z_scope.

Lemma nthZ_app_l (a b : list Z) i : 0 <= i < zlen a -> nthZ (a ++ b) i = nthZ a i.
Proof. intros H. unfold nthZ, zlen in *. apply app_nth1. lia. Qed.

Lemma nthZ_app_r (a b : list Z) i : zlen a <= i -> nthZ (a ++ b) i = nthZ b (i - zlen a).
Proof.
  intros H. unfold nthZ, zlen in *. rewrite app_nth2 by lia. f_equal. lia.
Qed.

Lemma add_padding_spec bs d : 0 < bs ->
  exists p, 0 <= p < bs /\ add_padding bs d = d ++ repeat p (Z.to_nat p) ++ [p] /\
            (zlen d + p + 1) mod bs = 0.
Proof.
  intros Hbs. exists (bs - 1 - zlen d mod bs).
  pose proof (Z.mod_pos_bound (zlen d) bs Hbs) as Hm.
  split; [lia|]. split.
  - unfold add_padding. cbv zeta. f_equal.
    replace (Z.to_nat (bs - 1 - zlen d mod bs + 1)) with (S (Z.to_nat (bs - 1 - zlen d mod bs))) by lia.
    generalize (bs - 1 - zlen d mod bs) as p. intros p. generalize (Z.to_nat p) as k. intros k.
    induction k; cbn [repeat app]; [reflexivity|]. f_equal. exact IHk.
  - rewrite (Z.div_mod (zlen d) bs) at 1 by lia.
    replace (bs * (zlen d / bs) + zlen d mod bs + (bs - 1 - zlen d mod bs) + 1) with ((zlen d / bs + 1) * bs) by ring.
    apply Z.mod_mul. lia.
Qed.

Lemma zlen_add_padding bs d : 0 < bs ->
  zlen (add_padding bs d) mod bs = 0 /\ zlen d < zlen (add_padding bs d) <= zlen d + bs.
Proof.
  intros Hbs. destruct (add_padding_spec bs d Hbs) as [p [Hp [-> Hm]]].
  rewrite !zlen_app, zlen_repeat. change (zlen [p]) with 1.
  rewrite Z2Nat.id by lia. split; [rewrite <- Hm; f_equal; lia|lia].
Qed.

(* pad bytes acceptable to the receiver: TLS -- all equal to the length byte;
   SSLv3 -- any content, at most one block *)
Definition pad_ok (ver : Z * Z) (bs : Z) (padb : list Z) (p : Z) : Prop :=
  zlen padb = p /\ (if is_ssl3 ver then p <= bs else Forall (fun b => b = p) padb).

Lemma pad_ok_honest ver bs p : 0 <= p < bs -> pad_ok ver bs (repeat p (Z.to_nat p)) p.
Proof.
  intros H. split; [rewrite zlen_repeat; lia|].
  destruct (is_ssl3 ver); [lia|]. apply Forall_forall. intros x Hx. apply repeat_spec in Hx. exact Hx.
Qed.

Section WF.
Variables (ver : Z * Z) (bs : Z) (mac : HMac) (seqb : list Z) (ty : Z).

Definition tag_of (d : list Z) : list Z :=
  mac_fn mac (mac_acc mac ++ mac_header seqb ty ver (zlen d) ++ d).

(* bodies built as data ++ tag ++ padding ++ [padding length] are accepted ... *)
Lemma well_formed_intro d t padb p :
  zlen t = mac_ds mac -> pad_ok ver bs padb p -> t = tag_of d ->
  well_formed ver bs mac seqb ty (d ++ t ++ padb ++ [p]) = true.
Proof.
  intros Ht [Hp Hpad] Htag.
  pose proof (zlen_nonneg d) as Hd0. pose proof (zlen_nonneg t) as Ht0. pose proof (zlen_nonneg padb) as Hp0.
  unfold well_formed. cbv zeta.
  assert (Hn : zlen (d ++ t ++ padb ++ [p]) = zlen d + mac_ds mac + p + 1).
  { rewrite !zlen_app. change (zlen [p]) with 1. lia. }
  rewrite Hn.
  destruct (zlen d + mac_ds mac + p + 1 <? mac_ds mac + 1) eqn:E1; [lia|].
  assert (Hlast : nthZ (d ++ t ++ padb ++ [p]) (zlen d + mac_ds mac + p + 1 - 1) = p).
  { rewrite <- Hn. replace (d ++ t ++ padb ++ [p]) with ((d ++ t ++ padb) ++ [p]) by (rewrite <- !app_assoc; reflexivity).
    apply nthZ_app_last. }
  rewrite Hlast.
  destruct (zlen d + mac_ds mac + p + 1 <? p + 1 + mac_ds mac) eqn:E2; [lia|].
  replace (zlen d + mac_ds mac + p + 1 - p - 1 - mac_ds mac) with (zlen d) by lia.
  apply andb_true_iff. split.
  - destruct (is_ssl3 ver); [apply Z.leb_le; exact Hpad|].
    apply forallb_forall. intros i Hi. apply in_zrange in Hi. apply Z.eqb_eq.
    rewrite nthZ_app_r by lia. rewrite nthZ_app_r by lia. rewrite nthZ_app_l by lia.
    rewrite Forall_forall in Hpad. apply Hpad. unfold nthZ. apply nth_In. unfold zlen in *. lia.
  - apply list_eqb_spec.
    fold (zdrop (zlen d) (d ++ t ++ padb ++ [p])). rewrite zdrop_app_exact.
    fold (ztake (mac_ds mac) (t ++ padb ++ [p])). rewrite <- Ht, ztake_app_exact.
    fold (ztake (zlen d) (d ++ t ++ padb ++ [p])). rewrite ztake_app_exact. exact Htag.
Qed.

(* ... and what the receiver then strips is exactly the data *)
Lemma strip_intro d t padb p : zlen t = mac_ds mac -> zlen padb = p ->
  let body := d ++ t ++ padb ++ [p] in
  ztake (zlen body - (last_byte body + 1 + mac_ds mac)) body = d.
Proof.
  intros Ht Hp body. unfold body.
  replace (last_byte (d ++ t ++ padb ++ [p])) with p.
  2:{ replace (d ++ t ++ padb ++ [p]) with ((d ++ t ++ padb) ++ [p]) by (rewrite <- !app_assoc; reflexivity).
      rewrite last_byte_snoc. reflexivity. }
  apply ztake_app_n. rewrite !zlen_app. change (zlen [p]) with 1. lia.
Qed.

End WF.
