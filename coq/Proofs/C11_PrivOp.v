(* C11 -- the regenerated Python_RSAKey._rawPrivateKeyOp (Gen/C11_RsaPrivOp.v), with the blinding
   pair threaded as state: its result does not depend on the blinding pair as long as the pair is
   consistent, and consistency is preserved -- so over any sequence of calls on one key object the
   private operation is a function of the input only.  (The state-passing model is a model of the
   shared object under the translator's lock obligation: every access to blinder/unblinder lies
   inside `with self._lock`.) *)
From Coq Require Import String ZArith List Bool Lia Zpow_facts.
From TV Require Import Base.Prelude Base.C11_Lib Gen.C11_RsaPrivOp Gen.C11_RsaDecrypt Spec.C11_Pkcs1Dec
  Proofs.C11_LibFacts Proofs.C11_Decrypt.
Import ListNotations.
Open Scope Z_scope.

Section PrivOp.
Variable helper : Z -> Z.                (* _rawPrivateKeyOpHelper: x |-> x^d mod n by CRT *)
Variable grn : Z -> Z -> Z.              (* getRandomNumber *)
Variable invMod : Z -> Z -> Z.
Variable powMod : Z -> Z -> Z -> Z.
Variable n e : Z.
Hypothesis Hn : 1 < n.
(* the helper is multiplicative modulo n (true of x |-> x^d mod n) *)
Hypothesis Hmult : forall x y, helper ((x * y) mod n) mod n = (helper x * helper y) mod n.

(* a consistent blinding pair: blinder = unblinder^(-e), i.e. blinder^d * unblinder = 1 (mod n) *)
Definition blind_ok (b u : Z) : Prop := (helper b * u) mod n = 1.
(* a freshly drawn pair is consistent (validity of the key: (u^-e)^d * u = 1) *)
Hypothesis Hinit : blind_ok (powMod (invMod (grn 2 n) n) e n) (grn 2 n).

(* state of the key object: not yet initialised, or consistent *)
Definition state_ok (st : Z * Z) : Prop := fst st = 0 \/ blind_ok (fst st) (snd st).

Lemma helper_mul_mod x y z : (helper ((x * y) mod n) * z) mod n = (helper x * helper y * z) mod n.
Proof.
  rewrite Z.mul_mod by lia. rewrite Hmult. rewrite <- Z.mul_mod by lia. reflexivity.
Qed.

Lemma py_mod_n x : py_mod x n = Ok (x mod n).
Proof. unfold py_mod. destruct (n =? 0) eqn:E; [lia|reflexivity]. Qed.

Lemma core b u m : blind_ok b u ->
  (helper ((m * b) mod n) * u) mod n = helper m mod n /\
  blind_ok ((b * b) mod n) ((u * u) mod n).
Proof.
  unfold blind_ok. intros H. split.
  - rewrite helper_mul_mod. rewrite <- Z.mul_assoc. rewrite Z.mul_mod by lia. rewrite H.
    rewrite Z.mul_1_r. apply Z.mod_mod. lia.
  - rewrite helper_mul_mod. rewrite Z.mul_mod by lia. rewrite Z.mod_mod by lia.
    rewrite <- Z.mul_mod by lia.
    replace (helper b * helper b * (u * u)) with ((helper b * u) * (helper b * u)) by ring.
    rewrite Z.mul_mod by lia. rewrite H. apply Z.mod_small. lia.
Qed.

(* the blinding pair the object holds after one operation: square both components (after drawing a fresh
   pair when the object is not yet initialised) -- nothing else about the object changes *)
Definition next_pair (b u : Z) : Z * Z :=
  let b0 := if b =? 0 then powMod (invMod (grn 2 n) n) e n else b in
  let u0 := if b =? 0 then grn 2 n else u in
  ((b0 * b0) mod n, (u0 * u0) mod n).

Lemma raw_private_op_step b u m : state_ok (b, u) ->
  rawPrivateKeyOp helper grn invMod powMod n e b u m = Ok (helper m mod n, next_pair b u)
  /\ blind_ok (fst (next_pair b u)) (snd (next_pair b u)).
Proof.
  intros H. unfold rawPrivateKeyOp, next_pair.
  destruct (b =? 0) eqn:E; cbn [bind].
  - repeat (rewrite py_mod_n; cbn [bind]).
    destruct (core _ _ m Hinit) as [C1 C2]. rewrite C1. split; [reflexivity|exact C2].
  - assert (Hb : blind_ok b u) by (destruct H as [H|H]; cbn [fst snd] in H; [lia|exact H]).
    repeat (rewrite py_mod_n; cbn [bind]).
    destruct (core b u m Hb) as [C1 C2]. rewrite C1. split; [reflexivity|exact C2].
Qed.

Lemma raw_private_op_spec b u m : state_ok (b, u) ->
  exists b' u', rawPrivateKeyOp helper grn invMod powMod n e b u m = Ok (helper m mod n, (b', u'))
                /\ blind_ok b' u'.
Proof.
  intros H. destruct (raw_private_op_step b u m H) as [E B].
  exists (fst (next_pair b u)), (snd (next_pair b u)). rewrite E. split; [|exact B].
  destruct (next_pair b u); reflexivity.
Qed.

(* a whole history of private operations on one key object *)
Fixpoint run_ops (st : Z * Z) (ms : list Z) : res (list Z * (Z * Z)) :=
  match ms with
  | [] => Ok ([], st)
  | m :: ms' =>
      r <- rawPrivateKeyOp helper grn invMod powMod n e (fst st) (snd st) m ;;
      r' <- run_ops (snd r) ms' ;;
      Ok (fst r :: fst r', snd r')
  end.

Fixpoint iter_pair (k : nat) (st : Z * Z) : Z * Z :=
  match k with O => st | S k' => iter_pair k' (next_pair (fst st) (snd st)) end.

(* results AND state along any history: every result is helper(m) mod n, the state is next_pair iterated *)
Lemma run_ops_spec ms : forall st, state_ok st ->
  run_ops st ms = Ok (map (fun m => helper m mod n) ms, iter_pair (length ms) st)
  /\ state_ok (iter_pair (length ms) st).
Proof.
  induction ms as [|m ms IH]; intros [b u] H; cbn [run_ops map length iter_pair].
  - split; [reflexivity|exact H].
  - cbn [fst snd]. destruct (raw_private_op_step b u m H) as [-> Hb]. cbn [bind fst snd].
    assert (S' : state_ok (next_pair b u)) by (right; exact Hb).
    destruct (IH (next_pair b u) S') as [-> Hs]. cbn [bind fst snd].
    split; [reflexivity|exact Hs].
Qed.

(* k squarings *)
Fixpoint sq_iter (k : nat) (x : Z) : Z :=
  match k with O => x | S k' => sq_iter k' ((x * x) mod n) end.

(* once initialised, and as long as the blinder does not become 0, the pair after k operations is the
   pair squared k times: (b^(2^k), u^(2^k)) mod n *)
Lemma iter_pair_squares k : forall b u, (forall j, (j < k)%nat -> sq_iter j b <> 0) ->
  iter_pair k (b, u) = (sq_iter k b, sq_iter k u).
Proof.
  induction k as [|k IH]; intros b u H; cbn [iter_pair sq_iter fst snd]; [reflexivity|].
  assert (Hb : b <> 0) by (apply (H 0%nat); lia).
  unfold next_pair. destruct (b =? 0) eqn:E; [lia|].
  apply IH. intros j Hj. apply (H (S j)). lia.
Qed.

Lemma sq_iter_pow k : forall x, sq_iter k x mod n = x ^ (2 ^ Z.of_nat k) mod n.
Proof.
  induction k as [|k IH]; intros x; cbn [sq_iter].
  - change (2 ^ Z.of_nat 0) with 1. rewrite Z.pow_1_r. reflexivity.
  - rewrite IH. rewrite <- Zpower_mod by lia.
    rewrite Nat2Z.inj_succ, Z.pow_succ_r by lia.
    rewrite Z.pow_mul_r by (try apply Z.pow_nonneg; lia).
    rewrite Z.pow_2_r. reflexivity.
Qed.

(* the private operation as decrypt sees it, for a given state of the key object *)
Definition raw_of (st : Z * Z) (m : Z) : Z :=
  match rawPrivateKeyOp helper grn invMod powMod n e (fst st) (snd st) m with
  | Ok r => fst r
  | Err _ => -1
  end.

Lemma raw_of_spec st m : state_ok st -> raw_of st m = helper m mod n.
Proof.
  destruct st as [b u]. intros H. unfold raw_of. cbn [fst snd].
  destruct (raw_private_op_spec b u m H) as [b' [u' [-> _]]]. reflexivity.
Qed.

Lemma decrypt_independent_of_blinding_all hash hmac st1 st2 d cache enc :
  (forall k m, zlen (hmac k m) = 32) -> (forall k m, all_bytes (hmac k m) = true) ->
  11 <= numBytes n <= 65535 -> 0 <= d -> cache_ok hash n d cache -> state_ok st1 -> state_ok st2 ->
  decrypt hash hmac (raw_of st1) true n d "rsa"%string cache enc =
  decrypt hash hmac (raw_of st2) true n d "rsa"%string cache enc /\
  decrypt hash hmac (raw_of st1) true n d "rsa"%string cache enc =
  Ok (spec_decrypt hash hmac (fun m => helper m mod n) n d enc).
Proof.
  intros H1 H2 Hk Hd Hc S1 S2.
  assert (R : forall st, state_ok st -> forall m, 0 <= raw_of st m).
  { intros st S m. rewrite raw_of_spec by exact S. apply Z.mod_pos_bound. lia. }
  rewrite !(decrypt_eq_spec_all hash hmac _ H1 H2) by (try apply R; assumption).
  assert (E : forall st, state_ok st ->
            spec_decrypt hash hmac (raw_of st) n d enc = spec_decrypt hash hmac (fun m => helper m mod n) n d enc).
  { intros st S. unfold spec_decrypt. rewrite raw_of_spec by exact S. reflexivity. }
  rewrite !E by assumption. split; reflexivity.
Qed.
End PrivOp.

Lemma blinding_state_law_all : forall grn invMod powMod n e,
  1 < n ->
  (forall k b u, (forall j, (j < k)%nat -> sq_iter n j b <> 0) ->
     iter_pair grn invMod powMod n e k (b, u) = (sq_iter n k b, sq_iter n k u)) /\
  (forall k x, sq_iter n k x mod n = x ^ (2 ^ Z.of_nat k) mod n).
Proof.
  intros grn invMod powMod n e Hn. split.
  - intros k b u H. apply iter_pair_squares. exact H.
  - intros k x. apply sq_iter_pow. exact Hn.
Qed.

