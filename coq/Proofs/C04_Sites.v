(* C04 -- the regenerated site tables equal the tables the model was written against, and the regenerated
   decision tables of the sentinel code equal the model's functions on the whole finite domain *)
From Coq Require Import ZArith List String Bool.
From TV Require Import Base.Prelude Model.C04_Tamper Gen.C04_Sites Model.C04_SitesExpected.
Open Scope Z_scope.

Lemma sites_as_expected :
  hash_sites = expected_hash_sites /\ guard_sites = expected_guard_sites /\
  server_hello_sites = expected_server_hello_sites /\ guard_positions = expected_guard_positions /\
  client_hello_sites = expected_client_hello_sites /\ client_suite_sites = expected_client_suite_sites /\
  undriven_generator_calls = nil.
Proof. vm_compute. repeat split; reflexivity. Qed.

(* one row per (client maxVersion, negotiated version, tail class) in 768..772 x 768..772 x {1,2,0} *)
Definition check_row_ok (r : Z * Z * Z * bool * Z) : bool :=
  let '(cmax, v, t, ab, al) := r in
  Bool.eqb (sentinel_hit cmax v t) ab && (if ab then al =? ALERT_ILLEGAL_PARAMETER else true).
(* one row per (function, server maxVersion, selected version <= min(max, TLS 1.2)): tail class of the random built *)
Definition write_row_ok (r : string * Z * Z * Z) : bool :=
  let '(_, smax, v, t) := r in sentinel_for smax v 0 =? t.

Lemma sentinel_tables_ok :
  forallb check_row_ok sentinel_check_table = true /\ List.length sentinel_check_table = 75%nat /\
  forallb write_row_ok sentinel_write_table = true /\ List.length sentinel_write_table = 28%nat /\
  sentinel_write_functions = expected_sentinel_write_functions.
Proof. vm_compute. repeat split; reflexivity. Qed.
