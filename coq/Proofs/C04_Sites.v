(* C04 -- the regenerated site tables equal the tables the model was written against *)
From Coq Require Import List String.
From TV Require Import Gen.C04_Sites Model.C04_SitesExpected.

Lemma sites_as_expected :
  hash_sites = expected_hash_sites /\ guard_sites = expected_guard_sites /\
  server_hello_sites = expected_server_hello_sites /\ guard_positions = expected_guard_positions /\
  client_hello_sites = expected_client_hello_sites /\ client_suite_sites = expected_client_suite_sites.
Proof. vm_compute. repeat split; reflexivity. Qed.
