(* C02: acceptance through the recvRecord dispatcher; records protected for another sequence
   number or under another key are rejected (ideal MAC / AEAD); TLS 1.3 outer checks; the
   error path. *)
From Coq Require Import ZArith List Bool Lia.
From TV Require Import Base.Prelude Spec.CbcCheck Model.C01_RecordPipe Spec.C01_Contracts
  Model.C02_RecordAccept Spec.C02_Ideal Proofs.C01_Lists Proofs.C01_Cbc Proofs.C01_RoundTrip
  Proofs.C01_Delivery Proofs.C02_Cbc Proofs.C02_Accept Proofs.C02_Integrity.
Import ListNotations.
Open Scope Z_scope.
Local Opaque be_bytes.

Section Reject.
Context {CS : Type}.
Variable R : CS -> CS -> Prop.
Variable c : Cfg.

Lemma legacy_not13 (P : Prim CS) : legacy_ok P c -> is_tls13_plus c = false.
Proof. intros [Hv _]. unfold is_tls13_plus. rewrite (ver_macable_not13 _ Hv). reflexivity. Qed.

(* ---- recvRecord reduces to the path selected by the flags ------------------------------------------ *)
Lemma unprotect_inv_stream (P : Prim CS) r r' hty hver body ty p : mode_ok P R MStream c ->
  unprotect c P r (hty, hver, body) = ROk (r', (ty, p)) ->
  ty = hty /\ decrypt_stream_then_mac c P r hty body = ROk (r', p) /\ zlen p <= c_recv_limit c.
Proof.
  intros [_ [Hleg [Hetm [Hblk _]]]] H. pose proof (legacy_not13 P Hleg) as Hn13.
  destruct Hleg as [_ [_ [Ha _]]].
  unfold unprotect in H. destruct (zlen body >? c_recv_limit c + 2048); [discriminate|].
  destruct (c_tls13 c && (zlen body >? c_recv_limit c + 256)); [discriminate|].
  rewrite Hn13, Ha, Hetm, Hblk in H. cbn [andb] in H. rewrite !andb_false_r in H.
  apply rbind_ok_inv in H. destruct H as [[s1 d1] [Hd H]]. cbn [rbind] in H.
  destruct (zlen d1 >? c_recv_limit c) eqn:E; [discriminate|]. injection H as <- <- <-. split; [reflexivity|].
  split; [exact Hd|lia].
Qed.

Lemma unprotect_inv_cbc (P : Prim CS) r r' hty hver body ty p : mode_ok P R MCbc c ->
  unprotect c P r (hty, hver, body) = ROk (r', (ty, p)) ->
  ty = hty /\ decrypt_then_mac c P r hty body = ROk (r', p) /\ zlen p <= c_recv_limit c.
Proof.
  intros [_ [Hleg [Hetm [Henc [Hblk _]]]]] H. pose proof (legacy_not13 P Hleg) as Hn13.
  destruct Hleg as [_ [_ [Ha _]]].
  unfold unprotect in H. destruct (zlen body >? c_recv_limit c + 2048); [discriminate|].
  destruct (c_tls13 c && (zlen body >? c_recv_limit c + 256)); [discriminate|].
  rewrite Hn13, Ha, Hetm, Hblk, Henc in H. cbn [andb] in H.
  apply rbind_ok_inv in H. destruct H as [[s1 d1] [Hd H]]. cbn [rbind] in H.
  destruct (zlen d1 >? c_recv_limit c) eqn:E; [discriminate|]. injection H as <- <- <-. split; [reflexivity|].
  split; [exact Hd|lia].
Qed.

Lemma unprotect_inv_etm (P : Prim CS) r r' hty hver body ty p : mode_ok P R MEtm c ->
  unprotect c P r (hty, hver, body) = ROk (r', (ty, p)) ->
  ty = hty /\ mac_then_decrypt c P r hty body = ROk (r', p) /\ zlen p <= c_recv_limit c.
Proof.
  intros [_ [Hleg [Hetm _]]] H. pose proof (legacy_not13 P Hleg) as Hn13.
  destruct Hleg as [_ [_ [Ha _]]].
  unfold unprotect in H. destruct (zlen body >? c_recv_limit c + 2048); [discriminate|].
  destruct (c_tls13 c && (zlen body >? c_recv_limit c + 256)); [discriminate|].
  rewrite Hn13, Ha, Hetm in H. cbn [andb] in H. rewrite !andb_false_r in H.
  apply rbind_ok_inv in H. destruct H as [[s1 d1] [Hd H]]. cbn [rbind] in H.
  destruct (zlen d1 >? c_recv_limit c) eqn:E; [discriminate|]. injection H as <- <- <-. split; [reflexivity|].
  split; [exact Hd|lia].
Qed.

Lemma unprotect_inv_aead12 (P : Prim CS) r r' hty hver body ty p : mode_ok P R MAead12 c ->
  unprotect c P r (hty, hver, body) = ROk (r', (ty, p)) ->
  ty = hty /\ decrypt_and_unseal c P r (hty, hver, body) = ROk (r', p) /\ zlen p <= c_recv_limit c.
Proof.
  intros [_ [Hv [H13 [Henc [Haead _]]]]] H.
  assert (Hn13 : is_tls13_plus c = false) by (unfold is_tls13_plus; rewrite Hv; reflexivity).
  unfold unprotect in H. destruct (zlen body >? c_recv_limit c + 2048); [discriminate|].
  destruct (c_tls13 c && (zlen body >? c_recv_limit c + 256)); [discriminate|].
  rewrite Hn13, Henc, Haead in H. cbn [andb] in H.
  apply rbind_ok_inv in H. destruct H as [[s1 d1] [Hd H]]. cbn [rbind] in H.
  destruct (zlen d1 >? c_recv_limit c) eqn:E; [discriminate|]. injection H as <- <- <-. split; [reflexivity|].
  split; [exact Hd|lia].
Qed.

(* TLS 1.3: what recvRecord does with each outer header *)
Lemma tls13_outer (P : Prim CS) r hty hver body : mode_ok P R MTls13 c ->
  zlen body <= c_recv_limit c + 256 ->
  (* ChangeCipherSpec: passed through unprotected (dropped or rejected by _getMsg) *)
  (hty = 20 -> unprotect c P r (hty, hver, body) =
               if zlen body >? c_recv_limit c then RErr EOverflow else ROk (r, (20, body))) /\
  (* the plaintext-alert window: only while no record has been received under this key *)
  (hty = 21 -> c_plain_alert c = true -> zlen body < 3 -> zlen body <= c_recv_limit c -> st_seq r = 0 ->
   unprotect c P r (hty, hver, body) = ROk (r, (21, body))) /\
  (* any other outer type than application_data is rejected before open() *)
  (hty <> 20 -> hty <> 23 -> ~ (c_plain_alert c = true /\ hty = 21 /\ zlen body < 3 /\ st_seq r = 0) ->
   0 <= st_seq r < 18446744073709551616 -> c_tag c <= zlen body ->
   unprotect c P r (hty, hver, body) = RErr EUnexpected) /\
  (* application_data with a record version other than 3.3 is rejected before open() *)
  (hty = 23 -> hver <> (3, 3) -> 0 <= st_seq r < 18446744073709551616 -> c_tag c <= zlen body ->
   unprotect c P r (hty, hver, body) = RErr EIllegalParam).
Proof.
  intros [[Hl1 [Hl2 Hl3]] [Hv [H13 [Henc [Haead [Hok [Htag [Hnl [Hn8 _]]]]]]]]] Hlen.
  assert (Ht13 : is_tls13_plus c = true) by (unfold is_tls13_plus; rewrite Hv, H13; reflexivity).
  assert (Hexp : explicit_nonce c = false) by (unfold explicit_nonce; rewrite Ht13; apply andb_false_r).
  assert (Hux : uses_xor_nonce c = true) by (unfold uses_xor_nonce; rewrite Ht13; apply orb_true_r).
  pose proof (zlen_nonneg body) as Hb0.
  assert (Hpre : forall X : rres (St CS * (Z * list Z)),
     (if zlen body >? c_recv_limit c + 2048 then RErr EOverflow
      else if c_tls13 c && (zlen body >? c_recv_limit c + 256) then RErr EOverflow else X) = X).
  { intros X. destruct (zlen body >? c_recv_limit c + 2048) eqn:E1; [lia|]. rewrite H13. cbn [andb].
    destruct (zlen body >? c_recv_limit c + 256) eqn:E2; [lia|]. reflexivity. }
  assert (Hgn : exists nonce, get_nonce c (be_bytes 8 (st_seq r)) = ROk nonce).
  { unfold get_nonce. rewrite Hux, zlen_be_bytes. change (Z.of_nat 8) with 8.
    destruct (zlen (c_fixed_nonce c) <? 8) eqn:E; [lia|]. eauto. }
  destruct Hgn as [nonce Hgn].
  split; [|split; [|split]].
  - intros ->. unfold unprotect. rewrite Hpre, Ht13. change (20 =? 20) with true. cbn [andb rbind].
    change (20 =? 23) with false. rewrite ?andb_false_r. cbn [andb rbind]. reflexivity.
  - intros -> Hpa Hlt Hle Hs0. unfold unprotect. rewrite Hpre, Ht13, Henc, Hs0, Hpa. change (21 =? 20) with false.
    change (21 =? 21) with true. change (0 =? 0) with true. cbn [andb]. destruct (zlen body <? 3) eqn:E; [|lia]. cbn [andb rbind].
    change (21 =? 23) with false. rewrite ?andb_false_r. cbn [andb rbind].
    destruct (zlen body >? c_recv_limit c) eqn:E2; [lia|]. reflexivity.
  - intros H20 H23 Hal Hseq Htl. unfold unprotect. rewrite Hpre, Ht13, Henc, Haead.
    destruct (hty =? 20) eqn:E20; [apply Z.eqb_eq in E20; contradiction|]. cbn [andb].
    assert (Hbyp : (c_plain_alert c && (hty =? 21) && (zlen body <? 3) && true && (st_seq r =? 0)) = false).
    { destruct (c_plain_alert c) eqn:Epa; [|reflexivity].
      destruct (hty =? 21) eqn:E21; [|reflexivity]. destruct (zlen body <? 3) eqn:E3; [|reflexivity].
      destruct (st_seq r =? 0) eqn:E0; [|reflexivity]. exfalso. apply Hal.
      apply Z.eqb_eq in E21. apply Z.eqb_eq in E0. repeat split; auto; lia. }
    rewrite Hbyp. unfold decrypt_and_unseal. rewrite next_seq_ok by lia. cbn [rbind]. rewrite Hexp, Hgn. cbn [rbind].
    destruct (c_tag c >? zlen body) eqn:Et; [lia|]. rewrite Ht13.
    destruct (hty =? 23) eqn:E23; [apply Z.eqb_eq in E23; contradiction|]. reflexivity.
  - intros -> Hhv Hseq Htl. unfold unprotect. rewrite Hpre, Ht13, Henc, Haead.
    change (23 =? 20) with false. change (23 =? 21) with false. cbn [andb]. rewrite ?andb_false_r. cbn [andb].
    unfold decrypt_and_unseal. rewrite next_seq_ok by lia. cbn [rbind]. rewrite Hexp, Hgn. cbn [rbind].
    destruct (c_tag c >? zlen body) eqn:Et; [lia|]. rewrite Ht13. change (23 =? 23) with true. cbn [negb].
    destruct (pairZ_eqb hver (3, 3)) eqn:E; [apply pairZ_eqb_spec in E; contradiction|]. reflexivity.
Qed.

(* ---- a wire accepted at two sequence numbers / under two keys ------------------------------------------ *)
Definition integrity_mode (md : mode) : Prop := md = MEtm \/ md = MAead12 \/ md = MTls13.

Lemma unprotect_inv_tls13 (P : Prim CS) r r' hver body ty p : mode_ok P R MTls13 c ->
  unprotect c P r (23, hver, body) = ROk (r', (ty, p)) ->
  exists inner, decrypt_and_unseal c P r (23, hver, body) = ROk (r', inner) /\ de_pad inner = ROk (ty, p).
Proof.
  intros [_ [Hv [H13 [Henc [Haead _]]]]] H.
  assert (Ht13 : is_tls13_plus c = true) by (unfold is_tls13_plus; rewrite Hv, H13; reflexivity).
  unfold unprotect in H. destruct (zlen body >? c_recv_limit c + 2048); [discriminate|].
  destruct (c_tls13 c && (zlen body >? c_recv_limit c + 256)); [discriminate|].
  rewrite Ht13, Henc, Haead in H. change (23 =? 20) with false in H. change (23 =? 21) with false in H.
  change (23 =? 23) with true in H. cbn [andb] in H. rewrite ?andb_false_r in H. cbn [andb] in H.
  apply rbind_ok_inv in H. destruct H as [[s1 d1] [Hd H]].
  apply rbind_ok_inv in H. destruct H as [[ty1 d2] [Hdp H]].
  destruct (zlen d1 >? c_recv_limit c + 1); [discriminate|].
  destruct (zlen d2 >? c_recv_limit c); [discriminate|]. injection H as <- <- <-.
  apply rbind_ok_inv in Hdp. destruct Hdp as [[t0 d0] [Hdp Hccs]].
  destruct (t0 =? 20); [discriminate|]. injection Hccs as -> ->.
  exists d1. auto.
Qed.

Lemma two_accepts_same_position_ideal (P : Prim CS) md r1 r1' r2 r2' hty hver body ty1 p1 ty2 p2 :
  integrity_mode md -> mode_ok P R md c -> (md = MTls13 -> hty = 23) ->
  (md = MEtm -> mac_injective_ideal P) ->
  (md <> MEtm -> aead_tight P /\ seal_injective_ideal P) ->
  unprotect c P r1 (hty, hver, body) = ROk (r1', (ty1, p1)) ->
  unprotect c P r2 (hty, hver, body) = ROk (r2', (ty2, p2)) ->
  st_seq r1 = st_seq r2 /\ ty1 = ty2 /\ (md <> MEtm -> p1 = p2).
Proof.
  intros [->|[->| ->]] Hmode H23 Hmac Haead H1 H2.
  - destruct (unprotect_inv_etm P _ _ _ _ _ _ _ Hmode H1) as [-> [A1 _]].
    destruct (unprotect_inv_etm P _ _ _ _ _ _ _ Hmode H2) as [-> [A2 _]].
    destruct Hmode as [_ [[_ [_ [_ [Hm _]]]] _]].
    destruct (etm_binds_ideal c P _ _ _ _ _ _ _ _ _ Hm (Hmac eq_refl) A1 A2) as [A B].
    split; [exact A|]. split; [reflexivity|]. intros X. contradiction.
  - destruct (unprotect_inv_aead12 P _ _ _ _ _ _ _ Hmode H1) as [-> [A1 _]].
    destruct (unprotect_inv_aead12 P _ _ _ _ _ _ _ Hmode H2) as [-> [A2 _]].
    destruct (Haead ltac:(discriminate)) as [Ht Hi].
    assert (Hn13 : is_tls13_plus c = true -> uses_xor_nonce c = true /\ 8 <= zlen (c_fixed_nonce c)).
    { destruct Hmode as [_ [Hv _]]. unfold is_tls13_plus. rewrite Hv. discriminate. }
    destruct (aead_binds_ideal c P _ _ _ _ _ _ _ _ _ _ _ Ht Hi Hn13 A1 A2) as [A [_ B]]. auto.
  - specialize (H23 eq_refl). subst hty.
    destruct (unprotect_inv_tls13 P _ _ _ _ _ _ Hmode H1) as [i1 [A1 D1]].
    destruct (unprotect_inv_tls13 P _ _ _ _ _ _ Hmode H2) as [i2 [A2 D2]].
    destruct (Haead ltac:(discriminate)) as [Ht Hi].
    assert (Hn13 : is_tls13_plus c = true -> uses_xor_nonce c = true /\ 8 <= zlen (c_fixed_nonce c)).
    { destruct Hmode as [_ [Hv [H13 [_ [_ [_ [_ [Hnl [Hn8 _]]]]]]]]]. intros E. split; [|lia].
      unfold uses_xor_nonce. rewrite E. apply orb_true_r. }
    destruct (aead_binds_ideal c P _ _ _ _ _ _ _ _ _ _ _ Ht Hi Hn13 A1 A2) as [A [_ B]]. subst i2.
    rewrite D1 in D2. injection D2 as <- <-. auto.
Qed.

Lemma two_keys_never_both_ideal (P1 P2 : Prim CS) md r1 r1' r2 r2' hty hver body x1 x2 :
  integrity_mode md -> mode_ok P1 R md c -> mode_ok P2 R md c -> (md = MTls13 -> hty = 23) ->
  (md = MEtm -> mac_disjoint_ideal P1 P2 /\ ds P1 = ds P2) ->
  (md <> MEtm -> aead_tight P1 /\ aead_tight P2 /\ seal_disjoint_ideal P1 P2) ->
  unprotect c P1 r1 (hty, hver, body) = ROk (r1', x1) ->
  unprotect c P2 r2 (hty, hver, body) = ROk (r2', x2) -> False.
Proof.
  intros [->|[->| ->]] Hm1 Hm2 H23 Hmac Haead H1 H2; destruct x1 as [ty1 p1]; destruct x2 as [ty2 p2].
  - destruct (unprotect_inv_etm P1 _ _ _ _ _ _ _ Hm1 H1) as [-> [A1 _]].
    destruct (unprotect_inv_etm P2 _ _ _ _ _ _ _ Hm2 H2) as [_ [A2 _]].
    destruct Hm1 as [_ [[_ [_ [_ [Hm _]]]] _]]. destruct (Hmac eq_refl) as [Hd He].
    exact (etm_cross_key_ideal c P1 P2 _ _ _ _ _ _ _ _ _ Hm Hd He A1 A2).
  - destruct (unprotect_inv_aead12 P1 _ _ _ _ _ _ _ Hm1 H1) as [-> [A1 _]].
    destruct (unprotect_inv_aead12 P2 _ _ _ _ _ _ _ Hm2 H2) as [_ [A2 _]].
    destruct (Haead ltac:(discriminate)) as [T1 [T2 Hd]].
    exact (aead_cross_key_ideal c P1 P2 _ _ _ _ _ _ _ _ _ _ _ T1 T2 Hd A1 A2).
  - specialize (H23 eq_refl). subst hty.
    destruct (unprotect_inv_tls13 P1 _ _ _ _ _ _ Hm1 H1) as [i1 [A1 _]].
    destruct (unprotect_inv_tls13 P2 _ _ _ _ _ _ Hm2 H2) as [i2 [A2 _]].
    destruct (Haead ltac:(discriminate)) as [T1 [T2 Hd]].
    exact (aead_cross_key_ideal c P1 P2 _ _ _ _ _ _ _ _ _ _ _ T1 T2 Hd A1 A2).
Qed.
End Reject.
