(* C10: a signature that fails verification under the signer's own key is never emitted. *)
From Coq Require Import ZArith List Bool String.
From TV Require Import Base.Prelude Gen.C10_Tables Model.C10_SignSites.
Import ListNotations.

Section S.
  Variables Sig Data : Type.
  Variable sig_empty : Sig -> bool.

  Lemma checked_site_safe s (sign : Data -> Sig) (ver_own ver_other : Sig -> Data -> bool) d d_other :
    site_checked s = true ->
    (forall sg, run_site Sig Data sig_empty s sign ver_own ver_other d d_other = Emitted sg ->
                sg = sign d /\ ver_own sg d = true) /\
    (ver_own (sign d) d = false ->
     run_site Sig Data sig_empty s sign ver_own ver_other d d_other = InternalErrorAlert \/
     run_site Sig Data sig_empty s sign ver_own ver_other d d_other = InternalErrorRaised).
  Proof.
    unfold site_checked, run_site, fail_outcome. intros H.
    destruct (ss_assigned s), (ss_verified s), (ss_same_key s), (ss_same_data s); try discriminate.
    cbn [andb negb] in *.
    destruct (ss_empty_check s && sig_empty (sign d)).
    - split; [discriminate|auto].
    - destruct (ver_own (sign d) d) eqn:V.
      + split; [intros sg E; injection E as <-; auto|discriminate].
      + destruct (ss_fail s); try discriminate; split; try discriminate; auto.
  Qed.
End S.

Lemma all_sites_checked : forallb site_checked sign_sites = true.
Proof. vm_compute. reflexivity. Qed.

Lemma all_sites_safe :
  forall (Sig Data : Type) (sig_empty : Sig -> bool) s,
    In s sign_sites ->
    forall (sign : Data -> Sig) (ver_own ver_other : Sig -> Data -> bool) d d_other,
      (forall sg, run_site Sig Data sig_empty s sign ver_own ver_other d d_other = Emitted sg ->
                  sg = sign d /\ ver_own sg d = true) /\
      (ver_own (sign d) d = false ->
       run_site Sig Data sig_empty s sign ver_own ver_other d d_other = InternalErrorAlert \/
       run_site Sig Data sig_empty s sign ver_own ver_other d d_other = InternalErrorRaised).
Proof.
  intros Sig Data sig_empty s Hin sign ver_own ver_other d d_other.
  apply checked_site_safe.
  pose proof all_sites_checked as H. rewrite forallb_forall in H. apply H. exact Hin.
Qed.
