(* C05 -- the bytes to be signed determine the transcript (and, in TLS 1.3, the role),
   under an explicit ideal-hash hypothesis set.  Proof over the text generated from
   KeyExchange.calcVerifyBytes. *)
From Coq Require Import ZArith List Bool String Lia.
From TV Require Import Base.Prelude Base.C05_Lib Gen.C05_VerifyBytes Model.C05_Auth.
Import ListNotations.
Open Scope Z_scope.
Open Scope list_scope.

Lemma app_inj_len {A} (a c b d : list A) :
  List.length a = List.length c -> a ++ b = c ++ d -> a = c /\ b = d.
Proof.
  revert c. induction a as [|x a IH]; intros [|y c] L H; cbn in *; try discriminate L.
  - split; [reflexivity|exact H].
  - injection H as Hx Hr. injection L as L. destruct (IH c L Hr) as [-> ->]. subst. split; reflexivity.
Qed.

Lemma app_inj_len_r {A} (a c b d : list A) :
  List.length b = List.length d -> a ++ b = c ++ d -> a = c /\ b = d.
Proof.
  intros L H. apply app_inj_len; [|exact H].
  apply (f_equal (@List.length A)) in H. rewrite !app_length in H. lia.
Qed.

Lemma Ok_inj {A} (a b : A) : Ok a = Ok b -> a = b.
Proof. intros H. injection H as H. exact H. Qed.

Section IdealHash.
Variable O : Orc.
(* H-ideal-hash (DESIGN section 4): the transcript digests and the outer hash are
   collision free, digests of one algorithm have one length, adding the PKCS#1
   DigestInfo prefix is injective.  False information-theoretically; Dolev-Yao reading. *)
Hypothesis digest_inj : forall t1 t2 n, o_digest O t1 n = o_digest O t2 n -> t1 = t2.
Hypothesis digest_len : forall t1 t2 n, List.length (o_digest O t1 n) = List.length (o_digest O t2 n).
Hypothesis ssl_inj : forall t1 t2 m l, o_digestSSL O t1 m l = o_digestSSL O t2 m l -> t1 = t2.
(* since /repo 14857e8 an SSLv3 DSA CertificateVerify covers only the sha_hash = bytes 16.. of digestSSL
   (RFC 6101 5.6.8): that part alone must be collision free too *)
Hypothesis ssl_sha_inj : forall t1 t2 m l,
  py_slice (o_digestSSL O t1 m l) (Some 16) None = py_slice (o_digestSSL O t2 m l) (Some 16) None -> t1 = t2.
Hypothesis hash_inj : forall a b n, o_hash O a n = o_hash O b n -> a = b.
Hypothesis pkcs1_inj : forall a b n, o_pkcs1 O a n = o_pkcs1 O b n -> a = b.

Ltac split_ifs :=
  repeat (cbv beta iota zeta delta [bind] in *;
  match goal with
  | H : Err _ = Ok _ |- _ => discriminate H
  | H : bind ?m _ = Ok _ |- _ =>
      let E := fresh "E" in destruct m eqn:E
  | H : context [match ?c with _ => _ end] |- _ =>
      let E := fresh "C" in destruct c eqn:E
  end); cbv beta iota zeta delta [bind] in *.

Lemma tls13_context_inj tag1 tag2 t1 t2 prf pre mid :
  List.length tag1 = List.length tag2 ->
  ((((pre ++ mid) ++ tag1) ++ [32;67;101;114;116;105;102;105;99;97;116;101;86;101;114;105;102;121]) ++ [0]) ++ o_digest O t1 prf =
  ((((pre ++ mid) ++ tag2) ++ [32;67;101;114;116;105;102;105;99;97;116;101;86;101;114;105;102;121]) ++ [0]) ++ o_digest O t2 prf ->
  t1 = t2 /\ tag1 = tag2.
Proof.
  intros L H.
  apply app_inj_len_r in H; [|apply digest_len]. destruct H as [H Hd].
  apply digest_inj in Hd. split; [exact Hd|].
  apply app_inj_len_r in H; [|reflexivity]. destruct H as [H _].
  apply app_inj_len_r in H; [|reflexivity]. destruct H as [H _].
  apply app_inj_len_r in H; [|exact L]. destruct H as [_ H]. exact H.
Qed.

Lemma verify_bytes_binds ver t1 t2 sa pm cr sr prf tag1 tag2 kt b :
  List.length tag1 = List.length tag2 ->
  verify_bytes O ver t1 sa pm cr sr prf tag1 kt = Ok b ->
  verify_bytes O ver t2 sa pm cr sr prf tag2 kt = Ok b ->
  t1 = t2 /\ (ver = (3, 4) -> tag1 = tag2).
Proof.
  intros L H1 H2. unfold verify_bytes, calcVerifyBytes in H1, H2.
  destruct (pairZ_eqb ver (3, 0)) eqn:V0.
  { assert (ver <> (3, 4)) as NV by (intros X; subst ver; discriminate V0).
    split_ifs; rewrite <- H2 in H1; clear H2; apply Ok_inj in H1;
      first [apply ssl_sha_inj in H1 | apply ssl_inj in H1];
      (split; [exact H1|intros X; contradiction]). }
  destruct (existsb (pairZ_eqb ver) [(3, 1); (3, 2)]) eqn:V1.
  { assert (ver <> (3, 4)) as NV by (intros X; subst ver; discriminate V1).
    split_ifs; injection H1 as H1; injection H2 as H2; subst b; apply digest_inj in H2;
      (split; [symmetry; exact H2|intros X; contradiction]). }
  destruct (pairZ_eqb ver (3, 3)) eqn:V3.
  { assert (ver <> (3, 4)) as NV by (intros X; subst ver; discriminate V3).
    split_ifs; injection H1 as H1; injection H2 as H2; subst b;
      try (apply pkcs1_inj in H2); apply digest_inj in H2;
      (split; [symmetry; exact H2|intros X; contradiction]). }
  destruct (pairZ_eqb ver (3, 4)) eqn:V4; [|discriminate H1].
  split_ifs; rewrite <- H2 in H1; clear H2; apply Ok_inj in H1;
    try (apply hash_inj in H1);
    apply tls13_context_inj in H1; try exact L;
    destruct H1 as [Ht Hg]; (split; [exact Ht|intros _; exact Hg]).
Qed.
End IdealHash.

Lemma py_slice_drop16 (t : list Z) : py_slice (repeat 0 16 ++ t) (Some 16) None = t.
Proof.
  unfold py_slice, clamp_bound, zlen. rewrite app_length, repeat_length.
  change (16 <? 0) with false. cbv iota.
  destruct (Z.of_nat (16 + List.length t) <? 16) eqn:B; [apply Z.ltb_lt in B; lia|].
  try (change (16 <? 0) with false; cbv iota).
  destruct (Z.of_nat (16 + List.length t) <=? 16) eqn:C.
  - apply Z.leb_le in C. destruct t; [reflexivity|cbn [List.length] in C; lia].
  - replace (Z.to_nat 16) with 16%nat by reflexivity.
    cbn [repeat app skipn].
    replace (Z.to_nat (Z.of_nat (16 + List.length t) - 16)) with (List.length t) by lia.
    apply firstn_all.
Qed.

(* the hypothesis set is satisfiable: the identity as "hash", digestSSL = 16 fixed bytes then the transcript
   (toy instance) *)
Lemma ideal_hash_instance :
  let O := orc_const true in
  (forall t1 t2 n, o_digest O t1 n = o_digest O t2 n -> t1 = t2) /\
  (forall t1 t2 m l, o_digestSSL O t1 m l = o_digestSSL O t2 m l -> t1 = t2) /\
  (forall t1 t2 m l, py_slice (o_digestSSL O t1 m l) (Some 16) None = py_slice (o_digestSSL O t2 m l) (Some 16) None -> t1 = t2) /\
  (forall a b n, o_hash O a n = o_hash O b n -> a = b) /\
  (forall a b n, o_pkcs1 O a n = o_pkcs1 O b n -> a = b).
Proof.
  unfold orc_const. cbn [o_digest o_digestSSL o_hash o_pkcs1].
  split; [intros; assumption|]. split; [intros t1 t2 _ _ H; apply app_inv_head in H; exact H|].
  split; [intros t1 t2 _ _ H; rewrite !py_slice_drop16 in H; exact H|].
  split; intros; assumption.
Qed.
