(* unprotect (protect x) = x for the six protection paths, under the contracts of
   Spec/C01_Contracts.v. *)
From Coq Require Import ZArith List Bool Lia.
From TV Require Import Base.Prelude Spec.CbcCheck Model.C01_RecordPipe Spec.C01_Contracts
  Proofs.C01_Lists Proofs.C01_Cbc.
Import ListNotations.
Open Scope Z_scope.

Lemma ver_macable_cases v : ver_macable v = true -> v = (3,0) \/ v = (3,1) \/ v = (3,2) \/ v = (3,3).
Proof.
  unfold ver_macable. cbn [existsb]. rewrite !orb_true_iff, !pairZ_eqb_spec.
  intros [H|[H|[H|[H|H]]]]; auto. discriminate.
Qed.

Lemma ver_macable_not13 v : ver_macable v = true -> ver_lt (3,3) v = false.
Proof. intros H. apply ver_macable_cases in H. destruct H as [->|[->|[->| ->]]]; reflexivity. Qed.

Lemma is_byte_range x : is_byte x = true <-> 0 <= x < 256.
Proof. unfold is_byte. rewrite andb_true_iff, Z.leb_le, Z.ltb_lt. tauto. Qed.

Section RT.
Context {CS : Type}.
Variable P : Prim CS.
Variable R : CS -> CS -> Prop.
Variable c : Cfg.

Lemma next_seq_ok (s : St CS) : 0 <= st_seq s < 18446744073709551616 ->
  next_seq s = ROk (be_bytes 8 (st_seq s), {| st_cs := st_cs s; st_seq := st_seq s + 1 |}).
Proof.
  intros H. unfold next_seq.
  destruct (0 <=? st_seq s) eqn:E1; [|lia]. destruct (st_seq s <? 18446744073709551616) eqn:E2; [|lia].
  reflexivity.
Qed.

Lemma calc_mac_ok m seqb ty data : is_byte ty = true -> ver_macable (c_ver c) = true -> zlen data < 65536 ->
  calc_mac c m seqb ty data = ROk (mac_fn m (mac_acc m ++ mac_header seqb ty (c_ver c) (zlen data) ++ data)).
Proof.
  intros H1 H2 H3. unfold calc_mac. rewrite H1, H2. cbn [negb].
  destruct (65536 <=? zlen data) eqn:E; [lia|reflexivity].
Qed.

Definition tagged (s : St CS) (ty : Z) (data : list Z) : list Z :=
  mac_fn (pr_mac P) (mac_acc (pr_mac P) ++ mac_header (be_bytes 8 (st_seq s)) ty (c_ver c) (zlen data) ++ data).

Lemma append_mac_ok (s : St CS) ty data :
  c_has_mac c = true -> is_byte ty = true -> ver_macable (c_ver c) = true -> zlen data < 65536 ->
  0 <= st_seq s < 18446744073709551616 ->
  append_mac c P s ty data =
    ROk ({| st_cs := st_cs s; st_seq := st_seq s + 1 |}, data ++ tagged s ty data).
Proof.
  intros Hm Hb Hv Hl Hs. unfold append_mac. rewrite Hm, (next_seq_ok s Hs). cbn [rbind].
  rewrite calc_mac_ok by assumption. reflexivity.
Qed.

(* ---------------- stream / NULL cipher, MAC-then-encrypt ---------------------------------- *)
Lemma stream_rt (s r : St CS) ty data :
  mode_ok P R MStream c -> sync R s r -> is_byte ty = true -> zlen data <= 16384 ->
  st_seq s < 18446744073709551616 ->
  exists s' body r',
    mac_then_encrypt c P s ty data = ROk (s', body) /\
    zlen body = zlen data + ds P /\
    decrypt_stream_then_mac c P r ty body = ROk (r', data) /\
    sync R s' r' /\ st_seq s' = st_seq s + 1.
Proof.
  intros [_ [[Hv [_ [_ [Hm [Hml Hds]]]]] [_ [Hblk Henc]]]] [HR [Hseq H0]] Hb Hl Hs.
  unfold mac_then_encrypt.
  rewrite append_mac_ok by (try assumption; lia). cbn [rbind].
  set (t := tagged s ty data).
  assert (Ht : zlen t = ds P) by apply Hml.
  unfold decrypt_stream_then_mac. rewrite Hblk, Hm, Hv. cbn [negb andb].
  destruct (c_has_enc c) eqn:He.
  - specialize (Henc eq_refl (st_cs s) (st_cs r) (data ++ t) HR (Z.mod_1_r _)).
    destruct Henc as [Hd [Hlen HR']].
    eexists _, _, _. split; [reflexivity|]. cbn [set_cs st_cs st_seq fst snd].
    split; [rewrite Hlen, zlen_app; lia|].
    cbn [rbind]. cbn [set_cs st_cs st_seq fst snd]. rewrite Hd.
    rewrite zlen_app, Ht.
    destruct (ds P >? zlen data + ds P) eqn:E; [pose proof (zlen_nonneg data); lia|].
    replace (zlen data + ds P - ds P) with (zlen data) by lia.
    rewrite next_seq_ok by (cbn [set_cs st_seq]; lia). cbn [rbind set_cs st_cs st_seq].
    rewrite ztake_app_exact, zdrop_app_exact.
    rewrite calc_mac_ok by (try assumption; lia). cbn [rbind].
    unfold t, tagged. rewrite <- Hseq. rewrite list_eqb_refl.
    split; [reflexivity|]. split; [|reflexivity]. 
    unfold sync. cbn [set_cs st_cs st_seq]. split; [exact HR'|]. split; lia.
  - eexists _, _, _. split; [reflexivity|].
    split; [rewrite zlen_app; lia|].
    cbn [rbind]. rewrite zlen_app, Ht.
    destruct (ds P >? zlen data + ds P) eqn:E; [pose proof (zlen_nonneg data); lia|].
    replace (zlen data + ds P - ds P) with (zlen data) by lia.
    rewrite next_seq_ok by lia. cbn [rbind st_cs st_seq].
    rewrite ztake_app_exact, zdrop_app_exact.
    rewrite calc_mac_ok by (try assumption; lia). cbn [rbind].
    unfold t, tagged. rewrite <- Hseq. rewrite list_eqb_refl.
    split; [reflexivity|]. split; [|reflexivity].
    unfold sync. cbn [set_cs st_cs st_seq]. split; [exact HR|]. split; lia.
Qed.

(* ---------------- CBC, MAC-then-encrypt (implicit and explicit IV) ---------------------------- *)
Lemma iv_prefix_len : block_ok P R c -> zlen (iv_prefix c) = 0 \/ zlen (iv_prefix c) = c_bs c.
Proof.
  intros [_ [_ [_ Hiv]]]. unfold iv_prefix. destruct (ver_le (3, 2) (c_ver c)); [right; auto|left; reflexivity].
Qed.

Lemma drop_iv_prefix (x : list Z) : block_ok P R c ->
  (if ver_le (3, 2) (c_ver c) then zdrop (c_bs c) (iv_prefix c ++ x) else iv_prefix c ++ x) = x.
Proof.
  intros [_ [_ [_ Hiv]]]. unfold iv_prefix. destruct (ver_le (3, 2) (c_ver c)); [|reflexivity].
  apply zdrop_app_n. symmetry. auto.
Qed.

Lemma cbc_rt (s r : St CS) ty data :
  mode_ok P R MCbc c -> sync R s r -> is_byte ty = true -> zlen data <= 16384 ->
  st_seq s < 18446744073709551616 ->
  exists s' body r',
    mac_then_encrypt c P s ty data = ROk (s', body) /\
    zlen data + ds P <= zlen body <= zlen data + ds P + 2 * c_bs c /\
    decrypt_then_mac c P r ty body = ROk (r', data) /\
    sync R s' r' /\ st_seq s' = st_seq s + 1.
Proof.
  intros [_ [[Hv [_ [_ [Hm [Hml Hds]]]]] [_ [Henc Hblk]]]] [HR [Hseq H0]] Hb Hl Hs.
  pose proof Hblk as [Hb1 [Hbs [Hciph _]]].
  unfold mac_then_encrypt.
  rewrite append_mac_ok by (try assumption; lia). cbn [rbind].
  set (t := tagged s ty data).
  assert (Ht : zlen t = ds P) by apply Hml.
  rewrite Henc, Hb1. cbn [andb].
  destruct (add_padding_spec (c_bs c) (iv_prefix c ++ data ++ t) ltac:(lia)) as [p [Hp [Hpad Hmod]]].
  destruct (zlen_add_padding (c_bs c) (iv_prefix c ++ data ++ t) ltac:(lia)) as [Hmod0 Hlen].
  rewrite Hmod0. cbn [Z.eqb negb].
  remember (add_padding (c_bs c) (iv_prefix c ++ data ++ t)) as d2 eqn:Ed2.
  cbn [set_cs st_cs st_seq].
  destruct (Hciph (st_cs s) (st_cs r) d2 HR Hmod0) as [Hdec [Hclen HR']].
  eexists _, _, _. split; [reflexivity|].
  split.
  { rewrite Hclen. rewrite !zlen_app in Hlen. rewrite Ht in Hlen.
    destruct (iv_prefix_len Hblk) as [E|E]; rewrite E in Hlen; lia. }
  unfold decrypt_then_mac. rewrite Hv, Hb1, Hm. cbn [negb andb].
  rewrite Hclen, Hmod0. cbn [Z.eqb negb]. rewrite Hdec.
  assert (Hd1 : (if ver_le (3, 2) (c_ver c) then zdrop (c_bs c) d2 else d2)
                = data ++ t ++ repeat p (Z.to_nat p) ++ [p]).
  { rewrite Hpad. rewrite <- !app_assoc.
    rewrite (drop_iv_prefix (data ++ t ++ repeat p (Z.to_nat p) ++ [p]) Hblk). reflexivity. }
  rewrite Hd1.
  rewrite next_seq_ok by (cbn [set_cs st_seq]; lia). cbn [rbind set_cs st_cs st_seq].
  rewrite Hb. cbn [negb].
  rewrite well_formed_intro.
  - unfold ds. rewrite (strip_intro (pr_mac P)).
    + split; [reflexivity|]. split; [|reflexivity].
      unfold sync. cbn [set_cs st_cs st_seq]. split; [exact HR'|]. split; lia.
    + exact Ht.
    + rewrite zlen_repeat. lia.
  - exact Ht.
  - apply pad_ok_honest. exact Hp.
  - unfold t, tagged, tag_of. rewrite Hseq. reflexivity.
Qed.

(* ---------------- encrypt-then-MAC --------------------------------------------------------------- *)
Lemma etm_padding_honest data p : 0 <= p ->
  etm_padding_ok c (data ++ repeat p (Z.to_nat p) ++ [p]) = true.
Proof.
  intros Hp. unfold etm_padding_ok. cbv zeta.
  replace (last_byte (data ++ repeat p (Z.to_nat p) ++ [p])) with p.
  2:{ rewrite app_assoc, last_byte_snoc. reflexivity. }
  assert (Hn : zlen (data ++ repeat p (Z.to_nat p) ++ [p]) = zlen data + p + 1).
  { rewrite !zlen_app, zlen_repeat. change (zlen [p]) with 1. lia. }
  rewrite Hn. pose proof (zlen_nonneg data).
  apply andb_true_iff. split; [apply Z.leb_le; lia|].
  apply orb_true_iff. right.
  replace (zlen data + p + 1 - (p + 1)) with (zlen data) by lia.
  rewrite zdrop_app_exact. rewrite ztake_app_n by (rewrite zlen_repeat; lia).
  apply forallb_forall. intros x Hx. apply repeat_spec in Hx. subst x. apply Z.eqb_refl.
Qed.

Lemma etm_rt (s r : St CS) ty data :
  mode_ok P R MEtm c -> sync R s r -> is_byte ty = true -> zlen data <= 16384 ->
  st_seq s < 18446744073709551616 ->
  exists s' body r',
    encrypt_then_mac c P s ty data = ROk (s', body) /\
    zlen data + ds P <= zlen body <= zlen data + ds P + 2 * (if c_has_enc c then c_bs c else 0) /\
    mac_then_decrypt c P r ty body = ROk (r', data) /\
    sync R s' r' /\ st_seq s' = st_seq s + 1.
Proof.
  intros [_ [[Hv [_ [_ [Hm [Hml Hds]]]]] [_ Hblk0]]] [HR [Hseq H0]] Hb Hl Hs.
  unfold encrypt_then_mac, mac_then_decrypt. rewrite Hm.
  destruct (c_has_enc c) eqn:Henc.
  - specialize (Hblk0 eq_refl). pose proof Hblk0 as [Hb1 [Hbs [Hciph _]]].
    destruct (add_padding_spec (c_bs c) (iv_prefix c ++ data) ltac:(lia)) as [p [Hp [Hpad Hmod]]].
    destruct (zlen_add_padding (c_bs c) (iv_prefix c ++ data) ltac:(lia)) as [Hmod0 Hlen].
    rewrite Hmod0. cbn [Z.eqb negb rbind].
    remember (add_padding (c_bs c) (iv_prefix c ++ data)) as d2 eqn:Ed2.
    destruct (Hciph (st_cs s) (st_cs r) d2 HR Hmod0) as [Hdec [Hclen HR']].
    set (ct := snd (pr_enc P (st_cs s) d2)) in *.
    assert (Hctl : zlen data <= zlen ct <= zlen data + 2 * c_bs c).
    { rewrite Hclen. rewrite !zlen_app in Hlen. destruct (iv_prefix_len Hblk0) as [E|E]; rewrite E in Hlen; lia. }
    rewrite append_mac_ok by (cbn [set_cs st_seq]; try assumption; lia). cbn [set_cs st_cs st_seq].
    set (t := tagged _ ty ct).
    assert (Ht : zlen t = ds P) by apply Hml.
    eexists _, _, _. split; [reflexivity|]. split; [rewrite zlen_app; lia|].
    rewrite zlen_app, Ht. pose proof (zlen_nonneg ct).
    destruct (zlen ct + ds P <? ds P) eqn:E; [lia|].
    replace (zlen ct + ds P - ds P) with (zlen ct) by lia.
    rewrite next_seq_ok by lia. cbn [rbind].
    rewrite ztake_app_exact, zdrop_app_exact.
    rewrite calc_mac_ok by (try assumption; lia). cbn [rbind].
    unfold t, tagged. cbn [st_seq]. rewrite <- Hseq, list_eqb_refl.
    cbn [rbind st_cs]. rewrite Hclen, Hmod0. cbn [Z.eqb negb]. rewrite Hdec.
    assert (Hd1 : (if ver_le (3, 2) (c_ver c) then zdrop (c_bs c) d2 else d2)
                  = data ++ repeat p (Z.to_nat p) ++ [p]).
    { rewrite Hpad. rewrite <- !app_assoc.
      rewrite (drop_iv_prefix (data ++ repeat p (Z.to_nat p) ++ [p]) Hblk0). reflexivity. }
    rewrite Hd1.
    assert (Hn : zlen (data ++ repeat p (Z.to_nat p) ++ [p]) = zlen data + p + 1).
    { rewrite !zlen_app, zlen_repeat. change (zlen [p]) with 1. lia. }
    rewrite Hn. pose proof (zlen_nonneg data).
    destruct (zlen data + p + 1 =? 0) eqn:E0; [lia|].
    rewrite etm_padding_honest by lia.
    replace (last_byte (data ++ repeat p (Z.to_nat p) ++ [p])) with p.
    2:{ rewrite app_assoc, last_byte_snoc. reflexivity. }
    replace (zlen data + p + 1 - (p + 1)) with (zlen data) by lia.
    rewrite ztake_app_exact.
    split; [reflexivity|]. split; [|reflexivity].
    unfold sync. cbn [set_cs st_cs st_seq]. split; [exact HR'|]. split; lia.
  - cbn [rbind].
    rewrite append_mac_ok by (try assumption; lia).
    set (t := tagged s ty data).
    assert (Ht : zlen t = ds P) by apply Hml.
    eexists _, _, _. split; [reflexivity|]. split; [rewrite zlen_app; lia|].
    rewrite zlen_app, Ht. pose proof (zlen_nonneg data).
    destruct (zlen data + ds P <? ds P) eqn:E; [lia|].
    replace (zlen data + ds P - ds P) with (zlen data) by lia.
    rewrite next_seq_ok by lia. cbn [rbind].
    rewrite ztake_app_exact, zdrop_app_exact.
    rewrite calc_mac_ok by (try assumption; lia). cbn [rbind].
    unfold t, tagged. rewrite <- Hseq, list_eqb_refl.
    split; [reflexivity|]. split; [|reflexivity].
    unfold sync. cbn [set_cs st_cs st_seq]. split; [exact HR|]. split; lia.
Qed.

(* ---------------- AEAD ------------------------------------------------------------------------------- *)
Lemma zlen_combine {A B} (a : list A) (b : list B) : zlen (combine a b) = Z.min (zlen a) (zlen b).
Proof. unfold zlen. rewrite combine_length. lia. Qed.

Lemma zlen_xor_nonce fixed seqb : zlen seqb <= zlen fixed -> zlen (xor_nonce fixed seqb) = zlen fixed.
Proof.
  intros H. unfold xor_nonce, zlen at 1. rewrite map_length. fold (zlen (combine (zeros (zlen fixed - zlen seqb) ++ seqb) fixed)).
  rewrite zlen_combine, zlen_app, zlen_zeros by lia. lia.
Qed.

Lemma zlen_be_bytes k n : zlen (be_bytes k n) = Z.of_nat k.
Proof. unfold zlen. rewrite be_bytes_length. reflexivity. Qed.

Lemma get_nonce_ok seqb : zlen seqb = 8 ->
  zlen (c_fixed_nonce c) + (if uses_xor_nonce c then 0 else 8) = c_nonce_len c ->
  (uses_xor_nonce c = true -> 8 <= zlen (c_fixed_nonce c)) ->
  exists n, get_nonce c seqb = ROk n /\ zlen n = c_nonce_len c /\
            (uses_xor_nonce c = false -> n = c_fixed_nonce c ++ seqb).
Proof.
  intros Hs Hn Hx. unfold get_nonce. destruct (uses_xor_nonce c) eqn:E.
  - specialize (Hx eq_refl). rewrite Hs. destruct (zlen (c_fixed_nonce c) <? 8) eqn:E1; [lia|].
    eexists. split; [reflexivity|]. split; [|discriminate]. rewrite zlen_xor_nonce; lia.
  - eexists. split; [reflexivity|]. split; [|reflexivity]. rewrite zlen_app. lia.
Qed.

Lemma div256_byte n : 0 <= n < 65536 -> is_byte (n / 256) = true.
Proof.
  intros H. apply is_byte_range. split; [apply Z.div_pos; lia|apply Z.div_lt_upper_bound; lia].
Qed.

Lemma aead12_rt (s r : St CS) ty data :
  mode_ok P R MAead12 c -> sync R s r -> is_byte ty = true -> zlen data <= 16384 ->
  st_seq s < 18446744073709551616 ->
  exists s' body r',
    encrypt_then_seal c P s ty data = ROk (s', body) /\
    zlen data + c_tag c <= zlen body <= zlen data + c_tag c + 8 /\
    decrypt_and_unseal c P r (ty, c_ver c, body) = ROk (r', data) /\
    sync R s' r' /\ st_seq s' = st_seq s + 1.
Proof.
  intros [_ [Hv [H13 [Henc [Haead [Hok [Htag [Hnl Hxe]]]]]]]] [HR [Hseq H0]] Hb Hl Hs.
  assert (Hn13 : is_tls13_plus c = false) by (unfold is_tls13_plus; rewrite Hv; reflexivity).
  unfold encrypt_then_seal. rewrite next_seq_ok by lia. cbn [rbind]. rewrite Hn13.
  pose proof (zlen_nonneg data) as Hd0.
  rewrite Hb, (div256_byte (zlen data)) by lia. cbn [andb negb].
  assert (Hx8 : uses_xor_nonce c = true -> 8 <= zlen (c_fixed_nonce c)).
  { unfold uses_xor_nonce. rewrite Hn13, orb_false_r. intros Hx. apply andb_true_iff in Hx.
    destruct Hx as [_ Hx]. apply Z.eqb_eq in Hx. lia. }
  destruct (get_nonce_ok (be_bytes 8 (st_seq s)) (zlen_be_bytes _ _) Hnl Hx8) as [nonce [Hgn [Hnlen Hnexp]]].
  rewrite Hgn. cbn [rbind]. rewrite Hnlen, Z.eqb_refl. cbn [negb].
  destruct (Hok nonce data (aad12 c (be_bytes 8 (st_seq s)) ty (zlen data))) as [Hopen Hslen].
  set (ct := pr_seal P nonce data (aad12 c (be_bytes 8 (st_seq s)) ty (zlen data))) in *.
  eexists _, _, _. split; [reflexivity|].
  split. { destruct (explicit_nonce c); rewrite ?zlen_app, ?zlen_be_bytes, Hslen; change (Z.of_nat 8) with 8; lia. }
  unfold decrypt_and_unseal. rewrite next_seq_ok by lia. cbn [rbind]. rewrite <- Hseq.
  destruct (explicit_nonce c) eqn:Ee.
  - rewrite zlen_app, zlen_be_bytes. change (Z.of_nat 8) with 8.
    destruct (8 >? 8 + zlen ct) eqn:E8; [pose proof (zlen_nonneg ct); lia|].
    cbn [rbind]. rewrite ztake_app_n, zdrop_app_n by (rewrite zlen_be_bytes; reflexivity).
    destruct (c_tag c >? zlen ct) eqn:E; [lia|]. rewrite Hn13.
    rewrite Hslen. replace (zlen data + c_tag c - c_tag c) with (zlen data) by lia.
    rewrite Hb, (div256_byte (zlen data)) by lia. cbn [andb negb rbind].
    assert (Hne : uses_xor_nonce c = false).
    { destruct (uses_xor_nonce c) eqn:Eu; [|reflexivity]. discriminate (Hxe eq_refl). }
    rewrite <- (Hnexp Hne). fold ct. rewrite Hopen.
    split; [reflexivity|]. split; [|reflexivity].
    unfold sync. cbn [set_cs st_cs st_seq]. split; [exact HR|]. split; lia.
  - rewrite Hgn. cbn [rbind].
    destruct (c_tag c >? zlen ct) eqn:E; [lia|]. rewrite Hn13.
    rewrite Hslen. replace (zlen data + c_tag c - c_tag c) with (zlen data) by lia.
    rewrite Hb, (div256_byte (zlen data)) by lia. cbn [andb negb rbind].
    fold ct. rewrite Hopen.
    split; [reflexivity|]. split; [|reflexivity].
    unfold sync. cbn [set_cs st_cs st_seq]. split; [exact HR|]. split; lia.
Qed.

(* ---------------- TLS 1.3 inner plaintext ------------------------------------------------------------- *)
Lemma strip_zeros_zeros k l : strip_zeros (repeat 0 k ++ l) = strip_zeros l.
Proof. induction k; cbn [repeat app strip_zeros]; [reflexivity|]. rewrite Z.eqb_refl. exact IHk. Qed.

Lemma rev_repeat {A} (x : A) k : rev (repeat x k) = repeat x k.
Proof.
  induction k; cbn [repeat rev]; [reflexivity|]. rewrite IHk.
  clear IHk. induction k; cbn [repeat app]; [reflexivity|]. f_equal. exact IHk.
Qed.

Lemma de_pad_spec data ty k : ty <> 0 -> de_pad (data ++ [ty] ++ zeros k) = ROk (ty, data).
Proof.
  intros Hty. unfold de_pad, zeros. rewrite !rev_app_distr, rev_repeat. cbn [rev app].
  rewrite <- app_assoc. rewrite strip_zeros_zeros. cbn [app strip_zeros].
  destruct (ty =? 0) eqn:E; [apply Z.eqb_eq in E; contradiction|].
  rewrite rev_involutive. reflexivity.
Qed.

Lemma de_pad_all_zero k : de_pad (zeros k) = RErr EUnexpected.
Proof.
  unfold de_pad, zeros. rewrite rev_repeat. rewrite <- (app_nil_r (repeat 0 (Z.to_nat k))).
  rewrite strip_zeros_zeros. reflexivity.
Qed.

Lemma inner_plaintext_ok ty data : mode_ok P R MTls13 c -> 1 <= ty <= 255 -> zlen data <= c_send_limit c ->
  exists k, 0 <= k /\ inner_plaintext c ty data = ROk (data ++ [ty] ++ zeros k) /\
            zlen data + 1 + k <= c_send_limit c + 1 /\
            (k = 0 \/ zlen data + 1 + k <= c_send_limit c - 1).
Proof.
  intros [_ [_ [_ [_ [_ [_ [_ [_ [_ Hcb]]]]]]]]] Hty Hl.
  unfold inner_plaintext. assert (Hb : is_byte ty = true) by (apply is_byte_range; lia).
  rewrite Hb. cbn [negb]. unfold pad_cb_ok in Hcb.
  destruct (c_pad_cb c) as [cb|].
  - set (k := cb (zlen (data ++ [ty])) ty (c_send_limit c - zlen (data ++ [ty]) - 1)).
    specialize (Hcb (zlen (data ++ [ty])) ty (c_send_limit c - zlen (data ++ [ty]) - 1)). fold k in Hcb.
    rewrite zlen_app in Hcb. change (zlen [ty]) with 1 in Hcb.
    exists k. destruct (k <? 0) eqn:E; [lia|]. split; [lia|]. split; [rewrite <- app_assoc; reflexivity|].
    split; lia.
  - exists 0. split; [lia|]. split; [cbn [zeros Z.to_nat repeat]; rewrite app_nil_r; reflexivity|]. split; [lia|left; reflexivity].
Qed.

Lemma tls13_rt (s r : St CS) ty data :
  mode_ok P R MTls13 c -> sync R s r -> rec_ok c ty data -> ty <> 20 ->
  st_seq s < 18446744073709551616 ->
  exists s' w r',
    protect c P s (ty, data) = ROk (s', w) /\
    unprotect c P r w = ROk (r', (ty, data)) /\
    sync R s' r' /\ st_seq s' = st_seq s + 1 /\
    exists k, 0 <= k /\ zlen data + 1 + k <= c_send_limit c + 1 /\
              zlen (snd w) = zlen data + 1 + k + c_tag c.
Proof.
  intros Hmode [HR [Hseq H0]] [Hty Hl] H20 Hs.
  destruct (inner_plaintext_ok ty data Hmode Hty Hl) as [k [Hk0 [Hin [Hk1 _]]]].
  destruct Hmode as [[Hl1 [Hl2 Hl3]] [Hv [H13 [Henc [Haead [Hok [Htag [Hnl [Hn8 Hcb]]]]]]]]].
  assert (Ht13 : is_tls13_plus c = true) by (unfold is_tls13_plus; rewrite Hv, H13; reflexivity).
  unfold protect. rewrite Ht13, Henc. cbn [andb].
  destruct (ty =? 20) eqn:E20; [apply Z.eqb_eq in E20; contradiction|]. cbn [negb].
  rewrite Hin. cbn [rbind]. rewrite Hv. change (ver_lt (3, 3) (3, 4)) with true.
  change (23 =? 20) with false. cbn [andb]. rewrite Haead. cbn [andb].
  set (inner := data ++ [ty] ++ zeros k).
  assert (Hil : zlen inner = zlen data + 1 + k).
  { unfold inner. rewrite !zlen_app, zlen_zeros by lia. change (zlen [ty]) with 1. lia. }
  pose proof (zlen_nonneg data) as Hd0.
  unfold encrypt_then_seal. rewrite next_seq_ok by lia. cbn [rbind]. rewrite Ht13.
  change (is_byte 23) with true. rewrite (div256_byte (zlen inner + c_tag c)) by lia. cbn [andb negb].
  assert (Hux : uses_xor_nonce c = true) by (unfold uses_xor_nonce; rewrite Ht13; apply orb_true_r).
  assert (Hnl' : zlen (c_fixed_nonce c) + (if uses_xor_nonce c then 0 else 8) = c_nonce_len c) by (rewrite Hux; lia).
  destruct (get_nonce_ok (be_bytes 8 (st_seq s)) (zlen_be_bytes _ _) Hnl' ltac:(intros _; lia)) as [nonce [Hgn [Hnlen _]]].
  rewrite Hgn. cbn [rbind]. rewrite Hnlen, Z.eqb_refl. cbn [negb].
  assert (Hexp : explicit_nonce c = false) by (unfold explicit_nonce; rewrite Ht13; apply andb_false_r).
  rewrite Hexp.
  destruct (Hok nonce inner (aad13 23 (3, 3) (zlen inner + c_tag c))) as [Hopen Hslen].
  set (ct := pr_seal P nonce inner (aad13 23 (3, 3) (zlen inner + c_tag c))) in *.
  cbn [rbind]. change (is_byte 23) with true. cbn [negb orb].
  destruct (65536 <=? zlen ct) eqn:E6; [lia|].
  eexists _, _, _. split; [reflexivity|].
  unfold unprotect.
  destruct (zlen ct >? c_recv_limit c + 2048) eqn:E1; [lia|].
  rewrite H13. cbn [andb].
  destruct (zlen ct >? c_recv_limit c + 256) eqn:E2; [lia|].
  rewrite Ht13, Henc, Haead. change (23 =? 20) with false. change (23 =? 21) with false. cbn [andb].
  rewrite ?andb_false_r. cbn [andb].
  unfold decrypt_and_unseal. rewrite next_seq_ok by lia. cbn [rbind]. rewrite Hexp, <- Hseq, Hgn. cbn [rbind].
  destruct (c_tag c >? zlen ct) eqn:E3; [lia|]. rewrite Ht13.
  change (23 =? 23) with true. change (pairZ_eqb (3, 3) (3, 3)) with true. cbn [negb rbind].
  rewrite Hslen. fold ct. rewrite Hopen. cbn [rbind].
  destruct (zlen inner >? c_recv_limit c + 1) eqn:E4; [lia|].
  unfold inner. rewrite de_pad_spec by lia. cbn [rbind]. rewrite E20. cbn [rbind].
  destruct (zlen data >? c_recv_limit c) eqn:E5; [lia|].
  split; [reflexivity|]. split.
  { unfold sync. cbn [set_cs st_cs st_seq]. split; [exact HR|]. split; lia. }
  split; [reflexivity|].
  exists k. split; [lia|]. split; [lia|]. cbn [snd]. lia.
Qed.
End RT.
