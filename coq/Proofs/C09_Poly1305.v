(* Poly1305: the generated code (Gen/C09_Poly1305.v) equals RFC 8439 2.5 (Spec/C09_Poly1305.v)
   for messages of any length.
   Robustness against behaviour-preserving rewrites of poly1305.py: everything downstream depends only on the three
   characterising lemmas poly_init_ok / poly_init_bad / poly_create_tag_ok.  Their proofs do not mention the helper
   functions' types; they unfold the generated text and recognise LOOP IDIOMS (lemmas about explicit loop terms, section
   "idioms"): little-endian number by descending index or by `reversed`, 16-byte serialisation by shifting accumulator or
   by `(num >> 8*i) & 0xff`, block loop by block index (divceil) or by `range(0, len, 16)`.  A rewrite into another idiom
   breaks these proofs (reported as a broken tie). *)
From Coq Require Import ZArith List Bool Lia.
From TV Require Import Base.Prelude Base.C09_Lib Gen.C09_Poly1305 Spec.C09_Poly1305.
Import ListNotations.
Open Scope Z_scope.

Ltac zl := unfold zlen in *; rewrite ?app_length in *; cbn [length] in *; lia.

(* ---- le_bytes_to_num = le_num ------------------------------------------------ *)
Lemma le_fold_right pre d :
  fold_right (fun i acc => Z.shiftl acc 8 + nthZ (pre ++ d) i) 0
             (zrange (zlen pre) (zlen pre + zlen d)) = le_num d.
Proof.
  revert pre. induction d as [|x d IH]; intros pre.
  - change (zlen (@nil Z)) with 0. rewrite Z.add_0_r. rewrite zrange_empty by lia. reflexivity.
  - rewrite zrange_cons by zl.
    cbn [fold_right le_num].
    replace (pre ++ x :: d) with ((pre ++ [x]) ++ d) by (rewrite <- app_assoc; reflexivity).
    replace (zlen pre + 1) with (zlen (pre ++ [x])) by zl.
    replace (zlen pre + zlen (x :: d)) with (zlen (pre ++ [x]) + zlen d)
      by zl.
    rewrite IH.
    unfold nthZ. rewrite <- app_assoc. cbn [app].
    rewrite app_nth2 by (unfold zlen; lia).
    replace (Z.to_nat (zlen pre) - length pre)%nat with 0%nat by zl.
    cbn [nth]. rewrite Z.shiftl_mul_pow2 by lia. change (2 ^ 8) with 256. lia.
Qed.

Lemma fold_left_rev {A B} (g : A -> B -> A) l a :
  fold_left g (rev l) a = fold_right (fun y x => g x y) a l.
Proof.
  symmetry. rewrite <- (rev_involutive l) at 1.
  apply (fold_left_rev_right (fun y x => g x y)).
Qed.

(* idiom A: for i in range(len(data)-1, -1, -1): ret <<= 8; ret += data[i] *)
Lemma le_loop_index data :
  foldM (fun ret i => t2_ <- py_index data i ;; Ok (Z.add (Z.shiftl ret 8) t2_))
        (py_range (Z.sub (zlen data) 1) (-1) (-1)) 0 = Ok (le_num data).
Proof.
  rewrite py_range_down by apply zlen_nonneg.
  rewrite (foldM_ok_ext _ (fun ret i => Z.shiftl ret 8 + nthZ data i)).
  - f_equal. rewrite fold_left_rev.
    exact (le_fold_right [] data).
  - intros a i Hi. apply in_rev in Hi. apply in_zrange in Hi.
    rewrite py_index_ok by lia. reflexivity.
Qed.

(* idiom B: for byte in reversed(data): ret = (ret << 8) + byte *)
Lemma le_loop_rev data :
  fold_left (fun ret byte => Z.add (Z.shiftl ret 8) byte) (rev data) 0 = le_num data.
Proof.
  rewrite fold_left_rev. induction data as [|x d IH]; [reflexivity|].
  cbn [fold_right le_num]. rewrite IH. rewrite Z.shiftl_mul_pow2 by lia. change (2 ^ 8) with 256. lia.
Qed.

(* ---- num_to_16_le_bytes = le_bytes 16 ---------------------------------------- *)
Lemma set_nth_app {A} (pre : list A) x suf v :
  set_nth (pre ++ x :: suf) (length pre) v = pre ++ v :: suf.
Proof. induction pre as [|p pre IH]; cbn [app length set_nth]; [reflexivity|]. rewrite IH. reflexivity. Qed.

Lemma py_store_app {A} (pre : list A) x suf v :
  py_store (pre ++ x :: suf) (zlen pre) v = Ok (pre ++ v :: suf).
Proof.
  unfold py_store. pose proof (zlen_nonneg pre) as Hp. pose proof (zlen_nonneg suf) as Hs.
  destruct (zlen pre <? 0) eqn:E; [lia|].
  rewrite zlen_app, zlen_cons.
  destruct ((0 <=? zlen pre) && (zlen pre <? zlen pre + (1 + zlen suf))) eqn:E2; [|lia].
  f_equal. unfold zlen. rewrite Nat2Z.id. apply set_nth_app.
Qed.

Lemma all_bytes_app a b : all_bytes (a ++ b) = all_bytes a && all_bytes b.
Proof. unfold all_bytes. apply forallb_app. Qed.

Lemma is_byte_mod x : is_byte (x mod 256) = true.
Proof.
  unfold is_byte. pose proof (Z.mod_pos_bound x 256 eq_refl).
  apply andb_true_iff. split; [apply Z.leb_le|apply Z.ltb_lt]; lia.
Qed.

Lemma le_bytes_all_bytes n v : all_bytes (le_bytes n v) = true.
Proof.
  revert v. induction n as [|n IH]; intros v; cbn [le_bytes]; [reflexivity|].
  unfold all_bytes in *. cbn [forallb]. rewrite is_byte_mod, IH. reflexivity.
Qed.

Lemma le_bytes_length n v : length (le_bytes n v) = n.
Proof. revert v. induction n as [|n IH]; intros v; cbn [le_bytes length]; [reflexivity|]. rewrite IH. reflexivity. Qed.

Lemma num_to_le_loop (suf : list Z) : forall pre (suf' : list Z) num, length suf' = length suf ->
  foldM (fun '(ret, num) '(i, _) =>
           ret <- py_store ret i (Z.land num 255) ;;
           let num := Z.shiftr num 8 in Ok (ret, num))
        (combine (zrange (zlen pre) (zlen pre + zlen suf)) suf) (pre ++ suf', num)
  = Ok (pre ++ le_bytes (length suf) num, num / 256 ^ zlen suf).
Proof.
  induction suf as [|y suf IH]; intros pre suf' num Hl.
  - destruct suf'; [|discriminate]. change (zlen (@nil Z)) with 0. rewrite Z.add_0_r. rewrite zrange_empty by lia.
    cbn [combine foldM le_bytes length]. change (256 ^ 0) with 1. rewrite Z.div_1_r. reflexivity.
  - destruct suf' as [|x suf']; [discriminate|]. injection Hl as Hl.
    rewrite zrange_cons by zl.
    cbn [combine foldM]. rewrite py_store_app. cbn [bind].
    replace (pre ++ Z.land num 255 :: suf') with ((pre ++ [Z.land num 255]) ++ suf')
      by (rewrite <- app_assoc; reflexivity).
    replace (zlen pre + 1) with (zlen (pre ++ [Z.land num 255])) by zl.
    replace (zlen pre + zlen (y :: suf)) with (zlen (pre ++ [Z.land num 255]) + zlen suf)
      by zl.
    rewrite IH by exact Hl. f_equal. f_equal.
    + rewrite <- app_assoc. cbn [app length le_bytes]. f_equal. f_equal.
      * change 255 with (Z.ones 8). rewrite Z.land_ones by lia. reflexivity.
      * rewrite Z.shiftr_div_pow2 by lia. reflexivity.
    + rewrite Z.shiftr_div_pow2 by lia. rewrite zlen_cons.
      rewrite Z.pow_add_r by (pose proof (zlen_nonneg suf); lia).
      rewrite Z.div_div by (try apply Z.pow_pos_nonneg; pose proof (zlen_nonneg suf); lia).
      reflexivity.
Qed.

(* idiom A: ret = [0]*16; for i, _ in enumerate(ret): ret[i] = num & 0xff; num >>= 8; bytearray(ret) *)
Lemma ser_loop_shift num :
  ('(ret, num0) <- foldM (fun '(ret, num0) '(i, _) =>
      ret <- py_store ret i (Z.land num0 255) ;; Ok (ret, Z.shiftr num0 8))
    (py_enumerate (py_repeat [0] 16)) (py_repeat [0] 16, num) ;;
   t1_ <- mk_bytes ret ;; Ok t1_) = Ok (le_bytes 16 num).
Proof.
  set (z16 := py_repeat [0] 16).
  pose proof (num_to_le_loop z16 [] z16 num eq_refl) as H.
  cbn [app] in H. rewrite zlen_nil in H. unfold py_enumerate.
  change (0 + zlen z16) with (zlen z16) in H.
  rewrite H. cbn [bind]. unfold mk_bytes. rewrite le_bytes_all_bytes. reflexivity.
Qed.

(* idiom B: ret = bytearray(16); for i in range(16): ret[i] = (num >> (8 * i)) & 0xff *)
Lemma le_bytes_shift_map n : forall v,
  le_bytes n v = map (fun i => Z.land (Z.shiftr v (Z.mul 8 i)) 255) (zrange 0 (Z.of_nat n)).
Proof.
  induction n as [|n IH]; intros v; [reflexivity|].
  rewrite Nat2Z.inj_succ. rewrite zrange_cons by lia. cbn [le_bytes map]. f_equal.
  - rewrite Z.mul_0_r, Z.shiftr_0_r. change 255 with (Z.ones 8). rewrite Z.land_ones by lia. reflexivity.
  - rewrite IH. replace (zrange (0 + 1) (Z.succ (Z.of_nat n))) with (map (fun k => k + 1) (zrange 0 (Z.of_nat n))).
    2:{ unfold zrange. rewrite map_map. replace (Z.to_nat (Z.succ (Z.of_nat n) - (0 + 1))) with (Z.to_nat (Z.of_nat n - 0)) by lia.
        apply map_ext. intros k. lia. }
    rewrite map_map. apply map_ext_in. intros i Hi. apply in_zrange in Hi. f_equal.
    replace (v / 256) with (Z.shiftr v 8) by (rewrite Z.shiftr_div_pow2 by lia; reflexivity).
    rewrite Z.shiftr_shiftr by lia. f_equal. lia.
Qed.

Lemma store_b_loop (f : Z -> Z) : (forall i, is_byte (f i) = true) ->
  forall (suf pre : list Z),
  foldM (fun ret i => ret <- py_store_b ret i (f i) ;; Ok ret)
        (zrange (zlen pre) (zlen pre + zlen suf)) (pre ++ suf)
  = Ok (pre ++ map f (zrange (zlen pre) (zlen pre + zlen suf))).
Proof.
  intros Hf. induction suf as [|y suf IH]; intros pre.
  - change (zlen (@nil Z)) with 0. rewrite Z.add_0_r, zrange_empty by lia. reflexivity.
  - rewrite zrange_cons by zl. cbn [foldM map].
    unfold py_store_b. rewrite Hf. rewrite py_store_app. cbn [bind].
    replace (pre ++ f (zlen pre) :: suf) with ((pre ++ [f (zlen pre)]) ++ suf) by (rewrite <- app_assoc; reflexivity).
    replace (zlen pre + 1) with (zlen (pre ++ [f (zlen pre)])) by zl.
    replace (zlen pre + zlen (y :: suf)) with (zlen (pre ++ [f (zlen pre)]) + zlen suf) by zl.
    rewrite IH. rewrite <- app_assoc. reflexivity.
Qed.

Lemma ser_loop_index num :
  (t1_ <- py_zeros 16 ;;
   ret <- foldM (fun ret i => ret <- py_store_b ret i (Z.land (Z.shiftr num (Z.mul 8 i)) 255) ;; Ok ret) (zrange 0 16) t1_ ;;
   Ok ret) = Ok (le_bytes 16 num).
Proof.
  unfold py_zeros. change (16 <? 0) with false. cbv iota. cbn [bind]. change (Z.to_nat 16) with 16%nat.
  pose proof (store_b_loop (fun i => Z.land (Z.shiftr num (Z.mul 8 i)) 255)
    ltac:(intros i; cbv beta; change 255 with (Z.ones 8); rewrite Z.land_ones by lia; apply is_byte_mod) (repeat 0 16) []) as H.
  cbn [app] in H. change (zlen (@nil Z)) with 0 in H. change (0 + zlen (repeat 0 16)) with 16 in H.
  rewrite H. cbn [bind]. rewrite (le_bytes_shift_map 16). reflexivity.
Qed.

(* ---- divceil ------------------------------------------------------------------ *)
Lemma divceil_16 n : 0 <= n -> divceil n 16 = Ok ((n + 15) / 16).
Proof.
  intros Hn. unfold divceil, py_divmod. cbn [Z.eqb bind]. f_equal.
  pose proof (Z.div_mod n 16 ltac:(lia)) as E. pose proof (Z.mod_pos_bound n 16 eq_refl) as B.
  unfold z_true. destruct (n mod 16 =? 0) eqn:E0; cbn [negb Z.b2z].
  - apply Z.eqb_eq in E0. apply Z.div_unique with (r := 15); lia.
  - apply Z.eqb_neq in E0. apply Z.div_unique with (r := n mod 16 - 1); lia.
Qed.

(* ---- blocks: slicing by index = chunks ---------------------------------------- *)
Lemma py_slice_block (l : list Z) i : 0 <= i ->
  py_slice l (Some (i * 16)) (Some ((i + 1) * 16)) = firstn 16 (skipn (Z.to_nat (i * 16)) l).
Proof.
  intros Hi. rewrite py_slice_nonneg by lia. f_equal. lia.
Qed.

Lemma chunks_fuel_index : forall fuel (l : list Z) q, (length l <= fuel)%nat ->
  q = (zlen l + 15) / 16 ->
  map (fun i => firstn 16 (skipn (Z.to_nat (i * 16)) l)) (zrange 0 q) = chunks_fuel fuel 16 l.
Proof.
  induction fuel as [|fuel IH]; intros l q Hf Hq.
  - destruct l; [|cbn [length] in Hf; lia]. subst q. reflexivity.
  - destruct l as [|x l'].
    + subst q. reflexivity.
    + cbn [chunks_fuel]. remember (x :: l') as l eqn:El.
      assert (Hlen : 1 <= zlen l) by (subst l; zl).
      assert (Hq1 : 1 <= q).
      { subst q. apply Z.div_le_lower_bound; lia. }
      rewrite zrange_cons by lia. cbn [map]. f_equal.
      rewrite <- (IH (skipn 16 l) (q - 1)).
      * replace (zrange (0 + 1) q) with (map (fun k => k + 1) (zrange 0 (q - 1))).
        2:{ unfold zrange. rewrite map_map. replace (Z.to_nat (q - (0 + 1))) with (Z.to_nat (q - 1 - 0)) by lia.
            apply map_ext. intros k. lia. }
        rewrite map_map. apply map_ext_in. intros k Hk. apply in_zrange in Hk.
        rewrite skipn_add. do 2 f_equal. lia.
      * rewrite skipn_length. subst l. cbn [length] in *. lia.
      * subst q. destruct (Z_lt_le_dec (zlen l) 16) as [Hs|Hs].
        -- rewrite skipn_all2 by (unfold zlen in *; lia). change (zlen (@nil Z)) with 0.
           replace ((zlen l + 15) / 16) with 1; [reflexivity|].
           apply Z.div_unique with (r := zlen l - 1); lia.
        -- assert (zlen (skipn 16 l) = zlen l - 16) as -> by (unfold zlen in *; rewrite skipn_length; lia).
           replace (zlen l + 15) with ((zlen l - 16 + 15) + 1 * 16) by lia.
           rewrite Z.div_add by lia. lia.
Qed.

(* ---- Horner evaluation -------------------------------------------------------- *)
Section Horner.
  Variable r : Z.
  Let step (acc c : Z) : Z := (r * (acc + c)) mod P1305.

  Lemma horner_sum cs : forall a,
    (fold_left step cs a) mod P1305 = (a * r ^ zlen cs + poly_sum r cs) mod P1305.
  Proof.
    induction cs as [|c cs IH]; intros a.
    - rewrite zlen_nil. cbn [fold_left poly_sum]. f_equal. change (r ^ 0) with 1. lia.
    - cbn [fold_left poly_sum]. rewrite IH. unfold step.
      rewrite zlen_cons. rewrite Nat2Z.inj_succ. fold (zlen cs).
      rewrite <- Z.add_mod_idemp_l by (unfold P1305; lia).
      rewrite Z.mul_mod_idemp_l by (unfold P1305; lia).
      rewrite Z.add_mod_idemp_l by (unfold P1305; lia).
      f_equal. rewrite Z.add_comm with (n := 1). rewrite <- Z.add_1_r.
      rewrite !Z.pow_add_r by (pose proof (zlen_nonneg cs); lia). ring.
  Qed.

  Lemma horner_reduced cs : fold_left step cs 0 = fold_left step cs 0 mod P1305.
  Proof.
    assert (G : forall a, a = a mod P1305 -> fold_left step cs a = fold_left step cs a mod P1305).
    { induction cs as [|c cs' IH]; intros a Ha; cbn [fold_left]; [exact Ha|].
      apply IH. unfold step. rewrite Z.mod_mod by (unfold P1305; lia). reflexivity. }
    apply G. reflexivity.
  Qed.
End Horner.

Lemma fold_left_ext {A B} (f g : A -> B -> A) l a : (forall a x, f a x = g a x) -> fold_left f l a = fold_left g l a.
Proof. intros H. revert a. induction l as [|x l IH]; intros a; cbn [fold_left]; [reflexivity|]. rewrite H. apply IH. Qed.

(* ---- the whole of create_tag -------------------------------------------------- *)
(* block loop, idiom B: for start in range(0, len(data), 16) *)
Lemma py_range_16 n : 0 <= n -> py_range 0 n 16 = map (fun k => k * 16) (zrange 0 ((n + 15) / 16)).
Proof.
  intros Hn. unfold py_range. change (0 <? 16) with true. cbv iota.
  unfold zrange. rewrite map_map. rewrite !Z.sub_0_r. replace (n + 16 - 1) with (n + 15) by lia.
  apply map_ext. intros k. lia.
Qed.

Lemma poly_create_tag_ok st data :
  poly_create_tag st data =
  let acc := fold_left (fun acc c => (poly_r st * (acc + c)) mod P1305)
                       (map block_num (chunks 16 data)) (poly_acc st) + poly_s st in
  Ok (mkPoly1305 acc (poly_r st) (poly_s st), le_bytes 16 acc).
Proof.
  assert (Hch : forall (g : Z -> Z), (forall i, 0 <= i -> g i = block_num (firstn 16 (skipn (Z.to_nat (i * 16)) data))) ->
     forall r a0, fold_left (fun acc i => (r * (acc + g i)) mod P1305) (zrange 0 ((zlen data + 15) / 16)) a0 =
                  fold_left (fun acc c => (r * (acc + c)) mod P1305) (map block_num (chunks 16 data)) a0).
  { intros g Hg r a0. unfold chunks.
    rewrite <- (chunks_fuel_index (length data) data ((zlen data + 15) / 16)) by (reflexivity || lia).
    rewrite map_map, fold_left_map. revert a0.
    assert (forall l a0, (forall i, In i l -> 0 <= i) ->
              fold_left (fun acc i => (r * (acc + g i)) mod P1305) l a0 =
              fold_left (fun a x => (r * (a + block_num (firstn 16 (skipn (Z.to_nat (x * 16)) data)))) mod P1305) l a0) as G.
    { induction l as [|i l IH]; intros a0 Hl; [reflexivity|]. cbn [fold_left]. rewrite Hg by (apply Hl; left; reflexivity).
      apply IH. intros j Hj. apply Hl. right. exact Hj. }
    intros a0. apply G. intros i Hi. apply in_zrange in Hi. lia. }
  unfold poly_create_tag, poly_le_bytes_to_num, poly_num_to_16_le_bytes. cbv zeta.
  first
  [ (* idiom A: block index up to divceil(len, 16); accumulator updated in two statements *)
    rewrite divceil_16 by apply zlen_nonneg; cbn [bind];
    rewrite (foldM_ok_ext _ (fun acc i =>
       (poly_r st * (acc + block_num (firstn 16 (skipn (Z.to_nat (i * 16)) data)))) mod P1305))
      by (intros a i Hi; apply in_zrange in Hi; rewrite le_loop_index; cbn [bind]; rewrite py_slice_block by lia; reflexivity);
    cbn [bind]; rewrite ser_loop_shift; cbn [bind];
    rewrite <- (Hch (fun i => block_num (firstn 16 (skipn (Z.to_nat (i * 16)) data))) ltac:(reflexivity));
    reflexivity
  | (* idiom B: start offsets range(0, len, 16); accumulator updated in one expression *)
    rewrite py_range_16 by apply zlen_nonneg; rewrite fold_left_map;
    rewrite (fold_left_ext _ (fun acc i =>
       (poly_r st * (acc + le_num (py_slice data (Some (i * 16)) (Some (i * 16 + 16)) ++ [1]))) mod P1305))
      by (intros; rewrite le_loop_rev; reflexivity);
    rewrite (Hch (fun i => le_num (py_slice data (Some (i * 16)) (Some (i * 16 + 16)) ++ [1])))
      by (intros i Hi; unfold block_num; do 2 f_equal; rewrite py_slice_nonneg by lia; f_equal; lia);
    rewrite ser_loop_index; reflexivity ].
Qed.

Lemma le_bytes_mod n v : le_bytes n (v mod 256 ^ Z.of_nat n) = le_bytes n v.
Proof.
  revert v. induction n as [|n IH]; intros v; [reflexivity|].
  cbn [le_bytes]. rewrite Nat2Z.inj_succ, Z.pow_succ_r by lia.
  assert (Hp : 0 < 256 ^ Z.of_nat n) by (apply Z.pow_pos_nonneg; lia).
  rewrite Z.rem_mul_r by lia.
  f_equal.
  - rewrite (Z.mul_comm 256), Z.mod_add by lia. apply Z.mod_mod. lia.
  - rewrite (Z.mul_comm 256), Z.div_add by lia.
    rewrite Z.div_small by (apply Z.mod_pos_bound; lia). cbn [Z.add]. apply IH.
Qed.

Lemma poly_init_ok key : zlen key = 32 ->
  poly_init key = Ok (mkPoly1305 0 (clamp_r (le_num (firstn 16 key))) (le_num (skipn 16 key))).
Proof.
  intros H. unfold poly_init, poly_le_bytes_to_num. rewrite H. cbn [Z.eqb Pos.eqb negb]. cbv zeta.
  first [ rewrite !le_loop_index; cbn [bind] | rewrite !le_loop_rev ].
  rewrite !py_slice_nonneg by lia. cbn [Z.sub Z.to_nat Pos.to_nat Pos.iter_op Z.opp Z.add Z.pos_sub Pos.pred_double Z.succ_double Z.pred_double Z.double skipn plus].
  change (Pos.to_nat 16) with 16%nat.
  rewrite (firstn_all2 (n := 16) (skipn 16 key)) by (rewrite skipn_length; unfold zlen in H; lia).
  reflexivity.
Qed.

Lemma poly_init_bad key : zlen key <> 32 -> poly_init key = Err ValueError.
Proof.
  intros H. unfold poly_init. destruct (zlen key =? 32) eqn:E; [apply Z.eqb_eq in E; contradiction|].
  reflexivity.
Qed.

(* Poly1305(key).create_tag(msg) *)
Definition poly1305_code (key msg : list Z) : res (list Z) :=
  p <- poly_init key ;; r <- poly_create_tag p msg ;; Ok (snd r).

Lemma poly1305_eq_spec_all key msg :
  (zlen key = 32 -> poly1305_code key msg = Ok (poly1305 key msg)) /\
  (zlen key <> 32 -> poly1305_code key msg = Err ValueError).
Proof.
  split; intros H; unfold poly1305_code.
  - rewrite poly_init_ok by exact H. cbn [bind]. rewrite poly_create_tag_ok.
    cbn [bind snd poly_acc poly_r poly_s]. f_equal.
    unfold poly1305, poly1305_acc.
    set (r := clamp_r (le_num (firstn 16 key))). set (s := le_num (skipn 16 key)).
    set (cs := map block_num (chunks 16 msg)).
    change (2 ^ 128) with (256 ^ Z.of_nat 16). rewrite le_bytes_mod. f_equal. f_equal.
    rewrite (horner_reduced r cs), (horner_sum r cs 0). reflexivity.
  - rewrite poly_init_bad by exact H. reflexivity.
Qed.

(* Poly1305(key).create_tag(msg) in the two-step form used by callers *)
Lemma poly_tag_ok key msg : zlen key = 32 ->
  exists st, poly_init key = Ok st /\ exists st', poly_create_tag st msg = Ok (st', poly1305 key msg).
Proof.
  intros H. pose proof (proj1 (poly1305_eq_spec_all key msg) H) as E. unfold poly1305_code in E.
  rewrite poly_init_ok in * by exact H. eexists. split; [reflexivity|].
  cbn [bind] in E. destruct (poly_create_tag _ msg) as [[st' t]|e]; [|discriminate].
  cbn [bind snd] in E. injection E as ->. eexists. reflexivity.
Qed.
