(* Poly1305: the generated code (Gen/C09_Poly1305.v) equals RFC 8439 2.5 (Spec/C09_Poly1305.v)
   for messages of any length. *)
From Coq Require Import ZArith List Bool Lia.
From TV Require Import Base.Prelude Base.C09_Lib Gen.C09_Poly1305 Spec.C09_Poly1305.
Import ListNotations.
Open Scope Z_scope.

Ltac zl := unfold zlen in *; rewrite ?app_length in *; cbn [length] in *; lia.

(* ---- le_bytes_to_num = le_num ------------------------------------------------ *)
Lemma le_fold_right pre d :
  fold_right (fun i acc => Z.shiftl acc 8 + nthZ (pre ++ d) i) 0
             (zrange (zlen pre) (zlen pre + zlen d)) = le_num d.
Proof.
  revert pre. induction d as [|x d IH]; intros pre.
  - change (zlen (@nil Z)) with 0. rewrite Z.add_0_r. rewrite zrange_empty by lia. reflexivity.
  - rewrite zrange_cons by zl.
    cbn [fold_right le_num].
    replace (pre ++ x :: d) with ((pre ++ [x]) ++ d) by (rewrite <- app_assoc; reflexivity).
    replace (zlen pre + 1) with (zlen (pre ++ [x])) by zl.
    replace (zlen pre + zlen (x :: d)) with (zlen (pre ++ [x]) + zlen d)
      by zl.
    rewrite IH.
    unfold nthZ. rewrite <- app_assoc. cbn [app].
    rewrite app_nth2 by (unfold zlen; lia).
    replace (Z.to_nat (zlen pre) - length pre)%nat with 0%nat by zl.
    cbn [nth]. rewrite Z.shiftl_mul_pow2 by lia. change (2 ^ 8) with 256. lia.
Qed.

Lemma fold_left_rev {A B} (g : A -> B -> A) l a :
  fold_left g (rev l) a = fold_right (fun y x => g x y) a l.
Proof.
  symmetry. rewrite <- (rev_involutive l) at 1.
  apply (fold_left_rev_right (fun y x => g x y)).
Qed.

Lemma poly_le_bytes_to_num_ok data : poly_le_bytes_to_num data = Ok (le_num data).
Proof.
  unfold poly_le_bytes_to_num.
  rewrite py_range_down by apply zlen_nonneg.
  rewrite (foldM_ok_ext _ (fun ret i => Z.shiftl ret 8 + nthZ data i)).
  - cbn [bind]. f_equal. rewrite fold_left_rev.
    exact (le_fold_right [] data).
  - intros a i Hi. apply in_rev in Hi. apply in_zrange in Hi.
    rewrite py_index_ok by lia. reflexivity.
Qed.

(* ---- num_to_16_le_bytes = le_bytes 16 ---------------------------------------- *)
Lemma set_nth_app {A} (pre : list A) x suf v :
  set_nth (pre ++ x :: suf) (length pre) v = pre ++ v :: suf.
Proof. induction pre as [|p pre IH]; cbn [app length set_nth]; [reflexivity|]. rewrite IH. reflexivity. Qed.

Lemma py_store_app {A} (pre : list A) x suf v :
  py_store (pre ++ x :: suf) (zlen pre) v = Ok (pre ++ v :: suf).
Proof.
  unfold py_store. pose proof (zlen_nonneg pre) as Hp. pose proof (zlen_nonneg suf) as Hs.
  destruct (zlen pre <? 0) eqn:E; [lia|].
  rewrite zlen_app, zlen_cons.
  destruct ((0 <=? zlen pre) && (zlen pre <? zlen pre + (1 + zlen suf))) eqn:E2; [|lia].
  f_equal. unfold zlen. rewrite Nat2Z.id. apply set_nth_app.
Qed.

Lemma all_bytes_app a b : all_bytes (a ++ b) = all_bytes a && all_bytes b.
Proof. unfold all_bytes. apply forallb_app. Qed.

Lemma is_byte_mod x : is_byte (x mod 256) = true.
Proof.
  unfold is_byte. pose proof (Z.mod_pos_bound x 256 eq_refl).
  apply andb_true_iff. split; [apply Z.leb_le|apply Z.ltb_lt]; lia.
Qed.

Lemma le_bytes_all_bytes n v : all_bytes (le_bytes n v) = true.
Proof.
  revert v. induction n as [|n IH]; intros v; cbn [le_bytes]; [reflexivity|].
  unfold all_bytes in *. cbn [forallb]. rewrite is_byte_mod, IH. reflexivity.
Qed.

Lemma le_bytes_length n v : length (le_bytes n v) = n.
Proof. revert v. induction n as [|n IH]; intros v; cbn [le_bytes length]; [reflexivity|]. rewrite IH. reflexivity. Qed.

Lemma num_to_le_loop (suf : list Z) : forall pre (suf' : list Z) num, length suf' = length suf ->
  foldM (fun '(ret, num) '(i, _) =>
           ret <- py_store ret i (Z.land num 255) ;;
           let num := Z.shiftr num 8 in Ok (ret, num))
        (combine (zrange (zlen pre) (zlen pre + zlen suf)) suf) (pre ++ suf', num)
  = Ok (pre ++ le_bytes (length suf) num, num / 256 ^ zlen suf).
Proof.
  induction suf as [|y suf IH]; intros pre suf' num Hl.
  - destruct suf'; [|discriminate]. change (zlen (@nil Z)) with 0. rewrite Z.add_0_r. rewrite zrange_empty by lia.
    cbn [combine foldM le_bytes length]. change (256 ^ 0) with 1. rewrite Z.div_1_r. reflexivity.
  - destruct suf' as [|x suf']; [discriminate|]. injection Hl as Hl.
    rewrite zrange_cons by zl.
    cbn [combine foldM]. rewrite py_store_app. cbn [bind].
    replace (pre ++ Z.land num 255 :: suf') with ((pre ++ [Z.land num 255]) ++ suf')
      by (rewrite <- app_assoc; reflexivity).
    replace (zlen pre + 1) with (zlen (pre ++ [Z.land num 255])) by zl.
    replace (zlen pre + zlen (y :: suf)) with (zlen (pre ++ [Z.land num 255]) + zlen suf)
      by zl.
    rewrite IH by exact Hl. f_equal. f_equal.
    + rewrite <- app_assoc. cbn [app length le_bytes]. f_equal. f_equal.
      * change 255 with (Z.ones 8). rewrite Z.land_ones by lia. reflexivity.
      * rewrite Z.shiftr_div_pow2 by lia. reflexivity.
    + rewrite Z.shiftr_div_pow2 by lia. rewrite zlen_cons.
      rewrite Z.pow_add_r by (pose proof (zlen_nonneg suf); lia).
      rewrite Z.div_div by (try apply Z.pow_pos_nonneg; pose proof (zlen_nonneg suf); lia).
      reflexivity.
Qed.

Lemma poly_num_to_16_le_bytes_ok num : poly_num_to_16_le_bytes num = Ok (le_bytes 16 num).
Proof.
  unfold poly_num_to_16_le_bytes.
  set (z16 := py_repeat [0] 16).
  pose proof (num_to_le_loop z16 [] z16 num eq_refl) as H.
  cbn [app] in H. rewrite zlen_nil in H. unfold py_enumerate.
  change (0 + zlen z16) with (zlen z16) in H.
  rewrite H. cbn [bind]. unfold mk_bytes. rewrite le_bytes_all_bytes. reflexivity.
Qed.

(* ---- divceil ------------------------------------------------------------------ *)
Lemma divceil_16 n : 0 <= n -> divceil n 16 = Ok ((n + 15) / 16).
Proof.
  intros Hn. unfold divceil, py_divmod. cbn [Z.eqb bind]. f_equal.
  pose proof (Z.div_mod n 16 ltac:(lia)) as E. pose proof (Z.mod_pos_bound n 16 eq_refl) as B.
  unfold z_true. destruct (n mod 16 =? 0) eqn:E0; cbn [negb Z.b2z].
  - apply Z.eqb_eq in E0. apply Z.div_unique with (r := 15); lia.
  - apply Z.eqb_neq in E0. apply Z.div_unique with (r := n mod 16 - 1); lia.
Qed.

(* ---- blocks: slicing by index = chunks ---------------------------------------- *)
Lemma py_slice_block (l : list Z) i : 0 <= i ->
  py_slice l (Some (i * 16)) (Some ((i + 1) * 16)) = firstn 16 (skipn (Z.to_nat (i * 16)) l).
Proof.
  intros Hi. rewrite py_slice_nonneg by lia. f_equal. lia.
Qed.

Lemma chunks_fuel_index : forall fuel (l : list Z) q, (length l <= fuel)%nat ->
  q = (zlen l + 15) / 16 ->
  map (fun i => firstn 16 (skipn (Z.to_nat (i * 16)) l)) (zrange 0 q) = chunks_fuel fuel 16 l.
Proof.
  induction fuel as [|fuel IH]; intros l q Hf Hq.
  - destruct l; [|cbn [length] in Hf; lia]. subst q. reflexivity.
  - destruct l as [|x l'].
    + subst q. reflexivity.
    + cbn [chunks_fuel]. remember (x :: l') as l eqn:El.
      assert (Hlen : 1 <= zlen l) by (subst l; zl).
      assert (Hq1 : 1 <= q).
      { subst q. apply Z.div_le_lower_bound; lia. }
      rewrite zrange_cons by lia. cbn [map]. f_equal.
      rewrite <- (IH (skipn 16 l) (q - 1)).
      * replace (zrange (0 + 1) q) with (map (fun k => k + 1) (zrange 0 (q - 1))).
        2:{ unfold zrange. rewrite map_map. replace (Z.to_nat (q - (0 + 1))) with (Z.to_nat (q - 1 - 0)) by lia.
            apply map_ext. intros k. lia. }
        rewrite map_map. apply map_ext_in. intros k Hk. apply in_zrange in Hk.
        rewrite skipn_add. do 2 f_equal. lia.
      * rewrite skipn_length. subst l. cbn [length] in *. lia.
      * subst q. destruct (Z_lt_le_dec (zlen l) 16) as [Hs|Hs].
        -- rewrite skipn_all2 by (unfold zlen in *; lia). change (zlen (@nil Z)) with 0.
           replace ((zlen l + 15) / 16) with 1; [reflexivity|].
           apply Z.div_unique with (r := zlen l - 1); lia.
        -- assert (zlen (skipn 16 l) = zlen l - 16) as -> by (unfold zlen in *; rewrite skipn_length; lia).
           replace (zlen l + 15) with ((zlen l - 16 + 15) + 1 * 16) by lia.
           rewrite Z.div_add by lia. lia.
Qed.

(* ---- Horner evaluation -------------------------------------------------------- *)
Section Horner.
  Variable r : Z.
  Let step (acc c : Z) : Z := (r * (acc + c)) mod P1305.

  Lemma horner_sum cs : forall a,
    (fold_left step cs a) mod P1305 = (a * r ^ zlen cs + poly_sum r cs) mod P1305.
  Proof.
    induction cs as [|c cs IH]; intros a.
    - rewrite zlen_nil. cbn [fold_left poly_sum]. f_equal. change (r ^ 0) with 1. lia.
    - cbn [fold_left poly_sum]. rewrite IH. unfold step.
      rewrite zlen_cons. rewrite Nat2Z.inj_succ. fold (zlen cs).
      rewrite <- Z.add_mod_idemp_l by (unfold P1305; lia).
      rewrite Z.mul_mod_idemp_l by (unfold P1305; lia).
      rewrite Z.add_mod_idemp_l by (unfold P1305; lia).
      f_equal. rewrite Z.add_comm with (n := 1). rewrite <- Z.add_1_r.
      rewrite !Z.pow_add_r by (pose proof (zlen_nonneg cs); lia). ring.
  Qed.

  Lemma horner_reduced cs : fold_left step cs 0 = fold_left step cs 0 mod P1305.
  Proof.
    assert (G : forall a, a = a mod P1305 -> fold_left step cs a = fold_left step cs a mod P1305).
    { induction cs as [|c cs' IH]; intros a Ha; cbn [fold_left]; [exact Ha|].
      apply IH. unfold step. rewrite Z.mod_mod by (unfold P1305; lia). reflexivity. }
    apply G. reflexivity.
  Qed.
End Horner.

(* ---- the whole of create_tag -------------------------------------------------- *)
Lemma poly_create_tag_ok st data :
  poly_create_tag st data =
  let acc := fold_left (fun acc c => (poly_r st * (acc + c)) mod P1305)
                       (map block_num (chunks 16 data)) (poly_acc st) + poly_s st in
  Ok (mkPoly1305 acc (poly_r st) (poly_s st), le_bytes 16 acc).
Proof.
  unfold poly_create_tag.
  rewrite divceil_16 by apply zlen_nonneg. cbn [bind].
  rewrite (foldM_ok_ext _ (fun acc i =>
     (poly_r st * (acc + block_num (firstn 16 (skipn (Z.to_nat (i * 16)) data)))) mod P1305)).
  2:{ intros a i Hi. apply in_zrange in Hi. rewrite poly_le_bytes_to_num_ok. cbn [bind].
      rewrite py_slice_block by lia. reflexivity. }
  cbn [bind]. rewrite poly_num_to_16_le_bytes_ok. cbn [bind].
  unfold chunks. rewrite <- (chunks_fuel_index (length data) data ((zlen data + 15) / 16)) by (reflexivity || lia).
  rewrite map_map. rewrite fold_left_map.
  reflexivity.
Qed.

Lemma le_bytes_mod n v : le_bytes n (v mod 256 ^ Z.of_nat n) = le_bytes n v.
Proof.
  revert v. induction n as [|n IH]; intros v; [reflexivity|].
  cbn [le_bytes]. rewrite Nat2Z.inj_succ, Z.pow_succ_r by lia.
  assert (Hp : 0 < 256 ^ Z.of_nat n) by (apply Z.pow_pos_nonneg; lia).
  rewrite Z.rem_mul_r by lia.
  f_equal.
  - rewrite (Z.mul_comm 256), Z.mod_add by lia. apply Z.mod_mod. lia.
  - rewrite (Z.mul_comm 256), Z.div_add by lia.
    rewrite Z.div_small by (apply Z.mod_pos_bound; lia). cbn [Z.add]. apply IH.
Qed.

Lemma poly_init_ok key : zlen key = 32 ->
  poly_init key = Ok (mkPoly1305 0 (clamp_r (le_num (firstn 16 key))) (le_num (skipn 16 key))).
Proof.
  intros H. unfold poly_init. rewrite H. cbn [Z.eqb Pos.eqb negb].
  rewrite !poly_le_bytes_to_num_ok. cbn [bind].
  rewrite !py_slice_nonneg by lia. cbn [Z.sub Z.to_nat Pos.to_nat Pos.iter_op Z.opp Z.add Z.pos_sub Pos.pred_double Z.succ_double Z.pred_double Z.double skipn plus].
  change (Pos.to_nat 16) with 16%nat.
  rewrite (firstn_all2 (n := 16) (skipn 16 key)) by (rewrite skipn_length; unfold zlen in H; lia).
  reflexivity.
Qed.

Lemma poly_init_bad key : zlen key <> 32 -> poly_init key = Err ValueError.
Proof.
  intros H. unfold poly_init. destruct (zlen key =? 32) eqn:E; [apply Z.eqb_eq in E; contradiction|].
  reflexivity.
Qed.

(* Poly1305(key).create_tag(msg) *)
Definition poly1305_code (key msg : list Z) : res (list Z) :=
  p <- poly_init key ;; r <- poly_create_tag p msg ;; Ok (snd r).

Lemma poly1305_eq_spec_all key msg :
  (zlen key = 32 -> poly1305_code key msg = Ok (poly1305 key msg)) /\
  (zlen key <> 32 -> poly1305_code key msg = Err ValueError).
Proof.
  split; intros H; unfold poly1305_code.
  - rewrite poly_init_ok by exact H. cbn [bind]. rewrite poly_create_tag_ok.
    cbn [bind snd poly_acc poly_r poly_s]. f_equal.
    unfold poly1305, poly1305_acc.
    set (r := clamp_r (le_num (firstn 16 key))). set (s := le_num (skipn 16 key)).
    set (cs := map block_num (chunks 16 msg)).
    change (2 ^ 128) with (256 ^ Z.of_nat 16). rewrite le_bytes_mod. f_equal. f_equal.
    rewrite (horner_reduced r cs), (horner_sum r cs 0). reflexivity.
  - rewrite poly_init_bad by exact H. reflexivity.
Qed.

(* Poly1305(key).create_tag(msg) in the two-step form used by callers *)
Lemma poly_tag_ok key msg : zlen key = 32 ->
  exists st, poly_init key = Ok st /\ exists st', poly_create_tag st msg = Ok (st', poly1305 key msg).
Proof.
  intros H. pose proof (proj1 (poly1305_eq_spec_all key msg) H) as E. unfold poly1305_code in E.
  rewrite poly_init_ok in * by exact H. eexists. split; [reflexivity|].
  cbn [bind] in E. destruct (poly_create_tag _ msg) as [[st' t]|e]; [|discriminate].
  cbn [bind snd] in E. injection E as ->. eexists. reflexivity.
Qed.
