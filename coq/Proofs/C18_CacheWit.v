(* Regression histories and the one residue of the sequential statements.

   Before the fix "SessionCache must not drop a live entry when a session ID is stored twice"
   (tlslite-ng commit 7684882) the statements of Props/C18.v held only for pairwise distinct
   stored IDs and were REFUTED in general by the two histories below (then:
   cache_refines_spec_refuted, cache_no_internal_error_refuted with dup_history: the lookup of
   id 1 raised KeyError although session 11 was live, and the next store raised KeyError from
   inside __setitem__; cache_size_bound_refuted with leak_history: 3 dict entries in a cache
   with maxEntries = 2, growing without bound).  On the repaired code both histories satisfy the
   specification; they are kept as regression cases and replayed on the real class every run. *)
From Coq Require Import ZArith List Bool Lia.
From TV Require Import Base.Prelude Base.C18_Lib Model.C18_Cache Spec.C18_CacheSpec.
Import ListNotations.
Open Scope Z_scope.

Definition dup_history : history :=
  [(0, Put 1 10); (0, Put 1 11); (0, Put 2 12); (0, Get 1); (0, Put 3 13)].

Definition leak_history : history :=
  [(0, Put 1 10); (0, Put 1 11); (0, Put 2 12);
   (0, Put 3 13); (0, Put 3 14); (0, Put 4 15);
   (0, Put 5 16)].

Lemma dup_history_now_ok :
  outcomes 3 100 dup_history = [ORet None; ORet None; ORet None; ORet (Some 11); ORet None] /\
  spec_outcomes 3 100 dup_history = [ORet None; ORet None; ORet None; ORet (Some 11); ORet None].
Proof. split; vm_compute; reflexivity. Qed.

Lemma leak_history_now_ok : zlen (c_dict (final_cache 2 100 leak_history)) = 1.
Proof. vm_compute. reflexivity. Qed.

(* Residue: the guard 1 <= maxEntries of the full theorems is necessary.  SessionCache(0) has an
   empty circular list: every store inserts into the dict and then raises IndexError from
   `self.entriesList[self.lastIndex] = ...` (the constructor accepts 0 silently). *)
Lemma zero_capacity_refuted : exists maxAge h,
  monotone h /\ all_documented h (outcomes 0 maxAge h) = false /\
  0 - 1 < zlen (c_dict (final_cache 0 maxAge h)).
Proof.
  exists 100, [(0, Put 1 10)]. split; [exact I|]. split; vm_compute; reflexivity.
Qed.
