(* Witness histories (found by the correspondence search, harness/props/C18.py, then
   minimised): storing the same session ID twice breaks every guarantee of the cache.
   Evaluated on the model by vm_compute; the harness replays the same histories on the real
   SessionCache on every run and compares state and outcome after every call. *)
From Coq Require Import ZArith List Bool Lia.
From TV Require Import Base.Prelude Base.C18_Lib Model.C18_Cache Spec.C18_CacheSpec.
Import ListNotations.
Open Scope Z_scope.

(* maxEntries = 3, maxAge = 100, clock constant.
   id 1 is stored twice; the third store evicts the OLD slot of id 1 and with it the live
   dict entry: the lookup fails although session 11 is the newest-but-one entry; the next
   store then finds the stale second slot and raises KeyError from inside __setitem__. *)
Definition dup_history : history :=
  [(0, Put 1 10); (0, Put 1 11); (0, Put 2 12); (0, Get 1); (0, Put 3 13)].

Lemma dup_history_monotone : monotone dup_history.
Proof. cbn. lia. Qed.

Lemma dup_history_outcomes :
  outcomes 3 100 dup_history = [ORet None; ORet None; ORet None; OExc KeyError; OExc KeyError] /\
  spec_outcomes 3 100 dup_history = [ORet None; ORet None; ORet None; ORet (Some 11); ORet None].
Proof. split; vm_compute; reflexivity. Qed.

Lemma refines_refuted : exists n maxAge h,
  1 <= n /\ monotone h /\ outcomes n maxAge h <> spec_outcomes n maxAge h.
Proof.
  exists 3, 100, dup_history. split; [lia|]. split; [exact dup_history_monotone|].
  destruct dup_history_outcomes as [-> ->]. discriminate.
Qed.

Lemma no_internal_error_refuted : exists n maxAge h,
  1 <= n /\ monotone h /\ all_documented h (outcomes n maxAge h) = false.
Proof.
  exists 3, 100, dup_history. split; [lia|]. split; [exact dup_history_monotone|]. vm_compute. reflexivity.
Qed.

(* maxEntries = 2: every (x, x, y) triple of stores leaks one dict entry for ever *)
Definition leak_history : history :=
  [(0, Put 1 10); (0, Put 1 11); (0, Put 2 12);
   (0, Put 3 13); (0, Put 3 14); (0, Put 4 15);
   (0, Put 5 16)].

Lemma size_bound_refuted : exists n maxAge h,
  1 <= n /\ monotone h /\ n < zlen (c_dict (final_cache n maxAge h)).
Proof.
  exists 2, 100, leak_history. split; [lia|]. split; [cbn; lia|]. vm_compute. reflexivity.
Qed.
