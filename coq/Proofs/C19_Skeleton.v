(* C19 -- the structure of validate() that the hand model was written against, as facts read from the
   FLATTENED and NORMALISED closure of validate() (translator/c19_astnorm.py: helper methods inlined, aliases and
   single-use locals removed, negations pushed inwards, literal loops unrolled, messages dropped), so that
   behaviour-preserving rewrites (extracting or merging helpers, renaming locals, De Morgan, reworded texts) leave
   them unchanged.  Gen/SettingsTables.v carries the same lists re-read from /repo on every run; the theorem
   model_skeleton_matches_source (Props/C19.v) fails as soon as a field is added/dropped/copied instead of aliased
   in the copy phase, a new in-place list mutation appears or disappears, or a re-binding of an attribute of `other`
   to a new object appears/disappears (e.g. the copy made by _sanity_check_implementations since /repo 851aa29). *)
From Coq Require Import List String.
From TV Require Import Gen.SettingsTables.
Import ListNotations.
Open Scope string_scope.

Definition expected_copies : list (string * string) := [
  ("alias", "cipherNames");
  ("alias", "macNames");
  ("alias", "keyExchangeNames");
  ("alias", "cipherImplementations");
  ("alias", "minVersion");
  ("alias", "maxVersion");
  ("alias", "versions");
  ("alias", "useExtendedMasterSecret");
  ("alias", "requireExtendedMasterSecret");
  ("alias", "useExperimentalTackExtension");
  ("alias", "sendFallbackSCSV");
  ("alias", "useEncryptThenMAC");
  ("alias", "usePaddingExtension");
  ("alias", "ec_point_formats");
  ("alias", "padding_cb");
  ("alias", "ticketKeys");
  ("alias", "ticketCipher");
  ("alias", "ticketLifetime");
  ("alias", "max_early_data");
  ("alias", "ticket_count");
  ("alias", "record_size_limit");
  ("alias", "certificate_compression_send");
  ("alias", "certificate_compression_receive");
  ("alias", "dc_sig_algs");
  ("alias", "dc_valid_time");
  ("alias", "minKeySize");
  ("alias", "maxKeySize");
  ("alias", "certificateTypes");
  ("alias", "rsaSigHashes");
  ("alias", "rsaSchemes");
  ("alias", "dsaSigHashes");
  ("alias", "ecdsaSigHashes");
  ("alias", "more_sig_schemes");
  ("alias", "virtual_hosts");
  ("alias", "eccCurves");
  ("alias", "dhParams");
  ("alias", "dhGroups");
  ("alias", "defaultCurve");
  ("alias", "keyShares");
  ("alias", "use_heartbeat_extension");
  ("alias", "heartbeat_response_callback");
  ("alias", "pskConfigs");
  ("alias", "psk_modes")].
Definition expected_mutation_sites : list string := [
  "setitem:other.cipherImplementations[:]";
  "setitem:other.cipherImplementations[:]";
  "setitem:other.cipherNames[:]"].
Definition expected_rebinds : list string := [
  "versions:ListComp";
  "macNames:ListComp";
  "cipherImplementations:Subscript";
  "cipherNames:Subscript"].
Definition expected_init_attrs : list string := ["minKeySize"; "maxKeySize"; "rsaSigHashes"; "rsaSchemes"; "dsaSigHashes"; "virtual_hosts"; "eccCurves"; "dhParams"; "dhGroups"; "defaultCurve"; "keyShares"; "padding_cb"; "use_heartbeat_extension"; "heartbeat_response_callback"; "certificateTypes"; "useExperimentalTackExtension"; "sendFallbackSCSV"; "useEncryptThenMAC"; "ecdsaSigHashes"; "more_sig_schemes"; "usePaddingExtension"; "useExtendedMasterSecret"; "requireExtendedMasterSecret"; "pskConfigs"; "psk_modes"; "ticketKeys"; "ticketCipher"; "ticketLifetime"; "max_early_data"; "ticket_count"; "record_size_limit"; "ec_point_formats"; "certificate_compression_send"; "certificate_compression_receive"; "dc_sig_algs"; "dc_valid_time"; "minVersion"; "maxVersion"; "versions"; "cipherNames"; "macNames"; "keyExchangeNames"; "cipherImplementations"].

Lemma skeleton_ok :
  gen_copies = expected_copies /\ gen_mutation_sites = expected_mutation_sites /\
  gen_rebinds = expected_rebinds /\ gen_init_attrs = expected_init_attrs.
Proof. repeat split; reflexivity. Qed.
