(* C19 -- the structure of the copy phase and of validate() that the hand model was written against.
   Gen/SettingsTables.v carries the same lists re-read from the ast of /repo on every run; the theorem
   model_skeleton_matches_source (Props/C19.v) fails as soon as a field is added/dropped/copied instead
   of aliased, a call is reordered, a new in-place list mutation appears, or a re-binding of an attribute
   of `other` to a new object appears/disappears (e.g. the copy made by _sanity_check_implementations
   since /repo 851aa29). *)
From Coq Require Import List String.
From TV Require Import Gen.SettingsTables.
Import ListNotations.
Open Scope string_scope.

Definition expected_copies : list (string * string * string) := [
  ("_copy_cipher_settings", "alias", "cipherNames");
  ("_copy_cipher_settings", "alias", "macNames");
  ("_copy_cipher_settings", "alias", "keyExchangeNames");
  ("_copy_cipher_settings", "alias", "cipherImplementations");
  ("_copy_cipher_settings", "alias", "minVersion");
  ("_copy_cipher_settings", "alias", "maxVersion");
  ("_copy_cipher_settings", "alias", "versions");
  ("_copy_extension_settings", "alias", "useExtendedMasterSecret");
  ("_copy_extension_settings", "alias", "requireExtendedMasterSecret");
  ("_copy_extension_settings", "alias", "useExperimentalTackExtension");
  ("_copy_extension_settings", "alias", "sendFallbackSCSV");
  ("_copy_extension_settings", "alias", "useEncryptThenMAC");
  ("_copy_extension_settings", "alias", "usePaddingExtension");
  ("_copy_extension_settings", "alias", "ec_point_formats");
  ("_copy_extension_settings", "alias", "padding_cb");
  ("_copy_extension_settings", "alias", "ticketKeys");
  ("_copy_extension_settings", "alias", "ticketCipher");
  ("_copy_extension_settings", "alias", "ticketLifetime");
  ("_copy_extension_settings", "alias", "max_early_data");
  ("_copy_extension_settings", "alias", "ticket_count");
  ("_copy_extension_settings", "alias", "record_size_limit");
  ("_copy_extension_settings", "alias", "certificate_compression_send");
  ("_copy_extension_settings", "alias", "certificate_compression_receive");
  ("_copy_extension_settings", "alias", "dc_sig_algs");
  ("_copy_extension_settings", "alias", "dc_valid_time");
  ("_copy_key_settings", "alias", "minKeySize");
  ("_copy_key_settings", "alias", "maxKeySize");
  ("_copy_key_settings", "alias", "certificateTypes");
  ("_copy_key_settings", "alias", "rsaSigHashes");
  ("_copy_key_settings", "alias", "rsaSchemes");
  ("_copy_key_settings", "alias", "dsaSigHashes");
  ("_copy_key_settings", "alias", "ecdsaSigHashes");
  ("_copy_key_settings", "alias", "more_sig_schemes");
  ("_copy_key_settings", "alias", "virtual_hosts");
  ("_copy_key_settings", "alias", "eccCurves");
  ("_copy_key_settings", "alias", "dhParams");
  ("_copy_key_settings", "alias", "dhGroups");
  ("_copy_key_settings", "alias", "defaultCurve");
  ("_copy_key_settings", "alias", "keyShares");
  ("_copy_key_settings", "alias", "use_heartbeat_extension");
  ("_copy_key_settings", "alias", "heartbeat_response_callback")].
Definition expected_validate_seq : list string := [
  "new:other";
  "call:_copy_cipher_settings";
  "call:_copy_extension_settings";
  "call:_copy_key_settings";
  "alias:pskConfigs";
  "alias:psk_modes";
  "if(not other.certificateTypes){raise}";
  "call:_sanityCheckKeySizes";
  "call:_sanityCheckPrimitivesNames";
  "call:_sanityCheckProtocolVersions";
  "call:_sanityCheckExtensions";
  "if(other.maxVersion < (3, 3)){set:macNames:ListComp}";
  "call:_sanityCheckPsks";
  "call:_sanityCheckTicketSettings";
  "call:_sanity_check_implementations";
  "call:_sanity_check_ciphers";
  "return:other"].
Definition expected_mutation_sites : list (string * string) := [
  ("_remove_all_matches", "setitem:values[:]")].
Definition expected_rebinds : list (string * string) := [
  ("_sanityCheckProtocolVersions", "versions:ListComp");
  ("_sanity_check_ciphers", "cipherNames:Subscript");
  ("_sanity_check_implementations", "cipherImplementations:Subscript");
  ("validate", "macNames:ListComp")].
Definition expected_init_attrs : list string := ["minKeySize"; "maxKeySize"; "rsaSigHashes"; "rsaSchemes"; "dsaSigHashes"; "virtual_hosts"; "eccCurves"; "dhParams"; "dhGroups"; "defaultCurve"; "keyShares"; "padding_cb"; "use_heartbeat_extension"; "heartbeat_response_callback"; "certificateTypes"; "useExperimentalTackExtension"; "sendFallbackSCSV"; "useEncryptThenMAC"; "ecdsaSigHashes"; "more_sig_schemes"; "usePaddingExtension"; "useExtendedMasterSecret"; "requireExtendedMasterSecret"; "pskConfigs"; "psk_modes"; "ticketKeys"; "ticketCipher"; "ticketLifetime"; "max_early_data"; "ticket_count"; "record_size_limit"; "ec_point_formats"; "certificate_compression_send"; "certificate_compression_receive"; "dc_sig_algs"; "dc_valid_time"; "minVersion"; "maxVersion"; "versions"; "cipherNames"; "macNames"; "keyExchangeNames"; "cipherImplementations"].

Lemma skeleton_ok :
  gen_copies = expected_copies /\ gen_validate_seq = expected_validate_seq /\
  gen_mutation_sites = expected_mutation_sites /\ gen_rebinds = expected_rebinds /\
  gen_init_attrs = expected_init_attrs.
Proof. repeat split; reflexivity. Qed.
