(* C11 -- the regenerated RSAKey.decrypt (Gen/C11_RsaDecrypt.v) equals the direct
   specification Spec/C11_Pkcs1Dec.v, for every key size and every ciphertext. *)
From Coq Require Import String ZArith List Bool Lia.
From TV Require Import Base.Prelude Base.C11_Lib Gen.ConstantTime Proofs.CtOps
  Gen.C11_RsaDecrypt Spec.C11_Pkcs1Dec Proofs.C11_LibFacts.
Import ListNotations.
Open Scope Z_scope.

(* ---- generic list facts -------------------------------------------------------- *)
Lemma last_default_irrelevant {A} (l : list A) (x : A) d d' : last (x :: l) d = last (x :: l) d'.
Proof.
  revert x. induction l as [|y l IH]; intros x; [reflexivity|].
  change (last (x :: y :: l) d) with (last (y :: l) d).
  change (last (x :: y :: l) d') with (last (y :: l) d'). apply IH.
Qed.

Lemma last_cons_default {A} (l : list A) (a d : A) : last (a :: l) d = last l a.
Proof.
  destruct l as [|b l]; [reflexivity|].
  change (last (a :: b :: l) d) with (last (b :: l) d). apply last_default_irrelevant.
Qed.

Lemma fold_last_filter {B} (cand : B -> Z) (p : Z -> bool) (l : list B) (s0 : Z) :
  fold_left (fun s x => if p (cand x) then cand x else s) l s0 = last (filter p (map cand l)) s0.
Proof.
  revert s0. induction l as [|x t IH]; intros s0; cbn [fold_left map filter]; [reflexivity|].
  rewrite IH. destruct (p (cand x)); [|reflexivity].
  symmetry. apply last_cons_default.
Qed.

Lemma pairs_of_length {A} (l : list A) n : length l = (2 * n)%nat -> length (pairs_of l) = n.
Proof.
  revert l. induction n as [|n IH]; intros l H.
  - destruct l; [reflexivity|discriminate].
  - destruct l as [|a [|b t]]; cbn [length] in H; try lia.
    cbn [pairs_of length]. f_equal. apply IH. lia.
Qed.

(* ---- reference form of the padding scan ---------------------------------------- *)
(* a zero byte among the first 8 padding bytes (absolute positions 2..9) *)
Fixpoint early (p : Z) (l : list Z) : bool :=
  match l with
  | [] => false
  | x :: t => ((p <? 10) && (x =? 0)) || early (p + 1) t
  end.
(* 1 + position of the first zero byte at a position >= 10; 0 if there is none *)
Fixpoint late (p : Z) (l : list Z) : Z :=
  match l with
  | [] => 0
  | x :: t => if negb (p <? 10) && (x =? 0) then p + 1 else late (p + 1) t
  end.
Definition scan_step (st : bool * Z) (pv : Z * Z) : bool * Z :=
  (fst st || ((fst pv <? 10) && (snd pv =? 0)),
   if (negb (fst pv <? 10) && (snd pv =? 0)) && (snd st =? 0) then fst pv + 1 else snd st).

Lemma scan_ref l : forall p e ms, 0 <= p ->
  fold_left scan_step (enumerate_from p l) (e, ms) =
  (e || early p l, if ms =? 0 then late p l else ms).
Proof.
  induction l as [|x t IH]; intros p e ms Hp; cbn [enumerate_from fold_left early late].
  - rewrite orb_false_r. destruct (ms =? 0) eqn:E; [apply Z.eqb_eq in E; subst|]; reflexivity.
  - replace (scan_step (e, ms) (p, x)) with
      (e || ((p <? 10) && (x =? 0)),
       if (negb (p <? 10) && (x =? 0)) && (ms =? 0) then p + 1 else ms) by reflexivity.
    rewrite IH by lia. rewrite orb_assoc. f_equal.
    destruct (negb (p <? 10) && (x =? 0)) eqn:A, (ms =? 0) eqn:M; cbn [andb]; rewrite ?M; try reflexivity.
    destruct (p + 1 =? 0) eqn:E; [lia|reflexivity].
Qed.

Lemma early_late_pos l : forall p, 10 <= p -> early p l = false.
Proof.
  induction l as [|x t IH]; intros p Hp; cbn [early]; [reflexivity|].
  rewrite IH by lia. destruct (p <? 10) eqn:E; [lia|]. reflexivity.
Qed.

Lemma first_zero_scan l : forall p, 0 <= p ->
  match first_zero p l with
  | Some s => p <= s < p + zlen l /\
              (if 10 <=? s then early p l = false /\ late p l = s + 1 else early p l = true)
  | None => early p l = false /\ late p l = 0
  end.
Proof.
  induction l as [|x t IH]; intros p Hp; cbn [first_zero early late]; [split; reflexivity|].
  rewrite zlen_cons. pose proof (zlen_nonneg t) as Ht.
  destruct (x =? 0) eqn:X.
  - split; [lia|]. destruct (10 <=? p) eqn:E.
    + destruct (p <? 10) eqn:E'; [lia|]. cbn [andb negb orb]. split; [apply early_late_pos; lia|reflexivity].
    + destruct (p <? 10) eqn:E'; [|lia]. reflexivity.
  - rewrite !andb_false_r. cbn [orb]. specialize (IH (p + 1) ltac:(lia)).
    destruct (first_zero (p + 1) t) as [s|]; [|exact IH].
    destruct IH as [B C]. split; [lia|exact C].
Qed.

Lemma late_bound l : forall p, 0 <= p -> 0 <= late p l <= p + zlen l.
Proof.
  induction l as [|x t IH]; intros p Hp; cbn [late]; [unfold zlen; cbn [length]; lia|].
  rewrite zlen_cons. pose proof (zlen_nonneg t). specialize (IH (p + 1) ltac:(lia)).
  destruct (negb (p <? 10) && (x =? 0)); lia.
Qed.

Lemma cand_mask_ones k : 11 <= k -> cand_mask k = Z.ones (numBits (k - 10)) /\ 0 <= numBits (k - 10).
Proof.
  intros Hk. unfold cand_mask, max_sep_offset, numBits.
  rewrite Z.abs_eq by lia. destruct (k - 10 =? 0) eqn:E; [lia|].
  pose proof (Z.log2_nonneg (k - 10)). split; [|lia].
  rewrite Z.ones_equiv. lia.
Qed.

Lemma cand_bounds k h l : 11 <= k -> 0 <= h < 256 -> 0 <= l < 256 ->
  0 <= Z.land (h * 256 + l) (cand_mask k) < 65536.
Proof.
  intros Hk Hh Hl. destruct (cand_mask_ones k Hk) as [-> Ht].
  rewrite Z.land_ones by exact Ht.
  assert (0 < 2 ^ numBits (k - 10)) by (apply Z.pow_pos_nonneg; lia).
  pose proof (Z.mod_pos_bound (h * 256 + l) _ H).
  pose proof (Z.mod_le (h * 256 + l) _ ltac:(lia) H). lia.
Qed.

Lemma synth_fold (F : Z -> Z * Z -> Z) k lr : 11 <= k -> all_bytes lr = true ->
  (forall s h l, 0 <= s < 65536 -> 0 <= h < 256 -> 0 <= l < 256 ->
     F s (h, l) = if Z.land (h * 256 + l) (cand_mask k) <? k - 10
                  then Z.land (h * 256 + l) (cand_mask k) else s) ->
  k <= 65535 ->
  fold_left F (pairs_of lr) 0 = synth_len k lr /\ 0 <= synth_len k lr < k - 10.
Proof.
  intros Hk Hlr HF Hk2. unfold synth_len, candidates, max_sep_offset.
  rewrite <- (fold_last_filter (fun hl => Z.land (fst hl * 256 + snd hl) (cand_mask k)) (fun c => c <? k - 10)).
  set (g := fun (s : Z) (x : Z * Z) =>
              if Z.land (fst x * 256 + snd x) (cand_mask k) <? k - 10
              then Z.land (fst x * 256 + snd x) (cand_mask k) else s).
  pose (R := fun s s' : Z => s = s' /\ 0 <= s < k - 10).
  pose (Q := fun hl : Z * Z => (0 <= fst hl < 256) /\ (0 <= snd hl < 256)).
  assert (Hstep : forall a a' x, R a a' -> Q x -> R (F a x) (g a' x)).
  { intros s s' [h l] [-> Hs] [Hh Hl]. cbn [fst snd] in *. unfold R, g. cbn [fst snd].
    rewrite HF by lia. pose proof (cand_bounds k h l Hk Hh Hl) as Hc.
    destruct (Z.land (h * 256 + l) (cand_mask k) <? k - 10) eqn:E; split; try reflexivity; lia. }
  assert (HQ : Forall Q (pairs_of lr)).
  { apply (pairs_of_forall (fun x => 0 <= x < 256)). apply all_bytes_forall. exact Hlr. }
  assert (HR0 : R 0 0) by (split; [reflexivity|lia]).
  pose proof (fold_left_rel R Q F g (pairs_of lr) Hstep HQ 0 0 HR0) as RR.
  destruct RR as [R1 R2]. rewrite <- R1. split; [reflexivity|exact R2].
Qed.

Lemma scan_fold (F : Z * Z -> Z * Z -> Z * Z) :
  (forall e ms pos val, 0 <= ms < 65536 -> 0 <= pos < 65535 -> 0 <= val < 256 ->
     F (Z.b2z e, ms) (pos, val) =
     (Z.b2z (e || ((pos <? 10) && (val =? 0))),
      if (negb (pos <? 10) && (val =? 0)) && (ms =? 0) then pos + 1 else ms)) ->
  forall l p e, 0 <= p -> p + zlen l <= 65535 -> all_bytes l = true ->
  fold_left F (enumerate_from p l) (Z.b2z e, 0) = (Z.b2z (e || early p l), late p l)
  /\ 0 <= late p l < 65536.
Proof.
  intros HF l p e Hp Hlen Hl.
  pose (R0 := fun (a : Z * Z) (a' : bool * Z) => fst a = Z.b2z (fst a') /\ snd a = snd a' /\ 0 <= snd a < 65536).
  pose (Q := fun pv : Z * Z => p <= fst pv < p + zlen l /\ 0 <= snd pv < 256).
  assert (Hstep : forall a a' x, R0 a a' -> Q x -> R0 (F a x) (scan_step a' x)).
  { intros [err ms] [e' ms'] [pos val]. unfold R0, Q. cbn [fst snd]. intros [-> [-> Hms]] [Hpos Hval].
    rewrite HF by lia. unfold scan_step. cbn [fst snd]. split; [reflexivity|]. split; [reflexivity|].
    destruct ((negb (pos <? 10) && (val =? 0)) && (ms' =? 0)); lia. }
  assert (HQ : Forall Q (enumerate_from p l)).
  { apply (enumerate_from_forall p l (fun x => 0 <= x < 256)). apply all_bytes_forall. exact Hl. }
  assert (HR0 : R0 (Z.b2z e, 0) (e, 0)) by (unfold R0; cbn [fst snd]; repeat split; lia).
  pose proof (fold_left_rel R0 Q F scan_step (enumerate_from p l) Hstep HQ _ _ HR0) as R.
  unfold R0 in R.
  rewrite scan_ref in R by exact Hp. change (0 =? 0) with true in R. cbv iota in R.
  destruct (fold_left F (enumerate_from p l) (Z.b2z e, 0)) as [a b].
  cbn [fst snd] in R. destruct R as [-> [-> Hb]]. split; [reflexivity|exact Hb].
Qed.

Section Decrypt.
Variable hash : list Z -> list Z.
Variable hmac : list Z -> list Z -> list Z.
Variable raw : Z -> Z.
Hypothesis Hhmac_len : forall k m, zlen (hmac k m) = 32.
Hypothesis Hhmac_bytes : forall k m, all_bytes (hmac k m) = true.

(* ---- the PRF ------------------------------------------------------------------- *)
Lemma prf_stream_snoc key label L m : 0 <= m ->
  prf_stream hmac key label L (m + 1) =
  prf_stream hmac key label L m ++ hmac key (be_bytes 2 m ++ label ++ be_bytes 2 L).
Proof.
  intros Hm. unfold prf_stream. rewrite zrange_snoc by lia. rewrite flat_map_app.
  cbn [flat_map]. rewrite app_nil_r. reflexivity.
Qed.

Lemma prf_stream_facts key label L m : 0 <= m ->
  zlen (prf_stream hmac key label L m) = 32 * m /\ all_bytes (prf_stream hmac key label L m) = true.
Proof.
  revert m. apply natlike_ind.
  - split; reflexivity.
  - intros m Hm [IH1 IH2]. change (Z.succ m) with (m + 1). rewrite prf_stream_snoc by lia.
    rewrite zlen_app, all_bytes_app, IH1, IH2, Hhmac_len, Hhmac_bytes. split; [lia|reflexivity].
Qed.

Lemma blocks_bound L : 0 <= L -> 0 <= (L / 8 + 31) / 32 /\ L / 8 <= 32 * ((L / 8 + 31) / 32).
Proof.
  intros HL. assert (0 <= L / 8) by (apply Z.div_pos; lia).
  pose proof (Z.div_mod (L / 8 + 31) 32 ltac:(lia)) as E.
  pose proof (Z.mod_pos_bound (L / 8 + 31) 32 ltac:(lia)) as B.
  assert (0 <= (L / 8 + 31) / 32) by (apply Z.div_pos; lia). lia.
Qed.

Lemma prf_spec_facts key label L : 0 <= L ->
  zlen (prf_spec hmac key label L) = L / 8 /\ all_bytes (prf_spec hmac key label L) = true.
Proof.
  intros HL. destruct (blocks_bound L HL) as [B1 B2].
  destruct (prf_stream_facts key label L _ B1) as [F1 F2].
  unfold prf_spec. split.
  - unfold zlen in *. rewrite firstn_length. assert (0 <= L / 8) by (apply Z.div_pos; lia). lia.
  - apply all_bytes_firstn. exact F2.
Qed.

Lemma prf_loop_gen (cond : list Z * Z -> res bool) (body : list Z * Z -> res (list Z * Z)) key label L :
  0 <= L ->
  (forall out it, cond (out, it) = Ok (zlen out <? L / 8)) ->
  (forall out it, 0 <= it ->
     body (out, it) = Ok (out ++ hmac key ((be_bytes 2 it ++ label) ++ be_bytes 2 L), it + 1)) ->
  forall fuel it, 0 <= it ->
    (Z.to_nat ((L / 8 + 31) / 32 - it) < fuel)%nat ->
    while_fuel fuel cond body (prf_stream hmac key label L it, it) =
      Ok (prf_stream hmac key label L (Z.max it ((L / 8 + 31) / 32)), Z.max it ((L / 8 + 31) / 32)).
Proof.
  intros HL Hc Hb. induction fuel as [|f IH]; intros it Hit Hfuel; [lia|].
  cbn [while_fuel]. rewrite Hc. cbn [bind].
  destruct (prf_stream_facts key label L it Hit) as [F1 _]. rewrite F1.
  destruct (32 * it <? L / 8) eqn:E.
  - rewrite Hb by exact Hit. cbn [bind]. rewrite <- app_assoc, <- prf_stream_snoc by exact Hit.
    assert (it + 1 <= (L / 8 + 31) / 32) by (apply Z.div_le_lower_bound; lia).
    rewrite IH by lia. f_equal. f_equal; [f_equal|]; lia.
  - assert ((L / 8 + 31) / 32 < it + 1) by (apply Z.div_lt_upper_bound; lia).
    rewrite Z.max_l by lia. reflexivity.
Qed.

Lemma dec_prf_spec key label L : 0 <= L -> L mod 8 = 0 ->
  dec_prf hmac key label L = Ok (prf_spec hmac key label L).
Proof.
  intros HL Hmod. unfold dec_prf.
  change (py_mod L 8) with (Ok (L mod 8)). cbn [bind]. rewrite Hmod.
  change (negb (0 =? 0)) with false. cbv iota.
  destruct (blocks_bound L HL) as [B1 B2].
  change (@nil Z) with (prf_stream hmac key label L 0) at 1.
  erewrite prf_loop_gen with (key := key) (label := label) (L := L).
  - cbn [bind]. change (py_div L 8) with (Ok (L / 8)). cbn [bind].
    rewrite Z.max_r by lia. rewrite py_slice_to by (apply Z.div_pos; lia). reflexivity.
  - exact HL.
  - intros out it. change (py_div L 8) with (Ok (L / 8)). reflexivity.
  - intros out it Hit. rewrite !numberToByteArray_ok by lia. cbn [bind].
    change (Z.to_nat 2) with 2%nat. reflexivity.
  - lia.
  - assert ((L / 8 + 31) / 32 <= L).
    { destruct (Z.eq_dec L 0) as [->|Hne]; [reflexivity|].
      apply Z.div_le_upper_bound; [lia|].
      assert (L / 8 <= L) by (apply Z.div_le_upper_bound; lia). lia. }
    lia.
Qed.

Hypothesis Hraw : forall m, 0 <= raw m.

Lemma decrypt_eq_spec_all n d cache enc :
  11 <= numBytes n <= 65535 -> 0 <= d -> cache_ok hash n d cache ->
  decrypt hash hmac raw true n d "rsa"%string cache enc = Ok (spec_decrypt hash hmac raw n d enc).
Proof.
  intros Hk Hd Hcache. unfold decrypt, spec_decrypt, raw_private_key_op_bytes.
  change (negb true) with false. change (String.eqb "rsa" "rsa") with true. change (negb true) with false.
  cbv beta iota zeta.
  set (k := numBytes n) in *.
  destruct (zlen enc =? k) eqn:E1; cbn [negb andb]; [|reflexivity].
  destruct (bytesToNumber enc <? n) eqn:E2.
  2:{ destruct (bytesToNumber enc >=? n) eqn:E3; [reflexivity|lia]. }
  destruct (bytesToNumber enc >=? n) eqn:E3; [lia|].
  rewrite numberToByteArray_ok by (try apply Hraw; lia). cbn [bind].
  rewrite numberToByteArray_ok by lia. cbn [bind].
  assert (HC : (if opt_falsy cache then Ok (hash (be_bytes (Z.to_nat k) d)) else opt_get cache)
               = Ok (hash (be_bytes (Z.to_nat k) d))).
  { destruct Hcache as [->|[->| ->]]; try reflexivity. fold k.
    destruct (hash (be_bytes (Z.to_nat k) d)); reflexivity. }
  rewrite HC. cbn [bind]. clear HC.
  set (dec := be_bytes (Z.to_nat k) (raw (bytesToNumber enc))).
  set (kdk := hmac (hash (be_bytes (Z.to_nat k) d)) enc).
  change (Z.mul (Z.mul 128 2) 8) with 2048.
  rewrite (dec_prf_spec kdk _ 2048) by (try reflexivity; lia). cbn [bind].
  rewrite (dec_prf_spec kdk _ (k * 8)) by (try apply Z.mod_mul; lia). cbn [bind].
  fold label_length label_message.
  set (lr := prf_spec hmac kdk label_length 2048).
  set (mr := prf_spec hmac kdk label_message (k * 8)).
  (* --- synthetic length loop *)
  match goal with |- context [fold_left ?f (pairs_of lr) 0] => set (F1 := f) end.
  destruct (prf_spec_facts kdk label_length 2048 ltac:(lia)) as [Hlr1 Hlr2].
  destruct (prf_spec_facts kdk label_message (k * 8) ltac:(lia)) as [Hmr1 Hmr2].
  rewrite Z.div_mul in Hmr1 by lia. fold lr in Hlr1, Hlr2. fold mr in Hmr1, Hmr2.
  assert (HF1 : forall s h l, 0 <= s < 65536 -> 0 <= h < 256 -> 0 <= l < 256 ->
     F1 s (h, l) = if Z.land (h * 256 + l) (cand_mask k) <? k - 10
                   then Z.land (h * 256 + l) (cand_mask k) else s).
  { intros s h l Hs Hh Hl. subst F1. cbv beta iota.
    rewrite Z.shiftl_mul_pow2 by lia. rewrite Z.shiftl_1_l. change (2 ^ 8) with 256.
    change (2 ^ numBits (k - 10) - 1) with (cand_mask k).
    pose proof (cand_bounds k h l ltac:(lia) Hh Hl) as Hc.
    set (c := Z.land (h * 256 + l) (cand_mask k)) in *.
    rewrite lt_b2z by (unfold u32; lia). rewrite sel16 by lia. reflexivity. }
  destruct (synth_fold F1 k lr ltac:(lia) Hlr2 HF1 ltac:(lia)) as [HS1 HS2].
  rewrite HS1. clear HS1 HF1. clearbody F1. clear F1.
  set (sl := synth_len k lr) in *.
  (* --- the decrypted block *)
  assert (Hdl : zlen dec = k) by (unfold dec; rewrite be_bytes_zlen; lia).
  assert (Hdb : all_bytes dec = true) by apply be_bytes_all_bytes.
  unfold spec_decrypt_em.
  clearbody dec. destruct dec as [|b0 [|b1 rest]];
    [unfold zlen in Hdl; cbn [length] in Hdl; lia | unfold zlen in Hdl; cbn [length] in Hdl; lia |].
  assert (Hrl : zlen rest = k - 2) by (rewrite !zlen_cons in Hdl; lia).
  pose proof Hdb as Hdb'. apply all_bytes_forall in Hdb'.
  inversion Hdb' as [|? ? Hb0 Hdb1]; subst. inversion Hdb1 as [|? ? Hb1 Hrest]; subst.
  apply all_bytes_forall in Hrest. clear Hdb' Hdb1.
  change (enumerate_from 0 (b0 :: b1 :: rest)) with ((0, b0) :: (1, b1) :: enumerate_from 2 rest).
  cbn [py_next bind]. cbv beta iota.
  rewrite (isnonzero_b2z b0), (neq_b2z b1 2) by (unfold u32; lia).
  rewrite Z.lor_0_l, b2z_lor.
  set (e0 := negb (b0 =? 0) || negb (b1 =? 2)).
  (* --- the padding scan *)
  match goal with |- context [fold_left ?f (enumerate_from 2 rest) _] => set (F2 := f) end.
  assert (HF2 : forall e ms pos val, 0 <= ms < 65536 -> 0 <= pos < 65535 -> 0 <= val < 256 ->
     F2 (Z.b2z e, ms) (pos, val) =
     (Z.b2z (e || ((pos <? 10) && (val =? 0))),
      if (negb (pos <? 10) && (val =? 0)) && (ms =? 0) then pos + 1 else ms)).
  { intros e ms pos val Hms Hpos Hval. subst F2. cbv beta iota.
    rewrite (lt_b2z pos 10), (isnonzero_b2z val), (isnonzero_b2z ms) by (unfold u32; lia).
    rewrite !b2z_lxor1, !b2z_land, b2z_lor, !negb_involutive.
    rewrite sel16 by lia. reflexivity. }
  destruct (scan_fold F2 HF2 rest 2 e0 ltac:(lia) ltac:(lia) Hrest) as [HSC HLB].
  rewrite HSC. clear HSC HF2. clearbody F2. clear F2. cbv beta iota.
  (* when the scan lives in an (inlined) helper its result reaches the caller through a bind *)
  cbn [bind]. cbv beta iota.
  rewrite (isnonzero_b2z (late 2 rest)) by (unfold u32; lia).
  rewrite b2z_lxor1, negb_involutive, b2z_lor.
  remember ((e0 || early 2 rest) || (late 2 rest =? 0)) as E eqn:HE.
  rewrite sel16 by lia.
  assert (Hlate : late 2 rest <= k) by (pose proof (late_bound rest 2 ltac:(lia)); lia).
  fold sl.
  set (r := if E then k - sl else late 2 rest).
  assert (Hr : 0 <= r <= k) by (unfold r; destruct E; lia).
  rewrite !py_slice_from by lia.
  rewrite (map_combine_sel E).
  2:{ rewrite !skipn_length. unfold zlen in *. lia. }
  2:{ intros x y Hx Hy. apply sel8.
      - assert (A : all_bytes (skipn (Z.to_nat r) (b0 :: b1 :: rest)) = true) by (apply all_bytes_skipn; exact Hdb).
        apply all_bytes_forall in A. rewrite Forall_forall in A. apply A. exact Hx.
      - assert (A : all_bytes (skipn (Z.to_nat r) mr) = true) by (apply all_bytes_skipn; exact Hmr2).
        apply all_bytes_forall in A. rewrite Forall_forall in A. apply A. exact Hy. }
  assert (HM : forall A B, all_bytes A = true -> all_bytes B = true ->
               mk_bytes (if E then A else B) = Ok (if E then A else B)).
  { intros A B HA HB. unfold mk_bytes. destruct E; [rewrite HA|rewrite HB]; reflexivity. }
  rewrite HM by (apply all_bytes_skipn; assumption). cbn [bind]. clear HM.
  (* --- the specification side *)
  unfold pkcs1_unpad.
  pose proof (first_zero_scan rest 2 ltac:(lia)) as FZ.
  unfold e0 in HE. clear e0.
  destruct (b0 =? 0) eqn:B0, (b1 =? 2) eqn:B1; cbn [negb orb andb] in HE |- *;
    try (subst E; subst r; cbv iota; reflexivity).
  destruct (first_zero 2 rest) as [s|].
  - destruct FZ as [Bs C]. destruct (10 <=? s) eqn:S10.
    + destruct C as [C1 C2]. rewrite C1, C2 in HE. cbn [orb] in HE.
      destruct (s + 1 =? 0) eqn:Z0; [lia|]. subst E. subst r. cbv iota. rewrite C2. reflexivity.
    + rewrite C in HE. cbn [orb] in HE. subst E. subst r. cbv iota. reflexivity.
  - destruct FZ as [C1 C2]. rewrite C1, C2 in HE. cbn [orb] in HE. change (0 =? 0) with true in HE.
    subst E. subst r. cbv iota. reflexivity.
Qed.

(* only publicly invalid ciphertexts fail, and nothing ever raises *)
Lemma decrypt_total_all n d cache enc :
  11 <= numBytes n <= 65535 -> 0 <= d -> cache_ok hash n d cache ->
  (zlen enc = numBytes n /\ bytesToNumber enc < n ->
     exists m, decrypt hash hmac raw true n d "rsa"%string cache enc = Ok (Some m) /\ all_bytes m = true
               /\ zlen m <= numBytes n - 11) /\
  (~ (zlen enc = numBytes n /\ bytesToNumber enc < n) ->
     decrypt hash hmac raw true n d "rsa"%string cache enc = Ok None).
Proof.
  intros Hk Hd Hc. rewrite decrypt_eq_spec_all by assumption. unfold spec_decrypt.
  split.
  - intros [A B]. destruct (zlen enc =? numBytes n) eqn:E1; [|lia].
    destruct (bytesToNumber enc <? n) eqn:E2; [|lia]. cbn [andb].
    eexists. split; [reflexivity|].
    set (k := numBytes n) in *.
    set (em := be_bytes (Z.to_nat k) (raw (bytesToNumber enc))).
    set (kdk := hmac (hash (be_bytes (Z.to_nat k) d)) enc).
    assert (Hem1 : zlen em = k) by (unfold em; rewrite be_bytes_zlen; lia).
    assert (Hem2 : all_bytes em = true) by apply be_bytes_all_bytes.
    destruct (prf_spec_facts kdk label_message (k * 8) ltac:(lia)) as [Hmr1 Hmr2].
    rewrite Z.div_mul in Hmr1 by lia.
    destruct (prf_spec_facts kdk label_length 2048 ltac:(lia)) as [Hlr1 Hlr2].
    unfold spec_decrypt_em.
    destruct (pkcs1_unpad em) as [m|] eqn:U.
    + unfold pkcs1_unpad in U. destruct em as [|b0 [|b1 rest]]; try discriminate.
      destruct ((b0 =? 0) && (b1 =? 2)); [|discriminate].
      pose proof (first_zero_scan rest 2 ltac:(lia)) as FZ.
      destruct (first_zero 2 rest) as [s|]; [|discriminate].
      destruct (10 <=? s) eqn:S10; [|discriminate]. injection U as <-.
      split; [apply all_bytes_skipn; exact Hem2|].
      unfold zlen in *. rewrite skipn_length. cbn [length] in *. lia.
    + split; [apply all_bytes_skipn; exact Hmr2|].
      assert (HS : 0 <= synth_len k (prf_spec hmac kdk label_length 2048) < k - 10).
      { refine (proj2 (synth_fold (fun s hl => if Z.land (fst hl * 256 + snd hl) (cand_mask k) <? k - 10
                                              then Z.land (fst hl * 256 + snd hl) (cand_mask k) else s)
                                  k _ ltac:(lia) Hlr2 _ ltac:(lia))).
        intros; reflexivity. }
      unfold zlen in *. rewrite skipn_length. lia.
  - intros H. destruct (zlen enc =? numBytes n) eqn:E1, (bytesToNumber enc <? n) eqn:E2; cbn [andb]; try reflexivity.
    exfalso. apply H. lia.
Qed.

End Decrypt.

(* ---- the result depends on the decrypted block only through its validity ---------- *)
Lemma spec_em_invalid_indep k em1 em2 lr mr :
  pkcs1_unpad em1 = None -> pkcs1_unpad em2 = None ->
  spec_decrypt_em k em1 lr mr = spec_decrypt_em k em2 lr mr.
Proof. intros H1 H2. unfold spec_decrypt_em. rewrite H1, H2. reflexivity. Qed.

Lemma synthetic_independent_all hash hmac raw1 raw2 n d cache enc :
  (forall k m, zlen (hmac k m) = 32) -> (forall k m, all_bytes (hmac k m) = true) ->
  (forall m, 0 <= raw1 m) -> (forall m, 0 <= raw2 m) ->
  11 <= numBytes n <= 65535 -> 0 <= d -> cache_ok hash n d cache ->
  pkcs1_unpad (be_bytes (Z.to_nat (numBytes n)) (raw1 (bytesToNumber enc))) = None ->
  pkcs1_unpad (be_bytes (Z.to_nat (numBytes n)) (raw2 (bytesToNumber enc))) = None ->
  decrypt hash hmac raw1 true n d "rsa"%string cache enc = decrypt hash hmac raw2 true n d "rsa"%string cache enc.
Proof.
  intros H1 H2 R1 R2 Hk Hd Hc U1 U2.
  rewrite !decrypt_eq_spec_all by assumption. f_equal. unfold spec_decrypt.
  destruct ((zlen enc =? numBytes n) && (bytesToNumber enc <? n)); [|reflexivity].
  cbv zeta. f_equal. apply spec_em_invalid_indep; assumption.
Qed.

(* the synthetic length is a function of the key size and the "length" PRF stream only *)
Lemma invalid_result_length hash hmac raw n d cache enc :
  (forall k m, zlen (hmac k m) = 32) -> (forall k m, all_bytes (hmac k m) = true) ->
  (forall m, 0 <= raw m) ->
  11 <= numBytes n <= 65535 -> 0 <= d -> cache_ok hash n d cache ->
  zlen enc = numBytes n -> bytesToNumber enc < n ->
  pkcs1_unpad (be_bytes (Z.to_nat (numBytes n)) (raw (bytesToNumber enc))) = None ->
  exists m, decrypt hash hmac raw true n d "rsa"%string cache enc = Ok (Some m) /\
            zlen m = synth_len (numBytes n)
                       (prf_spec hmac (hmac (hash (be_bytes (Z.to_nat (numBytes n)) d)) enc) label_length 2048).
Proof.
  intros H1 H2 R Hk Hd Hc A B U.
  rewrite decrypt_eq_spec_all by assumption. unfold spec_decrypt.
  destruct (zlen enc =? numBytes n) eqn:E1; [|lia]. destruct (bytesToNumber enc <? n) eqn:E2; [|lia].
  cbn [andb]. cbv zeta. eexists. split; [reflexivity|].
  unfold spec_decrypt_em. rewrite U.
  set (k := numBytes n) in *.
  set (kdk := hmac (hash (be_bytes (Z.to_nat k) d)) enc).
  destruct (prf_spec_facts hmac H1 H2 kdk label_message (k * 8) ltac:(lia)) as [Hmr1 Hmr2].
  rewrite Z.div_mul in Hmr1 by lia.
  destruct (prf_spec_facts hmac H1 H2 kdk label_length 2048 ltac:(lia)) as [Hlr1 Hlr2].
  assert (HS : 0 <= synth_len k (prf_spec hmac kdk label_length 2048) < k - 10).
  { refine (proj2 (synth_fold (fun s hl => if Z.land (fst hl * 256 + snd hl) (cand_mask k) <? k - 10
                                          then Z.land (fst hl * 256 + snd hl) (cand_mask k) else s)
                              k _ ltac:(lia) Hlr2 _ ltac:(lia))).
    intros; reflexivity. }
  unfold zlen in *. rewrite skipn_length. lia.
Qed.

(* ---- the rule for the synthetic length -------------------------------------------- *)
Lemma synth_len_rule_all k lr :
  11 <= k <= 65535 -> all_bytes lr = true -> zlen lr = 256 ->
  length (candidates k lr) = 128%nat /\
  (* the mask is the smallest 2^t - 1 that is >= k - 10 *)
  (exists t, 0 <= t /\ cand_mask k = 2 ^ t - 1 /\ k - 10 <= cand_mask k /\
             forall t', 0 <= t' -> k - 10 <= 2 ^ t' - 1 -> cand_mask k <= 2 ^ t' - 1) /\
  (* the last candidate below the bound, 0 if there is none *)
  synth_len k lr = last (filter (fun c => c <? k - 10) (candidates k lr)) 0 /\
  0 <= synth_len k lr <= k - 11 /\
  (synth_len k lr = 0 \/ In (synth_len k lr) (candidates k lr)).
Proof.
  intros Hk Hb Hl. split; [|split; [|split; [reflexivity|split]]].
  - unfold candidates. rewrite map_length. apply pairs_of_length. unfold zlen in Hl. lia.
  - exists (numBits (k - 10)). unfold cand_mask, max_sep_offset, numBits.
    rewrite Z.abs_eq by lia. destruct (k - 10 =? 0) eqn:E; [lia|].
    pose proof (Z.log2_nonneg (k - 10)) as L0.
    pose proof (Z.log2_spec (k - 10) ltac:(lia)) as [L1 L2].
    replace (Z.succ (Z.log2 (k - 10))) with (Z.log2 (k - 10) + 1) in L2 by lia.
    split; [lia|]. split; [reflexivity|]. split; [lia|].
    intros t' Ht' Hb'.
    assert (Z.log2 (k - 10) + 1 <= t'); [|assert (2 ^ (Z.log2 (k - 10) + 1) <= 2 ^ t') by (apply Z.pow_le_mono_r; lia); lia].
    destruct (Z_lt_le_dec t' (Z.log2 (k - 10) + 1)) as [Hlt|]; [|assumption].
    assert (2 ^ t' <= 2 ^ Z.log2 (k - 10)) by (apply Z.pow_le_mono_r; lia). lia.
  - pose proof (synth_fold (fun s hl => if Z.land (fst hl * 256 + snd hl) (cand_mask k) <? k - 10
                                       then Z.land (fst hl * 256 + snd hl) (cand_mask k) else s)
                           k lr ltac:(lia) Hb ltac:(intros; reflexivity) ltac:(lia)) as [_ B]. lia.
  - unfold synth_len. set (F := filter _ _).
    destruct F as [|x F'] eqn:EF; [left; reflexivity|right].
    assert (In (last (x :: F') 0) (x :: F')).
    { clear. revert x. induction F' as [|y F' IH]; intros x; [left; reflexivity|].
      change (last (x :: y :: F') 0) with (last (y :: F') 0). right. apply IH. }
    rewrite <- EF in H |- *. unfold F in H. apply filter_In in H. exact (proj1 H).
Qed.

