(* C15 -- every format term of Model/C15_Messages.v is well-formed, so the generic
   theorems apply to it. *)
From Coq Require Import ZArith List Bool Lia.
From TV Require Import Base.Prelude Model.C15_Codec Model.C15_Fmt Model.C15_Messages.
Import ListNotations.
Open Scope Z_scope.

Lemma sel_of_all (P : fmt -> Prop) tbl d :
  Forall (fun p => P (snd p)) tbl -> P d -> forall t, P (sel_of tbl d t).
Proof.
  intros H Hd t. induction tbl as [|[k f] tl IH]; cbn [sel_of]; [exact Hd|].
  inversion H as [|? ? H1 H2]; subst. destruct (t =? k); [exact H1|apply IH; exact H2].
Qed.

Ltac wf_step :=
  match goal with
  | |- _ /\ _ => split
  | |- True => exact I
  | |- _ = true => reflexivity
  | |- _ <= _ => lia
  | |- _ < _ => lia
  | |- forall _, _ => intro
  | |- Forall _ [] => constructor
  | |- Forall _ (_ :: _) => constructor
  end.
Ltac wf_tac := cbn; repeat wf_step.

Lemma wf_universal : Forall (fun p => wf_fmt (snd p)) ext_universal.
Proof. unfold ext_universal. repeat (constructor; [wf_tac|]). constructor. Qed.
Lemma wf_server_only : Forall (fun p => wf_fmt (snd p)) ext_server_only.
Proof. unfold ext_server_only. repeat (constructor; [wf_tac|]). constructor. Qed.
Lemma wf_hrr_only : Forall (fun p => wf_fmt (snd p)) ext_hrr_only.
Proof. unfold ext_hrr_only. repeat (constructor; [wf_tac|]). constructor. Qed.
Lemma wf_cert_only : Forall (fun p => wf_fmt (snd p)) ext_cert_only.
Proof. unfold ext_cert_only. repeat (constructor; [wf_tac|]). constructor. Qed.

Lemma wf_ext_table c : Forall (fun p => wf_fmt (snd p)) (ext_table c).
Proof.
  destruct c; cbn [ext_table]; try apply Forall_app; try split;
    auto using wf_universal, wf_server_only, wf_hrr_only, wf_cert_only.
Qed.

Lemma wf_Ext c : wf_fmt (Ext c).
Proof.
  unfold Ext. cbn [wf_fmt]. split; [lia|]. intros t. split; [lia|].
  apply sel_of_all; [apply wf_ext_table|exact I].
Qed.
Lemma delim_Ext c : delim (Ext c).
Proof. unfold Ext. cbn [delim]. intros t. exact I. Qed.
Lemma wf_ExtList c : wf_fmt (ExtList c).
Proof.
  unfold ExtList, FList. cbn [wf_fmt]. split; [lia|]. split; [apply delim_Ext|].
  split; [reflexivity|apply wf_Ext].
Qed.
Lemma wf_ExtListU c : wf_fmt (ExtListU c).
Proof.
  unfold ExtListU. cbn [wf_fmt]. split; [lia|]. split; [apply delim_Ext|].
  split; [reflexivity|apply wf_Ext].
Qed.
Lemma wf_OptExtListU c : wf_fmt (FOpt (ExtListU c)).
Proof. cbn [wf_fmt]. split; [reflexivity|apply wf_ExtListU]. Qed.
Lemma wf_OptExtList c : wf_fmt (FOpt (ExtList c)).
Proof. cbn [wf_fmt]. split; [reflexivity|apply wf_ExtList]. Qed.
Lemma wf_CertificateEntry : wf_fmt CertificateEntry /\ delim CertificateEntry.
Proof.
  unfold CertificateEntry. split; [|cbn; auto].
  cbn [wf_fmt]. split; [cbn; exact I|]. split; [wf_tac|apply wf_ExtList].
Qed.

Ltac wf_msg :=
  repeat first
    [ wf_step
    | match goal with
      | |- wf_fmt (FOpt (ExtListU _)) => apply wf_OptExtListU
      | |- wf_fmt (ExtListU _) => apply wf_ExtListU
      | |- wf_fmt (FOpt (ExtList _)) => apply wf_OptExtList
      | |- wf_fmt (ExtList _) => apply wf_ExtList
      | |- wf_fmt (Ext _) => apply wf_Ext
      | |- delim (Ext _) => apply delim_Ext
      | |- wf_fmt CertificateEntry => apply (proj1 wf_CertificateEntry)
      | |- delim CertificateEntry => apply (proj2 wf_CertificateEntry)
      | |- context [if ?c then _ else _] => destruct c
      end
    | progress cbn [wf_fmt delim nonempty Msg fseq FVar FVarR FVarList FVarTuples FTuple FList Bytes FEmpty FFail
                    app orb andb Z.ltb Z.compare] ].

Lemma wf_RecordHeader3 : wf_fmt fmt_RecordHeader3. Proof. wf_tac. Qed.
Lemma wf_Alert : wf_fmt fmt_Alert. Proof. wf_tac. Qed.
Lemma wf_ChangeCipherSpec : wf_fmt fmt_ChangeCipherSpec. Proof. wf_tac. Qed.
Lemma wf_Heartbeat : wf_fmt fmt_Heartbeat. Proof. wf_tac. Qed.
Lemma wf_KeyUpdate : wf_fmt fmt_KeyUpdate. Proof. wf_tac. Qed.
Lemma wf_HelloRequest : wf_fmt fmt_HelloRequest. Proof. wf_tac. Qed.
Lemma wf_ServerHelloDone : wf_fmt fmt_ServerHelloDone. Proof. wf_tac. Qed.
Lemma wf_ClientHello : wf_fmt fmt_ClientHello. Proof. unfold fmt_ClientHello. wf_msg. Qed.
Lemma wf_ServerHello : wf_fmt fmt_ServerHello.
Proof. unfold fmt_ServerHello. wf_msg. Qed.
Lemma wf_EncryptedExtensions : wf_fmt fmt_EncryptedExtensions.
Proof. unfold fmt_EncryptedExtensions. wf_msg. Qed.
Lemma wf_Certificate12 : wf_fmt fmt_Certificate12. Proof. wf_tac. Qed.
Lemma wf_Certificate13 : wf_fmt fmt_Certificate13. Proof. unfold fmt_Certificate13. wf_msg. Qed.
Lemma wf_CertificateRequest b : wf_fmt (fmt_CertificateRequest b). Proof. destruct b; wf_tac. Qed.
Lemma wf_CertificateRequest13 : wf_fmt fmt_CertificateRequest13.
Proof. unfold fmt_CertificateRequest13. wf_msg. Qed.
Lemma wf_CertificateVerify b : wf_fmt (fmt_CertificateVerify b). Proof. destruct b; wf_tac. Qed.
Lemma wf_CertificateStatus : wf_fmt fmt_CertificateStatus. Proof. wf_tac. Qed.
Lemma wf_ServerKeyExchange k s : wf_fmt (fmt_ServerKeyExchange k s).
Proof. destruct k, s; wf_tac. Qed.
Lemma wf_ClientKeyExchange k b : wf_fmt (fmt_ClientKeyExchange k b).
Proof. destruct k, b; wf_tac. Qed.
Lemma wf_Finished n : 0 <= n -> wf_fmt (fmt_Finished n). Proof. intros H. wf_tac. Qed.
Lemma wf_NextProtocol : wf_fmt fmt_NextProtocol. Proof. wf_tac. Qed.
Lemma wf_NewSessionTicket13 : wf_fmt fmt_NewSessionTicket13.
Proof. unfold fmt_NewSessionTicket13. wf_msg. Qed.
Lemma wf_NewSessionTicket10 : wf_fmt fmt_NewSessionTicket10. Proof. wf_tac. Qed.
Lemma wf_SessionTicketPayload : wf_fmt fmt_SessionTicketPayload.
Proof.
  unfold fmt_SessionTicketPayload. cbn [wf_fmt]. split; [lia|]. intros t.
  destruct (t =? 0); [wf_tac|]. destruct (t =? 1); [|destruct (t =? 2); [|destruct (t =? 3); [|wf_tac]]];
    unfold stp_base, stp_certs; wf_msg.
Qed.
Lemma wf_CompressedCertificate : wf_fmt fmt_CompressedCertificate. Proof. wf_tac. Qed.
Lemma wf_RecordHeader2 : wf_fmt fmt_RecordHeader2.
Proof.
  unfold fmt_RecordHeader2. cbn [wf_fmt]. split; [lia|]. intros t. destruct (128 <=? t); wf_tac.
Qed.
Lemma wf_ClientHelloSSL2_inner cl sl rl :
  wf_fmt (if (0 <=? cl) && (cl mod 3 =? 0) && (0 <=? sl) && (0 <=? rl)
          then fseq [FFix cl; FFix sl; FFix rl] else FFail).
Proof.
  destruct ((0 <=? cl) && (cl mod 3 =? 0) && (0 <=? sl) && (0 <=? rl)) eqn:E; [|wf_tac].
  apply andb_true_iff in E. destruct E as [E E4]. apply andb_true_iff in E. destruct E as [E E3].
  apply andb_true_iff in E. destruct E as [E1 E2].
  cbn [fseq wf_fmt delim]. split; [exact I|]. split; [lia|]. split; [exact I|]. split; lia.
Qed.

Lemma wf_ClientHelloSSL2 : wf_fmt fmt_ClientHelloSSL2.
Proof.
  unfold fmt_ClientHelloSSL2. cbn [fseq wf_fmt delim].
  split; [exact I|]. split; [lia|]. split; [exact I|]. split; [lia|]. split; [exact I|]. split; [lia|].
  split; [lia|]. intros cl. cbn [wf_fmt]. split; [lia|]. intros sl. cbn [wf_fmt]. split; [lia|]. intros rl.
  apply wf_ClientHelloSSL2_inner.
Qed.

(* ---- RecordHeader2: the API view is injective on what fits, and refuses everything else ---- *)
Lemma rh2_wf_short len : 0 <= len < 32768 ->
  wf_val fmt_RecordHeader2 (VTag (128 + len / 256) (VInt (len mod 256))).
Proof.
  intros R.
  assert (0 <= len / 256 < 128) by (split; [apply Z.div_pos; lia|apply Z.div_lt_upper_bound; lia]).
  pose proof (Z.mod_pos_bound len 256 ltac:(lia)).
  unfold fmt_RecordHeader2. cbn [wf_val]. rewrite ?Z.pow_1_r. split; [lia|].
  destruct (128 <=? 128 + len / 256) eqn:G; [|lia]. cbn [wf_val]. rewrite ?Z.pow_1_r. lia.
Qed.

Lemma rh2_wf_long len pad (esc : bool) : 0 <= len < 16384 -> 0 <= pad < 256 ->
  wf_val fmt_RecordHeader2 (VTag ((if esc then 64 else 0) + len / 256) (VPair (VInt (len mod 256)) (VInt pad))).
Proof.
  intros R P.
  assert (0 <= len / 256 < 64) by (split; [apply Z.div_pos; lia|apply Z.div_lt_upper_bound; lia]).
  pose proof (Z.mod_pos_bound len 256 ltac:(lia)).
  unfold fmt_RecordHeader2. cbn [wf_val]. rewrite ?Z.pow_1_r. split; [destruct esc; lia|].
  destruct (128 <=? (if esc then 64 else 0) + len / 256) eqn:G; [destruct esc; lia|].
  cbn [wf_val]. rewrite ?Z.pow_1_r. lia.
Qed.

Lemma rh2_val_wf len pad esc v : rh2_val len pad esc = Some v -> wf_val fmt_RecordHeader2 v.
Proof.
  unfold rh2_val. destruct (rh2_short pad esc).
  - destruct ((0 <=? len) && (len <? 32768)) eqn:E; [|discriminate]. intros H.
    apply andb_true_iff in E. destruct E as [E1 E2].
    assert (v = VTag (128 + len / 256) (VInt (len mod 256))) as -> by congruence.
    apply rh2_wf_short. lia.
  - destruct ((0 <=? len) && (len <? 16384) && (0 <=? pad) && (pad <? 256)) eqn:E; [|discriminate].
    intros H.
    apply andb_true_iff in E. destruct E as [E E4]. apply andb_true_iff in E. destruct E as [E E3].
    apply andb_true_iff in E. destruct E as [E1 E2].
    assert (v = VTag ((if esc then 64 else 0) + len / 256) (VPair (VInt (len mod 256)) (VInt pad))) as ->
      by congruence.
    apply rh2_wf_long; lia.
Qed.

Lemma rh2_fields_val len pad esc v : rh2_val len pad esc = Some v -> rh2_fields v = Some (len, pad, esc).
Proof.
  unfold rh2_val. destruct (rh2_short pad esc) eqn:S.
  - destruct ((0 <=? len) && (len <? 32768)) eqn:E; [|discriminate]. intros H.
    assert (v = VTag (128 + len / 256) (VInt (len mod 256))) as -> by congruence. clear H.
    apply andb_true_iff in E. destruct E as [E1 E2].
    unfold rh2_short in S. apply andb_true_iff in S. destruct S as [S1 S2].
    apply Z.eqb_eq in S1. apply negb_true_iff in S2. subst pad esc.
    assert (0 <= len / 256) by (apply Z.div_pos; lia).
    cbn [rh2_fields]. destruct (128 <=? 128 + len / 256) eqn:G; [|lia].
    pose proof (Z.div_mod len 256 ltac:(lia)). do 3 f_equal. lia.
  - destruct ((0 <=? len) && (len <? 16384) && (0 <=? pad) && (pad <? 256)) eqn:E; [|discriminate].
    intros H.
    assert (v = VTag ((if esc then 64 else 0) + len / 256) (VPair (VInt (len mod 256)) (VInt pad))) as ->
      by congruence. clear H.
    apply andb_true_iff in E. destruct E as [E E4]. apply andb_true_iff in E. destruct E as [E E3].
    apply andb_true_iff in E. destruct E as [E1 E2].
    assert (0 <= len / 256 < 64) by (split; [apply Z.div_pos; lia|apply Z.div_lt_upper_bound; lia]).
    pose proof (Z.div_mod len 256 ltac:(lia)).
    cbn [rh2_fields].
    destruct ((if esc then 64 else 0) + len / 256 <? 128) eqn:G; [|destruct esc; lia].
    assert (((if esc then 64 else 0) + len / 256) mod 64 = len / 256) as M.
    { destruct esc.
      - symmetry. apply (Z.mod_unique_pos _ 64 1). lia. lia.
      - apply Z.mod_small. lia. }
    rewrite M. f_equal. f_equal; [f_equal; lia|].
    destruct esc; [destruct (64 <=? 64 + len / 256) eqn:Q; [reflexivity|lia]
                  |destruct (64 <=? 0 + len / 256) eqn:Q; [lia|reflexivity]].
Qed.
