(* C03 -- lemmas about Model/C03_Negotiate.v *)
From Coq Require Import ZArith List Bool Lia.
From TV Require Import Base.Prelude Gen.C03Tables Model.C03_Negotiate.
Import ListNotations.
Open Scope Z_scope.

(* ---- basic list facts ---------------------------------------------------- *)
Lemma memZ_In x l : memZ x l = true <-> In x l.
Proof.
  unfold memZ. rewrite existsb_exists. split.
  - intros [y [Hy E]]. apply Z.eqb_eq in E. subst. exact Hy.
  - intros H. exists x. split; [exact H|apply Z.eqb_refl].
Qed.

Lemma first_matching_some a b x : first_matching a b = Some x -> In x a /\ In x b.
Proof.
  induction a as [|y t IH]; cbn [first_matching]; [discriminate|].
  destruct (memZ y b) eqn:E.
  - intros H. injection H as <-. split; [left; reflexivity|apply memZ_In; exact E].
  - intros H. destruct (IH H) as [A B]. split; [right; exact A|exact B].
Qed.

Lemma first_matching_none a b : first_matching a b = None -> forall x, In x a -> In x b -> False.
Proof.
  induction a as [|y t IH]; cbn [first_matching]; intros H x Hx Hb; [destruct Hx|].
  destruct (memZ y b) eqn:E; [discriminate|].
  destruct Hx as [->|Hx]; [apply memZ_In in Hb; congruence|exact (IH H x Hx Hb)].
Qed.

Lemma first_matching_is_some a b x : In x a -> In x b -> exists y, first_matching a b = Some y.
Proof.
  intros Ha Hb. destruct (first_matching a b) eqn:E; [eexists; reflexivity|].
  exfalso. exact (first_matching_none a b E x Ha Hb).
Qed.

Lemma in_flat_map_filter (f : list Z -> list Z) (bases : list (list Z)) x :
  In x (flat_map f bases) -> exists b, In b bases /\ In x (f b).
Proof. intros H. apply in_flat_map in H. exact H. Qed.

(* ---- inversion of successful monadic runs -------------------------------- *)
Ltac inv_ok H :=
  repeat (cbn [bind] in H;
    match type of H with
    | bind ?m _ = Ok _ => let E := fresh "E" in destruct m eqn:E; cbn [bind] in H; [|discriminate H]
    | (let '(_, _) := ?p in _) = Ok _ => let E := fresh "E" in destruct p eqn:E
    | (if ?b then _ else _) = Ok _ => let E := fresh "E" in destruct b eqn:E
    | match ?x with _ => _ end = Ok _ => let E := fresh "E" in destruct x eqn:E
    | Err _ = Ok _ => discriminate H
    | client_alert _ = Ok _ => discriminate H
    | server_alert _ = Ok _ => discriminate H
    | client_crash = Ok _ => discriminate H
    | server_crash = Ok _ => discriminate H
    | crash_or ?f _ _ = Ok _ => unfold crash_or in H; destruct f; discriminate H
    end).

(* ---- what "allowed by these settings" means ------------------------------ *)
Definition admitted_P (tbl : list (Z * bool * list Z)) (names : list Z) (v s : Z) : Prop :=
  exists n gate l, In (n, gate, l) tbl /\ In n names /\ (gate = true -> 3 <= v) /\ In s l.

Lemma admitted_spec tbl names v s : admitted tbl names v s = true -> admitted_P tbl names v s.
Proof.
  unfold admitted, admitted_P. rewrite existsb_exists.
  intros [[[n gate] l] [Hin H]].
  apply andb_true_iff in H. destruct H as [H H3]. apply andb_true_iff in H. destruct H as [H1 H2].
  exists n, gate, l. repeat split.
  - exact Hin.
  - apply memZ_In. exact H1.
  - intros ->. cbn in H2. apply Z.leb_le. exact H2.
  - apply memZ_In. exact H3.
Qed.

(* the suite's MAC class, cipher and key exchange are each enabled by name in st *)
Definition suite_within (st : Settings) (v s : Z) : Prop :=
  admitted_P mac_table (st_macs st) v s /\
  admitted_P cipher_table (st_ciphers st) v s /\
  ((4 <= v /\ In s kx_tls13_list) \/ admitted_P kx_table (st_kxs st) v s).

Lemma suite_allowed_within st v s : suite_allowed st v s = true -> suite_within st v s.
Proof.
  unfold suite_allowed, suite_within. intros H.
  apply andb_true_iff in H. destruct H as [H H3]. apply andb_true_iff in H. destruct H as [H1 H2].
  split; [apply admitted_spec; exact H1|]. split; [apply admitted_spec; exact H2|].
  apply orb_true_iff in H3. destruct H3 as [H3|H3].
  - left. apply andb_true_iff in H3. destruct H3 as [A B]. split; [apply Z.leb_le; exact A|apply memZ_In; exact B].
  - right. apply admitted_spec. exact H3.
Qed.

Lemma in_get_suites st v bases x : In x (get_suites st v bases) -> suite_allowed st v x = true.
Proof.
  unfold get_suites. intros H. apply in_flat_map in H. destruct H as [b [_ H]].
  unfold filter_suites in H. apply filter_In in H. exact (proj2 H).
Qed.

Lemma in_filter_for_version l lo hi x : In x (filter_for_version l lo hi) -> In x l /\ suite_in_version lo hi x = true.
Proof. unfold filter_for_version. intros H. apply filter_In in H. exact H. Qed.

(* ---- the signalling values are not suites of any version ------------------ *)
Lemma scsv_not_versioned lo hi : suite_in_version lo hi scsv_renego = false.
Proof.
  unfold suite_in_version.
  replace (memZ scsv_renego ssl3Suites) with false by (vm_compute; reflexivity).
  replace (memZ scsv_renego tls12Suites) with false by (vm_compute; reflexivity).
  replace (memZ scsv_renego tls13Suites) with false by (vm_compute; reflexivity).
  rewrite !andb_false_r. reflexivity.
Qed.

Lemma fallback_not_versioned lo hi : suite_in_version lo hi scsv_fallback = false.
Proof.
  unfold suite_in_version.
  replace (memZ scsv_fallback ssl3Suites) with false by (vm_compute; reflexivity).
  replace (memZ scsv_fallback tls12Suites) with false by (vm_compute; reflexivity).
  replace (memZ scsv_fallback tls13Suites) with false by (vm_compute; reflexivity).
  rewrite !andb_false_r. reflexivity.
Qed.

(* ---- client offer --------------------------------------------------------- *)
Lemma client_offer_suites c ch : client_offer c = Ok ch ->
  ch_suites ch = scsv_renego :: client_suites c ++ (if cl_fallback c then [scsv_fallback] else []).
Proof.
  unfold client_offer. intros H.
  destruct (if 3 <=? st_maxV (cl_set c) then Some (client_sigalgs (cl_set c)) else None) as [[|a l]|];
    try discriminate H; injection H as <-; reflexivity.
Qed.

Lemma client_offer_sni c ch : client_offer c = Ok ch -> ch_sni ch = cl_sni c.
Proof.
  unfold client_offer. intros H.
  destruct (if 3 <=? st_maxV (cl_set c) then Some (client_sigalgs (cl_set c)) else None) as [[|a l]|];
    try discriminate H; injection H as <-; reflexivity.
Qed.

Lemma client_offer_npn c ch : client_offer c = Ok ch ->
  ch_npn ch = match cl_npn c with Some _ => true | None => false end.
Proof.
  unfold client_offer. intros H.
  destruct (if 3 <=? st_maxV (cl_set c) then Some (client_sigalgs (cl_set c)) else None) as [[|a l]|];
    try discriminate H; injection H as <-; reflexivity.
Qed.

Lemma client_offer_rsl c ch r : client_offer c = Ok ch -> ch_rsl ch = Some r -> st_rsl (cl_set c) = Some r.
Proof.
  unfold client_offer. intros H.
  destruct (if 3 <=? st_maxV (cl_set c) then Some (client_sigalgs (cl_set c)) else None) as [[|a l]|];
    try discriminate H; injection H as <-; cbn [ch_rsl];
    destruct (negb (st_maxV (cl_set c) =? 0)); intros E; try discriminate E; exact E.
Qed.

Lemma client_offer_sigalgs c ch l : client_offer c = Ok ch -> ch_sigalgs ch = Some l -> l = client_sigalgs (cl_set c).
Proof.
  unfold client_offer. intros H.
  destruct (if 3 <=? st_maxV (cl_set c) then Some (client_sigalgs (cl_set c)) else None) as [[|a l']|] eqn:E;
    try discriminate H; injection H as <-; cbn [ch_sigalgs];
    destruct (negb (st_maxV (cl_set c) =? 0)); intros E'; try discriminate E'; injection E' as <-.
  destruct (3 <=? st_maxV (cl_set c)); cbv iota in E; [|discriminate E]. injection E as E. symmetry. exact E.
Qed.

Definition client_groups_policy (st : Settings) : list Z := st_shares st ++ st_curves st ++ st_dhgroups st.

Lemma in_curves_to_list st v g : In g (curves_to_list st v) -> In g (st_curves st).
Proof.
  unfold curves_to_list. destruct (_ || _); [|auto]. intros H. apply filter_In in H. exact (proj1 H).
Qed.

Lemma in_client_groups c g : In g (client_groups c) -> In g (client_groups_policy (cl_set c)).
Proof.
  unfold client_groups, client_groups_policy.
  set (g0 := (if existsb (fun s : Z => memZ s ecdhAllSuites) (client_suites c) || _ then curves_to_list (cl_set c) 4 else []) ++
             (if _ || existsb (fun s : Z => memZ s dhAllSuites) (client_suites c) then st_dhgroups (cl_set c) else [])).
  assert (G0 : forall x, In x g0 -> In x (st_curves (cl_set c)) \/ In x (st_dhgroups (cl_set c))).
  { intros x Hx. unfold g0 in Hx. apply in_app_or in Hx. destruct Hx as [Hx|Hx].
    - destruct (_ || _) in Hx; [left; eapply in_curves_to_list; exact Hx|destruct Hx].
    - destruct (_ || _) in Hx; [right; exact Hx|destruct Hx]. }
  destruct g0 as [|x0 t0] eqn:EG; [intros []|].
  destruct (_ && _); intros Hg.
  - apply in_app_or in Hg. destruct Hg as [Hg|Hg].
    + apply in_or_app. left. exact Hg.
    + apply filter_In in Hg. destruct (G0 g (proj1 Hg)) as [A|A];
        apply in_or_app; right; apply in_or_app; [left|right]; exact A.
  - destruct (G0 g Hg) as [A|A]; apply in_or_app; right; apply in_or_app; [left|right]; exact A.
Qed.

Lemma client_offer_groups c ch gs g : client_offer c = Ok ch -> ch_groups ch = Some gs -> In g gs ->
  In g (client_groups_policy (cl_set c)).
Proof.
  unfold client_offer. intros H.
  destruct (if 3 <=? st_maxV (cl_set c) then Some (client_sigalgs (cl_set c)) else None) as [[|a l]|];
    try discriminate H; injection H as <-; cbn [ch_groups];
  (destruct (negb (st_maxV (cl_set c) =? 0)); [|discriminate]);
  (destruct (client_groups c) as [|x0 t0] eqn:EG; [discriminate|]);
  intros E; injection E as <-; intros Hg; apply in_client_groups; rewrite EG; exact Hg.
Qed.

(* ---- server: suite selection ---------------------------------------------- *)
Lemma server_select_suite_in s ch v suites suite sig :
  server_select_suite s ch v suites = Ok (suite, sig) -> In suite suites /\ In suite (ch_suites ch).
Proof.
  unfold server_select_suite. intros H.
  destruct (fix_eddsa_server && (v <? 3) && _); [discriminate H|].
  destruct (first_matching _ (ch_suites ch)) as [x|] eqn:E.
  2:{ destruct (_ && existsb _ (ch_suites ch)); discriminate H. }
  apply first_matching_some in E. destruct E as [A B].
  assert (Hx : In x suites).
  { destruct (fix_psk_prf_tls13_only && (v <? 4)) in A;
      [unfold filter_for_certificate in A; apply filter_In in A; exact (proj1 A)|].
    destruct (map snd _) in A.
    - unfold filter_for_certificate in A. apply filter_In in A. exact (proj1 A).
    - destruct (fix_psk_prf_fallback && _) in A;
        [unfold filter_for_certificate in A; apply filter_In in A; exact (proj1 A)|].
      unfold filter_for_prfs in A. apply filter_In in A. destruct A as [A _].
      unfold filter_for_certificate in A. apply filter_In in A. exact (proj1 A). }
  assert (Hs : suite = x).
  { inv_ok H; injection H as <- _; reflexivity. }
  subst. split; assumption.
Qed.

Lemma in_server_suites s ch v x : In x (server_suites s ch v) ->
  suite_allowed (sv_set s) v x = true /\ suite_in_version v v x = true.
Proof.
  unfold server_suites. intros H.
  destruct (match ch_groups ch with None => (true, true) | Some cg => _ end) as [ec ff].
  apply in_filter_for_version in H. destruct H as [H Hv]. split; [|exact Hv].
  destruct (sv_srp s).
  - apply in_app_or in H. destruct H as [H|H].
    + destruct (sv_cert s); [eapply in_get_suites; exact H|destruct H].
    + eapply in_get_suites; exact H.
  - destruct (sv_cert s).
    + apply in_app_or in H. destruct H as [H|H].
      { destruct (ec || ff); [eapply in_get_suites; exact H|destruct H]. }
      apply in_app_or in H. destruct H as [H|H].
      { destruct ec; [eapply in_get_suites; exact H|destruct H]. }
      apply in_app_or in H. destruct H as [H|H].
      { destruct ff; [eapply in_get_suites; exact H|destruct H]. }
      eapply in_get_suites; exact H.
    + destruct (sv_anon s); eapply in_get_suites; exact H.
Qed.

Lemma server_hello_stage_facts s ch h v suite sig grp :
  server_hello_stage s ch h = Ok (v, suite, sig, grp) ->
  server_pick_version (sv_set s) ch = Ok v /\
  server_min_version (sv_set s) ch = Ok tt /\
  In suite (server_suites s ch v) /\ In suite (ch_suites ch) /\
  (3 < v -> server_group13 (sv_set s) ch = Ok grp) /\
  server_select_suite s ch v (server_suites s ch v) = Ok (suite, sig).
Proof.
  unfold server_hello_stage. intros H.
  destruct (server_min_version (sv_set s) ch) as [[]|] eqn:E0; [|discriminate H]. cbn [bind] in H.
  destruct (server_tls13_sanity ch) as [[]|] eqn:E1; [|discriminate H]. cbn [bind] in H.
  destruct (server_pick_version (sv_set s) ch) as [v'|] eqn:E2; [|discriminate H]. cbn [bind] in H.
  destruct (if (v' <? st_maxV (sv_set s)) && ch_fallback ch then _ else _) as [[]|] eqn:E3; [|discriminate H]. cbn [bind] in H.
  destruct (match ch_rsl ch with Some r => _ | None => _ end) as [[]|] eqn:E4; [|discriminate H]. cbn [bind] in H.
  destruct (server_select_suite s ch v' (server_suites s ch v')) as [[su sg]|] eqn:E5; [|discriminate H]. cbn [bind] in H.
  destruct (if 3 <? v' then server_group13 (sv_set s) ch else Ok (0, false)) as [g|] eqn:E6; [|discriminate H]. cbn [bind] in H.
  injection H as <- <- <- <-.
  destruct (server_select_suite_in _ _ _ _ _ _ E5) as [A B].
  repeat split; try assumption; try reflexivity.
  intros Hv. apply Z.ltb_lt in Hv. rewrite Hv in E6. exact E6.
Qed.

(* ---- stage lemmas: TLS <= 1.2 -------------------------------------------- *)
Definition legacy_secret (fl : Flight) : SecretIn :=
  {| si_version := fl_version fl; si_prf := prf_of (fl_suite fl); si_ems := fl_ems fl;
     si_kex := kex_of (fl_suite fl); si_group := fl_group fl; si_dh_bits := fl_dh_bits fl;
     si_psk := None; si_hrr := false |}.

Definition authed_suite (suite : Z) : bool :=
  memZ suite certAllSuites || memZ suite ecdheEcdsaSuites || memZ suite dheDsaSuites.

Lemma pick_ske_sig_some st offered cert v sg :
  pick_ske_sig st offered cert v = Ok (Some sg) ->
  exists l, offered = Some l /\ In sg l /\ In sg (sig_hashes_to_list st false cert v).
Proof.
  unfold pick_ske_sig. destruct offered as [l|]; [|discriminate].
  destruct (first_matching _ l) eqn:E; [|discriminate]. intros H. injection H as <-.
  apply first_matching_some in E. exists l. split; [reflexivity|]. split; [exact (proj2 E)|exact (proj1 E)].
Qed.

Lemma server_legacy_facts s ch v suite fl sv :
  server_legacy s ch v suite = Ok (fl, sv) ->
  (fl_version fl = v /\ fl_suite fl = suite /\ fl_psk fl = None /\ fl_hrr fl = false) /\
  (vw_version sv = v /\ vw_suite sv = suite /\ vw_etm sv = fl_etm fl /\ vw_ems sv = fl_ems fl /\
   vw_alpn sv = fl_alpn fl /\ vw_sni sv = ch_sni ch /\ vw_secret sv = legacy_secret fl) /\
  (vw_recv_limit sv = match fl_rsl fl with Some r => r | None => two14 end /\
   vw_send_limit sv = match fl_rsl fl, ch_rsl ch with Some _, Some r => Z.min two14 r | _, _ => two14 end /\
   (forall r, fl_rsl fl = Some r -> exists r', ch_rsl ch = Some r')) /\
  (kex_of suite = 2 -> forall g, fl_group fl = Some g -> In g (st_curves (sv_set s))) /\
  (forall sg, fl_sig fl = Some sg -> exists l, ch_sigalgs ch = Some l /\ In sg l /\
                                     In sg (sig_hashes_to_list (sv_set s) false (sv_cert s) 3)) /\
  (fl_cert fl = if authed_suite suite then sv_cert s else None) /\
  (vw_server_chain sv = if memZ suite certAllSuites || memZ suite ecdheEcdsaSuites
                           || (fix_dhe_dsa_chain && memZ suite dheDsaSuites)
                        then match sv_cert s with Some c => Some (ct_id c) | None => None end else None) /\
  (forall algs, fl_cert_req fl = Some algs -> algs = sig_hashes_to_list (sv_set s) false None v).
Proof.
  intros H. unfold server_legacy in H. inv_ok H. injection H as <- <-.
  cbn [fl_version fl_suite fl_psk fl_hrr vw_version vw_suite vw_etm fl_etm vw_ems fl_ems vw_alpn fl_alpn vw_sni
       vw_secret vw_recv_limit vw_send_limit fl_rsl fl_group fl_sig fl_cert vw_server_chain fl_cert_req fl_dh_bits].
  split; [repeat split|]. split; [repeat split|]. split.
  { destruct (ch_rsl ch) as [r|], (st_rsl (sv_set s)) as [m|]; cbn [fst snd]; repeat split; try reflexivity;
      intros r0 Hr; try discriminate Hr; eexists; reflexivity. }
  split.
  { intros K g Hg. rewrite K in Hg, E4. cbn [Z.eqb Pos.eqb] in Hg, E4.
    subst a4. destruct (first_matching _ (curves_to_list (sv_set s) v)) eqn:F; [|discriminate E4].
    injection E4 as <-. apply first_matching_some in F. eapply in_curves_to_list. exact (proj2 F). }
  split.
  { intros sg Hsg. destruct (_ && (3 <=? v)); [|discriminate Hsg]. subst a1.
    destruct (_ || _) in E1; [|discriminate E1]. exact (pick_ske_sig_some _ _ _ _ _ E1). }
  split; [reflexivity|]. split; [reflexivity|].
  intros algs Ha. destruct (_ && sv_req_cert s); [|discriminate Ha]. injection Ha as <-. reflexivity.
Qed.

Lemma check_chain_key_size who st v c :
  check_chain who st v c = Ok tt ->
  (ct_alg c = 0 \/ ct_alg c = 1 \/ ct_alg c = 5) -> st_min_key st <= ct_bits c <= st_max_key st.
Proof.
  unfold check_chain. intros H A.
  destruct (ct_alg c =? 2) eqn:E2; [apply Z.eqb_eq in E2; lia|].
  destruct ((ct_alg c =? 3) || (ct_alg c =? 4)) eqn:E3.
  { apply orb_true_iff in E3. destruct E3 as [E3|E3]; apply Z.eqb_eq in E3; lia. }
  destruct (ct_bits c <? st_min_key st) eqn:L1; [discriminate H|].
  destruct (st_max_key st <? ct_bits c) eqn:L2; [discriminate H|].
  apply Z.ltb_ge in L1. apply Z.ltb_ge in L2. lia.
Qed.

Lemma check_chain_curve who st v c :
  check_chain who st v c = Ok tt -> ct_alg c = 2 -> v <= 3 -> In (ct_curve c) (st_curves st).
Proof.
  unfold check_chain. intros H A Hv. rewrite A in H. cbn [Z.eqb Pos.eqb] in H.
  destruct (v <=? 3) eqn:L; [|apply Z.leb_gt in L; lia]. cbn [andb] in H.
  destruct (memZ (ct_curve c) (st_curves st)) eqn:M; [apply memZ_In; exact M|discriminate H].
Qed.

Lemma client_legacy_facts c ch fl cv ccert cvalg npn :
  client_legacy c ch fl = Ok (cv, ccert, cvalg, npn) ->
  (vw_version cv = fl_version fl /\ vw_suite cv = fl_suite fl /\ vw_etm cv = fl_etm fl /\
   vw_ems cv = fl_ems fl /\ vw_alpn cv = fl_alpn fl /\ vw_sni cv = cl_sni c /\
   vw_secret cv = legacy_secret fl /\ vw_npn cv = npn) /\
  (vw_send_limit cv = match fl_rsl fl with Some r => r | None => two14 end /\
   vw_recv_limit cv = match fl_rsl fl, st_rsl (cl_set c) with
                      | Some _, Some mine => Z.min two14 mine | _, _ => two14 end) /\
  (kex_of (fl_suite fl) = 2 -> forall g, fl_group fl = Some g -> In g (st_curves (cl_set c))) /\
  (authed_suite (fl_suite fl) = true -> exists sc, fl_cert fl = Some sc /\
      check_chain 1000 (cl_set c) (fl_version fl) sc = Ok tt /\
      forall sg, fl_sig fl = Some sg -> In sg (sig_hashes_to_list (cl_set c) false (Some sc) 3)) /\
  (vw_server_chain cv = if authed_suite (fl_suite fl)
                        then match fl_cert fl with Some sc => Some (ct_id sc) | None => None end else None) /\
  (vw_client_chain cv = match ccert with Some mc => Some (ct_id mc) | None => None end) /\
  (ccert = match fl_cert_req fl with Some _ => cl_cert c | None => None end) /\
  (forall sg, vw_sig cv = Some sg -> fl_sig fl = Some sg) /\
  (kex_of (fl_suite fl) = 3 -> forall b, fl_srp_bits fl = Some b -> st_min_key (cl_set c) <= b <= st_max_key (cl_set c)).
Proof.
  intros H. unfold client_legacy in H. fold (authed_suite (fl_suite fl)) in H. inv_ok H.
  injection H as <- <- <- <-.
  cbn [vw_version vw_suite vw_etm vw_ems vw_alpn vw_sni vw_secret vw_npn vw_send_limit vw_recv_limit
       vw_server_chain vw_client_chain vw_sig].
  split; [repeat split|]. split.
  { destruct (fl_rsl fl), (st_rsl (cl_set c)); cbn [fst snd]; split; reflexivity. }
  split.
  { intros K g Hg. rewrite K in E3. cbn [Z.eqb Pos.eqb] in E3. rewrite Hg in E3.
    destruct (memZ g (curves_to_list (cl_set c) 4)) eqn:M; [|discriminate E3].
    apply memZ_In in M. eapply in_curves_to_list. exact M. }
  split.
  { intros A. rewrite A in E0. destruct (fl_cert fl) as [sc|]; [|discriminate E0].
    exists sc. split; [reflexivity|].
    destruct (check_chain 1000 (cl_set c) (fl_version fl) sc) as [[]|] eqn:CC; [|discriminate E0].
    split; [reflexivity|]. cbn [bind] in E0.
    destruct (fix_cert_type_vs_suite && negb (cert_fits_suite (fl_suite fl) (ct_alg sc))); [discriminate E0|].
    cbn [bind] in E0. intros sg Hsg. rewrite Hsg in E0.
    destruct (memZ sg _) eqn:M; [apply memZ_In; exact M|discriminate E0]. }
  split; [reflexivity|]. split; [reflexivity|]. split; [reflexivity|]. split.
  { intros sg Hsg. destruct (_ && _) in Hsg; [exact Hsg|]. destruct (_ && _) in Hsg; [exact Hsg|discriminate Hsg]. }
  intros K b Hb. rewrite K in E3. cbn [Z.eqb Pos.eqb] in E3. rewrite Hb in E3.
  destruct (b <? st_min_key (cl_set c)) eqn:L1; [discriminate E3|].
  destruct (st_max_key (cl_set c) <? b) eqn:L2; [discriminate E3|].
  apply Z.ltb_ge in L1. apply Z.ltb_ge in L2. lia.
Qed.

Lemma server_legacy_finish_facts s fl sv0 ccert cv npn sv :
  server_legacy_finish s fl sv0 ccert cv npn = Ok sv ->
  (vw_version sv = vw_version sv0 /\ vw_suite sv = vw_suite sv0 /\ vw_etm sv = vw_etm sv0 /\
   vw_ems sv = vw_ems sv0 /\ vw_alpn sv = vw_alpn sv0 /\ vw_sni sv = vw_sni sv0 /\
   vw_send_limit sv = vw_send_limit sv0 /\ vw_recv_limit sv = vw_recv_limit sv0 /\
   vw_server_chain sv = vw_server_chain sv0 /\ vw_secret sv = vw_secret sv0) /\
  (vw_npn sv = match fl_npn fl with Some _ => npn | None => None end) /\
  (vw_client_chain sv = match fl_cert_req fl, ccert with Some _, Some cc => Some (ct_id cc) | _, _ => None end) /\
  (forall cc, vw_client_chain sv = Some cc -> exists mc, ccert = Some mc /\ ct_id mc = cc /\
      check_chain 2000 (sv_set s) (fl_version fl) mc = Ok tt).
Proof.
  intros H. unfold server_legacy_finish in H. inv_ok H. injection H as <-.
  cbn [vw_version vw_suite vw_etm vw_ems vw_alpn vw_sni vw_send_limit vw_recv_limit vw_server_chain
       vw_secret vw_npn vw_client_chain].
  split; [repeat split|]. split; [reflexivity|].
  destruct (fl_cert_req fl) as [algs|], ccert as [cc|]; cbn [bind] in E;
    try (injection E as <-; split; [reflexivity|intros ? X; discriminate X]).
  inv_ok E; injection E as <-; (split; [reflexivity|]); intros cc' X; injection X as <-;
    exists cc; (split; [reflexivity|]); (split; [reflexivity|]);
    match goal with U : check_chain 2000 _ _ cc = Ok ?u |- _ => destruct u; exact U end.
Qed.

(* ---- the client's checks on the hello ------------------------------------- *)
Lemma client_check_hello_facts c ch fl :
  client_check_hello c ch fl = Ok tt ->
  st_minV (cl_set c) <= fl_version fl /\
  (fl_version fl <= st_maxV (cl_set c) \/ In (fl_version fl) (st_versions (cl_set c))) /\
  In (fl_suite fl) (ch_suites ch) /\ suite_in_version (fl_version fl) (fl_version fl) (fl_suite fl) = true.
Proof.
  unfold client_check_hello. intros H.
  destruct (fl_version fl <? st_minV (cl_set c)) eqn:E1; [discriminate H|].
  destruct ((st_maxV (cl_set c) <? fl_version fl) && negb (memZ (fl_version fl) (st_versions (cl_set c)))) eqn:E2;
    [discriminate H|].
  destruct (negb (memZ (fl_suite fl) (filter_for_version (ch_suites ch) (fl_version fl) (fl_version fl)))) eqn:E3;
    [discriminate H|].
  apply Z.ltb_ge in E1. split; [lia|]. split.
  - apply andb_false_iff in E2. destruct E2 as [E2|E2].
    + apply Z.ltb_ge in E2. left. lia.
    + apply negb_false_iff in E2. right. apply memZ_In. exact E2.
  - apply negb_false_iff in E3. apply memZ_In in E3. apply in_filter_for_version in E3. exact E3.
Qed.

(* ---- stage lemmas: TLS 1.3 ------------------------------------------------ *)
Lemma index_where_nth f l start i x :
  index_where f l start = Some (i, x) -> start <= i /\ nth_error l (Z.to_nat (i - start)) = Some x.
Proof.
  revert start. induction l as [|y t IH]; intros start; cbn [index_where]; [discriminate|].
  destruct (f y).
  - intros H. injection H as <- <-. split; [lia|]. replace (start - start) with 0 by lia. reflexivity.
  - intros H. destruct (IH _ H) as [A B]. split; [lia|].
    replace (Z.to_nat (i - start)) with (S (Z.to_nat (i - (start + 1)))) by lia. exact B.
Qed.

Definition tls13_secret (fl : Flight) (psk : option Z) : SecretIn :=
  {| si_version := fl_version fl; si_prf := prf_of (fl_suite fl); si_ems := true;
     si_kex := match fl_group fl with Some _ => 4 | None => 5 end;
     si_group := fl_group fl; si_dh_bits := None; si_psk := psk; si_hrr := fl_hrr fl |}.

Lemma server_tls13_facts s ch v suite scheme grp alpn fl sv :
  server_tls13 s ch v suite scheme grp alpn = Ok (fl, sv) ->
  (fl_version fl = v /\ fl_suite fl = suite /\ fl_etm fl = false /\ fl_ems fl = true /\ fl_alpn fl = alpn) /\
  (vw_version sv = v /\ vw_suite sv = suite /\ vw_etm sv = false /\ vw_ems sv = true /\
   vw_alpn sv = alpn /\ vw_sni sv = ch_sni ch /\ vw_npn sv = None) /\
  (vw_secret sv = tls13_secret fl (match fl_psk fl with
                                   | Some i => nth_error (ch_psk_ids ch) (Z.to_nat i) | None => None end)) /\
  (forall g, fl_group fl = Some g -> g = fst grp) /\
  (fl_rsl fl = match ch_rsl ch, st_rsl (sv_set s) with Some _, Some r => Some (Z.min (two14 + 1) r) | _, _ => None end /\
   vw_send_limit sv = match ch_rsl ch, st_rsl (sv_set s) with Some r, Some _ => Z.min two14 (r - 1) | _, _ => two14 end /\
   vw_recv_limit sv = match ch_rsl ch, st_rsl (sv_set s) with Some _, Some m => Z.min two14 (m - 1) | _, _ => two14 end) /\
  (fl_cert fl = match fl_psk fl with None => sv_cert s | Some _ => None end) /\
  (fl_sig fl = match fl_psk fl with None => scheme | Some _ => None end) /\
  (vw_server_chain sv = match sv_cert s with Some c => Some (ct_id c) | None => None end) /\
  (forall algs, fl_cert_req fl = Some algs -> algs = sig_hashes_to_list (sv_set s) false None v).
Proof.
  intros H. unfold server_tls13 in H.
  match type of H with context [index_where ?f ?l ?z] => set (IW := index_where f l z) in * end.
  match type of H with bind (match ?p with _ => _ end) _ = _ => set (PSK := p) in * end.
  destruct (match PSK with Some _ => _ | None => _ end) as [dhe|] eqn:ED; [|discriminate H].
  cbn [bind] in H. injection H as <- <-.
  cbn [fl_version fl_suite fl_etm fl_ems fl_alpn vw_version vw_suite vw_etm vw_ems vw_alpn vw_sni vw_npn
       vw_secret fl_psk fl_group fl_rsl vw_send_limit vw_recv_limit fl_cert fl_sig vw_server_chain fl_cert_req fl_hrr].
  split; [repeat split|]. split; [repeat split|]. split.
  { unfold tls13_secret. cbn [fl_suite fl_group fl_hrr fl_version].
    destruct PSK as [[i ident]|] eqn:EP.
    - assert (EI : IW = Some (i, ident)).
      { unfold PSK in EP. destruct (_ && _) in EP; [exact EP|discriminate EP]. }
      unfold IW in EI. apply index_where_nth in EI. destruct EI as [_ EI].
      replace (i - 0) with i in EI by lia. rewrite EI. destruct dhe; reflexivity.
    - destruct dhe; reflexivity. }
  split.
  { intros g Hg. destruct dhe; [injection Hg as <-; reflexivity|discriminate Hg]. }
  split.
  { destruct (ch_rsl ch), (st_rsl (sv_set s)); cbn [fst snd]; repeat split; reflexivity. }
  split; [destruct PSK as [[? ?]|]; reflexivity|].
  split; [destruct PSK as [[? ?]|]; reflexivity|].
  split; [reflexivity|].
  intros algs Ha. destruct (_ && sv_req_cert s); [|discriminate Ha]. injection Ha as <-. reflexivity.
Qed.

Lemma client_tls13_facts c ch fl cv ccert cvalg :
  client_tls13 c ch fl = Ok (cv, ccert, cvalg) ->
  (vw_version cv = fl_version fl /\ vw_suite cv = fl_suite fl /\ vw_etm cv = false /\ vw_ems cv = true /\
   vw_alpn cv = fl_alpn fl /\ vw_sni cv = cl_sni c /\ vw_npn cv = None) /\
  (vw_secret cv = tls13_secret fl (match fl_psk fl with
                                   | Some i => nth_error (ch_psk_ids ch) (Z.to_nat i) | None => None end)) /\
  (vw_send_limit cv = match fl_rsl fl, st_rsl (cl_set c) with Some r, Some _ => r - 1 | _, _ => two14 end /\
   vw_recv_limit cv = match fl_rsl fl, st_rsl (cl_set c) with Some _, Some m => Z.min two14 (m - 1) | _, _ => two14 end /\
   (forall r, fl_rsl fl = Some r -> exists m, st_rsl (cl_set c) = Some m)) /\
  (fl_psk fl = None -> exists sc, fl_cert fl = Some sc /\ check_chain 1000 (cl_set c) (fl_version fl) sc = Ok tt) /\
  (vw_server_chain cv = match fl_cert fl with Some sc => Some (ct_id sc) | None => None end) /\
  (vw_client_chain cv = match cl_cert c with Some mc => Some (ct_id mc) | None => None end) /\
  (ccert = match fl_cert_req fl with Some _ => cl_cert c | None => None end) /\
  vw_sig cv = fl_sig fl.
Proof.
  intros H. unfold client_tls13 in H. inv_ok H. injection H as <- <- <-.
  cbn [vw_version vw_suite vw_etm vw_ems vw_alpn vw_sni vw_npn vw_secret vw_send_limit vw_recv_limit
       vw_server_chain vw_client_chain vw_sig].
  split; [repeat split|]. split; [reflexivity|]. split.
  { destruct (fl_rsl fl) as [r|], (st_rsl (cl_set c)) as [m|]; cbn [fst snd]; repeat split; try reflexivity;
      intros r0 Hr; try discriminate Hr; try (eexists; reflexivity). discriminate E. }
  split.
  { intros P. rewrite P in E0. destruct (fl_cert fl) as [sc|]; [|discriminate E0].
    exists sc. split; [reflexivity|].
    destruct (check_chain 1000 (cl_set c) (fl_version fl) sc) as [[]|]; [reflexivity|discriminate E0]. }
  repeat split; reflexivity.
Qed.

Lemma server_tls13_finish_facts s fl sv0 ccert cv sv :
  server_tls13_finish s fl sv0 ccert cv = Ok sv ->
  (vw_version sv = vw_version sv0 /\ vw_suite sv = vw_suite sv0 /\ vw_etm sv = vw_etm sv0 /\
   vw_ems sv = vw_ems sv0 /\ vw_alpn sv = vw_alpn sv0 /\ vw_sni sv = vw_sni sv0 /\ vw_npn sv = None /\
   vw_send_limit sv = vw_send_limit sv0 /\ vw_recv_limit sv = vw_recv_limit sv0 /\
   vw_server_chain sv = vw_server_chain sv0 /\ vw_secret sv = vw_secret sv0 /\ vw_sig sv = vw_sig sv0) /\
  (vw_client_chain sv = match fl_cert_req fl, ccert with Some _, Some cc => Some (ct_id cc) | _, _ => None end).
Proof.
  intros H. unfold server_tls13_finish in H. inv_ok H. injection H as <-.
  cbn [vw_version vw_suite vw_etm vw_ems vw_alpn vw_sni vw_npn vw_send_limit vw_recv_limit vw_server_chain
       vw_secret vw_sig vw_client_chain].
  split; [repeat split; try reflexivity; destruct (fl_psk fl); reflexivity|].
  destruct (fl_cert_req fl), ccert as [cc|]; try (injection E as <-; reflexivity).
  inv_ok E; injection E as <-; reflexivity.
Qed.

(* ---- the whole run, split into its stages --------------------------------- *)
Inductive run_of (c : Client) (s : Server) (o : Outcome) : Prop :=
| run_legacy ch v suite sig grp fl sv0 cv ccert cvalg npn sv :
    client_offer c = Ok ch ->
    server_hello_stage s ch (cl_hello2_len c) = Ok (v, suite, sig, grp) -> v <= 3 ->
    server_legacy s ch v suite = Ok (fl, sv0) ->
    client_check_hello c ch fl = Ok tt ->
    client_legacy c ch fl = Ok (cv, ccert, cvalg, npn) ->
    server_legacy_finish s fl sv0 ccert cvalg npn = Ok sv ->
    o = {| oc_client := cv; oc_server := sv; oc_flight := fl; oc_hello := ch; oc_client_cert := ccert |} ->
    run_of c s o
| run_tls13 ch v suite sig grp fl0 sv00 alpn fl sv0 cv ccert cvalg sv :
    client_offer c = Ok ch ->
    server_hello_stage s ch (cl_hello2_len c) = Ok (v, suite, sig, grp) -> 3 < v ->
    server_tls13 s ch v suite sig grp None = Ok (fl0, sv00) ->
    client_check_hello c ch fl0 = Ok tt ->
    server_tls13_alpn s ch = Ok alpn ->
    server_tls13 s ch v suite sig grp alpn = Ok (fl, sv0) ->
    client_tls13 c ch fl = Ok (cv, ccert, cvalg) ->
    server_tls13_finish s fl sv0 ccert cvalg = Ok sv ->
    o = {| oc_client := cv; oc_server := sv; oc_flight := fl; oc_hello := ch; oc_client_cert := ccert |} ->
    run_of c s o.

Lemma negotiate_run c s o : negotiate c s = Ok o -> run_of c s o.
Proof.
  unfold negotiate. intros H.
  destruct (client_offer c) as [ch|] eqn:E0; [|discriminate H]. cbn [bind] in H.
  destruct (server_hello_stage s ch (cl_hello2_len c)) as [[[[v suite] sig] grp]|] eqn:E1; [|discriminate H].
  cbn [bind] in H.
  destruct (3 <? v) eqn:EV.
  - apply Z.ltb_lt in EV.
    destruct (server_tls13 s ch v suite sig grp None) as [[fl0 sv00]|] eqn:E2; [|discriminate H]. cbn [bind] in H.
    destruct (client_check_hello c ch fl0) as [[]|] eqn:E3; [|discriminate H]. cbn [bind] in H.
    destruct (server_tls13_alpn s ch) as [alpn|] eqn:E4; [|discriminate H]. cbn [bind] in H.
    destruct (server_tls13 s ch v suite sig grp alpn) as [[fl sv0]|] eqn:E5; [|discriminate H]. cbn [bind] in H.
    destruct (client_tls13 c ch fl) as [[[cv ccert] cvalg]|] eqn:E6; [|discriminate H]. cbn [bind] in H.
    destruct (server_tls13_finish s fl sv0 ccert cvalg) as [sv|] eqn:E7; [|discriminate H]. cbn [bind] in H.
    injection H as <-. eapply run_tls13; try eassumption. reflexivity.
  - apply Z.ltb_ge in EV.
    destruct (server_legacy s ch v suite) as [[fl sv0]|] eqn:E2; [|discriminate H]. cbn [bind] in H.
    destruct (client_check_hello c ch fl) as [[]|] eqn:E3; [|discriminate H]. cbn [bind] in H.
    destruct (client_legacy c ch fl) as [[[[cv ccert] cvalg] npn]|] eqn:E6; [|discriminate H]. cbn [bind] in H.
    destruct (server_legacy_finish s fl sv0 ccert cvalg npn) as [sv|] eqn:E7; [|discriminate H]. cbn [bind] in H.
    injection H as <-. eapply run_legacy; try eassumption. reflexivity.
Qed.

(* ========================================================================== *)
(*  Main results                                                              *)
(* ========================================================================== *)
Definition views_agree_core (cv sv : View) : Prop :=
  vw_version cv = vw_version sv /\ vw_suite cv = vw_suite sv /\ vw_etm cv = vw_etm sv /\
  vw_ems cv = vw_ems sv /\ vw_alpn cv = vw_alpn sv /\ vw_npn cv = vw_npn sv /\ vw_sni cv = vw_sni sv /\
  vw_send_limit cv = vw_recv_limit sv /\ vw_recv_limit cv = vw_send_limit sv /\
  vw_secret cv = vw_secret sv.

Lemma client_legacy_npn c ch fl cv ccert cvalg npn :
  client_legacy c ch fl = Ok (cv, ccert, cvalg, npn) -> fl_npn fl = None -> npn = None.
Proof.
  intros H N. unfold client_legacy in H. inv_ok H. injection H as _ _ _ <-.
  rewrite N. destruct (cl_npn c); reflexivity.
Qed.

Lemma views_agree_core_all c s o : negotiate c s = Ok o -> views_agree_core (oc_client o) (oc_server o).
Proof.
  intros H. apply negotiate_run in H. destruct H as
    [ch v suite sig grp fl sv0 cv ccert cvalg npn sv H0 H1 Hv H2 H3 H4 H5 ->
    |ch v suite sig grp fl0 sv00 alpn fl sv0 cv ccert cvalg sv H0 H1 Hv H2 H3 H4 H5 H6 H7 ->];
  cbn [oc_client oc_server]; unfold views_agree_core.
  - destruct (server_legacy_facts _ _ _ _ _ _ H2) as [[F1 [F2 [F3 F4]]] [[S1 [S2 [S3 [S4 [S5 [S6 S7]]]]]] [[L1 [L2 L3]] _]]].
    destruct (client_legacy_facts _ _ _ _ _ _ _ H4) as [[C1 [C2 [C3 [C4 [C5 [C6 [C7 C8]]]]]]] [[M1 M2] _]].
    destruct (server_legacy_finish_facts _ _ _ _ _ _ _ H5) as [[T1 [T2 [T3 [T4 [T5 [T6 [T7 [T8 [T9 T10]]]]]]]]] [TN _]].
    rewrite T1, T2, T3, T4, T5, T6, T7, T8, T10, S1, S2, S3, S4, S5, S6, S7, C1, C2, C3, C4, C5, C6, C7, F1, F2, L1, L2, M1, M2, TN.
    repeat split; try reflexivity.
    + rewrite C8. destruct (fl_npn fl) eqn:N; [reflexivity|]. exact (client_legacy_npn _ _ _ _ _ _ _ H4 N).
    + symmetry. exact (client_offer_sni _ _ H0).
    + destruct (fl_rsl fl) as [r|] eqn:R; [|reflexivity].
      destruct (L3 r eq_refl) as [r' Hr']. rewrite Hr'. rewrite (client_offer_rsl _ _ _ H0 Hr'). reflexivity.
  - destruct (server_tls13_facts _ _ _ _ _ _ _ _ _ H5) as [[F1 [F2 [F3 [F4 F5]]]] [[S1 [S2 [S3 [S4 [S5 [S6 S7]]]]]] [SS [_ [[L0 [L1 L2]] _]]]]].
    destruct (client_tls13_facts _ _ _ _ _ _ H6) as [[C1 [C2 [C3 [C4 [C5 [C6 C7]]]]]] [CS [[M1 [M2 M3]] _]]].
    destruct (server_tls13_finish_facts _ _ _ _ _ _ H7) as [[T1 [T2 [T3 [T4 [T5 [T6 [T7 [T8 [T9 [T10 [T11 T12]]]]]]]]]]] _].
    rewrite T1, T2, T3, T4, T5, T6, T7, T8, T9, T11, S1, S2, S3, S4, S5, S6, C1, C2, C3, C4, C5, C6, C7, F1, F2, F5, CS, SS, L1, L2, M1, M2.
    repeat split; try reflexivity.
    + symmetry. exact (client_offer_sni _ _ H0).
    + rewrite L0. destruct (ch_rsl ch) as [r|] eqn:R; [|reflexivity].
      destruct (st_rsl (sv_set s)) as [m|]; [|reflexivity].
      rewrite (client_offer_rsl _ _ _ H0 R). unfold two14. lia.
    + rewrite L0. destruct (ch_rsl ch) as [r|] eqn:R; [|reflexivity].
      destruct (st_rsl (sv_set s)) as [m|]; [|reflexivity].
      rewrite (client_offer_rsl _ _ _ H0 R). reflexivity.
Qed.

Lemma server_chain_agrees c s o : negotiate c s = Ok o ->
  fl_psk (oc_flight o) = None -> memZ (vw_suite (oc_server o)) dheDsaSuites = false ->
  vw_server_chain (oc_client o) = vw_server_chain (oc_server o).
Proof.
  intros H. apply negotiate_run in H. destruct H as
    [ch v suite sig grp fl sv0 cv ccert cvalg npn sv H0 H1 Hv H2 H3 H4 H5 ->
    |ch v suite sig grp fl0 sv00 alpn fl sv0 cv ccert cvalg sv H0 H1 Hv H2 H3 H4 H5 H6 H7 ->];
  cbn [oc_client oc_server oc_flight]; intros P D.
  - destruct (server_legacy_facts _ _ _ _ _ _ H2) as [[F1 [F2 _]] [[S1 [S2 _]] [_ [_ [_ [FC [SC _]]]]]]].
    destruct (client_legacy_facts _ _ _ _ _ _ _ H4) as [_ [_ [_ [_ [CC _]]]]].
    destruct (server_legacy_finish_facts _ _ _ _ _ _ _ H5) as [[_ [T2 [_ [_ [_ [_ [_ [_ [T9 _]]]]]]]]] _].
    rewrite T2, S2 in D. rewrite CC, T9, SC, FC, F2. unfold authed_suite. rewrite D. rewrite ?andb_false_r, ?orb_false_r.
    destruct (memZ suite certAllSuites || memZ suite ecdheEcdsaSuites); reflexivity.
  - destruct (server_tls13_facts _ _ _ _ _ _ _ _ _ H5) as [_ [_ [_ [_ [_ [FC [_ [SC _]]]]]]]].
    destruct (client_tls13_facts _ _ _ _ _ _ H6) as [_ [_ [_ [_ [CC _]]]]].
    destruct (server_tls13_finish_facts _ _ _ _ _ _ H7) as [[_ [_ [_ [_ [_ [_ [_ [_ [_ [T10 _]]]]]]]]]] _].
    rewrite CC, T10, SC, FC, P. reflexivity.
Qed.

Lemma client_chain_agrees c s o : negotiate c s = Ok o ->
  (vw_version (oc_server o) <= 3 \/ fl_cert_req (oc_flight o) <> None \/ cl_cert c = None) ->
  vw_client_chain (oc_client o) = vw_client_chain (oc_server o).
Proof.
  intros H. apply negotiate_run in H. destruct H as
    [ch v suite sig grp fl sv0 cv ccert cvalg npn sv H0 H1 Hv H2 H3 H4 H5 ->
    |ch v suite sig grp fl0 sv00 alpn fl sv0 cv ccert cvalg sv H0 H1 Hv H2 H3 H4 H5 H6 H7 ->];
  cbn [oc_client oc_server oc_flight]; intros P.
  - destruct (client_legacy_facts _ _ _ _ _ _ _ H4) as [_ [_ [_ [_ [_ [CC [CE _]]]]]]].
    destruct (server_legacy_finish_facts _ _ _ _ _ _ _ H5) as [_ [_ [TC _]]].
    rewrite CC, TC, CE. destruct (fl_cert_req fl); [destruct (cl_cert c); reflexivity|reflexivity].
  - destruct (server_tls13_facts _ _ _ _ _ _ _ _ _ H5) as [_ [[S1 _] _]].
    destruct (client_tls13_facts _ _ _ _ _ _ H6) as [_ [_ [_ [_ [_ [CC [CE _]]]]]]].
    destruct (server_tls13_finish_facts _ _ _ _ _ _ H7) as [[T1 _] TC].
    rewrite CC, TC, CE. rewrite T1, S1 in P.
    destruct P as [P|[P|P]]; [lia| |].
    + destruct (fl_cert_req fl); [destruct (cl_cert c); reflexivity|congruence].
    + rewrite P. destruct (fl_cert_req fl); reflexivity.
Qed.

(* ---- every negotiated parameter inside both policies ---------------------- *)
Lemma client_offer_ver c ch : client_offer c = Ok ch -> ch_ver ch = Z.min (st_maxV (cl_set c)) 3.
Proof.
  unfold client_offer. intros H.
  destruct (if 3 <=? st_maxV (cl_set c) then Some (client_sigalgs (cl_set c)) else None) as [[|a l]|];
    try discriminate H; injection H as <-; reflexivity.
Qed.

Lemma client_offer_shares c ch sh : client_offer c = Ok ch -> ch_shares ch = Some sh -> sh = st_shares (cl_set c).
Proof.
  unfold client_offer. intros H.
  destruct (if 3 <=? st_maxV (cl_set c) then Some (client_sigalgs (cl_set c)) else None) as [[|a l]|];
    try discriminate H; injection H as <-; cbn [ch_shares];
    destruct (_ && _); intros E; try discriminate E; injection E as <-; reflexivity.
Qed.

Lemma version_within_client c s o : negotiate c s = Ok o ->
  let v := vw_version (oc_server o) in
  st_minV (cl_set c) <= v /\ (v <= st_maxV (cl_set c) \/ In v (st_versions (cl_set c))).
Proof.
  intros H. apply negotiate_run in H. destruct H as
    [ch v suite sig grp fl sv0 cv ccert cvalg npn sv H0 H1 Hv H2 H3 H4 H5 ->
    |ch v suite sig grp fl0 sv00 alpn fl sv0 cv ccert cvalg sv H0 H1 Hv H2 H3 H4 H5 H6 H7 ->];
  cbn [oc_client oc_server oc_flight].
  - destruct (server_legacy_facts _ _ _ _ _ _ H2) as [[F1 _] [[S1 _] _]].
    destruct (server_legacy_finish_facts _ _ _ _ _ _ _ H5) as [[T1 _] _].
    destruct (client_check_hello_facts _ _ _ H3) as [A [B _]]. rewrite T1, S1. rewrite F1 in A, B. split; assumption.
  - destruct (server_tls13_facts _ _ _ _ _ _ _ _ _ H2) as [[F1 _] _].
    destruct (server_tls13_facts _ _ _ _ _ _ _ _ _ H5) as [_ [[S1 _] _]].
    destruct (server_tls13_finish_facts _ _ _ _ _ _ H7) as [[T1 _] _].
    destruct (client_check_hello_facts _ _ _ H3) as [A [B _]]. rewrite T1, S1. rewrite F1 in A, B. split; assumption.
Qed.


(* the stages of a run, with the views' version/suite tied to what the server picked *)
Lemma run_picked c s o : negotiate c s = Ok o ->
  exists ch v suite sig grp,
    client_offer c = Ok ch /\
    server_hello_stage s ch (cl_hello2_len c) = Ok (v, suite, sig, grp) /\
    vw_version (oc_server o) = v /\ vw_suite (oc_server o) = suite /\
    fl_version (oc_flight o) = v /\ fl_suite (oc_flight o) = suite /\
    In suite (ch_suites ch) /\ suite_in_version v v suite = true.
Proof.
  intros H. apply negotiate_run in H. destruct H as
    [ch v suite sig grp fl sv0 cv ccert cvalg npn sv H0 H1 Hv H2 H3 H4 H5 ->
    |ch v suite sig grp fl0 sv00 alpn fl sv0 cv ccert cvalg sv H0 H1 Hv H2 H3 H4 H5 H6 H7 ->];
  cbn [oc_client oc_server oc_flight]; exists ch, v, suite, sig, grp; (split; [exact H0|]); (split; [exact H1|]).
  - destruct (server_legacy_facts _ _ _ _ _ _ H2) as [[F1 [F2 _]] [[S1 [S2 _]] _]].
    destruct (server_legacy_finish_facts _ _ _ _ _ _ _ H5) as [[T1 [T2 _]] _].
    destruct (client_check_hello_facts _ _ _ H3) as [_ [_ [A B]]]. rewrite F1, F2 in *.
    rewrite T1, T2, S1, S2. repeat split; assumption.
  - destruct (server_tls13_facts _ _ _ _ _ _ _ _ _ H2) as [[G1 [G2 _]] _].
    destruct (server_tls13_facts _ _ _ _ _ _ _ _ _ H5) as [[F1 [F2 _]] [[S1 [S2 _]] _]].
    destruct (server_tls13_finish_facts _ _ _ _ _ _ H7) as [[T1 [T2 _]] _].
    destruct (client_check_hello_facts _ _ _ H3) as [_ [_ [A B]]]. rewrite G1, G2 in *.
    rewrite T1, T2, S1, S2. repeat split; assumption.
Qed.

Definition versions_clipped (st : Settings) : Prop :=
  st_minV st <= st_maxV st /\ forall x, In x (st_versions st) -> st_minV st <= x <= st_maxV st.

Lemma version_within_server c s o : negotiate c s = Ok o -> versions_clipped (sv_set s) ->
  st_minV (sv_set s) <= vw_version (oc_server o) <= st_maxV (sv_set s).
Proof.
  intros H [W1 W2]. destruct (run_picked _ _ _ H) as [ch [v [suite [sig [grp [H0 [H1 [V [_ _]]]]]]]]].
  rewrite V. destruct (server_hello_stage_facts _ _ _ _ _ _ _ H1) as [PV [MV _]].
  unfold server_pick_version in PV. unfold server_min_version in MV.
  pose proof (client_offer_ver _ _ H0) as CV.
  destruct (ch_supver ch) as [vs|].
  - destruct (first_matching (st_versions (sv_set s)) vs) eqn:F; [|discriminate PV].
    injection PV as <-. apply first_matching_some in F. apply W2. exact (proj1 F).
  - destruct (ch_ver ch <? st_minV (sv_set s)) eqn:L; [discriminate MV|]. apply Z.ltb_ge in L.
    destruct (st_maxV (sv_set s) <? ch_ver ch) eqn:L2; injection PV as <-.
    + apply Z.ltb_lt in L2. lia.
    + apply Z.ltb_ge in L2. lia.
Qed.

Lemma suite_within_both c s o : negotiate c s = Ok o ->
  let v := vw_version (oc_server o) in let suite := vw_suite (oc_server o) in
  suite_within (cl_set c) (st_maxV (cl_set c)) suite /\ suite_within (sv_set s) v suite /\
  suite_in_version v v suite = true.
Proof.
  intros H. destruct (run_picked _ _ _ H) as [ch [v [suite [sig [grp [H0 [H1 [V [S [_ [_ [IN SV]]]]]]]]]]]].
  cbn zeta. rewrite V, S.
  destruct (server_hello_stage_facts _ _ _ _ _ _ _ H1) as [_ [_ [SS _]]].
  destruct (in_server_suites _ _ _ _ SS) as [A _].
  split; [|split; [apply suite_allowed_within; exact A|exact SV]].
  rewrite (client_offer_suites _ _ H0) in IN. destruct IN as [E|IN].
  { rewrite <- E in SV. rewrite scsv_not_versioned in SV. discriminate SV. }
  apply in_app_or in IN. destruct IN as [IN|IN].
  - apply suite_allowed_within. unfold client_suites in IN. eapply in_get_suites. exact IN.
  - destruct (cl_fallback c); [|destruct IN]. destruct IN as [E|[]]. rewrite <- E in SV.
    rewrite fallback_not_versioned in SV. discriminate SV.
Qed.

(* ---- groups ---------------------------------------------------------------- *)
Definition server_groups_policy (st : Settings) : list Z := st_shares st ++ st_curves st ++ st_dhgroups st.

Lemma server_group13_in st ch grp : server_group13 st ch = Ok grp ->
  In (fst grp) (server_groups_policy st) /\
  exists sh, ch_shares ch = Some sh /\
             (In (fst grp) sh \/ exists gs, ch_groups ch = Some gs /\ In (fst grp) gs).
Proof.
  unfold server_group13, server_groups_policy. intros H.
  destruct (ch_shares ch) as [sh|]; [|discriminate H].
  destruct (first_matching (filter _ _) sh) eqn:F1.
  - destruct (first_matching (st_shares st ++ st_curves st ++ st_dhgroups st) sh) eqn:F2; [|discriminate H].
    injection H as <-. apply first_matching_some in F2. cbn [fst]. split; [exact (proj1 F2)|].
    exists sh. split; [reflexivity|left; exact (proj2 F2)].
  - destruct (first_matching _ (match ch_groups ch with Some g => g | None => [] end)) eqn:F2; [|discriminate H].
    injection H as <-. apply first_matching_some in F2. destruct F2 as [A B]. cbn [fst].
    apply filter_In in A. split; [exact (proj1 A)|].
    exists sh. split; [reflexivity|]. right. destruct (ch_groups ch) as [gs|]; [|destruct B].
    exists gs. split; [reflexivity|exact B].
Qed.

Lemma server_legacy_dh_group s ch v suite fl sv g :
  server_legacy s ch v suite = Ok (fl, sv) -> kex_of suite = 1 -> fl_group fl = Some g ->
  In g (st_dhgroups (sv_set s)) /\ exists gs, ch_groups ch = Some gs /\ In g gs.
Proof.
  intros H K. unfold server_legacy in H. inv_ok H. injection H as <- _. cbn [fl_group].
  rewrite K in *. cbn [Z.eqb Pos.eqb] in *. intros Hg.
  destruct (ch_groups ch) as [gs|]; [|injection E3 as <-; discriminate Hg].
  destruct (first_matching gs (st_dhgroups (sv_set s))) eqn:F.
  - injection E3 as <-. cbn [fst] in Hg. injection Hg as <-. apply first_matching_some in F.
    split; [exact (proj2 F)|]. exists gs. split; [reflexivity|exact (proj1 F)].
  - destruct (_ && _) in E3; [destruct (memZ suite anonSuites) in E3; discriminate E3|]. injection E3 as <-. discriminate Hg.
Qed.

Lemma group_within_both c s o g : negotiate c s = Ok o -> fl_group (oc_flight o) = Some g ->
  In g (server_groups_policy (sv_set s)) /\ In g (client_groups_policy (cl_set c)).
Proof.
  intros H. apply negotiate_run in H. destruct H as
    [ch v suite sig grp fl sv0 cv ccert cvalg npn sv H0 H1 Hv H2 H3 H4 H5 ->
    |ch v suite sig grp fl0 sv00 alpn fl sv0 cv ccert cvalg sv H0 H1 Hv H2 H3 H4 H5 H6 H7 ->];
  cbn [oc_client oc_server oc_flight]; intros Hg.
  - destruct (server_legacy_facts _ _ _ _ _ _ H2) as [[F1 [F2 _]] [_ [_ [GS _]]]].
    destruct (client_legacy_facts _ _ _ _ _ _ _ H4) as [_ [_ [GC _]]].
    unfold server_groups_policy, client_groups_policy.
    destruct (Z.eq_dec (kex_of suite) 2) as [K|K].
    + split; apply in_or_app; right; apply in_or_app; left; [exact (GS K g Hg)|].
      rewrite F2 in GC. exact (GC K g Hg).
    + destruct (Z.eq_dec (kex_of suite) 1) as [K1|K1].
      * destruct (server_legacy_dh_group _ _ _ _ _ _ _ H2 K1 Hg) as [A [gs [B C]]].
        split; [apply in_or_app; right; apply in_or_app; right; exact A|].
        exact (client_offer_groups _ _ _ _ H0 B C).
      * exfalso. clear - H2 K K1 Hg. unfold server_legacy in H2. inv_ok H2. injection H2 as <- _.
        cbn [fl_group] in Hg.
        destruct (kex_of suite =? 2) eqn:A; [apply Z.eqb_eq in A; contradiction|].
        destruct (kex_of suite =? 1) eqn:B; [apply Z.eqb_eq in B; contradiction|].
        injection E3 as <-. discriminate Hg.
  - destruct (server_tls13_facts _ _ _ _ _ _ _ _ _ H5) as [_ [_ [_ [G _]]]].
    rewrite (G g Hg).
    destruct (server_hello_stage_facts _ _ _ _ _ _ _ H1) as [_ [_ [_ [_ [GR _]]]]].
    destruct (server_group13_in _ _ _ (GR Hv)) as [A [sh [B C]]]. split; [exact A|].
    destruct C as [C|[gs [C1 C2]]].
    + rewrite (client_offer_shares _ _ _ H0 B) in C. unfold client_groups_policy. apply in_or_app. left. exact C.
    + exact (client_offer_groups _ _ _ _ H0 C1 C2).
Qed.

(* ---- signature scheme ------------------------------------------------------ *)
Lemma server_select_suite_sig s ch v suites suite sg :
  server_select_suite s ch v suites = Ok (suite, Some sg) ->
  exists l, ch_sigalgs ch = Some l /\ In sg l /\ In sg (sig_hashes_to_list (sv_set s) false (sv_cert s) v).
Proof.
  unfold server_select_suite. intros H.
  destruct (fix_eddsa_server && (v <? 3) && _); [discriminate H|].
  destruct (first_matching _ (ch_suites ch)); [|destruct (_ && _); discriminate H].
  destruct (if (3 <? v) && _ then Ok None else pick_ske_sig (sv_set s) (ch_sigalgs ch) (sv_cert s) v) as [sig|] eqn:P;
    [|discriminate H].
  cbn [bind] in H.
  assert (sig = Some sg) by (inv_ok H; injection H as _ <-; reflexivity). subst sig.
  destruct ((3 <? v) && _) in P; [discriminate P|]. exact (pick_ske_sig_some _ _ _ _ _ P).
Qed.

Lemma sig_within_both c s o sg : negotiate c s = Ok o -> fl_sig (oc_flight o) = Some sg ->
  In sg (client_sigalgs (cl_set c)) /\
  In sg (sig_hashes_to_list (sv_set s) false (sv_cert s)
           (if vw_version (oc_server o) <=? 3 then 3 else vw_version (oc_server o))).
Proof.
  intros H. apply negotiate_run in H. destruct H as
    [ch v suite sig grp fl sv0 cv ccert cvalg npn sv H0 H1 Hv H2 H3 H4 H5 ->
    |ch v suite sig grp fl0 sv00 alpn fl sv0 cv ccert cvalg sv H0 H1 Hv H2 H3 H4 H5 H6 H7 ->];
  cbn [oc_client oc_server oc_flight]; intros Hs.
  - destruct (server_legacy_facts _ _ _ _ _ _ H2) as [_ [[S1 _] [_ [_ [SG _]]]]].
    destruct (server_legacy_finish_facts _ _ _ _ _ _ _ H5) as [[T1 _] _]. rewrite T1, S1.
    destruct (SG sg Hs) as [l [A [B C]]]. rewrite (client_offer_sigalgs _ _ _ H0 A) in B.
    destruct (v <=? 3) eqn:L; [split; assumption|apply Z.leb_gt in L; lia].
  - destruct (server_tls13_facts _ _ _ _ _ _ _ _ _ H5) as [_ [[S1 _] [_ [_ [_ [_ [FS _]]]]]]].
    destruct (server_tls13_finish_facts _ _ _ _ _ _ H7) as [[T1 _] _]. rewrite T1, S1.
    rewrite FS in Hs. destruct (fl_psk fl); [discriminate Hs|]. subst sig.
    destruct (server_hello_stage_facts _ _ _ _ _ _ _ H1) as [_ [_ [_ [_ [_ SS]]]]].
    destruct (server_select_suite_sig _ _ _ _ _ _ SS) as [l [A [B C]]].
    rewrite (client_offer_sigalgs _ _ _ H0 A) in B.
    destruct (v <=? 3) eqn:L; [apply Z.leb_le in L; lia|split; assumption].
Qed.

(* the client additionally insists (TLS <= 1.2) that the scheme fits the certificate it got *)
Lemma sig_checked_by_client c s o sg sc : negotiate c s = Ok o -> vw_version (oc_server o) <= 3 ->
  fl_sig (oc_flight o) = Some sg -> fl_cert (oc_flight o) = Some sc ->
  In sg (sig_hashes_to_list (cl_set c) false (Some sc) 3).
Proof.
  intros H. apply negotiate_run in H. destruct H as
    [ch v suite sig grp fl sv0 cv ccert cvalg npn sv H0 H1 Hv H2 H3 H4 H5 ->
    |ch v suite sig grp fl0 sv00 alpn fl sv0 cv ccert cvalg sv H0 H1 Hv H2 H3 H4 H5 H6 H7 ->];
  cbn [oc_client oc_server oc_flight]; intros V Hs Hc.
  - destruct (server_legacy_facts _ _ _ _ _ _ H2) as [[F1 [F2 _]] [_ [_ [_ [_ [FC _]]]]]].
    destruct (client_legacy_facts _ _ _ _ _ _ _ H4) as [_ [_ [_ [AU _]]]].
    rewrite F2 in AU. rewrite FC in Hc. destruct (authed_suite suite); [|discriminate Hc].
    destruct (AU eq_refl) as [sc' [A [_ B]]]. rewrite FC in A. rewrite Hc in A. injection A as <-. exact (B sg Hs).
  - destruct (server_tls13_facts _ _ _ _ _ _ _ _ _ H5) as [_ [[S1 _] _]].
    destruct (server_tls13_finish_facts _ _ _ _ _ _ H7) as [[T1 _] _]. rewrite T1, S1 in V. lia.
Qed.

(* ---- key sizes ------------------------------------------------------------- *)
Definition sized_key (c : Cert) : Prop := ct_alg c = 0 \/ ct_alg c = 1 \/ ct_alg c = 5.

Lemma server_key_size_within_client c s o sc : negotiate c s = Ok o ->
  fl_cert (oc_flight o) = Some sc -> sized_key sc ->
  st_min_key (cl_set c) <= ct_bits sc <= st_max_key (cl_set c).
Proof.
  intros H. apply negotiate_run in H. destruct H as
    [ch v suite sig grp fl sv0 cv ccert cvalg npn sv H0 H1 Hv H2 H3 H4 H5 ->
    |ch v suite sig grp fl0 sv00 alpn fl sv0 cv ccert cvalg sv H0 H1 Hv H2 H3 H4 H5 H6 H7 ->];
  cbn [oc_client oc_server oc_flight]; intros Hc K.
  - destruct (server_legacy_facts _ _ _ _ _ _ H2) as [[F1 [F2 _]] [_ [_ [_ [_ [FC _]]]]]].
    destruct (client_legacy_facts _ _ _ _ _ _ _ H4) as [_ [_ [_ [AU _]]]].
    rewrite F2 in AU. rewrite FC in Hc. destruct (authed_suite suite); [|discriminate Hc].
    destruct (AU eq_refl) as [sc' [A [B _]]]. rewrite FC, Hc in A. injection A as <-.
    exact (check_chain_key_size _ _ _ _ B K).
  - destruct (server_tls13_facts _ _ _ _ _ _ _ _ _ H5) as [_ [_ [_ [_ [_ [FC _]]]]]].
    destruct (client_tls13_facts _ _ _ _ _ _ H6) as [_ [_ [_ [AU _]]]].
    destruct (fl_psk fl) eqn:P; [rewrite FC in Hc; discriminate Hc|].
    destruct (AU eq_refl) as [sc' [A B]]. rewrite Hc in A. injection A as <-.
    exact (check_chain_key_size _ _ _ _ B K).
Qed.

Lemma client_key_size_within_server c s o id : negotiate c s = Ok o ->
  vw_version (oc_server o) <= 3 -> vw_client_chain (oc_server o) = Some id ->
  exists mc, oc_client_cert o = Some mc /\ ct_id mc = id /\
             (sized_key mc -> st_min_key (sv_set s) <= ct_bits mc <= st_max_key (sv_set s)).
Proof.
  intros H. apply negotiate_run in H. destruct H as
    [ch v suite sig grp fl sv0 cv ccert cvalg npn sv H0 H1 Hv H2 H3 H4 H5 ->
    |ch v suite sig grp fl0 sv00 alpn fl sv0 cv ccert cvalg sv H0 H1 Hv H2 H3 H4 H5 H6 H7 ->];
  cbn [oc_client oc_server oc_flight oc_client_cert]; intros V Hc.
  - destruct (server_legacy_finish_facts _ _ _ _ _ _ _ H5) as [_ [_ [_ CK]]].
    destruct (CK id Hc) as [mc [A [B C]]]. exists mc. split; [exact A|]. split; [exact B|].
    intros K. exact (check_chain_key_size _ _ _ _ C K).
  - destruct (server_tls13_facts _ _ _ _ _ _ _ _ _ H5) as [_ [[S1 _] _]].
    destruct (server_tls13_finish_facts _ _ _ _ _ _ H7) as [[T1 _] _]. rewrite T1, S1 in V. lia.
Qed.

(* ---- exporter -------------------------------------------------------------- *)
Lemma exporter_same p1 p2 p3 cv sv label len :
  views_agree_core cv sv -> exporter p1 p2 p3 cv label len = exporter p1 p2 p3 sv label len.
Proof.
  intros [V [_ [_ [_ [_ [_ [_ [_ [_ S]]]]]]]]]. unfold exporter. rewrite V, S. reflexivity.
Qed.

(* ---- what the proposed repairs buy (conditional on the flags regenerated from the tree) ------ *)
Lemma client_legacy_dh_size c ch fl r b : client_legacy c ch fl = Ok r -> fix_dh_size = true ->
  kex_of (fl_suite fl) = 1 -> fl_dh_bits fl = Some b ->
  st_min_key (cl_set c) <= b <= st_max_key (cl_set c).
Proof.
  intros H F K Hb. unfold client_legacy in H. inv_ok H.
  rewrite F, K, Hb in E1. cbn [Z.eqb Pos.eqb andb] in E1.
  destruct (b <? st_min_key (cl_set c)) eqn:L1; [discriminate E1|].
  destruct (st_max_key (cl_set c) <? b) eqn:L2; [discriminate E1|].
  apply Z.ltb_ge in L1. apply Z.ltb_ge in L2. lia.
Qed.

Lemma server_tls13_no_dh s ch v suite scheme grp alpn fl sv :
  server_tls13 s ch v suite scheme grp alpn = Ok (fl, sv) -> fl_dh_bits fl = None.
Proof.
  intros H. unfold server_tls13 in H.
  match type of H with bind ?m _ = _ => destruct m; [|discriminate H] end.
  cbn [bind] in H. injection H as <- _. reflexivity.
Qed.

Lemma dh_size_within_client_repaired c s o b : negotiate c s = Ok o -> fix_dh_size = true ->
  kex_of (fl_suite (oc_flight o)) = 1 -> fl_dh_bits (oc_flight o) = Some b ->
  st_min_key (cl_set c) <= b <= st_max_key (cl_set c).
Proof.
  intros H. apply negotiate_run in H. destruct H as
    [ch v suite sig grp fl sv0 cv ccert cvalg npn sv H0 H1 Hv H2 H3 H4 H5 ->
    |ch v suite sig grp fl0 sv00 alpn fl sv0 cv ccert cvalg sv H0 H1 Hv H2 H3 H4 H5 H6 H7 ->];
  cbn [oc_flight]; intros F K Hb.
  - exact (client_legacy_dh_size _ _ _ _ _ H4 F K Hb).
  - rewrite (server_tls13_no_dh _ _ _ _ _ _ _ _ _ H5) in Hb. discriminate Hb.
Qed.

Lemma server_tls13_finish_key s fl sv0 ccert cv sv id : server_tls13_finish s fl sv0 ccert cv = Ok sv ->
  fix_tls13_client_key = true -> vw_client_chain sv = Some id ->
  exists mc, ccert = Some mc /\ ct_id mc = id /\ check_chain 2000 (sv_set s) (fl_version fl) mc = Ok tt.
Proof.
  intros H F. unfold server_tls13_finish in H. inv_ok H. injection H as <-. cbn [vw_client_chain].
  intros ->. destruct (fl_cert_req fl), ccert as [cc|]; try (injection E as E; discriminate E).
  rewrite F in E. inv_ok E. injection E as <-. exists cc. split; [reflexivity|]. split; [reflexivity|].
  match goal with U : check_chain 2000 _ _ cc = Ok ?u |- _ => destruct u; exact U end.
Qed.

Lemma client_key_size_within_server_repaired c s o id : negotiate c s = Ok o ->
  fix_tls13_client_key = true -> vw_client_chain (oc_server o) = Some id ->
  exists mc, oc_client_cert o = Some mc /\ ct_id mc = id /\
             (sized_key mc -> st_min_key (sv_set s) <= ct_bits mc <= st_max_key (sv_set s)).
Proof.
  intros H F Hc.
  destruct (Z_le_gt_dec (vw_version (oc_server o)) 3) as [L|L].
  - exact (client_key_size_within_server c s o id H L Hc).
  - apply negotiate_run in H. destruct H as
      [ch v suite sig grp fl sv0 cv ccert cvalg npn sv H0 H1 Hv H2 H3 H4 H5 ->
      |ch v suite sig grp fl0 sv00 alpn fl sv0 cv ccert cvalg sv H0 H1 Hv H2 H3 H4 H5 H6 H7 ->];
    cbn [oc_server oc_client_cert] in *.
    + destruct (server_legacy_facts _ _ _ _ _ _ H2) as [_ [[S1 _] _]].
      destruct (server_legacy_finish_facts _ _ _ _ _ _ _ H5) as [[T1 _] _]. rewrite T1, S1 in L. lia.
    + destruct (server_tls13_finish_key _ _ _ _ _ _ _ H7 F Hc) as [mc [A [B C]]].
      exists mc. split; [exact A|]. split; [exact B|]. intros K. exact (check_chain_key_size _ _ _ _ C K).
Qed.

(* ---- TLS 1.3 PSK key-exchange mode (0 = psk_dhe_ke, 1 = psk_ke) ------------------------------ *)
Lemma client_offer_psk_modes c ch m : client_offer c = Ok ch -> ch_psk_modes ch = Some m ->
  m = st_psk_modes (cl_set c).
Proof.
  unfold client_offer. intros H.
  destruct (if 3 <=? st_maxV (cl_set c) then Some (client_sigalgs (cl_set c)) else None) as [[|a l]|];
    try (destruct fix_sigalg_assert; discriminate H); injection H as <-; cbn [ch_psk_modes];
    destruct (_ && _); intros E; try discriminate E; injection E as <-; reflexivity.
Qed.

Definition psk_mode_of (fl : Flight) : Z := match fl_group fl with Some _ => 0 | None => 1 end.

Lemma server_tls13_psk_mode s ch v suite scheme grp alpn fl sv i :
  server_tls13 s ch v suite scheme grp alpn = Ok (fl, sv) -> fl_psk fl = Some i ->
  memZ (psk_mode_of fl) (match ch_psk_modes ch with Some m => m | None => [] end) = true /\
  memZ (psk_mode_of fl) (st_psk_modes (sv_set s)) = true.
Proof.
  intros H. unfold server_tls13 in H.
  match type of H with context [index_where ?f ?l ?z] => set (IW := index_where f l z) in * end.
  match type of H with bind (match ?p with _ => _ end) _ = _ => set (PSK := p) in * end.
  destruct (match PSK with Some _ => _ | None => _ end) as [dhe|] eqn:ED; [|discriminate H].
  cbn [bind] in H. injection H as <- _. unfold psk_mode_of. cbn [fl_psk fl_group].
  destruct PSK as [[j ident]|]; [|discriminate].
  intros _.
  destruct (memZ 0 _ && memZ 0 _) eqn:A.
  - injection ED as <-. apply andb_true_iff in A. exact A.
  - destruct (memZ 1 _ && memZ 1 _) eqn:B; [|discriminate ED].
    injection ED as <-. apply andb_true_iff in B. exact B.
Qed.

Lemma psk_mode_within_both c s o i : negotiate c s = Ok o -> fl_psk (oc_flight o) = Some i ->
  In (psk_mode_of (oc_flight o)) (st_psk_modes (cl_set c)) /\
  In (psk_mode_of (oc_flight o)) (st_psk_modes (sv_set s)).
Proof.
  intros H. apply negotiate_run in H. destruct H as
    [ch v suite sig grp fl sv0 cv ccert cvalg npn sv H0 H1 Hv H2 H3 H4 H5 ->
    |ch v suite sig grp fl0 sv00 alpn fl sv0 cv ccert cvalg sv H0 H1 Hv H2 H3 H4 H5 H6 H7 ->];
  cbn [oc_flight]; intros P.
  - destruct (server_legacy_facts _ _ _ _ _ _ H2) as [[_ [_ [F3 _]]] _]. rewrite F3 in P. discriminate P.
  - destruct (server_tls13_psk_mode _ _ _ _ _ _ _ _ _ _ H5 P) as [A B].
    split; [|apply memZ_In; exact B].
    destruct (ch_psk_modes ch) as [m|] eqn:M; [|discriminate A].
    rewrite <- (client_offer_psk_modes _ _ _ H0 M). apply memZ_In. exact A.
Qed.

Lemma server_chain_agrees_repaired c s o : negotiate c s = Ok o -> fix_dhe_dsa_chain = true ->
  fl_psk (oc_flight o) = None ->
  vw_server_chain (oc_client o) = vw_server_chain (oc_server o).
Proof.
  intros H. apply negotiate_run in H. destruct H as
    [ch v suite sig grp fl sv0 cv ccert cvalg npn sv H0 H1 Hv H2 H3 H4 H5 ->
    |ch v suite sig grp fl0 sv00 alpn fl sv0 cv ccert cvalg sv H0 H1 Hv H2 H3 H4 H5 H6 H7 ->];
  cbn [oc_client oc_server oc_flight]; intros F P.
  - destruct (server_legacy_facts _ _ _ _ _ _ H2) as [[F1 [F2 _]] [_ [_ [_ [_ [FC [SC _]]]]]]].
    destruct (client_legacy_facts _ _ _ _ _ _ _ H4) as [_ [_ [_ [_ [CC _]]]]].
    destruct (server_legacy_finish_facts _ _ _ _ _ _ _ H5) as [[_ [_ [_ [_ [_ [_ [_ [_ [T9 _]]]]]]]]] _].
    rewrite CC, T9, SC, FC, F2, F. unfold authed_suite. cbn [andb].
    destruct (memZ suite certAllSuites || memZ suite ecdheEcdsaSuites || memZ suite dheDsaSuites); reflexivity.
  - destruct (server_tls13_facts _ _ _ _ _ _ _ _ _ H5) as [_ [_ [_ [_ [_ [FC [_ [SC _]]]]]]]].
    destruct (client_tls13_facts _ _ _ _ _ _ H6) as [_ [_ [_ [_ [CC _]]]]].
    destruct (server_tls13_finish_facts _ _ _ _ _ _ H7) as [[_ [_ [_ [_ [_ [_ [_ [_ [_ [T10 _]]]]]]]]]] _].
    rewrite CC, T10, SC, FC, P. reflexivity.
Qed.
